import ZI.MergeLemmas
namespace ZI.RO

/-- membership and duplicate-freeness of the merge output need no hypothesis on the input lists -/
theorem go_mem : ∀ (f : Nat) (t : List (List Id)) (acc l : List Id),
    size t < f → go f t acc = some l →
    ∃ m, l = acc.reverse ++ m ∧ m.Nodup ∧ (∀ x, x ∈ m ↔ ∃ bs ∈ t, x ∈ bs) := by
  intro f
  induction f with
  | zero => intro t acc l h; omega
  | succ f ih =>
    intro t acc l hsz hgo
    simp only [go] at hgo
    split at hgo
    · rename_i hte
      have : t = [] := by simpa using hte
      subst this
      exact ⟨[], by simp at hgo; simp [hgo], List.nodup_nil, by intro x; simp⟩
    · split at hgo
      · simp at hgo
      · rename_i b hfn
        obtain ⟨⟨tl0, hhead⟩, _⟩ := findNext_spec hfn
        have hlt := size_dropIgn_lt hhead
        obtain ⟨m', hl, hnd', hmem'⟩ := ih (dropIgn t (some b)) (b :: acc) l (by omega) hgo
        have hb_notin : b ∉ m' := by
          intro hb
          obtain ⟨bs', hbs', hx⟩ := (hmem' b).mp hb
          obtain ⟨bs, _, rfl, _⟩ := mem_dropIgn_some.mp hbs'
          simp at hx
        refine ⟨b :: m', by simp [hl], List.nodup_cons.mpr ⟨hb_notin, hnd'⟩, ?_⟩
        intro x
        constructor
        · intro hx
          rcases List.mem_cons.mp hx with rfl | hx
          · exact ⟨_, hhead, by simp⟩
          · obtain ⟨bs', hbs', hxb⟩ := (hmem' x).mp hx
            obtain ⟨bs, hbs, rfl, _⟩ := mem_dropIgn_some.mp hbs'
            exact ⟨bs, hbs, (List.mem_filter.mp hxb).1⟩
        · rintro ⟨bs, hbs, hx⟩
          by_cases hxb : x = b
          · subst hxb; simp
          · apply List.mem_cons_of_mem
            apply (hmem' x).mpr
            refine ⟨bs.filter (fun y => y != b), mem_dropIgn_some.mpr ⟨bs, hbs, rfl, ?_⟩, ?_⟩
            · intro he
              have : x ∈ bs.filter (fun y => y != b) := List.mem_filter.mpr ⟨hx, by simpa using hxb⟩
              rw [he] at this; simp at this
            · exact List.mem_filter.mpr ⟨hx, by simpa using hxb⟩

/-- `dropIgn _ none` only removes empty lists -/
theorem mem_dropIgn_none {t : List (List Id)} {bs : List Id} : bs ∈ dropIgn t none ↔ bs ∈ t ∧ bs ≠ [] := by
  unfold dropIgn
  simp only [List.mem_filter, List.mem_map]
  constructor
  · rintro ⟨⟨bs0, h0, rfl⟩, hne⟩
    have : bs0.filter (fun b => some b != none) = bs0 := by
      apply List.filter_eq_self.mpr; intro x _; simp
    rw [this] at hne ⊢
    exact ⟨h0, by intro hc; simp [hc] at hne⟩
  · rintro ⟨h, hne⟩
    refine ⟨⟨bs, h, ?_⟩, ?_⟩
    · apply List.filter_eq_self.mpr; intro x _; simp
    · cases bs with
      | nil => exact absurd rfl hne
      | cons => simp

/-- the whole `C3._merge` as called by `mro()` -/
theorem mergeLoop_mem {tree : List (List Id)} {l : List Id}
    (h : mergeLoop (size tree + 1) tree none [] = some l) :
    l.Nodup ∧ ∀ x, x ∈ l ↔ ∃ bs ∈ tree, x ∈ bs := by
  rw [mergeLoop_eq_go] at h
  have hsz : size (dropIgn tree none) < size tree + 1 := by
    have := size_dropIgn_le tree none; omega
  obtain ⟨m, hl, hnd, hmem⟩ := go_mem _ _ _ _ hsz h
  simp at hl; subst hl
  refine ⟨hnd, fun x => ?_⟩
  rw [hmem]
  constructor
  · rintro ⟨bs, hbs, hx⟩; exact ⟨bs, (mem_dropIgn_none.mp hbs).1, hx⟩
  · rintro ⟨bs, hbs, hx⟩
    exact ⟨bs, mem_dropIgn_none.mpr ⟨hbs, by intro hc; simp [hc] at hx⟩, hx⟩

theorem mergeLoop_sublist {tree : List (List Id)} {l : List Id}
    (h : mergeLoop (size tree + 1) tree none [] = some l) :
    ∀ bs ∈ tree, bs.Nodup → bs.Sublist l := by
  rw [mergeLoop_eq_go] at h
  have hsz : size (dropIgn tree none) < size tree + 1 := by
    have := size_dropIgn_le tree none; omega
  obtain ⟨m, hl, _, _, hsub⟩ := go_spec _ _ _ _ hsz (noEmpty_dropIgn _ _) h
  simp at hl; subst hl
  intro bs hbs hnd
  by_cases he : bs = []
  · subst he; exact List.nil_sublist _
  · exact hsub bs (mem_dropIgn_none.mpr ⟨hbs, he⟩) hnd

/-! ### legacy fallback: last-occurrence dedupe of the DFS preorder -/
theorem mem_keepLast {l : List Id} {x : Id} : x ∈ keepLast l ↔ x ∈ l := by
  induction l with
  | nil => simp [keepLast]
  | cons y ys ih =>
    simp only [keepLast]
    split
    · rename_i hc
      rw [ih]; simp only [List.mem_cons]
      constructor
      · exact Or.inr
      · rintro (rfl | h)
        · simpa using hc
        · exact h
    · simp [ih]

theorem nodup_keepLast (l : List Id) : (keepLast l).Nodup := by
  induction l with
  | nil => simp [keepLast]
  | cons y ys ih =>
    simp only [keepLast]
    split
    · exact ih
    · rename_i hc
      refine List.nodup_cons.mpr ⟨?_, ih⟩
      rw [mem_keepLast]; simpa using hc

theorem keepLast_sublist (l : List Id) : (keepLast l).Sublist l := by
  induction l with
  | nil => simp [keepLast]
  | cons y ys ih =>
    simp only [keepLast]
    split
    · exact ih.cons y
    · exact ih.cons_cons y

end ZI.RO

#print axioms ZI.RO.go_spec
#print axioms ZI.RO.mergeLoop_mem
#print axioms ZI.RO.mergeLoop_sublist
#print axioms ZI.RO.nodup_keepLast
