import ZI.UpdateLemma
/-! Scratch (design phase): C09 core — laws of the nested containers of adapter.py (`register` = update at a path,
    `unregister` = remove at a path with pruning of emptied containers). -/
namespace ZI.Lv
open ZI.Upd
variable {κ : Type} [DecidableEq κ]
def erase {α} (m : AList κ α) (k : κ) : AList κ α := m.filter (fun p => ¬ p.1 = k)

theorem get?_erase {α} (m : AList κ α) (k k' : κ) : get? (erase m k) k' = if k = k' then none else get? m k' := by
  unfold erase
  induction m with
  | nil => by_cases h : k = k' <;> simp [h, get?_nil]
  | cons p t ih =>
    simp only [List.filter_cons]
    by_cases hp : p.1 = k
    · subst hp
      simp only [not_true_eq_false, decide_false, Bool.false_eq_true, if_false, ih, get?_cons]
      by_cases hk : p.1 = k' <;> simp [hk]
    · simp only [hp, not_false_eq_true, decide_true, if_true, get?_cons, ih]
      by_cases hk : k = k'
      · subst hk; simp [hp]
      · simp [hk]

/-! ### depth-indexed containers -/
def Level (κ α : Type) : Nat → Type
  | 0 => α
  | n+1 => AList κ (Level κ α n)
def leafOf {α} (l : Level κ α 0) : α := l
def kidsOf {α} {n : Nat} (l : Level κ α (n+1)) : AList κ (Level κ α n) := l
def mkLeaf {α} (a : α) : Level κ α 0 := a
def mkNode {α} {n : Nat} (m : AList κ (Level κ α n)) : Level κ α (n+1) := m
@[simp] theorem leafOf_mkLeaf {α} (a : α) : leafOf (κ := κ) (mkLeaf a) = a := rfl
@[simp] theorem kidsOf_mkNode {α} {n : Nat} (m : AList κ (Level κ α n)) : kidsOf (mkNode m) = m := rfl

def Level.empty {α} (e : α) : (n : Nat) → Level κ α n
  | 0 => mkLeaf e
  | _+1 => mkNode []

def Level.find {α} : (n : Nat) → Level κ α n → List κ → Option α
  | 0, l, [] => some (leafOf l)
  | 0, _, _ :: _ => none
  | _+1, _, [] => none
  | n+1, m, k :: ks => (get? (kidsOf m) k).bind fun c => Level.find n c ks

def Level.update {α} (e : α) (f : α → α) : (n : Nat) → Level κ α n → List κ → Level κ α n
  | 0, l, _ => mkLeaf (f (leafOf l))
  | n+1, m, path =>
    match path with
    | [] => m
    | k :: ks =>
      let child := (get? (kidsOf m) k).getD (Level.empty e n)
      mkNode (set (kidsOf m) k (Level.update e f n child ks))

theorem find_empty_succ {α} (e : α) (n : Nat) (p : List κ) : Level.find (n+1) (Level.empty (κ := κ) e (n+1)) p = none := by
  cases p with
  | nil => rfl
  | cons k ks => simp [Level.find, Level.empty, get?]

/-- what `update` does to `find`: only the addressed leaf changes (a missing leaf counts as `e`) -/
theorem find_update {α} (e : α) (f : α → α) : ∀ (n : Nat) (t : Level κ α n) (path path' : List κ),
    path.length = n → path'.length = n →
    Level.find n (Level.update e f n t path) path' =
      if path' = path then some (f ((Level.find n t path).getD e))
      else Level.find n t path' := by
  intro n
  induction n with
  | zero =>
    intro t path path' h h'
    have : path = [] := by cases path <;> simp_all
    have : path' = [] := by cases path' <;> simp_all
    subst_vars
    simp [Level.update, Level.find]
  | succ n ih =>
    intro t path path' h h'
    cases path with
    | nil => simp at h
    | cons k ks =>
      cases path' with
      | nil => simp at h'
      | cons k' ks' =>
        have hks : ks.length = n := by simpa using h
        have hks' : ks'.length = n := by simpa using h'
        simp only [Level.update, Level.find, kidsOf_mkNode, get?_set]
        by_cases hk : k = k'
        · subst hk
          simp only [if_true, Option.bind_some, List.cons.injEq, true_and]
          rw [ih _ ks ks' hks hks']
          cases hg : get? (kidsOf t) k with
          | some c =>
            simp only [Option.getD_some, Option.bind_some]
          | none =>
            simp only [Option.getD_none, Option.bind_none]
            by_cases he : ks' = ks
            · subst he
              cases n with
              | zero =>
                have : ks' = [] := by cases ks' <;> simp_all
                subst this
                simp [Level.find, Level.empty]
              | succ m => simp [find_empty_succ]
            · simp only [he, if_false]
              cases n with
              | zero =>
                have h1 : ks = [] := by cases ks <;> simp_all
                have h2 : ks' = [] := by cases ks' <;> simp_all
                exact absurd (h2.trans h1.symm) he
              | succ m => exact find_empty_succ e m ks'
        · have : ¬ (k' :: ks' = k :: ks) := by intro he; injection he with e1 _; exact hk e1.symm
          simp [hk, this]

#print axioms find_update
end ZI.Lv

namespace ZI.Lv
open ZI.Upd
variable {κ : Type} [DecidableEq κ]

/-- remove at a leaf (`f`), pruning containers emptied on the way back; the flag says "this container became empty" -/
def Level.remove {α} (isEmpty : α → Bool) (f : α → α) : (n : Nat) → Level κ α n → List κ → Level κ α n × Bool
  | 0, l, _ => (mkLeaf (f (leafOf l)), isEmpty (f (leafOf l)))
  | n+1, m, path =>
    match path with
    | [] => (m, false)
    | k :: ks =>
      match get? (kidsOf m) k with
      | none => (m, false)
      | some child =>
        let r := Level.remove isEmpty f n child ks
        let m' := if r.2 then erase (kidsOf m) k else set (kidsOf m) k r.1
        (mkNode m', r.2 && m'.isEmpty)

theorem remove_step_none {α} (isEmpty : α → Bool) (f : α → α) (n : Nat) (m : Level κ α (n+1)) (k : κ) (ks : List κ)
    (hg : get? (kidsOf m) k = none) : Level.remove isEmpty f (n+1) m (k :: ks) = (m, false) := by
  conv => lhs; unfold Level.remove
  simp only [hg]

theorem remove_step_some {α} (isEmpty : α → Bool) (f : α → α) (n : Nat) (m : Level κ α (n+1)) (k : κ) (ks : List κ)
    (child : Level κ α n) (hg : get? (kidsOf m) k = some child) :
    Level.remove isEmpty f (n+1) m (k :: ks) =
      (mkNode (if (Level.remove isEmpty f n child ks).2 then erase (kidsOf m) k
               else set (kidsOf m) k (Level.remove isEmpty f n child ks).1),
       (Level.remove isEmpty f n child ks).2 &&
         (if (Level.remove isEmpty f n child ks).2 then erase (kidsOf m) k
          else set (kidsOf m) k (Level.remove isEmpty f n child ks).1).isEmpty) := by
  conv => lhs; unfold Level.remove
  simp only [hg]

theorem remove_flag {α} (isEmpty : α → Bool) (f : α → α) (n : Nat) (t : Level κ α (n+1)) (path : List κ)
    (h : (Level.remove isEmpty f (n+1) t path).2 = true) : kidsOf (Level.remove isEmpty f (n+1) t path).1 = [] := by
  cases path with
  | nil => simp [Level.remove] at h
  | cons k ks =>
    cases hg : get? (kidsOf t) k with
    | none => rw [remove_step_none _ _ _ _ _ _ hg] at h; simp at h
    | some child =>
      rw [remove_step_some _ _ _ _ _ _ child hg] at h ⊢
      simp only [Bool.and_eq_true] at h
      simp only [kidsOf_mkNode]
      exact List.isEmpty_iff.mp h.2

theorem find_of_no_kids {α} {n : Nat} {m : Level κ α (n+1)} (h : kidsOf m = []) (p : List κ) :
    Level.find (n+1) m p = none := by
  cases p with
  | nil => rfl
  | cons k ks => simp [Level.find, h, get?_nil]

/-- what `remove` does to `find`: the addressed leaf becomes `f a`, or disappears if that is empty; nothing else
changes — pruning an emptied container never loses a sibling. -/
theorem find_remove {α} (isEmpty : α → Bool) (f : α → α) : ∀ (n : Nat) (t : Level κ α (n+1)) (path path' : List κ),
    path.length = n+1 → path'.length = n+1 →
    Level.find (n+1) (Level.remove isEmpty f (n+1) t path).1 path' =
      if path' = path then (Level.find (n+1) t path).bind fun a => if isEmpty (f a) then none else some (f a)
      else Level.find (n+1) t path' := by
  intro n
  induction n with
  | zero =>
    intro t path path' h h'
    obtain ⟨k, rfl⟩ : ∃ k, path = [k] := by
      cases path with
      | nil => simp at h
      | cons k ks => cases ks with
        | nil => exact ⟨k, rfl⟩
        | cons _ _ => simp at h
    obtain ⟨k', rfl⟩ : ∃ k', path' = [k'] := by
      cases path' with
      | nil => simp at h'
      | cons k ks => cases ks with
        | nil => exact ⟨k, rfl⟩
        | cons _ _ => simp at h'
    simp only [Level.remove, Level.find]
    cases hg : get? (kidsOf t) k with
    | none =>
      by_cases hk : k' = k
      · subst hk; simp [hg]
      · simp [hk]
    | some child =>
      simp only [leafOf_mkLeaf]
      by_cases hempty : isEmpty (f (leafOf child)) = true
      · simp only [hempty, if_true, kidsOf_mkNode, get?_erase]
        by_cases hk : k = k'
        · subst hk; simp [hg, Level.find, hempty]
        · have : ¬ ([k'] = [k]) := by intro e; injection e with e1; exact hk e1.symm
          simp [hk, this]
      · simp only [hempty, Bool.false_eq_true, if_false, kidsOf_mkNode, get?_set]
        by_cases hk : k = k'
        · subst hk; simp [hg, Level.find, hempty]
        · have : ¬ ([k'] = [k]) := by intro e; injection e with e1; exact hk e1.symm
          simp [hk, this]
  | succ n ih =>
    intro t path path' h h'
    cases path with
    | nil => simp at h
    | cons k ks =>
      cases path' with
      | nil => simp at h'
      | cons k' ks' =>
        have hks : ks.length = n+1 := by simpa using h
        have hks' : ks'.length = n+1 := by simpa using h'
        have hfindt : ∀ (x : List κ) (c : Level κ α (n+1)), get? (kidsOf t) k = some c →
            Level.find (n+2) t (k :: x) = Level.find (n+1) c x := by
          intro x c hc; simp [Level.find, hc]
        cases hg : get? (kidsOf t) k with
        | none =>
          rw [remove_step_none _ _ _ _ _ _ hg]
          by_cases he : k' :: ks' = k :: ks
          · injection he with e1 e2; subst e1; subst e2
            simp [Level.find, hg]
          · simp [he]
        | some child =>
          rw [remove_step_some _ _ _ _ _ _ child hg]
          have ihc := ih child ks ks' hks hks'
          by_cases hk : k = k'
          · subst hk
            rw [hfindt ks' child hg, hfindt ks child hg]
            have hcond : (k :: ks' = k :: ks) ↔ ks' = ks := by
              constructor
              · intro e; injection e
              · intro e; rw [e]
            by_cases hr : (Level.remove isEmpty f (n+1) child ks).2 = true
            · -- the child became empty and is erased
              simp only [hr, if_true]
              have hnone : Level.find (n+2) (mkNode (erase (kidsOf t) k)) (k :: ks') = none := by
                simp [Level.find, get?_erase]
              rw [hnone]
              have hz := find_of_no_kids (remove_flag isEmpty f n child ks hr) ks'
              rw [hz] at ihc
              by_cases he : ks' = ks
              · simp only [he, if_true] at ihc ⊢; exact ihc
              · simp only [he, if_false, hcond] at ihc ⊢; exact ihc
            · simp only [hr, Bool.false_eq_true, if_false]
              have hf2 : Level.find (n+2) (mkNode (set (kidsOf t) k (Level.remove isEmpty f (n+1) child ks).1)) (k :: ks') =
                  Level.find (n+1) (Level.remove isEmpty f (n+1) child ks).1 ks' := by
                simp [Level.find, get?_set]
              rw [hf2, ihc]
              by_cases he : ks' = ks
              · simp [he]
              · simp [he, hcond]
          · have hne : ¬ (k' :: ks' = k :: ks) := by intro e; injection e with e1 _; exact hk e1.symm
            simp only [hne, if_false]
            by_cases hr : (Level.remove isEmpty f (n+1) child ks).2 = true
            · simp [hr, Level.find, get?_erase, hk]
            · simp [hr, Level.find, get?_set, hk]

#print axioms find_remove
end ZI.Lv
