import ZI.Own
namespace ZI.Own

/-! ### how the abstract update relates old and new abstract values -/
theorem set_self (σ : AState) (v : Var) (a : Abs) : (σ.set v a) v = a := by simp [AState.set]
theorem set_other (σ : AState) {v x : Var} (a : Abs) (h : x ≠ v) : (σ.set v a) x = σ x := by simp [AState.set, h]

theorem dropInside_owned {σ : AState} {w x : Var} : dropInside σ w x = .owned ↔ σ x = .owned := by
  unfold dropInside; cases h : σ x <;> grind
theorem dropInside_bField {σ : AState} {w x : Var} {f : Field} : dropInside σ w x = .bField f ↔ σ x = .bField f := by
  unfold dropInside; cases h : σ x <;> grind
theorem dropInside_bInside {σ : AState} {w x w' : Var} {imm : Bool} :
    dropInside σ w x = .bInside w' imm ↔ σ x = .bInside w' imm ∧ w' ≠ w := by
  unfold dropInside; cases h : σ x <;> grind

theorem chain_congr {h h' : Heap} (hf : h'.fieldPtr = h.fieldPtr) (hc : h'.child = h.child) {f : Field} {o : Obj}
    (c : Chain h f o) : Chain h' f o := by
  induction c with
  | root e => exact Chain.root (by rw [hf]; exact e)
  | step _ e ih => exact Chain.step ih (by rw [hc]; exact e)

theorem chain_other_field {h h' : Heap} {f g : Field} (hf : ∀ g, g ≠ f → h'.fieldPtr g = h.fieldPtr g)
    (hc : h'.child = h.child) (hgf : g ≠ f) {o : Obj} (c : Chain h g o) : Chain h' g o := by
  induction c with
  | root e => exact Chain.root (by rw [hf g hgf]; exact e)
  | step _ e ih => exact Chain.step ih (by rw [hc]; exact e)

/-- rebinding local `v` (heap unchanged) -/
theorem inv_rebind {c : Cfg} (inv : Inv c) (v : Var) (o : Obj) (a : Abs)
    (ha : match a with
      | .owned => c.heap.alive o
      | .bField f => Chain c.heap f o
      | .bInside w imm => c.σ w = .owned ∧ w ≠ v ∧ c.heap.child (c.loc w) o ∧ (imm = true → c.heap.imm (c.loc w))
      | .unk => True) :
    Inv ⟨c.heap, fun x => if x = v then o else c.loc x, (dropInside c.σ v).set v a⟩ := by
  refine ⟨⟨inv.wf.field, inv.wf.child, ?_⟩, ?_, ?_⟩
  · rintro q ⟨x, hx, hq⟩
    dsimp only at hx hq ⊢
    by_cases hxv : x = v
    · subst hxv
      rw [set_self] at hx; subst hx
      simp at hq; subst hq; exact ha
    · rw [set_other _ _ hxv, dropInside_owned] at hx
      simp [hxv] at hq
      exact inv.wf.frame _ ⟨x, hx, hq⟩
  · intro x f hx
    dsimp only at hx ⊢
    by_cases hxv : x = v
    · subst hxv
      rw [set_self] at hx; subst hx
      simpa using ha
    · rw [set_other _ _ hxv, dropInside_bField] at hx
      simpa [hxv] using inv.bfield x f hx
  · intro x w imm hx hw
    dsimp only at hx hw ⊢
    by_cases hxv : x = v
    · subst hxv
      rw [set_self] at hx; subst hx
      obtain ⟨_, hwv, hch, himm⟩ := ha
      simp [hwv]; exact ⟨hch, himm⟩
    · rw [set_other _ _ hxv, dropInside_bInside] at hx
      obtain ⟨hx, hwv⟩ := hx
      rw [set_other _ _ hwv, dropInside_owned] at hw
      simpa [hxv, hwv] using inv.binside x w imm hx hw

theorem afterEnv_owned {σ : AState} {only : Option Field} {x : Var} : afterEnv σ only x = .owned ↔ σ x = .owned := by
  unfold afterEnv; cases h : σ x <;> grind

theorem afterEnv_bField {σ : AState} {only : Option Field} {x : Var} {g : Field} :
    afterEnv σ only x = .bField g → σ x = .bField g ∧ only ≠ none ∧ only ≠ some g := by
  unfold afterEnv; cases h : σ x <;> grind

theorem afterEnv_bInside {σ : AState} {only : Option Field} {x w : Var} {imm : Bool} :
    afterEnv σ only x = .bInside w imm → σ x = .bInside w imm ∧ (only = none → imm = true) := by
  unfold afterEnv; cases h : σ x <;> grind

/-- **every step preserves the link between the static state and the heap** -/
theorem inv_step {c c' : Cfg} {op : Op} (inv : Inv c) (st : Step c op c') : Inv c' := by
  cases st with
  | new v o σ' h ho =>
    simp only [astep, Option.some.injEq] at h; subst h
    exact inv_rebind inv v o .owned ho
  | borrowField v f o σ' h hc =>
    simp only [astep, Option.some.injEq] at h; subst h
    exact inv_rebind inv v o (.bField f) hc
  | borrowInside v w imm o σ' h hc himm =>
    simp only [astep] at h
    split at h
    · rename_i hw
      simp only [Option.some.injEq] at h; subst h
      exact inv_rebind inv v o (.bInside w imm) ⟨hw.1, fun e => hw.2 e.symm, hc, himm⟩
    · simp at h
  | getItem v w o σ' h hc =>
    simp only [astep] at h
    split at h
    · simp at h
    · rename_i hvw
      split at h
      · rename_i ho
        simp only [Option.some.injEq] at h; subst h
        exact inv_rebind inv v o (.bInside w false) ⟨ho, fun e => hvw e.symm, hc, by simp⟩
      · rename_i f hf
        simp only [Option.some.injEq] at h; subst h
        exact inv_rebind inv v o (.bField f) (Chain.step (inv.bfield w f hf) hc)
      · simp at h
  | use v σ' h =>
    simp only [astep] at h
    split at h
    · simp only [Option.some.injEq] at h; subst h; exact inv
    · simp at h
  | incref v σ' h =>
    simp only [astep] at h
    split at h
    · rename_i hu
      simp only [Option.some.injEq] at h; subst h
      have := inv_rebind inv v (c.loc v) .owned (usable_alive inv hu)
      have e : (fun x => if x = v then c.loc v else c.loc x) = c.loc := by funext x; split <;> simp_all
      rw [e] at this; exact this
    · simp at h
  | decref v σ' h' h hf hc hi wf' =>
    simp only [astep] at h
    split at h
    · simp only [Option.some.injEq] at h; subst h
      refine ⟨wf', ?_, ?_⟩
      · intro x f hx
        dsimp only at hx ⊢
        by_cases hxv : x = v
        · subst hxv; rw [set_self] at hx; simp at hx
        · rw [set_other _ _ hxv, dropInside_bField] at hx
          exact chain_congr hf hc (inv.bfield x f hx)
      · intro x w imm hx hw
        dsimp only at hx hw ⊢
        by_cases hxv : x = v
        · subst hxv; rw [set_self] at hx; simp at hx
        · rw [set_other _ _ hxv, dropInside_bInside] at hx
          obtain ⟨hx, hwv⟩ := hx
          rw [set_other _ _ hwv, dropInside_owned] at hw
          have := inv.binside x w imm hx hw
          show h'.child _ _ ∧ (imm = true → h'.imm _)
          rw [hc, hi]; exact this
    · simp at h
  | callback h' σ' h henv =>
    simp only [astep, Option.some.injEq] at h; subst h
    refine ⟨henv.1, ?_, ?_⟩
    · intro x f hx
      dsimp only at hx ⊢
      have := (afterEnv_bField hx).2.1
      exact absurd rfl this
    · intro x w imm hx hw
      dsimp only at hx hw ⊢
      obtain ⟨hx', himm⟩ := afterEnv_bInside hx
      have himm' : imm = true := himm rfl
      have hw' : c.σ w = .owned := afterEnv_owned.mp hw
      obtain ⟨hch, hi⟩ := inv.binside x w imm hx' hw'
      have halive : h'.alive (c.loc w) := henv.1.frame _ ⟨w, hw, rfl⟩
      obtain ⟨hi', hkeep⟩ := henv.2 (c.loc w) (hi himm')
      exact ⟨hkeep halive _ hch, fun _ => hi'⟩
  | clear f h' σ' h hf hc hi wf' =>
    simp only [astep, Option.some.injEq] at h; subst h
    refine ⟨wf', ?_, ?_⟩
    · intro x g hx
      dsimp only at hx ⊢
      obtain ⟨hx', _, hne⟩ := afterEnv_bField hx
      have hgf : g ≠ f := fun e => hne (by rw [e])
      exact chain_other_field hf hc hgf (inv.bfield x g hx')
    · intro x w imm hx hw
      dsimp only at hx hw ⊢
      obtain ⟨hx', _⟩ := afterEnv_bInside hx
      have hw' : c.σ w = .owned := afterEnv_owned.mp hw
      have := inv.binside x w imm hx' hw'
      show h'.child _ _ ∧ (imm = true → h'.imm _)
      rw [hc, hi]; exact this

/-- the abstract state after a step is the one the check computed -/
theorem step_astep {c c' : Cfg} {op : Op} (st : Step c op c') : astep c.σ op = some c'.σ := by
  cases st <;> assumption

/-- no execution of `p` from `c` ever touches a freed object -/
def SafeP : Prog → Cfg → Prop
  | .done, _ => True
  | .ret _, _ => True
  | .seq o rest, c => ¬ UseAfterFree c o ∧ ∀ c', Step c o c' → SafeP rest c'
  | .branch p q, c => SafeP p c ∧ SafeP q c

/-- **C11_safe (core)**: a program accepted by the static check is memory-safe under every environment. -/
theorem check_sound : ∀ (p : Prog) (c : Cfg), check p c.σ = true → Inv c → SafeP p c := by
  intro p
  induction p with
  | done => intro c _ _; trivial
  | ret r => intro c _ _; trivial
  | seq o rest ih =>
    intro c hc inv
    simp only [check] at hc
    split at hc
    · rename_i σ' ha
      refine ⟨safe_op inv ha, fun c' st => ?_⟩
      have e := step_astep st
      rw [ha] at e; simp at e
      exact ih c' (by rw [← e]; exact hc) (inv_step inv st)
    · simp at hc
  | branch p q ihp ihq =>
    intro c hc inv
    simp only [check, Bool.and_eq_true] at hc
    exact ⟨ihp c hc.1 inv, ihq c hc.2 inv⟩

#print axioms check_sound

/-! ### the shape of `_lookup` at the pinned commit, and after the repair -/
-- vars: 0 required, 1 cache, 2 key, 3 result
def lookupAsIs : Prog :=
  .seq .callback <| .seq (.new 0) <|                 -- required = PySequence_Tuple(required)
  .seq (.borrowField 1 0) <|                           -- cache = _getcache(self, provided, name)
  .seq (.borrowInside 2 0 true) <|                     -- key = PyTuple_GET_ITEM(required, 0)
  .seq (.use 1) <|                                     -- PyDict_GetItem(cache, key)
  .branch
    (.seq .callback <| .seq (.new 3) <|                -- result = self._uncached_lookup(...)
     .seq (.use 1) <|                                  -- PyDict_SetItem(cache, key, result)   <-- dangling
     .seq (.decref 0) .done)
    (.seq (.borrowField 3 0) <| .seq (.incref 3) <| .seq (.decref 0) .done)

def lookupFixed : Prog :=
  .seq .callback <| .seq (.new 0) <|
  .seq (.borrowField 1 0) <| .seq (.incref 1) <|       -- Py_INCREF(cache)
  .seq (.borrowInside 2 0 true) <|
  .seq (.use 1) <|
  .branch
    (.seq .callback <| .seq (.new 3) <|
     .seq (.use 1) <| .seq (.decref 1) <|              -- store, then Py_DECREF(cache)
     .seq (.decref 0) .done)
    (.seq (.borrowField 3 0) <| .seq (.incref 3) <| .seq (.decref 1) <| .seq (.decref 0) .done)

example : check lookupAsIs (fun _ => .unk) = false := by decide
example : check lookupFixed (fun _ => .unk) = true := by decide
end ZI.Own
