import ZI.OrderDefs
/-! C12 model, operand level (core Lean only): the rich-comparison *methods* of `InterfaceClass` (Python reference
`NameAndModuleComparisonMixin` + `InterfaceBase.__eq__/__ne__/__hash__`, and the C twin `IB_richcompare`),
of `Implements` (mixin ordering, default identity `==`/`!=`/hash), of `None` and of foreign objects (default methods),
and CPython's binary-operator protocol on top of them (`a op b`: `a.__op__(b)`, then the reflected method of `b`,
then identity for `==`/`!=`, `TypeError` otherwise).  `sorted()` is modelled as a stable insertion sort that only
asks `<`, as `list.sort` does. -/
namespace ZI.Order

inductive Operand
  | iface (id : Nat) (k : Key)      -- an InterfaceClass instance; `id` = object identity
  | impl (id : Nat) (k : Key)       -- an `Implements` specification (`implementedBy(cls)`)
  | none                            -- Python `None`
  | foreign (id : Nat) (k : Key)    -- any other object with string `__name__` and `__module__`
  | plain (id : Nat)                -- an object without those attributes
deriving DecidableEq, Repr

/-- object identity (`is`); `None` is a singleton -/
def Operand.ident : Operand → Option Nat
  | .iface i _ => some i | .impl i _ => some i | .none => Option.none | .foreign i _ => some i | .plain i => some i

def Operand.same (a b : Operand) : Bool := a.ident == b.ident

/-- `(other.__name__, other.__module__)`, `none` = AttributeError -/
def Operand.key? : Operand → Option Key
  | .iface _ k => some k | .impl _ k => some k | .foreign _ k => some k | _ => Option.none

def swapOp : Cmp → Cmp
  | .lt => .gt | .le => .ge | .gt => .lt | .ge => .le | .eq => .eq | .ne => .ne

def intOp (op : Cmp) (c : Int) : Bool :=
  match op with
  | .lt => c < 0 | .le => c ≤ 0 | .gt => c > 0 | .ge => c ≥ 0 | .eq => c == 0 | .ne => c != 0

/-- `NameAndModuleComparisonMixin._compare`; `none` = `NotImplemented` -/
def mixinCompare (self other : Operand) (selfKey : Key) : Option Int :=
  if self.same other then some 0 else
  match other with
  | .none => some (-1)
  | _ => match other.key? with
    | Option.none => Option.none
    | some k => some (compare3 selfKey k)

/-- the default `object` comparison methods: only `==`/`!=` by identity, everything else NotImplemented -/
def objectMethod (op : Cmp) (self other : Operand) : Option Bool :=
  match op with
  | .eq => if self.same other then some true else Option.none
  | .ne => if self.same other then some false else Option.none
  | _ => Option.none

/-- `type(self).__op__(self, other)` in the Python reference; `none` = `NotImplemented` -/
def methodPy (op : Cmp) (self other : Operand) : Option Bool :=
  match self with
  | .iface _ k =>
      if op = .ne ∧ self.same other then some false      -- `InterfaceBase.__ne__`: `if other is self: return False`
      else (mixinCompare self other k).map (intOp op)
  | .impl _ k =>
      match op with
      | .eq | .ne => objectMethod op self other            -- identity equality is kept for `Implements`
      | _ => (mixinCompare self other k).map (intOp op)
  | _ => objectMethod op self other

/-- `IB_richcompare(self, other, op)` for an interface `self` (C accelerator) -/
def ibRichcompare (op : Cmp) (self other : Operand) (k : Key) : Option Bool :=
  if self.same other ∧ (op = .eq ∨ op = .le ∨ op = .ge) then some true
  else if self.same other ∧ op = .ne then some false
  else match other with
    | .none => some (op = .lt ∨ op = .le ∨ op = .ne)
    | _ => match other.key? with
      | Option.none => Option.none
      | some k2 => some (cOp op k k2)

def methodC (op : Cmp) (self other : Operand) : Option Bool :=
  match self with
  | .iface _ k => ibRichcompare op self other k
  | _ => methodPy op self other

inductive Res | bool (b : Bool) | typeError
deriving DecidableEq, Repr

/-- CPython `PyObject_RichCompare` (no operand's type is a subclass of the other's) -/
def binop (method : Cmp → Operand → Operand → Option Bool) (op : Cmp) (a b : Operand) : Res :=
  match method op a b with
  | some v => .bool v
  | Option.none =>
    match method (swapOp op) b a with
    | some v => .bool v
    | Option.none =>
      match op with
      | .eq => .bool (a.same b)
      | .ne => .bool (!a.same b)
      | _ => .typeError

/-- what `hash()` is a function of: the key for interfaces (`hash((name, module))`), identity otherwise -/
inductive HashOf | key (k : Key) | ident (i : Option Nat)
deriving DecidableEq, Repr
def hashOf : Operand → HashOf
  | .iface _ k => .key k
  | x => .ident x.ident

/-- `a < b` as `sorted` sees it (an exception aborts the sort; the generators never sort foreign objects) -/
def ltB (method : Cmp → Operand → Operand → Option Bool) (a b : Operand) : Bool :=
  binop method .lt a b == .bool true

/-- stable insertion of `x` in front of an already sorted suffix: `x` goes before the first element that is not
strictly smaller than it (so an earlier element stays in front of later equal ones) -/
def insertSorted (lt : Operand → Operand → Bool) (x : Operand) : List Operand → List Operand
  | [] => [x]
  | y :: ys => if lt y x then y :: insertSorted lt x ys else x :: y :: ys

def sortModel (lt : Operand → Operand → Bool) (l : List Operand) : List Operand :=
  l.foldr (insertSorted lt) []

/-- the sort key the statement names: interfaces and class specifications by `(name, module)`, `None` last -/
def sortKey : Operand → Option Key
  | .none => Option.none
  | x => x.key?

/-- `a` sorts no later than `b` -/
def keyLe (a b : Operand) : Prop :=
  match sortKey a, sortKey b with
  | _, Option.none => True
  | Option.none, some _ => False
  | some ka, some kb => ¬ tupleLt kb ka
end ZI.Order

namespace ZI.Order
/-- `_implements_name(cls)` and the class attribute `Implements.__module__`: the key of `implementedBy(cls)` -/
def implementsKey (clsName clsModule : String) : Key :=
  ((if clsModule = "" then "?" else clsModule) ++ "." ++ (if clsName = "" then "?" else clsName),
   "zope.interface.declarations")
end ZI.Order
