import ZI.OrderDefs
/-! C12 model, operand level (core Lean only): the rich-comparison *methods* of `InterfaceClass` (Python reference
`NameAndModuleComparisonMixin` + `InterfaceBase.__eq__/__ne__/__hash__`, and the C twin `IB_richcompare`),
of `Implements` (mixin ordering, default identity `==`/`!=`/hash), of `None` and of foreign objects (default methods;
foreign objects *with comparison methods of their own*: transparent proxies of an interface and constant-answer sentinels),
interfaces whose constructor left `__name__` as `None` (`Element.__init__`: a docless name with a blank is filed as the
docstring), and CPython's binary-operator protocol on top of them (`a op b`: `a.__op__(b)`, then the reflected method of `b`,
then identity for `==`/`!=`, `TypeError` otherwise).  `sorted()` is modelled as a stable insertion sort that only
asks `<`, as `list.sort` does. -/
namespace ZI.Order

inductive Operand
  | iface (id : Nat) (k : Key)      -- an InterfaceClass instance; `id` = object identity
  | impl (id : Nat) (k : Key)       -- an `Implements` specification (`implementedBy(cls)`)
  | none                            -- Python `None`
  | foreign (id : Nat) (k : Key)    -- any other object with string `__name__` and `__module__`
  | plain (id : Nat)                -- an object without those attributes
  | anon (id : Nat) (m : String)    -- an InterfaceClass whose `__name__` is `None`: key `(None, m)`
  | wrap (id : Nat) (tid : Nat) (k : Key)   -- a transparent proxy of the interface `iface tid k`, no `__name__`:
                                    --   `__eq__(o) = target == o`, `__ne__(o) = target != o`, `__hash__ = hash(target)`
  | sentinel (id : Nat) (eqv : Bool) (ord : Option Bool)
                                    -- a nameless object with constant answers: `__eq__` says `eqv`, `__ne__` says `!eqv`,
                                    --   `__lt__/__le__/__gt__/__ge__` say `ord` (`none` = not defined: NotImplemented)
deriving DecidableEq, Repr

/-- object identity (`is`); `None` is a singleton -/
def Operand.ident : Operand → Option Nat
  | .iface i _ => some i | .impl i _ => some i | .none => Option.none | .foreign i _ => some i | .plain i => some i
  | .anon i _ => some i | .wrap i _ _ => some i | .sentinel i _ _ => some i

def Operand.same (a b : Operand) : Bool := a.ident == b.ident

/-- `(other.__name__, other.__module__)`, `none` = AttributeError -/
def Operand.key? : Operand → Option Key
  | .iface _ k => some k | .impl _ k => some k | .foreign _ k => some k | _ => Option.none

def swapOp : Cmp → Cmp
  | .lt => .gt | .le => .ge | .gt => .lt | .ge => .le | .eq => .eq | .ne => .ne

def intOp (op : Cmp) (c : Int) : Bool :=
  match op with
  | .lt => c < 0 | .le => c ≤ 0 | .gt => c > 0 | .ge => c ≥ 0 | .eq => c == 0 | .ne => c != 0

/-- `NameAndModuleComparisonMixin._compare`; `none` = `NotImplemented` -/
def mixinCompare (self other : Operand) (selfKey : Key) : Option Int :=
  if self.same other then some 0 else
  match other with
  | .none => some (-1)
  | _ => match other.key? with
    | Option.none => Option.none
    | some k => some (compare3 selfKey k)

/-- `_compare` of an interface whose `__name__` is `None`, key `(None, m)`: against another such interface the two
names are the same object and the modules decide; against an operand with a *string* name Python cannot order
`None` and `str` (TypeError) — those pairs are outside the property's domain (`outside`), never asked of the model,
and answered `NotImplemented` here only to make the function total -/
def anonCompare (self other : Operand) (m : String) : Option Int :=
  if self.same other then some 0 else
  match other with
  | .none => some (-1)
  | .anon _ m2 => some (compare3 ("", m) ("", m2))
  | _ => Option.none

/-- the default `object` comparison methods: only `==`/`!=` by identity, everything else NotImplemented -/
def objectMethod (op : Cmp) (self other : Operand) : Option Bool :=
  match op with
  | .eq => if self.same other then some true else Option.none
  | .ne => if self.same other then some false else Option.none
  | _ => Option.none

/-- `type(self).__op__(self, other)` in the Python reference; `none` = `NotImplemented`.  (`methodPy0`: every operand
but the transparent proxy, whose methods run a whole comparison of their own — `methodPy` below.) -/
def methodPy0 (op : Cmp) (self other : Operand) : Option Bool :=
  match self with
  | .iface _ k =>
      if op = .ne ∧ self.same other then some false      -- `InterfaceBase.__ne__`: `if other is self: return False`
      else (mixinCompare self other k).map (intOp op)
  | .anon _ m =>
      if op = .ne ∧ self.same other then some false
      else (anonCompare self other m).map (intOp op)
  | .impl _ k =>
      match op with
      | .eq | .ne => objectMethod op self other            -- identity equality is kept for `Implements`
      | _ => (mixinCompare self other k).map (intOp op)
  | .sentinel _ e o =>
      match op with
      | .eq => some e
      | .ne => some (!e)
      | _ => o
  | _ => objectMethod op self other

/-- `IB_richcompare(self, other, op)` for an interface `self` (C accelerator) -/
def ibRichcompare (op : Cmp) (self other : Operand) (k : Key) : Option Bool :=
  if self.same other ∧ (op = .eq ∨ op = .le ∨ op = .ge) then some true
  else if self.same other ∧ op = .ne then some false
  else match other with
    | .none => some (op = .lt ∨ op = .le ∨ op = .ne)
    | _ => match other.key? with
      | Option.none => Option.none
      | some k2 => some (cOp op k k2)

/-- `IB_richcompare` for an interface whose `__name__` is `None`: the names compare equal (`None == None`), the
modules are compared with `op` -/
def ibRichcompareAnon (op : Cmp) (self other : Operand) (m : String) : Option Bool :=
  if self.same other ∧ (op = .eq ∨ op = .le ∨ op = .ge) then some true
  else if self.same other ∧ op = .ne then some false
  else match other with
    | .none => some (op = .lt ∨ op = .le ∨ op = .ne)
    | .anon _ m2 => some (cOp op ("", m) ("", m2))
    | _ => Option.none

def methodC0 (op : Cmp) (self other : Operand) : Option Bool :=
  match self with
  | .iface _ k => ibRichcompare op self other k
  | .anon _ m => ibRichcompareAnon op self other m
  | _ => methodPy0 op self other

inductive Res | bool (b : Bool) | typeError
deriving DecidableEq, Repr

/-- CPython `PyObject_RichCompare` (no operand's type is a subclass of the other's) -/
def binop (method : Cmp → Operand → Operand → Option Bool) (op : Cmp) (a b : Operand) : Res :=
  match method op a b with
  | some v => .bool v
  | Option.none =>
    match method (swapOp op) b a with
    | some v => .bool v
    | Option.none =>
      match op with
      | .eq => .bool (a.same b)
      | .ne => .bool (!a.same b)
      | _ => .typeError

def Res.toBool : Res → Bool
  | .bool b => b
  | .typeError => false

/-- what the proxy of `iface tid k` answers for `proxy == other` (`op = eq`) / `proxy != other` (`op = ne`): the value
of `target op other`, a whole comparison.  When `other` is a proxy too the target's method defers
(`NotImplemented`: no `__name__`) and `other`'s reflected method compares *its* target with ours. -/
def wrapAnswer (m0 : Cmp → Operand → Operand → Option Bool) (op : Cmp) (tid : Nat) (k : Key) (other : Operand) : Bool :=
  match other with
  | .wrap _ tid2 k2 => (binop m0 op (.iface tid2 k2) (.iface tid k)).toBool
  | _ => (binop m0 op (.iface tid k) other).toBool

def methodPy (op : Cmp) (self other : Operand) : Option Bool :=
  match self with
  | .wrap _ tid k =>
      match op with
      | .eq | .ne => some (wrapAnswer methodPy0 op tid k other)
      | _ => Option.none
  | _ => methodPy0 op self other

def methodC (op : Cmp) (self other : Operand) : Option Bool :=
  match self with
  | .wrap _ tid k =>
      match op with
      | .eq | .ne => some (wrapAnswer methodC0 op tid k other)
      | _ => Option.none
  | _ => methodC0 op self other

/-- what `hash()` is a function of: the key for interfaces (`hash((name, module))`), identity otherwise -/
inductive HashOf | key (k : Key) | anonKey (m : String) | ident (i : Option Nat)
deriving DecidableEq, Repr
def hashOf : Operand → HashOf
  | .iface _ k => .key k
  | .anon _ m => .anonKey m           -- `hash((None, m))`
  | .wrap _ _ k => .key k             -- `hash(target)`
  | x => .ident x.ident

/-- `a < b` as `sorted` sees it (an exception aborts the sort; the generators never sort foreign objects) -/
def ltB (method : Cmp → Operand → Operand → Option Bool) (a b : Operand) : Bool :=
  binop method .lt a b == .bool true

/-- stable insertion of `x` in front of an already sorted suffix: `x` goes before the first element that is not
strictly smaller than it (so an earlier element stays in front of later equal ones) -/
def insertSorted (lt : Operand → Operand → Bool) (x : Operand) : List Operand → List Operand
  | [] => [x]
  | y :: ys => if lt y x then y :: insertSorted lt x ys else x :: y :: ys

def sortModel (lt : Operand → Operand → Bool) (l : List Operand) : List Operand :=
  l.foldr (insertSorted lt) []

/-- the sort key the statement names: interfaces and class specifications by `(name, module)`, `None` last -/
def sortKey : Operand → Option Key
  | .none => Option.none
  | .anon _ m => some ("", m)         -- `(None, m)`: among nameless interfaces the modules decide
  | x => x.key?

/-- `a` sorts no later than `b` -/
def keyLe (a b : Operand) : Prop :=
  match sortKey a, sortKey b with
  | _, Option.none => True
  | Option.none, some _ => False
  | some ka, some kb => ¬ tupleLt kb ka
end ZI.Order

namespace ZI.Order
/-- `Element.__init__(name, doc)`: `if not doc and name.find(' ') >= 0: doc, name = name, None` — the final
`__name__` of an interface built by `InterfaceClass(name, ..., __doc__=doc)` -/
def finalName (name : String) (hasDoc : Bool) : Option String :=
  if !hasDoc && name.toList.any (· == ' ') then Option.none else some name

def mkIface (id : Nat) (name module : String) (hasDoc : Bool) : Operand :=
  match finalName name hasDoc with
  | some n => .iface id (n, module)
  | Option.none => .anon id module

def Operand.isAnon : Operand → Bool
  | .anon _ _ => true | _ => false
/-- operands that carry (or, for a proxy, stand for) a *string* `__name__` -/
def Operand.strNamed : Operand → Bool
  | .iface _ _ => true | .impl _ _ => true | .foreign _ _ => true | .wrap _ _ _ => true | _ => false
/-- pairs outside the property's domain ("over all name/module strings"): a `None`-named interface against a
string-named operand — `(None, m) < ('x', m)` is a `TypeError` of Python's own -/
def outside (a b : Operand) : Bool := (a.isAnon && b.strNamed) || (a.strNamed && b.isAnon)

/-- `_implements_name(cls)` and the class attribute `Implements.__module__`: the key of `implementedBy(cls)` -/
def implementsKey (clsName clsModule : String) : Key :=
  ((if clsModule = "" then "?" else clsModule) ++ "." ++ (if clsName = "" then "?" else clsName),
   "zope.interface.declarations")
end ZI.Order
