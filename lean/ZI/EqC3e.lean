import ZI.EqC3d
namespace ZI.RO

theorem mirror_root (bases : Bases) (root : Id) : mirror bases root root = [] := by simp [mirror]
theorem mirror_empty {bases : Bases} {root c : Id} (hc : c ≠ root) (he : bases c = []) : mirror bases root c = [root] := by
  simp [mirror, hc, he]
theorem mirror_nonempty {bases : Bases} {root c : Id} (hc : c ≠ root) (he : bases c ≠ []) : mirror bases root c = bases c := by
  unfold mirror
  have : (bases c).isEmpty = false := by cases h : bases c <;> simp_all
  simp [hc, this]

theorem mirror_acyclic {bases : Bases} {rank : Id → Nat} {root : Id} (ha : Acyclic bases rank) (hroot : bases root = []) :
    Acyclic (mirror bases root) (fun x => if x = root then 0 else rank x + 1) := by
  intro s b hb
  by_cases hs : s = root
  · subst hs; simp [mirror_root] at hb
  · by_cases he : bases s = []
    · rw [mirror_empty hs he] at hb; simp at hb; subst hb; simp [hs]
    · rw [mirror_nonempty hs he] at hb
      have := ha s b hb
      by_cases hbr : b = root
      · simp [hbr, hs]
      · simp [hbr, hs]; omega

theorem mirror_nodup {bases : Bases} {root : Id} (hnd : NodupBases bases) : NodupBases (mirror bases root) := by
  intro s
  unfold mirror
  split
  · simp
  · split
    · simp
    · exact hnd s

theorem before_not_last {l : List Id} {x y : Id} (hnd : l.Nodup) (h : Before l x y) : l.getLast? ≠ some x := by
  obtain ⟨l1, l2, rfl, hy⟩ := h
  intro hl
  have hne : l2 ≠ [] := by intro e; simp [e] at hy
  have e : (l1 ++ x :: l2).getLast? = l2.getLast? := by
    rw [List.getLast?_append, List.getLast?_cons_of_ne_nil hne]
    cases h2 : l2.getLast? with
    | none => exact absurd (by simpa using h2) hne
    | some z => rfl
  rw [e] at hl
  have hx2 : x ∈ l2 := List.mem_of_getLast? hl
  have hd := (List.nodup_append.mp hnd).2.1
  exact (List.nodup_cons.mp hd).1 hx2

/-- a valid linearization of the mirrored graph ends with the root -/
theorem validMirror_last {bases : Bases} {root c : Id} {l : List Id}
    (hv : ValidLin (mirror bases root) c l) : l.getLast? = some root := by
  cases hl : l.getLast? with
  | none =>
    have : l = [] := by simpa using hl
    have hh := hv.head; rw [this] at hh; simp at hh
  | some z =>
    by_cases hz : z = root
    · rw [hz]
    · exfalso
      have hzl : z ∈ l := List.mem_of_getLast? hl
      -- z has a base in the mirrored graph
      obtain ⟨b, hb⟩ : ∃ b, b ∈ mirror bases root z := by
        by_cases he : bases z = []
        · exact ⟨root, by rw [mirror_empty hz he]; simp⟩
        · rw [mirror_nonempty hz he]
          cases h : bases z with
          | nil => exact absurd h he
          | cons a t => exact ⟨a, by simp⟩
      exact before_not_last hv.nodup (hv.topo z hzl b hb) hl

theorem forceRoot_noop {root : Id} {l : List Id} (h : l.getLast? = some root) : forceRoot root l = l := by
  simp [forceRoot, h]

/-- the `.mro` of a node only depends on the `.mro`s of its bases, as long as the merge succeeds -/
theorem c3Node_mro_congr {bases : Bases} (leg1 leg2 : Id → List Id) (r1 r2 : Id → Res) (c : Id)
    (h : ∀ b ∈ bases c, (r1 b).mro = (r2 b).mro)
    (hmerge : ∀ bs, bases c = bs → (∀ b, bs ≠ [b]) →
      mergeLoop (size (c3Tree c bs r2) + 1) (c3Tree c bs r2) none [] ≠ none) :
    (c3Node bases leg1 r1 c).mro = (c3Node bases leg2 r2 c).mro := by
  have htree : c3Tree c (bases c) r1 = c3Tree c (bases c) r2 := by
    simp only [c3Tree]
    congr 2
    exact List.map_congr_left h
  unfold c3Node
  split
  · rename_i b hb
    have : b ∈ bases c := by rw [hb]; simp
    simp [h b this]
  · rename_i hnot
    rw [htree]
    cases hm : mergeLoop (size (c3Tree c (bases c) r2) + 1) (c3Tree c (bases c) r2) none [] with
    | none => exact absurd hm (hmerge (bases c) rfl (fun b hb => hnot b hb))
    | some l => rfl

end ZI.RO

namespace ZI.RO

theorem c3Node_bases_congr {b1 b2 : Bases} (leg : Id → List Id) (r : Id → Res) (c : Id) (h : b1 c = b2 c) :
    c3Node b1 leg r c = c3Node b2 leg r c := by
  unfold c3Node; rw [h]

theorem lin_root (bases : Bases) (root : Id) (f : Nat) (h : bases root = []) : lin bases f root = some [root] := by
  cases f with
  | zero => rfl
  | succ f => simp [lin, h, allSome, specMerge, size]

/-- **C03_eq_c3**: whenever the mirrored hierarchy has a textbook C3 linearization, `__sro__` is that linearization. -/
theorem sro_eq_c3 {bases : Bases} {rank : Id → Nat} {root : Id} (ha : Acyclic bases rank) (hnd : NodupBases bases)
    (hroot : bases root = []) :
    ∀ (f : Nat) (c : Id) (l : List Id), (if c = root then 0 else rank c + 1) < f →
      lin (mirror bases root) f c = some l → sroFresh bases root f c = l := by
  have ha' := mirror_acyclic ha hroot
  have hnd' : NodupBases (mirror bases root) := mirror_nodup hnd
  intro f
  induction f with
  | zero => intro c l h; omega
  | succ f ih =>
    intro c l hr hl
    by_cases hcr : c = root
    · subst hcr
      rw [lin_root _ _ _ (mirror_root bases c)] at hl
      simp at hl; subst hl
      simp [sroFresh]
    · have hsf : sroFresh bases root (f+1) c =
          forceRoot root (c3Node bases (legacyRo bases (f+1)) (fun b => ⟨sroFresh bases root f b, false⟩) c).mro := by
        simp [sroFresh, hcr, sroStep]
      rw [hsf]
      by_cases he : bases c = []
      · -- no bases: the mirrored node derives from the root only
        have hm := mirror_empty hcr he
        simp only [lin, hm, List.map_cons, List.map_nil, lin_root _ _ _ (mirror_root bases root), allSome] at hl
        have hs : specMerge (size ([[root]] ++ [[root]]) + 1) ([[root]] ++ [[root]]) [] = some [root] := by
          have := specMerge_single (b := root) (tl := []) (by simp)
          simpa using this
        rw [hs] at hl; simp at hl; subst hl
        have hnode : (c3Node bases (legacyRo bases (f+1)) (fun b => ⟨sroFresh bases root f b, false⟩) c).mro = [c] := by
          unfold c3Node
          rw [he]
          simp only [c3Tree, List.map_nil, List.append_nil]
          have := mergeLoop_eq_spec (c := c) (rest := [[]]) (by intro x hx; simp at hx; subst hx; simp)
            (by intro x hx; simp at hx; subst hx; simp)
          have e : [[c]] ++ [[]] = [c] :: [[]] := rfl
          rw [e, this]
          simp [specMerge, size]
        rw [hnode]
        simp [forceRoot, hcr]
      · -- the node has bases: literal and mirrored base lists coincide
        have hm := mirror_nonempty (root := root) hcr he
        have hrb : ∀ b ∈ bases c, (if b = root then 0 else rank b + 1) < f := by
          intro b hb
          have := ha c b hb
          simp only [hcr, if_false] at hr
          by_cases hbr : b = root <;> simp [hbr] <;> omega
        -- every base has a linearization in the mirrored graph
        have hlin_b : ∀ b ∈ bases c, ∃ lb, lin (mirror bases root) f b = some lb := by
          intro b hb
          simp only [lin, hm] at hl
          cases hall : allSome ((bases c).map (lin (mirror bases root) f)) with
          | none => rw [hall] at hl; simp at hl
          | some ls =>
            have hmap := allSome_eq_some _ _ hall
            have : lin (mirror bases root) f b ∈ (bases c).map (lin (mirror bases root) f) := List.mem_map.mpr ⟨b, hb, rfl⟩
            rw [hmap] at this
            obtain ⟨lb, _, e⟩ := List.mem_map.mp this
            exact ⟨lb, e.symm⟩
        have hcached : ∀ b ∈ bases c,
            ((fun b => (⟨sroFresh bases root f b, false⟩ : Res)) b).mro = (roFull (mirror bases root) f b).mro := by
          intro b hb
          obtain ⟨lb, hlb⟩ := hlin_b b hb
          show sroFresh bases root f b = _
          rw [ih b lb (hrb b hb) hlb, ro_eq_c3 ha' hnd' f b lb (hrb b hb) hlb]
        have hR : (roFull (mirror bases root) (f+1) c).mro = l := ro_eq_c3 ha' hnd' (f+1) c l hr hl
        have hinc : (roFull (mirror bases root) (f+1) c).incons = false := by
          cases hi : (roFull (mirror bases root) (f+1) c).incons with
          | false => rfl
          | true => have := (incons_iff ha' hnd' (f+1) c hr).mp hi; rw [hl] at this; simp at this
        have hRdef : roFull (mirror bases root) (f+1) c =
            c3Node bases (legacyRo (mirror bases root) (f+1)) (roFull (mirror bases root) f) c := by
          show c3Node (mirror bases root) _ _ c = _
          exact c3Node_bases_congr _ _ c hm
        have hmro : (c3Node bases (legacyRo bases (f+1)) (fun b => ⟨sroFresh bases root f b, false⟩) c).mro =
            (c3Node bases (legacyRo (mirror bases root) (f+1)) (roFull (mirror bases root) f) c).mro := by
          apply c3Node_mro_congr _ _ _ _ c hcached
          intro bs hbs hnot hmerge
          -- a failed merge would have raised the inconsistency flag
          have : (c3Node bases (legacyRo (mirror bases root) (f+1)) (roFull (mirror bases root) f) c).incons = true := by
            unfold c3Node
            split
            · rename_i b hb; exact absurd (hbs ▸ hb) (hnot b)
            · rw [hbs, hmerge]
          rw [← hRdef, hinc] at this; simp at this
        rw [hmro, ← hRdef, hR]
        have hv : ValidLin (mirror bases root) c l := hR ▸ roFull_valid ha' (f+1) c hr
        exact forceRoot_noop (validMirror_last hv)

#print axioms sro_eq_c3
end ZI.RO
