/-! Scratch (design phase): model of ro.py + textbook C3 + statements of C03. -/
namespace ZI.RO
abbrev Id := Nat
abbrev Bases := Id → List Id

/-! ### ro.py, legacy -/
/-- `_legacy_flatten`: DFS preorder with repetitions (fuel = rank bound). -/
def flatten (bases : Bases) : Nat → Id → List Id
  | 0, c => [c]
  | f+1, c => c :: (bases c).flatMap (flatten bases f)

/-- `_legacy_mergeOrderings` on one ordering: keep the LAST occurrence of each element. -/
def keepLast : List Id → List Id
  | [] => []
  | x :: xs => if xs.contains x then keepLast xs else x :: keepLast xs

def legacyRo (bases : Bases) (fuel : Nat) (c : Id) : List Id := keepLast (flatten bases fuel c)

/-! ### ro.py, C3 -/
/-- `_nonempty_bases_ignoring` -/
def dropIgn (tree : List (List Id)) (ign : Option Id) : List (List Id) :=
  (tree.map fun bs => bs.filter fun b => some b != ign).filter fun bs => !bs.isEmpty

/-- `_can_choose_base` -/
def canChoose (b : Id) (tree : List (List Id)) : Bool :=
  tree.all fun bs => match bs with
    | [] => true
    | h :: t => h == b || !(t.contains b)

/-- `_find_next_C3_base` -/
def findNext (tree : List (List Id)) : Option Id :=
  (tree.filterMap List.head?).find? fun b => canChoose b tree

def size (tree : List (List Id)) : Nat := (tree.map List.length).sum

/-- `C3._merge`; `none` = `_UseLegacyRO` / strict error. -/
def mergeLoop : Nat → List (List Id) → Option Id → List Id → Option (List Id)
  | 0, _, _, acc => some acc.reverse
  | fuel+1, tree, last, acc =>
    let t := dropIgn tree last
    if t.isEmpty then some acc.reverse else
    match findNext t with
    | none => none
    | some b => mergeLoop fuel t (some b) (b :: acc)

structure Res where
  mro : List Id
  incons : Bool          -- `had_inconsistency`
deriving Repr, DecidableEq

/-- all results present -/
def allSome : List (Option (List Id)) → Option (List (List Id))
  | [] => some []
  | none :: _ => none
  | some x :: rest => match allSome rest with | none => none | some xs => some (x :: xs)

/-- `base_tree` of `C3.__init__` -/
def c3Tree (c : Id) (bs : List Id) (baseRes : Id → Res) : List (List Id) :=
  [[c]] ++ bs.map (fun b => (baseRes b).mro) ++ [bs]

/-- One `C3` object: `__init__` + `mro()`, given the resolvers of the bases. -/
def c3Node (bases : Bases) (legacy : Id → List Id) (baseRes : Id → Res) (c : Id) : Res :=
  match bases c with
  | [b] => ⟨c :: (baseRes b).mro, (baseRes b).incons⟩   -- single-inheritance shortcut: no merge, never "direct"
  | bs =>
    match mergeLoop (size (c3Tree c bs baseRes) + 1) (c3Tree c bs baseRes) none [] with
    | some l => ⟨l, bs.any fun b => (baseRes b).incons⟩
    | none => ⟨legacy c, true⟩

/-- `ro.ro(C)` non-strict, no `base_mros`: resolvers of the bases are built recursively (memo = sharing only). -/
def roFull (bases : Bases) : Nat → Id → Res
  | 0, c => ⟨[c], false⟩
  | f+1, c => c3Node bases (legacyRo bases (f+1)) (roFull bases f) c

/-- strict mode: `none` = InconsistentResolutionOrderError raised somewhere in the hierarchy -/
def roStrict (bases : Bases) : Nat → Id → Option (List Id)
  | 0, c => some [c]
  | f+1, c =>
    match bases c with
    | [b] => (roStrict bases f b).map (c :: ·)
    | bs =>
      match allSome (bs.map (roStrict bases f)) with
      | none => none
      | some ms => mergeLoop (size ([[c]] ++ ms ++ [bs]) + 1) ([[c]] ++ ms ++ [bs]) none []

/-- `is_consistent` AS IS at the pinned commit: the leaf's own merge is never run. -/
def isConsistentAsIs (bases : Bases) (fuel : Nat) (c : Id) : Bool :=
  !((bases c).any fun b => (roFull bases fuel b).incons)
/-- after the repair -/
def isConsistent (bases : Bases) (fuel : Nat) (c : Id) : Bool := !(roFull bases (fuel+1) c).incons

/-- the root-forcing step of `Specification._calculate_sro` -/
def forceRoot (root : Id) (l : List Id) : List Id :=
  if l.getLast? == some root then l else l.filter (· != root) ++ [root]

/-- `Specification._calculate_sro`: static (cached) base SROs, then force the root last. -/
def sroStep (bases : Bases) (root : Id) (fuel : Nat) (cached : Id → List Id) (c : Id) : List Id :=
  forceRoot root (c3Node bases (legacyRo bases fuel) (fun b => ⟨cached b, false⟩) c).mro

/-- a freshly built graph: every node computed after its bases -/
def sroFresh (bases : Bases) (root : Id) : Nat → Id → List Id
  | 0, c => [c]
  | f+1, c => if c == root then [root] else sroStep bases root (f+1) (sroFresh bases root f) c

/-! ### textbook C3 (the specification) -/
def specMerge : Nat → List (List Id) → List Id → Option (List Id)
  | 0, _, acc => some acc.reverse
  | fuel+1, lists, acc =>
    let ls := lists.filter fun l => !l.isEmpty
    if ls.isEmpty then some acc.reverse else
    match (ls.filterMap List.head?).find? fun h => ls.all fun l => !(l.tail.contains h) with
    | none => none
    | some h => specMerge fuel (ls.map fun l => if l.head? == some h then l.tail else l) (h :: acc)

def lin (bases : Bases) : Nat → Id → Option (List Id)
  | 0, c => some [c]
  | f+1, c =>
    match allSome ((bases c).map (lin bases f)) with
    | none => none
    | some ls =>
      match specMerge (size (ls ++ [bases c]) + 1) (ls ++ [bases c]) [] with
      | none => none
      | some m => some (c :: m)

/-- mirrored hierarchy: an empty base list stands for `[root]` -/
def mirror (bases : Bases) (root : Id) : Bases := fun c =>
  if c == root then [] else if (bases c).isEmpty then [root] else bases c

/-! ### well-formedness -/
def Acyclic (bases : Bases) (rank : Id → Nat) : Prop := ∀ s b, b ∈ bases s → rank b < rank s
inductive Reach (bases : Bases) : Id → Id → Prop
  | refl (s) : Reach bases s s
  | step {s b t} : b ∈ bases s → Reach bases b t → Reach bases s t
def NodupBases (bases : Bases) : Prop := ∀ s, (bases s).Nodup
def Rooted (bases : Bases) (root : Id) : Prop := bases root = [] ∧ ∀ s, s ≠ root → bases s ≠ []

/-! ### statements of C03 (proofs: next phase) -/
def C03_valid_stmt : Prop := ∀ (bases : Bases) (rank : Id → Nat) (root c : Id),
  Acyclic bases rank → bases root = [] →
  let l := sroFresh bases root (rank c + 1) c
  l.head? = some c ∧ l.Nodup ∧ (∀ t, t ∈ l ↔ Reach bases c t ∨ t = root) ∧
  (∀ x ∈ l, ∀ b ∈ bases x, l.idxOf x < l.idxOf b) ∧ l.getLast? = some root

def C03_eq_c3_stmt : Prop := ∀ (bases : Bases) (rank : Id → Nat) (root c : Id) (l : List Id),
  Acyclic bases rank → NodupBases bases → bases root = [] →
  lin (mirror bases root) (rank c + 2) c = some l → sroFresh bases root (rank c + 1) c = l

def C03_ro_eq_c3_stmt : Prop := ∀ (bases : Bases) (rank : Id → Nat) (c : Id) (l : List Id),
  Acyclic bases rank → NodupBases bases →
  lin bases (rank c + 1) c = some l → (roFull bases (rank c + 1) c).mro = l

def C03_strict_iff_stmt : Prop := ∀ (bases : Bases) (rank : Id → Nat) (c : Id),
  Acyclic bases rank → NodupBases bases →
  ((roStrict bases (rank c + 1) c).isNone ↔ (lin bases (rank c + 1) c).isNone)

def C03_consistent_iff_stmt : Prop := ∀ (bases : Bases) (rank : Id → Nat) (c : Id),
  Acyclic bases rank → NodupBases bases →
  isConsistent bases (rank c) c = (lin bases (rank c + 1) c).isSome

/-- the pinned commit violates the last statement: concrete witness I3(I0, I1), I1(I0) -/
def wBases : Bases := fun | 1 => [0] | 3 => [0, 1] | _ => []
example : isConsistentAsIs wBases 3 3 = true ∧ (lin wBases 4 3).isSome = false ∧ isConsistent wBases 3 3 = false := by decide

#eval (roFull wBases 4 3, legacyRo wBases 4 3, lin wBases 4 3, roStrict wBases 4 3)
-- diamond D(B,C), B(A), C(A): 4:(2,3) 2:(1) 3:(1)
def dBases : Bases := fun | 2 => [1] | 3 => [1] | 4 => [2, 3] | _ => []
#eval (roFull dBases 4 4, lin dBases 4 4, sroFresh dBases 0 4 4, lin (mirror dBases 0) 5 4)
end ZI.RO
