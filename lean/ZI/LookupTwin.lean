/-! # C10 — the lookup entry points: C accelerator (`_lookup`, `_lookup1`, `_adapter_hook`, `VB_*`) vs Python reference (`LookupBase`, `VerifyingBase`)

The two implementations COMPOSE the entry points differently: the C `_adapter_hook` asks `_lookup1(…, default=None)`, which asks
`_lookup` on a miss; the Python `adapter_hook` probes the cache itself and calls `self.lookup((required,), …)` on a miss; the C
`_lookup1` hands its `default` down to `_lookup`, the Python one to `self.lookup`.  Both are modelled separately over the same
abstract state (the three-level cache, an arbitrary `uncached` oracle standing for `_uncached_lookup` on the current registry,
an arbitrary factory behaviour, the generation check of the verifying flavour) and proved equal for ALL inputs — answers,
exceptions and the cache left behind. -/
namespace ZI.LookupTwin
abbrev Spec := Nat
abbrev Val := Nat

/-- a `name` argument: a string, or something else (falsy or not — `_getcache` treats every falsy name as `''`) -/
inductive Name | str (s : String) | other (truthy : Bool)
deriving DecidableEq, Repr

/-- what a call answers -/
inductive Out | valueError | default | none | val (v : Val) | obj   -- `obj`: the adapter built by the factory
deriving DecidableEq, Repr

/-- cache slot: `(provided, name or '', key)`; `missing`, or the cached factory / `None` -/
structure St where
  cache : Nat → String → List Spec → Option (Option Val)
  uncached : List Spec → Nat → String → Option Val          -- `_uncached_lookup` on the current registrations
  factoryNone : Val → Bool                                   -- does factory `v`, called with the object, return `None`?
  stale : Bool                                               -- verifying flavour: a generation of `_verify_ro` has moved
  verifying : Bool

def St.put (s : St) (p : Nat) (n : String) (k : List Spec) (r : Option Val) : St :=
  { s with cache := fun p' n' k' => if p' = p ∧ n' = n ∧ k' = k then some r else s.cache p' n' k' }

/-- `changed()`: every cache dropped, the generations re-read -/
def St.wiped (s : St) : St := { s with cache := fun _ _ _ => Option.none, stale := false }
/-- `VerifyingBase._verify` -/
def St.verify (s : St) : St := if s.verifying ∧ s.stale then s.wiped else s

def slot : Name → String
  | .str n => n
  | .other _ => ""            -- never reached with a non-string: the name is checked first (and a falsy one would select `''`)

def answer (r : Option Val) (dflt : Bool) : Out :=
  match r with
  | Option.none => if dflt then .default else .none
  | some v => .val v

/-! ### Python reference -/
def lookupPy (s : St) (req : List Spec) (p : Nat) (name : Name) (dflt : Bool) : St × Out :=
  match name with
  | .other _ => (s, .valueError)
  | .str n =>
    match s.cache p n req with
    | some r => (s, answer r dflt)
    | Option.none => let r := s.uncached req p n; (s.put p n req r, answer r dflt)

def lookup1Py (s : St) (x : Spec) (p : Nat) (name : Name) (dflt : Bool) : St × Out :=
  match name with
  | .other _ => (s, .valueError)
  | .str n =>
    match s.cache p n [x] with
    | Option.none => lookupPy s [x] p name dflt
    | some r => (s, answer r dflt)

def callFactory (s : St) (r : Option Val) (dflt : Bool) : Out :=
  match r with
  | Option.none => if dflt then .default else .none
  | some v => if s.factoryNone v then (if dflt then .default else .none) else .obj

def adapterHookPy (s : St) (x : Spec) (p : Nat) (name : Name) (dflt : Bool) : St × Out :=
  match name with
  | .other _ => (s, .valueError)
  | .str n =>
    match s.cache p n [x] with
    | some r => (s, callFactory s r dflt)
    | Option.none =>
      -- `factory = self.lookup((required,), provided, name)` with no default: `None` stays `None`
      match lookupPy s [x] p name false with
      | (s', .val v) => (s', callFactory s' (some v) dflt)
      | (s', _) => (s', callFactory s' Option.none dflt)

/-! ### C accelerator -/
def lookupC (s : St) (req : List Spec) (p : Nat) (name : Name) (dflt : Bool) : St × Out :=
  match name with
  | .other _ => (s, .valueError)                       -- `name && !PyUnicode_Check(name)`
  | .str n =>
    match s.cache p n req with                          -- `_getcache`, `PyDict_GetItem`
    | Option.none => let r := s.uncached req p n; (s.put p n req r, answer r dflt)
    | some r => (s, answer r dflt)

def lookup1C (s : St) (x : Spec) (p : Nat) (name : Name) (dflt : Bool) : St × Out :=
  match name with
  | .other _ => (s, .valueError)
  | .str n =>
    match s.cache p n [x] with
    | Option.none => lookupC s [x] p name dflt           -- `_lookup(self, (required,), provided, name, default_)`
    | some r => (s, answer r dflt)

def adapterHookC (s : St) (x : Spec) (p : Nat) (name : Name) (dflt : Bool) : St × Out :=
  match name with
  | .other _ => (s, .valueError)
  | .str _ =>
    -- `factory = _lookup1(self, required, provided, name, Py_None)`: its default is `None` itself
    match lookup1C s x p name false with
    | (s', .val v) => (s', callFactory s' (some v) dflt)
    | (s', _) => (s', callFactory s' Option.none dflt)

/-- the verifying flavour: `_verify()` first, then the same code -/
def verifyingC (f : St → St × Out) (s : St) : St × Out := f s.verify
def verifyingPy (f : St → St × Out) (s : St) : St × Out := f s.verify

/-! ### the twins are equal -/
theorem lookup_twin (s : St) (req : List Spec) (p : Nat) (name : Name) (dflt : Bool) :
    lookupC s req p name dflt = lookupPy s req p name dflt := by
  unfold lookupC lookupPy
  cases name with
  | other t => rfl
  | str n => cases h : s.cache p n req <;> simp [h]

theorem lookup1_twin (s : St) (x : Spec) (p : Nat) (name : Name) (dflt : Bool) :
    lookup1C s x p name dflt = lookup1Py s x p name dflt := by
  unfold lookup1C lookup1Py
  cases name with
  | other t => rfl
  | str n => cases h : s.cache p n [x] <;> simp [h, lookup_twin]

theorem answer_false_val (r : Option Val) (v : Val) : answer r false = .val v ↔ r = some v := by
  cases r <;> simp [answer]

theorem put_factoryNone (s : St) (p : Nat) (n : String) (k : List Spec) (r : Option Val) :
    (s.put p n k r).factoryNone = s.factoryNone := rfl

/-- **C10_adapter_hook_twin**: the C composition `_adapter_hook → _lookup1(default None) → _lookup` answers, raises and leaves
the cache exactly like the Python `adapter_hook` (cache probe, then `lookup` on a miss), for every cache state, registry
content, factory behaviour, name and default -/
theorem adapterHook_twin (s : St) (x : Spec) (p : Nat) (name : Name) (dflt : Bool) :
    adapterHookC s x p name dflt = adapterHookPy s x p name dflt := by
  unfold adapterHookC adapterHookPy
  cases name with
  | other t => rfl
  | str n =>
    simp only [lookup1C, lookup_twin]
    cases hc : s.cache p n [x] with
    | none => simp
    | some r =>
      cases r with
      | none => simp [answer, callFactory]
      | some v => simp [answer, callFactory]

/-- `queryAdapter(object, provided, name, default)` is `adapter_hook(provided, object, name, default)` in both -/
theorem queryAdapter_twin (s : St) (x : Spec) (p : Nat) (name : Name) (dflt : Bool) :
    adapterHookC s x p name dflt = adapterHookPy s x p name dflt := adapterHook_twin s x p name dflt

/-- **C10_verifying_twin**: with the generation check in front, every entry point still agrees -/
theorem verifying_twin (s : St) (x : Spec) (req : List Spec) (p : Nat) (name : Name) (dflt : Bool) :
    verifyingC (fun s => lookupC s req p name dflt) s = verifyingPy (fun s => lookupPy s req p name dflt) s ∧
    verifyingC (fun s => lookup1C s x p name dflt) s = verifyingPy (fun s => lookup1Py s x p name dflt) s ∧
    verifyingC (fun s => adapterHookC s x p name dflt) s = verifyingPy (fun s => adapterHookPy s x p name dflt) s := by
  unfold verifyingC verifyingPy
  exact ⟨lookup_twin _ _ _ _ _, lookup1_twin _ _ _ _ _, adapterHook_twin _ _ _ _ _⟩

/-- C08 inside both twins: `lookup1(r, p, n, d) = lookup((r,), p, n, d)`, answer and cache -/
theorem lookup1_eq_lookup (s : St) (x : Spec) (p : Nat) (name : Name) (dflt : Bool) :
    lookup1Py s x p name dflt = lookupPy s [x] p name dflt := by
  unfold lookup1Py lookupPy
  cases name with
  | other t => rfl
  | str n => cases hc : s.cache p n [x] <;> simp [hc]

/-- a non-string name is refused on EVERY path, warm cache or not (what seeded changes s08a / u08a / v08b / w08a break) -/
theorem nonstring_name_refused (s : St) (x : Spec) (req : List Spec) (p : Nat) (t : Bool) (dflt : Bool) :
    (lookupC s req p (.other t) dflt).2 = .valueError ∧ (lookup1C s x p (.other t) dflt).2 = .valueError ∧
    (adapterHookC s x p (.other t) dflt).2 = .valueError ∧ (lookupPy s req p (.other t) dflt).2 = .valueError ∧
    (lookup1Py s x p (.other t) dflt).2 = .valueError ∧ (adapterHookPy s x p (.other t) dflt).2 = .valueError :=
  ⟨rfl, rfl, rfl, rfl, rfl, rfl⟩

end ZI.LookupTwin
