/-! # C10 — the lookup entry points: C accelerator (`_lookup`, `_lookup1`, `_adapter_hook`, `VB_*`) vs Python reference (`LookupBase`, `VerifyingBase`)

The two implementations COMPOSE the entry points differently: the C `_adapter_hook` asks `_lookup1(…, default=None)`, which asks
`_lookup` on a miss; the Python `adapter_hook` probes the cache itself and calls `self.lookup((required,), …)` on a miss; the C
`_lookup1` hands its `default` down to `_lookup`, the Python one to `self.lookup`.  Both are modelled separately over the same
abstract state (the three-level cache, an arbitrary `uncached` oracle standing for `_uncached_lookup` on the current registry,
an arbitrary factory behaviour, the generation check of the verifying flavour) and proved equal for ALL inputs — answers,
exceptions and the cache left behind. -/
namespace ZI.LookupTwin
abbrev Spec := Nat
abbrev Val := Nat

/-- a `name` argument: a string, or something else (falsy or not — `_getcache` treats every falsy name as `''`) -/
inductive Name | str (s : String) | other (truthy : Bool)
deriving DecidableEq, Repr

/-- what a call answers -/
inductive Out | valueError | default | none | val (v : Val) | obj   -- `obj`: the adapter built by the factory
deriving DecidableEq, Repr

/-- cache slot: `(provided, name or '', key)`; `missing`, or the cached factory / `None` -/
structure St where
  cache : Nat → String → List Spec → Option (Option Val)
  uncached : List Spec → Nat → String → Option Val          -- `_uncached_lookup` on the current registrations
  factoryNone : Val → Bool                                   -- does factory `v`, called with the object, return `None`?
  stale : Bool                                               -- verifying flavour: a generation of `_verify_ro` has moved
  verifying : Bool

def St.put (s : St) (p : Nat) (n : String) (k : List Spec) (r : Option Val) : St :=
  { s with cache := fun p' n' k' => if p' = p ∧ n' = n ∧ k' = k then some r else s.cache p' n' k' }

/-- `changed()`: every cache dropped, the generations re-read -/
def St.wiped (s : St) : St := { s with cache := fun _ _ _ => Option.none, stale := false }
/-- `VerifyingBase._verify` -/
def St.verify (s : St) : St := if s.verifying ∧ s.stale then s.wiped else s

def slot : Name → String
  | .str n => n
  | .other _ => ""            -- never reached with a non-string: the name is checked first (and a falsy one would select `''`)

def answer (r : Option Val) (dflt : Bool) : Out :=
  match r with
  | Option.none => if dflt then .default else .none
  | some v => .val v

/-! ### Python reference -/
def lookupPy (s : St) (req : List Spec) (p : Nat) (name : Name) (dflt : Bool) : St × Out :=
  match name with
  | .other _ => (s, .valueError)
  | .str n =>
    match s.cache p n req with
    | some r => (s, answer r dflt)
    | Option.none => let r := s.uncached req p n; (s.put p n req r, answer r dflt)

def lookup1Py (s : St) (x : Spec) (p : Nat) (name : Name) (dflt : Bool) : St × Out :=
  match name with
  | .other _ => (s, .valueError)
  | .str n =>
    match s.cache p n [x] with
    | Option.none => lookupPy s [x] p name dflt
    | some r => (s, answer r dflt)

def callFactory (s : St) (r : Option Val) (dflt : Bool) : Out :=
  match r with
  | Option.none => if dflt then .default else .none
  | some v => if s.factoryNone v then (if dflt then .default else .none) else .obj

def adapterHookPy (s : St) (x : Spec) (p : Nat) (name : Name) (dflt : Bool) : St × Out :=
  match name with
  | .other _ => (s, .valueError)
  | .str n =>
    match s.cache p n [x] with
    | some r => (s, callFactory s r dflt)
    | Option.none =>
      -- `factory = self.lookup((required,), provided, name)` with no default: `None` stays `None`
      match lookupPy s [x] p name false with
      | (s', .val v) => (s', callFactory s' (some v) dflt)
      | (s', _) => (s', callFactory s' Option.none dflt)

/-! ### C accelerator -/
def lookupC (s : St) (req : List Spec) (p : Nat) (name : Name) (dflt : Bool) : St × Out :=
  match name with
  | .other _ => (s, .valueError)                       -- `name && !PyUnicode_Check(name)`
  | .str n =>
    match s.cache p n req with                          -- `_getcache`, `PyDict_GetItem`
    | Option.none => let r := s.uncached req p n; (s.put p n req r, answer r dflt)
    | some r => (s, answer r dflt)

def lookup1C (s : St) (x : Spec) (p : Nat) (name : Name) (dflt : Bool) : St × Out :=
  match name with
  | .other _ => (s, .valueError)
  | .str n =>
    match s.cache p n [x] with
    | Option.none => lookupC s [x] p name dflt           -- `_lookup(self, (required,), provided, name, default_)`
    | some r => (s, answer r dflt)

def adapterHookC (s : St) (x : Spec) (p : Nat) (name : Name) (dflt : Bool) : St × Out :=
  match name with
  | .other _ => (s, .valueError)
  | .str _ =>
    -- `factory = _lookup1(self, required, provided, name, Py_None)`: its default is `None` itself
    match lookup1C s x p name false with
    | (s', .val v) => (s', callFactory s' (some v) dflt)
    | (s', _) => (s', callFactory s' Option.none dflt)

/-- the verifying flavour: `_verify()` first, then the same code -/
def verifyingC (f : St → St × Out) (s : St) : St × Out := f s.verify
def verifyingPy (f : St → St × Out) (s : St) : St × Out := f s.verify

/-! ### the twins are equal -/
theorem lookup_twin (s : St) (req : List Spec) (p : Nat) (name : Name) (dflt : Bool) :
    lookupC s req p name dflt = lookupPy s req p name dflt := by
  unfold lookupC lookupPy
  cases name with
  | other t => rfl
  | str n => cases h : s.cache p n req <;> simp [h]

theorem lookup1_twin (s : St) (x : Spec) (p : Nat) (name : Name) (dflt : Bool) :
    lookup1C s x p name dflt = lookup1Py s x p name dflt := by
  unfold lookup1C lookup1Py
  cases name with
  | other t => rfl
  | str n => cases h : s.cache p n [x] <;> simp [h, lookup_twin]

theorem answer_false_val (r : Option Val) (v : Val) : answer r false = .val v ↔ r = some v := by
  cases r <;> simp [answer]

theorem put_factoryNone (s : St) (p : Nat) (n : String) (k : List Spec) (r : Option Val) :
    (s.put p n k r).factoryNone = s.factoryNone := rfl

/-- **C10_adapter_hook_twin**: the C composition `_adapter_hook → _lookup1(default None) → _lookup` answers, raises and leaves
the cache exactly like the Python `adapter_hook` (cache probe, then `lookup` on a miss), for every cache state, registry
content, factory behaviour, name and default -/
theorem adapterHook_twin (s : St) (x : Spec) (p : Nat) (name : Name) (dflt : Bool) :
    adapterHookC s x p name dflt = adapterHookPy s x p name dflt := by
  unfold adapterHookC adapterHookPy
  cases name with
  | other t => rfl
  | str n =>
    simp only [lookup1C, lookup_twin]
    cases hc : s.cache p n [x] with
    | none => simp
    | some r =>
      cases r with
      | none => simp [answer, callFactory]
      | some v => simp [answer, callFactory]

/-- `queryAdapter(object, provided, name, default)` is `adapter_hook(provided, object, name, default)` in both -/
theorem queryAdapter_twin (s : St) (x : Spec) (p : Nat) (name : Name) (dflt : Bool) :
    adapterHookC s x p name dflt = adapterHookPy s x p name dflt := adapterHook_twin s x p name dflt

/-- **C10_verifying_twin**: with the generation check in front, every entry point still agrees -/
theorem verifying_twin (s : St) (x : Spec) (req : List Spec) (p : Nat) (name : Name) (dflt : Bool) :
    verifyingC (fun s => lookupC s req p name dflt) s = verifyingPy (fun s => lookupPy s req p name dflt) s ∧
    verifyingC (fun s => lookup1C s x p name dflt) s = verifyingPy (fun s => lookup1Py s x p name dflt) s ∧
    verifyingC (fun s => adapterHookC s x p name dflt) s = verifyingPy (fun s => adapterHookPy s x p name dflt) s := by
  unfold verifyingC verifyingPy
  exact ⟨lookup_twin _ _ _ _ _, lookup1_twin _ _ _ _ _, adapterHook_twin _ _ _ _ _⟩

/-- C08 inside both twins: `lookup1(r, p, n, d) = lookup((r,), p, n, d)`, answer and cache -/
theorem lookup1_eq_lookup (s : St) (x : Spec) (p : Nat) (name : Name) (dflt : Bool) :
    lookup1Py s x p name dflt = lookupPy s [x] p name dflt := by
  unfold lookup1Py lookupPy
  cases name with
  | other t => rfl
  | str n => cases hc : s.cache p n [x] <;> simp [hc]

/-- a non-string name is refused on EVERY path, warm cache or not (what seeded changes s08a / u08a / v08b / w08a break) -/
theorem nonstring_name_refused (s : St) (x : Spec) (req : List Spec) (p : Nat) (t : Bool) (dflt : Bool) :
    (lookupC s req p (.other t) dflt).2 = .valueError ∧ (lookup1C s x p (.other t) dflt).2 = .valueError ∧
    (adapterHookC s x p (.other t) dflt).2 = .valueError ∧ (lookupPy s req p (.other t) dflt).2 = .valueError ∧
    (lookup1Py s x p (.other t) dflt).2 = .valueError ∧ (adapterHookPy s x p (.other t) dflt).2 = .valueError :=
  ⟨rfl, rfl, rfl, rfl, rfl, rfl⟩

/-! ### a lazy `required` (an iterable whose iteration runs code)

`lookup`, `lookupAll` and `subscriptions` take ANY iterable as `required` and turn it into a tuple.  Iterating it can mutate the
registry (`changed()`: every cache dropped, a different `_uncached_*` function from then on).  The C code resolves `required` first and
fetches the cache afterwards ("If `required` is a lazy sequence, it could have arbitrary side-effects, such as clearing our caches");
the Python reference fetched the cache dictionary FIRST until repair 7ee6ae2 and then answered from that detached dictionary.  Both
orders are modelled; the current one is proved fresh and equal between the twins, the old one is refuted by a kernel-checked witness. -/

/-- a `required` argument: the tuple it resolves to, and what resolving it does to the registry (nothing, or a mutation after which
`_uncached_lookup` is the function `u`) -/
structure Lazy where
  req : List Spec
  mutates : Option (List Spec → Nat → String → Option Val)

/-- `tuple(required)` / `PySequence_Tuple(required)` -/
def St.iter (s : St) (l : Lazy) : St :=
  match l.mutates with
  | Option.none => s
  | some u => { s.wiped with uncached := u }

/-- C `_lookup`: name check, `PySequence_Tuple`, `_getcache`, probe -/
def lookupLazyC (s : St) (l : Lazy) (p : Nat) (name : Name) (dflt : Bool) : St × Out :=
  match name with
  | .other _ => (s, .valueError)                      -- refused before `required` is touched
  | .str _ => lookupC (s.iter l) l.req p name dflt

/-- Python `LookupBase.lookup` since 7ee6ae2: `isinstance(name, str)`, `tuple(required)`, `_getcache`, probe -/
def lookupLazyPy (s : St) (l : Lazy) (p : Nat) (name : Name) (dflt : Bool) : St × Out :=
  match name with
  | .other _ => (s, .valueError)
  | .str _ => lookupPy (s.iter l) l.req p name dflt

/-- Python `LookupBase.lookup` BEFORE 7ee6ae2: the cache dictionary of the state the call STARTED in is fetched first, probed after
`tuple(required)`; what a miss stores goes into that dictionary (lost when the mutation detached it) -/
def lookupLazyPyOld (s : St) (l : Lazy) (p : Nat) (name : Name) (dflt : Bool) : St × Out :=
  match name with
  | .other _ => (s, .valueError)
  | .str n =>
    let c := s.cache p n
    let s' := s.iter l
    match c l.req with
    | some r => (s', answer r dflt)
    | Option.none =>
      let r := s'.uncached l.req p n
      (if l.mutates.isSome then s' else s'.put p n l.req r, answer r dflt)

/-- **C10_lazy_twin**: with a lazy `required` the twins agree — answer, exception, cache left behind, registry state -/
theorem lazy_twin (s : St) (l : Lazy) (p : Nat) (name : Name) (dflt : Bool) :
    lookupLazyC s l p name dflt = lookupLazyPy s l p name dflt := by
  unfold lookupLazyC lookupLazyPy
  cases name with
  | other t => rfl
  | str n => simp only [lookup_twin]

/-- a non-string name is refused before `required` is iterated: the registry is NOT mutated -/
theorem lazy_nonstring_untouched (s : St) (l : Lazy) (p : Nat) (t : Bool) (dflt : Bool) :
    lookupLazyC s l p (.other t) dflt = (s, .valueError) ∧ lookupLazyPy s l p (.other t) dflt = (s, .valueError) := ⟨rfl, rfl⟩

/-- **C05 for the interrupted call**: when resolving `required` mutates the registry, the call answers what the uncached lookup of
the state AFTER the mutation gives (whatever was cached before), and that is what the cache holds afterwards -/
theorem lazy_fresh (s : St) (l : Lazy) (u : List Spec → Nat → String → Option Val) (h : l.mutates = some u)
    (p : Nat) (n : String) (dflt : Bool) :
    (lookupLazyC s l p (.str n) dflt).2 = answer (u l.req p n) dflt ∧
    (lookupLazyC s l p (.str n) dflt).1.cache p n l.req = some (u l.req p n) ∧
    (lookupLazyC s l p (.str n) dflt).1.uncached = u := by
  simp [lookupLazyC, lookupC, St.iter, h, St.wiped, St.put]

/-- a `required` that mutates nothing behaves like the plain tuple -/
theorem lazy_plain (s : St) (req : List Spec) (p : Nat) (name : Name) (dflt : Bool) :
    lookupLazyC s ⟨req, Option.none⟩ p name dflt = lookupC s req p name dflt := by
  unfold lookupLazyC lookupC
  cases name <;> rfl

/-- without a mutation the old Python order was right too (why no ordinary program noticed) -/
theorem old_order_plain (s : St) (req : List Spec) (p : Nat) (name : Name) (dflt : Bool) :
    lookupLazyPyOld s ⟨req, Option.none⟩ p name dflt = lookupPy s req p name dflt := by
  unfold lookupLazyPyOld lookupPy
  cases name with
  | other t => rfl
  | str n => cases h : s.cache p n req <;> simp [h, St.iter]

/-- the state of the witness: `(provided 0, name "", required [1])` is cached as factory 7; the lazy `required` re-registers: 8 -/
def exOld : St := { cache := fun p n k => if p = 0 ∧ n = "" ∧ k = [1] then some (some 7) else Option.none,
                    uncached := fun _ _ _ => some 7, factoryNone := fun _ => false, stale := false, verifying := false }
def exLazy : Lazy := ⟨[1], some (fun _ _ _ => some 8)⟩

/-- **the order before repair 7ee6ae2 is refuted** (kernel-checked): the Python reference answered the replaced factory 7, the C
accelerator the registered factory 8 — a stale answer (C05) and a divergence between the twins (C10) -/
theorem old_order_stale :
    (lookupLazyPyOld exOld exLazy 0 (.str "") false).2 = .val 7 ∧ (lookupLazyC exOld exLazy 0 (.str "") false).2 = .val 8 ∧
    (lookupLazyPy exOld exLazy 0 (.str "") false).2 = .val 8 := by
  refine ⟨?_, ?_, ?_⟩ <;> simp [lookupLazyPyOld, lookupLazyC, lookupLazyPy, lookupC, lookupPy, exOld, exLazy, St.iter, St.wiped, answer]

/-! ### `lookupAll` / `subscriptions` (`_mcache` / `_scache`: per provided, keyed by the tuple; no name, no default) -/
structure MSt where
  cache : Nat → List Spec → Option (List Val)
  uncached : List Spec → Nat → List Val                   -- `_uncached_lookupAll` / `_uncached_subscriptions`

structure MLazy where
  req : List Spec
  mutates : Option (List Spec → Nat → List Val)

def MSt.put (s : MSt) (p : Nat) (k : List Spec) (r : List Val) : MSt :=
  { s with cache := fun p' k' => if p' = p ∧ k' = k then some r else s.cache p' k' }
def MSt.iter (s : MSt) (l : MLazy) : MSt :=
  match l.mutates with
  | Option.none => s
  | some u => { cache := fun _ _ => Option.none, uncached := u }

/-- C `_lookupAll` / `_subscriptions`: `PySequence_Tuple`, `_subcache`, `PyDict_GetItem`, on a miss call and `PyDict_SetItem` -/
def allC (s : MSt) (l : MLazy) (p : Nat) : MSt × List Val :=
  let s' := s.iter l
  match s'.cache p l.req with
  | Option.none => let r := s'.uncached l.req p; (s'.put p l.req r, r)
  | some r => (s', r)

/-- Python `LookupBase.lookupAll` / `subscriptions` since 7ee6ae2 -/
def allPy (s : MSt) (l : MLazy) (p : Nat) : MSt × List Val :=
  let s' := s.iter l
  match s'.cache p l.req with
  | some r => (s', r)
  | Option.none => let r := s'.uncached l.req p; (s'.put p l.req r, r)

/-- the order before 7ee6ae2: `cache = self._mcache.get(provided)` first, `tuple(required)` second -/
def allPyOld (s : MSt) (l : MLazy) (p : Nat) : MSt × List Val :=
  let c := s.cache p
  let s' := s.iter l
  match c l.req with
  | some r => (s', r)
  | Option.none => let r := s'.uncached l.req p; (if l.mutates.isSome then s' else s'.put p l.req r, r)

/-- **C10_lookupAll_twin / C10_subscriptions_twin** -/
theorem all_twin (s : MSt) (l : MLazy) (p : Nat) : allC s l p = allPy s l p := by
  unfold allC allPy
  cases h : (s.iter l).cache p l.req <;> simp only [h]

/-- the interrupted call answers the state after the mutation, and caches that -/
theorem all_fresh (s : MSt) (l : MLazy) (u : List Spec → Nat → List Val) (h : l.mutates = some u) (p : Nat) :
    (allC s l p).2 = u l.req p ∧ (allC s l p).1.cache p l.req = some (u l.req p) := by
  simp [allC, MSt.iter, h, MSt.put]

/-- a warm cache is served, a cold one filled: `lookupAll` twice = once (C05 on this entry point) -/
theorem all_idem (s : MSt) (req : List Spec) (p : Nat) :
    (allC (allC s ⟨req, Option.none⟩ p).1 ⟨req, Option.none⟩ p) = ((allC s ⟨req, Option.none⟩ p).1, (allC s ⟨req, Option.none⟩ p).2) := by
  unfold allC
  cases h : s.cache p req <;> simp [MSt.iter, h, MSt.put]

def exOldAll : MSt := { cache := fun p k => if p = 0 ∧ k = [1] then some [7] else Option.none, uncached := fun _ _ => [7] }
def exLazyAll : MLazy := ⟨[1], some (fun _ _ => [7, 8])⟩

/-- the old order refuted for `lookupAll` / `subscriptions` -/
theorem all_old_order_stale :
    (allPyOld exOldAll exLazyAll 0).2 = [7] ∧ (allC exOldAll exLazyAll 0).2 = [7, 8] ∧ (allPy exOldAll exLazyAll 0).2 = [7, 8] := by
  refine ⟨?_, ?_, ?_⟩ <;> simp [allPyOld, allC, allPy, exOldAll, exLazyAll, MSt.iter]


end ZI.LookupTwin
