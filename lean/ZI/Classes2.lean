import ZI.Graph2
import ZI.Classes
/-! # `declarations.py` on the function-valued specification graph `ZI.Graph2`

This is `ZI/Classes.lean` (the executable model of zope.interface's `declarations.py`: `implementedBy` with lazily
created class specifications, `_classImplements_ordered`, `classImplements`, `classImplementsOnly`,
`classImplementsFirst`, the `Provides` factory with its shared weak cache `InstanceDeclarations`, `directlyProvides`,
`alsoProvides`, `noLongerProvides`, `directlyProvidedBy`, `providedBy`) transliterated function by function onto the twin
graph model `ZI.Graph2` (function-valued `bases`/`sro`/`deps`), on which all propagation proofs were done.

Same logic, same argument order, same id allocation (`next` starts at 1001, `implementedBy(object)` = node 1000 exists
from the start, interfaces are ids `< 1000`, the root `Interface` is 0), so the two models can be run side by side and
must print identical answers.  The only representation changes are

* classes and instances are total functions `Id → Cls` / `Id → Inst` plus the lists `classIds` / `instIds` of the ids
  created so far (in `ZI.Classes` they are association lists whose lookup falls back to the same defaults);
* the big `let` chains are factored into named helpers (`specFold`, `mkSpec`, `keepDecl`, `addBaseSpecs`, `declareOn`,
  `freshProvides`, `newProvides`), and the two `foldl`s over the Python bases are written as structural recursions that
  produce the same result (`acc ++ [s]` from the left = `s :: rest` from the right).

The end of the file compares the two models on concrete histories with kernel-checked `decide`. -/
namespace ZI.Classes2
open ZI.RO ZI.Graph2

structure Cls where
  pyBases : List Id            -- Python `__bases__` (class ids); `[]` only for `object`
  spec : Option Id := none     -- `cls.__implemented__`
  declared : List Id := []     -- `spec.declared`
  inherit : Bool := true       -- `spec.inherit is not None`
deriving Repr, DecidableEq

structure Inst where
  cls : Id
  prov : Option Id := none     -- own `__provides__` (a Provides spec)
deriving Repr, DecidableEq

structure W where
  g : G
  classIds : List Id                       -- classes created so far, creation order
  cls : Id → Cls
  instIds : List Id                        -- instances created so far, creation order
  inst : Id → Inst
  pcache : List ((Id × List Id) × Id)     -- InstanceDeclarations: (cls, *interfaces) ↦ Provides spec (weak values)
  next : Id                                -- fresh specification ids (interfaces use ids < 1000)
  pinned : List Id := []                   -- specs kept alive by others (registration keys, lookup caches, …)
  fixedProvides : Bool

def W.setCls (w : W) (c : Id) (k : Cls) : W :=
  { w with classIds := if w.classIds.contains c then w.classIds else w.classIds ++ [c], cls := upd w.cls c k }
def W.setInst (w : W) (o : Id) (k : Inst) : W :=
  { w with instIds := if w.instIds.contains o then w.instIds else w.instIds ++ [o], inst := upd w.inst o k }

def isIface (x : Id) : Bool := x < 1000
def W.sro (w : W) (s : Id) : List Id := w.g.sro s
def W.isOrExtends (w : W) (s x : Id) : Bool := (w.sro s).contains x          -- `x in s._implied`
def W.extendsStrict (w : W) (i b : Id) : Bool := w.isOrExtends i b && i != b   -- `i.extends(b)`

/-- ordered dedupe, first occurrence wins -/
def dedupe (l : List Id) : List Id := l.foldl (fun acc x => if acc.contains x then acc else acc ++ [x]) []

/-- the loop over `cls.__bases__` in `implementedBy`: the specification of every base, in order -/
def specFold (rec : W → Id → W × Id) : W → List Id → W × List Id
  | w, [] => (w, [])
  | w, b :: bs => ((specFold rec (rec w b).1 bs).1, (rec w b).2 :: (specFold rec (rec w b).1 bs).2)

/-- create the class specification of `c` with the given base specifications -/
def mkSpec (w : W) (c : Id) (bspecs : List Id) : W × Id :=
  ((({ w with next := w.next + 1, g := newNode w.g w.next bspecs } : W).setCls c
      { w.cls c with spec := some w.next }), w.next)

/-- `implementedBy(cls)`: lazily create the class specification (bases' specifications first). -/
def implementedBy : Nat → W → Id → W × Id
  | 0, w, _ => (w, 0)
  | f+1, w, c =>
    match (w.cls c).spec with
    | some s => (w, s)
    | none => mkSpec (specFold (implementedBy f) w (w.cls c).pyBases).1 c (specFold (implementedBy f) w (w.cls c).pyBases).2

/-- the filter of `_classImplements_ordered`: drop what the specification already implies, except that the root
`Interface` may be declared on a class that declares nothing else -/
def keepDecl (w : W) (s : Id) (k : Cls) (x : Id) : Bool := !(w.isOrExtends s x) || (x == 0 && k.declared.isEmpty)

/-- the loop of `_classImplements_ordered` over `cls.__bases__`: append the base specifications not yet listed -/
def addBaseSpecs (fuel : Nat) : W → List Id → List Id → W × List Id
  | w, [], acc => (w, acc)
  | w, b :: bs, acc =>
    addBaseSpecs fuel (implementedBy fuel w b).1 bs
      (if acc.contains (implementedBy fuel w b).2 then acc else acc ++ [(implementedBy fuel w b).2])

/-- the body of `_classImplements_ordered(spec, before, after)` once `spec = implementedBy(cls)` is at hand -/
def declareOn (fuel : Nat) (w : W) (c s : Id) (before after : List Id) : W :=
  let k := w.cls c
  let newDeclared := dedupe (before.filter (keepDecl w s k) ++ k.declared ++ after.filter (keepDecl w s k))
  let wb := if k.inherit then addBaseSpecs fuel w k.pyBases newDeclared else (w, newDeclared)
  let w2 := wb.1.setCls c { wb.1.cls c with declared := newDeclared }
  { w2 with g := setBases w2.g s wb.2 }

/-- `_classImplements_ordered(spec, before, after)` -/
def classImplementsOrdered (fuel : Nat) (w : W) (c : Id) (before after : List Id) : W :=
  declareOn fuel (implementedBy fuel w c).1 c (implementedBy fuel w c).2 before after

/-- `classImplements(cls, *interfaces)` -/
def classImplements (fuel : Nat) (w : W) (c : Id) (ifaces : List Id) : W :=
  let w1 := (implementedBy fuel w c).1
  let declared := (w1.cls c).declared
  let before := ifaces.filter fun i => declared.any fun b => w1.extendsStrict i b
  let after := ifaces.filter fun i => !(declared.any fun b => w1.extendsStrict i b)
  classImplementsOrdered fuel w1 c before after

/-- the first half of `classImplementsOnly`: forget what was declared and inherited -/
def resetDecl (w : W) (c s : Id) : W :=
  let w1 := w.setCls c { w.cls c with declared := [], inherit := false }
  { w1 with g := setBases w1.g s [] }

/-- `classImplementsOnly(cls, *interfaces)` -/
def classImplementsOnly (fuel : Nat) (w : W) (c : Id) (ifaces : List Id) : W :=
  classImplementsOrdered fuel (resetDecl (implementedBy fuel w c).1 c (implementedBy fuel w c).2) c ifaces []

def classImplementsFirst (fuel : Nat) (w : W) (c : Id) (iface : Id) : W :=
  classImplementsOrdered fuel w c [iface] []

/-- `Declaration._add_interfaces_to_cls(interfaces, cls)` -/
def addInterfacesToCls (fuel : Nat) (w : W) (ifaces : List Id) (c : Id) : W × List Id :=
  ((implementedBy fuel w c).1,
   ifaces.filter (fun i => !((implementedBy fuel w c).1.isOrExtends (implementedBy fuel w c).2 i)) ++ [(implementedBy fuel w c).2])

/-- a new `Provides` object, remembered in the cache -/
def newProvides (w : W) (c : Id) (ifaces freshBases : List Id) : W × Id :=
  ({ w with next := w.next + 1, g := newNode w.g w.next freshBases,
            pcache := (w.pcache.filter (·.1 != (c, ifaces))) ++ [((c, ifaces), w.next)] }, w.next)

/-- may the cached `Provides` object `p` be handed out? (`fixedProvides`: only if its bases are what a fresh one gets) -/
def usable (w : W) (freshBases : List Id) : Option Id → Bool
  | some p => if w.fixedProvides then w.g.bases p == freshBases else true
  | none => false

/-- the `Provides(cls, *interfaces)` factory with its shared cache -/
def provides (fuel : Nat) (w : W) (c : Id) (ifaces : List Id) : W × Id :=
  let hit := (w.pcache.find? (·.1 == (c, ifaces))).map (·.2)
  let wf := addInterfacesToCls fuel w ifaces c
  match hit, usable wf.1 wf.2 hit with
  | some p, true => (wf.1, p)
  | _, _ => newProvides wf.1 c ifaces wf.2

/-- weak values: an entry lives as long as some instance holds the declaration -/
def collect (w : W) : W :=
  { w with pcache := w.pcache.filter fun e =>
      (w.instIds.any fun o => (w.inst o).prov == some e.2) || w.pinned.contains e.2 }

def directlyProvides (fuel : Nat) (w : W) (o : Id) (ifaces : List Id) : W :=
  let r := provides fuel w (w.inst o).cls ifaces
  collect (r.1.setInst o { r.1.inst o with prov := some r.2 })

/-- `directlyProvidedBy(ob)` as a flat list of interfaces -/
def directlyProvidedBy (w : W) (o : Id) : List Id :=
  match (w.inst o).prov with
  | none => []
  | some p => dedupe ((w.g.bases p).dropLast)

def alsoProvides (fuel : Nat) (w : W) (o : Id) (ifaces : List Id) : W :=
  directlyProvides fuel w o (directlyProvidedBy w o ++ ifaces)

/-- `providedBy(ob)` -/
def providedBy (fuel : Nat) (w : W) (o : Id) : W × Id :=
  match (w.inst o).prov with
  | some p => (w, p)
  | none => implementedBy fuel w (w.inst o).cls

def noLongerProvides (fuel : Nat) (w : W) (o : Id) (iface : Id) : W × Bool :=
  let remaining := (directlyProvidedBy w o).filter fun i => !(w.isOrExtends i iface)     -- `i.extends(j, 0)`
  let w1 := directlyProvides fuel w o remaining
  let r := providedBy fuel w1 o
  (r.1, r.1.isOrExtends r.2 iface)                                                         -- → ValueError

def init (fixed : Bool) : W :=
  -- `implementedBy(object)` exists from import time
  { g := newNode (ZI.Graph2.init 0) 1000 [],
    classIds := [0], cls := fun c => if c = 0 then { pyBases := [], spec := some 1000 } else { pyBases := [] },
    instIds := [], inst := fun _ => { cls := 0 }, pcache := [], next := 1001, fixedProvides := fixed }

/-! ### side-by-side sanity checks against `ZI.Classes` (kernel-evaluated) -/
section crosscheck
/-- one declaration call / creation, as the driver issues them -/
inductive Cmd
  | iface (i : Id) (bs : List Id) | cls (c : Id) (bs : List Id) | inst (o c : Id)
  | add (c : Id) (l : List Id) | only (c : Id) (l : List Id) | first (c i : Id)
  | dp (o : Id) (l : List Id) | also (o : Id) (l : List Id) | nl (o j : Id) | impl (c : Id) | prov (o : Id)

def exec2 (w : W) : Cmd → W
  | .iface i bs => { w with g := newNode w.g i bs }
  | .cls c bs => w.setCls c { pyBases := bs }
  | .inst o c => w.setInst o { cls := c }
  | .add c l => classImplements 64 w c l
  | .only c l => classImplementsOnly 64 w c l
  | .first c i => classImplementsFirst 64 w c i
  | .dp o l => directlyProvides 64 w o l
  | .also o l => alsoProvides 64 w o l
  | .nl o j => (noLongerProvides 64 w o j).1
  | .impl c => (implementedBy 64 w c).1
  | .prov o => (providedBy 64 w o).1

def exec1 (w : ZI.Classes.W) : Cmd → ZI.Classes.W
  | .iface i bs => { w with g := ZI.Graph.newNode w.g i bs }
  | .cls c bs => w.setCls c { pyBases := bs }
  | .inst o c => w.setInst o { cls := c }
  | .add c l => ZI.Classes.classImplements 64 w c l
  | .only c l => ZI.Classes.classImplementsOnly 64 w c l
  | .first c i => ZI.Classes.classImplementsFirst 64 w c i
  | .dp o l => ZI.Classes.directlyProvides 64 w o l
  | .also o l => ZI.Classes.alsoProvides 64 w o l
  | .nl o j => (ZI.Classes.noLongerProvides 64 w o j).1
  | .impl c => (ZI.Classes.implementedBy 64 w c).1
  | .prov o => (ZI.Classes.providedBy 64 w o).1

/-- everything the driver can print about the listed classes and instances: full cached orders of `implementedBy` /
`providedBy`, the declared lists, `directlyProvidedBy`, and the id counter -/
def obs2 (w : W) (cs os : List Id) : List (List Id) × List (List Id) × List (List Id) × Id :=
  (cs.map (fun c => let r := implementedBy 64 w c; r.1.sro r.2),
   os.map (fun o => let r := providedBy 64 w o; r.1.sro r.2),
   os.map (fun o => directlyProvidedBy w o) ++ cs.map (fun c => (w.cls c).declared), w.next)
def obs1 (w : ZI.Classes.W) (cs os : List Id) : List (List Id) × List (List Id) × List (List Id) × Id :=
  (cs.map (fun c => let r := ZI.Classes.implementedBy 64 w c; r.1.sro r.2),
   os.map (fun o => let r := ZI.Classes.providedBy 64 w o; r.1.sro r.2),
   os.map (fun o => ZI.Classes.directlyProvidedBy w o) ++ cs.map (fun c => (w.cls c).declared), w.next)

/-- the history of the property text, then more of everything -/
def hist1 : List Cmd :=
  [.iface 1 [0], .iface 2 [0], .cls 1 [0], .add 1 [1], .inst 1 1, .dp 1 [1], .only 1 [2], .inst 2 1, .dp 2 [1]]
def hist2 : List Cmd :=
  [.iface 1 [0], .iface 2 [1], .iface 3 [0], .iface 4 [2, 3], .cls 1 [0], .cls 2 [1], .cls 3 [1], .cls 4 [2, 3],
   .inst 1 4, .dp 1 [4], .add 2 [2], .first 4 3, .inst 2 4, .also 2 [1, 3], .also 1 [1], .only 3 [3], .nl 1 2,
   .impl 4, .prov 2, .add 1 [4], .dp 2 [4, 1], .inst 3 2, .dp 3 [4, 1], .nl 3 1, .add 0 [3]]

example : obs2 (hist1.foldl exec2 (init true)) [0, 1] [1, 2] = obs1 (hist1.foldl exec1 (ZI.Classes.init true)) [0, 1] [1, 2] := by
  decide +kernel
example : obs2 (hist2.foldl exec2 (init true)) [0, 1, 2, 3, 4] [1, 2, 3]
    = obs1 (hist2.foldl exec1 (ZI.Classes.init true)) [0, 1, 2, 3, 4] [1, 2, 3] := by
  decide +kernel
/-- also the factory as at the pinned commit (`fixedProvides = false`) agrees -/
example : obs2 (hist2.foldl exec2 (init false)) [0, 1, 2, 3, 4] [1, 2, 3]
    = obs1 (hist2.foldl exec1 (ZI.Classes.init false)) [0, 1, 2, 3, 4] [1, 2, 3] := by
  decide +kernel
end crosscheck
end ZI.Classes2
