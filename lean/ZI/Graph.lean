import ZI.RO
/-! Scratch (design phase): interface.py Specification graph with change propagation. -/
namespace ZI.Graph
open ZI.RO
structure Node where
  bases : List Id := []
  sro   : List Id := []
  deps  : List (Id × Nat) := []     -- `_dependents`: dependent ↦ subscription count, dict insertion order
deriving Repr
structure G where
  root  : Id
  nodes : List (Id × Node)           -- creation order
  log : List Id := []                -- every `__setBases` call, in order (each one runs `changed`)
deriving Repr

def G.get (g : G) (s : Id) : Node := ((g.nodes.find? (·.1 == s)).map (·.2)).getD {}
def G.set (g : G) (s : Id) (n : Node) : G :=
  if g.nodes.any (·.1 == s) then { g with nodes := g.nodes.map fun p => if p.1 == s then (s, n) else p }
  else { g with nodes := g.nodes ++ [(s, n)] }
def G.basesFn (g : G) : Bases := fun s => (g.get s).bases
def G.sroFn (g : G) : Id → List Id := fun s => (g.get s).sro

/-- `Specification.subscribe` -/
def subscribe (g : G) (b dep : Id) : G :=
  let n := g.get b
  let deps := if n.deps.any (·.1 == dep) then n.deps.map fun p => if p.1 == dep then (dep, p.2 + 1) else p
              else n.deps ++ [(dep, 1)]
  g.set b { n with deps := deps }
/-- `Specification.unsubscribe` -/
def unsubscribe (g : G) (b dep : Id) : G :=
  let n := g.get b
  let deps := n.deps.filterMap fun p => if p.1 == dep then (if p.2 ≤ 1 then none else some (dep, p.2 - 1)) else some p
  g.set b { n with deps := deps }

/-- `Specification.changed`: recompute own sro from the *cached* sro of the bases, then notify dependents in order. -/
def changed (fuelRo : Nat) : Nat → G → Id → G
  | 0, g, _ => g
  | f+1, g, s =>
    let n := g.get s
    let sro := if s == g.root then [s] else sroStep g.basesFn g.root fuelRo g.sroFn s
    let g := g.set s { n with sro := sro }
    -- snapshot of the dependents, as `tuple(self._dependents.keys())`
    n.deps.foldl (fun g d => changed fuelRo f g d.1) g

/-- `Specification.__setBases` -/
def setBases (g : G) (s : Id) (bs : List Id) : G :=
  let g := { g with log := g.log ++ [s] }
  let old := (g.get s).bases
  let g := old.foldl (fun g b => unsubscribe g b s) g
  let g := g.set s { g.get s with bases := bs }
  let g := bs.foldl (fun g b => subscribe g b s) g
  let n := g.nodes.length + 1
  changed n n g s

def newNode (g : G) (s : Id) (bs : List Id) : G := setBases (g.set s {}) s bs
def init (root : Id) : G := { root := root, nodes := [(root, { sro := [root] })] }

/-- C02: what a freshly built graph of the same shape answers -/
def fresh (g : G) (s : Id) : List Id := sroFresh g.basesFn g.root (g.nodes.length + 1) s

def C02_fresh_holds (g : G) : Bool := g.nodes.all fun p => p.2.sro == fresh g p.1
end ZI.Graph
