/-! Scratch (design phase): C11 — ownership protocol of the C lookup functions.
    Heap abstraction: reference counting guarantees "whatever is held by a live holder is alive" (WF).
    The environment (other threads under the GIL / re-entrant Python code) may do ANYTHING at a callback —
    clear every field of the lookup object, fill new caches, mutate any dict — as long as reference counting
    keeps alive what *our frame* still holds, and immutable containers (tuples) keep their elements. -/
namespace ZI.Own
abbrev Obj := Nat
abbrev Var := Nat
abbrev Field := Nat        -- 0 _cache, 1 _mcache, 2 _scache, 3 _verify_ro, 4 _verify_generations

inductive Op
  | new (v : Var)                      -- v := new (owned) reference to a live object
  | borrowField (v : Var) (f : Field)  -- v := object kept alive by the container chain rooted at self->f
  | borrowInside (v w : Var) (imm : Bool) -- v := element of the container held (owned) in w; imm = tuple
  | getItem (v w : Var)                -- v := element of the dict w, where w is owned *or* itself kept alive by a field chain
  | use (v : Var)                      -- read / write through v
  | incref (v : Var)
  | decref (v : Var)
  | callback                           -- arbitrary Python code runs
  | clear (f : Field)
deriving Repr, DecidableEq

inductive Prog
  | done
  | ret (r : Option Var)               -- `return r;` : the reference held in `r` goes to the caller (`none`: NULL / an int / a borrowed singleton)
  | seq (o : Op) (rest : Prog)
  | branch (p q : Prog)
deriving Repr

inductive Abs
  | unk | owned | bField (f : Field) | bInside (w : Var) (imm : Bool)
deriving Repr, DecidableEq

abbrev AState := Var → Abs
def AState.set (σ : AState) (v : Var) (a : Abs) : AState := fun x => if x = v then a else σ x

def usable (σ : AState) (v : Var) : Bool :=
  match σ v with
  | .owned => true
  | .bField _ => true
  | .bInside w _ => σ w == .owned
  | .unk => false

/-- what a callback / clear invalidates -/
def afterEnv (σ : AState) (only : Option Field) : AState := fun x =>
  match σ x with
  | .bField f => if only = none ∨ only = some f then .unk else .bField f
  | .bInside w imm => if only = none ∧ imm = false then .unk else .bInside w imm
  | a => a

/-- rebinding or releasing `w` invalidates borrows from inside it -/
def dropInside (σ : AState) (w : Var) : AState := fun x =>
  match σ x with
  | .bInside w' imm => if w' = w then .unk else .bInside w' imm
  | a => a

def astep (σ : AState) : Op → Option AState
  | .new v => some ((dropInside σ v).set v .owned)
  | .borrowField v f => some ((dropInside σ v).set v (.bField f))
  | .borrowInside v w imm => if σ w = .owned ∧ v ≠ w then some ((dropInside σ v).set v (.bInside w imm)) else none
  | .getItem v w =>
      if v = w then none else
      match σ w with
      | .owned => some ((dropInside σ v).set v (.bInside w false))
      | .bField f => some ((dropInside σ v).set v (.bField f))
      | _ => none
  | .use v => if usable σ v then some σ else none
  | .incref v => if usable σ v then some ((dropInside σ v).set v .owned) else none
  | .decref v => if σ v = .owned then some ((dropInside σ v).set v .unk) else none
  | .callback => some (afterEnv σ none)
  | .clear f => some (afterEnv σ (some f))

def check : Prog → AState → Bool
  | .done, _ => true
  | .ret _, _ => true
  | .seq o rest, σ => match astep σ o with | some σ' => check rest σ' | none => false
  | .branch p q, σ => check p σ && check q σ

/-! ### concrete semantics -/
structure Heap where
  alive : Obj → Prop
  imm : Obj → Prop
  fieldPtr : Field → Option Obj
  child : Obj → Obj → Prop

inductive Chain (h : Heap) (f : Field) : Obj → Prop
  | root {o} : h.fieldPtr f = some o → Chain h f o
  | step {p o} : Chain h f p → h.child p o → Chain h f o

structure Cfg where
  heap : Heap
  loc : Var → Obj
  σ : AState

def held (σ : AState) (loc : Var → Obj) (o : Obj) : Prop := ∃ v, σ v = .owned ∧ loc v = o

structure WF (h : Heap) (hold : Obj → Prop) : Prop where
  field : ∀ f o, h.fieldPtr f = some o → h.alive o
  child : ∀ p o, h.alive p → h.child p o → h.alive o
  frame : ∀ o, hold o → h.alive o

theorem Chain.alive {h : Heap} {hold : Obj → Prop} (wf : WF h hold) {f : Field} {o : Obj} (c : Chain h f o) :
    h.alive o := by
  induction c with
  | root hf => exact wf.field _ _ hf
  | step _ hc ih => exact wf.child _ _ ih hc

structure Inv (c : Cfg) : Prop where
  wf : WF c.heap (held c.σ c.loc)
  bfield : ∀ v f, c.σ v = .bField f → Chain c.heap f (c.loc v)
  binside : ∀ v w imm, c.σ v = .bInside w imm → c.σ w = .owned →
    c.heap.child (c.loc w) (c.loc v) ∧ (imm = true → c.heap.imm (c.loc w))

/-- heaps reachable by "somebody else ran": only the refcounting guarantee for our holdings survives -/
def EnvStep (h h' : Heap) (hold : Obj → Prop) : Prop :=
  WF h' hold ∧ (∀ p, h.imm p → h'.imm p ∧ (h'.alive p → ∀ q, h.child p q → h'.child p q))

inductive Step : Cfg → Op → Cfg → Prop
  | new (c : Cfg) (v : Var) (o : Obj) (σ' : AState) :
      astep c.σ (.new v) = some σ' → c.heap.alive o →
      Step c (.new v) ⟨c.heap, fun x => if x = v then o else c.loc x, σ'⟩
  | borrowField (c : Cfg) (v : Var) (f : Field) (o : Obj) (σ' : AState) :
      astep c.σ (.borrowField v f) = some σ' → Chain c.heap f o →
      Step c (.borrowField v f) ⟨c.heap, fun x => if x = v then o else c.loc x, σ'⟩
  | borrowInside (c : Cfg) (v w : Var) (imm : Bool) (o : Obj) (σ' : AState) :
      astep c.σ (.borrowInside v w imm) = some σ' → c.heap.child (c.loc w) o →
      (imm = true → c.heap.imm (c.loc w)) →
      Step c (.borrowInside v w imm) ⟨c.heap, fun x => if x = v then o else c.loc x, σ'⟩
  | getItem (c : Cfg) (v w : Var) (o : Obj) (σ' : AState) :
      astep c.σ (.getItem v w) = some σ' → c.heap.child (c.loc w) o →
      Step c (.getItem v w) ⟨c.heap, fun x => if x = v then o else c.loc x, σ'⟩
  | use (c : Cfg) (v : Var) (σ' : AState) : astep c.σ (.use v) = some σ' → Step c (.use v) ⟨c.heap, c.loc, σ'⟩
  | incref (c : Cfg) (v : Var) (σ' : AState) :
      astep c.σ (.incref v) = some σ' → Step c (.incref v) ⟨c.heap, c.loc, σ'⟩
  | decref (c : Cfg) (v : Var) (σ' : AState) (h' : Heap) :
      astep c.σ (.decref v) = some σ' →
      -- no Python code runs: fields and container contents are as before, some objects may have died
      h'.fieldPtr = c.heap.fieldPtr → h'.child = c.heap.child → h'.imm = c.heap.imm →
      WF h' (held σ' c.loc) →
      Step c (.decref v) ⟨h', c.loc, σ'⟩
  | callback (c : Cfg) (h' : Heap) (σ' : AState) :
      astep c.σ .callback = some σ' → EnvStep c.heap h' (held σ' c.loc) →
      Step c .callback ⟨h', c.loc, σ'⟩
  | clear (c : Cfg) (f : Field) (h' : Heap) (σ' : AState) :
      astep c.σ (.clear f) = some σ' →
      (∀ g, g ≠ f → h'.fieldPtr g = c.heap.fieldPtr g) → h'.child = c.heap.child → h'.imm = c.heap.imm →
      WF h' (held σ' c.loc) →
      Step c (.clear f) ⟨h', c.loc, σ'⟩

/-- the bad event: reading or writing through a pointer to a freed object -/
def UseAfterFree (c : Cfg) : Op → Prop
  | .use v => ¬ c.heap.alive (c.loc v)
  | .incref v => ¬ c.heap.alive (c.loc v)
  | .borrowInside _ w _ => ¬ c.heap.alive (c.loc w)
  | .getItem _ w => ¬ c.heap.alive (c.loc w)
  | _ => False

theorem usable_alive {c : Cfg} (inv : Inv c) {v : Var} (h : usable c.σ v = true) : c.heap.alive (c.loc v) := by
  unfold usable at h
  split at h
  · rename_i ho; exact inv.wf.frame _ ⟨v, ho, rfl⟩
  · rename_i f hf; exact (inv.bfield v f hf).alive inv.wf
  · rename_i w imm hb
    have hw : c.σ w = .owned := by simpa using h
    have := (inv.binside v w imm hb hw).1
    exact inv.wf.child _ _ (inv.wf.frame _ ⟨w, hw, rfl⟩) this
  · simp at h

/-- a step the check accepts never touches a freed object -/
theorem safe_op {c : Cfg} (inv : Inv c) {op : Op} {σ' : AState} (h : astep c.σ op = some σ') :
    ¬ UseAfterFree c op := by
  cases op with
  | use v =>
    simp only [astep] at h
    split at h
    · rename_i hu; intro hb; exact hb (usable_alive inv hu)
    · simp at h
  | incref v =>
    simp only [astep] at h
    split at h
    · rename_i hu; intro hb; exact hb (usable_alive inv hu)
    · simp at h
  | borrowInside v w imm =>
    simp only [astep] at h
    split at h
    · rename_i hw; intro hb; exact hb (inv.wf.frame _ ⟨w, hw.1, rfl⟩)
    · simp at h
  | getItem v w =>
    simp only [astep] at h
    split at h
    · simp at h
    · split at h
      · rename_i ho; intro hb; exact hb (inv.wf.frame _ ⟨w, ho, rfl⟩)
      · rename_i f hf; intro hb; exact hb ((inv.bfield w f hf).alive inv.wf)
      · simp at h
  | new v => intro hb; exact hb
  | borrowField v f => intro hb; exact hb
  | decref v => intro hb; exact hb
  | callback => intro hb; exact hb
  | clear f => intro hb; exact hb

end ZI.Own
