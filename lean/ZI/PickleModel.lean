/-! C13 model (core Lean only): what `Implements.__reduce__` reads and what the declaration calls do to it.
`implementedBy(cls)` creates the class specification with `inherit = cls`; the *only* forms set `inherit = None`;
the repaired code also records the class in `_implements_for`, which the reduction falls back to. -/
namespace ZI.Pickle
abbrev Cls := Nat
structure ImplSpec where
  inherit : Option Cls          -- `spec.inherit`
  implFor : Option Cls          -- `spec._implements_for` (absent at the pinned commit)
deriving Repr, DecidableEq

/-- the live class specifications: class ↦ `cls.__implemented__` (`none` = not created yet) -/
abbrev W := Cls → Option ImplSpec

inductive Op
  | implementedBy (c : Cls)         -- any call that needs the specification: implementedBy, providedBy(instance), Provides(cls, …)
  | classImplements (c : Cls)       -- classImplements / implementer / classImplementsFirst
  | classImplementsOnly (c : Cls)   -- classImplementsOnly / implementer_only
deriving Repr, DecidableEq

def create (fixed : Bool) (w : W) (c : Cls) : W := fun x =>
  if x = c then
    match w c with
    | some s => some s
    | none => some { inherit := some c, implFor := if fixed then some c else none }
  else w x

def step (fixed : Bool) (w : W) : Op → W
  | .implementedBy c => create fixed w c
  | .classImplements c => create fixed w c
  | .classImplementsOnly c => fun x =>
      if x = c then (create fixed w c c).map fun s => { s with inherit := none } else create fixed w c x

def run (fixed : Bool) (ops : List Op) : W := ops.foldl (step fixed) (fun _ => none)

/-- `Implements.__reduce__`: the class whose `implementedBy` is called on unpickling; `none` = `implementedBy(None)`,
which is the empty declaration -/
def reduce (fixed : Bool) (s : ImplSpec) : Option Cls :=
  match s.inherit with
  | some c => some c
  | none => if fixed then s.implFor else none

/-- what a reduction may mention (an interface reduces to its global name; a `Provides` / `ClassProvides` to its
constructor arguments): names of importable classes and interfaces only — no attribute tables, doc strings or bases -/
inductive Ref | cls (c : Cls) | iface (i : Nat) | noneRef
deriving Repr, DecidableEq
inductive Red
  | globalName (module name : String)             -- InterfaceClass.__reduce__ returns `self.__name__`
  | implementedBy (arg : Ref)                      -- Implements
  | provides (args : List Ref)                     -- ProvidesClass: `Provides, self.__args`
  | classProvides (args : List Ref)                -- ClassProvides: `self.__class__, self.__args`
  | empty                                          -- `_empty`
deriving Repr
end ZI.Pickle
