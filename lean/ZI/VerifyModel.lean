/-! C17 model (core Lean only): verify.py `_incompat`, `_verify_element`, `_verify` versus "every admitted call shape binds". -/
namespace ZI.Verify
/-- a signature as `getSignatureInfo` reports it -/
structure Sig where
  req : Nat          -- len(required)
  opt : Nat          -- len(positional) - len(required)
  varargs : Bool
  kwargs : Bool
deriving Repr, DecidableEq
def Sig.pos (s : Sig) : Nat := s.req + s.opt

/-- verify.py `_incompat(required, implemented)`: `none` = compatible -/
def incompat (iface impl : Sig) : Option String :=
  if impl.req > iface.req then some "implementation requires too many arguments"
  else if impl.pos < iface.pos ∧ !impl.varargs then some "implementation doesn't allow enough arguments"
  else if iface.kwargs ∧ !impl.kwargs then some "implementation doesn't support keyword arguments"
  else if iface.varargs ∧ !impl.varargs then some "implementation doesn't support variable arguments"
  else none

/-- a call shape: `k` positional arguments and `extraKw` keywords that are not parameter names -/
structure Shape where
  k : Nat
  extraKw : Nat

/-- the shapes an interface method signature admits -/
def admits (s : Sig) (c : Shape) : Prop :=
  s.req ≤ c.k ∧ (c.k ≤ s.pos ∨ s.varargs = true) ∧ (c.extraKw = 0 ∨ s.kwargs = true)

/-- Python's binding rule for such a shape (`inspect.signature(impl).bind`) -/
def binds (s : Sig) (c : Shape) : Prop :=
  s.req ≤ c.k ∧ (c.k ≤ s.pos ∨ s.varargs = true) ∧ (c.extraKw = 0 ∨ s.kwargs = true)

/-- **C17_incompat_iff** -/
theorem incompat_iff (iface impl : Sig) :
    incompat iface impl = none ↔ ∀ c : Shape, admits iface c → binds impl c := by
  constructor
  · intro h c ⟨h1, h2, h3⟩
    unfold incompat at h
    split at h; · simp at h
    split at h; · simp at h
    split at h; · simp at h
    split at h; · simp at h
    rename_i n1 n2 n3 n4
    simp only [Sig.pos] at *
    refine ⟨by omega, ?_, ?_⟩
    · rcases h2 with h2 | h2
      · by_cases hv : impl.varargs = true
        · exact Or.inr hv
        · left; simp [hv] at n2; simp only [Sig.pos]; omega
      · right; simp [h2] at n4; exact n4
    · rcases h3 with h3 | h3
      · exact Or.inl h3
      · right; simp [h3] at n3; exact n3
  · intro h
    unfold incompat
    -- probe with the shapes that witness each rule
    have p1 := h ⟨iface.req, 0⟩ ⟨Nat.le_refl _, Or.inl (by simp [Sig.pos]), Or.inl rfl⟩
    have p2 := h ⟨iface.pos, 0⟩ ⟨by simp [Sig.pos], Or.inl (Nat.le_refl _), Or.inl rfl⟩
    split
    · rename_i hh; have := p1.1; simp at this; omega
    · split
      · rename_i hh
        obtain ⟨hlt, hv⟩ := hh
        rcases p2.2.1 with h' | h'
        · simp at h'; omega
        · simp [h'] at hv
      · split
        · rename_i hh
          obtain ⟨hk, hnk⟩ := hh
          have p3 := h ⟨iface.req, 1⟩ ⟨Nat.le_refl _, Or.inl (by simp [Sig.pos]), Or.inr hk⟩
          rcases p3.2.2 with h' | h'
          · simp at h'
          · simp [h'] at hnk
        · split
          · rename_i hh
            obtain ⟨hv, hnv⟩ := hh
            -- one more positional than the implementation can take
            have p4 := h ⟨max iface.req (impl.pos + 1), 0⟩ ⟨Nat.le_max_left _ _, Or.inr hv, Or.inl rfl⟩
            rcases p4.2.1 with h' | h'
            · simp at h'; omega
            · simp [h'] at hnv
          · rfl

example : incompat ⟨1, 1, false, false⟩ ⟨0, 3, false, true⟩ = none := by decide
example : (incompat ⟨0, 0, true, false⟩ ⟨0, 2, false, false⟩).isSome = true := by decide   -- *args needs *args

/-! ### `_verify_element` and `_verify` -/
/-- a member of `iface.namesAndDescriptions(all=True)` -/
inductive Desc | attr | method (sig : Sig)
deriving Repr, DecidableEq

/-- what `getattr(candidate, name)` turns out to be -/
inductive Cand
  | missing                 -- AttributeError
  | func (sig : Sig)        -- a Python function or bound method; `sig` is what fromFunction/fromMethod report (self stripped)
  | opaqueCallable          -- builtin / method descriptor / any other callable: cannot be introspected
  | nonCallable
  | propertyObj             -- a `property` object (what a class attribute lookup gives)
deriving Repr, DecidableEq

structure Elem where
  name : Nat
  desc : Desc
  cand : Cand
deriving Repr, DecidableEq

inductive Failure
  | doesNotImplement
  | brokenImplementation (name : Nat)
  | brokenMethod (name : Nat) (msg : String)
deriving Repr, DecidableEq

/-- `_verify_element`; `none` = no exception. `cls` = class verification (`vtype == 'c'`) -/
def verifyElement (cls : Bool) (e : Elem) : Option Failure :=
  match e.cand, e.desc with
  | .missing, .attr => if cls then none else some (.brokenImplementation e.name)
  | .missing, .method _ => some (.brokenImplementation e.name)
  | _, .attr => none
  | .func impl, .method want => (incompat want impl).map (.brokenMethod e.name)
  | .opaqueCallable, .method _ => none
  | .propertyObj, .method _ => if cls then none else some (.brokenMethod e.name "implementation is not a method")
  | .nonCallable, .method _ => some (.brokenMethod e.name "implementation is not a method")

inductive Result
  | ok
  | single (f : Failure)
  | multiple (fs : List Failure)
deriving Repr, DecidableEq

/-- every individual failure, in the order `_verify` meets them -/
def failures (cls tentative declared : Bool) (elems : List Elem) : List Failure :=
  (if !tentative && !declared then [Failure.doesNotImplement] else []) ++ elems.filterMap (verifyElement cls)

/-- `_verify` -/
def verify (cls tentative declared : Bool) (elems : List Elem) : Result :=
  match failures cls tentative declared elems with
  | [] => .ok
  | [f] => .single f
  | fs => .multiple fs
end ZI.Verify
