/-! Scratch: `dict.update` folded over a reversed enumeration keeps, per key, the first binding of the forward one
    (used by C08 `_lookupAll` and C15 `namesAndDescriptions`). -/
namespace ZI.Upd
variable {κ α : Type} [DecidableEq κ]

abbrev AList (κ α : Type) := List (κ × α)
def get? (m : AList κ α) (k : κ) : Option α := (m.find? (fun p => p.1 = k)).map (·.2)
/-- `d[k] = v` -/
def set (m : AList κ α) (k : κ) (v : α) : AList κ α :=
  if m.any (fun p => p.1 = k) then m.map (fun p => if p.1 = k then (k, v) else p) else m ++ [(k, v)]
/-- `d.update(t)` -/
def update (m t : AList κ α) : AList κ α := t.foldl (fun acc p => set acc p.1 p.2) m

theorem get?_nil (k : κ) : get? ([] : AList κ α) k = none := rfl

theorem get?_cons (p : κ × α) (m : AList κ α) (k : κ) :
    get? (p :: m) k = if p.1 = k then some p.2 else get? m k := by
  unfold get?
  simp only [List.find?_cons]
  by_cases h : p.1 = k <;> simp [h]

theorem get?_append (m m' : AList κ α) (k : κ) : get? (m ++ m') k = (get? m k).or (get? m' k) := by
  induction m with
  | nil => simp [get?_nil]
  | cons p t ih =>
    simp only [List.cons_append, get?_cons]
    by_cases h : p.1 = k <;> simp [h, ih]

theorem get?_eq_none_of_not_any {m : AList κ α} {k : κ} (h : m.any (fun p => p.1 = k) = false) : get? m k = none := by
  induction m with
  | nil => rfl
  | cons p t ih =>
    simp only [List.any_cons, Bool.or_eq_false_iff, decide_eq_false_iff_not] at h
    rw [get?_cons]; simp [h.1, ih h.2]

theorem get?_set (m : AList κ α) (k : κ) (v : α) (k' : κ) :
    get? (set m k v) k' = if k = k' then some v else get? m k' := by
  unfold set
  split
  · rename_i hany
    induction m with
    | nil => simp at hany
    | cons p t ih =>
      simp only [List.map_cons, get?_cons]
      by_cases hp : p.1 = k
      · subst hp
        simp only [if_true]
        by_cases hk : p.1 = k'
        · simp [hk]
        · simp only [hk, if_false]
          -- the rest: keys equal to p.1 are rewritten, others untouched; k' ≠ p.1
          clear ih hany
          induction t with
          | nil => rfl
          | cons q t' ih' =>
            simp only [List.map_cons, get?_cons]
            by_cases hq : q.1 = p.1
            · simp [hq, hk]; exact ih'
            · simp [hq]; by_cases hqk : q.1 = k' <;> simp [hqk, ih']
      · simp only [hp, if_false]
        have hany' : t.any (fun p => p.1 = k) = true := by
          simp only [List.any_cons, Bool.or_eq_true, decide_eq_true_eq] at hany
          rcases hany with h | h
          · exact absurd h hp
          · exact h
        rw [ih hany']
        by_cases hk : k = k'
        · subst hk; simp [hp]
        · simp [hk]
  · rename_i hany
    have hnone := get?_eq_none_of_not_any (Bool.eq_false_iff.mpr hany : m.any (fun p => decide (p.1 = k)) = false)
    rw [get?_append, get?_cons, get?_nil]
    by_cases hk : k = k'
    · subst hk; simp [hnone]
    · simp [hk]

/-- last binding of `k` in `t` -/
def getLast (t : AList κ α) (k : κ) : Option α := get? t.reverse k

theorem get?_update (m t : AList κ α) (k : κ) : get? (update m t) k = (getLast t k).or (get? m k) := by
  unfold update getLast
  induction t generalizing m with
  | nil => simp [get?_nil]
  | cons p t ih =>
    simp only [List.foldl_cons, List.reverse_cons]
    rw [ih, get?_set, get?_append, get?_cons, get?_nil]
    by_cases hp : p.1 = k
    · simp [hp]
    · simp [hp]

/-- in a dict (distinct keys) the last binding is the only one -/
theorem getLast_eq_get? {t : AList κ α} (h : (t.map (·.1)).Nodup) (k : κ) : getLast t k = get? t k := by
  unfold getLast
  induction t with
  | nil => rfl
  | cons p t ih =>
    simp only [List.map_cons, List.nodup_cons] at h
    rw [List.reverse_cons, get?_append, ih h.2, get?_cons, get?_cons, get?_nil]
    by_cases hp : p.1 = k
    · subst hp
      have : get? t p.1 = none := by
        cases hg : get? t p.1 with
        | none => rfl
        | some v =>
          exfalso
          unfold get? at hg
          cases hf : t.find? (fun q => q.1 = p.1) with
          | none => rw [hf] at hg; simp at hg
          | some q =>
            have h1 := List.find?_some hf
            have h2 := List.mem_of_find?_eq_some hf
            exact h.1 (List.mem_map.mpr ⟨q, h2, by simpa using h1⟩)
      simp [this]
    · simp [hp]

/-- **the reversed-fold lemma** -/
theorem get?_fold_reverse (ts : List (AList κ α)) (hd : ∀ t ∈ ts, (t.map (·.1)).Nodup) (k : κ) :
    get? (ts.reverse.foldl update []) k = ts.findSome? fun t => get? t k := by
  induction ts with
  | nil => rfl
  | cons t rest ih =>
    simp only [List.reverse_cons, List.foldl_append, List.foldl_cons, List.foldl_nil, List.findSome?_cons]
    rw [get?_update, getLast_eq_get? (hd t (by simp)), ih fun t' ht' => hd t' (by simp [ht'])]
    cases get? t k <;> simp

#print axioms get?_fold_reverse
end ZI.Upd
