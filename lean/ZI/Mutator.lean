/-! C11 (third part): a MUTATOR interrupted by lookups — "no answer computed before the mutation survives in the cache
afterwards", seen from the mutator's side.

The anchors of the property name the mechanism: *`changed()` is the last step of every mutator, so entries stored earlier
are wiped*.  This file makes that precise for the step sequences of the registry mutators (`register`, `unregister`,
`subscribe`, `unsubscribe`, `rebuild`, the `__bases__` setter), which `tools/cextract.py` reads from the current `adapter.py`
on every run (generated obligation `mutators_wipe`).

IR.  A mutator is a tree of the operations that matter here: `hook` — a call out of the mutator at which other Python code
can run (the storage hooks `_mappingType` / `_sequenceType` / `_providedType` / `_leafSequenceType`, methods of other
objects; under the GIL this is also where another thread gets to run complete lookups); `write` — the data the answers are
computed from changes; `changed` — `self.changed(…)`: generation bump, the registry's own caches and those of every
registry below it are dropped; `shadow` / `unshadow` — `self.changed = …` / `del self.changed`: while an instance attribute
hides the method, `self.changed(…)` does none of that.  `seq`/`branch`/`loop`/`andThen` (a call of another mutator, or a
statement followed by the rest) give the control flow; a leaf `done` is a `return` (inside a loop body: the end of one
iteration).

Semantics.  One cache entry stands for any entry of any cache that depends on the registry: `cache = some v` says it holds an
answer computed from version `v` of the data.  At a `hook` the environment performs any number of lookups: an empty entry
may be filled with the answer of the CURRENT data, a filled one is served as it is.  The entry is *valid* when it is empty
or holds the answer of the current version.  Theorem `wipes_sound`: a mutator accepted by the static check, started with a
valid entry, ends with a valid entry — whatever the lookups at its hooks do. -/
namespace ZI.Mutator

inductive Op
  | hook | write | changed | shadow | unshadow
deriving Repr, DecidableEq

inductive Prog
  | done
  | seq (o : Op) (rest : Prog)
  | branch (p q : Prog)
  | loop (body rest : Prog)
  | andThen (p rest : Prog)
deriving Repr

/-! ### concrete semantics -/
structure CS where
  d : Nat                  -- version of the registration data
  cache : Option Nat       -- version the cached answer was computed from
  shadowed : Bool          -- an instance attribute hides `changed`

def Valid (s : CS) : Prop := s.cache = none ∨ s.cache = some s.d

/-- one step; at a hook the environment chooses whether a lookup fills the (empty) entry -/
inductive Step : CS → Op → CS → Prop
  | hook (s : CS) (fill : Bool) :
      Step s .hook { s with cache := match s.cache with
                                     | some v => some v
                                     | none => if fill then some s.d else none }
  | write (s : CS) : Step s .write { s with d := s.d + 1 }
  | changed (s : CS) : Step s .changed (if s.shadowed then s else { s with cache := none })
  | shadow (s : CS) : Step s .shadow { s with shadowed := true }
  | unshadow (s : CS) : Step s .unshadow { s with shadowed := false }

def Iter (R : CS → CS → Prop) : Nat → CS → CS → Prop
  | 0, s, s' => s' = s
  | n + 1, s, s' => ∃ m, R s m ∧ Iter R n m s'

/-- big-step execution: `Exec p s s'` — some run of `p` from `s` ends (returns) in `s'` -/
def Exec : Prog → CS → CS → Prop
  | .done, s, s' => s' = s
  | .seq o rest, s, s' => ∃ m, Step s o m ∧ Exec rest m s'
  | .branch p q, s, s' => Exec p s s' ∨ Exec q s s'
  | .loop body rest, s, s' => ∃ n m, Iter (fun a b => Exec body a b) n s m ∧ Exec rest m s'
  | .andThen p rest, s, s' => ∃ m, Exec p s m ∧ Exec rest m s'

/-! ### static check: an abstract interpretation over a six-element lattice -/
inductive St
  | empty     -- nothing is cached (changed() ran and no hook since)
  | clean     -- whatever is cached was computed from the current data
  | stale     -- a cached answer may be older than the data
deriving Repr, DecidableEq

def St.le : St → St → Bool
  | .empty, _ => true
  | .clean, .empty => false
  | .clean, _ => true
  | .stale, .stale => true
  | .stale, _ => false

def St.join : St → St → St
  | .empty, b => b
  | a, .empty => a
  | .clean, .clean => .clean
  | _, _ => .stale

structure AS where
  st : St
  sh : Bool      -- `changed` may be shadowed
deriving Repr, DecidableEq

def AS.le (a b : AS) : Bool := a.st.le b.st && (!a.sh || b.sh)
def AS.join (a b : AS) : AS := ⟨a.st.join b.st, a.sh || b.sh⟩

def astep (σ : AS) : Op → AS
  | .hook => match σ.st with | .empty => { σ with st := .clean } | _ => σ
  | .write => match σ.st with | .clean => { σ with st := .stale } | _ => σ
  | .changed => if σ.sh then σ else { σ with st := .empty }
  | .shadow => { σ with sh := true }
  | .unshadow => { σ with sh := false }

/-- candidate invariant of a loop whose body maps an entry state `x` to the joined leaf state `g x`: the first of up to four
ascending candidates that the body maps into itself (the lattice has height three).  That the result IS an invariant is
checked by `stableAll`, not assumed. -/
def fix (g : AS → AS) (σ : AS) : AS :=
  if (g σ).le σ then σ else
  let x1 := σ.join (g σ)
  if (g x1).le x1 then x1 else
  let x2 := x1.join (g x1)
  if (g x2).le x2 then x2 else x2.join (g x2)

/-- join of the abstract states at the leaves -/
def post : Prog → AS → AS
  | .done, σ => σ
  | .seq o rest, σ => post rest (astep σ o)
  | .branch p q, σ => (post p σ).join (post q σ)
  | .loop body rest, σ => post rest (fix (fun x => post body x) σ)
  | .andThen p rest, σ => post rest (post p σ)

def inv (body : Prog) (σ : AS) : AS := fix (fun x => post body x) σ

def stableAll : Prog → AS → Bool
  | .done, _ => true
  | .seq o rest, σ => stableAll rest (astep σ o)
  | .branch p q, σ => stableAll p σ && stableAll q σ
  | .loop body rest, σ =>
      let I := fix (fun x => post body x) σ
      σ.le I && (post body I).le I && stableAll body I && stableAll rest I
  | .andThen p rest, σ => stableAll p σ && stableAll rest (post p σ)

def start : AS := ⟨.clean, false⟩

/-- the mutator leaves no stale entry behind on any path -/
def wipes (p : Prog) : Bool := stableAll p start && (post p start).st != .stale

/-! ### soundness -/
def Gam (σ : AS) (s : CS) : Prop :=
  (s.shadowed = true → σ.sh = true) ∧
  (match σ.st with
   | .empty => s.cache = none
   | .clean => Valid s
   | .stale => True)

theorem gam_mono {σ τ : AS} {s : CS} (h : σ.le τ = true) (g : Gam σ s) : Gam τ s := by
  obtain ⟨st, sh⟩ := σ
  obtain ⟨st', sh'⟩ := τ
  obtain ⟨g1, g2⟩ := g
  simp only [AS.le, Bool.and_eq_true, Bool.or_eq_true, Bool.not_eq_true'] at h
  obtain ⟨h1, h2⟩ := h
  refine ⟨?_, ?_⟩
  · intro hs
    have h3 : sh = true := g1 hs
    rcases h2 with h2 | h2
    · rw [h3] at h2; cases h2
    · exact h2
  · cases st <;> cases st' <;> simp_all [St.le, Valid]

theorem le_join_left (a b : AS) : a.le (a.join b) = true := by
  obtain ⟨st, sh⟩ := a
  obtain ⟨st', sh'⟩ := b
  cases st <;> cases st' <;> cases sh <;> cases sh' <;> rfl

theorem le_join_right (a b : AS) : b.le (a.join b) = true := by
  obtain ⟨st, sh⟩ := a
  obtain ⟨st', sh'⟩ := b
  cases st <;> cases st' <;> cases sh <;> cases sh' <;> rfl

/-- every concrete step is covered by the abstract one -/
theorem step_sound {σ : AS} {s s' : CS} {o : Op} (g : Gam σ s) (h : Step s o s') : Gam (astep σ o) s' := by
  obtain ⟨st, sh⟩ := σ
  obtain ⟨g1, g2⟩ := g
  cases h with
  | hook fill =>
    refine ⟨?_, ?_⟩
    · intro hs; cases st <;> exact g1 hs
    · cases st with
      | empty =>
        simp only at g2
        simp only [astep, g2, Valid]
        cases fill <;> simp
      | clean =>
        simp only [Valid] at g2
        simp only [astep, Valid]
        rcases g2 with g2 | g2 <;> simp only [g2]
        · cases fill <;> simp
        · simp
      | stale => trivial
  | write =>
    refine ⟨?_, ?_⟩
    · intro hs; cases st <;> exact g1 hs
    · cases st with
      | empty => exact g2
      | clean => trivial
      | stale => trivial
  | changed =>
    cases hsh : s.shadowed with
    | true =>
      have hσ : sh = true := g1 hsh
      subst hσ
      simp only [astep, if_true]
      exact ⟨fun _ => rfl, g2⟩
    | false =>
      simp only [Bool.false_eq_true, if_false]
      cases sh with
      | true =>
        refine ⟨fun _ => rfl, ?_⟩
        cases st <;> simp [astep, Valid]
      | false =>
        refine ⟨fun h => by simp at h, ?_⟩
        simp [astep]
  | shadow =>
    exact ⟨fun _ => rfl, by cases st <;> exact g2⟩
  | unshadow =>
    exact ⟨fun h => by simp at h, by cases st <;> exact g2⟩

/-- the abstract interpretation covers every execution -/
theorem post_sound : ∀ (p : Prog) (σ : AS) (s s' : CS), stableAll p σ = true → Gam σ s → Exec p s s' → Gam (post p σ) s' := by
  intro p
  induction p with
  | done =>
    intro σ s s' _ g he
    simp only [Exec] at he
    subst he
    exact g
  | seq o rest ih =>
    intro σ s s' hst g he
    simp only [Exec] at he
    obtain ⟨m, hs, hr⟩ := he
    exact ih (astep σ o) m s' (by simpa [stableAll] using hst) (step_sound g hs) hr
  | branch p q ihp ihq =>
    intro σ s s' hst g he
    simp only [stableAll, Bool.and_eq_true] at hst
    simp only [Exec] at he
    rcases he with he | he
    · exact gam_mono (le_join_left _ _) (ihp σ s s' hst.1 g he)
    · exact gam_mono (le_join_right _ _) (ihq σ s s' hst.2 g he)
  | loop body rest ihb ihr =>
    intro σ s s' hst g he
    simp only [stableAll, Bool.and_eq_true] at hst
    obtain ⟨⟨⟨h1, h2⟩, h3⟩, h4⟩ := hst
    simp only [Exec] at he
    obtain ⟨n, m, hit, hr⟩ := he
    have hI : ∀ (n : Nat) (a b : CS), Gam (inv body σ) a → Iter (fun x y => Exec body x y) n a b → Gam (inv body σ) b := by
      intro n
      induction n with
      | zero => intro a b ga hab; simp only [Iter] at hab; subst hab; exact ga
      | succ k ihk =>
        intro a b ga hab
        simp only [Iter] at hab
        obtain ⟨c, hac, hcb⟩ := hab
        exact ihk c b (gam_mono h2 (ihb (inv body σ) a c h3 ga hac)) hcb
    exact ihr (inv body σ) m s' h4 (hI n s m (gam_mono h1 g) hit) hr
  | andThen p rest ihp ihr =>
    intro σ s s' hst g he
    simp only [stableAll, Bool.and_eq_true] at hst
    simp only [Exec] at he
    obtain ⟨m, hp, hr⟩ := he
    exact ihr (post p σ) m s' hst.2 (ihp σ s m hst.1 g hp) hr

/-- **C11, mutator side**: a mutator accepted by the check, entered with valid caches and `changed` not shadowed, returns with
valid caches — no answer computed by a lookup that ran at one of its hooks (another thread, re-entrant code) is still cached
although the data changed afterwards -/
theorem wipes_sound (p : Prog) (h : wipes p = true) (s s' : CS) (hv : Valid s) (hs : s.shadowed = false) (he : Exec p s s') :
    Valid s' := by
  simp only [wipes, Bool.and_eq_true, bne_iff_ne, ne_eq] at h
  have g : Gam start s := ⟨fun h' => by simp [hs] at h', hv⟩
  have g' := post_sound p start s s' h.1 g he
  obtain ⟨_, g2⟩ := g'
  cases hst : (post p start).st with
  | empty => simp only [hst] at g2; exact Or.inl g2
  | clean => simp only [hst] at g2; exact g2
  | stale => exact absurd hst h.2

/-! ### the shapes at stake -/
/-- a mutator in the shape of `register`: walk / create the storage, write, `changed()` last -/
def mutatorShape : Prog :=
  .seq .hook <| .loop (.seq .hook .done) <| .branch .done <| .seq .write <| .seq .hook <| .seq .changed .done
/-- `rebuild()`: fresh structures + `changed()`, then every registration is put back by a mutator of that shape -/
def rebuildShape : Prog :=
  .seq .write <| .seq .changed <| .seq .hook <| .loop (.seq .hook <| .andThen mutatorShape .done) .done
/-- the same with `changed` shadowed while the registrations are put back (sequentially indistinguishable: the new lookup
object starts with empty caches; a lookup at a hook in between leaves a stale entry) -/
def rebuildShadowed : Prog :=
  .seq .write <| .seq .changed <| .seq .hook <| .seq .shadow <|
    .loop (.seq .hook <| .andThen mutatorShape .done) <| .seq .unshadow .done
/-- and without any hook: nothing can have been cached in between, the single `changed()` suffices -/
def rebuildShadowedNoHook : Prog :=
  .seq .write <| .seq .changed <| .seq .shadow <| .loop (.seq .write .done) <| .seq .unshadow .done
example : wipes mutatorShape = true ∧ wipes rebuildShape = true ∧ wipes rebuildShadowed = false ∧
    wipes rebuildShadowedNoHook = true := by decide
end ZI.Mutator
