/-! C14 model: InterfaceBase.__call__/__adapt__ (Python) and IB__call__/IB__adapt__ (C); core Lean only. -/
namespace ZI.Adapt
abbrev V := Nat           -- result values
abbrev E := Nat           -- exception identities

inductive Conform | absent | attrRaises (e : E) | returnsNone | returns (v : V) | raises (e : E)
inductive Hook | none | value (v : V) | raises (e : E)
inductive Ev | conform | providedCheck | hook (k : Nat) | custom
deriving DecidableEq, Repr
inductive Out | self | val (v : V) | exc (e : E) | couldNotAdapt
deriving DecidableEq, Repr

/-- the default `__adapt__` body after the provided-check: hooks in list order (Python `for hook in adapter_hooks`) -/
def runHooks : List Hook → Nat → List Ev → Option Out × List Ev
  | [], _, log => (none, log)
  | h :: hs, k, log =>
    match h with
    | .none => runHooks hs (k+1) (log ++ [.hook k])
    | .value v => (some (.val v), log ++ [.hook k])
    | .raises e => (some (.exc e), log ++ [.hook k])

/-- `InterfaceBase.__adapt__` -/
def adaptPy (provided : Bool) (hooks : List Hook) (log : List Ev) : Option Out × List Ev :=
  if provided then (some .self, log ++ [.providedCheck]) else runHooks hooks 0 (log ++ [.providedCheck])

/-- `interfacemethod __adapt__` replacing the default -/
def adaptCustom (c : Hook) (log : List Ev) : Option Out × List Ev :=
  match c with
  | .none => (none, log ++ [.custom])
  | .value v => (some (.val v), log ++ [.custom])
  | .raises e => (some (.exc e), log ++ [.custom])

/-- `InterfaceBase.__call__` (Python): always dispatches through `self.__adapt__` -/
def callPy (conf : Conform) (provided : Bool) (hooks : List Hook) (alt : Option V) (custom : Option Hook) : Out × List Ev :=
  let afterConform (log : List Ev) : Out × List Ev :=
    let (r, log) := match custom with
      | some c => adaptCustom c log
      | none => adaptPy provided hooks log
    match r with
    | some o => (o, log)
    | none => match alt with
      | some a => (.val a, log)
      | none => (.couldNotAdapt, log)
  match conf with
  | .absent => afterConform []
  | .attrRaises e => (.exc e, [])
  | .returnsNone => afterConform [.conform]
  | .returns v => (.val v, [.conform])
  | .raises e => (.exc e, [.conform])

/-- `IB__call__` (C): calls `IB__adapt__` directly unless the `_CALL_CUSTOM_ADAPT` flag is in the type dict -/
def callC (conf : Conform) (provided : Bool) (hooks : List Hook) (alt : Option V) (custom : Option Hook) : Out × List Ev :=
  let afterConform (log : List Ev) : Out × List Ev :=
    let (r, log) := if custom.isSome then
        (match custom with | some c => adaptCustom c log | none => (none, log))
      else adaptPy provided hooks log      -- IB__adapt__ has the same body as the Python one
    match r with
    | some o => (o, log)
    | none => match alt with
      | some a => (.val a, log)
      | none => (.couldNotAdapt, log)
  match conf with
  | .absent => afterConform []
  | .attrRaises e => (.exc e, [])
  | .returnsNone => afterConform [.conform]
  | .returns v => (.val v, [.conform])
  | .raises e => (.exc e, [.conform])

/-- **C14_twin** (custom `__adapt__` defined through `interfacemethod`, which is what sets the flag) -/
theorem callC_eq_callPy (conf : Conform) (provided : Bool) (hooks : List Hook) (alt : Option V) (custom : Option Hook) :
    callC conf provided hooks alt custom = callPy conf provided hooks alt custom := by
  cases custom <;> cases conf <;> simp [callC, callPy]

/-! ### the declarative PEP 246 order -/
/-- result of the first hook (in list order) that does not return None -/
def outcome : List Hook → Option Out
  | [] => none
  | .none :: hs => outcome hs
  | .value v :: _ => some (.val v)
  | .raises e :: _ => some (.exc e)
/-- how many hooks get invoked: up to and including that first one -/
def called : List Hook → Nat
  | [] => 0
  | .none :: hs => called hs + 1
  | _ :: _ => 1

theorem runHooks_spec (hooks : List Hook) (k : Nat) (log : List Ev) :
    runHooks hooks k log = (outcome hooks, log ++ (List.range (called hooks)).map (fun i => Ev.hook (k + i))) := by
  induction hooks generalizing k log with
  | nil => simp [runHooks, outcome, called]
  | cons h hs ih =>
    cases h with
    | none =>
      simp only [runHooks, outcome, called]
      rw [ih, List.range_succ_eq_map]
      simp [List.append_assoc, Function.comp_def, Nat.add_assoc, Nat.add_comm 1]
    | value v => simp [runHooks, outcome, called]
    | raises e => simp [runHooks, outcome, called]

/-- **C14_order**: the precedence stated in the property, with the log of what was called -/
def spec (conf : Conform) (provided : Bool) (hooks : List Hook) (alt : Option V) : Out × List Ev :=
  let rest (log : List Ev) : Out × List Ev :=
    if provided then (.self, log ++ [.providedCheck]) else
    let log := log ++ [.providedCheck] ++ (List.range (called hooks)).map Ev.hook
    match outcome hooks with
    | some o => (o, log)
    | none => match alt with | some a => (.val a, log) | none => (.couldNotAdapt, log)
  match conf with
  | .attrRaises e => (.exc e, [])
  | .raises e => (.exc e, [.conform])
  | .returns v => (.val v, [.conform])
  | .returnsNone => rest [.conform]
  | .absent => rest []

theorem callPy_spec (conf : Conform) (provided : Bool) (hooks : List Hook) (alt : Option V) :
    callPy conf provided hooks alt none = spec conf provided hooks alt := by
  cases conf <;> simp only [callPy, spec, adaptPy] <;> (try rfl) <;>
  · by_cases hp : provided = true
    · simp [hp]
    · simp only [hp, Bool.false_eq_true, if_false]
      rw [runHooks_spec]
      cases outcome hooks <;> cases alt <;> simp

/-- with a custom `__adapt__` the provided-check and the hooks are not consulted at all -/
theorem callPy_custom (conf : Conform) (provided : Bool) (hooks hooks' : List Hook) (alt : Option V) (c : Hook) (p' : Bool) :
    callPy conf provided hooks alt (some c) = callPy conf p' hooks' alt (some c) := by
  cases conf <;> simp [callPy]

end ZI.Adapt
