import Mathlib.Data.String.Basic
import ZI.OrderDefs
/-! C12 lemmas: order laws of the key comparison and the C/Python twin equality. -/
namespace ZI.Order
theorem tupleLt_irrefl (a : Key) : ¬ tupleLt a a := by
  unfold tupleLt; rintro (h | ⟨_, h⟩) <;> exact lt_irrefl _ h

theorem tupleLt_trichotomy (a b : Key) : tupleLt a b ∨ a = b ∨ tupleLt b a := by
  unfold tupleLt
  rcases lt_trichotomy a.1 b.1 with h | h | h
  · exact Or.inl (Or.inl h)
  · rcases lt_trichotomy a.2 b.2 with h2 | h2 | h2
    · exact Or.inl (Or.inr ⟨h, h2⟩)
    · exact Or.inr (Or.inl (Prod.ext h h2))
    · exact Or.inr (Or.inr (Or.inr ⟨h.symm, h2⟩))
  · exact Or.inr (Or.inr (Or.inl h))

theorem tupleLt_trans {a b c : Key} (h1 : tupleLt a b) (h2 : tupleLt b c) : tupleLt a c := by
  unfold tupleLt at *
  rcases h1 with h1 | ⟨e1, h1⟩ <;> rcases h2 with h2 | ⟨e2, h2⟩
  · exact Or.inl (lt_trans h1 h2)
  · exact Or.inl (e2 ▸ h1)
  · exact Or.inl (e1 ▸ h2)
  · exact Or.inr ⟨e1.trans e2, lt_trans h1 h2⟩

theorem tupleLt_asymm {a b : Key} (h : tupleLt a b) : ¬ tupleLt b a :=
  fun h' => tupleLt_irrefl a (tupleLt_trans h h')

/-- **C12_eq_iff / C12_strict_total** (Python twin): equality is key equality; exactly one of <, ==, > holds -/
theorem py_eq_iff (a b : Key) : pyOp .eq a b = true ↔ a = b := by
  simp only [pyOp, compare3]
  rcases tupleLt_trichotomy a b with h | h | h
  · have := tupleLt_asymm h; simp [h, this]; intro e; subst e; exact tupleLt_irrefl _ h
  · subst h; simp [tupleLt_irrefl]
  · have := tupleLt_asymm h; simp [h, this]; intro e; subst e; exact tupleLt_irrefl _ h

theorem py_lt_iff (a b : Key) : pyOp .lt a b = true ↔ tupleLt a b := by
  simp only [pyOp, compare3]
  by_cases h1 : tupleLt b a
  · have := tupleLt_asymm h1; simp [h1, this]
  · by_cases h2 : tupleLt a b <;> simp [h1, h2]

theorem py_trichotomy (a b : Key) :
    (pyOp .lt a b = true ∧ pyOp .eq a b = false ∧ pyOp .lt b a = false) ∨
    (pyOp .lt a b = false ∧ pyOp .eq a b = true ∧ pyOp .lt b a = false) ∨
    (pyOp .lt a b = false ∧ pyOp .eq a b = false ∧ pyOp .lt b a = true) := by
  rcases tupleLt_trichotomy a b with h | h | h
  · left
    refine ⟨(py_lt_iff a b).mpr h, ?_, ?_⟩
    · cases he : pyOp .eq a b with
      | false => rfl
      | true => have := (py_eq_iff a b).mp he; subst this; exact absurd h (tupleLt_irrefl _)
    · cases hl : pyOp .lt b a with
      | false => rfl
      | true => exact absurd ((py_lt_iff b a).mp hl) (tupleLt_asymm h)
  · subst h
    right; left
    refine ⟨?_, (py_eq_iff a a).mpr rfl, ?_⟩ <;>
    · cases hl : pyOp .lt a a with
      | false => rfl
      | true => exact absurd ((py_lt_iff a a).mp hl) (tupleLt_irrefl _)
  · right; right
    refine ⟨?_, ?_, (py_lt_iff b a).mpr h⟩
    · cases hl : pyOp .lt a b with
      | false => rfl
      | true => exact absurd ((py_lt_iff a b).mp hl) (tupleLt_asymm h)
    · cases he : pyOp .eq a b with
      | false => rfl
      | true => have := (py_eq_iff a b).mp he; subst this; exact absurd h (tupleLt_irrefl _)

/-- **C12_twin**: the C shortcut equals the Python tuple comparison for all six operators -/
theorem c_eq_py (op : Cmp) (a b : Key) : cOp op a b = pyOp op a b := by
  obtain ⟨n1, m1⟩ := a; obtain ⟨n2, m2⟩ := b
  simp only [cOp, pyOp, compare3, tupleLt, strOp]
  by_cases hn : n1 = n2
  · subst hn
    rcases lt_trichotomy m1 m2 with h | h | h
    · have h' := lt_asymm h
      cases op <;> simp [h, h', le_of_lt h, not_le_of_gt h, ne_of_lt h]
    · subst h; cases op <;> simp
    · have h' := lt_asymm h
      cases op <;> simp [h, h', le_of_lt h, not_le_of_gt h, (ne_of_lt h).symm, ne_of_gt h]
  · rcases lt_trichotomy n1 n2 with h | h | h
    · have h' := lt_asymm h
      cases op <;> simp [hn, h, h', le_of_lt h, not_le_of_gt h, Ne.symm hn]
    · exact absurd h hn
    · have h' := lt_asymm h
      cases op <;> simp [hn, h, h', le_of_lt h, not_le_of_gt h, Ne.symm hn]

/-- `(n1 > n2) - (n1 < n2)`, the source's spelling of the three-way comparison, is `compare3` -/
theorem compare3_sub (a b : Key) :
    ((if tupleLt b a then 1 else 0) - (if tupleLt a b then 1 else 0) : Int) = compare3 a b := by
  unfold compare3
  by_cases h1 : tupleLt b a
  · have := tupleLt_asymm h1; simp [h1, this]
  · by_cases h2 : tupleLt a b <;> simp [h1, h2]

#print axioms c_eq_py
#print axioms py_trichotomy
end ZI.Order
