/-! C11 (fourth part): `AdapterLookupBase.changed()` interrupted by lookups — "no answer computed before the mutation survives
in the cache afterwards", for the mutations that reach a lookup object through its SUBSCRIPTIONS (a required specification
whose `__bases__` change, a class or instance declaration).

A lookup object keeps, per required specification `r` it has ever been asked about:
  * `marks`  — `r`'s weak reference is a key of `self._required` ("I am subscribed to `r` already");
  * `sub`    — the lookup object is a dependent of `r` (a change of `r` calls `changed()` on it);
  * `cached` — some cache holds an answer computed for `r`.
`_subscribe(r)` subscribes only when the mark is missing.  What makes the caches sound is
`Inv`: `cached → sub` (an answer in the cache is dropped when `r` changes) and `marks → sub` (the mark tells the truth).

`changed()` is a straight-line sequence of four kinds of step, which `tools/cextract.py` reads from the current `adapter.py`
on every run (generated obligation `changed_resubscribes`):
  * `snapshot`   — `required = tuple(self._required.keys())`
  * `clearMarks` — `self._required.clear()`
  * `unsubSnap`  — `for r in required: r().unsubscribe(self)`
  * `drop`       — the caches are dropped.  Dropping a cache runs the destructors of the values only the cache kept alive —
                   arbitrary Python code — AFTER the entries have been taken out (`dict.clear()` detaches the table first):
                   a point at which a complete lookup for `r` can run (and, under the GIL, another thread's).
A lookup that misses computes the answer, stores it, and runs `_subscribe(r)`.

Theorem `check_sound`: a step sequence accepted by the (exhaustive, finite) check re-establishes `Inv` from every state that
satisfies it, whatever the lookups at its drop points do.  `old_order_rejected`: the order the code had before repair 90f8c8c
(drop, then unsubscribe, then clear) is rejected, with the reachable bad state as the witness; `new_order_accepted`.

Modelled, not verified: `unsubscribe` and `_required.clear()` run no user code (they are dictionary operations on weak
references and on the specification's dependents map keyed by the lookup object). -/
namespace ZI.Resub

inductive Op
  | snapshot | clearMarks | unsubSnap | drop
deriving Repr, DecidableEq

structure S where
  marks : Bool
  sub : Bool
  cached : Bool
  snap : Bool
deriving Repr, DecidableEq

def InvB (s : S) : Bool := (!s.cached || s.sub) && (!s.marks || s.sub)
def Inv (s : S) : Prop := (s.cached = true → s.sub = true) ∧ (s.marks = true → s.sub = true)

instance (s : S) : Decidable (Inv s) := by unfold Inv; infer_instance

theorem invB_iff (s : S) : InvB s = true ↔ Inv s := by
  cases s with
  | mk m u c n => cases m <;> cases u <;> cases c <;> simp [InvB, Inv]

/-- a complete lookup for the specification: a hit changes nothing; a miss stores the answer and runs `_subscribe` -/
def lookupAt (s : S) : S :=
  if s.cached then s
  else { s with cached := true, sub := (if s.marks then s.sub else true), marks := true }

/-- one step; `fill`: whether the environment performs a lookup at the step's re-entry point (only `drop` has one) -/
def step (o : Op) (fill : Bool) (s : S) : S :=
  match o with
  | .snapshot => { s with snap := s.marks }
  | .clearMarks => { s with marks := false }
  | .unsubSnap => if s.snap then { s with sub := false } else s
  | .drop => let s' := { s with cached := false }; if fill then lookupAt s' else s'

/-- a run: the environment's choices are the list `fills` (one per step; missing ones default to "no lookup") -/
def run : List Op → List Bool → S → S
  | [], _, s => s
  | o :: p, [], s => run p [] (step o false s)
  | o :: p, f :: fs, s => run p fs (step o f s)

/-- all states reachable from `ss` under every choice of the environment -/
def reach : List Op → List S → List S
  | [], ss => ss
  | o :: p, ss => reach p (ss.flatMap fun s => [step o false s, step o true s])

def allStates : List S :=
  [false, true].flatMap fun m => [false, true].flatMap fun u => [false, true].flatMap fun c => [false, true].map fun n => ⟨m, u, c, n⟩

theorem mem_allStates (s : S) : s ∈ allStates := by
  cases s with
  | mk m u c n => cases m <;> cases u <;> cases c <;> cases n <;> decide

/-- the static check: from every state satisfying the invariant, every reachable end state satisfies it -/
def check (p : List Op) : Bool :=
  (allStates.filter InvB).all fun s => (reach p [s]).all InvB

theorem run_mem_reach (p : List Op) : ∀ (fs : List Bool) (s : S) (ss : List S), s ∈ ss → run p fs s ∈ reach p ss := by
  induction p with
  | nil => intro fs s ss h; cases fs <;> simpa [run, reach] using h
  | cons o p ih =>
    intro fs s ss h
    cases fs with
    | nil =>
      simp only [run, reach]
      apply ih
      simp only [List.mem_flatMap]
      exact ⟨s, h, by simp⟩
    | cons f fs =>
      simp only [run, reach]
      apply ih
      simp only [List.mem_flatMap]
      refine ⟨s, h, ?_⟩
      cases f <;> simp

/-- soundness of the check: an accepted `changed()` re-establishes the invariant whatever lookups run at its drop points -/
theorem check_sound (p : List Op) (hc : check p = true) (s : S) (hs : Inv s) (fs : List Bool) : Inv (run p fs s) := by
  rw [← invB_iff] at hs ⊢
  unfold check at hc
  rw [List.all_eq_true] at hc
  have h1 := hc s (by simp [List.mem_filter, mem_allStates, hs])
  rw [List.all_eq_true] at h1
  exact h1 _ (run_mem_reach p fs s [s] (by simp))

/-- ... and afterwards a change of the specification drops whatever is cached for it: the statement the property makes -/
theorem cached_is_subscribed (p : List Op) (hc : check p = true) (s : S) (hs : Inv s) (fs : List Bool)
    (h : (run p fs s).cached = true) : (run p fs s).sub = true :=
  (check_sound p hc s hs fs).1 h

/-- the order before repair 90f8c8c: drop the caches, then unsubscribe, then forget the marks -/
def oldOrder : List Op := [.drop, .snapshot, .unsubSnap, .clearMarks]
/-- the repaired order: remember and forget the marks, unsubscribe, drop the caches last -/
def newOrder : List Op := [.snapshot, .clearMarks, .unsubSnap, .drop]

theorem new_order_accepted : check newOrder = true := by decide
theorem old_order_rejected : check oldOrder = false := by decide

/-- the witness: subscribed and cached; a lookup at the drop point is cached under the still-present mark, then unsubscribed -/
theorem old_order_witness :
    Inv ⟨true, true, true, false⟩ ∧
    run oldOrder [true] ⟨true, true, true, false⟩ = ⟨false, false, true, true⟩ ∧ ¬ Inv (run oldOrder [true] ⟨true, true, true, false⟩) := by
  decide

/-- non-vacuity of the accepted order: the same environment, from the same state, ends cached AND subscribed -/
example : run newOrder [false, false, false, true] ⟨true, true, true, false⟩ = ⟨true, true, true, true⟩ := by decide

/-- a `changed()` that never drops the caches is rejected as well (the check is not satisfied by doing nothing useful):
    unsubscribing without dropping leaves a cached answer without its subscription -/
example : check [.snapshot, .clearMarks, .unsubSnap] = false := by decide

end ZI.Resub
