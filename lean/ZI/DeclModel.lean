import ZI.RO
/-! C20 model (core Lean only): `_normalizeargs`, `Specification.interfaces` (= `Declaration.__iter__`), `__contains__`,
`__sub__`, `__add__` as ordered sets. -/
namespace ZI.Decl
abbrev Id := Nat

/-- `interfaces()` of a declaration built from (already flattened) arguments: ordered dedupe, first occurrence wins -/
def dedupe : List Id → List Id → List Id        -- seen, rest
  | _, [] => []
  | seen, x :: xs => if seen.contains x then dedupe seen xs else x :: dedupe (x :: seen) xs

/-- `A - B`: keep `i` unless it is-or-extends some `j` of `B` (`i.extends(j, 0)`) -/
def sub (ext : Id → Id → Bool) (A B : List Id) : List Id :=
  A.filter fun i => !(B.any fun j => ext i j)

/-- the loop of `__add__`: (`before`, `result`) -/
def addLoop (ext : Id → Id → Bool) : List Id → List Id × List Id → List Id × List Id
  | [], st => st
  | i :: rest, (before, result) =>
    if result.contains i || before.contains i then addLoop ext rest (before, result)        -- `if i in seen: continue`
    else if result.any (fun x => x != i && ext i x) then addLoop ext rest (before ++ [i], result)
    else addLoop ext rest (before, result ++ [i])

def add (ext : Id → Id → Bool) (A B : List Id) : List Id :=
  let r := addLoop ext B ([], A)
  r.1 ++ r.2

theorem mem_sub {ext : Id → Id → Bool} {A B : List Id} {i : Id} :
    i ∈ sub ext A B ↔ i ∈ A ∧ ∀ j ∈ B, ext i j = false := by
  simp [sub, List.mem_filter]

theorem sub_sublist (ext : Id → Id → Bool) (A B : List Id) : (sub ext A B).Sublist A := List.filter_sublist

theorem sub_nodup {ext : Id → Id → Bool} {A : List Id} (B : List Id) (h : A.Nodup) : (sub ext A B).Nodup := h.filter _

/-- invariant of the `__add__` loop -/
theorem addLoop_spec (ext : Id → Id → Bool) : ∀ (B : List Id) (before result : List Id),
    (before ++ result).Nodup →
    let r := addLoop ext B (before, result)
    (r.1 ++ r.2).Nodup ∧ (∀ i, i ∈ r.1 ++ r.2 ↔ i ∈ before ++ result ∨ i ∈ B) ∧
    (∃ b' r', r.1 = before ++ b' ∧ r.2 = result ++ r') := by
  intro B
  induction B with
  | nil => intro before result h; exact ⟨by simpa [addLoop] using h, by simp [addLoop], [], [], by simp [addLoop], by simp [addLoop]⟩
  | cons i rest ih =>
    intro before result h
    simp only [addLoop]
    split
    · rename_i hseen
      obtain ⟨h1, h2, h3⟩ := ih before result h
      refine ⟨h1, fun x => ?_, h3⟩
      rw [h2]
      simp only [List.mem_cons, List.mem_append]
      constructor
      · rintro (h | h)
        · exact Or.inl h
        · exact Or.inr (Or.inr h)
      · rintro (h | rfl | h)
        · exact Or.inl h
        · left; simp at hseen; rcases hseen with h | h
          · exact Or.inr h
          · exact Or.inl h
        · exact Or.inr h
    · rename_i hns
      have hi : i ∉ before ++ result := by
        simp at hns; simp; exact ⟨hns.2, hns.1⟩
      split
      · -- goes to `before`
        have hnd : (before ++ [i] ++ result).Nodup := by
          have : (before ++ [i] ++ result).Perm (i :: (before ++ result)) := by
            simp [List.perm_middle]
          exact this.nodup_iff.mpr (List.nodup_cons.mpr ⟨hi, h⟩)
        obtain ⟨h1, h2, b', r', e1, e2⟩ := ih (before ++ [i]) result hnd
        refine ⟨h1, fun x => ?_, [i] ++ b', r', by simp [e1], e2⟩
        rw [h2]; simp only [List.mem_append, List.mem_cons, List.mem_singleton, List.not_mem_nil, or_false]
        constructor
        · rintro ((((h | h) | h)) | h)
          · exact Or.inl (Or.inl h)
          · exact Or.inr (Or.inl h)
          · exact Or.inl (Or.inr h)
          · exact Or.inr (Or.inr h)
        · rintro ((h | h) | (h | h))
          · exact Or.inl (Or.inl (Or.inl h))
          · exact Or.inl (Or.inr h)
          · exact Or.inl (Or.inl (Or.inr h))
          · exact Or.inr h
      · -- appended to `result`
        have hnd : (before ++ (result ++ [i])).Nodup := by
          have : (before ++ (result ++ [i])).Perm (i :: (before ++ result)) := by
            rw [← List.append_assoc]; exact List.perm_append_singleton _ _
          exact this.nodup_iff.mpr (List.nodup_cons.mpr ⟨hi, h⟩)
        obtain ⟨h1, h2, b', r', e1, e2⟩ := ih before (result ++ [i]) hnd
        refine ⟨h1, fun x => ?_, b', [i] ++ r', e1, by simp [e2]⟩
        rw [h2]; simp only [List.mem_append, List.mem_cons, List.mem_singleton, List.not_mem_nil, or_false]
        constructor
        · rintro ((h | (h | h)) | h)
          · exact Or.inl (Or.inl h)
          · exact Or.inl (Or.inr h)
          · exact Or.inr (Or.inl h)
          · exact Or.inr (Or.inr h)
        · rintro ((h | h) | (h | h))
          · exact Or.inl (Or.inl h)
          · exact Or.inl (Or.inr (Or.inl h))
          · exact Or.inl (Or.inr (Or.inr h))
          · exact Or.inr h

/-- **C20_add**: no duplicates, exactly the union, and of the shape `before ++ (A ++ after)` -/
theorem add_spec (ext : Id → Id → Bool) (A B : List Id) (hA : A.Nodup) :
    (add ext A B).Nodup ∧ (∀ i, i ∈ add ext A B ↔ i ∈ A ∨ i ∈ B) ∧
    (∃ before after, add ext A B = before ++ (A ++ after)) := by
  obtain ⟨h1, h2, b', r', e1, e2⟩ := addLoop_spec ext B [] A (by simpa using hA)
  refine ⟨h1, fun i => by simpa [add] using h2 i, b', r', ?_⟩
  simp only [add]; rw [e1, e2]; simp

theorem add_keeps_order (ext : Id → Id → Bool) (A B : List Id) (hA : A.Nodup) : A.Sublist (add ext A B) := by
  obtain ⟨_, _, before, after, e⟩ := add_spec ext A B hA
  rw [e]
  exact (List.sublist_append_left A after).trans (List.sublist_append_right before _)

example : add (fun i j => i == j || (i == 3 && j == 1)) [1, 2] [3, 4, 2] = [3, 1, 2, 4] := by decide

/-! ### building declarations from nested arguments -/
/-- what ends up in `__bases__`: an interface or a class specification (`implementedBy(cls)`) -/
inductive Atom | iface (i : Id) | impl (c : Id)
deriving DecidableEq, Repr

/-- a constructor argument: an interface, a class specification, a nested tuple/list, or a plain `Declaration` -/
inductive Arg
  | iface (i : Id)
  | impl (c : Id)
  | seq (l : List Arg)
  | decl (l : List Arg)
deriving Repr

/-- the interfaces of a class specification (declared then inherited, first occurrence wins), given by the world -/
abbrev Expand := Id → List Id

def expandAtom (ex : Expand) : Atom → List Id
  | .iface i => [i]
  | .impl c => ex c

/-- `Specification.interfaces()` of a declaration with these bases -/
def interfaces (ex : Expand) (atoms : List Atom) : List Id := dedupe [] (atoms.flatMap (expandAtom ex))

mutual
/-- `_normalizeargs`: interfaces and class specifications are kept, everything else is iterated (a plain `Declaration`
iterates as its `interfaces()`) -/
def normalize (ex : Expand) : Arg → List Atom
  | .iface i => [.iface i]
  | .impl c => [.impl c]
  | .seq l => normalizeList ex l
  | .decl l => (interfaces ex (normalizeList ex l)).map Atom.iface
def normalizeList (ex : Expand) : List Arg → List Atom
  | [] => []
  | a :: rest => normalize ex a ++ normalizeList ex rest
end

/-- `Declaration(*args)` then `list(...)` -/
def iterDecl (ex : Expand) (args : List Arg) : List Id := interfaces ex (normalizeList ex args)

mutual
/-- the in-place flattening the statement speaks of: every interface named anywhere in the arguments, left to right,
class specifications replaced by their (declared then inherited) interfaces -/
def flat (ex : Expand) : Arg → List Id
  | .iface i => [i]
  | .impl c => ex c
  | .seq l => flatList ex l
  | .decl l => flatList ex l
def flatList (ex : Expand) : List Arg → List Id
  | [] => []
  | a :: rest => flat ex a ++ flatList ex rest
end

/-- `Declaration.flattened()` = `__iro__`: the resolution order of the declaration (`Specification._calculate_sro`, the C03 model
`ZI.RO.sroFresh`: C3 over the bases' orders, the legacy order when that merge is stuck, the root last) restricted to interfaces.
`bases` is the specification graph the declaration sits in (interfaces, class specifications, the declaration itself). -/
def flattened (bases : ZI.RO.Bases) (root : Id) (isIface : Id → Bool) (fuel : Nat) (node : Id) : List Id :=
  (ZI.RO.sroFresh bases root fuel node).filter isIface

/-- `Declaration.__contains__`: `self.extends(interface) and interface in self.interfaces()` -/
def contains (implied : Id → Bool) (ifaces : List Id) (i : Id) : Bool := implied i && ifaces.contains i
end ZI.Decl
