import ZI.Graph2
import ZI.AttrsModel
/-! C15 world model (core Lean only): interfaces with direct attribute descriptions, tagged values and invariants over
the re-basable specification graph of `ZI.Graph2`, including the per-interface memo `_v_attrs` that `get` fills and
`changed` drops. -/
namespace ZI.AttrsW
open ZI.Upd ZI.Attrs ZI.Graph2

structure W where
  g : G
  isIface : Id → Bool := fun _ => true
  direct : Id → Attrs := fun _ => []                 -- `__attrs`: name ↦ description
  tags : Id → AList String Nat := fun _ => []        -- direct tagged values
  invs : Id → List (Nat × Bool) := fun _ => []       -- direct invariants: (identity, fails on the probe object)
  memo : Id → Attrs := fun _ => []                   -- `_v_attrs`

def W.iro (w : W) (i : Id) : List Id := (w.g.sro i).filter w.isIface

/-- `Specification.changed` ran at `x` during the re-basing of `s` iff `x` is `s` or (now) extends it -/
def visited (g' : G) (s x : Id) : Bool := x == s || (g'.sro x).contains s

/-- `InterfaceClass(name, bases, attrs)`: the new interface's `changed()` runs (a brand-new interface has no dependents, so
in every reachable state it is the only specification visited) -/
def newIface (w : W) (s : Id) (bs : List Id) (attrs : Attrs) (tags : AList String Nat) (invs : List (Nat × Bool)) : W :=
  let g' := newNode w.g s bs
  { w with g := g', direct := upd w.direct s attrs, tags := upd w.tags s tags, invs := upd w.invs s invs,
           memo := fun x => if visited g' s x then [] else w.memo x }

/-- `I.__bases__ = bs`: every specification `changed()` visits drops its memo -/
def setBases (w : W) (s : Id) (bs : List Id) : W :=
  let g' := Graph2.setBases w.g s bs
  { w with g := g', memo := fun x => if visited g' s x then [] else w.memo x }

/-- `Specification.get(name)` with the `_v_attrs` memo -/
def get (w : W) (i : Id) (n : String) : W × Option Desc :=
  match get? (w.memo i) n with
  | some d => (w, some d)
  | none =>
    match getAttr (w.iro i) w.direct n with
    | some d => ({ w with memo := upd w.memo i (set (w.memo i) n d) }, some d)
    | none => (w, none)

/-- `names(all=True)`: own names, then (recursively) those of the bases -/
def namesAll (w : W) : Nat → Id → List String
  | 0, _ => []
  | f+1, i => (w.direct i).map (·.1) ++ (w.g.bases i).flatMap (namesAll w f)

/-- `queryTaggedValue(tag)`: nearest interface in `__iro__` that has the tag directly -/
def queryTag (w : W) (i : Id) (t : String) : Option Nat := (w.iro i).findSome? fun j => get? (w.tags j) t
/-- `getTaggedValueTags()` (a set; as a list with repetitions) -/
def tagNames (w : W) (i : Id) : List String := (w.iro i).flatMap fun j => (w.tags j).map (·.1)

/-- `I.setTaggedValue(tag, value)` on an existing interface: its direct table only — tagged values are not memoised and nobody is notified,
so every descendant must see the new tag through its `__iro__` at once -/
def setTag (w : W) (i : Id) (t : String) (v : Nat) : W := { w with tags := upd w.tags i (set (w.tags i) t v) }

/-- every invariant of every interface in `__iro__`, in order -/
def allInvs (w : W) (i : Id) : List (Nat × Bool) := (w.iro i).flatMap w.invs
/-- `validateInvariants(obj)`: the first failure is raised -/
def validateFirst (w : W) (i : Id) : Option Nat := ((allInvs w i).find? (·.2)).map (·.1)
/-- `validateInvariants(obj, errors)`: every invariant runs, all failures are collected -/
def validateAll (w : W) (i : Id) : List Nat × List Nat :=
  ((allInvs w i).map (·.1), ((allInvs w i).filter (·.2)).map (·.1))
end ZI.AttrsW
