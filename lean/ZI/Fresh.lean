import ZI.Valid2
import ZI.Propagate
/-! Scratch: C02 — after re-basing one node, propagation restores "cached = fresh" everywhere. -/
namespace ZI.RO

theorem flatMap_congr' {g h : Id → List Id} {l : List Id} (e : ∀ b ∈ l, g b = h b) : l.flatMap g = l.flatMap h := by
  induction l with
  | nil => rfl
  | cons a t ih =>
    simp only [List.flatMap_cons]
    rw [e a (by simp), ih fun b hb => e b (by simp [hb])]

theorem any_congr_mem {α} {p q : α → Bool} {l : List α} (e : ∀ x ∈ l, p x = q x) : l.any p = l.any q := by
  induction l with
  | nil => rfl
  | cons a t ih =>
    simp only [List.any_cons]
    rw [e a (by simp), ih fun b hb => e b (by simp [hb])]

/-! ### the fresh computation does not depend on (enough) fuel, nor on unrelated parts of the graph -/
theorem flatten_fuel {bases : Bases} {rank : Id → Nat} (ha : Acyclic bases rank) :
    ∀ (f : Nat) (c : Id), rank c ≤ f → flatten bases f c = flatten bases (f+1) c := by
  intro f
  induction f with
  | zero =>
    intro c hr
    have hb : bases c = [] := by
      cases h : bases c with
      | nil => rfl
      | cons b _ => have := ha c b (by rw [h]; simp); omega
    simp [flatten, hb]
  | succ f ih =>
    intro c hr
    rw [flatten_succ, flatten_succ]
    congr 1
    exact flatMap_congr' fun b hb => ih b (by have := ha c b hb; omega)

theorem flatten_fuel_le {bases : Bases} {rank : Id → Nat} (ha : Acyclic bases rank) {f f' : Nat} {c : Id}
    (h : rank c ≤ f) (h' : f ≤ f') : flatten bases f c = flatten bases f' c := by
  induction h' with
  | refl => rfl
  | step hle ih =>
    have hle' : f ≤ _ := hle
    rw [ih]; exact flatten_fuel ha _ c (by omega)

/-- the DFS only looks at base lists of nodes it reaches -/
theorem flatten_congr {b1 b2 : Bases} : ∀ (f : Nat) (c : Id), (∀ x, Reach b1 c x → b1 x = b2 x) →
    flatten b1 f c = flatten b2 f c := by
  intro f
  induction f with
  | zero => intro c _; rfl
  | succ f ih =>
    intro c h
    rw [flatten_succ, flatten_succ, ← h c (Reach.refl c)]
    congr 1
    exact flatMap_congr' fun b hb => ih b fun x hx => h x (Reach.step hb hx)

theorem c3Node_congr {bases : Bases} (leg1 leg2 : Id → List Id) (r1 r2 : Id → Res) (c : Id)
    (hl : leg1 c = leg2 c) (h : ∀ b ∈ bases c, r1 b = r2 b) :
    c3Node bases leg1 r1 c = c3Node bases leg2 r2 c := by
  have htree : c3Tree c (bases c) r1 = c3Tree c (bases c) r2 := by
    simp only [c3Tree]; congr 2; exact List.map_congr_left fun b hb => by rw [h b hb]
  have hany : ((bases c).any fun b => (r1 b).incons) = ((bases c).any fun b => (r2 b).incons) :=
    any_congr_mem fun b hb => by rw [h b hb]
  unfold c3Node
  split
  · rename_i b hb
    have : b ∈ bases c := by rw [hb]; simp
    rw [h b this]
  · rw [htree, hl, hany]

end ZI.RO

namespace ZI.RO
open ZI.Prop (Down prop prop_spec)

theorem legacyRo_fuel {bases : Bases} {rank : Id → Nat} (ha : Acyclic bases rank) {f f' : Nat} {c : Id}
    (h : rank c ≤ f) (h' : rank c ≤ f') : legacyRo bases f c = legacyRo bases f' c := by
  unfold legacyRo
  rcases Nat.le_total f f' with hle | hle
  · rw [flatten_fuel_le ha h hle]
  · rw [flatten_fuel_le ha h' hle]

/-- what `changed` recomputes at a node -/
def Fstep (bases : Bases) (root : Id) (fuel : Nat) (σ : Id → List Id) (x : Id) : List Id :=
  if x = root then [x] else sroStep bases root fuel σ x

theorem sroFresh_succ_ne (bases : Bases) (root : Id) (f : Nat) {c : Id} (h : c ≠ root) :
    sroFresh bases root (f+1) c = sroStep bases root (f+1) (sroFresh bases root f) c := by
  show (if c == root then [root] else _) = _
  simp [h]
theorem sroFresh_succ_root (bases : Bases) (root : Id) (f : Nat) : sroFresh bases root (f+1) root = [root] := by
  show (if root == root then [root] else _) = _
  simp
theorem Fstep_ne {bases : Bases} {root : Id} {fuel : Nat} {σ : Id → List Id} {x : Id} (h : x ≠ root) :
    Fstep bases root fuel σ x = sroStep bases root fuel σ x := by simp [Fstep, h]
theorem Fstep_root {bases : Bases} {root : Id} {fuel : Nat} {σ : Id → List Id} :
    Fstep bases root fuel σ root = [root] := by simp [Fstep]

theorem sroFresh_fuel {bases : Bases} {rank : Id → Nat} {root : Id} (ha : Acyclic bases rank) :
    ∀ (f : Nat) (c : Id), rank c < f → sroFresh bases root f c = sroFresh bases root (f+1) c := by
  intro f
  induction f with
  | zero => intro c h; omega
  | succ f ih =>
    intro c hr
    by_cases hcr : c = root
    · subst hcr; rw [sroFresh_succ_root, sroFresh_succ_root]
    · rw [sroFresh_succ_ne _ _ _ hcr, sroFresh_succ_ne _ _ _ hcr]
      simp only [sroStep]
      congr 2
      apply c3Node_congr
      · exact legacyRo_fuel ha (by omega) (by omega)
      · intro b hb
        have := ha c b hb
        rw [ih b (by omega)]

/-- the local equations have a unique solution on an acyclic graph: the fresh computation -/
theorem fresh_unique {bases : Bases} {rank : Id → Nat} {root : Id} (ha : Acyclic bases rank) {N fuelRo : Nat}
    (hN : ∀ x, rank x ≤ N) (hfuel : N ≤ fuelRo) {σ : Id → List Id}
    (hloc : ∀ x, σ x = Fstep bases root fuelRo σ x) :
    ∀ (f : Nat) (x : Id), rank x < f → σ x = sroFresh bases root f x := by
  intro f
  induction f with
  | zero => intro x h; omega
  | succ f ih =>
    intro x hr
    rw [hloc x]
    by_cases hxr : x = root
    · subst hxr; rw [Fstep_root, sroFresh_succ_root]
    · rw [Fstep_ne hxr, sroFresh_succ_ne _ _ _ hxr]
      simp only [sroStep]
      congr 2
      apply c3Node_congr
      · exact legacyRo_fuel ha (by have := hN x; omega) (by omega)
      · intro b hb
        have := ha x b hb
        rw [ih b (by omega)]

theorem reach_down {bases deps : Id → List Id} (hdb : ∀ x b, b ∈ bases x → x ∈ deps b) {x y : Id}
    (h : Reach bases x y) : Down deps y x := by
  induction h with
  | refl => exact Down.refl _
  | step hb _ ih => exact ih.trans_dep (hdb _ _ hb)

/-- `Fstep` only reads the cached values of the bases -/
theorem Fstep_local (bases : Bases) (root : Id) (fuel : Nat) (σ σ' : Id → List Id) (s : Id)
    (h : ∀ b ∈ bases s, σ b = σ' b) : Fstep bases root fuel σ s = Fstep bases root fuel σ' s := by
  by_cases hs : s = root
  · subst hs; rw [Fstep_root, Fstep_root]
  · rw [Fstep_ne hs, Fstep_ne hs]
    simp only [sroStep]
    congr 2
    exact c3Node_congr _ _ _ _ s rfl fun b hb => by rw [h b hb]

/-- **C02_fresh (one re-basing)**: `s.__bases__ = …` followed by `changed(s)` leaves every cached order equal to
the one a freshly built graph of the new shape computes. `B` is the old graph, `B'` the new one. -/
theorem fresh_after_rebase {B B' : Bases} {deps' : Id → List Id} {rank' : Id → Nat} {root s : Id} {N fuelRo : Nat}
    (hdiff : ∀ x, x ≠ s → B' x = B x)
    (ha' : Acyclic B' rank') (hN : ∀ x, rank' x ≤ N) (hfuel : N ≤ fuelRo)
    (hdb : ∀ x b, b ∈ B' x → x ∈ deps' b) (hbd : ∀ b d, d ∈ deps' b → b ∈ B' d)
    {σ : Id → List Id} (hold : ∀ x, σ x = Fstep B root fuelRo σ x)
    (fuel : Nat) (hfl : N - rank' s < fuel) :
    ∀ (f : Nat) (x : Id), rank' x < f →
      prop deps' (Fstep B' root fuelRo) fuel σ s x = sroFresh B' root f x := by
  have hrd : ∀ b d, d ∈ deps' b → rank' b < rank' d := fun b d hd => ha' d b (hbd b d hd)
  obtain ⟨hout, hin⟩ := prop_spec B' deps' rank' N (Fstep B' root fuelRo) ha' hrd hdb hN
    (Fstep_local B' root fuelRo) fuel s σ hfl
  apply fresh_unique ha' hN hfuel
  intro x
  by_cases hx : Down deps' s x
  · exact hin x hx
  · -- untouched node: its old local equation still holds in the new graph
    rw [hout x hx, hold x]
    have hxs : x ≠ s := fun e => hx (by rw [e]; exact Down.refl s)
    by_cases hxr : x = root
    · subst hxr; rw [Fstep_root, Fstep_root]
    · rw [Fstep_ne hxr, Fstep_ne hxr]
      simp only [sroStep]
      congr 2
      rw [c3Node_bases_congr' (hdiff x hxs).symm]
      apply c3Node_congr
      · -- the legacy fallback only looks below x, where nothing changed
        unfold legacyRo
        congr 1
        apply flatten_congr
        intro y hy
        have hys : y ≠ s := by
          intro e; subst e
          -- Reach B x y with B = B' below x … transfer to B'
          exact hx (reach_down hdb (reach_transfer hdiff hx hdb hy))
        exact (hdiff y hys).symm
      · intro b hb
        have : ¬ Down deps' s b := fun h => hx (h.trans_dep (hdb x b hb))
        rw [hout b this]
where
  c3Node_bases_congr' {b1 b2 : Bases} {leg : Id → List Id} {r : Id → Res} {c : Id} (h : b1 c = b2 c) :
      c3Node b1 leg r c = c3Node b2 leg r c := by unfold c3Node; rw [h]
  reach_transfer {B B' : Bases} {deps' : Id → List Id} {s x y : Id} (hdiff : ∀ x, x ≠ s → B' x = B x)
      (hx : ¬ Down deps' s x) (hdb : ∀ x b, b ∈ B' x → x ∈ deps' b) (h : Reach B x y) : Reach B' x y := by
    induction h with
    | refl => exact Reach.refl _
    | step hb hr ih =>
      rename_i a b c
      have has : a ≠ s := fun e => hx (by rw [e]; exact Down.refl s)
      have hb' : b ∈ B' a := by rw [hdiff a has]; exact hb
      have hnb : ¬ Down deps' s b := fun h => hx (h.trans_dep (hdb a b hb'))
      exact Reach.step hb' (ih hnb)

#print axioms fresh_after_rebase
end ZI.RO
