/-! Scratch (design phase): C05 — shape of the cache-transparency invariant, on an abstract cache machine.
    `R` abstracts the registrations of the whole registry chain, `sro` the cached resolution orders of the
    specification graph; `U R sro key` is the uncached answer, which reads `sro` only at the specs of `key`. -/
namespace ZI.Cache
abbrev Id := Nat
abbrev Key := List Id            -- the required specs of a lookup (provided / name folded into `U`)
abbrev Ans := Option Nat
abbrev Sro := Id → List Id

structure St (R : Type) where
  reg : R
  sro : Sro
  cache : List (Key × Ans)       -- `_cache` / `_mcache` / `_scache`, abstractly
  subs : List Id                 -- `_required`: specs this lookup object is subscribed to

inductive Op (R : Type)
  | mutate (r : R)               -- register / unregister / subscribe / unsubscribe / registry re-basing: ends in `changed`
  | rebase (sro' : Sro) (down : Id → Bool)   -- `s.__bases__ = …`: `down` = downstream closure of `s`
  | lookup (k : Key)

variable {R : Type} (U : R → Sro → Key → Ans)

def cached (c : List (Key × Ans)) (k : Key) : Option Ans := (c.find? (·.1 == k)).map (·.2)

def step (s : St R) : Op R → St R × Option Ans
  | .mutate r => ({ s with reg := r, cache := [], subs := [] }, none)
  | .rebase sro' down =>
      -- `changed` reaches the lookup object iff it is subscribed to some spec downstream of the re-based one
      if s.subs.any down then ({ s with sro := sro', cache := [], subs := [] }, none)
      else ({ s with sro := sro' }, none)
  | .lookup k =>
      match cached s.cache k with
      | some a => (s, some a)
      | none =>
        let a := U s.reg s.sro k
        ({ s with cache := (k, a) :: s.cache, subs := k ++ s.subs }, some a)     -- `_subscribe(*required)`

/-- the invariant: every entry is what an uncached lookup returns now, and its specs are subscribed -/
def Inv (s : St R) : Prop :=
  ∀ k a, (k, a) ∈ s.cache → a = U s.reg s.sro k ∧ ∀ x ∈ k, x ∈ s.subs

/-- a re-basing is well-formed when it changes cached orders only downstream -/
def WFOp (s : St R) : Op R → Prop
  | .rebase sro' down => ∀ x, down x = false → sro' x = s.sro x
  | _ => True

theorem cached_mem {c : List (Key × Ans)} {k : Key} {a : Ans} (h : cached c k = some a) : (k, a) ∈ c := by
  unfold cached at h
  cases hf : c.find? (·.1 == k) with
  | none => rw [hf] at h; simp at h
  | some p =>
    rw [hf] at h; simp at h
    have h1 := List.find?_some hf
    have h2 := List.mem_of_find?_eq_some hf
    simp at h1
    obtain ⟨k', a'⟩ := p
    simp at h1 h; subst h1; subst h; exact h2

theorem inv_step (hloc : ∀ r (σ σ' : Sro) k, (∀ x ∈ k, σ x = σ' x) → U r σ k = U r σ' k)
    (s : St R) (op : Op R) (hi : Inv U s) (hw : WFOp s op) : Inv U (step U s op).1 := by
  cases op with
  | mutate r => intro k a h; simp [step] at h
  | rebase sro' down =>
    simp only [step]
    split
    · intro k a h; simp at h
    · rename_i hn
      intro k a h
      obtain ⟨ha, hs⟩ := hi k a h
      refine ⟨?_, hs⟩
      rw [ha]
      apply hloc
      intro x hx
      have hx' := hs x hx
      have : down x = false := by
        cases hd : down x with
        | false => rfl
        | true => exact absurd (List.any_eq_true.mpr ⟨x, hx', hd⟩) hn
      exact (hw x this).symm
  | lookup k =>
    simp only [step]
    cases hc : cached s.cache k with
    | some a => exact hi
    | none =>
      intro k' a' h
      simp only [List.mem_cons, Prod.mk.injEq] at h
      rcases h with ⟨rfl, rfl⟩ | h
      · exact ⟨rfl, fun x hx => List.mem_append_left _ hx⟩
      · obtain ⟨ha, hs⟩ := hi k' a' h
        exact ⟨ha, fun x hx => List.mem_append_right _ (hs x hx)⟩

/-- **C05 (shape)**: whatever lookups happened before, a lookup returns the uncached answer of the current state -/
theorem lookup_transparent (hloc : ∀ r (σ σ' : Sro) k, (∀ x ∈ k, σ x = σ' x) → U r σ k = U r σ' k)
    (s : St R) (hi : Inv U s) (k : Key) : (step U s (.lookup k)).2 = some (U s.reg s.sro k) := by
  simp only [step]
  cases hc : cached s.cache k with
  | some a => simp [(hi k a (cached_mem hc)).1]
  | none => rfl

/-- … and the registrations / orders a lookup sees are exactly those a lookup-free history produces -/
def eraseLookups : List (Op R) → List (Op R) := List.filter fun | .lookup _ => false | _ => true

def run (s : St R) (ops : List (Op R)) : St R := ops.foldl (fun s op => (step U s op).1) s

theorem run_reg_sro (s : St R) (ops : List (Op R)) :
    (run U s ops).reg = (run U s (eraseLookups ops)).reg ∧ (run U s ops).sro = (run U s (eraseLookups ops)).sro := by
  -- reg and sro never depend on cache/subs, so state them for two starting points that agree on reg/sro
  suffices h : ∀ (s1 s2 : St R), s1.reg = s2.reg → s1.sro = s2.sro →
      (run U s1 ops).reg = (run U s2 (eraseLookups ops)).reg ∧ (run U s1 ops).sro = (run U s2 (eraseLookups ops)).sro from
    h s s rfl rfl
  induction ops with
  | nil => intro s1 s2 h1 h2; exact ⟨h1, h2⟩
  | cons op rest ih =>
    intro s1 s2 h1 h2
    cases op with
    | mutate r => exact ih _ _ rfl h2
    | rebase sro' down =>
      simp only [run, List.foldl_cons, eraseLookups, List.filter_cons]
      apply ih
      · simp only [step]; split <;> split <;> simp [h1]
      · simp only [step]; split <;> split <;> simp
    | lookup k =>
      simp only [run, List.foldl_cons, eraseLookups, List.filter_cons]
      apply ih
      · simp only [step]; split <;> simp [h1]
      · simp only [step]; split <;> simp [h2]




end ZI.Cache
