import ZI.Own
/-! # C11, "references are not leaked": the reference ledger of the C lookup functions

The ownership IR of `ZI.Own` is checked a second time, for BALANCE.  `checkL vs p s` accepts a program iff `check` does
(`checkL_imp_check`: everything `ZI.Own.check_sound` proves still applies) and, in addition,

* a variable that holds a reference of OURS is never overwritten (`new`, `incref`, any re-binding) and only such a variable is
  released (`decref` of an argument — a reference that belongs to the caller — is rejected);
* at every `return r` the frame holds no reference of its own except the one in `r`, and `r`, if there is one, IS ours
  (a new reference is returned, never a borrowed pointer or the caller's own reference).

`s.cal` lists the variables still bound to what the CALLER passed in (alive for the whole call, not ours to release).

Theorem `checkL_balanced`: along EVERY path through an accepted program, (references acquired: `new`, `incref`) − (references
released: `decref`) = 1 if a reference is returned, 0 otherwise — whatever the environment does at the callbacks in between.  A
path that forgets a `Py_DECREF` on an error branch (the classic leak) or releases twice is rejected by the checker. -/
namespace ZI.Own

structure LState where
  σ : AState
  cal : List Var

/-- `v` holds a reference acquired by this frame -/
def ours (s : LState) (v : Var) : Bool := s.σ v == .owned && !s.cal.contains v

def rebind (s : LState) (σ' : AState) (v : Var) : LState := ⟨σ', s.cal.filter (· != v)⟩

def lstep (s : LState) (op : Op) : Option LState :=
  match op with
  | .new v => if ours s v then none else (astep s.σ op).map fun σ' => rebind s σ' v
  | .incref v => if ours s v then none else (astep s.σ op).map fun σ' => rebind s σ' v
  | .decref v => if s.cal.contains v then none else (astep s.σ op).map fun σ' => ⟨σ', s.cal⟩
  | .borrowField v _ => if ours s v then none else (astep s.σ op).map fun σ' => rebind s σ' v
  | .borrowInside v _ _ => if ours s v then none else (astep s.σ op).map fun σ' => rebind s σ' v
  | .getItem v _ => if ours s v then none else (astep s.σ op).map fun σ' => rebind s σ' v
  | .use _ => (astep s.σ op).map fun σ' => ⟨σ', s.cal⟩
  | .callback => (astep s.σ op).map fun σ' => ⟨σ', s.cal⟩
  | .clear _ => (astep s.σ op).map fun σ' => ⟨σ', s.cal⟩

/-- the variable an operation (re)binds or whose ownership it changes -/
def Op.target : Op → Option Var
  | .new v | .incref v | .decref v | .borrowField v _ | .borrowInside v _ _ | .getItem v _ => some v
  | _ => none

def retOk (vs : List Var) (s : LState) (r : Option Var) : Bool :=
  (vs.all fun v => !ours s v || r == some v) && (match r with | some v => ours s v && vs.contains v | none => true)

def checkL (vs : List Var) : Prog → LState → Bool
  | .done, s => retOk vs s none
  | .ret r, s => retOk vs s r
  | .seq o rest, s =>
      (match o.target with | some v => vs.contains v | none => true) &&
      (match lstep s o with | some s' => checkL vs rest s' | none => false)
  | .branch p q, s => checkL vs p s && checkL vs q s

/-! ### everything the memory-safety check accepts is still accepted -/
theorem guarded_map {c : Bool} {o : Option AState} {f : AState → LState} {s' : LState}
    (h : (if c = true then none else o.map f) = some s') : ∃ σ', o = some σ' ∧ f σ' = s' := by
  cases c
  · simp only [Bool.false_eq_true, if_false] at h; exact Option.map_eq_some_iff.mp h
  · simp at h

theorem lstep_astep {s s' : LState} {op : Op} (h : lstep s op = some s') : astep s.σ op = some s'.σ := by
  cases op with
  | new v => obtain ⟨σ', ha, hf⟩ := guarded_map h; rw [ha, ← hf]; rfl
  | incref v => obtain ⟨σ', ha, hf⟩ := guarded_map h; rw [ha, ← hf]; rfl
  | decref v => obtain ⟨σ', ha, hf⟩ := guarded_map h; rw [ha, ← hf]
  | borrowField v f => obtain ⟨σ', ha, hf⟩ := guarded_map h; rw [ha, ← hf]; rfl
  | borrowInside v w i => obtain ⟨σ', ha, hf⟩ := guarded_map h; rw [ha, ← hf]; rfl
  | getItem v w => obtain ⟨σ', ha, hf⟩ := guarded_map h; rw [ha, ← hf]; rfl
  | use v => obtain ⟨σ', ha, hf⟩ := Option.map_eq_some_iff.mp h; rw [ha, ← hf]
  | callback =>
    have h' : (astep s.σ .callback).map (fun σ' => (⟨σ', s.cal⟩ : LState)) = some s' := h
    obtain ⟨σ', ha, hf⟩ := Option.map_eq_some_iff.mp h'; rw [ha, ← hf]
  | clear f =>
    have h' : (astep s.σ (.clear f)).map (fun σ' => (⟨σ', s.cal⟩ : LState)) = some s' := h
    obtain ⟨σ', ha, hf⟩ := Option.map_eq_some_iff.mp h'; rw [ha, ← hf]

theorem checkL_imp_check (vs : List Var) : ∀ (p : Prog) (s : LState), checkL vs p s = true → check p s.σ = true := by
  intro p
  induction p with
  | done => intro s _; rfl
  | ret r => intro s _; rfl
  | seq o rest ih =>
    intro s h
    simp only [checkL, Bool.and_eq_true] at h
    cases hl : lstep s o with
    | none => rw [hl] at h; simp at h
    | some s' =>
      rw [hl] at h
      simp only [check, lstep_astep hl]
      exact ih s' h.2
  | branch p q ihp ihq =>
    intro s h
    simp only [checkL, Bool.and_eq_true] at h
    simp only [check, Bool.and_eq_true]
    exact ⟨ihp s h.1, ihq s h.2⟩

/-! ### the ledger -/
def delta : Op → Int
  | .new _ => 1
  | .incref _ => 1
  | .decref _ => -1
  | _ => 0

def net (ops : List Op) : Int := (ops.map delta).sum

/-- the executions of a program: one branch at every `if`, up to a `return` -/
inductive Path : Prog → List Op → Option Var → Prop
  | done : Path .done [] none
  | ret (r : Option Var) : Path (.ret r) [] r
  | seq {o rest ops r} : Path rest ops r → Path (.seq o rest) (o :: ops) r
  | left {p q ops r} : Path p ops r → Path (.branch p q) ops r
  | right {p q ops r} : Path q ops r → Path (.branch p q) ops r

def oursCount (s : LState) (vs : List Var) : Nat := (vs.filter (ours s)).length

theorem count_congr (s s' : LState) (vs : List Var) (h : ∀ v ∈ vs, ours s' v = ours s v) : oursCount s' vs = oursCount s vs := by
  unfold oursCount
  rw [List.filter_congr h]

/-- two states that agree on `ours` except at `v ∈ vs` (a duplicate-free list) -/
theorem count_point (s s' : LState) (vs : List Var) (hnd : vs.Nodup) (v : Var) (hv : v ∈ vs)
    (h : ∀ x, x ≠ v → ours s' x = ours s x) :
    (oursCount s' vs : Int) + (if ours s v then 1 else 0) = oursCount s vs + (if ours s' v then 1 else 0) := by
  unfold oursCount
  induction vs with
  | nil => cases hv
  | cons a t ih =>
    have hnd' := (List.nodup_cons.mp hnd).2
    have hat := (List.nodup_cons.mp hnd).1
    by_cases hav : a = v
    · subst hav
      have ht : t.filter (ours s') = t.filter (ours s) :=
        List.filter_congr (fun x hx => h x (fun e => hat (e ▸ hx)))
      simp only [List.filter_cons, ht]
      cases h1 : ours s a <;> cases h2 : ours s' a <;>
        simp only [if_true, if_false, Bool.false_eq_true, List.length_cons] <;> omega
    · have hv' : v ∈ t := by
        rcases List.mem_cons.mp hv with e | e
        · exact absurd e.symm hav
        · exact e
      have := ih hnd' hv'
      simp only [List.filter_cons, h a hav]
      cases h1 : ours s a <;>
        simp only [if_true, if_false, Bool.false_eq_true, List.length_cons] at this ⊢ <;> omega

theorem dropInside_ownedB (σ : AState) (w x : Var) : (dropInside σ w x == Abs.owned) = (σ x == Abs.owned) := by
  unfold dropInside
  cases h : σ x with
  | bInside w' imm => simp only; split <;> rfl
  | _ => rfl

theorem afterEnv_ownedB (σ : AState) (o : Option Field) (x : Var) : (afterEnv σ o x == Abs.owned) = (σ x == Abs.owned) := by
  unfold afterEnv
  cases h : σ x with
  | bField f => simp only; split <;> rfl
  | bInside w' imm => simp only; split <;> rfl
  | _ => rfl

theorem lset_ne (σ : AState) (v x : Var) (a : Abs) (h : x ≠ v) : σ.set v a x = σ x := by
  unfold AState.set; rw [if_neg h]
theorem lset_eq (σ : AState) (v : Var) (a : Abs) : σ.set v a v = a := by
  unfold AState.set; rw [if_pos rfl]

theorem contains_filter_ne (l : List Var) (v x : Var) (h : x ≠ v) : (l.filter (· != v)).contains x = l.contains x := by
  induction l with
  | nil => rfl
  | cons a t ih =>
    rw [List.filter_cons]
    by_cases ha : a = v
    · subst ha
      have hxa : (x == a) = false := by simpa using h
      have haa : (a != a) = false := by simp
      rw [haa]
      simp only [Bool.false_eq_true, if_false, List.contains_cons, hxa, Bool.false_or]
      exact ih
    · have : (a != v) = true := by simpa using ha
      simp only [this, if_true, List.contains_cons, ih]
theorem contains_filter_self (l : List Var) (v : Var) : (l.filter (· != v)).contains v = false := by
  induction l with
  | nil => rfl
  | cons a t ih =>
    rw [List.filter_cons]
    by_cases ha : a = v
    · subst ha; simpa using ih
    · have h1 : (a != v) = true := by simpa using ha
      have h2 : (v == a) = false := by simpa using (fun e : v = a => ha e.symm)
      simp only [h1, if_true, List.contains_cons, h2, Bool.false_or, ih]

/-- a re-binding of `v` (to anything): every other variable keeps its status -/
theorem ours_rebind_ne (s : LState) (σ' : AState) (v x : Var) (hx : x ≠ v) (hσ : (σ' x == Abs.owned) = (s.σ x == Abs.owned)) :
    ours (rebind s σ' v) x = ours s x := by
  unfold ours rebind
  simp only [hσ, contains_filter_ne _ _ _ hx]
theorem ours_rebind_self (s : LState) (σ' : AState) (v : Var) : ours (rebind s σ' v) v = (σ' v == Abs.owned) := by
  unfold ours rebind
  simp only [contains_filter_self, Bool.not_false, Bool.and_true]

/-- **one accepted step moves the ledger by exactly what the operation acquires or releases** -/
theorem lstep_count (vs : List Var) (hnd : vs.Nodup) (s s' : LState) (op : Op) (h : lstep s op = some s')
    (ht : ∀ v, op.target = some v → v ∈ vs) : (oursCount s' vs : Int) = oursCount s vs + delta op := by
  cases op with
  | new v =>
    simp only [lstep] at h
    split at h
    · simp at h
    · rename_i hno
      simp only [astep, Option.map_some, Option.some.injEq] at h
      subst h
      have hv := ht v rfl
      have := count_point s (rebind s ((dropInside s.σ v).set v .owned) v) vs hnd v hv (fun x hx => by
        apply ours_rebind_ne _ _ _ _ hx
        rw [lset_ne _ _ _ _ hx, dropInside_ownedB])
      rw [ours_rebind_self, lset_eq] at this
      simp only [Bool.not_eq_true] at hno
      simp [hno, delta] at this ⊢
      omega
  | incref v =>
    simp only [lstep] at h
    split at h
    · simp at h
    · rename_i hno
      simp only [astep] at h
      split at h
      · simp only [Option.map_some, Option.some.injEq] at h
        subst h
        have hv := ht v rfl
        have := count_point s (rebind s ((dropInside s.σ v).set v .owned) v) vs hnd v hv (fun x hx => by
          apply ours_rebind_ne _ _ _ _ hx
          rw [lset_ne _ _ _ _ hx, dropInside_ownedB])
        rw [ours_rebind_self, lset_eq] at this
        simp only [Bool.not_eq_true] at hno
        simp [hno, delta] at this ⊢
        omega
      · simp at h
  | decref v =>
    simp only [lstep] at h
    split at h
    · simp at h
    · rename_i hcal
      simp only [astep] at h
      split at h
      · rename_i hown
        simp only [Option.map_some, Option.some.injEq] at h
        subst h
        have hv := ht v rfl
        have hc' : v ∉ s.cal := by simpa using hcal
        have hbefore : ours s v = true := by
          unfold ours; simp [hown, hc']
        have := count_point s ⟨(dropInside s.σ v).set v .unk, s.cal⟩ vs hnd v hv (fun x hx => by
          unfold ours
          simp only [lset_ne _ _ _ _ hx, dropInside_ownedB])
        have hafter : ours (⟨(dropInside s.σ v).set v .unk, s.cal⟩ : LState) v = false := by
          unfold ours; simp [lset_eq]
        rw [hbefore, hafter] at this
        simp [delta] at this ⊢
        omega
      · simp at h
  | borrowField v f =>
    simp only [lstep] at h
    split at h
    · simp at h
    · rename_i hno
      simp only [astep, Option.map_some, Option.some.injEq] at h
      subst h
      have hv := ht v rfl
      have := count_point s (rebind s ((dropInside s.σ v).set v (.bField f)) v) vs hnd v hv (fun x hx => by
        apply ours_rebind_ne _ _ _ _ hx
        rw [lset_ne _ _ _ _ hx, dropInside_ownedB])
      rw [ours_rebind_self, lset_eq] at this
      simp only [Bool.not_eq_true] at hno
      simp [hno, delta] at this ⊢
      omega
  | borrowInside v w imm =>
    simp only [lstep] at h
    split at h
    · simp at h
    · rename_i hno
      simp only [astep] at h
      split at h
      · simp only [Option.map_some, Option.some.injEq] at h
        subst h
        have hv := ht v rfl
        have := count_point s (rebind s ((dropInside s.σ v).set v (.bInside w imm)) v) vs hnd v hv (fun x hx => by
          apply ours_rebind_ne _ _ _ _ hx
          rw [lset_ne _ _ _ _ hx, dropInside_ownedB])
        rw [ours_rebind_self, lset_eq] at this
        simp only [Bool.not_eq_true] at hno
        simp [hno, delta] at this ⊢
        omega
      · simp at h
  | getItem v w =>
    simp only [lstep] at h
    split at h
    · simp at h
    · rename_i hno
      have hv := ht v rfl
      simp only [astep] at h
      split at h
      · simp at h
      · split at h
        · simp only [Option.map_some, Option.some.injEq] at h
          subst h
          have := count_point s (rebind s ((dropInside s.σ v).set v (.bInside w false)) v) vs hnd v hv (fun x hx => by
            apply ours_rebind_ne _ _ _ _ hx
            rw [lset_ne _ _ _ _ hx, dropInside_ownedB])
          rw [ours_rebind_self, lset_eq] at this
          simp only [Bool.not_eq_true] at hno
          simp [hno, delta] at this ⊢
          omega
        · rename_i f _
          simp only [Option.map_some, Option.some.injEq] at h
          subst h
          have := count_point s (rebind s ((dropInside s.σ v).set v (.bField f)) v) vs hnd v hv (fun x hx => by
            apply ours_rebind_ne _ _ _ _ hx
            rw [lset_ne _ _ _ _ hx, dropInside_ownedB])
          rw [ours_rebind_self, lset_eq] at this
          simp only [Bool.not_eq_true] at hno
          simp [hno, delta] at this ⊢
          omega
        · simp at h
  | use v =>
    simp only [lstep, astep] at h
    split at h
    · simp only [Option.map_some, Option.some.injEq] at h
      subst h; simp [delta]
    · simp at h
  | callback =>
    simp only [lstep, astep, Option.map_some, Option.some.injEq] at h
    subst h
    have := count_congr s ⟨afterEnv s.σ none, s.cal⟩ vs (fun v _ => by unfold ours; simp only [afterEnv_ownedB])
    simp [delta, this]
  | clear f =>
    simp only [lstep, astep, Option.map_some, Option.some.injEq] at h
    subst h
    have := count_congr s ⟨afterEnv s.σ (some f), s.cal⟩ vs (fun v _ => by unfold ours; simp only [afterEnv_ownedB])
    simp [delta, this]

theorem filter_eq_singleton (vs : List Var) (hnd : vs.Nodup) (w : Var) (hw : w ∈ vs) : vs.filter (· == w) = [w] := by
  induction vs with
  | nil => cases hw
  | cons a t ih =>
    have hat := (List.nodup_cons.mp hnd).1
    rw [List.filter_cons]
    by_cases ha : a = w
    · subst ha
      have : t.filter (· == a) = [] := by
        rw [List.filter_eq_nil_iff]; intro x hx; simp only [beq_iff_eq]; intro e; exact hat (e ▸ hx)
      simp [this]
    · have hb : (a == w) = false := by simpa using ha
      rw [hb]
      simp only [Bool.false_eq_true, if_false]
      rcases List.mem_cons.mp hw with e | e
      · exact absurd e.symm ha
      · exact ih (List.nodup_cons.mp hnd).2 e

theorem retOk_count (vs : List Var) (hnd : vs.Nodup) (s : LState) (r : Option Var) (h : retOk vs s r = true) :
    (oursCount s vs : Int) = if r.isSome then 1 else 0 := by
  unfold retOk at h
  rw [Bool.and_eq_true, List.all_eq_true] at h
  obtain ⟨hall, hr⟩ := h
  cases r with
  | none =>
    have : vs.filter (ours s) = [] := by
      rw [List.filter_eq_nil_iff]
      intro v hv
      have := hall v hv
      simpa using this
    unfold oursCount; rw [this]; rfl
  | some w =>
    simp only [Bool.and_eq_true, List.contains_iff_mem] at hr
    have : vs.filter (ours s) = [w] := by
      have h1 : ∀ v ∈ vs, ours s v = true → v = w := by
        intro v hv ho
        have := hall v hv
        have e : w = v := by simpa [ho] using this
        exact e.symm
      have h2 : vs.filter (ours s) = vs.filter (· == w) := by
        apply List.filter_congr
        intro v hv
        cases ho : ours s v
        · symm; rw [beq_eq_false_iff_ne]; intro e; rw [e, hr.1] at ho; cases ho
        · symm; rw [beq_iff_eq]; exact h1 v hv ho
      rw [h2]
      exact filter_eq_singleton vs hnd w hr.2
    unfold oursCount; rw [this]; rfl

/-- **C11_balanced — no reference is leaked, none is released twice, and what is returned is a new reference**: along every
execution path of a program the checker accepts, acquisitions minus releases plus what the frame held at the start equals
what it hands to the caller (1 for a returned object, 0 for an error / integer return). -/
theorem checkL_balanced (vs : List Var) (hnd : vs.Nodup) :
    ∀ (p : Prog) (s : LState), checkL vs p s = true → ∀ (ops : List Op) (r : Option Var), Path p ops r →
      net ops + (oursCount s vs : Int) = if r.isSome then 1 else 0 := by
  intro p s h ops r path
  induction path generalizing s with
  | done => simp only [checkL] at h; simpa [net] using retOk_count vs hnd s none h
  | ret r => simp only [checkL] at h; simpa [net] using retOk_count vs hnd s r h
  | @seq o rest ops r _ ih =>
    simp only [checkL, Bool.and_eq_true] at h
    cases hl : lstep s o with
    | none => rw [hl] at h; simp at h
    | some s' =>
      rw [hl] at h
      have hc := lstep_count vs hnd s s' o hl (fun v hv => by
        have := h.1; rw [hv] at this; simpa using this)
      have := ih s' h.2
      simp only [net, List.map_cons, List.sum_cons] at this ⊢
      omega
  | left _ ih => simp only [checkL, Bool.and_eq_true] at h; exact ih s h.1
  | right _ ih => simp only [checkL, Bool.and_eq_true] at h; exact ih s h.2

/-- a frame that starts with nothing of its own ends with exactly the returned reference -/
theorem C11_balanced (vs : List Var) (hnd : vs.Nodup) (p : Prog) (σ : AState) (args : List Var)
    (hargs : ∀ v, σ v = .owned → v ∈ args) (h : checkL vs p ⟨σ, args⟩ = true) (ops : List Op) (r : Option Var) (path : Path p ops r) :
    net ops = if r.isSome then 1 else 0 := by
  have := checkL_balanced vs hnd p ⟨σ, args⟩ h ops r path
  have hz : oursCount (⟨σ, args⟩ : LState) vs = 0 := by
    unfold oursCount
    rw [List.length_eq_zero_iff, List.filter_eq_nil_iff]
    intro v _
    unfold ours
    simp only [Bool.and_eq_true, beq_iff_eq, Bool.not_eq_true', not_and, Bool.not_eq_false]
    intro ho
    exact List.contains_iff_mem.mpr (hargs v ho)
  rw [hz] at this
  simpa using this

/-! ### witnesses: the leak of a forgotten release on an error branch is rejected; the balanced version is accepted -/
-- vars: 0 required (argument), 1 cache, 2 result
def leakyErrorBranch : Prog :=
  .seq .callback <| .seq (.new 0) <| .seq .callback <| .seq (.new 1) <|
  .branch (.seq (.decref 0) (.ret none))                                  -- error: `cache` is not released
          (.seq .callback <| .seq (.new 2) <| .seq (.decref 1) <| .seq (.decref 0) (.ret (some 2)))
def balancedErrorBranch : Prog :=
  .seq .callback <| .seq (.new 0) <| .seq .callback <| .seq (.new 1) <|
  .branch (.seq (.decref 1) <| .seq (.decref 0) (.ret none))
          (.seq .callback <| .seq (.new 2) <| .seq (.decref 1) <| .seq (.decref 0) (.ret (some 2)))
def initEx : LState := ⟨fun v => if v = 0 then .owned else .unk, [0]⟩
theorem leak_rejected : checkL [0, 1, 2] leakyErrorBranch initEx = false ∧ check leakyErrorBranch initEx.σ = true := by decide
theorem balanced_accepted : checkL [0, 1, 2] balancedErrorBranch initEx = true := by decide

end ZI.Own
