import ZI.Valid
namespace ZI.RO

/-! #### `ro.ro` (no root): every result is a valid linearization -/
theorem roFull_valid {bases : Bases} {rank : Id → Nat} (ha : Acyclic bases rank) :
    ∀ (f : Nat) (c : Id), rank c < f → ValidLin bases c (roFull bases f c).mro := by
  intro f
  induction f with
  | zero => intro c h; omega
  | succ f ih =>
    intro c hr
    have hbv : ∀ b ∈ bases c, ValidLin bases b (roFull bases f b).mro :=
      fun b hb => ih b (by have := ha c b hb; omega)
    have hleg := legacy_valid ha (f+1) c (by omega)
    show ValidLin bases c (c3Node bases (legacyRo bases (f+1)) (roFull bases f) c).mro
    rcases c3Node_struct (bases := bases) (legacyRo bases (f+1)) (roFull bases f) c
        (fun b hb => (hbv b hb).head) (fun b hb => (hbv b hb).nodup)
        (fun b hb h => not_reach_self_of_base ha hb (((hbv b hb).mem c).mp h))
        (fun h => by have := ha c c h; omega)
        (fun b hb x hx b' hb' => (hbv b hb).topo x hx b' hb') with h | h
    · rw [h]; exact hleg
    · refine ⟨h.head, h.nodup, fun t => ?_, h.topo⟩
      rw [h.mem, reach_iff (c := c)]
      constructor
      · rintro (rfl | ⟨b, hb, ht⟩)
        · exact Or.inl rfl
        · exact Or.inr ⟨b, hb, ((hbv b hb).mem t).mp ht⟩
      · rintro (rfl | ⟨b, hb, ht⟩)
        · exact Or.inl rfl
        · exact Or.inr ⟨b, hb, ((hbv b hb).mem t).mpr ht⟩

/-! #### root forcing -/
theorem Before.filter {l : List Id} {x y : Id} (p : Id → Bool) (h : Before l x y) (hx : p x = true) (hy : p y = true) :
    Before (l.filter p) x y := by
  obtain ⟨l1, l2, rfl, hy2⟩ := h
  refine ⟨l1.filter p, l2.filter p, by simp [List.filter_cons, hx], ?_⟩
  exact List.mem_filter.mpr ⟨hy2, hy⟩

theorem forceRoot_spec {bases : Bases} {root c : Id} {l : List Id} (hroot : bases root = []) (hc : c ≠ root)
    (hh : l.head? = some c) (hnd : l.Nodup) (htopo : ∀ x ∈ l, ∀ b ∈ bases x, Before l x b) :
    (forceRoot root l).head? = some c ∧ (forceRoot root l).Nodup ∧
    (∀ t, t ∈ forceRoot root l ↔ t ∈ l ∨ t = root) ∧
    (∀ x ∈ forceRoot root l, ∀ b ∈ bases x, Before (forceRoot root l) x b) ∧
    (forceRoot root l).getLast? = some root := by
  unfold forceRoot
  split
  · rename_i hlast
    have hlast' : l.getLast? = some root := by simpa using hlast
    have hrl : root ∈ l := List.mem_of_getLast? hlast'
    refine ⟨hh, hnd, fun t => ?_, htopo, hlast'⟩
    constructor
    · exact Or.inl
    · rintro (h | rfl)
      · exact h
      · exact hrl
  · have hpc : (fun x : Id => x != root) c = true := by simpa using hc
    refine ⟨?_, ?_, ?_, ?_, by simp⟩
    · cases l with
      | nil => simp at hh
      | cons a t =>
        simp at hh; subst hh
        simp [List.filter_cons, hc]
    · rw [List.nodup_append]
      refine ⟨hnd.filter _, by simp, ?_⟩
      intro a ha b hb
      simp at hb; subst hb
      have := (List.mem_filter.mp ha).2
      simpa using this
    · intro t
      simp only [List.mem_append, List.mem_filter, List.mem_singleton]
      constructor
      · rintro (⟨h, _⟩ | h)
        · exact Or.inl h
        · exact Or.inr h
      · rintro (h | h)
        · by_cases ht : t = root
          · exact Or.inr ht
          · exact Or.inl ⟨h, by simpa using ht⟩
        · exact Or.inr h
    · intro x hx b hb
      rcases List.mem_append.mp hx with hx | hx
      · have hxl := (List.mem_filter.mp hx).1
        have hxr : (fun y : Id => y != root) x = true := (List.mem_filter.mp hx).2
        by_cases hbr : b = root
        · subst hbr
          obtain ⟨a, a', hsplit⟩ := List.append_of_mem hx
          exact ⟨a, a' ++ [b], by rw [hsplit]; simp, by simp⟩
        · exact ((htopo x hxl b hb).filter _ hxr (by simpa using hbr)).append_right _
      · simp at hx; subst hx
        rw [hroot] at hb; simp at hb

/-- what `__sro__` must satisfy (C03, first sentence) -/
structure ValidLinR (bases : Bases) (root c : Id) (l : List Id) : Prop where
  head : l.head? = some c
  nodup : l.Nodup
  mem : ∀ t, t ∈ l ↔ Reach bases c t ∨ t = root
  topo : ∀ x ∈ l, ∀ b ∈ bases x, Before l x b
  last : l.getLast? = some root

theorem sroFresh_valid {bases : Bases} {rank : Id → Nat} {root : Id} (ha : Acyclic bases rank)
    (hroot : bases root = []) :
    ∀ (f : Nat) (c : Id), rank c < f → ValidLinR bases root c (sroFresh bases root f c) := by
  intro f
  induction f with
  | zero => intro c h; omega
  | succ f ih =>
    intro c hr
    by_cases hcr : c = root
    · subst hcr
      have : sroFresh bases c (f+1) c = [c] := by simp [sroFresh]
      rw [this]
      refine ⟨by simp, by simp, fun t => ?_, ?_, by simp⟩
      · rw [reach_iff (c := c), hroot]; simp
      · intro x hx b hb; simp at hx; subst hx; rw [hroot] at hb; simp at hb
    · have hsf : sroFresh bases root (f+1) c =
          forceRoot root (c3Node bases (legacyRo bases (f+1)) (fun b => ⟨sroFresh bases root f b, false⟩) c).mro := by
        simp [sroFresh, hcr, sroStep]
      rw [hsf]
      have hbv : ∀ b ∈ bases c, ValidLinR bases root b (sroFresh bases root f b) :=
        fun b hb => ih b (by have := ha c b hb; omega)
      have hleg := legacy_valid ha (f+1) c (by omega)
      rcases c3Node_struct (bases := bases) (legacyRo bases (f+1)) (fun b => ⟨sroFresh bases root f b, false⟩) c
          (fun b hb => (hbv b hb).head) (fun b hb => (hbv b hb).nodup)
          (fun b hb h => by
            rcases ((hbv b hb).mem c).mp h with h | h
            · exact not_reach_self_of_base ha hb h
            · exact hcr h)
          (fun h => by have := ha c c h; omega)
          (fun b hb x hx b' hb' => (hbv b hb).topo x hx b' hb') with h | h
      · rw [h]
        obtain ⟨h1, h2, h3, h4, h5⟩ := forceRoot_spec hroot hcr hleg.head hleg.nodup hleg.topo
        exact ⟨h1, h2, fun t => by rw [h3, hleg.mem], h4, h5⟩
      · obtain ⟨h1, h2, h3, h4, h5⟩ := forceRoot_spec hroot hcr h.head h.nodup h.topo
        refine ⟨h1, h2, fun t => ?_, h4, h5⟩
        rw [h3, h.mem, reach_iff (c := c)]
        constructor
        · rintro ((rfl | ⟨b, hb, ht⟩) | h)
          · exact Or.inl (Or.inl rfl)
          · rcases ((hbv b hb).mem t).mp ht with h | h
            · exact Or.inl (Or.inr ⟨b, hb, h⟩)
            · exact Or.inr h
          · exact Or.inr h
        · rintro ((rfl | ⟨b, hb, ht⟩) | h)
          · exact Or.inl (Or.inl rfl)
          · exact Or.inl (Or.inr ⟨b, hb, ((hbv b hb).mem t).mpr (Or.inl ht)⟩)
          · exact Or.inr h

/-- **C03, first sentence**, for a freshly built graph (C02 lifts it to every reachable graph). -/
theorem C03_valid (bases : Bases) (rank : Id → Nat) (root c : Id)
    (ha : Acyclic bases rank) (hroot : bases root = []) :
    ValidLinR bases root c (sroFresh bases root (rank c + 1) c) :=
  sroFresh_valid ha hroot _ c (Nat.lt_succ_self _)

#print axioms roFull_valid
#print axioms C03_valid
end ZI.RO
