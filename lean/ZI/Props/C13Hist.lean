import ZI.Props.C19Hist
/-! # C13 (instance declarations) — a `Provides` object unpickles to an equivalent declaration, after ANY history

Python code concerned: `zope/interface/declarations.py` — `ProvidesClass.__reduce__` returns `(Provides, self.__args)`
with `__args = (cls, *interfaces)` the ARGUMENTS the object was built with; unpickling therefore calls the factory
`Provides(cls, *interfaces)` again, which consults the weak cache `InstanceDeclarations` keyed by these arguments and
(repaired code, `fixedProvides = true`) hands the cached object out only if its `__bases__` are what a fresh object would
get.  `directlyProvides(ob, *L)` builds `Provides(type(ob), *L)`; `alsoProvides(ob, *L')` passes
`directlyProvidedBy(ob) + L'`; `noLongerProvides(ob, j)` passes what remains.  Class specifications are covered by
`ZI.Props.C13` (`Implements.__reduce__`).
Model: `ZI.Classes2.provides` / `newProvides` / `usable` / `collect` / `directlyProvides` (validated against the Python
code by the declarations-layer correspondence), histories / abstract state / simulation of `ZI.Props.C01Hist`.  The
argument list is not stored in the model's nodes; it is the key of the `pcache` entry, and `declArgs` recomputes it from
the history step that built the declaration.  CPython's `pickle` itself (calling the reduced constructor on the reduced
arguments; classes and interfaces by global name) is assumed, as in `ZI.Props.C13`.

## What is proved (over all `WFHist` histories)

* **`C13_provides_same`** / **`C13_unpickle_same`**: the object the factory returns for `(type(o), *L)` in the current
  world lists exactly `Up σ (L minus what type(o) implies now) ∪ Impl σ (type(o))`; under G-settled
  (`K o = L.filter (¬ Impl now)`: the class implies the same members of `L` as when `o`'s declaration was built) that is
  exactly `Prov σ o`, exactly what the declaration held by `o` lists.  G-settled is necessary (example `hS`: the one
  permitted loss of C01 — a declaration redundant when made — is undone by a pickle round trip after the class
  declaration is withdrawn).
* **`C13_provides_identical`**: if after every step since the declaration `p` of `o` was built from `L` the class implied
  the same members of `L`, and `o` was not re-declared, the factory returns `p` itself and changes nothing ("unpickles to
  the identical live object").  The invariant behind it (`Live`, `live_init`, `live_step`, `dp_effect`): `o` holds `p`,
  the cache entry for `(type(o), L)` points to `p` (it survives the weak-reference sweep `collect` because `o` holds it; a
  `directlyProvides` on another instance with the same arguments hits and re-uses `p`; with other arguments touches another
  entry), G-settled.  The fact "the `pcache` entry points to `p` while some instance holds it" is NOT an invariant of the
  repaired factory (it is not in C01's `ISim`, and it is false: example `hN` — the factory replaces the entry when it
  refuses a stale object), which is why the guard quantifies over every intermediate state (`Quiet`).
* `provides_cases`: the two ways through the factory; `provides_reports`: what any returned object lists;
  `pframe_step`: class declarations, creations and queries touch neither the cache nor the instances. -/
namespace ZI.C13H
open ZI.RO ZI.Graph2 ZI.Classes2 ZI.C01

/-! ## 1. the `Provides` factory, case by case -/

/-- what a fresh `Provides(cls, *L)` gets as bases in a world simulating `σ` -/
theorem freshBases_eq {w : W} {σ : Spec} (h : Sim w σ) {c : Nat} (hc : c ∈ σ.classes) {fuel : Nat}
    (hf : σ.classes.idxOf c < fuel) (L : List Nat) (hL : ∀ i ∈ L, i ∈ σ.ifaces) :
    (addInterfacesToCls fuel w L c).2 = L.filter (fun i => !implB σ c i) ++ [(implementedBy fuel w c).2] := by
  obtain ⟨a1, a2, _, _⟩ := sim_implementedBy fuel w c h hc hf
  show L.filter _ ++ _ = _
  congr 1
  apply List.filter_congr
  intro i hi
  have hlt := h.wf.if_lt i (hL i hi)
  have e1 := a1.impl_iff a2 hlt
  have e2 := implB_iff h.wf hc i
  have e3 : ((implementedBy fuel w c).1.g.sro (implementedBy fuel w c).2).contains i = implB σ c i := by
    rw [Bool.eq_iff_iff, List.contains_iff_mem, e1, e2]
  simp only [W.isOrExtends, W.sro, e3]

/-- the two ways through the factory: the cached object is handed out (it exists and its bases are what a fresh one
would get), or a new object replaces the cache entry -/
theorem provides_cases {w : W} {σ : Spec} (h : Sim w σ) {c : Nat} (hc : c ∈ σ.classes) {fuel : Nat}
    (hf : σ.classes.idxOf c < fuel) (L : List Nat) (hL : ∀ i ∈ L, i ∈ σ.ifaces) :
    (∃ e, w.pcache.find? (·.1 == (c, L)) = some e ∧
      (implementedBy fuel w c).1.g.bases e.2 = L.filter (fun i => !implB σ c i) ++ [(implementedBy fuel w c).2] ∧
      provides fuel w c L = ((implementedBy fuel w c).1, e.2)) ∨
    ((∀ e, w.pcache.find? (·.1 == (c, L)) = some e →
        (implementedBy fuel w c).1.g.bases e.2 ≠ L.filter (fun i => !implB σ c i) ++ [(implementedBy fuel w c).2]) ∧
      provides fuel w c L = newProvides (implementedBy fuel w c).1 c L
        (L.filter (fun i => !implB σ c i) ++ [(implementedBy fuel w c).2])) := by
  obtain ⟨a1, _, _, _⟩ := sim_implementedBy fuel w c h hc hf
  have hfb := freshBases_eq h hc hf L hL
  have hw1 : (addInterfacesToCls fuel w L c).1 = (implementedBy fuel w c).1 := rfl
  have hfix := a1.g.fixed
  cases hfind : w.pcache.find? (·.1 == (c, L)) with
  | none =>
    refine Or.inr ⟨fun e he => (by cases he), ?_⟩
    unfold provides
    simp only [hfind, Option.map_none, hw1, hfb]
  | some e =>
    by_cases hb : (implementedBy fuel w c).1.g.bases e.2 = L.filter (fun i => !implB σ c i) ++ [(implementedBy fuel w c).2]
    · refine Or.inl ⟨e, rfl, hb, ?_⟩
      unfold provides
      simp only [hfind, Option.map_some, hw1, hfb, usable, hfix, if_true, hb, beq_self_eq_true]
    · refine Or.inr ⟨fun e' he' => (by cases he'; exact hb), ?_⟩
      unfold provides
      have : ((implementedBy fuel w c).1.g.bases e.2 == L.filter (fun i => !implB σ c i) ++ [(implementedBy fuel w c).2]) = false := by
        simpa using hb
      simp only [hfind, Option.map_some, hw1, hfb, usable, hfix, if_true, this]

/-- the interfaces in the resolution order of a `Provides` object with bases `K ++ [implementedBy(c)]` -/
theorem pnode_iff {w : W} {σ : Spec} (h : Sim w σ) {p c s : Nat} {K : List Nat} (hp : 1000 ≤ p)
    (hs : (w.cls c).spec = some s) (hb : w.g.bases p = K ++ [s]) (hK : ∀ x ∈ K, x ∈ σ.ifaces) {i : Nat}
    (hi : i < 1000) : i ∈ w.g.sro p ↔ (Up σ K i ∨ Impl σ c i) := by
  rw [h.mem_sro]
  constructor
  · rintro (hr | rfl)
    · rcases reach_iff.mp hr with h1 | ⟨b, hb', hbi⟩
      · omega'
      · rw [hb] at hb'
        rcases List.mem_append.mp hb' with hk | hk
        · have hblt := h.wf.if_lt b (hK b hk)
          exact Or.inl (Or.inr ⟨b, hk, (h.reach_iface hblt).mp hbi⟩)
        · simp at hk; subst hk
          exact Or.inr (h.reach_impl b _ i hs hi hbi)
    · exact Or.inl (Or.inl rfl)
  · rintro ((rfl | ⟨x, hx, hr⟩) | hI)
    · exact Or.inr rfl
    · have hxlt := h.wf.if_lt x (hK x hx)
      exact Or.inl (Reach.step (by rw [hb]; simp [hx]) ((h.reach_iface hxlt).mpr hr))
    · rcases h.impl_reach hI s hs with hr | h0
      · exact Or.inl (Reach.step (by rw [hb]; simp) hr)
      · exact Or.inr h0

/-- what the object returned by the factory `Provides(c, *L)` reports, in any simulated world -/
theorem provides_reports {w : W} {σ : Spec} (h : Sim w σ) {c : Nat} (hc : c ∈ σ.classes) {fuel : Nat}
    (hf : σ.classes.idxOf c < fuel) (L : List Nat) (hL : ∀ i ∈ L, i ∈ σ.ifaces) (hnd : L.Nodup) {i : Nat}
    (hi : i < 1000) :
    i ∈ (provides fuel w c L).1.sro (provides fuel w c L).2 ↔
      (Up σ (L.filter fun i => !implB σ c i) i ∨ Impl σ c i) := by
  obtain ⟨a1, a2, ⟨s, a3, a4⟩, _, _⟩ := sim_provides h hc hf L hL hnd
  exact pnode_iff a1 a2.1 a3 a4 (fun x hx => hL x (List.mem_filter.mp hx).1) hi

/-! ## 2. what the other operations leave alone: the `Provides` cache and the instances -/

structure PFrame (w w' : W) : Prop where
  pcache : w'.pcache = w.pcache
  inst : w'.inst = w.inst

theorem PFrame.refl (w : W) : PFrame w w := ⟨rfl, rfl⟩
theorem PFrame.trans {w w' w'' : W} (h1 : PFrame w w') (h2 : PFrame w' w'') : PFrame w w'' :=
  ⟨h2.pcache.trans h1.pcache, h2.inst.trans h1.inst⟩

theorem pframe_implementedBy (f : Nat) (w : W) (c : Nat) : PFrame w (implementedBy f w c).1 :=
  ⟨(implementedBy_frame f w c).1, (implementedBy_frame f w c).2.1⟩

theorem pframe_addBaseSpecs (fuel : Nat) : ∀ (bs : List Nat) (w : W) (acc : List Nat),
    PFrame w (addBaseSpecs fuel w bs acc).1 := by
  intro bs
  induction bs with
  | nil => intro w acc; exact PFrame.refl w
  | cons b t ih => intro w acc; simp only [addBaseSpecs]; exact (pframe_implementedBy fuel w b).trans (ih _ _)

theorem pframe_declareOn (fuel : Nat) (w : W) (c s : Nat) (before after : List Nat) :
    PFrame w (declareOn fuel w c s before after) := by
  rw [declareOn_eq]
  generalize hwb : (if (w.cls c).inherit then addBaseSpecs fuel w (w.cls c).pyBases (newDeclared w c s before after)
              else (w, newDeclared w c s before after)) = wb
  have h1 : PFrame w wb.1 := by
    rw [← hwb]; split
    · exact pframe_addBaseSpecs _ _ _ _
    · exact PFrame.refl w
  exact h1.trans ⟨rfl, rfl⟩

theorem pframe_ordered (fuel : Nat) (w : W) (c : Nat) (before after : List Nat) :
    PFrame w (classImplementsOrdered fuel w c before after) :=
  (pframe_implementedBy fuel w c).trans (pframe_declareOn _ _ _ _ _ _)

theorem pframe_providedBy (fuel : Nat) (w : W) (o : Nat) : PFrame w (providedBy fuel w o).1 := by
  unfold providedBy; split
  · exact PFrame.refl w
  · exact pframe_implementedBy _ _ _

/-- the steps that are not instance declarations or instance creations -/
theorem pframe_step (fuel : Nat) (w : W) (op : HOp) (h1 : instTarget op = none) : PFrame w (stepW fuel w op) := by
  cases op with
  | iface i bs => exact ⟨rfl, rfl⟩
  | cls c pb => exact ⟨rfl, rfl⟩
  | classImplements c L => exact (pframe_implementedBy fuel w c).trans (pframe_ordered _ _ _ _ _)
  | classImplementsOnly c L =>
    exact (pframe_implementedBy fuel w c).trans (PFrame.trans
      (w' := resetDecl (implementedBy fuel w c).1 c (implementedBy fuel w c).2) ⟨rfl, rfl⟩ (pframe_ordered _ _ _ _ _))
  | classImplementsFirst c i => exact pframe_ordered _ _ _ _ _
  | qImpl c => exact pframe_implementedBy _ _ _
  | qProv o => exact pframe_providedBy _ _ _
  | inst _ _ => simp [instTarget] at h1
  | directlyProvides _ _ => simp [instTarget] at h1
  | alsoProvides _ _ => simp [instTarget] at h1
  | noLongerProvides _ _ => simp [instTarget] at h1

/-! ## 3. a live instance declaration and its cache entry -/

/-- instance `o` holds the declaration `p`, built with the arguments `(type(o), *L)`; the entry of the weak cache
`InstanceDeclarations` for these arguments points to `p`; and the class implies the same members of `L` as when `p` was
built (`K o`, the bases of `p`, is `L` minus what the class implies) -/
structure Live (w : W) (σ : Spec) (o : Nat) (L : List Nat) (p : Nat) : Prop where
  held : (w.inst o).prov = some p
  entry : (w.pcache.find? (·.1 == (σ.clsOf o, L))).map (·.2) = some p
  settled : σ.Kl o = L.filter (fun i => !implB σ (σ.clsOf o) i)
  args_if : ∀ i ∈ L, i ∈ σ.ifaces

theorem find_map_some {cache : List ((Nat × List Nat) × Nat)} {key : Nat × List Nat} {p : Nat}
    (h : (cache.find? (·.1 == key)).map (·.2) = some p) : ∃ e, cache.find? (·.1 == key) = some e ∧ e.2 = p := by
  cases hfind : cache.find? (·.1 == key) with
  | none => rw [hfind] at h; simp at h
  | some e => rw [hfind] at h; exact ⟨e, rfl, by simpa using h⟩

theorem find_filter_survive {α : Type} (p q : α → Bool) : ∀ (l : List α) {e : α}, l.find? p = some e → q e = true →
    (l.filter q).find? p = some e := by
  intro l
  induction l with
  | nil => intro e h; simp at h
  | cons a t ih =>
    intro e h hq
    rw [List.find?_cons] at h
    cases hpa : p a with
    | true =>
      rw [hpa] at h
      have : a = e := by simpa using h
      subst this
      rw [List.filter_cons_of_pos hq, List.find?_cons, hpa]
    | false =>
      rw [hpa] at h
      have iht := ih h hq
      by_cases hqa : q a = true
      · rw [List.filter_cons_of_pos hqa, List.find?_cons, hpa]; exact iht
      · rw [List.filter_cons_of_neg hqa]; exact iht

theorem find_new_same (l : List ((Nat × List Nat) × Nat)) (key : Nat × List Nat) (n : Nat) :
    ((l.filter (·.1 != key)) ++ [(key, n)]).find? (·.1 == key) = some (key, n) := by
  rw [List.find?_append]
  have : (l.filter (·.1 != key)).find? (·.1 == key) = none := by
    rw [List.find?_eq_none]
    intro x hx
    have := (List.mem_filter.mp hx).2
    simpa using this
  rw [this]; simp

theorem find_new_other (l : List ((Nat × List Nat) × Nat)) {key key' : Nat × List Nat} (n : Nat) (hk : key' ≠ key)
    {e : (Nat × List Nat) × Nat} (h : l.find? (·.1 == key') = some e) :
    ((l.filter (·.1 != key)) ++ [(key, n)]).find? (·.1 == key') = some e := by
  rw [List.find?_append, ZI.C19.find_filter_of_imp, h]; rfl
  intro x _ hx
  have : x.1 = key' := by simpa using hx
  simp [this, hk]

/-- `directlyProvides(o2, *L2)`: afterwards the cache entry for `(type(o2), *L2)` points to the object `o2` now holds;
and every other live declaration keeps its holder and its cache entry -/
theorem dp_effect {w : W} {σ : Spec} (h : Sim w σ) {o2 : Nat} (ho2 : o2 ∈ σ.insts) {fuel : Nat}
    (hf : σ.classes.idxOf (σ.clsOf o2) < fuel) (L2 : List Nat) (hL2 : ∀ i ∈ L2, i ∈ σ.ifaces) (hnd2 : L2.Nodup) :
    (((directlyProvides fuel w o2 L2).pcache.find? (·.1 == (σ.clsOf o2, L2))).map (·.2)
        = some (provides fuel w (σ.clsOf o2) L2).2) ∧
    ((directlyProvides fuel w o2 L2).inst o2).prov = some (provides fuel w (σ.clsOf o2) L2).2 ∧
    (∀ o L p, o ≠ o2 → o ∈ σ.insts → Live w σ o L p →
      ((directlyProvides fuel w o2 L2).inst o).prov = some p ∧
      ((directlyProvides fuel w o2 L2).pcache.find? (·.1 == (σ.clsOf o, L))).map (·.2) = some p) := by
  have hcls : (w.inst o2).cls = σ.clsOf o2 := h.i.icls o2
  have hc := h.wf.cls_mem o2 ho2
  obtain ⟨a1, a2, _, _⟩ := sim_implementedBy fuel w (σ.clsOf o2) h hc hf
  obtain ⟨f1, f2, f3, _, _⟩ := implementedBy_frame fuel w (σ.clsOf o2)
  obtain ⟨b1, _, _, b5, b6⟩ := sim_provides h hc hf L2 hL2 hnd2
  have hcases := provides_cases h hc hf L2 hL2
  have hw' : directlyProvides fuel w o2 L2 = collect ((provides fuel w (σ.clsOf o2) L2).1.setInst o2
      { (provides fuel w (σ.clsOf o2) L2).1.inst o2 with prov := some (provides fuel w (σ.clsOf o2) L2).2 }) := by
    unfold directlyProvides; simp only [hcls]
  generalize hr : provides fuel w (σ.clsOf o2) L2 = r at hw' b1 b5 b6 hcases
  have hinst : (directlyProvides fuel w o2 L2).inst = upd r.1.inst o2 { r.1.inst o2 with prov := some r.2 } := by
    rw [hw']; rfl
  have hmem : ∀ o, o ∈ σ.insts → o ∈ (r.1.setInst o2 { r.1.inst o2 with prov := some r.2 }).instIds := by
    intro o ho
    have ho' : o ∈ r.1.instIds := by rw [b6, h.i.iids]; exact ho
    have ho2' : o2 ∈ r.1.instIds := by rw [b6, h.i.iids]; exact ho2
    simp [W.setInst, ho2', ho']
  -- an entry whose object is held by an existing instance survives the weak-reference sweep
  have hlive : ∀ (e : (Nat × List Nat) × Nat) (key : Nat × List Nat) (o : Nat), o ∈ σ.insts →
      ((directlyProvides fuel w o2 L2).inst o).prov = some e.2 → r.1.pcache.find? (·.1 == key) = some e →
      (directlyProvides fuel w o2 L2).pcache.find? (·.1 == key) = some e := by
    intro e key o ho hheld hfind
    rw [hinst] at hheld
    rw [hw']
    show (List.filter _ r.1.pcache).find? _ = _
    apply find_filter_survive _ _ _ hfind
    simp only [Bool.or_eq_true, List.any_eq_true]
    exact Or.inl ⟨o, hmem o ho, by
      show ((upd r.1.inst o2 _ o).prov == some e.2) = true
      rw [hheld]; simp⟩
  have hheld2 : ((directlyProvides fuel w o2 L2).inst o2).prov = some r.2 := by rw [hinst, upd_same]
  -- the entry for the new declaration in the factory's cache
  have hentry2 : ∃ e, r.1.pcache.find? (·.1 == (σ.clsOf o2, L2)) = some e ∧ e.2 = r.2 := by
    rcases hcases with ⟨e, he, _, hre⟩ | ⟨_, hre⟩
    · rw [hre]; exact ⟨e, by show (implementedBy fuel w (σ.clsOf o2)).1.pcache.find? _ = _; rw [f1]; exact he, rfl⟩
    · rw [hre]
      exact ⟨_, find_new_same _ _ _, rfl⟩
  refine ⟨?_, hheld2, ?_⟩
  · obtain ⟨e, he, her⟩ := hentry2
    rw [hlive e _ o2 ho2 (by rw [hheld2, her]) he]; simp [her]
  · intro o L p hne ho hl
    have hheld : ((directlyProvides fuel w o2 L2).inst o).prov = some p := by
      rw [hinst, upd_other _ _ hne, b5]; exact hl.held
    refine ⟨hheld, ?_⟩
    obtain ⟨e', he', hep⟩ := find_map_some hl.entry
    have hfind : r.1.pcache.find? (·.1 == (σ.clsOf o, L)) = some e' := by
      rcases hcases with ⟨e, he, _, hre⟩ | ⟨hun, hre⟩
      · rw [hre]; show (implementedBy fuel w (σ.clsOf o2)).1.pcache.find? _ = _; rw [f1]; exact he'
      · rw [hre]
        by_cases hk : (σ.clsOf o, L) = (σ.clsOf o2, L2)
        · exfalso
          rw [hk] at he'
          obtain ⟨hk1, hk2⟩ := Prod.mk.inj hk
          have hp1 : ((implementedBy fuel w (σ.clsOf o2)).1.inst o).prov = some p := by rw [f2]; exact hl.held
          obtain ⟨_, _, s, hs, hb⟩ := a1.i.iprov o p hp1
          rw [hk1, a2] at hs
          have hs' : s = (implementedBy fuel w (σ.clsOf o2)).2 := (Option.some.inj hs).symm
          apply hun e' he'
          rw [hep, hb, hl.settled, hk1, hk2, hs']
        · show ((implementedBy fuel w (σ.clsOf o2)).1.pcache.filter _ ++ _).find? _ = _
          rw [f1]
          exact find_new_other _ _ hk he'
    rw [hlive e' _ o ho (by rw [hheld, hep]) hfind]; simp [hep]

/-! ## 4. the arguments of a declaration; one step -/

/-- the instance a step declares on and the argument list `L` the step passes to the factory `Provides(type(o), *L)` —
what `Provides.__reduce__` of the resulting object returns (after `type(o)`) -/
def declArgs (σ : Spec) : HOp → Option (Nat × List Nat)
  | .directlyProvides o L => some (o, L)
  | .alsoProvides o L => some (o, σ.Kl o ++ L)
  | .noLongerProvides o j => some (o, (σ.Kl o).filter fun i => !upB σ [i] j)
  | _ => none

theorem remaining_eq {w : W} {σ : Spec} (h : Sim w σ) (o j : Nat) :
    (directlyProvidedBy w o).filter (fun i => !(w.isOrExtends i j)) = (σ.Kl o).filter (fun i => !upB σ [i] j) := by
  rw [h.dpb o]
  apply List.filter_congr
  intro i hi
  have hlt := h.wf.if_lt i (h.wf.K_if o i hi)
  have e : w.isOrExtends i j = upB σ [i] j := by
    rw [Bool.eq_iff_iff, upB_iff h.wf]
    simp only [W.isOrExtends, W.sro, List.contains_iff_mem]
    rw [h.mem_sro, h.reach_iface hlt]
    simp only [Up, List.mem_singleton, exists_eq_left]
    exact Or.comm
  rw [e]

/-- every instance declaration is `directlyProvides(o, *L)` for `(o, L) = declArgs` (followed, for `noLongerProvides`,
by a `providedBy` query) -/
theorem declArgs_step {w : W} {σ : Spec} (h : Sim w σ) {op : HOp} {o2 : Nat} {L2 : List Nat}
    (hd : declArgs σ op = some (o2, L2)) (hw : WFop σ op) (fuel : Nat) :
    o2 ∈ σ.insts ∧ L2.Nodup ∧ (∀ i ∈ L2, i ∈ σ.ifaces) ∧
    specStep σ op = { σ with K := upd σ.K o2 (some (L2.filter fun i => !implB σ (σ.clsOf o2) i)) } ∧
    PFrame (directlyProvides fuel w o2 L2) (stepW fuel w op) := by
  cases op with
  | directlyProvides o L =>
    simp only [declArgs, Option.some.injEq, Prod.mk.injEq] at hd
    obtain ⟨rfl, rfl⟩ := hd
    exact ⟨hw.1, hw.2.2, hw.2.1, rfl, PFrame.refl _⟩
  | alsoProvides o L =>
    simp only [declArgs, Option.some.injEq, Prod.mk.injEq] at hd
    obtain ⟨rfl, rfl⟩ := hd
    refine ⟨hw.1, hw.2.2, fun i hi => ?_, rfl, ?_⟩
    · rcases List.mem_append.mp hi with hi | hi
      · exact h.wf.K_if o i hi
      · exact hw.2.1 i hi
    · show PFrame _ (alsoProvides fuel w o L)
      unfold alsoProvides; rw [h.dpb o]; exact PFrame.refl _
  | noLongerProvides o j =>
    simp only [declArgs, Option.some.injEq, Prod.mk.injEq] at hd
    obtain ⟨rfl, rfl⟩ := hd
    refine ⟨hw, (h.wf.K_nodup o).filter _, fun i hi => h.wf.K_if o i (List.mem_filter.mp hi).1, rfl, ?_⟩
    show PFrame _ (noLongerProvides fuel w o j).1
    unfold noLongerProvides
    simp only []
    rw [remaining_eq h o j]
    exact pframe_providedBy _ _ _
  | iface _ _ => simp [declArgs] at hd
  | cls _ _ => simp [declArgs] at hd
  | inst _ _ => simp [declArgs] at hd
  | classImplements _ _ => simp [declArgs] at hd
  | classImplementsOnly _ _ => simp [declArgs] at hd
  | classImplementsFirst _ _ => simp [declArgs] at hd
  | qImpl _ => simp [declArgs] at hd
  | qProv _ => simp [declArgs] at hd

theorem ifaces_step {σ : Spec} (op : HOp) {i : Nat} (hi : i ∈ σ.ifaces) : i ∈ (specStep σ op).ifaces := by
  cases op <;> simp [specStep, hi]

/-- the class-level answers do not depend on the direct declarations -/
theorem implL_K (σ : Spec) (K' : Nat → Option (List Nat)) : ∀ (f : Nat) (c : Nat),
    implL f { σ with K := K' } c = implL f σ c := by
  intro f
  induction f with
  | zero => intro c; rfl
  | succ f ih =>
    intro c
    simp only [implL]
    have e1 : reachL { σ with K := K' } = reachL σ := rfl
    rw [e1]
    congr 2
    split
    · exact ZI.RO.flatMap_congr' fun b _ => ih b
    · rfl

theorem implB_K (σ : Spec) (K' : Nat → Option (List Nat)) (c i : Nat) : implB { σ with K := K' } c i = implB σ c i := by
  unfold implB; rw [implL_K]

/-- **the step that builds the declaration**: afterwards it is live -/
theorem live_init {w : W} {σ : Spec} (h : Sim w σ) {op : HOp} {o : Nat} {L : List Nat}
    (hd : declArgs σ op = some (o, L)) (hw : WFop σ op) {fuel : Nat} (hf : σ.classes.length ≤ fuel) :
    Live (stepW fuel w op) (specStep σ op) o L (provides fuel w (σ.clsOf o) L).2 := by
  obtain ⟨ho, hnd, hL, hσ, hpf⟩ := declArgs_step h hd hw fuel
  have hidx : σ.classes.idxOf (σ.clsOf o) < fuel := by
    have := List.idxOf_lt_length_of_mem (h.wf.cls_mem o ho); omega
  obtain ⟨d1, d2, _⟩ := dp_effect h ho hidx L hL hnd
  rw [hσ]
  refine ⟨?_, ?_, ?_, hL⟩
  · rw [hpf.inst]; exact d2
  · rw [hpf.pcache]; exact d1
  · show (upd σ.K o _ o).getD [] = _
    rw [upd_same]
    simp only [Option.getD_some]
    apply List.filter_congr
    intro i _
    exact congrArg (!·) (implB_K σ _ (σ.clsOf o) i).symm

/-- **any later step that does not declare on `o`** keeps the declaration live, provided the class still implies the same
arguments afterwards.  (If the step is `directlyProvides(o2, *L)` for another instance of the same class with the same
arguments, the factory finds `p` in its cache and — the bases being what a fresh object would get — hands out `p`
itself, so the entry keeps pointing to `p`.) -/
theorem live_step {w : W} {σ : Spec} (h : Sim w σ) {o p : Nat} {L : List Nat} (ho : o ∈ σ.insts) (hl : Live w σ o L p)
    (op : HOp) (hw : WFop σ op) {fuel : Nat} (hf : σ.classes.length ≤ fuel)
    (hno : ∀ L', declArgs σ op ≠ some (o, L'))
    (hset : (specStep σ op).Kl o = L.filter (fun i => !implB (specStep σ op) ((specStep σ op).clsOf o) i)) :
    Live (stepW fuel w op) (specStep σ op) o L p := by
  have hcl := ZI.C19.clsOf_step op hw ho
  have hif : ∀ i ∈ L, i ∈ (specStep σ op).ifaces := fun i hi => ifaces_step op (hl.args_if i hi)
  cases hd : declArgs σ op with
  | some a =>
    obtain ⟨o2, L2⟩ := a
    have hne : o ≠ o2 := fun e => hno L2 (by rw [hd, e])
    obtain ⟨ho2, hnd2, hL2, _, hpf⟩ := declArgs_step h hd hw fuel
    have hidx : σ.classes.idxOf (σ.clsOf o2) < fuel := by
      have := List.idxOf_lt_length_of_mem (h.wf.cls_mem o2 ho2); omega
    obtain ⟨_, _, d3⟩ := dp_effect h ho2 hidx L2 hL2 hnd2
    obtain ⟨e1, e2⟩ := d3 o L p hne ho hl
    exact ⟨by rw [hpf.inst]; exact e1, by rw [hpf.pcache, hcl]; exact e2, hset, hif⟩
  | none =>
    by_cases hinst : ∃ o' c, op = HOp.inst o' c
    · obtain ⟨o', c, rfl⟩ := hinst
      have hne : o ≠ o' := fun e => hw.1 (e ▸ ho)
      refine ⟨?_, ?_, hset, hif⟩
      · show Inst.prov (upd w.inst o' _ o) = _
        rw [upd_other _ _ hne]; exact hl.held
      · rw [hcl]; exact hl.entry
    · have ht : instTarget op = none := by
        cases op <;> simp [instTarget, declArgs] at hd hinst ⊢
      have hpf := pframe_step fuel w op ht
      exact ⟨by rw [hpf.inst]; exact hl.held, by rw [hpf.pcache, hcl]; exact hl.entry, hset, hif⟩

/-! ## 5. histories -/

/-- the continuation never declares on `o` again, and after each of its steps the class implies the same members of
the argument list `L` as when the declaration was built (`K o`, which is `L` minus what the class implied then, is
still `L` minus what the class implies) -/
def Quiet (o : Nat) (L : List Nat) : Spec → List HOp → Prop
  | _, [] => True
  | σ, op :: rest => (declArgs σ op).map (·.1) ≠ some o ∧
      (specStep σ op).Kl o = L.filter (fun i => !implB (specStep σ op) ((specStep σ op).clsOf o) i) ∧
      Quiet o L (specStep σ op) rest

instance (o : Nat) (L : List Nat) : ∀ (σ : Spec) (h : List HOp), Decidable (Quiet o L σ h)
  | _, [] => by unfold Quiet; infer_instance
  | σ, op :: rest => by
    unfold Quiet
    have := instDecidableQuiet o L (specStep σ op) rest
    infer_instance

theorem classes_len_runFrom : ∀ (h : List HOp) (σ : Spec), σ.classes.length ≤ (specRunFrom σ h).classes.length := by
  intro h
  induction h with
  | nil => intro σ; exact Nat.le_refl _
  | cons op rest ih => intro σ; exact Nat.le_trans (ZI.C19.classes_len_step σ op) (ih (specStep σ op))

theorem mono_runFrom : ∀ (h : List HOp) (σ : Spec),
    (∀ i ∈ σ.ifaces, i ∈ (specRunFrom σ h).ifaces) ∧ (∀ o ∈ σ.insts, o ∈ (specRunFrom σ h).insts) := by
  intro h
  induction h with
  | nil => intro σ; exact ⟨fun _ h => h, fun _ h => h⟩
  | cons op rest ih =>
    intro σ
    obtain ⟨a, b⟩ := ih (specStep σ op)
    exact ⟨fun i hi => a i (ifaces_step op hi), fun o ho => b o (ZI.C19.insts_step op ho)⟩

theorem live_run {fuel o p : Nat} {L : List Nat} : ∀ (h2 : List HOp) (w : W) (σ : Spec), Sim w σ → o ∈ σ.insts →
    Live w σ o L p → WFFrom σ h2 → (specRunFrom σ h2).classes.length ≤ fuel → Quiet o L σ h2 →
    Sim (runFrom fuel w h2) (specRunFrom σ h2) ∧ o ∈ (specRunFrom σ h2).insts ∧
    Live (runFrom fuel w h2) (specRunFrom σ h2) o L p := by
  intro h2
  induction h2 with
  | nil => intro w σ hs ho hl _ _ _; exact ⟨hs, ho, hl⟩
  | cons op rest ih =>
    intro w σ hs ho hl hw hf hq
    have hf1 : σ.classes.length ≤ fuel :=
      Nat.le_trans (Nat.le_trans (ZI.C19.classes_len_step σ op) (classes_len_runFrom rest (specStep σ op))) hf
    obtain ⟨q1, q2, q3⟩ := hq
    have hno : ∀ L', declArgs σ op ≠ some (o, L') := fun L' e => q1 (by rw [e]; rfl)
    exact ih (stepW fuel w op) (specStep σ op) (sim_step hs op hw.1 hf1) (ZI.C19.insts_step op ho)
      (live_step hs ho hl op hw.1 hf1 hno q2) hw.2 hf q3

/-- a live declaration is what the factory returns for its arguments, and the call changes nothing -/
theorem live_identical {w : W} {σ : Spec} (h : Sim w σ) {o p : Nat} {L : List Nat} (ho : o ∈ σ.insts)
    (hl : Live w σ o L p) {fuel : Nat} (hf : σ.classes.length ≤ fuel) : provides fuel w (σ.clsOf o) L = (w, p) := by
  have hc := h.wf.cls_mem o ho
  have hidx : σ.classes.idxOf (σ.clsOf o) < fuel := by have := List.idxOf_lt_length_of_mem hc; omega
  obtain ⟨f, rfl⟩ : ∃ f, fuel = f + 1 := ⟨fuel - 1, by omega⟩
  obtain ⟨_, _, s, hs, hb⟩ := h.i.iprov o p hl.held
  have himp : implementedBy (f+1) w (σ.clsOf o) = (w, s) := implementedBy_some hs
  obtain ⟨e', he', hep⟩ := find_map_some hl.entry
  rcases provides_cases h hc hidx L hl.args_if with ⟨e, he, _, hre⟩ | ⟨hun, _⟩
  · rw [he'] at he
    have : e' = e := Option.some.inj he
    subst this
    rw [hre, himp, hep]
  · exfalso
    apply hun e' he'
    rw [himp, hep, hb, hl.settled]

/-! ## 6. C13 for instance declarations: the main theorems -/

/-- **C13_provides_same.**  `Provides.__reduce__` returns `(Provides, (cls, *L))`; unpickling calls the factory
`Provides(cls, *L)` again.  After ANY well-formed history, for an existing instance `o` and any duplicate-free list `L` of
existing interfaces, the specification the factory returns for `(type(o), *L)` in the current world lists exactly
`Up (L minus what type(o) implies now) ∪ Impl (type(o))`.  Hence, if the class implies the same members of `L` as when
`o`'s declaration was built from `L` — **G-settled**: `K o = L.filter (¬ Impl now)` — it lists exactly `Prov σ o`, i.e.
exactly what the declaration `p` held by `o` lists: the pickle round trip gives an equivalent declaration.

Guards: `WFHist h`, the budget (as `C01_exact`); `L.Nodup` and `L ⊆ ifaces`: inherited from `C01Hist.sim_provides`
(G-nodup of `Graph2Proofs.WFOp`; for the argument list of a declaration built by a well-formed step they hold
automatically, `C13_unpickle_same`); G-settled: without it the second part is false — `classImplements(C, IA)`, then
`directlyProvides(o, IA)` (redundant when made: `IA` is dropped from the bases of `p`, `K o = []`), then
`classImplementsOnly(C)` (no `IA`): `p` does not list `IA` (C01's one permitted loss), the object unpickled from
`(C, IA)` does (second `example` of section 7). -/
theorem C13_provides_same (h : List HOp) (hw : WFHist h) (fuel : Nat) (hf : (specRun h).classes.length ≤ fuel)
    (o : Nat) (ho : o ∈ (specRun h).insts) (L : List Nat) (hL : ∀ i ∈ L, i ∈ (specRun h).ifaces) (hnd : L.Nodup) :
    (∀ i, isIface i = true →
      (i ∈ (provides fuel (run fuel h) ((specRun h).clsOf o) L).1.sro (provides fuel (run fuel h) ((specRun h).clsOf o) L).2 ↔
        (Up (specRun h) (L.filter fun i => !implB (specRun h) ((specRun h).clsOf o) i) i ∨
          Impl (specRun h) ((specRun h).clsOf o) i))) ∧
    ((specRun h).Kl o = L.filter (fun i => !implB (specRun h) ((specRun h).clsOf o) i) →
      (∀ i, isIface i = true →
        (i ∈ (provides fuel (run fuel h) ((specRun h).clsOf o) L).1.sro (provides fuel (run fuel h) ((specRun h).clsOf o) L).2 ↔
          Prov (specRun h) o i)) ∧
      (∀ p, ((run fuel h).inst o).prov = some p → ∀ i, isIface i = true →
        (i ∈ (provides fuel (run fuel h) ((specRun h).clsOf o) L).1.sro (provides fuel (run fuel h) ((specRun h).clsOf o) L).2 ↔
          i ∈ (run fuel h).sro p))) := by
  have hs := sim_run h hw hf
  have hc := hs.wf.cls_mem o ho
  have hidx : (specRun h).classes.idxOf ((specRun h).clsOf o) < fuel := by
    have := List.idxOf_lt_length_of_mem hc; omega
  have key := fun i (hi : isIface i = true) => provides_reports hs hc hidx L hL hnd ((isIface_iff i).mp hi)
  refine ⟨key, fun hset => ?_⟩
  have key2 : ∀ i, isIface i = true →
      (i ∈ (provides fuel (run fuel h) ((specRun h).clsOf o) L).1.sro (provides fuel (run fuel h) ((specRun h).clsOf o) L).2 ↔
        Prov (specRun h) o i) := by
    intro i hi; rw [key i hi, ← hset]; rfl
  exact ⟨key2, fun p hp i hi => by rw [key2 i hi]; exact (hs.prov_iff hp ((isIface_iff i).mp hi)).symm⟩

/-- **C13_unpickle_same**: the same for the argument list `L` of a declaration step `dop` of the history itself
(`directlyProvides(o, *L)`; `alsoProvides(o, *L')` with `L = directlyProvidedBy(o) ++ L'`; `noLongerProvides(o, j)` with
`L` = the remaining interfaces) — no guards on `L`: it is duplicate-free and consists of existing interfaces because the
step was well-formed.  When no later step declares on `o`, `(type(o), *L)` is what `o.__provides__.__reduce__()`
returns. -/
theorem C13_unpickle_same (h1 h2 : List HOp) (dop : HOp) (o : Nat) (L : List Nat)
    (hd : declArgs (specRun h1) dop = some (o, L)) (hw : WFHist (h1 ++ dop :: h2)) (fuel : Nat)
    (hf : (specRun (h1 ++ dop :: h2)).classes.length ≤ fuel)
    (hset : (specRun (h1 ++ dop :: h2)).Kl o
      = L.filter (fun i => !implB (specRun (h1 ++ dop :: h2)) ((specRun (h1 ++ dop :: h2)).clsOf o) i)) :
    ∀ i, isIface i = true →
      (i ∈ (provides fuel (run fuel (h1 ++ dop :: h2)) ((specRun (h1 ++ dop :: h2)).clsOf o) L).1.sro
            (provides fuel (run fuel (h1 ++ dop :: h2)) ((specRun (h1 ++ dop :: h2)).clsOf o) L).2 ↔
        Prov (specRun (h1 ++ dop :: h2)) o i) := by
  obtain ⟨hw1, hwd, hw2⟩ := (WFFrom_append h1 (dop :: h2) Spec.init).mp hw
  have e1 : specRun (h1 ++ dop :: h2) = specRunFrom (specStep (specRun h1) dop) h2 := by
    rw [specRun_append]; rfl
  have hf1 : (specRun h1).classes.length ≤ fuel := by
    rw [e1] at hf
    exact Nat.le_trans (Nat.le_trans (ZI.C19.classes_len_step _ dop) (classes_len_runFrom h2 _)) hf
  obtain ⟨ho, hnd, hL, _, _⟩ := declArgs_step (sim_run h1 hw1 hf1) hd hwd fuel
  obtain ⟨m1, m2⟩ := mono_runFrom h2 (specStep (specRun h1) dop)
  have ho' : o ∈ (specRun (h1 ++ dop :: h2)).insts := by rw [e1]; exact m2 o (ZI.C19.insts_step dop ho)
  have hL' : ∀ i ∈ L, i ∈ (specRun (h1 ++ dop :: h2)).ifaces := fun i hi => by
    rw [e1]; exact m1 i (ifaces_step dop (hL i hi))
  exact ((C13_provides_same _ hw fuel hf o ho' L hL' hnd).2 hset).1

/-- **C13_provides_identical.**  In a well-formed history `h1 ++ dop :: h2` where the step `dop` builds the declaration
of instance `o` from the argument list `L` (`declArgs`) and the continuation `h2` is quiet for it (`Quiet`: no later
declaration on `o`, so `o` still holds that object `p`; and after every step of `h2` the class implies the same members
of `L` as when `p` was built), the factory call `Provides(type(o), *L)` made by unpickling returns `p` ITSELF and leaves
the world untouched: the weak cache still maps the arguments to `p` (it is alive: `o` holds it) and `p`'s bases are what a
fresh object would get.

The guard "after EVERY step" cannot be weakened to G-settled at the end: if in between the class implied a member of `L`
and another instance of the class was declared with the same arguments, the factory (correctly) refused to hand out `p`
and REPLACED the cache entry; when the class declaration is reverted later, G-settled holds again but the entry points to
the other object (third `example` of section 7). -/
theorem C13_provides_identical (h1 h2 : List HOp) (dop : HOp) (o : Nat) (L : List Nat)
    (hd : declArgs (specRun h1) dop = some (o, L)) (hw : WFHist (h1 ++ dop :: h2)) (fuel : Nat)
    (hf : (specRun (h1 ++ dop :: h2)).classes.length ≤ fuel)
    (hq : Quiet o L (specStep (specRun h1) dop) h2) :
    ∃ p, ((run fuel (h1 ++ dop :: h2)).inst o).prov = some p ∧
      provides fuel (run fuel (h1 ++ dop :: h2)) ((specRun (h1 ++ dop :: h2)).clsOf o) L
        = (run fuel (h1 ++ dop :: h2), p) := by
  obtain ⟨hw1, hwd, hw2⟩ := (WFFrom_append h1 (dop :: h2) Spec.init).mp hw
  have e1 : specRun (h1 ++ dop :: h2) = specRunFrom (specStep (specRun h1) dop) h2 := by
    rw [specRun_append]; rfl
  have e2 : run fuel (h1 ++ dop :: h2) = runFrom fuel (stepW fuel (run fuel h1) dop) h2 := by
    simp [ZI.C01.run, runFrom, List.foldl_append]
  rw [e1] at hf ⊢
  rw [e2]
  have hf2 : (specStep (specRun h1) dop).classes.length ≤ fuel := Nat.le_trans (classes_len_runFrom h2 _) hf
  have hf1 : (specRun h1).classes.length ≤ fuel := Nat.le_trans (ZI.C19.classes_len_step _ dop) hf2
  have hs1 := sim_run h1 hw1 hf1
  obtain ⟨ho, _, _, _, _⟩ := declArgs_step hs1 hd hwd fuel
  have hl := live_init hs1 hd hwd hf1
  obtain ⟨a, b, c⟩ := live_run h2 _ _ (sim_step hs1 dop hwd hf1) (ZI.C19.insts_step dop ho) hl hw2 hf hq
  exact ⟨_, c.held, live_identical a b c hf⟩

/-! ## 7. non-vacuity and the counterexamples behind the guards -/

/-- interfaces `IA` = 1, `IB` = 2; classes `K(object)` = 1, `K2(K)` = 2; instances 1, 2 of `K`, 3 of `K2` -/
def hB1 : List HOp := [.iface 1 [0], .iface 2 [0], .cls 1 [0], .cls 2 [1], .inst 1 1, .inst 2 1, .inst 3 2]
/-- the declaration under test: `directlyProvides(o1, IA)` -/
def dopB : HOp := .directlyProvides 1 [1]
/-- a quiet continuation: a class declaration on `K` about another interface, the SAME declaration call on another
instance of `K` (the factory hands out `p` again), declarations on other objects, a query, a declaration on a subclass -/
def hB2 : List HOp :=
  [.classImplements 1 [2], .directlyProvides 2 [1], .directlyProvides 3 [2], .qProv 1, .classImplements 2 [1]]

/-- the hypotheses of `C13_provides_identical` / `C13_unpickle_same` are satisfiable, and the model agrees: the factory
returns the object `o1` holds (id 1002) without allocating anything -/
example : WFHist (hB1 ++ dopB :: hB2) ∧ (specRun (hB1 ++ dopB :: hB2)).classes.length ≤ 64 ∧
    declArgs (specRun hB1) dopB = some (1, [1]) ∧ Quiet 1 [1] (specStep (specRun hB1) dopB) hB2 ∧
    (specRun (hB1 ++ dopB :: hB2)).Kl 1
      = [1].filter (fun i => !implB (specRun (hB1 ++ dopB :: hB2)) ((specRun (hB1 ++ dopB :: hB2)).clsOf 1) i) ∧
    ((run 64 (hB1 ++ dopB :: hB2)).inst 1).prov = some 1002 ∧
    (provides 64 (run 64 (hB1 ++ dopB :: hB2)) 1 [1]).2 = 1002 ∧
    (provides 64 (run 64 (hB1 ++ dopB :: hB2)) 1 [1]).1.next = (run 64 (hB1 ++ dopB :: hB2)).next := by
  refine ⟨?_, ?_, ?_, ?_, ?_, ?_, ?_, ?_⟩ <;> decide +kernel

/-- G-settled is needed in `C13_provides_same`: `classImplements(K, IA); directlyProvides(o, IA)` (redundant, dropped);
`classImplementsOnly(K)`: the held declaration does not list `IA`, the one unpickled from its arguments `(K, IA)` does -/
def hS : List HOp :=
  [.iface 1 [0], .cls 1 [0], .inst 1 1, .classImplements 1 [1], .directlyProvides 1 [1], .classImplementsOnly 1 []]
example : WFHist hS ∧ declArgs (specRun (hS.take 4)) (.directlyProvides 1 [1]) = some (1, [1]) ∧
    (specRun hS).Kl 1 ≠ [1].filter (fun i => !implB (specRun hS) ((specRun hS).clsOf 1) i) ∧
    ((run 64 hS).inst 1).prov = some 1002 ∧ 1 ∉ (run 64 hS).sro 1002 ∧
    1 ∈ (provides 64 (run 64 hS) 1 [1]).1.sro (provides 64 (run 64 hS) 1 [1]).2 := by
  refine ⟨?_, ?_, ?_, ?_, ?_, ?_⟩ <;> decide +kernel

/-- "quiet after EVERY step" is needed in `C13_provides_identical`: `directlyProvides(o1, IA)`; `classImplements(K, IA)`;
`directlyProvides(o2, IA)` (the factory refuses `p` — its bases are no longer what a fresh object gets — and replaces the
cache entry); `classImplementsOnly(K)`: G-settled holds again at the end, `o1` still holds `p` = 1002, but the factory
now returns a brand-new object -/
def hN : List HOp :=
  [.iface 1 [0], .cls 1 [0], .inst 1 1, .inst 2 1, .directlyProvides 1 [1], .classImplements 1 [1],
   .directlyProvides 2 [1], .classImplementsOnly 1 []]
example : WFHist hN ∧ declArgs (specRun (hN.take 4)) (.directlyProvides 1 [1]) = some (1, [1]) ∧
    (specRun hN).Kl 1 = [1].filter (fun i => !implB (specRun hN) ((specRun hN).clsOf 1) i) ∧
    ¬ Quiet 1 [1] (specRun (hN.take 5)) (hN.drop 5) ∧
    ((run 64 hN).inst 1).prov = some 1002 ∧ (provides 64 (run 64 hN) 1 [1]).2 = (run 64 hN).next := by
  refine ⟨?_, ?_, ?_, ?_, ?_, ?_⟩ <;> decide +kernel

#print axioms C13_provides_same
#print axioms C13_unpickle_same
#print axioms C13_provides_identical
#print axioms live_step
#print axioms dp_effect
end ZI.C13H
