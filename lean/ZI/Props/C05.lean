import ZI.CacheModel
/-! # C05 — lookup caches are transparent

Model: `ZI.Cache` — one lookup object as an abstract cache machine: registrations `R` of the whole chain, cached
resolution orders `sro`, one cache and the set of specifications the object is subscribed to.  `U reg sro key` is the
uncached answer; it reads `sro` only at the specifications of the key (`hloc`, which C04's walk satisfies: `_lookup`
reads `__sro__` of the required specifications only).  Mutations of the registry chain end in `changed` (cache and
subscriptions dropped); a re-basing reaches the object iff it is subscribed to a specification downstream of the re-based
one, and changes cached orders only downstream (`WFOp`; this is C02's propagation theorem).
The integrated `ZI.World` model (all three caches, both flavours, declarations, weak tables) is what is compared with the
real code; its refinement to this machine is stated in DESIGN.md and not yet proved. -/
namespace ZI.Cache
variable {R : Type} (U : R → Sro → Key → Ans)

/-- every operation of a history is well-formed in the state it is applied to -/
def WFHist (s : St R) : List (Op R) → Prop
  | [] => True
  | op :: rest => WFOp s op ∧ WFHist (step U s op).1 rest

theorem inv_run (hloc : ∀ r (σ σ' : Sro) k, (∀ x ∈ k, σ x = σ' x) → U r σ k = U r σ' k) :
    ∀ (ops : List (Op R)) (s : St R), Inv U s → WFHist U s ops → Inv U (run U s ops) := by
  intro ops
  induction ops with
  | nil => intro s h _; exact h
  | cons op rest ih =>
    intro s h hw
    exact ih _ (inv_step U hloc s op h hw.1) hw.2

/-- the empty machine: nothing cached, nothing subscribed -/
def fresh (r : R) (σ : Sro) : St R := { reg := r, sro := σ, cache := [], subs := [] }

theorem inv_fresh (r : R) (σ : Sro) : Inv U (fresh r σ) := by
  intro k a h; simp [fresh] at h

theorem wf_erase (s1 s2 : St R) (h2 : s1.sro = s2.sro) :
    ∀ ops, WFHist U s1 ops → WFHist U s2 (eraseLookups ops) := by
  intro ops
  induction ops generalizing s1 s2 with
  | nil => intro _; trivial
  | cons op rest ih =>
    intro hw
    cases op with
    | mutate r =>
      simp only [eraseLookups, List.filter_cons]
      exact ⟨trivial, ih (step U s1 (.mutate r)).1 (step U s2 (.mutate r)).1 h2 hw.2⟩
    | rebase sro' down =>
      simp only [eraseLookups, List.filter_cons]
      refine ⟨fun x hx => by rw [← h2]; exact hw.1 x hx, ih (step U s1 (.rebase sro' down)).1 (step U s2 (.rebase sro' down)).1 ?_ hw.2⟩
      simp only [step]; split <;> split <;> rfl
    | lookup k =>
      simp only [eraseLookups, List.filter_cons]
      apply ih (step U s1 (.lookup k)).1 s2 ?_ hw.2
      simp only [step]; split <;> simp [h2]

/-- **C05_transparent** (abstract machine): after ANY well-formed history `h` of mutations, re-basings and lookups, a
lookup returns exactly what it returns after the same history with every earlier lookup erased -/
theorem C05_transparent (hloc : ∀ r (σ σ' : Sro) k, (∀ x ∈ k, σ x = σ' x) → U r σ k = U r σ' k)
    (r : R) (σ : Sro) (h : List (Op R)) (hw : WFHist U (fresh r σ) h) (k : Key) :
    (step U (run U (fresh r σ) h) (.lookup k)).2 = (step U (run U (fresh r σ) (eraseLookups h)) (.lookup k)).2 := by
  have i1 := inv_run U hloc h _ (inv_fresh U r σ) hw
  have i2 := inv_run U hloc (eraseLookups h) _ (inv_fresh U r σ) (wf_erase U _ _ rfl h hw)
  rw [lookup_transparent U hloc _ i1 k, lookup_transparent U hloc _ i2 k]
  obtain ⟨e1, e2⟩ := run_reg_sro U (fresh r σ) h
  rw [e1, e2]

/-- what breaks it: a re-basing that does not reach a subscribed lookup object (here: the machine of a mutant that
forgets the subscription) keeps serving the old answer.  Concretely, with `U` = "is 1 in the order of the key's spec". -/
example :
    let U : Unit → Sro → Key → Ans := fun _ σ k => match k with | [x] => if (σ x).contains 1 then some 7 else none | _ => none
    let σ0 : Sro := fun x => [x]
    let σ1 : Sro := fun x => if x = 5 then [5, 1] else [x]
    let h := [Op.lookup [5], Op.rebase σ1 (fun x => x == 5)]
    (step U (run U (fresh () σ0) h) (.lookup [5])).2 = some (some 7) ∧
    (step U (run U (fresh () σ0) (eraseLookups h)) (.lookup [5])).2 = some (some 7) := by decide
end ZI.Cache
