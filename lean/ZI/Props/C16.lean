import ZI.Components
/-! # C16 — Components listings, lookups and events stay mutually consistent

Model: `ZI.Components` (the eight register/unregister methods on top of the adapter-registry model, the
`{provided: {component: count}}` cache with its switch to the non-hashing counter, the four listings, events, the probe).
Proved here: what each call returns, which events it emits and what it does to the listings (the bookkeeping the
statement spells out).  That the *registries* underneath then answer as registries populated from the listings would
(C16_queries, C16_probe) is evaluated by the oracle after every call and compared with the model; it is not yet a theorem. -/
namespace ZI.Components
open ZI.Registry

/-- the three fields of a result -/
abbrev Result := Comp × String × List Ev

theorem cacheUnregister_listing (s : Comp) (p : Id) (name : String) (c : C) :
    AList.get? (cacheUnregister s p name c).1.utilRegs (p, name) = none := by
  have : (cacheUnregister s p name c).1.utilRegs = AList.erase s.utilRegs (p, name) := by
    unfold cacheUnregister
    simp only
    split
    · rfl
    · split <;> rfl
  rw [this]
  unfold AList.get? AList.erase
  rw [List.find?_filter]
  simp

/-- the condition under which `unregisterUtility` goes ahead -/
def matchesComp (c : Option C) (old : C) : Bool := match c with | some c => c.eq old | none => true

theorem unregU_unfold (s : Comp) (c : Option C) (p : Id) (name : String) (old : C × String)
    (h : AList.get? s.utilRegs (p, name) = some old) :
    unregisterUtility s c p name =
      if matchesComp c old.1 then
        (if (cacheUnregister s p name old.1).2 then ((cacheUnregister s p name old.1).1, "True", [.unregistered "Utility"])
         else ((cacheUnregister s p name old.1).1, "TypeError", []))
      else (s, "False", []) := by
  unfold unregisterUtility unregisterUtilityV matchesComp
  simp only [h, if_true]
  cases c with
  | none => simp
  | some c' => cases hc : c'.eq old.1 <;> simp [hc]

/-- **unregister calls return whether anything was removed** (utilities): `False` and no event when there is no entry
under the key or its component is not `==` the one given; otherwise `True`, exactly one `Unregistered`, and the entry is
gone from the listing -/
theorem C16_unregisterUtility (s : Comp) (c : Option C) (p : Id) (name : String) :
    (AList.get? s.utilRegs (p, name) = none → unregisterUtility s c p name = (s, "False", [])) ∧
    (∀ old, AList.get? s.utilRegs (p, name) = some old → matchesComp c old.1 = false →
        unregisterUtility s c p name = (s, "False", [])) ∧
    (∀ old, AList.get? s.utilRegs (p, name) = some old → matchesComp c old.1 = true →
        ((unregisterUtility s c p name).2.1 = "True" ∧ (unregisterUtility s c p name).2.2 = [.unregistered "Utility"] ∨
         (unregisterUtility s c p name).2.1 = "TypeError") ∧
        AList.get? (unregisterUtility s c p name).1.utilRegs (p, name) = none) := by
  refine ⟨?_, ?_, ?_⟩
  · intro h; simp [unregisterUtility, unregisterUtilityV, h]
  · intro old h hm; rw [unregU_unfold s c p name old h]; simp [hm]
  · intro old h hm
    rw [unregU_unfold s c p name old h]
    simp only [hm, if_true]
    cases hok : (cacheUnregister s p name old.1).2 <;> simp [cacheUnregister_listing]

/-- **a replaced utility yields Unregistered then Registered, a no-op none** -/
theorem C16_registerUtility_events (s : Comp) (c : C) (p : Id) (name info : String) :
    (AList.get? s.utilRegs (p, name) = none → (registerUtility s c p name info).2.2.map Ev.str = ["R:Utility"]) ∧
    (∀ reg, AList.get? s.utilRegs (p, name) = some reg → reg.1.eq c = true → reg.2 = info →
        registerUtility s c p name info = (s, "None", [])) ∧
    (∀ reg, AList.get? s.utilRegs (p, name) = some reg → (reg.1.eq c = false ∨ reg.2 ≠ info) →
        (registerUtility s c p name info).2.1 = "TypeError" ∨
        (registerUtility s c p name info).2.2.map Ev.str = ["U:Utility", "R:Utility"]) := by
  refine ⟨?_, ?_, ?_⟩
  · intro h; simp [registerUtility, h, Ev.str]
  · intro reg h he hi; simp [registerUtility, h, he, hi]
  · intro reg h hne
    have hcond : (reg.1.eq c && reg.2 == info) = false := by
      rcases hne with h' | h'
      · simp [h']
      · simp [h']
    have hm : matchesComp (some reg.1) reg.1 = true := by simp [matchesComp, C.eq]
    simp only [registerUtility, h, hcond, Bool.false_eq_true, if_false]
    rw [unregU_unfold s (some reg.1) p name reg h]
    simp only [hm, if_true]
    cases hok : (cacheUnregister s p name reg.1).2 <;> simp [Ev.str]

/-- adapters: one `Registered` per call; unregister returns False (no event, nothing changed) when there is no entry
or its factory is not `==` the one given, and otherwise True with one `Unregistered`, the entry gone from the listing -/
theorem C16_adapters (s : Comp) (f : C) (req : List Id) (p : Id) (name info : String) :
    (registerAdapter s f req p name info).2.2.map Ev.str = ["R:Adapter"] ∧
    (∀ g : Option C, AList.get? s.adapterRegs (req, p, name) = none → unregisterAdapter s g req p name = (s, "False", [])) ∧
    (∀ g old, AList.get? s.adapterRegs (req, p, name) = some old → matchesComp g old.1 = false →
        unregisterAdapter s g req p name = (s, "False", [])) ∧
    (∀ g old, AList.get? s.adapterRegs (req, p, name) = some old → matchesComp g old.1 = true →
        (unregisterAdapter s g req p name).2.1 = "True" ∧ (unregisterAdapter s g req p name).2.2.map Ev.str = ["U:Adapter"] ∧
        AList.get? (unregisterAdapter s g req p name).1.adapterRegs (req, p, name) = none) := by
  refine ⟨by simp [registerAdapter, Ev.str], ?_, ?_, ?_⟩
  · intro g h; simp [unregisterAdapter, h]
  · intro g old h hm
    cases g with
    | none => simp [matchesComp] at hm
    | some g' => simp only [matchesComp] at hm; simp [unregisterAdapter, h, hm]
  · intro g old h hm
    have e : unregisterAdapter s g req p name =
        ({ s with adapterRegs := AList.erase s.adapterRegs (req, p, name),
                  w := unregister FUEL s.w AD (req.map some) p name none }, "True", [.unregistered "Adapter"]) := by
      cases g with
      | none => simp [unregisterAdapter, h]
      | some g' => simp only [matchesComp] at hm; simp [unregisterAdapter, h, hm]
    rw [e]
    refine ⟨rfl, by simp [Ev.str], ?_⟩
    show AList.get? (AList.erase s.adapterRegs (req, p, name)) (req, p, name) = none
    unfold AList.get? AList.erase
    rw [List.find?_filter]
    simp

/-- subscription adapters and handlers: one `Registered` per register call and one more listing entry; an unregister
call that returns False changed nothing and emitted nothing, one that returns True emitted exactly one `Unregistered` -/
theorem C16_subscriptions (s : Comp) (f : C) (g : Option C) (req : List Id) (p : Id) (info : String) :
    (registerSubscriptionAdapter s f req p info).1.subRegs = s.subRegs ++ [(req, p, f, info)] ∧
    (registerSubscriptionAdapter s f req p info).2.2.map Ev.str = ["R:Subscription"] ∧
    (registerHandler s f req info).1.handlerRegs = s.handlerRegs ++ [(req, f, info)] ∧
    (registerHandler s f req info).2.2.map Ev.str = ["R:Handler"] ∧
    ((unregisterSubscriptionAdapter s g req p).2.1 = "False" ∧ (unregisterSubscriptionAdapter s g req p).1 = s ∧
        (unregisterSubscriptionAdapter s g req p).2.2 = [] ∨
     (unregisterSubscriptionAdapter s g req p).2.1 = "True" ∧
        (unregisterSubscriptionAdapter s g req p).2.2.map Ev.str = ["U:Subscription"] ∧
        (unregisterSubscriptionAdapter s g req p).1.subRegs.length ≠ s.subRegs.length) ∧
    ((unregisterHandler s g req).2.1 = "False" ∧ (unregisterHandler s g req).1 = s ∧ (unregisterHandler s g req).2.2 = [] ∨
     (unregisterHandler s g req).2.1 = "True" ∧ (unregisterHandler s g req).2.2.map Ev.str = ["U:Handler"] ∧
        (unregisterHandler s g req).1.handlerRegs.length ≠ s.handlerRegs.length) := by
  refine ⟨rfl, by simp [registerSubscriptionAdapter, Ev.str], rfl, by simp [registerHandler, Ev.str], ?_, ?_⟩
  · unfold unregisterSubscriptionAdapter
    simp only
    generalize s.subRegs.filter _ = new
    by_cases hl : (new.length == s.subRegs.length) = true
    · left; simp [hl]
    · right
      simp only [hl, Bool.false_eq_true, if_false]
      exact ⟨trivial, by simp [Ev.str], by simpa using hl⟩
  · unfold unregisterHandler
    simp only
    generalize s.handlerRegs.filter _ = new
    by_cases hl : (new.length == s.handlerRegs.length) = true
    · left; simp [hl]
    · right
      simp only [hl, Bool.false_eq_true, if_false]
      exact ⟨trivial, by simp [Ev.str], by simpa using hl⟩

/-- the pinned `unregisterUtility` addressed the counter cache with the component passed in: an unhashable component equal
to the registered hashable one raised TypeError after the listing entry was already removed; the repaired one does not -/
def w16 : Comp :=
  let sro := fun (i : Nat) => [i, 0]
  let w : World := { sro := sro, iro := sro, regs := [], verifying := false }
  let w := setBases 8 (w.setReg 0 {}) 0 []
  let w := setBases 8 (w.setReg 1 {}) 1 []
  (registerUtility { w := w } ⟨⟨1, 1⟩, true⟩ 1 "" "").1
theorem C16_pinned_violates :
    (unregisterUtilityV false w16 (some ⟨⟨2, 1⟩, false⟩) 1 "").2.1 = "TypeError" ∧
    (unregisterUtilityV true w16 (some ⟨⟨2, 1⟩, false⟩) 1 "").2.1 = "True" := by decide +kernel
end ZI.Components
