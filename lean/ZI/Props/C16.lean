import ZI.Components
import ZI.Props.C05Reg
/-! # C16 — Components listings, lookups and events stay mutually consistent

Model: `ZI.Components` (the eight register/unregister methods on top of the adapter-registry model, the
`{provided: {component: count}}` cache with its switch to the non-hashing counter, the four listings, events, the probe).
Proved here: what each call returns, which events it emits and what it does to the listings (the bookkeeping the
statement spells out).  That the *registries* underneath then answer as registries populated from the listings would
(C16_queries, C16_probe) is evaluated by the oracle after every call and compared with the model; it is not yet a theorem.
The counter cache is volatile: a picklable `Components` that is stored and re-loaded (`reload`) rebuilds it from the
utility listing.  Proved: the re-load leaves the four listings alone and the rebuilt counter holds, per
`(provided, component under ==)`, the number of listing entries (one per *name*) — `C16_counts` right after a re-load. -/
namespace ZI.Components
open ZI.Registry

/-- the three fields of a result -/
abbrev Result := Comp × String × List Ev

theorem cacheUnregister_listing (s : Comp) (p : Id) (name : String) (c : C) :
    AList.get? (cacheUnregister s p name c).1.utilRegs (p, name) = none := by
  have : (cacheUnregister s p name c).1.utilRegs = AList.erase s.utilRegs (p, name) := by
    unfold cacheUnregister
    simp only
    split
    · rfl
    · split <;> rfl
  rw [this]
  unfold AList.get? AList.erase
  rw [List.find?_filter]
  simp

/-- the condition under which `unregisterUtility` goes ahead -/
def matchesComp (c : Option C) (old : C) : Bool := match c with | some c => c.eq old | none => true

theorem unregU_unfold (s : Comp) (c : Option C) (p : Id) (name : String) (old : C × String)
    (h : AList.get? s.utilRegs (p, name) = some old) :
    unregisterUtility s c p name =
      if matchesComp c old.1 then
        (if (cacheUnregister s p name old.1).2 then ((cacheUnregister s p name old.1).1, "True", [.unregistered "Utility"])
         else ((cacheUnregister s p name old.1).1, "TypeError", []))
      else (s, "False", []) := by
  unfold unregisterUtility unregisterUtilityV matchesComp
  simp only [h, if_true]
  cases c with
  | none => simp
  | some c' => cases hc : c'.eq old.1 <;> simp [hc]

/-- **unregister calls return whether anything was removed** (utilities): `False` and no event when there is no entry
under the key or its component is not `==` the one given; otherwise `True`, exactly one `Unregistered`, and the entry is
gone from the listing -/
theorem C16_unregisterUtility (s : Comp) (c : Option C) (p : Id) (name : String) :
    (AList.get? s.utilRegs (p, name) = none → unregisterUtility s c p name = (s, "False", [])) ∧
    (∀ old, AList.get? s.utilRegs (p, name) = some old → matchesComp c old.1 = false →
        unregisterUtility s c p name = (s, "False", [])) ∧
    (∀ old, AList.get? s.utilRegs (p, name) = some old → matchesComp c old.1 = true →
        ((unregisterUtility s c p name).2.1 = "True" ∧ (unregisterUtility s c p name).2.2 = [.unregistered "Utility"] ∨
         (unregisterUtility s c p name).2.1 = "TypeError") ∧
        AList.get? (unregisterUtility s c p name).1.utilRegs (p, name) = none) := by
  refine ⟨?_, ?_, ?_⟩
  · intro h; simp [unregisterUtility, unregisterUtilityV, h]
  · intro old h hm; rw [unregU_unfold s c p name old h]; simp [hm]
  · intro old h hm
    rw [unregU_unfold s c p name old h]
    simp only [hm, if_true]
    cases hok : (cacheUnregister s p name old.1).2 <;> simp [cacheUnregister_listing]

/-- **a replaced utility yields Unregistered then Registered, a no-op none** -/
theorem C16_registerUtility_events (s : Comp) (c : C) (p : Id) (name info : String) :
    (AList.get? s.utilRegs (p, name) = none → (registerUtility s c p name info).2.2.map Ev.str = ["R:Utility"]) ∧
    (∀ reg, AList.get? s.utilRegs (p, name) = some reg → reg.1.eq c = true → reg.2 = info →
        registerUtility s c p name info = (s, "None", [])) ∧
    (∀ reg, AList.get? s.utilRegs (p, name) = some reg → (reg.1.eq c = false ∨ reg.2 ≠ info) →
        (registerUtility s c p name info).2.1 = "TypeError" ∨
        (registerUtility s c p name info).2.2.map Ev.str = ["U:Utility", "R:Utility"]) := by
  refine ⟨?_, ?_, ?_⟩
  · intro h; simp [registerUtility, h, Ev.str]
  · intro reg h he hi; simp [registerUtility, h, he, hi]
  · intro reg h hne
    have hcond : (reg.1.eq c && reg.2 == info) = false := by
      rcases hne with h' | h'
      · simp [h']
      · simp [h']
    have hm : matchesComp (some reg.1) reg.1 = true := by simp [matchesComp, C.eq]
    simp only [registerUtility, h, hcond, Bool.false_eq_true, if_false]
    rw [unregU_unfold s (some reg.1) p name reg h]
    simp only [hm, if_true]
    cases hok : (cacheUnregister s p name reg.1).2 <;> simp [Ev.str]

/-- adapters: one `Registered` per call; unregister returns False (no event, nothing changed) when there is no entry
or its factory is not `==` the one given, and otherwise True with one `Unregistered`, the entry gone from the listing -/
theorem C16_adapters (s : Comp) (f : C) (req : List Id) (p : Id) (name info : String) :
    (registerAdapter s f req p name info).2.2.map Ev.str = ["R:Adapter"] ∧
    (∀ g : Option C, AList.get? s.adapterRegs (req, p, name) = none → unregisterAdapter s g req p name = (s, "False", [])) ∧
    (∀ g old, AList.get? s.adapterRegs (req, p, name) = some old → matchesComp g old.1 = false →
        unregisterAdapter s g req p name = (s, "False", [])) ∧
    (∀ g old, AList.get? s.adapterRegs (req, p, name) = some old → matchesComp g old.1 = true →
        (unregisterAdapter s g req p name).2.1 = "True" ∧ (unregisterAdapter s g req p name).2.2.map Ev.str = ["U:Adapter"] ∧
        AList.get? (unregisterAdapter s g req p name).1.adapterRegs (req, p, name) = none) := by
  refine ⟨by simp [registerAdapter, Ev.str], ?_, ?_, ?_⟩
  · intro g h; simp [unregisterAdapter, h]
  · intro g old h hm
    cases g with
    | none => simp [matchesComp] at hm
    | some g' => simp only [matchesComp] at hm; simp [unregisterAdapter, h, hm]
  · intro g old h hm
    have e : unregisterAdapter s g req p name =
        ({ s with adapterRegs := AList.erase s.adapterRegs (req, p, name),
                  w := unregister FUEL s.w AD (req.map some) p name none }, "True", [.unregistered "Adapter"]) := by
      cases g with
      | none => simp [unregisterAdapter, h]
      | some g' => simp only [matchesComp] at hm; simp [unregisterAdapter, h, hm]
    rw [e]
    refine ⟨rfl, by simp [Ev.str], ?_⟩
    show AList.get? (AList.erase s.adapterRegs (req, p, name)) (req, p, name) = none
    unfold AList.get? AList.erase
    rw [List.find?_filter]
    simp

/-- subscription adapters and handlers: one `Registered` per register call and one more listing entry; an unregister
call that returns False changed nothing and emitted nothing, one that returns True emitted exactly one `Unregistered` -/
theorem C16_subscriptions (s : Comp) (f : C) (g : Option C) (req : List Id) (p : Id) (info : String) :
    (registerSubscriptionAdapter s f req p info).1.subRegs = s.subRegs ++ [(req, p, f, info)] ∧
    (registerSubscriptionAdapter s f req p info).2.2.map Ev.str = ["R:Subscription"] ∧
    (registerHandler s f req info).1.handlerRegs = s.handlerRegs ++ [(req, f, info)] ∧
    (registerHandler s f req info).2.2.map Ev.str = ["R:Handler"] ∧
    ((unregisterSubscriptionAdapter s g req p).2.1 = "False" ∧ (unregisterSubscriptionAdapter s g req p).1 = s ∧
        (unregisterSubscriptionAdapter s g req p).2.2 = [] ∨
     (unregisterSubscriptionAdapter s g req p).2.1 = "True" ∧
        (unregisterSubscriptionAdapter s g req p).2.2.map Ev.str = ["U:Subscription"] ∧
        (unregisterSubscriptionAdapter s g req p).1.subRegs.length ≠ s.subRegs.length) ∧
    ((unregisterHandler s g req).2.1 = "False" ∧ (unregisterHandler s g req).1 = s ∧ (unregisterHandler s g req).2.2 = [] ∨
     (unregisterHandler s g req).2.1 = "True" ∧ (unregisterHandler s g req).2.2.map Ev.str = ["U:Handler"] ∧
        (unregisterHandler s g req).1.handlerRegs.length ≠ s.handlerRegs.length) := by
  refine ⟨rfl, by simp [registerSubscriptionAdapter, Ev.str], rfl, by simp [registerHandler, Ev.str], ?_, ?_⟩
  · unfold unregisterSubscriptionAdapter
    simp only
    generalize s.subRegs.filter _ = new
    by_cases hl : (new.length == s.subRegs.length) = true
    · left; simp [hl]
    · right
      simp only [hl, Bool.false_eq_true, if_false]
      exact ⟨trivial, by simp [Ev.str], by simpa using hl⟩
  · unfold unregisterHandler
    simp only
    generalize s.handlerRegs.filter _ = new
    by_cases hl : (new.length == s.handlerRegs.length) = true
    · left; simp [hl]
    · right
      simp only [hl, Bool.false_eq_true, if_false]
      exact ⟨trivial, by simp [Ev.str], by simpa using hl⟩

/-! ### storing and re-loading a picklable `Components`: the volatile counter cache is rebuilt from the listing -/
/-- **a re-load keeps the four listings** -/
theorem reload_listings (s : Comp) :
    (reload s).utilRegs = s.utilRegs ∧ (reload s).adapterRegs = s.adapterRegs ∧
    (reload s).subRegs = s.subRegs ∧ (reload s).handlerRegs = s.handlerRegs := ⟨rfl, rfl, rfl, rfl⟩

theorem C.eq_iff (a b : C) : a.eq b = true ↔ a.v.eqc = b.v.eqc := by simp [C.eq]

theorem count_nil (d : C) : count [] d = 0 := rfl

theorem count_cons (x : C × Nat) (l : List (C × Nat)) (d : C) :
    count (x :: l) d = if x.1.eq d then x.2 else count l d := by
  unfold count
  rw [List.find?_cons]
  cases h : x.1.eq d <;> simp

theorem count_map_set (l : List (C × Nat)) (c d : C) (n : Nat) :
    count (l.map fun p => if p.1.eq c then (p.1, n) else p) d =
      if c.eq d then (if l.any (fun p => p.1.eq c) then n else 0) else count l d := by
  induction l with
  | nil => simp [count_nil]
  | cons x l ih =>
    rw [List.map_cons, count_cons, count_cons, ih, List.any_cons]
    by_cases hx : x.1.eq c = true <;> by_cases hd : x.1.eq d = true <;> by_cases hcd : c.eq d = true <;>
      simp only [hx, hd, hcd, if_true, Bool.true_or, Bool.false_or, Bool.false_eq_true, if_false] <;>
      (exfalso; rw [C.eq_iff] at *; omega)

theorem count_append_new (l : List (C × Nat)) (c d : C) (n : Nat) (h : l.any (fun p => p.1.eq c) = false) :
    count (l ++ [(c, n)]) d = if c.eq d then n else count l d := by
  induction l with
  | nil => simp [count_cons, count_nil]
  | cons x l ih =>
    rw [List.any_cons, Bool.or_eq_false_iff] at h
    rw [List.cons_append, count_cons, count_cons, ih h.2]
    have hx := h.1
    by_cases hd : x.1.eq d = true <;> by_cases hcd : c.eq d = true <;> simp only [hd, hcd, if_true, Bool.false_eq_true, if_false]
    exfalso
    have : x.1.eq c = true := by rw [C.eq_iff] at *; omega
    simp [this] at hx

theorem count_setCount (cache : List (C × Nat)) (c d : C) (n : Nat) :
    count (setCount cache c n) d = if c.eq d then n else count cache d := by
  unfold setCount
  split
  · rename_i hany
    rw [count_map_set, hany]; simp
  · rename_i hany
    exact count_append_new cache c d n (by simpa using hany)

theorem aget?_set_nat {α : Type} (m : AList Id α) (k k' : Id) (v : α) :
    AList.get? (AList.set m k v) k' = if k = k' then some v else AList.get? m k' := by
  by_cases hk : k = k'
  · subst hk; simp [aget?_set_same]
  · rw [aget?_set_ne m (fun e => hk e.symm)]; simp [hk]

/-- the count the cache holds for `(provided, component)` (components under `==`) -/
def countOf (uc : AList Id (List (C × Nat) × Bool)) (p : Id) (c : C) : Nat :=
  count ((AList.get? uc p).getD ([], false)).1 c

theorem countOf_cacheUtility (uc : AList Id (List (C × Nat) × Bool)) (p q : Id) (c d : C) :
    countOf (cacheUtility uc p c) q d = countOf uc q d + (if p = q ∧ c.eq d = true then 1 else 0) := by
  unfold countOf cacheUtility
  simp only
  rw [aget?_set_nat]
  by_cases hpq : p = q
  · subst hpq
    simp only [if_true, Option.getD_some, count_setCount, true_and]
    by_cases hcd : c.eq d = true
    · have : count ((AList.get? uc p).getD ([], false)).1 c = count ((AList.get? uc p).getD ([], false)).1 d := by
        unfold count
        have : (fun (x : C × Nat) => x.1.eq c) = (fun x => x.1.eq d) := by
          funext x; rw [Bool.eq_iff_iff, C.eq_iff, C.eq_iff]; rw [C.eq_iff] at hcd; omega
        rw [this]
      simp [hcd, this]
    · simp [hcd]
  · simp [hpq]

/-- listing entries for `provided` whose component is `==` the given one -/
def listed (regs : AList (Id × String) (C × String)) (p : Id) (c : C) : Nat :=
  (regs.filter fun e => e.1.1 == p && e.2.1.eq c).length

theorem populate_fold (regs : AList (Id × String) (C × String)) (uc : AList Id (List (C × Nat) × Bool)) (q : Id) (d : C) :
    countOf (regs.foldl (fun uc e => cacheUtility uc e.1.1 e.2.1) uc) q d = countOf uc q d + listed regs q d := by
  induction regs generalizing uc with
  | nil => simp [listed]
  | cons e l ih =>
    rw [List.foldl_cons, ih, countOf_cacheUtility]
    unfold listed
    rw [List.filter_cons]
    by_cases h : e.1.1 = q ∧ e.2.1.eq d = true
    · simp [h]; omega
    · have : (e.1.1 == q && e.2.1.eq d) = false := by
        rw [Bool.and_eq_false_iff]
        by_cases h1 : e.1.1 = q
        · right; simpa [h1] using h
        · left; simpa using h1
      simp [h, this]

/-- **C16_counts across a re-load**: the rebuilt counter holds, for every `(provided, component)`, exactly the number of
listing entries for that interface whose component is `==` it — once per *name*, not once per pair -/
theorem populateCache_counts (regs : AList (Id × String) (C × String)) (q : Id) (d : C) :
    countOf (populateCache regs) q d = listed regs q d := by
  unfold populateCache
  rw [populate_fold]
  simp [countOf, AList.get?, count_nil]

theorem reload_counts (s : Comp) (q : Id) (d : C) : countOf (reload s).ucache q d = listed (reload s).utilRegs q d :=
  populateCache_counts s.utilRegs q d
/-- the pinned `unregisterUtility` addressed the counter cache with the component passed in: an unhashable component equal
to the registered hashable one raised TypeError after the listing entry was already removed; the repaired one does not -/
def w16 : Comp :=
  let sro := fun (i : Nat) => [i, 0]
  let w : World := { sro := sro, iro := sro, regs := [], verifying := false }
  let w := setBases 8 (w.setReg 0 {}) 0 []
  let w := setBases 8 (w.setReg 1 {}) 1 []
  (registerUtility { w := w } ⟨⟨1, 1⟩, true⟩ 1 "" "").1
theorem C16_pinned_violates :
    (unregisterUtilityV false w16 (some ⟨⟨2, 1⟩, false⟩) 1 "").2.1 = "TypeError" ∧
    (unregisterUtilityV true w16 (some ⟨⟨2, 1⟩, false⟩) 1 "").2.1 = "True" := by decide +kernel
end ZI.Components
