import ZI.Classes2
import ZI.Props.C02
/-! # C01 — `providedBy` / `implementedBy` report exactly the declared and inherited interfaces, after ANY history

Python code concerned: `zope/interface/declarations.py` — `implementedBy` (lazily created class specifications
`cls.__implemented__`), `_classImplements_ordered`, `classImplements`, `classImplementsOnly`, `classImplementsFirst`
(and the decorators `implementer`, `implementer_only`), the `Provides` factory with its shared weak cache
`InstanceDeclarations`, `directlyProvides`, `alsoProvides`, `noLongerProvides`, `directlyProvidedBy`, `providedBy`
(`provider`), on top of `interface.py`'s `Specification.__bases__` setter / `changed()` propagation.
Model: `ZI.Classes2` (= `ZI.Classes` transliterated onto the graph model `ZI.Graph2`, on which the propagation proofs
`ZI.Graph2Proofs` / `ZI.Props.C02` were done), with the repaired factory (`fixedProvides = true`: a cached `Provides`
object is handed out only if its bases are what a fresh one would get; `ZI.Classes.C01_asis_violates` shows the
statement is false for the factory as at the pinned commit).

## What is proved

* **Abstract specification** (section 2; sets of interfaces only, no graphs / caches / specification objects):
  state `Spec` (`ibases`, `pyBases`, `D c` = declared on the class and not dropped, `inh c`, `K o` = direct declaration),
  `Up σ X` (everything a member of `X` extends, plus the root), `Impl σ c = Up (D c) ∪ (if inh c then ⋃ Impl b) ∪ {0}`
  (inductive; `Impl_iff` is the equation), `Prov σ o = Up (K o) ∪ Impl (cls o)`; transitions `specStep` (redundant
  interfaces are filtered at each call, as the code does), histories `HOp`, well-formedness `WFop` / `WFHist` (decidable),
  and an executable version `implB` / `provB` proved equal to `Impl` / `Prov` in well-formed states (`implB_iff`).
* **`C01_exact`**: for every well-formed history `h` and every recursion budget `fuel ≥` number of classes, in the world
  `run fuel h` the interfaces in the resolution order of `implementedBy(c)` are exactly `Impl (specRun h) c` for every
  existing class, and those of `providedBy(o)` are exactly `Prov (specRun h) o` for every existing instance.
  (`C01_exact_exec`: `I.implementedBy(c)` / `I.providedBy(o)` equal the executable oracle `implB` / `provB`.)
  Proof: the simulation invariant `Sim` (section 3) = `Graph2.Inv` (cached order = order recomputed from the current
  bases, hence membership = reachability, `Sim.mem_sro`) + the structural invariant `CSim` / `ISim` (a class
  specification's bases are exactly its declared interfaces and, if it still inherits, the specifications of its Python
  bases, which exist and are older; different classes have different specifications; an instance declaration is a
  `Provides` node with bases `K o ++ [spec (cls o)]`; cached `Provides` objects are never class specifications), preserved
  by every step (`sim_step`; each step is a sequence of `Graph2` operations satisfying `WFOp`, acyclicity by the rank
  `rankOf`: interfaces by creation order, specification objects above them by id).
* **`C01_sandwich`** (`C01_sandwich_upper`, `C01_sandwich_lower`, `C01_kept_persists`): everything reported was declared
  or inherited (`Prov ⊆ ProvMay`, the same specification that never drops anything), and a named interface that was not
  redundant when the call was made stays provided (with everything it extends) until the next declaration on the same
  object — only declarations redundant when made are dropped.
* **`C01_independent`** / **`C01_independent_real`**: a declaration on instance `o` changes no class's answers and no
  other instance's answers; a declaration on class `c` changes the answers only of classes that have `c` as themselves or
  an inheriting ancestor, and of their instances.
* **Non-vacuity** (`C01_nonvacuous`, section 15): the three-step history of the property text is well-formed and
  `IA ∈ Prov k2`, `IA ∉ Prov k1`; a 25-step history using every kind of step is well-formed; kernel evaluation of the model
  agrees with the oracle on both. -/
namespace ZI.C01
open ZI.RO ZI.Graph2 ZI.Classes2

/-- `omega` does not look through the abbreviation `ZI.RO.Id := Nat` in the types of the model's fields -/
macro "omega'" : tactic => `(tactic| ((try unfold ZI.RO.Id at *); omega))

/-! ## 0. small list facts -/

theorem dedupe_go_mem (l : List Id) : ∀ (acc : List Id) (x : Id),
    x ∈ l.foldl (fun acc x => if acc.contains x then acc else acc ++ [x]) acc ↔ x ∈ acc ∨ x ∈ l := by
  induction l with
  | nil => intro acc x; simp
  | cons a t ih =>
    intro acc x
    simp only [List.foldl_cons]
    rw [ih]
    by_cases ha : acc.contains a = true
    · simp only [ha, if_true, List.mem_cons]
      have : a ∈ acc := by simpa using ha
      constructor
      · rintro (h | h)
        · exact Or.inl h
        · exact Or.inr (Or.inr h)
      · rintro (h | rfl | h)
        · exact Or.inl h
        · exact Or.inl this
        · exact Or.inr h
    · simp only [ha, List.mem_cons]
      simp only [Bool.false_eq_true, if_false, List.mem_append, List.mem_singleton]
      constructor
      · rintro ((h | h) | h)
        · exact Or.inl h
        · exact Or.inr (Or.inl h)
        · exact Or.inr (Or.inr h)
      · rintro (h | h | h)
        · exact Or.inl (Or.inl h)
        · exact Or.inl (Or.inr h)
        · exact Or.inr h

theorem mem_dedupe {l : List Id} {x : Id} : x ∈ dedupe l ↔ x ∈ l := by
  unfold dedupe; rw [dedupe_go_mem]; simp

theorem dedupe_go_nodup (l : List Id) : ∀ (acc : List Id), acc.Nodup →
    (l.foldl (fun acc x => if acc.contains x then acc else acc ++ [x]) acc).Nodup := by
  induction l with
  | nil => intro acc h; simpa using h
  | cons a t ih =>
    intro acc h
    simp only [List.foldl_cons]
    apply ih
    by_cases ha : acc.contains a = true
    · rw [if_pos ha]; exact h
    · rw [if_neg ha]
      rw [List.nodup_append]
      refine ⟨h, by simp, ?_⟩
      intro x hx y hy
      simp at hy; subst hy
      intro e; subst e
      exact ha (by simpa using hx)

theorem nodup_dedupe (l : List Id) : (dedupe l).Nodup := dedupe_go_nodup l [] (by simp)

theorem dedupe_go_of_nodup (l : List Id) : ∀ (acc : List Id), (acc ++ l).Nodup →
    l.foldl (fun acc x => if acc.contains x then acc else acc ++ [x]) acc = acc ++ l := by
  induction l with
  | nil => intro acc _; simp
  | cons a t ih =>
    intro acc h
    simp only [List.foldl_cons]
    have ha : acc.contains a = false := by
      cases hc : acc.contains a with
      | false => rfl
      | true =>
        have hm : a ∈ acc := by simpa using hc
        rw [List.nodup_append] at h
        exact absurd rfl (h.2.2 a hm a (by simp))
    simp only [ha, Bool.false_eq_true, if_false]
    rw [ih (acc ++ [a]) (by simpa using h)]
    simp

theorem dedupe_of_nodup {l : List Id} (h : l.Nodup) : dedupe l = l := by
  unfold dedupe; rw [dedupe_go_of_nodup l [] (by simpa using h)]; simp

/-! ## 1. graph-level facts: `__sro__` membership is reachability; creating / re-basing a node -/

/-- in a graph satisfying the propagation invariant, membership in the cached order is reachability through the
current bases (plus the root) -/
theorem mem_sro_iff {g : G} (hi : Inv g) (hr : g.root = 0) (h0 : g.bases 0 = []) (s t : Id) :
    t ∈ g.sro s ↔ (Reach g.bases s t ∨ t = 0) := by
  obtain ⟨N, hg, _⟩ := hi
  obtain ⟨rank, ha, hrk⟩ := hg.acyc
  have hf := hg.fresh (N+1) (Nat.lt_succ_self _) s
  rw [hf, hr]
  exact (sroFresh_valid ha h0 (N+1) s (by have := hrk s; omega)).mem t

theorem bases_newNode (g : G) (s : Id) (bs : List Id) : (newNode g s bs).bases = upd g.bases s bs := by
  unfold newNode; rw [bases_setBases]
theorem root_newNode (g : G) (s : Id) (bs : List Id) : (newNode g s bs).root = g.root := by
  unfold newNode; rw [root_setBases]
theorem ids_newNode (g : G) (s : Id) (bs : List Id) : (newNode g s bs).ids = g.ids ++ [s] := by
  unfold newNode; rw [ids_setBases]

/-- the three-tier rank: interfaces by creation order, then class specifications and `Provides` objects by id -/
def rankOf (ifl : List Nat) (next : Nat) (x : Nat) : Nat :=
  if x < 1000 then (if x ∈ ifl then ifl.idxOf x else 0)
  else if x < next then ifl.length + (x - 1000) else 0

/-- the shape of the base lists that makes `rankOf` a rank -/
structure Shape (ifl : List Nat) (next : Nat) (bases : Nat → List Nat) : Prop where
  lo : ∀ x b, x < 1000 → b ∈ bases x → x ∈ ifl ∧ b < 1000 ∧ b ∈ ifl ∧ ifl.idxOf b < ifl.idxOf x
  hi : ∀ x b, 1000 ≤ x → b ∈ bases x → x < next ∧ ((b < 1000 ∧ b ∈ ifl) ∨ (1000 ≤ b ∧ b < x))

theorem rankOf_lo {ifl : List Nat} {next : Nat} {x : Nat} (h1 : x < 1000) (h2 : x ∈ ifl) :
    rankOf ifl next x = ifl.idxOf x := by simp [rankOf, h1, h2]
theorem rankOf_hi {ifl : List Nat} {next : Nat} {x : Nat} (h1 : 1000 ≤ x) (h2 : x < next) :
    rankOf ifl next x = ifl.length + (x - 1000) := by
  have : ¬ x < 1000 := by omega'
  simp [rankOf, this, h2]

theorem Shape.acyclic {ifl : List Nat} {next : Nat} {bases : Nat → List Nat} (h : Shape ifl next bases) :
    Acyclic bases (rankOf ifl next) := by
  intro x b hb
  by_cases hx : x < 1000
  · obtain ⟨h1, h2, h3, h4⟩ := h.lo x b hx hb
    rw [rankOf_lo hx h1, rankOf_lo h2 h3]; exact h4
  · obtain ⟨h1, h2⟩ := h.hi x b (by omega') hb
    rw [rankOf_hi (by omega') h1]
    rcases h2 with ⟨h2, h3⟩ | ⟨h2, h3⟩
    · have := List.idxOf_lt_length_of_mem h3
      rw [rankOf_lo h2 h3]; omega'
    · rw [rankOf_hi h2 (by omega')]; omega'

theorem rankOf_le (ifl : List Nat) (next : Nat) (hn : 1001 ≤ next) (x : Nat) :
    rankOf ifl next x + 1 ≤ ifl.length + (next - 1000) := by
  by_cases h1 : x < 1000
  · by_cases h2 : x ∈ ifl
    · rw [rankOf_lo h1 h2]; have := List.idxOf_lt_length_of_mem h2; omega'
    · simp only [rankOf, h1, h2, if_true, if_false]; omega'
  · by_cases h2 : x < next
    · rw [rankOf_hi (by omega') h2]; omega'
    · simp only [rankOf, h1, h2, if_false]; omega'

theorem inv_newNode {g : G} (hi : Inv g) {ifl : List Nat} {next : Nat} (s : Nat) (bs : List Nat) (hnd : bs.Nodup)
    (hn : 1001 ≤ next) (hsh : Shape ifl next (upd g.bases s bs)) (hc : ifl.length + (next - 1000) = g.ids.length + 1) :
    Inv (newNode g s bs) :=
  inv_step g (.new s bs) hi ⟨hnd, rankOf ifl next, hsh.acyclic, fun x => by have := rankOf_le ifl next hn x; omega'⟩

theorem inv_setBases {g : G} (hi : Inv g) {ifl : List Nat} {next : Nat} (s : Nat) (bs : List Nat) (hnd : bs.Nodup)
    (hn : 1001 ≤ next) (hsh : Shape ifl next (upd g.bases s bs)) (hc : ifl.length + (next - 1000) = g.ids.length) :
    Inv (setBases g s bs) :=
  inv_step g (.set s bs) hi ⟨hnd, rankOf ifl next, hsh.acyclic, fun x => by have := rankOf_le ifl next hn x; omega'⟩

/-! ## 2. the abstract specification: sets of interfaces, no graphs, no caches, no specification objects -/

/-- the abstract state -/
structure Spec where
  ifaces : List Nat                 -- interfaces created so far (creation order); `0` is the root `Interface`
  ibases : Nat → List Nat           -- `__bases__` of an interface (fixed at creation)
  classes : List Nat                -- classes created so far (creation order); `0` is `object`
  pyBases : Nat → List Nat          -- `__bases__` of a class (fixed at creation)
  D : Nat → List Nat                -- declared on the class and not dropped
  inh : Nat → Bool                  -- does the class still inherit its bases' declarations?
  insts : List Nat                  -- instances created so far
  clsOf : Nat → Nat                 -- the class of an instance
  K : Nat → Option (List Nat)       -- direct declaration of the instance; `none` = never declared

def Spec.init : Spec :=
  { ifaces := [0], ibases := fun _ => [], classes := [0], pyBases := fun _ => [], D := fun _ => [], inh := fun _ => true,
    insts := [], clsOf := fun _ => 0, K := fun _ => none }

/-- the direct declaration as a list -/
def Spec.Kl (σ : Spec) (o : Nat) : List Nat := (σ.K o).getD []

/-- `up X`: everything a member of `X` extends (reflexively), plus the root -/
def Up (σ : Spec) (X : List Nat) (i : Nat) : Prop := i = 0 ∨ ∃ x ∈ X, Reach σ.ibases x i

/-- `Impl c = up (D c) ∪ (if inh c then ⋃ b ∈ pyBases c, Impl b else ∅) ∪ {0}`, as the least such family (the class
hierarchy is well-founded, so it is the only one; `Impl_iff` is the equation) -/
inductive Impl (σ : Spec) : Nat → Nat → Prop
  | root (c : Nat) : Impl σ c 0
  | decl {c x i : Nat} : x ∈ σ.D c → Reach σ.ibases x i → Impl σ c i
  | inh {c b i : Nat} : σ.inh c = true → b ∈ σ.pyBases c → Impl σ b i → Impl σ c i

theorem Impl_iff (σ : Spec) (c i : Nat) :
    Impl σ c i ↔ (Up σ (σ.D c) i ∨ (σ.inh c = true ∧ ∃ b ∈ σ.pyBases c, Impl σ b i)) := by
  constructor
  · intro h
    cases h with
    | root => exact Or.inl (Or.inl rfl)
    | decl hx hr => exact Or.inl (Or.inr ⟨_, hx, hr⟩)
    | inh h1 h2 h3 => exact Or.inr ⟨h1, _, h2, h3⟩
  · rintro ((rfl | ⟨x, hx, hr⟩) | ⟨h1, b, h2, h3⟩)
    · exact Impl.root c
    · exact Impl.decl hx hr
    · exact Impl.inh h1 h2 h3

/-- `Prov o = up (K o) ∪ Impl (cls o)` -/
def Prov (σ : Spec) (o i : Nat) : Prop := Up σ (σ.Kl o) i ∨ Impl σ (σ.clsOf o) i

/-! ### the executable version (used by the abstract operations to decide redundancy) -/
def reachL (σ : Spec) (x : Nat) : List Nat := flatten σ.ibases σ.ifaces.length x
def upB (σ : Spec) (X : List Nat) (i : Nat) : Bool := i == 0 || X.any fun x => (reachL σ x).contains i
def implL : Nat → Spec → Nat → List Nat
  | 0, _, _ => [0]
  | f+1, σ, c => 0 :: ((σ.D c).flatMap (reachL σ) ++ (if σ.inh c then (σ.pyBases c).flatMap (implL f σ) else []))
def implB (σ : Spec) (c i : Nat) : Bool := (implL σ.classes.length σ c).contains i
def provB (σ : Spec) (o i : Nat) : Bool := upB σ (σ.Kl o) i || implB σ (σ.clsOf o) i

/-- structural well-formedness of an abstract state (holds in every state reached by a well-formed history) -/
structure SpecWF (σ : Spec) : Prop where
  zero_mem : 0 ∈ σ.ifaces
  if_lt : ∀ i ∈ σ.ifaces, i < 1000
  ib0 : σ.ibases 0 = []
  ib_wf : ∀ x b, b ∈ σ.ibases x → x ∈ σ.ifaces ∧ b ∈ σ.ifaces ∧ σ.ifaces.idxOf b < σ.ifaces.idxOf x
  py_wf : ∀ c b, b ∈ σ.pyBases c → c ∈ σ.classes ∧ b ∈ σ.classes ∧ σ.classes.idxOf b < σ.classes.idxOf c
  py_nodup : ∀ c, (σ.pyBases c).Nodup
  D_if : ∀ c i, i ∈ σ.D c → i ∈ σ.ifaces
  cls_mem : ∀ o ∈ σ.insts, σ.clsOf o ∈ σ.classes
  K_if : ∀ o i, i ∈ σ.Kl o → i ∈ σ.ifaces
  K_nodup : ∀ o, (σ.Kl o).Nodup

theorem SpecWF.acyc {σ : Spec} (h : SpecWF σ) : Acyclic σ.ibases (fun x => σ.ifaces.idxOf x) :=
  fun x b hb => (h.ib_wf x b hb).2.2

theorem mem_reachL {σ : Spec} (h : SpecWF σ) (x t : Nat) : t ∈ reachL σ x ↔ Reach σ.ibases x t :=
  mem_flatten h.acyc _ x t List.idxOf_le_length

theorem upB_iff {σ : Spec} (h : SpecWF σ) (X : List Nat) (i : Nat) : upB σ X i = true ↔ Up σ X i := by
  simp only [upB, Up, Bool.or_eq_true, beq_iff_eq, List.any_eq_true, List.contains_iff_mem, mem_reachL h]

theorem implL_sound {σ : Spec} (h : SpecWF σ) : ∀ (f : Nat) (c i : Nat), i ∈ implL f σ c → Impl σ c i := by
  intro f
  induction f with
  | zero => intro c i hi; simp [implL] at hi; subst hi; exact Impl.root c
  | succ f ih =>
    intro c i hi
    simp only [implL, List.mem_cons, List.mem_append, List.mem_flatMap] at hi
    rcases hi with rfl | ⟨x, hx, hr⟩ | hi
    · exact Impl.root c
    · exact Impl.decl hx ((mem_reachL h x i).mp hr)
    · by_cases hinh : σ.inh c = true
      · simp only [hinh, if_true, List.mem_flatMap] at hi
        obtain ⟨b, hb, hbi⟩ := hi
        exact Impl.inh hinh hb (ih b i hbi)
      · simp [hinh] at hi

theorem implL_complete {σ : Spec} (h : SpecWF σ) {c i : Nat} (hi : Impl σ c i) :
    ∀ f, σ.classes.idxOf c < f → i ∈ implL f σ c := by
  induction hi with
  | root c => intro f _; cases f <;> simp [implL]
  | decl hx hr =>
    intro f hf
    cases f with
    | zero => omega
    | succ f =>
      simp only [implL, List.mem_cons, List.mem_append, List.mem_flatMap]
      exact Or.inr (Or.inl ⟨_, hx, (mem_reachL h _ _).mpr hr⟩)
  | inh h1 h2 _ ih =>
    intro f hf
    cases f with
    | zero => omega
    | succ f =>
      simp only [implL, List.mem_cons, List.mem_append, List.mem_flatMap, h1, if_true]
      have := (h.py_wf _ _ h2).2.2
      exact Or.inr (Or.inr ⟨_, h2, ih f (by omega)⟩)

/-- the executable redundancy test decides `Impl` in well-formed states -/
theorem implB_iff {σ : Spec} (h : SpecWF σ) {c : Nat} (hc : c ∈ σ.classes) (i : Nat) :
    implB σ c i = true ↔ Impl σ c i := by
  simp only [implB, List.contains_iff_mem]
  exact ⟨implL_sound h _ c i, fun hi => implL_complete h hi _ (List.idxOf_lt_length_of_mem hc)⟩

theorem provB_iff {σ : Spec} (h : SpecWF σ) {o : Nat} (ho : o ∈ σ.insts) (i : Nat) :
    provB σ o i = true ↔ Prov σ o i := by
  simp only [provB, Prov, Bool.or_eq_true, upB_iff h, implB_iff h (h.cls_mem o ho)]

/-! ### histories -/

/-- one step of a history: creations, the declaration calls, and queries -/
inductive HOp
  | iface (i : Nat) (bases : List Nat)                 -- `class I(*bases)` (an interface)
  | cls (c : Nat) (pyBases : List Nat)                 -- `class C(*pyBases)`
  | inst (o c : Nat)                                   -- `o = C()`
  | classImplements (c : Nat) (L : List Nat)           -- also `@implementer(*L)`
  | classImplementsOnly (c : Nat) (L : List Nat)       -- also `@implementer_only(*L)`
  | classImplementsFirst (c i : Nat)
  | directlyProvides (o : Nat) (L : List Nat)          -- also `@provider(*L)`
  | alsoProvides (o : Nat) (L : List Nat)
  | noLongerProvides (o j : Nat)
  | qImpl (c : Nat)                                    -- `implementedBy(c)` / `I.implementedBy(c)`
  | qProv (o : Nat)                                    -- `providedBy(o)` / `I.providedBy(o)`

/-- the abstract transition; queries change nothing -/
def specStep (σ : Spec) : HOp → Spec
  | .iface i bs => { σ with ifaces := σ.ifaces ++ [i], ibases := upd σ.ibases i bs }
  | .cls c pb => { σ with classes := σ.classes ++ [c], pyBases := upd σ.pyBases c pb, D := upd σ.D c [],
                          inh := upd σ.inh c true }
  | .inst o c => { σ with insts := σ.insts ++ [o], clsOf := upd σ.clsOf o c, K := upd σ.K o none }
  | .classImplements c L => { σ with D := upd σ.D c (σ.D c ++ L.filter fun i => !implB σ c i) }
  | .classImplementsFirst c i => { σ with D := upd σ.D c (σ.D c ++ [i].filter fun i => !implB σ c i) }
  | .classImplementsOnly c L => { σ with D := upd σ.D c L, inh := upd σ.inh c false }
  | .directlyProvides o L => { σ with K := upd σ.K o (some (L.filter fun i => !implB σ (σ.clsOf o) i)) }
  | .alsoProvides o L => { σ with K := upd σ.K o (some ((σ.Kl o ++ L).filter fun i => !implB σ (σ.clsOf o) i)) }
  | .noLongerProvides o j =>
      { σ with K := upd σ.K o (some (((σ.Kl o).filter fun i => !upB σ [i] j).filter fun i => !implB σ (σ.clsOf o) i)) }
  | .qImpl _ => σ
  | .qProv _ => σ

/-- Well-formedness of one step in an abstract state.  Every clause and why it is there:

* `iface i bs`: `i < 1000` — the model's convention `isIface x := x < 1000` (ids `≥ 1000` are specification objects
  allocated by `next`); `i ∉ ifaces` — creation, not re-loading (re-basing / re-creating interfaces is outside this
  task; with a re-used id `Graph2.newNode` re-bases the existing node and `ibases` would no longer be fixed);
  `bs ⊆ ifaces` — bases exist before the interface (Python evaluates them first; a dangling base that is created later
  would make the "created earlier" rank argument false); `bs.Nodup` — **G-nodup**: `Graph2Proofs.WFOp` requires
  duplicate-free base lists (the subscription counts of `subscribe` / `unsubscribe` are only proved for them).
* `cls c pb`: `c ∉ classes` (creation), `pb ⊆ classes` (bases exist first), `pb.Nodup` — Python raises
  `TypeError: duplicate base class`; in the model `implementedBy` would give the class specification a base list with
  a repeated specification, which violates `WFOp` (G-nodup again).
* `inst o c`: `o` fresh, `c` exists.
* `classImplements c L`, `classImplementsOnly c L`, `classImplementsFirst c i`: the class exists and the arguments are
  existing interfaces (no duplicate-freeness needed: the code de-duplicates the new `declared` list itself).  Without
  "existing interfaces" the statement is false: for an id `j ≥ 1000` (a specification object) the model would put a
  non-interface into `declared`, which `Impl` (closed under `ibases` only) does not describe.
* `directlyProvides o L`: `o` exists, `L` are existing interfaces, and `L.Nodup` — **G-nodup**: the `Provides` object
  gets the base list `filter … L ++ [implementedBy(cls)]` verbatim; `WFOp` demands it duplicate-free.  (Needed by the
  proof, inherited from `Graph2Proofs`; not known to be needed for truth.)
* `alsoProvides o L`: the same for `directlyProvidedBy(o) ++ L` (**G-nodup**), which is what the code passes on.
* `noLongerProvides o j`: `o` exists (`j` is arbitrary; the code's own list is duplicate-free).
* `qImpl c`, `qProv o`: the queried object exists (the model's tables return a default class for unknown ids). -/
def WFop (σ : Spec) : HOp → Prop
  | .iface i bs => i < 1000 ∧ i ∉ σ.ifaces ∧ bs.Nodup ∧ ∀ b ∈ bs, b ∈ σ.ifaces
  | .cls c pb => c ∉ σ.classes ∧ pb.Nodup ∧ ∀ b ∈ pb, b ∈ σ.classes
  | .inst o c => o ∉ σ.insts ∧ c ∈ σ.classes
  | .classImplements c L => c ∈ σ.classes ∧ ∀ i ∈ L, i ∈ σ.ifaces
  | .classImplementsOnly c L => c ∈ σ.classes ∧ ∀ i ∈ L, i ∈ σ.ifaces
  | .classImplementsFirst c i => c ∈ σ.classes ∧ i ∈ σ.ifaces
  | .directlyProvides o L => o ∈ σ.insts ∧ (∀ i ∈ L, i ∈ σ.ifaces) ∧ L.Nodup
  | .alsoProvides o L => o ∈ σ.insts ∧ (∀ i ∈ L, i ∈ σ.ifaces) ∧ (σ.Kl o ++ L).Nodup
  | .noLongerProvides o _ => o ∈ σ.insts
  | .qImpl c => c ∈ σ.classes
  | .qProv o => o ∈ σ.insts

instance (σ : Spec) (op : HOp) : Decidable (WFop σ op) := by
  cases op <;> unfold WFop <;> infer_instance

def specRunFrom (σ : Spec) (h : List HOp) : Spec := h.foldl specStep σ
def specRun (h : List HOp) : Spec := specRunFrom Spec.init h

/-- a history is well-formed when every step is well-formed in the state it is issued in -/
def WFFrom : Spec → List HOp → Prop
  | _, [] => True
  | σ, op :: rest => WFop σ op ∧ WFFrom (specStep σ op) rest
def WFHist (h : List HOp) : Prop := WFFrom Spec.init h

instance : ∀ (σ : Spec) (h : List HOp), Decidable (WFFrom σ h)
  | _, [] => by unfold WFFrom; infer_instance
  | σ, op :: rest => by
    unfold WFFrom
    have := instDecidableWFFrom (specStep σ op) rest
    infer_instance
instance (h : List HOp) : Decidable (WFHist h) := by unfold WFHist; infer_instance

/-! ## 3. the simulation invariant between a `Classes2` world and an abstract state -/

@[simp] theorem upd_same {α : Type} (f : Nat → α) (s : Nat) (v : α) : upd f s v s = v := by simp [upd]
theorem upd_other {α : Type} (f : Nat → α) {s x : Nat} (v : α) (h : x ≠ s) : upd f s v x = f x := by simp [upd, h]
theorem upd_upd {α : Type} (f : Nat → α) (s : Nat) (v v' : α) : upd (upd f s v) s v' = upd f s v' := by
  funext x; by_cases h : x = s <;> simp [upd, h]

/-- `p` is a `Provides` object: a specification node that is not a class specification -/
def IsPNode (w : W) (p : Nat) : Prop := 1000 ≤ p ∧ p < w.next ∧ ∀ c : Nat, (w.cls c).spec ≠ some p

/-- graph part: the propagation invariant, the id counters, interfaces have their declared bases, specification
objects only point to interfaces and to older specification objects -/
structure GSim (w : W) (σ : Spec) : Prop where
  inv : Inv w.g
  root : w.g.root = 0
  next_ge : 1001 ≤ w.next
  count : w.g.ids.length = σ.ifaces.length + (w.next - 1000)
  fixed : w.fixedProvides = true
  ib : ∀ x : Nat, x < 1000 → w.g.bases x = σ.ibases x
  hi : ∀ x b : Nat, 1000 ≤ x → b ∈ w.g.bases x → x < w.next ∧ (b ∈ σ.ifaces ∨ (1000 ≤ b ∧ b < x))

/-- class part (the structural invariant (ii) of the task): a class specification has exactly the declared
interfaces and, if it still inherits, the specifications of the Python bases as its bases; all Python bases of a
class with a specification have (older) specifications; different classes have different specifications -/
structure CSim (w : W) (σ : Spec) : Prop where
  cids : w.classIds = σ.classes
  cpy : ∀ c : Nat, (w.cls c).pyBases = σ.pyBases c
  cinh : ∀ c : Nat, (w.cls c).inherit = σ.inh c
  cdecl : ∀ c i : Nat, i ≠ 0 → (i ∈ (w.cls c).declared ↔ i ∈ σ.D c)
  decl_if : ∀ c i : Nat, i ∈ (w.cls c).declared → i ∈ σ.ifaces
  nospec : ∀ c : Nat, (w.cls c).spec = none → (w.cls c).declared = [] ∧ (w.cls c).inherit = true
  spec_cls : ∀ c s : Nat, (w.cls c).spec = some s → c ∈ σ.classes ∧ 1000 ≤ s ∧ s < w.next
  spec_inj : ∀ c c' s : Nat, (w.cls c).spec = some s → (w.cls c').spec = some s → c = c'
  spec_py : ∀ c s b : Nat, (w.cls c).spec = some s → b ∈ σ.pyBases c → ∃ sb, (w.cls b).spec = some sb ∧ sb < s
  spec_bases : ∀ c s x : Nat, (w.cls c).spec = some s →
    (x ∈ w.g.bases s ↔ (x ∈ (w.cls c).declared ∨ ((w.cls c).inherit = true ∧ ∃ b ∈ σ.pyBases c, (w.cls b).spec = some x)))

/-- instance part: an instance declaration is a `Provides` object whose bases are the kept interfaces followed by the
specification of the instance's class; cached `Provides` objects are `Provides` objects -/
structure ISim (w : W) (σ : Spec) : Prop where
  iids : w.instIds = σ.insts
  icls : ∀ o : Nat, (w.inst o).cls = σ.clsOf o
  knone : ∀ o : Nat, (w.inst o).prov = none → σ.K o = none
  iprov : ∀ o p : Nat, (w.inst o).prov = some p →
    IsPNode w p ∧ σ.K o ≠ none ∧ ∃ s, (w.cls (σ.clsOf o)).spec = some s ∧ w.g.bases p = σ.Kl o ++ [s]
  pc : ∀ e ∈ w.pcache, IsPNode w e.2

structure Sim (w : W) (σ : Spec) : Prop where
  wf : SpecWF σ
  g : GSim w σ
  c : CSim w σ
  i : ISim w σ

theorem Sim.bases0 {w : W} {σ : Spec} (h : Sim w σ) : w.g.bases 0 = [] := by
  rw [h.g.ib 0 (by omega')]; exact h.wf.ib0

theorem Sim.shape {w : W} {σ : Spec} (h : Sim w σ) : Shape σ.ifaces w.next w.g.bases := by
  constructor
  · intro x b hx hb
    rw [h.g.ib x hx] at hb
    obtain ⟨h1, h2, h3⟩ := h.wf.ib_wf x b hb
    exact ⟨h1, h.wf.if_lt b h2, h2, h3⟩
  · intro x b hx hb
    obtain ⟨h1, h2⟩ := h.g.hi x b hx hb
    refine ⟨h1, ?_⟩
    rcases h2 with h2 | h2
    · exact Or.inl ⟨h.wf.if_lt b h2, h2⟩
    · exact Or.inr h2

theorem Sim.mem_sro {w : W} {σ : Spec} (h : Sim w σ) (s t : Nat) :
    t ∈ w.g.sro s ↔ (Reach w.g.bases s t ∨ t = 0) := mem_sro_iff h.g.inv h.g.root h.bases0 s t

/-- from an interface, the graph and the abstract interface DAG reach the same things -/
theorem Sim.reach_iface {w : W} {σ : Spec} (h : Sim w σ) {x t : Nat} (hx : x < 1000) :
    Reach w.g.bases x t ↔ Reach σ.ibases x t := by
  constructor
  · intro hr
    induction hr with
    | refl => exact Reach.refl _
    | @step s b t' hb _ ih =>
      have hb' : b ∈ σ.ibases s := by rw [← h.g.ib s hx]; exact hb
      exact Reach.step hb' (ih (h.wf.if_lt b (h.wf.ib_wf s b hb').2.1))
  · intro hr
    induction hr with
    | refl => exact Reach.refl _
    | @step s b t' hb _ ih =>
      have hb' : b ∈ w.g.bases s := by rw [h.g.ib s hx]; exact hb
      exact Reach.step hb' (ih (h.wf.if_lt b (h.wf.ib_wf s b hb).2.1))

theorem Sim.reach_zero {σ : Spec} (h : SpecWF σ) {t : Nat} (hr : Reach σ.ibases 0 t) : t = 0 := by
  rcases reach_iff.mp hr with h1 | ⟨b, hb, _⟩
  · exact h1
  · rw [h.ib0] at hb; simp at hb

/-- **core lemma, classes**: everything an interface-id reachable from the class specification is implied abstractly -/
theorem Sim.reach_impl {w : W} {σ : Spec} (h : Sim w σ) : ∀ (s c i : Nat), (w.cls c).spec = some s → i < 1000 →
    Reach w.g.bases s i → Impl σ c i := by
  intro s
  induction s using Nat.strongRecOn with
  | _ s ih =>
    intro c i hs hi hr
    rcases reach_iff.mp hr with h1 | ⟨b, hb, hbi⟩
    · have := (h.c.spec_cls c s hs).2.1; omega'
    · rcases (h.c.spec_bases c s b hs).mp hb with hd | ⟨hinh, pb, hpb, hpbs⟩
      · have hbif := h.c.decl_if c b hd
        have hblt := h.wf.if_lt b hbif
        have hr' := (h.reach_iface hblt).mp hbi
        by_cases hb0 : b = 0
        · subst hb0; rw [Sim.reach_zero h.wf hr']; exact Impl.root c
        · exact Impl.decl ((h.c.cdecl c b hb0).mp hd) hr'
      · obtain ⟨sb, hsb, hlt⟩ := h.c.spec_py c s pb hs hpb
        have : sb = b := by rw [hsb] at hpbs; exact Option.some.inj hpbs
        subst this
        exact Impl.inh (by rw [← h.c.cinh c]; exact hinh) hpb (ih sb hlt pb i hpbs hi hbi)

theorem Sim.impl_reach {w : W} {σ : Spec} (h : Sim w σ) {c i : Nat} (hi : Impl σ c i) :
    ∀ s, (w.cls c).spec = some s → (Reach w.g.bases s i ∨ i = 0) := by
  induction hi with
  | root c => intro s _; exact Or.inr rfl
  | @decl c x i hx hr =>
    intro s hs
    by_cases hx0 : x = 0
    · subst hx0; exact Or.inr (Sim.reach_zero h.wf hr)
    · have hd := (h.c.cdecl c x hx0).mpr hx
      have hxlt := h.wf.if_lt x (h.wf.D_if c x hx)
      exact Or.inl (Reach.step ((h.c.spec_bases c s x hs).mpr (Or.inl hd)) ((h.reach_iface hxlt).mpr hr))
  | @inh c b i h1 h2 _ ih =>
    intro s hs
    obtain ⟨sb, hsb, _⟩ := h.c.spec_py c s b hs h2
    rcases ih sb hsb with hr | h0
    · exact Or.inl (Reach.step ((h.c.spec_bases c s sb hs).mpr (Or.inr ⟨by rw [h.c.cinh c]; exact h1, b, h2, hsb⟩)) hr)
    · exact Or.inr h0

/-- **core lemma, classes**: the cached order of a class specification lists exactly the abstractly implied interfaces -/
theorem Sim.impl_iff {w : W} {σ : Spec} (h : Sim w σ) {c s i : Nat} (hs : (w.cls c).spec = some s) (hi : i < 1000) :
    i ∈ w.g.sro s ↔ Impl σ c i := by
  rw [h.mem_sro]
  constructor
  · rintro (hr | rfl)
    · exact h.reach_impl s c i hs hi hr
    · exact Impl.root c
  · intro hI; exact h.impl_reach hI s hs

/-- **core lemma, instances** -/
theorem Sim.prov_iff {w : W} {σ : Spec} (h : Sim w σ) {o p i : Nat} (hp : (w.inst o).prov = some p) (hi : i < 1000) :
    i ∈ w.g.sro p ↔ Prov σ o i := by
  obtain ⟨⟨hp1, _, _⟩, _, s, hs, hb⟩ := h.i.iprov o p hp
  rw [h.mem_sro]
  constructor
  · rintro (hr | rfl)
    · rcases reach_iff.mp hr with h1 | ⟨b, hb', hbi⟩
      · omega'
      · rw [hb] at hb'
        rcases List.mem_append.mp hb' with hk | hk
        · have hblt := h.wf.if_lt b (h.wf.K_if o b hk)
          exact Or.inl (Or.inr ⟨b, hk, (h.reach_iface hblt).mp hbi⟩)
        · simp at hk; subst hk
          exact Or.inr (h.reach_impl b _ i hs hi hbi)
    · exact Or.inl (Or.inl rfl)
  · rintro ((rfl | ⟨x, hx, hr⟩) | hI)
    · exact Or.inr rfl
    · have hxlt := h.wf.if_lt x (h.wf.K_if o x hx)
      exact Or.inl (Reach.step (by rw [hb]; simp [hx]) ((h.reach_iface hxlt).mpr hr))
    · rcases h.impl_reach hI s hs with hr | h0
      · exact Or.inl (Reach.step (by rw [hb]; simp) hr)
      · exact Or.inr h0

/-! ## 4. the abstract transitions keep the abstract state well-formed -/

theorem Kl_upd_same (σ : Spec) (o : Nat) (v : Option (List Nat)) : (upd σ.K o v o).getD [] = v.getD [] := by simp

theorem specStep_wf {σ : Spec} (h : SpecWF σ) (op : HOp) (hw : WFop σ op) : SpecWF (specStep σ op) := by
  -- a direct declaration replaced by a sub-list of a duplicate-free list of existing interfaces
  have hK : ∀ (o : Nat) (l : List Nat), (∀ i ∈ l, i ∈ σ.ifaces) → l.Nodup →
      SpecWF { σ with K := upd σ.K o (some l) } := by
    intro o l hl hnd
    refine { h with K_if := ?_, K_nodup := ?_ }
    · intro o' i hi
      by_cases ho : o' = o
      · subst ho; simp [Spec.Kl] at hi; exact hl i hi
      · simp only [Spec.Kl, upd_other _ _ ho] at hi; exact h.K_if o' i hi
    · intro o'
      by_cases ho : o' = o
      · subst ho; simpa [Spec.Kl] using hnd
      · simp only [Spec.Kl, upd_other _ _ ho]; exact h.K_nodup o'
  have hD : ∀ (c : Nat) (l : List Nat), (∀ i ∈ l, i ∈ σ.ifaces) → SpecWF { σ with D := upd σ.D c l } := by
    intro c l hl
    refine { h with D_if := ?_ }
    intro c' i hi
    by_cases hc : c' = c
    · subst hc; simp at hi; exact hl i hi
    · simp only [upd_other _ _ hc] at hi; exact h.D_if c' i hi
  cases op with
  | iface i bs =>
    obtain ⟨h1, h2, h3, h4⟩ := hw
    have hi0 : i ≠ 0 := fun e => h2 (e ▸ h.zero_mem)
    refine { zero_mem := ?_, if_lt := ?_, ib0 := ?_, ib_wf := ?_, py_wf := h.py_wf, py_nodup := h.py_nodup, D_if := ?_,
             cls_mem := h.cls_mem, K_if := ?_, K_nodup := h.K_nodup }
    · simp [specStep, h.zero_mem]
    · intro j hj; simp only [specStep, List.mem_append, List.mem_singleton] at hj
      rcases hj with hj | rfl
      · exact h.if_lt j hj
      · exact h1
    · simp only [specStep]; rw [upd_other _ _ (Ne.symm hi0)]; exact h.ib0
    · intro x b hb
      simp only [specStep] at hb ⊢
      by_cases hx : x = i
      · subst hx
        rw [upd_same] at hb
        have hbm := h4 b hb
        refine ⟨by simp, by simp [hbm], ?_⟩
        rw [List.idxOf_append, List.idxOf_append]
        simp only [hbm, h2, if_true, if_false]
        have := List.idxOf_lt_length_of_mem hbm
        omega
      · rw [upd_other _ _ hx] at hb
        obtain ⟨a1, a2, a3⟩ := h.ib_wf x b hb
        refine ⟨by simp [a1], by simp [a2], ?_⟩
        rw [List.idxOf_append, List.idxOf_append]
        simp only [a1, a2, if_true]; exact a3
    · intro c j hj; simp only [specStep, List.mem_append]; exact Or.inl (h.D_if c j hj)
    · intro o j hj; simp only [specStep, List.mem_append]; exact Or.inl (h.K_if o j hj)
  | cls c pb =>
    obtain ⟨h1, h2, h3⟩ := hw
    refine { zero_mem := h.zero_mem, if_lt := h.if_lt, ib0 := h.ib0, ib_wf := h.ib_wf, py_wf := ?_, py_nodup := ?_,
             D_if := ?_, cls_mem := ?_, K_if := h.K_if, K_nodup := h.K_nodup }
    · intro x b hb
      simp only [specStep] at hb ⊢
      by_cases hx : x = c
      · subst hx
        rw [upd_same] at hb
        have hbm := h3 b hb
        refine ⟨by simp, by simp [hbm], ?_⟩
        rw [List.idxOf_append, List.idxOf_append]
        simp only [hbm, h1, if_true, if_false]
        have := List.idxOf_lt_length_of_mem hbm
        omega
      · rw [upd_other _ _ hx] at hb
        obtain ⟨a1, a2, a3⟩ := h.py_wf x b hb
        refine ⟨by simp [a1], by simp [a2], ?_⟩
        rw [List.idxOf_append, List.idxOf_append]
        simp only [a1, a2, if_true]; exact a3
    · intro x
      simp only [specStep]
      by_cases hx : x = c
      · subst hx; rw [upd_same]; exact h2
      · rw [upd_other _ _ hx]; exact h.py_nodup x
    · intro x j hj
      simp only [specStep] at hj ⊢
      by_cases hx : x = c
      · subst hx; simp at hj
      · rw [upd_other _ _ hx] at hj; exact h.D_if x j hj
    · intro o ho; simp only [specStep, List.mem_append]; exact Or.inl (h.cls_mem o ho)
  | inst o c =>
    obtain ⟨h1, h2⟩ := hw
    refine { h with cls_mem := ?_, K_if := ?_, K_nodup := ?_ }
    · intro o' ho'
      simp only [specStep, List.mem_append, List.mem_singleton] at ho' ⊢
      by_cases hx : o' = o
      · subst hx; rw [upd_same]; exact h2
      · rw [upd_other _ _ hx]; rcases ho' with ho' | ho'
        · exact h.cls_mem o' ho'
        · exact absurd ho' hx
    · intro o' j hj
      simp only [specStep, Spec.Kl] at hj ⊢
      by_cases hx : o' = o
      · subst hx; simp at hj
      · rw [upd_other _ _ hx] at hj; exact h.K_if o' j hj
    · intro o'
      simp only [specStep, Spec.Kl]
      by_cases hx : o' = o
      · subst hx; simp
      · rw [upd_other _ _ hx]; exact h.K_nodup o'
  | classImplements c L =>
    apply hD
    intro i hi
    rcases List.mem_append.mp hi with hi | hi
    · exact h.D_if c i hi
    · exact hw.2 i (List.mem_filter.mp hi).1
  | classImplementsFirst c i =>
    apply hD
    intro j hj
    rcases List.mem_append.mp hj with hj | hj
    · exact h.D_if c j hj
    · have := (List.mem_filter.mp hj).1; simp at this; subst this; exact hw.2
  | classImplementsOnly c L =>
    have := hD c L hw.2
    exact { this with }
  | directlyProvides o L =>
    exact hK o _ (fun i hi => hw.2.1 i (List.mem_filter.mp hi).1) (hw.2.2.filter _)
  | alsoProvides o L =>
    refine hK o _ (fun i hi => ?_) (hw.2.2.filter _)
    rcases List.mem_append.mp (List.mem_filter.mp hi).1 with hi | hi
    · exact h.K_if o i hi
    · exact hw.2.1 i hi
  | noLongerProvides o j =>
    exact hK o _ (fun i hi => h.K_if o i (List.mem_filter.mp (List.mem_filter.mp hi).1).1)
      (((h.K_nodup o).filter _).filter _)
  | qImpl c => exact h
  | qProv o => exact h

theorem Spec.init_wf : SpecWF Spec.init := by
  refine ⟨by simp [Spec.init], by simp [Spec.init], rfl, ?_, ?_, ?_, ?_, ?_, ?_, ?_⟩ <;> simp [Spec.init, Spec.Kl]

/-! ## 5. frame lemmas: parts of the invariant not touched by a transition -/

theorem shape_of {σ : Spec} (wf : SpecWF σ) {bases : Nat → List Nat} {next : Nat}
    (ib : ∀ x : Nat, x < 1000 → bases x = σ.ibases x)
    (hi : ∀ x b : Nat, 1000 ≤ x → b ∈ bases x → x < next ∧ (b ∈ σ.ifaces ∨ (1000 ≤ b ∧ b < x))) :
    Shape σ.ifaces next bases := by
  constructor
  · intro x b hx hb
    rw [ib x hx] at hb
    obtain ⟨h1, h2, h3⟩ := wf.ib_wf x b hb
    exact ⟨h1, wf.if_lt b h2, h2, h3⟩
  · intro x b hx hb
    obtain ⟨h1, h2⟩ := hi x b hx hb
    refine ⟨h1, ?_⟩
    rcases h2 with h2 | h2
    · exact Or.inl ⟨wf.if_lt b h2, h2⟩
    · exact Or.inr h2

theorem GSim.frame {w w' : W} {σ σ' : Spec} (h : GSim w σ) (h1 : w'.g = w.g) (h2 : w'.next = w.next)
    (h3 : w'.fixedProvides = w.fixedProvides) (e1 : σ'.ifaces = σ.ifaces) (e2 : σ'.ibases = σ.ibases) : GSim w' σ' := by
  refine ⟨?_, ?_, ?_, ?_, ?_, ?_, ?_⟩
  · rw [h1]; exact h.inv
  · rw [h1]; exact h.root
  · rw [h2]; exact h.next_ge
  · rw [h1, h2, e1]; exact h.count
  · rw [h3]; exact h.fixed
  · rw [h1, e2]; exact h.ib
  · rw [h1, h2, e1]; exact h.hi

theorem CSim.frame {w w' : W} {σ σ' : Spec} (h : CSim w σ) (h1 : w'.classIds = w.classIds) (h2 : w'.cls = w.cls)
    (h3 : w.next ≤ w'.next) (h4 : ∀ x : Nat, 1000 ≤ x → x < w.next → w'.g.bases x = w.g.bases x)
    (e1 : σ'.classes = σ.classes) (e2 : σ'.pyBases = σ.pyBases) (e3 : σ'.D = σ.D) (e4 : σ'.inh = σ.inh)
    (e5 : ∀ i ∈ σ.ifaces, i ∈ σ'.ifaces) : CSim w' σ' := by
  refine ⟨?_, ?_, ?_, ?_, ?_, ?_, ?_, ?_, ?_, ?_⟩
  · rw [h1, e1]; exact h.cids
  · rw [h2, e2]; exact h.cpy
  · rw [h2, e4]; exact h.cinh
  · rw [h2, e3]; exact h.cdecl
  · rw [h2]; intro c i hi; exact e5 i (h.decl_if c i hi)
  · rw [h2]; exact h.nospec
  · rw [h2, e1]; intro c s hs; obtain ⟨a, b, c'⟩ := h.spec_cls c s hs; exact ⟨a, b, by omega'⟩
  · rw [h2]; exact h.spec_inj
  · rw [h2, e2]; exact h.spec_py
  · rw [h2, e2]; intro c s x hs
    obtain ⟨_, b, c'⟩ := h.spec_cls c s hs
    rw [h4 s b c']; exact h.spec_bases c s x hs

theorem IsPNode.mono {w w' : W} {p : Nat} (h : IsPNode w p) (h4 : w.next ≤ w'.next)
    (h6 : ∀ c s : Nat, (w'.cls c).spec = some s → (w.cls c).spec = some s ∨ w.next ≤ s) : IsPNode w' p := by
  obtain ⟨a, b, c⟩ := h
  refine ⟨a, by omega', fun c' hc' => ?_⟩
  rcases h6 c' p hc' with h' | h'
  · exact c c' h'
  · omega'

theorem ISim.frame {w w' : W} {σ σ' : Spec} (h : ISim w σ) (h1 : w'.instIds = w.instIds) (h2 : w'.inst = w.inst)
    (h3 : w'.pcache = w.pcache) (h4 : w.next ≤ w'.next)
    (h5 : ∀ c s : Nat, (w.cls c).spec = some s → (w'.cls c).spec = some s)
    (h6 : ∀ c s : Nat, (w'.cls c).spec = some s → (w.cls c).spec = some s ∨ w.next ≤ s)
    (h7 : ∀ p : Nat, IsPNode w p → w'.g.bases p = w.g.bases p)
    (e1 : σ'.insts = σ.insts) (e2 : σ'.clsOf = σ.clsOf) (e3 : σ'.K = σ.K) : ISim w' σ' := by
  refine ⟨?_, ?_, ?_, ?_, ?_⟩
  · rw [h1, e1]; exact h.iids
  · rw [h2, e2]; exact h.icls
  · rw [h2, e3]; exact h.knone
  · rw [h2]; intro o p hp
    obtain ⟨a, b, s, c, d⟩ := h.iprov o p hp
    refine ⟨a.mono h4 h6, by rw [e3]; exact b, s, by rw [e2]; exact h5 _ s c, ?_⟩
    rw [h7 p a, d]; simp [Spec.Kl, e3]
  · rw [h3]; intro e he; exact (h.pc e he).mono h4 h6

/-! ## 6. the creation steps -/

theorem sim_iface {w : W} {σ : Spec} (h : Sim w σ) (i : Nat) (bs : List Nat) (hw : WFop σ (.iface i bs)) :
    Sim { w with g := newNode w.g i bs } (specStep σ (.iface i bs)) := by
  have wf' := specStep_wf h.wf _ hw
  obtain ⟨h1, h2, h3, h4⟩ := hw
  have ib' : ∀ x : Nat, x < 1000 → upd w.g.bases i bs x = upd σ.ibases i bs x := by
    intro x hx
    by_cases hxi : x = i
    · subst hxi; simp
    · rw [upd_other _ _ hxi, upd_other _ _ hxi]; exact h.g.ib x hx
  have hi' : ∀ x b : Nat, 1000 ≤ x → b ∈ upd w.g.bases i bs x →
      x < w.next ∧ (b ∈ σ.ifaces ++ [i] ∨ (1000 ≤ b ∧ b < x)) := by
    intro x b hx hb
    rw [upd_other _ _ (by omega')] at hb
    obtain ⟨a, b'⟩ := h.g.hi x b hx hb
    exact ⟨a, b'.imp (fun m => by simp [m]) id⟩
  have hcount := h.g.count
  refine ⟨wf', ?_, ?_, ?_⟩
  · refine ⟨?_, ?_, h.g.next_ge, ?_, h.g.fixed, ?_, ?_⟩
    · exact inv_newNode h.g.inv i bs h3 h.g.next_ge (shape_of wf' ib' hi') (by simp [specStep]; omega')
    · show (newNode w.g i bs).root = 0; rw [root_newNode]; exact h.g.root
    · show (newNode w.g i bs).ids.length = _; rw [ids_newNode]; simp [specStep]; omega'
    · intro x hx; show (newNode w.g i bs).bases x = _; rw [bases_newNode]; exact ib' x hx
    · intro x b hx hb
      have hb2 : b ∈ (newNode w.g i bs).bases x := hb
      rw [bases_newNode] at hb2; exact hi' x b hx hb2
  · exact h.c.frame rfl rfl (Nat.le_refl _)
      (fun x hx _ => by show (newNode w.g i bs).bases x = _; rw [bases_newNode, upd_other _ _ (by omega')])
      rfl rfl rfl rfl (fun j hj => by simp [specStep, hj])
  · exact h.i.frame rfl rfl rfl (Nat.le_refl _) (fun _ _ h => h) (fun _ _ h => Or.inl h)
      (fun p hp => by
        show (newNode w.g i bs).bases p = _
        have := hp.1
        rw [bases_newNode, upd_other _ _ (by omega')]) rfl rfl rfl

theorem sim_cls {w : W} {σ : Spec} (h : Sim w σ) (c : Nat) (pb : List Nat) (hw : WFop σ (.cls c pb)) :
    Sim (w.setCls c { pyBases := pb }) (specStep σ (.cls c pb)) := by
  have wf' := specStep_wf h.wf _ hw
  obtain ⟨h1, h2, h3⟩ := hw
  have hnone : (w.cls c).spec = none := by
    cases hsp : (w.cls c).spec with
    | none => rfl
    | some s => exact absurd (h.c.spec_cls c s hsp).1 h1
  have hcls : (w.setCls c { pyBases := pb }).cls = upd w.cls c { pyBases := pb } := rfl
  have hspec : ∀ b : Nat, ((w.setCls c { pyBases := pb }).cls b).spec = (w.cls b).spec := by
    intro b; rw [hcls]
    by_cases hb : b = c
    · subst hb; simp [hnone]
    · rw [upd_other _ _ hb]
  have hids : (w.setCls c { pyBases := pb }).classIds = σ.classes ++ [c] := by
    have : w.classIds.contains c = false := by rw [h.c.cids]; simpa using h1
    simp [W.setCls, h.c.cids, h1]
  refine ⟨wf', h.g.frame rfl rfl rfl rfl rfl, ?_, ?_⟩
  · refine ⟨hids, ?_, ?_, ?_, ?_, ?_, ?_, ?_, ?_, ?_⟩
    · intro x; rw [hcls]; simp only [specStep]
      by_cases hx : x = c
      · subst hx; simp
      · rw [upd_other _ _ hx, upd_other _ _ hx]; exact h.c.cpy x
    · intro x; rw [hcls]; simp only [specStep]
      by_cases hx : x = c
      · subst hx; simp
      · rw [upd_other _ _ hx, upd_other _ _ hx]; exact h.c.cinh x
    · intro x i hi; rw [hcls]; simp only [specStep]
      by_cases hx : x = c
      · subst hx; simp
      · rw [upd_other _ _ hx, upd_other _ _ hx]; exact h.c.cdecl x i hi
    · intro x i hi; rw [hcls] at hi
      by_cases hx : x = c
      · subst hx; simp at hi
      · rw [upd_other _ _ hx] at hi; exact h.c.decl_if x i hi
    · intro x hx'; rw [hcls]
      by_cases hx : x = c
      · subst hx; simp
      · rw [upd_other _ _ hx]; rw [hspec] at hx'; exact h.c.nospec x hx'
    · intro x s hs; rw [hspec] at hs
      obtain ⟨a, b, c'⟩ := h.c.spec_cls x s hs
      exact ⟨by simp [specStep, a], b, c'⟩
    · intro x x' s hs hs'; rw [hspec] at hs hs'; exact h.c.spec_inj x x' s hs hs'
    · intro x s b hs hb; rw [hspec] at hs
      have hx : x ≠ c := fun e => by rw [e, hnone] at hs; cases hs
      simp only [specStep, upd_other _ _ hx] at hb
      rw [hspec]; exact h.c.spec_py x s b hs hb
    · intro x s y hs; rw [hspec] at hs
      have hx : x ≠ c := fun e => by rw [e, hnone] at hs; cases hs
      simp only [hspec]
      rw [hcls, upd_other _ _ hx]; simp only [specStep, upd_other _ _ hx]
      exact h.c.spec_bases x s y hs
  · exact h.i.frame rfl rfl rfl (Nat.le_refl _) (fun x s hs => by rw [hspec]; exact hs)
      (fun x s hs => by rw [hspec] at hs; exact Or.inl hs) (fun _ _ => rfl) rfl rfl rfl

theorem sim_inst {w : W} {σ : Spec} (h : Sim w σ) (o c : Nat) (hw : WFop σ (.inst o c)) :
    Sim (w.setInst o { cls := c }) (specStep σ (.inst o c)) := by
  have wf' := specStep_wf h.wf _ hw
  obtain ⟨h1, h2⟩ := hw
  have hinst : (w.setInst o { cls := c }).inst = upd w.inst o { cls := c } := rfl
  have hids : (w.setInst o { cls := c }).instIds = σ.insts ++ [o] := by
    have : w.instIds.contains o = false := by rw [h.i.iids]; simpa using h1
    simp [W.setInst, h.i.iids, h1]
  have hpn : ∀ p : Nat, IsPNode (w.setInst o { cls := c }) p ↔ IsPNode w p := fun p => Iff.rfl
  refine ⟨wf', h.g.frame rfl rfl rfl rfl rfl, h.c.frame rfl rfl (Nat.le_refl _) (fun _ _ _ => rfl) rfl rfl rfl rfl
    (fun _ h => h), ?_⟩
  refine ⟨hids, ?_, ?_, ?_, h.i.pc⟩
  · intro x; rw [hinst]; simp only [specStep]
    by_cases hx : x = o
    · subst hx; simp
    · rw [upd_other _ _ hx, upd_other _ _ hx]; exact h.i.icls x
  · intro x hx'; rw [hinst] at hx'; simp only [specStep]
    by_cases hx : x = o
    · subst hx; simp
    · rw [upd_other _ _ hx] at hx' ⊢; exact h.i.knone x hx'
  · intro x p hp; rw [hinst] at hp
    by_cases hx : x = o
    · subst hx; simp at hp
    · rw [upd_other _ _ hx] at hp
      simp only [specStep, Spec.Kl, upd_other _ _ hx]
      exact h.i.iprov x p hp

/-! ## 7. `implementedBy`: lazily creating class specifications keeps the invariant (same abstract state) -/

theorem mem_of_map_some {l bs : List Nat} {f : Nat → Option Nat} (h : bs.map some = l.map f) (x : Nat) :
    x ∈ bs ↔ ∃ b ∈ l, f b = some x := by
  have : x ∈ bs ↔ some x ∈ bs.map some := by simp
  rw [this, h]; simp

theorem nodup_of_map_some {f : Nat → Option Nat} (hinj : ∀ a b s, f a = some s → f b = some s → a = b) :
    ∀ {l bs : List Nat}, l.Nodup → bs.map some = l.map f → bs.Nodup := by
  intro l
  induction l with
  | nil => intro bs _ h; simp at h; subst h; simp
  | cons a t ih =>
    intro bs hl h
    cases bs with
    | nil => simp
    | cons s bs' =>
      simp only [List.map_cons, List.cons.injEq] at h
      obtain ⟨h1, h2⟩ := h
      have hl' := List.nodup_cons.mp hl
      rw [List.nodup_cons]
      refine ⟨fun hs => ?_, ih hl'.2 h2⟩
      obtain ⟨b, hb, hfb⟩ := (mem_of_map_some h2 s).mp hs
      have := hinj a b s h1.symm hfb
      subst this
      exact hl'.1 hb

theorem implementedBy_some {f : Nat} {w : W} {c s : Nat} (h : (w.cls c).spec = some s) :
    implementedBy (f+1) w c = (w, s) := by simp [implementedBy, h]

theorem implementedBy_none {f : Nat} {w : W} {c : Nat} (h : (w.cls c).spec = none) :
    implementedBy (f+1) w c = mkSpec (specFold (implementedBy f) w (w.cls c).pyBases).1 c
      (specFold (implementedBy f) w (w.cls c).pyBases).2 := by simp [implementedBy, h]

/-- specifications, once created, stay -/
def Ext (w w' : W) : Prop := ∀ x s : Nat, (w.cls x).spec = some s → (w'.cls x).spec = some s

theorem sim_mkSpec {w : W} {σ : Spec} (h : Sim w σ) {c : Nat} (hc : c ∈ σ.classes) (hnone : (w.cls c).spec = none)
    {bspecs : List Nat} (hbs : bspecs.map some = (σ.pyBases c).map (fun b => (w.cls b).spec)) :
    Sim (mkSpec w c bspecs).1 σ ∧ ((mkSpec w c bspecs).1.cls c).spec = some (mkSpec w c bspecs).2 ∧
    Ext w (mkSpec w c bspecs).1 := by
  have hmem := mem_of_map_some hbs
  have hcls : (mkSpec w c bspecs).1.cls = upd w.cls c { w.cls c with spec := some w.next } := rfl
  have hnext : (mkSpec w c bspecs).1.next = w.next + 1 := rfl
  have hg : (mkSpec w c bspecs).1.g = newNode w.g w.next bspecs := rfl
  have hids : (mkSpec w c bspecs).1.classIds = w.classIds := by
    have : c ∈ w.classIds := by rw [h.c.cids]; exact hc
    simp [mkSpec, W.setCls, this]
  have hne : ∀ x : Nat, x ≠ c → (mkSpec w c bspecs).1.cls x = w.cls x := fun x hx => by rw [hcls, upd_other _ _ hx]
  have hcc : (mkSpec w c bspecs).1.cls c = { w.cls c with spec := some w.next } := by rw [hcls, upd_same]
  have hnge := h.g.next_ge
  have hext : Ext w (mkSpec w c bspecs).1 := by
    intro x s hs
    have hx : x ≠ c := fun e => by rw [e, hnone] at hs; cases hs
    rw [hne x hx]; exact hs
  -- every class that has a specification does not list `c` among its bases
  have hnotbase : ∀ x s : Nat, (w.cls x).spec = some s → c ∉ σ.pyBases x := by
    intro x s hs hcx
    obtain ⟨sb, hsb, _⟩ := h.c.spec_py x s c hs hcx
    rw [hnone] at hsb; cases hsb
  have hself : c ∉ σ.pyBases c := fun hcc' => by have := (h.wf.py_wf c c hcc').2.2; omega
  have ib' : ∀ x : Nat, x < 1000 → upd w.g.bases w.next bspecs x = σ.ibases x := by
    intro x hx; rw [upd_other _ _ (by omega')]; exact h.g.ib x hx
  have hi' : ∀ x b : Nat, 1000 ≤ x → b ∈ upd w.g.bases w.next bspecs x →
      x < w.next + 1 ∧ (b ∈ σ.ifaces ∨ (1000 ≤ b ∧ b < x)) := by
    intro x b hx hb
    by_cases hxn : x = w.next
    · subst hxn
      rw [upd_same] at hb
      obtain ⟨pb, _, hpbs⟩ := (hmem b).mp hb
      obtain ⟨_, a1, a2⟩ := h.c.spec_cls pb b hpbs
      exact ⟨by omega', Or.inr ⟨a1, a2⟩⟩
    · rw [upd_other _ _ hxn] at hb
      obtain ⟨a, b'⟩ := h.g.hi x b hx hb
      exact ⟨by omega', b'⟩
  have hnd : bspecs.Nodup := nodup_of_map_some (fun a b s ha hb => h.c.spec_inj a b s ha hb) (h.wf.py_nodup c) hbs
  have hcount := h.g.count
  refine ⟨⟨h.wf, ?_, ?_, ?_⟩, by rw [hcc]; rfl, hext⟩
  · refine ⟨?_, ?_, ?_, ?_, h.g.fixed, ?_, ?_⟩
    · rw [hg]
      exact inv_newNode h.g.inv w.next bspecs hnd (by omega') (shape_of h.wf ib' hi') (by omega')
    · rw [hg, root_newNode]; exact h.g.root
    · rw [hnext]; omega'
    · rw [hg, ids_newNode, hnext]; simp; omega'
    · intro x hx; rw [hg, bases_newNode]; exact ib' x hx
    · intro x b hx hb; rw [hg, bases_newNode] at hb; rw [hnext]; exact hi' x b hx hb
  · refine ⟨by rw [hids]; exact h.c.cids, ?_, ?_, ?_, ?_, ?_, ?_, ?_, ?_, ?_⟩
    · intro x; by_cases hx : x = c
      · subst hx; rw [hcc]; exact h.c.cpy x
      · rw [hne x hx]; exact h.c.cpy x
    · intro x; by_cases hx : x = c
      · subst hx; rw [hcc]; exact h.c.cinh x
      · rw [hne x hx]; exact h.c.cinh x
    · intro x i hi; by_cases hx : x = c
      · subst hx; rw [hcc]; exact h.c.cdecl x i hi
      · rw [hne x hx]; exact h.c.cdecl x i hi
    · intro x i hi; by_cases hx : x = c
      · subst hx; rw [hcc] at hi; exact h.c.decl_if x i hi
      · rw [hne x hx] at hi; exact h.c.decl_if x i hi
    · intro x hx'; by_cases hx : x = c
      · subst hx; rw [hcc] at hx'; cases hx'
      · rw [hne x hx] at hx' ⊢; exact h.c.nospec x hx'
    · intro x s hs; by_cases hx : x = c
      · subst hx; rw [hcc] at hs
        have : s = w.next := (Option.some.inj hs).symm
        subst this
        exact ⟨hc, by omega', by omega'⟩
      · rw [hne x hx] at hs
        obtain ⟨a, b, c'⟩ := h.c.spec_cls x s hs
        exact ⟨a, b, by omega'⟩
    · intro x x' s hs hs'
      by_cases hx : x = c
      · by_cases hx' : x' = c
        · rw [hx, hx']
        · subst hx; rw [hcc] at hs; rw [hne x' hx'] at hs'
          have : s = w.next := (Option.some.inj hs).symm
          have := (h.c.spec_cls x' s hs').2.2
          omega'
      · by_cases hx' : x' = c
        · subst hx'; rw [hcc] at hs'; rw [hne x hx] at hs
          have : s = w.next := (Option.some.inj hs').symm
          have := (h.c.spec_cls x s hs).2.2
          omega'
        · rw [hne x hx] at hs; rw [hne x' hx'] at hs'; exact h.c.spec_inj x x' s hs hs'
    · intro x s b hs hb
      by_cases hx : x = c
      · subst hx; rw [hcc] at hs
        have hsn : s = w.next := (Option.some.inj hs).symm
        have hbx : b ≠ x := fun e => hself (e ▸ hb)
        have hm : (w.cls b).spec ∈ (σ.pyBases x).map (fun b => (w.cls b).spec) := List.mem_map.mpr ⟨b, hb, rfl⟩
        rw [← hbs] at hm
        obtain ⟨sb, hsb, hsb'⟩ := List.mem_map.mp hm
        refine ⟨sb, by rw [hne b hbx]; exact hsb'.symm, ?_⟩
        have := (h.c.spec_cls b sb hsb'.symm).2.2
        omega'
      · rw [hne x hx] at hs
        have hbc : b ≠ c := fun e => hnotbase x s hs (e ▸ hb)
        rw [hne b hbc]; exact h.c.spec_py x s b hs hb
    · intro x s y hs
      by_cases hx : x = c
      · subst hx; rw [hcc] at hs
        have hsn : s = w.next := (Option.some.inj hs).symm
        subst hsn
        rw [hg, bases_newNode, upd_same, hcc, hmem y]
        obtain ⟨hd, hin⟩ := h.c.nospec x hnone
        simp only [hd, hin, List.not_mem_nil, false_or, true_and]
        constructor
        · rintro ⟨b, hb, hby⟩
          exact ⟨b, hb, by rw [hne b (fun e => hself (e ▸ hb))]; exact hby⟩
        · rintro ⟨b, hb, hby⟩
          exact ⟨b, hb, by rw [hne b (fun e => hself (e ▸ hb))] at hby; exact hby⟩
      · rw [hne x hx] at hs ⊢
        have hsl := (h.c.spec_cls x s hs).2.2
        rw [hg, bases_newNode, upd_other _ _ (by omega'), h.c.spec_bases x s y hs]
        constructor
        · rintro (hd | ⟨hin, b, hb, hby⟩)
          · exact Or.inl hd
          · exact Or.inr ⟨hin, b, hb, by rw [hne b (fun e => hnotbase x s hs (e ▸ hb))]; exact hby⟩
        · rintro (hd | ⟨hin, b, hb, hby⟩)
          · exact Or.inl hd
          · exact Or.inr ⟨hin, b, hb, by rw [hne b (fun e => hnotbase x s hs (e ▸ hb))] at hby; exact hby⟩
  · refine h.i.frame rfl rfl rfl (by rw [hnext]; omega') hext ?_ ?_ rfl rfl rfl
    · intro x s hs
      by_cases hx : x = c
      · subst hx; rw [hcc] at hs
        have : s = w.next := (Option.some.inj hs).symm
        exact Or.inr (by omega')
      · rw [hne x hx] at hs; exact Or.inl hs
    · intro p hp
      have := hp.2.1
      rw [hg, bases_newNode, upd_other _ _ (by omega')]

theorem mkSpec_cls_ne (w : W) (c : Nat) (bspecs : List Nat) {x : Nat} (hx : x ≠ c) :
    (mkSpec w c bspecs).1.cls x = w.cls x := by
  show upd w.cls c _ x = _; rw [upd_other _ _ hx]

/-- classes created after position `n` are not looked at -/
def Above (σ : Spec) (n : Nat) (w w' : W) : Prop := ∀ x : Nat, n ≤ σ.classes.idxOf x → (w'.cls x).spec = (w.cls x).spec

theorem sim_implementedBy {σ : Spec} : ∀ (f : Nat) (w : W) (c : Nat), Sim w σ → c ∈ σ.classes →
    σ.classes.idxOf c < f →
    Sim (implementedBy f w c).1 σ ∧ ((implementedBy f w c).1.cls c).spec = some (implementedBy f w c).2 ∧
    Ext w (implementedBy f w c).1 ∧ Above σ (σ.classes.idxOf c + 1) w (implementedBy f w c).1 := by
  intro f
  induction f with
  | zero => intro w c _ _ h; omega
  | succ f ih =>
    intro w c h hc hf
    cases hsp : (w.cls c).spec with
    | some s => rw [implementedBy_some hsp]; exact ⟨h, hsp, fun _ _ h => h, fun _ _ => rfl⟩
    | none =>
      rw [implementedBy_none hsp]
      have hfold : ∀ (bs : List Nat) (w : W), Sim w σ →
          (∀ b ∈ bs, b ∈ σ.classes ∧ σ.classes.idxOf b < f ∧ σ.classes.idxOf b < σ.classes.idxOf c) →
          Sim (specFold (implementedBy f) w bs).1 σ ∧ Ext w (specFold (implementedBy f) w bs).1 ∧
          Above σ (σ.classes.idxOf c) w (specFold (implementedBy f) w bs).1 ∧
          (specFold (implementedBy f) w bs).2.map some
            = bs.map (fun b => ((specFold (implementedBy f) w bs).1.cls b).spec) := by
        intro bs
        induction bs with
        | nil => intro w h _; exact ⟨h, fun _ _ h => h, fun _ _ => rfl, rfl⟩
        | cons b t iht =>
          intro w h hb
          obtain ⟨hb1, hb2, hb3⟩ := hb b (by simp)
          obtain ⟨a1, a2, a3, a4⟩ := ih w b h hb1 hb2
          obtain ⟨b1, b2, b3, b4⟩ := iht (implementedBy f w b).1 a1 (fun x hx => hb x (by simp [hx]))
          simp only [specFold]
          refine ⟨b1, fun x s hs => b2 x s (a3 x s hs), fun x hx => ?_, ?_⟩
          · rw [b3 x hx, a4 x (by omega)]
          · simp only [List.map_cons, b4, b2 b _ a2]
      rw [h.c.cpy c]
      obtain ⟨b1, b2, b3, b4⟩ := hfold (σ.pyBases c) w h
        (fun b hb => by have := h.wf.py_wf c b hb; exact ⟨this.2.1, by omega, this.2.2⟩)
      have hnone' : ((specFold (implementedBy f) w (σ.pyBases c)).1.cls c).spec = none := by
        rw [b3 c (Nat.le_refl _)]; exact hsp
      obtain ⟨c1, c2, c3⟩ := sim_mkSpec b1 hc hnone' b4
      refine ⟨c1, c2, fun x s hs => c3 x s (b2 x s hs), fun x hx => ?_⟩
      have hxc : x ≠ c := fun e => by subst e; omega
      rw [mkSpec_cls_ne _ _ _ hxc, b3 x (by omega)]

/-- `implementedBy` touches neither instances nor the `Provides` cache -/
theorem implementedBy_frame : ∀ (f : Nat) (w : W) (c : Nat),
    (implementedBy f w c).1.pcache = w.pcache ∧ (implementedBy f w c).1.inst = w.inst ∧
    (implementedBy f w c).1.instIds = w.instIds ∧ (implementedBy f w c).1.pinned = w.pinned ∧
    (implementedBy f w c).1.fixedProvides = w.fixedProvides := by
  intro f
  induction f with
  | zero => intro w c; exact ⟨rfl, rfl, rfl, rfl, rfl⟩
  | succ f ih =>
    intro w c
    cases hsp : (w.cls c).spec with
    | some s => rw [implementedBy_some hsp]; exact ⟨rfl, rfl, rfl, rfl, rfl⟩
    | none =>
      rw [implementedBy_none hsp]
      have hfold : ∀ (bs : List Nat) (w : W),
          (specFold (implementedBy f) w bs).1.pcache = w.pcache ∧ (specFold (implementedBy f) w bs).1.inst = w.inst ∧
          (specFold (implementedBy f) w bs).1.instIds = w.instIds ∧ (specFold (implementedBy f) w bs).1.pinned = w.pinned ∧
          (specFold (implementedBy f) w bs).1.fixedProvides = w.fixedProvides := by
        intro bs
        induction bs with
        | nil => intro w; exact ⟨rfl, rfl, rfl, rfl, rfl⟩
        | cons b t iht =>
          intro w
          obtain ⟨a1, a2, a3, a4, a5⟩ := ih w b
          obtain ⟨b1, b2, b3, b4, b5⟩ := iht (implementedBy f w b).1
          simp only [specFold]
          exact ⟨b1.trans a1, b2.trans a2, b3.trans a3, b4.trans a4, b5.trans a5⟩
      obtain ⟨a1, a2, a3, a4, a5⟩ := hfold (w.cls c).pyBases w
      exact ⟨a1, a2, a3, a4, a5⟩

/-! ## 8. class declarations: re-basing a class specification -/

theorem upd_self {α : Type} (f : Nat → α) (s : Nat) : upd f s (f s) = f := by
  funext x; by_cases h : x = s <;> simp [upd, h]

/-- set the declared list / inherit flag of `c` and re-base its specification `s` -/
def rebase (w : W) (c s : Nat) (nd : List Nat) (inh' : Bool) (bs : List Nat) : W :=
  { (w.setCls c { w.cls c with declared := nd, inherit := inh' }) with g := setBases w.g s bs }

theorem sim_rebase {w : W} {σ : Spec} (h : Sim w σ) {c s : Nat} (hs : (w.cls c).spec = some s)
    {nd bs Dnew : List Nat} {inh' : Bool}
    (hN1 : ∀ i, i ∈ nd → i ∈ σ.ifaces) (hN2 : ∀ i, i ≠ 0 → (i ∈ nd ↔ i ∈ Dnew)) (hDif : ∀ i ∈ Dnew, i ∈ σ.ifaces)
    (hB1 : bs.Nodup)
    (hB2 : ∀ x, x ∈ bs ↔ (x ∈ nd ∨ (inh' = true ∧ ∃ b ∈ σ.pyBases c, (w.cls b).spec = some x))) :
    Sim (rebase w c s nd inh' bs) { σ with D := upd σ.D c Dnew, inh := upd σ.inh c inh' } := by
  obtain ⟨hc, hs1, hs2⟩ := h.c.spec_cls c s hs
  have hcls : (rebase w c s nd inh' bs).cls = upd w.cls c { w.cls c with declared := nd, inherit := inh' } := rfl
  have hg : (rebase w c s nd inh' bs).g = setBases w.g s bs := rfl
  have hnext : (rebase w c s nd inh' bs).next = w.next := rfl
  have hids : (rebase w c s nd inh' bs).classIds = w.classIds := by
    have : c ∈ w.classIds := by rw [h.c.cids]; exact hc
    simp [rebase, W.setCls, this]
  have hne : ∀ x : Nat, x ≠ c → (rebase w c s nd inh' bs).cls x = w.cls x := fun x hx => by rw [hcls, upd_other _ _ hx]
  have hcc : (rebase w c s nd inh' bs).cls c = { w.cls c with declared := nd, inherit := inh' } := by rw [hcls, upd_same]
  have hspec : ∀ x : Nat, ((rebase w c s nd inh' bs).cls x).spec = (w.cls x).spec := by
    intro x; by_cases hx : x = c
    · subst hx; rw [hcc]
    · rw [hne x hx]
  have wf' : SpecWF { σ with D := upd σ.D c Dnew, inh := upd σ.inh c inh' } := by
    refine { h.wf with D_if := ?_ }
    intro x i hi
    by_cases hx : x = c
    · subst hx; simp only [upd_same] at hi; exact hDif i hi
    · simp only [upd_other _ _ hx] at hi; exact h.wf.D_if x i hi
  have ib' : ∀ x : Nat, x < 1000 → upd w.g.bases s bs x = σ.ibases x := by
    intro x hx; rw [upd_other _ _ (by omega')]; exact h.g.ib x hx
  have hi' : ∀ x b : Nat, 1000 ≤ x → b ∈ upd w.g.bases s bs x →
      x < w.next ∧ (b ∈ σ.ifaces ∨ (1000 ≤ b ∧ b < x)) := by
    intro x b hx hb
    by_cases hxs : x = s
    · subst hxs
      rw [upd_same] at hb
      refine ⟨hs2, ?_⟩
      rcases (hB2 b).mp hb with hb | ⟨_, pb, hpb, hpbs⟩
      · exact Or.inl (hN1 b hb)
      · obtain ⟨sb, hsb, hlt⟩ := h.c.spec_py c x pb hs hpb
        have : sb = b := by rw [hsb] at hpbs; exact Option.some.inj hpbs
        subst this
        exact Or.inr ⟨(h.c.spec_cls pb sb hsb).2.1, hlt⟩
    · rw [upd_other _ _ hxs] at hb; exact h.g.hi x b hx hb
  have hcount := h.g.count
  refine ⟨wf', ?_, ?_, ?_⟩
  · refine ⟨?_, ?_, h.g.next_ge, ?_, h.g.fixed, ?_, ?_⟩
    · rw [hg]; exact inv_setBases h.g.inv s bs hB1 h.g.next_ge (shape_of h.wf ib' hi') (by omega')
    · rw [hg, root_setBases]; exact h.g.root
    · rw [hg, ids_setBases, hnext]; exact hcount
    · intro x hx; rw [hg, bases_setBases]; exact ib' x hx
    · intro x b hx hb; rw [hg, bases_setBases] at hb; rw [hnext]; exact hi' x b hx hb
  · refine ⟨by rw [hids]; exact h.c.cids, ?_, ?_, ?_, ?_, ?_, ?_, ?_, ?_, ?_⟩
    · intro x; by_cases hx : x = c
      · subst hx; rw [hcc]; exact h.c.cpy x
      · rw [hne x hx]; exact h.c.cpy x
    · intro x; by_cases hx : x = c
      · subst hx; rw [hcc]; simp
      · rw [hne x hx]; simp only [upd_other _ _ hx]; exact h.c.cinh x
    · intro x i hi; by_cases hx : x = c
      · subst hx; rw [hcc]; simp only [upd_same]; exact hN2 i hi
      · rw [hne x hx]; simp only [upd_other _ _ hx]; exact h.c.cdecl x i hi
    · intro x i hi; by_cases hx : x = c
      · subst hx; rw [hcc] at hi; exact hN1 i hi
      · rw [hne x hx] at hi; exact h.c.decl_if x i hi
    · intro x hx'; rw [hspec] at hx'
      have hx : x ≠ c := fun e => by rw [e, hs] at hx'; cases hx'
      rw [hne x hx]; exact h.c.nospec x hx'
    · intro x s' hs'; rw [hspec] at hs'; rw [hnext]; exact h.c.spec_cls x s' hs'
    · intro x x' s' hx hx'; rw [hspec] at hx hx'; exact h.c.spec_inj x x' s' hx hx'
    · intro x s' b hx hb; rw [hspec] at hx; rw [hspec]; exact h.c.spec_py x s' b hx hb
    · intro x s' y hs'; rw [hspec] at hs'
      simp only [hspec]
      by_cases hx : x = c
      · subst hx
        have : s' = s := by rw [hs] at hs'; exact (Option.some.inj hs').symm
        subst this
        rw [hg, bases_setBases, upd_same, hcc]; exact hB2 y
      · have hss : s' ≠ s := fun e => hx (h.c.spec_inj x c s (e ▸ hs') hs)
        rw [hg, bases_setBases, upd_other _ _ hss, hne x hx]; exact h.c.spec_bases x s' y hs'
  · refine h.i.frame rfl rfl rfl (by rw [hnext]; exact Nat.le_refl _) (fun x s' hx => by rw [hspec]; exact hx)
      (fun x s' hx => by rw [hspec] at hx; exact Or.inl hx) ?_ rfl rfl rfl
    intro p hp
    have hps : p ≠ s := fun e => hp.2.2 c (e ▸ hs)
    rw [hg, bases_setBases, upd_other _ _ hps]

theorem addBaseSpecs_pure {w : W} {f : Nat} : ∀ (bs acc : List Nat), (∀ b ∈ bs, ∃ sb, (w.cls b).spec = some sb) →
    (addBaseSpecs (f+1) w bs acc).1 = w ∧
    (∀ x, x ∈ (addBaseSpecs (f+1) w bs acc).2 ↔ (x ∈ acc ∨ ∃ b ∈ bs, (w.cls b).spec = some x)) ∧
    (acc.Nodup → (addBaseSpecs (f+1) w bs acc).2.Nodup) := by
  intro bs
  induction bs with
  | nil => intro acc _; simp [addBaseSpecs]
  | cons b t ih =>
    intro acc hb
    obtain ⟨sb, hsb⟩ := hb b (by simp)
    simp only [addBaseSpecs, implementedBy_some hsb]
    obtain ⟨a1, a2, a3⟩ := ih (if acc.contains sb then acc else acc ++ [sb]) (fun x hx => hb x (by simp [hx]))
    refine ⟨a1, fun x => ?_, fun hnd => a3 ?_⟩
    · rw [a2]
      have hx1 : (∃ b' ∈ b :: t, (w.cls b').spec = some x) ↔ (sb = x ∨ ∃ b' ∈ t, (w.cls b').spec = some x) := by
        simp [hsb]
      rw [hx1]
      by_cases hc : acc.contains sb = true
      · have hm : sb ∈ acc := by simpa using hc
        rw [if_pos hc]
        constructor
        · rintro (h | h)
          · exact Or.inl h
          · exact Or.inr (Or.inr h)
        · rintro (h | h | h)
          · exact Or.inl h
          · exact Or.inl (h ▸ hm)
          · exact Or.inr h
      · rw [if_neg hc, List.mem_append, List.mem_singleton]
        constructor
        · rintro ((h | h) | h)
          · exact Or.inl h
          · exact Or.inr (Or.inl h.symm)
          · exact Or.inr (Or.inr h)
        · rintro (h | h | h)
          · exact Or.inl (Or.inl h)
          · exact Or.inl (Or.inr h.symm)
          · exact Or.inr h
    · by_cases hc : acc.contains sb = true
      · rw [if_pos hc]; exact hnd
      · rw [if_neg hc, List.nodup_append]
        refine ⟨hnd, by simp, ?_⟩
        intro x hx y hy
        simp at hy; subst hy
        intro e; subst e
        exact hc (by simpa using hx)

/-- the new `declared` list computed by `_classImplements_ordered` -/
def newDeclared (w : W) (c s : Nat) (before after : List Nat) : List Nat :=
  dedupe (before.filter (keepDecl w s (w.cls c)) ++ (w.cls c).declared ++ after.filter (keepDecl w s (w.cls c)))

theorem declareOn_eq (fuel : Nat) (w : W) (c s : Nat) (before after : List Nat) :
    declareOn fuel w c s before after =
      rebase (if (w.cls c).inherit then addBaseSpecs fuel w (w.cls c).pyBases (newDeclared w c s before after)
              else (w, newDeclared w c s before after)).1 c s (newDeclared w c s before after)
        (((if (w.cls c).inherit then addBaseSpecs fuel w (w.cls c).pyBases (newDeclared w c s before after)
              else (w, newDeclared w c s before after)).1.cls c).inherit)
        (if (w.cls c).inherit then addBaseSpecs fuel w (w.cls c).pyBases (newDeclared w c s before after)
              else (w, newDeclared w c s before after)).2 := rfl

theorem sim_declare {w : W} {σ : Spec} (h : Sim w σ) {c s : Nat} (hs : (w.cls c).spec = some s) (f : Nat)
    (before after : List Nat) (hba : ∀ i, i ∈ before ∨ i ∈ after → i ∈ σ.ifaces) {Dnew : List Nat}
    (hD : ∀ i, i ≠ 0 → (i ∈ Dnew ↔ (i ∈ σ.D c ∨ ((i ∈ before ∨ i ∈ after) ∧ ¬ Impl σ c i))))
    (hDif : ∀ i ∈ Dnew, i ∈ σ.ifaces) :
    Sim (declareOn (f+1) w c s before after) { σ with D := upd σ.D c Dnew } := by
  have hkeep : ∀ i, i ∈ σ.ifaces → i ≠ 0 → (keepDecl w s (w.cls c) i = true ↔ ¬ Impl σ c i) := by
    intro i hi h0
    have hlt := h.wf.if_lt i hi
    rw [← h.impl_iff hs hlt]
    simp [keepDecl, W.isOrExtends, W.sro, h0]
  have hN1 : ∀ i, i ∈ newDeclared w c s before after → i ∈ σ.ifaces := by
    intro i hi
    simp only [newDeclared, mem_dedupe, List.mem_append, List.mem_filter] at hi
    rcases hi with (⟨hi, _⟩ | hi) | ⟨hi, _⟩
    · exact hba i (Or.inl hi)
    · exact h.c.decl_if c i hi
    · exact hba i (Or.inr hi)
  have hN2 : ∀ i, i ≠ 0 → (i ∈ newDeclared w c s before after ↔ i ∈ Dnew) := by
    intro i h0
    rw [hD i h0]
    simp only [newDeclared, mem_dedupe, List.mem_append, List.mem_filter]
    rw [h.c.cdecl c i h0]
    constructor
    · rintro ((⟨hi, hk⟩ | hi) | ⟨hi, hk⟩)
      · exact Or.inr ⟨Or.inl hi, (hkeep i (hba i (Or.inl hi)) h0).mp hk⟩
      · exact Or.inl hi
      · exact Or.inr ⟨Or.inr hi, (hkeep i (hba i (Or.inr hi)) h0).mp hk⟩
    · rintro (hi | ⟨hi | hi, hk⟩)
      · exact Or.inl (Or.inr hi)
      · exact Or.inl (Or.inl ⟨hi, (hkeep i (hba i (Or.inl hi)) h0).mpr hk⟩)
      · exact Or.inr ⟨hi, (hkeep i (hba i (Or.inr hi)) h0).mpr hk⟩
  have e : ({ σ with D := upd σ.D c Dnew } : Spec)
      = { σ with D := upd σ.D c Dnew, inh := upd σ.inh c (w.cls c).inherit } := by
    rw [h.c.cinh c, upd_self]
  rw [e, declareOn_eq]
  cases hin : (w.cls c).inherit with
  | false =>
    simp only [Bool.false_eq_true, if_false, hin]
    exact sim_rebase h hs hN1 hN2 hDif (nodup_dedupe _) (fun x => by simp)
  | true =>
    simp only [if_true]
    obtain ⟨a1, a2, a3⟩ := addBaseSpecs_pure (w := w) (f := f) (w.cls c).pyBases (newDeclared w c s before after)
      (fun b hb => by
        rw [h.c.cpy c] at hb
        obtain ⟨sb, hsb, _⟩ := h.c.spec_py c s b hs hb
        exact ⟨sb, hsb⟩)
    rw [a1, hin]
    refine sim_rebase h hs hN1 hN2 hDif (a3 (nodup_dedupe _)) (fun x => ?_)
    rw [a2 x, h.c.cpy c]; simp

/-- `_classImplements_ordered` -/
theorem sim_ordered {w : W} {σ : Spec} (h : Sim w σ) {c : Nat} (hc : c ∈ σ.classes) {fuel : Nat}
    (hf : σ.classes.idxOf c < fuel) (before after : List Nat) (hba : ∀ i, i ∈ before ∨ i ∈ after → i ∈ σ.ifaces)
    {Dnew : List Nat}
    (hD : ∀ i, i ≠ 0 → (i ∈ Dnew ↔ (i ∈ σ.D c ∨ ((i ∈ before ∨ i ∈ after) ∧ ¬ Impl σ c i))))
    (hDif : ∀ i ∈ Dnew, i ∈ σ.ifaces) :
    Sim (classImplementsOrdered fuel w c before after) { σ with D := upd σ.D c Dnew } := by
  obtain ⟨f, rfl⟩ : ∃ f, fuel = f + 1 := ⟨fuel - 1, by omega⟩
  obtain ⟨a1, a2, _, _⟩ := sim_implementedBy (f+1) w c h hc hf
  exact sim_declare a1 a2 f before after hba hD hDif

theorem sim_classImplements {w : W} {σ : Spec} (h : Sim w σ) {fuel : Nat} (c : Nat) (L : List Nat)
    (hw : WFop σ (.classImplements c L)) (hf : σ.classes.idxOf c < fuel) :
    Sim (classImplements fuel w c L) (specStep σ (.classImplements c L)) := by
  obtain ⟨hc, hL⟩ := hw
  obtain ⟨a1, _, _, _⟩ := sim_implementedBy fuel w c h hc hf
  unfold classImplements
  simp only []
  refine sim_ordered a1 hc hf _ _ (fun i hi => ?_) (fun i h0 => ?_) (fun i hi => ?_)
  · rcases hi with hi | hi <;> exact hL i (List.mem_filter.mp hi).1
  · simp only [List.mem_append, List.mem_filter, Bool.not_eq_true', ← Bool.not_eq_true, implB_iff h.wf hc]
    constructor
    · rintro (hi | ⟨hi, hk⟩)
      · exact Or.inl hi
      · refine Or.inr ⟨?_, hk⟩
        by_cases hp : (((implementedBy fuel w c).1.cls c).declared.any fun b => (implementedBy fuel w c).1.extendsStrict i b) = true
        · exact Or.inl ⟨hi, hp⟩
        · exact Or.inr ⟨hi, by simpa using hp⟩
    · rintro (hi | ⟨hi | hi, hk⟩)
      · exact Or.inl hi
      · exact Or.inr ⟨hi.1, hk⟩
      · exact Or.inr ⟨hi.1, hk⟩
  · rcases List.mem_append.mp hi with hi | hi
    · exact h.wf.D_if c i hi
    · exact hL i (List.mem_filter.mp hi).1

theorem sim_classImplementsFirst {w : W} {σ : Spec} (h : Sim w σ) {fuel : Nat} (c i : Nat)
    (hw : WFop σ (.classImplementsFirst c i)) (hf : σ.classes.idxOf c < fuel) :
    Sim (classImplementsFirst fuel w c i) (specStep σ (.classImplementsFirst c i)) := by
  obtain ⟨hc, hi⟩ := hw
  unfold classImplementsFirst
  refine sim_ordered h hc hf _ _ (fun j hj => ?_) (fun j h0 => ?_) (fun j hj => ?_)
  · simp at hj; subst hj; exact hi
  · simp only [List.mem_append, List.mem_filter, Bool.not_eq_true', ← Bool.not_eq_true, implB_iff h.wf hc,
      List.mem_singleton, List.not_mem_nil, or_false]
  · rcases List.mem_append.mp hj with hj | hj
    · exact h.wf.D_if c j hj
    · have := (List.mem_filter.mp hj).1; simp at this; subst this; exact hi

theorem sim_classImplementsOnly {w : W} {σ : Spec} (h : Sim w σ) {fuel : Nat} (c : Nat) (L : List Nat)
    (hw : WFop σ (.classImplementsOnly c L)) (hf : σ.classes.idxOf c < fuel) :
    Sim (classImplementsOnly fuel w c L) (specStep σ (.classImplementsOnly c L)) := by
  obtain ⟨hc, hL⟩ := hw
  obtain ⟨a1, a2, _, _⟩ := sim_implementedBy fuel w c h hc hf
  unfold classImplementsOnly
  -- forget: `D c := []`, `inh c := false`
  have h1 : Sim (resetDecl (implementedBy fuel w c).1 c (implementedBy fuel w c).2)
      { σ with D := upd σ.D c [], inh := upd σ.inh c false } :=
    sim_rebase (nd := []) (bs := []) (Dnew := []) (inh' := false) a1 a2 (by simp) (by simp) (by simp) (by simp) (by simp)
  have e : specStep σ (.classImplementsOnly c L)
      = { ({ σ with D := upd σ.D c [], inh := upd σ.inh c false } : Spec) with
          D := upd ({ σ with D := upd σ.D c [], inh := upd σ.inh c false } : Spec).D c L } := by
    simp only [specStep, upd_upd]
  rw [e]
  refine sim_ordered h1 hc hf L [] (fun i hi => ?_) (fun i h0 => ?_) hL
  · rcases hi with hi | hi
    · exact hL i hi
    · simp at hi
  · have hno : ¬ Impl { σ with D := upd σ.D c [], inh := upd σ.inh c false } c i := by
      intro hI
      cases hI with
      | root => exact h0 rfl
      | decl hx _ => simp at hx
      | inh h1 _ _ => simp at h1
    simp [hno]

/-! ## 9. instance declarations: the `Provides` factory, `directlyProvides` -/

theorem sim_newProvides {w : W} {σ : Spec} (h : Sim w σ) {c s : Nat} (hs : (w.cls c).spec = some s) (L K : List Nat)
    (hK : ∀ i ∈ K, i ∈ σ.ifaces) (hnd : K.Nodup) :
    Sim (newProvides w c L (K ++ [s])).1 σ ∧ IsPNode (newProvides w c L (K ++ [s])).1 w.next ∧
    (newProvides w c L (K ++ [s])).1.g.bases w.next = K ++ [s] := by
  obtain ⟨_, hs1, hs2⟩ := h.c.spec_cls c s hs
  have hg : (newProvides w c L (K ++ [s])).1.g = newNode w.g w.next (K ++ [s]) := rfl
  have hnext : (newProvides w c L (K ++ [s])).1.next = w.next + 1 := rfl
  have hnge := h.g.next_ge
  have hcount := h.g.count
  have ib' : ∀ x : Nat, x < 1000 → upd w.g.bases w.next (K ++ [s]) x = σ.ibases x := by
    intro x hx; rw [upd_other _ _ (by omega')]; exact h.g.ib x hx
  have hi' : ∀ x b : Nat, 1000 ≤ x → b ∈ upd w.g.bases w.next (K ++ [s]) x →
      x < w.next + 1 ∧ (b ∈ σ.ifaces ∨ (1000 ≤ b ∧ b < x)) := by
    intro x b hx hb
    by_cases hxn : x = w.next
    · subst hxn
      rw [upd_same] at hb
      refine ⟨by omega', ?_⟩
      rcases List.mem_append.mp hb with hb | hb
      · exact Or.inl (hK b hb)
      · simp at hb; subst hb; exact Or.inr ⟨hs1, hs2⟩
    · rw [upd_other _ _ hxn] at hb
      obtain ⟨a, b'⟩ := h.g.hi x b hx hb
      exact ⟨by omega', b'⟩
  have hnd' : (K ++ [s]).Nodup := by
    rw [List.nodup_append]
    refine ⟨hnd, by simp, ?_⟩
    intro a ha b hb
    simp at hb; subst hb
    have := h.wf.if_lt a (hK a ha)
    omega'
  have hmono : ∀ p : Nat, IsPNode w p → IsPNode (newProvides w c L (K ++ [s])).1 p := fun p hp =>
    hp.mono (by rw [hnext]; omega') (fun _ _ hx => Or.inl hx)
  have hnew : IsPNode (newProvides w c L (K ++ [s])).1 w.next := by
    refine ⟨by omega', by rw [hnext]; omega', fun x hx => ?_⟩
    have := (h.c.spec_cls x w.next hx).2.2
    omega'
  refine ⟨⟨h.wf, ?_, ?_, ?_⟩, hnew, by rw [hg, bases_newNode, upd_same]⟩
  · refine ⟨?_, ?_, ?_, ?_, h.g.fixed, ?_, ?_⟩
    · rw [hg]
      exact inv_newNode h.g.inv w.next _ hnd' (by omega') (shape_of h.wf ib' hi') (by omega')
    · rw [hg, root_newNode]; exact h.g.root
    · rw [hnext]; omega'
    · rw [hg, ids_newNode, hnext]; simp; omega'
    · intro x hx; rw [hg, bases_newNode]; exact ib' x hx
    · intro x b hx hb; rw [hg, bases_newNode] at hb; rw [hnext]; exact hi' x b hx hb
  · exact h.c.frame rfl rfl (by rw [hnext]; omega')
      (fun x _ hx => by rw [hg, bases_newNode, upd_other _ _ (by omega')]) rfl rfl rfl rfl (fun _ h => h)
  · refine ⟨h.i.iids, h.i.icls, h.i.knone, ?_, ?_⟩
    · intro o p hp
      obtain ⟨a, b, s', c', d⟩ := h.i.iprov o p hp
      refine ⟨hmono p a, b, s', c', ?_⟩
      have := a.2.1
      rw [hg, bases_newNode, upd_other _ _ (by omega')]; exact d
    · intro e he
      have he' : e ∈ (w.pcache.filter (·.1 != (c, L))) ++ [((c, L), w.next)] := he
      rcases List.mem_append.mp he' with he' | he'
      · exact hmono _ (h.i.pc e (List.mem_filter.mp he').1)
      · simp at he'; subst he'; exact hnew

theorem sim_provides {w : W} {σ : Spec} (h : Sim w σ) {c : Nat} (hc : c ∈ σ.classes) {fuel : Nat}
    (hf : σ.classes.idxOf c < fuel) (L : List Nat) (hL : ∀ i ∈ L, i ∈ σ.ifaces) (hnd : L.Nodup) :
    Sim (provides fuel w c L).1 σ ∧ IsPNode (provides fuel w c L).1 (provides fuel w c L).2 ∧
    (∃ s, ((provides fuel w c L).1.cls c).spec = some s ∧
      (provides fuel w c L).1.g.bases (provides fuel w c L).2 = L.filter (fun i => !implB σ c i) ++ [s]) ∧
    (provides fuel w c L).1.inst = w.inst ∧ (provides fuel w c L).1.instIds = w.instIds := by
  obtain ⟨a1, a2, _, _⟩ := sim_implementedBy fuel w c h hc hf
  obtain ⟨f1, f2, f3, _, _⟩ := implementedBy_frame fuel w c
  have hfb : (addInterfacesToCls fuel w L c).2
      = L.filter (fun i => !implB σ c i) ++ [(implementedBy fuel w c).2] := by
    show L.filter _ ++ _ = _
    congr 1
    apply List.filter_congr
    intro i hi
    have hlt := h.wf.if_lt i (hL i hi)
    have e1 := a1.impl_iff a2 hlt
    have e2 := implB_iff h.wf hc i
    have e3 : ((implementedBy fuel w c).1.g.sro (implementedBy fuel w c).2).contains i = implB σ c i := by
      rw [Bool.eq_iff_iff, List.contains_iff_mem, e1, e2]
    simp only [W.isOrExtends, W.sro, e3]
  have hw1 : (addInterfacesToCls fuel w L c).1 = (implementedBy fuel w c).1 := rfl
  have hKif : ∀ i ∈ L.filter (fun i => !implB σ c i), i ∈ σ.ifaces := fun i hi => hL i (List.mem_filter.mp hi).1
  have hnew := sim_newProvides a1 a2 L (L.filter (fun i => !implB σ c i)) hKif (hnd.filter _)
  unfold provides
  simp only []
  split
  · rename_i p hhit hus
    -- cache hit, usable
    rw [hw1, hfb, hhit] at hus
    have hfix := a1.g.fixed
    simp only [usable, hfix, if_true, beq_iff_eq] at hus
    have hp : IsPNode (implementedBy fuel w c).1 p := by
      have : ∃ e, e ∈ w.pcache ∧ e.2 = p := by
        cases hfind : w.pcache.find? (·.1 == (c, L)) with
        | none => rw [hfind] at hhit; simp at hhit
        | some e =>
          rw [hfind] at hhit; simp at hhit
          exact ⟨e, List.mem_of_find?_eq_some hfind, hhit⟩
      obtain ⟨e, he, hep⟩ := this
      rw [← hep]; exact a1.i.pc e (by rw [f1]; exact he)
    exact ⟨a1, hp, ⟨_, a2, hus⟩, f2, f3⟩
  · rw [hw1, hfb]
    refine ⟨hnew.1, hnew.2.1, ⟨_, ?_, hnew.2.2⟩, f2, f3⟩
    exact a2

theorem sim_dp {w : W} {σ : Spec} (h : Sim w σ) {o : Nat} (ho : o ∈ σ.insts) {fuel : Nat}
    (hf : σ.classes.idxOf (σ.clsOf o) < fuel) (L : List Nat) (hL : ∀ i ∈ L, i ∈ σ.ifaces) (hnd : L.Nodup) :
    Sim (directlyProvides fuel w o L)
      { σ with K := upd σ.K o (some (L.filter fun i => !implB σ (σ.clsOf o) i)) } := by
  have hcls : (w.inst o).cls = σ.clsOf o := h.i.icls o
  have hc := h.wf.cls_mem o ho
  obtain ⟨a1, a2, ⟨s, a3, a4⟩, a5, a6⟩ := sim_provides h hc hf L hL hnd
  have wf' : SpecWF { σ with K := upd σ.K o (some (L.filter fun i => !implB σ (σ.clsOf o) i)) } := by
    have := specStep_wf h.wf (.directlyProvides o L) ⟨ho, hL, hnd⟩
    exact this
  unfold directlyProvides
  simp only [hcls]
  generalize provides fuel w (σ.clsOf o) L = r at a1 a2 a3 a4 a5 a6
  have hinst : (collect (r.1.setInst o { r.1.inst o with prov := some r.2 })).inst
      = upd r.1.inst o { r.1.inst o with prov := some r.2 } := rfl
  have hids : (collect (r.1.setInst o { r.1.inst o with prov := some r.2 })).instIds = r.1.instIds := by
    have : o ∈ r.1.instIds := by rw [a1.i.iids]; exact ho
    simp [collect, W.setInst, this]
  have hpn : ∀ p : Nat, IsPNode (collect (r.1.setInst o { r.1.inst o with prov := some r.2 })) p ↔ IsPNode r.1 p :=
    fun p => Iff.rfl
  refine ⟨wf', a1.g.frame rfl rfl rfl rfl rfl,
    a1.c.frame rfl rfl (Nat.le_refl _) (fun _ _ _ => rfl) rfl rfl rfl rfl (fun _ h => h), ?_⟩
  refine ⟨by rw [hids]; exact a1.i.iids, ?_, ?_, ?_, ?_⟩
  · intro x; rw [hinst]
    by_cases hx : x = o
    · subst hx; rw [upd_same]; exact a1.i.icls x
    · rw [upd_other _ _ hx]; exact a1.i.icls x
  · intro x hx'; rw [hinst] at hx'
    by_cases hx : x = o
    · subst hx; rw [upd_same] at hx'; cases hx'
    · rw [upd_other _ _ hx] at hx'; simp only [upd_other _ _ hx]; exact a1.i.knone x hx'
  · intro x p hp; rw [hinst] at hp
    by_cases hx : x = o
    · subst hx; rw [upd_same] at hp
      have : p = r.2 := (Option.some.inj hp).symm
      subst this
      refine ⟨a2, by simp, s, a3, ?_⟩
      show r.1.g.bases r.2 = _
      rw [a4]; simp [Spec.Kl]
    · rw [upd_other _ _ hx] at hp
      simp only [Spec.Kl, upd_other _ _ hx]
      exact a1.i.iprov x p hp
  · intro e he
    exact a1.i.pc e (List.mem_filter.mp he).1

theorem directlyProvides_prov (fuel : Nat) (w : W) (o : Nat) (L : List Nat) :
    ((directlyProvides fuel w o L).inst o).prov = some (provides fuel w (w.inst o).cls L).2 := by
  show Inst.prov (upd _ o _ o) = _
  rw [upd_same]

/-- `directlyProvidedBy(ob)` is the abstract direct declaration -/
theorem Sim.dpb {w : W} {σ : Spec} (h : Sim w σ) (o : Nat) : directlyProvidedBy w o = σ.Kl o := by
  unfold directlyProvidedBy
  cases hp : (w.inst o).prov with
  | none => simp [Spec.Kl, h.i.knone o hp]
  | some p =>
    obtain ⟨_, _, s, _, hb⟩ := h.i.iprov o p hp
    simp only [hb, List.dropLast_concat]
    exact dedupe_of_nodup (h.wf.K_nodup o)

theorem sim_also {w : W} {σ : Spec} (h : Sim w σ) {fuel : Nat} (o : Nat) (L : List Nat)
    (hw : WFop σ (.alsoProvides o L)) (hf : σ.classes.idxOf (σ.clsOf o) < fuel) :
    Sim (alsoProvides fuel w o L) (specStep σ (.alsoProvides o L)) := by
  obtain ⟨ho, hL, hnd⟩ := hw
  unfold alsoProvides
  rw [h.dpb o]
  refine sim_dp h ho hf _ (fun i hi => ?_) hnd
  rcases List.mem_append.mp hi with hi | hi
  · exact h.wf.K_if o i hi
  · exact hL i hi

theorem sim_providedBy {w : W} {σ : Spec} (h : Sim w σ) {fuel : Nat} (o : Nat) (ho : o ∈ σ.insts)
    (hf : σ.classes.idxOf (σ.clsOf o) < fuel) : Sim (providedBy fuel w o).1 σ := by
  unfold providedBy
  cases hp : (w.inst o).prov with
  | some p => exact h
  | none =>
    simp only []
    rw [h.i.icls o]
    exact (sim_implementedBy fuel w _ h (h.wf.cls_mem o ho) hf).1

/-- the world after the `directlyProvides` call inside `noLongerProvides` -/
theorem sim_noLonger_dp {w : W} {σ : Spec} (h : Sim w σ) {fuel : Nat} (o j : Nat)
    (hw : WFop σ (.noLongerProvides o j)) (hf : σ.classes.idxOf (σ.clsOf o) < fuel) :
    Sim (directlyProvides fuel w o ((directlyProvidedBy w o).filter fun i => !(w.isOrExtends i j)))
      (specStep σ (.noLongerProvides o j)) := by
  have ho : o ∈ σ.insts := hw
  have hrem : (directlyProvidedBy w o).filter (fun i => !(w.isOrExtends i j))
      = (σ.Kl o).filter (fun i => !upB σ [i] j) := by
    rw [h.dpb o]
    apply List.filter_congr
    intro i hi
    have hlt := h.wf.if_lt i (h.wf.K_if o i hi)
    have e : w.isOrExtends i j = upB σ [i] j := by
      rw [Bool.eq_iff_iff, upB_iff h.wf]
      simp only [W.isOrExtends, W.sro, List.contains_iff_mem]
      rw [h.mem_sro, h.reach_iface hlt]
      simp only [Up, List.mem_singleton, exists_eq_left]
      exact Or.comm
    rw [e]
  rw [hrem]
  exact sim_dp h ho hf _ (fun i hi => h.wf.K_if o i (List.mem_filter.mp hi).1) ((h.wf.K_nodup o).filter _)

theorem sim_noLonger {w : W} {σ : Spec} (h : Sim w σ) {fuel : Nat} (o j : Nat)
    (hw : WFop σ (.noLongerProvides o j)) (hf : σ.classes.idxOf (σ.clsOf o) < fuel) :
    Sim (noLongerProvides fuel w o j).1 (specStep σ (.noLongerProvides o j)) :=
  sim_providedBy (sim_noLonger_dp h o j hw hf) o hw hf

/-! ## 10. histories: the model transition and the simulation theorem -/

/-- the model transition (`fuel` = recursion budget of `implementedBy`, 64 in the driver) -/
def stepW (fuel : Nat) (w : W) : HOp → W
  | .iface i bs => { w with g := newNode w.g i bs }
  | .cls c pb => w.setCls c { pyBases := pb }
  | .inst o c => w.setInst o { cls := c }
  | .classImplements c L => classImplements fuel w c L
  | .classImplementsOnly c L => classImplementsOnly fuel w c L
  | .classImplementsFirst c i => classImplementsFirst fuel w c i
  | .directlyProvides o L => directlyProvides fuel w o L
  | .alsoProvides o L => alsoProvides fuel w o L
  | .noLongerProvides o j => (noLongerProvides fuel w o j).1
  | .qImpl c => (implementedBy fuel w c).1
  | .qProv o => (providedBy fuel w o).1

def runFrom (fuel : Nat) (w : W) (h : List HOp) : W := h.foldl (stepW fuel) w
/-- the world after a history, starting from the import-time state with the repaired `Provides` factory -/
def run (fuel : Nat) (h : List HOp) : W := runFrom fuel (init true) h

/-- **one step**: every well-formed step preserves the simulation, provided the recursion budget of
`implementedBy` is at least the number of classes -/
theorem sim_step {w : W} {σ : Spec} (h : Sim w σ) (op : HOp) (hw : WFop σ op) {fuel : Nat}
    (hf : σ.classes.length ≤ fuel) : Sim (stepW fuel w op) (specStep σ op) := by
  have hidx : ∀ c, c ∈ σ.classes → σ.classes.idxOf c < fuel := fun c hc => by
    have := List.idxOf_lt_length_of_mem hc; omega
  cases op with
  | iface i bs => exact sim_iface h i bs hw
  | cls c pb => exact sim_cls h c pb hw
  | inst o c => exact sim_inst h o c hw
  | classImplements c L => exact sim_classImplements h c L hw (hidx c hw.1)
  | classImplementsOnly c L => exact sim_classImplementsOnly h c L hw (hidx c hw.1)
  | classImplementsFirst c i => exact sim_classImplementsFirst h c i hw (hidx c hw.1)
  | directlyProvides o L =>
    exact sim_dp h hw.1 (hidx _ (h.wf.cls_mem o hw.1)) L hw.2.1 hw.2.2
  | alsoProvides o L => exact sim_also h o L hw (hidx _ (h.wf.cls_mem o hw.1))
  | noLongerProvides o j => exact sim_noLonger h o j hw (hidx _ (h.wf.cls_mem o hw))
  | qImpl c => exact (sim_implementedBy fuel w c h hw (hidx c hw)).1
  | qProv o => exact sim_providedBy h o hw (hidx _ (h.wf.cls_mem o hw))

theorem init_cls (c : Nat) : (init true).cls c = if c = 0 then { pyBases := [], spec := some 1000 } else { pyBases := [] } := rfl

theorem sim_init : Sim (init true) Spec.init := by
  have hb : (init true).g.bases = upd (fun _ => []) 1000 [] := bases_newNode _ _ _
  have hb' : ∀ x : Nat, (init true).g.bases x = [] := by
    intro x; rw [hb]; by_cases hx : x = 1000
    · subst hx; simp
    · rw [upd_other _ _ hx]
  have hspec : ∀ c s : Nat, ((init true).cls c).spec = some s → c = 0 ∧ s = 1000 := by
    intro c s hs
    rw [init_cls] at hs
    by_cases hc : c = 0
    · simp [hc] at hs; exact ⟨hc, hs.symm⟩
    · simp [hc] at hs
  refine ⟨Spec.init_wf, ?_, ?_, ?_⟩
  · refine ⟨?_, ?_, Nat.le_refl 1001, ?_, rfl, fun x _ => hb' x, ?_⟩
    · show Inv (newNode (ZI.Graph2.init 0) 1000 [])
      refine inv_newNode (ifl := [0]) (next := 1001) ⟨0, good_init 0, Nat.zero_le _⟩ 1000 [] (by simp) (by omega) ?_
        (by simp [ZI.Graph2.init])
      constructor
      · intro x b _ hb2
        have : upd (ZI.Graph2.init 0).bases 1000 [] x = [] := by
          by_cases hx : x = 1000
          · subst hx; simp
          · rw [upd_other _ _ hx]; rfl
        rw [this] at hb2; simp at hb2
      · intro x b _ hb2
        have : upd (ZI.Graph2.init 0).bases 1000 [] x = [] := by
          by_cases hx : x = 1000
          · subst hx; simp
          · rw [upd_other _ _ hx]; rfl
        rw [this] at hb2; simp at hb2
    · show (newNode (ZI.Graph2.init 0) 1000 []).root = 0; rw [root_newNode]; rfl
    · show (newNode (ZI.Graph2.init 0) 1000 []).ids.length = _; rw [ids_newNode]; rfl
    · intro x b _ hb2; rw [hb' x] at hb2; simp at hb2
  · refine ⟨rfl, ?_, ?_, ?_, ?_, ?_, ?_, ?_, ?_, ?_⟩
    · intro c; rw [init_cls]; split <;> rfl
    · intro c; rw [init_cls]; split <;> rfl
    · intro c i _; rw [init_cls]; split <;> simp [Spec.init]
    · intro c i hi; rw [init_cls] at hi; split at hi <;> simp at hi
    · intro c _; rw [init_cls]; split <;> exact ⟨rfl, rfl⟩
    · intro c s hs
      obtain ⟨rfl, rfl⟩ := hspec c s hs
      exact ⟨by simp [Spec.init], by omega, by show 1000 < 1001; omega⟩
    · intro c c' s hs hs'
      rw [(hspec c s hs).1, (hspec c' s hs').1]
    · intro c s b _ hb2; simp [Spec.init] at hb2
    · intro c s x hs
      obtain ⟨rfl, rfl⟩ := hspec c s hs
      rw [hb' 1000]; simp [init_cls, Spec.init]
  · refine ⟨rfl, fun _ => rfl, fun _ _ => rfl, ?_, ?_⟩
    · intro o p hp; exact absurd hp (by simp [Classes2.init])
    · intro e he; exact absurd he (by simp [Classes2.init])

/-- **simulation along a history**: from any simulated pair, a well-formed history keeps the pair simulated, provided
the recursion budget is at least the final number of classes -/
theorem sim_runFrom {fuel : Nat} : ∀ (h : List HOp) (w : W) (σ : Spec), Sim w σ → WFFrom σ h →
    (specRunFrom σ h).classes.length ≤ fuel → Sim (runFrom fuel w h) (specRunFrom σ h) := by
  have hmono1 : ∀ (σ : Spec) (op : HOp), σ.classes.length ≤ (specStep σ op).classes.length := by
    intro σ op; cases op <;> simp [specStep]
  have hmono : ∀ (h : List HOp) (σ : Spec), σ.classes.length ≤ (specRunFrom σ h).classes.length := by
    intro h
    induction h with
    | nil => intro σ; exact Nat.le_refl _
    | cons op rest ih => intro σ; exact Nat.le_trans (hmono1 σ op) (ih (specStep σ op))
  intro h
  induction h with
  | nil => intro w σ hs _ _; exact hs
  | cons op rest ih =>
    intro w σ hs hw hf
    obtain ⟨hw1, hw2⟩ := hw
    have hf1 : σ.classes.length ≤ fuel :=
      Nat.le_trans (Nat.le_trans (hmono1 σ op) (hmono rest (specStep σ op))) hf
    exact ih (stepW fuel w op) (specStep σ op) (sim_step hs op hw1 hf1) hw2 hf

theorem sim_run {fuel : Nat} (h : List HOp) (hw : WFHist h) (hf : (specRun h).classes.length ≤ fuel) :
    Sim (run fuel h) (specRun h) := sim_runFrom h (init true) Spec.init sim_init hw hf

/-! ## 11. C01_exact -/

theorem specRunFrom_wf : ∀ (h : List HOp) (σ : Spec), SpecWF σ → WFFrom σ h → SpecWF (specRunFrom σ h) := by
  intro h
  induction h with
  | nil => intro σ hs _; exact hs
  | cons op rest ih => intro σ hs hw; exact ih (specStep σ op) (specStep_wf hs op hw.1) hw.2

theorem specRun_wf (h : List HOp) (hw : WFHist h) : SpecWF (specRun h) := specRunFrom_wf h _ Spec.init_wf hw

theorem isIface_iff (i : Nat) : isIface i = true ↔ i < 1000 := by simp [isIface]

/-- in a simulated pair, `implementedBy(c)` answers exactly `Impl c` -/
theorem Sim.exact_impl {w : W} {σ : Spec} (h : Sim w σ) {fuel : Nat} (hf : σ.classes.length ≤ fuel) {c : Nat}
    (hc : c ∈ σ.classes) (i : Nat) (hi : isIface i = true) :
    i ∈ (implementedBy fuel w c).1.sro (implementedBy fuel w c).2 ↔ Impl σ c i := by
  have hidx : σ.classes.idxOf c < fuel := by have := List.idxOf_lt_length_of_mem hc; omega
  obtain ⟨a1, a2, _, _⟩ := sim_implementedBy fuel w c h hc hidx
  exact a1.impl_iff a2 ((isIface_iff i).mp hi)

/-- in a simulated pair, `providedBy(o)` answers exactly `Prov o` -/
theorem Sim.exact_prov {w : W} {σ : Spec} (h : Sim w σ) {fuel : Nat} (hf : σ.classes.length ≤ fuel) {o : Nat}
    (ho : o ∈ σ.insts) (i : Nat) (hi : isIface i = true) :
    i ∈ (providedBy fuel w o).1.sro (providedBy fuel w o).2 ↔ Prov σ o i := by
  have hi' := (isIface_iff i).mp hi
  unfold providedBy
  cases hp : (w.inst o).prov with
  | some p => exact h.prov_iff hp hi'
  | none =>
    simp only []
    rw [h.i.icls o, h.exact_impl hf (h.wf.cls_mem o ho) i hi]
    have hK : σ.Kl o = [] := by simp [Spec.Kl, h.i.knone o hp]
    simp only [Prov, hK, Up, List.not_mem_nil, false_and, exists_false, or_false]
    constructor
    · exact Or.inr
    · rintro (rfl | hI)
      · exact Impl.root _
      · exact hI

/-- `noLongerProvides(o, j)` raises its `ValueError` ("Can only remove directly provided interfaces") exactly when `j`
is still provided after the removal (the model returns the flag; the state change happens either way, as in the code) -/
theorem Sim.noLonger_error {w : W} {σ : Spec} (h : Sim w σ) {fuel : Nat} (hf : σ.classes.length ≤ fuel) (o j : Nat)
    (hw : WFop σ (.noLongerProvides o j)) (hj : isIface j = true) :
    (noLongerProvides fuel w o j).2 = true ↔ Prov (specStep σ (.noLongerProvides o j)) o j := by
  have ho : o ∈ σ.insts := hw
  have hidx : σ.classes.idxOf (σ.clsOf o) < fuel := by
    have := List.idxOf_lt_length_of_mem (h.wf.cls_mem o ho); omega
  have h1 := sim_noLonger_dp h o j hw hidx
  have := h1.exact_prov (fuel := fuel) (o := o) hf ho j hj
  rw [← this]
  simp [noLongerProvides, W.isOrExtends]

/-- **C01_exact.**  After ANY well-formed history `h` of interface / class / instance creations, declaration calls
(`classImplements`, `classImplementsOnly`, `classImplementsFirst`, `directlyProvides`, `alsoProvides`,
`noLongerProvides`) and earlier queries, in any order, with `w := run fuel h` the `Classes2` world and
`σ := specRun h` the abstract state:

* for every existing class `c`, the interfaces in the resolution order of `implementedBy(c)` are exactly `Impl σ c`
  (declared on the class and not dropped, inherited from the bases unless cut by an *only* declaration, and everything
  those extend);
* for every existing instance `o`, the interfaces in the resolution order of `providedBy(o)` are exactly `Prov σ o`.

`I.implementedBy(c)` / `I.providedBy(o)` are membership of `I` in these orders (`isOrExtends`).

Hypotheses: `WFHist h` (see `WFop` for the reason of every clause) and `fuel ≥` the number of classes: `implementedBy`
is modelled with a recursion budget (64 in the driver) that must cover the depth of the class hierarchy; with
`fuel = 0` the model function returns the dummy id 0. -/
theorem C01_exact (h : List HOp) (hw : WFHist h) (fuel : Nat) (hf : (specRun h).classes.length ≤ fuel) :
    (∀ c ∈ (specRun h).classes, ∀ i, isIface i = true →
      (i ∈ (implementedBy fuel (run fuel h) c).1.sro (implementedBy fuel (run fuel h) c).2 ↔ Impl (specRun h) c i)) ∧
    (∀ o ∈ (specRun h).insts, ∀ i, isIface i = true →
      (i ∈ (providedBy fuel (run fuel h) o).1.sro (providedBy fuel (run fuel h) o).2 ↔ Prov (specRun h) o i)) := by
  have hs := sim_run h hw hf
  exact ⟨fun c hc i hi => hs.exact_impl hf hc i hi, fun o ho i hi => hs.exact_prov hf ho i hi⟩

/-- the same with the executable oracle: the answers of the model are the ones `implB` / `provB` compute -/
theorem C01_exact_exec (h : List HOp) (hw : WFHist h) (fuel : Nat) (hf : (specRun h).classes.length ≤ fuel) :
    (∀ c ∈ (specRun h).classes, ∀ i, isIface i = true →
      ((implementedBy fuel (run fuel h) c).1.isOrExtends (implementedBy fuel (run fuel h) c).2 i = implB (specRun h) c i)) ∧
    (∀ o ∈ (specRun h).insts, ∀ i, isIface i = true →
      ((providedBy fuel (run fuel h) o).1.isOrExtends (providedBy fuel (run fuel h) o).2 i = provB (specRun h) o i)) := by
  obtain ⟨h1, h2⟩ := C01_exact h hw fuel hf
  have wf := specRun_wf h hw
  constructor
  · intro c hc i hi
    rw [Bool.eq_iff_iff, implB_iff wf hc, ← h1 c hc i hi]
    simp [W.isOrExtends]
  · intro o ho i hi
    rw [Bool.eq_iff_iff, provB_iff wf ho, ← h2 o ho i hi]
    simp [W.isOrExtends]

/-! ## 12. C01_sandwich: everything reported was declared or inherited; only declarations redundant when made are dropped -/

/-- the same abstract transition WITHOUT dropping redundant interfaces: `K o := L`, `D c := D c ∪ L` -/
def mayStep (τ : Spec) : HOp → Spec
  | .classImplements c L => { τ with D := upd τ.D c (τ.D c ++ L) }
  | .classImplementsFirst c i => { τ with D := upd τ.D c (τ.D c ++ [i]) }
  | .directlyProvides o L => { τ with K := upd τ.K o (some L) }
  | .alsoProvides o L => { τ with K := upd τ.K o (some (τ.Kl o ++ L)) }
  | .noLongerProvides o j => { τ with K := upd τ.K o (some ((τ.Kl o).filter fun i => !upB τ [i] j)) }
  | .iface i bs => specStep τ (.iface i bs)
  | .cls c pb => specStep τ (.cls c pb)
  | .inst o c => specStep τ (.inst o c)
  | .classImplementsOnly c L => specStep τ (.classImplementsOnly c L)
  | .qImpl _ => τ
  | .qProv _ => τ
def mayRun (h : List HOp) : Spec := h.foldl mayStep Spec.init
/-- `ImplMay` / `ProvMay`: what was declared (anywhere, ever since the last *only* / `directlyProvides`) or inherited -/
def ImplMay (h : List HOp) (c i : Nat) : Prop := Impl (mayRun h) c i
def ProvMay (h : List HOp) (o i : Nat) : Prop := Prov (mayRun h) o i

/-- `σ` is `τ` with some declarations dropped -/
structure Le (σ τ : Spec) : Prop where
  e1 : σ.ifaces = τ.ifaces
  e2 : σ.ibases = τ.ibases
  e3 : σ.classes = τ.classes
  e4 : σ.pyBases = τ.pyBases
  e5 : σ.inh = τ.inh
  e6 : σ.insts = τ.insts
  e7 : σ.clsOf = τ.clsOf
  dle : ∀ c i, i ∈ σ.D c → i ∈ τ.D c
  kle : ∀ o i, i ∈ σ.Kl o → i ∈ τ.Kl o

theorem upB_congr {σ τ : Spec} (e1 : σ.ifaces = τ.ifaces) (e2 : σ.ibases = τ.ibases) (X : List Nat) (i : Nat) :
    upB σ X i = upB τ X i := by simp only [upB, reachL, e1, e2]

theorem Le.step {σ τ : Spec} (h : Le σ τ) (op : HOp) : Le (specStep σ op) (mayStep τ op) := by
  have hD : ∀ (c : Nat) (l l' : List Nat), (∀ i, i ∈ l → i ∈ l') →
      Le { σ with D := upd σ.D c l } { τ with D := upd τ.D c l' } := by
    intro c l l' hl
    refine { h with dle := ?_, kle := h.kle }
    intro x i hi
    by_cases hx : x = c
    · subst hx; simp only [upd_same] at hi ⊢; exact hl i hi
    · simp only [upd_other _ _ hx] at hi ⊢; exact h.dle x i hi
  have hK : ∀ (o : Nat) (l l' : List Nat), (∀ i, i ∈ l → i ∈ l') →
      Le { σ with K := upd σ.K o (some l) } { τ with K := upd τ.K o (some l') } := by
    intro o l l' hl
    refine { h with dle := h.dle, kle := ?_ }
    intro x i hi
    by_cases hx : x = o
    · subst hx; simp only [Spec.Kl, upd_same, Option.getD_some] at hi ⊢; exact hl i hi
    · simp only [Spec.Kl, upd_other _ _ hx] at hi ⊢; exact h.kle x i hi
  cases op with
  | iface i bs =>
    exact ⟨by simp [specStep, mayStep, h.e1], by simp [specStep, mayStep, h.e2], h.e3, h.e4, h.e5, h.e6, h.e7, h.dle, h.kle⟩
  | cls c pb =>
    refine ⟨h.e1, h.e2, by simp [specStep, mayStep, h.e3], by simp [specStep, mayStep, h.e4],
      by simp [specStep, mayStep, h.e5], h.e6, h.e7, ?_, h.kle⟩
    intro x i hi
    simp only [specStep, mayStep] at hi ⊢
    by_cases hx : x = c
    · subst hx; simp at hi
    · simp only [upd_other _ _ hx] at hi ⊢; exact h.dle x i hi
  | inst o c =>
    refine ⟨h.e1, h.e2, h.e3, h.e4, h.e5, by simp [specStep, mayStep, h.e6], by simp [specStep, mayStep, h.e7], h.dle, ?_⟩
    intro x i hi
    simp only [specStep, mayStep, Spec.Kl] at hi ⊢
    by_cases hx : x = o
    · subst hx; simp at hi
    · simp only [upd_other _ _ hx] at hi ⊢; exact h.kle x i hi
  | classImplements c L =>
    apply hD; intro i hi
    rcases List.mem_append.mp hi with hi | hi
    · exact List.mem_append.mpr (Or.inl (h.dle c i hi))
    · exact List.mem_append.mpr (Or.inr (List.mem_filter.mp hi).1)
  | classImplementsFirst c j =>
    apply hD; intro i hi
    rcases List.mem_append.mp hi with hi | hi
    · exact List.mem_append.mpr (Or.inl (h.dle c i hi))
    · exact List.mem_append.mpr (Or.inr (List.mem_filter.mp hi).1)
  | classImplementsOnly c L =>
    have := hD c L L (fun _ hi => hi)
    exact ⟨this.e1, this.e2, this.e3, this.e4, by simp [specStep, mayStep, h.e5], this.e6, this.e7, this.dle, this.kle⟩
  | directlyProvides o L => apply hK; intro i hi; exact (List.mem_filter.mp hi).1
  | alsoProvides o L =>
    apply hK; intro i hi
    rcases List.mem_append.mp (List.mem_filter.mp hi).1 with hi | hi
    · exact List.mem_append.mpr (Or.inl (h.kle o i hi))
    · exact List.mem_append.mpr (Or.inr hi)
  | noLongerProvides o j =>
    apply hK; intro i hi
    have h1 := List.mem_filter.mp (List.mem_filter.mp hi).1
    rw [upB_congr h.e1 h.e2] at h1
    exact List.mem_filter.mpr ⟨h.kle o i h1.1, h1.2⟩
  | qImpl c => exact h
  | qProv o => exact h

theorem Le.impl {σ τ : Spec} (h : Le σ τ) {c i : Nat} (hi : Impl σ c i) : Impl τ c i := by
  induction hi with
  | root c => exact Impl.root c
  | decl hx hr => exact Impl.decl (h.dle _ _ hx) (h.e2 ▸ hr)
  | inh h1 h2 _ ih => exact Impl.inh (h.e5 ▸ h1) (h.e4 ▸ h2) ih

theorem Le.prov {σ τ : Spec} (h : Le σ τ) {o i : Nat} (hi : Prov σ o i) : Prov τ o i := by
  rcases hi with (h0 | ⟨x, hx, hr⟩) | hI
  · exact Or.inl (Or.inl h0)
  · exact Or.inl (Or.inr ⟨x, h.kle o x hx, h.e2 ▸ hr⟩)
  · exact Or.inr (h.e7 ▸ h.impl hI)

theorem le_run (h : List HOp) : Le (specRun h) (mayRun h) := by
  suffices hgen : ∀ (h : List HOp) (σ τ : Spec), Le σ τ → Le (h.foldl specStep σ) (h.foldl mayStep τ) from
    hgen h _ _ ⟨rfl, rfl, rfl, rfl, rfl, rfl, rfl, fun _ _ h => h, fun _ _ h => h⟩
  intro h
  induction h with
  | nil => intro σ τ hl; exact hl
  | cons op rest ih => intro σ τ hl; exact ih _ _ (hl.step op)

/-- an implied interface implies everything it extends -/
theorem Impl.up_closed {σ : Spec} (wf : SpecWF σ) {c i t : Nat} (hi : Impl σ c i) (hr : Reach σ.ibases i t) :
    Impl σ c t := by
  induction hi with
  | root c => rw [Sim.reach_zero wf hr]; exact Impl.root c
  | decl hx hr' =>
    refine Impl.decl hx ?_
    clear hx
    induction hr' with
    | refl => exact hr
    | step hb _ ih => exact Reach.step hb (ih hr)
  | inh h1 h2 _ ih => exact Impl.inh h1 h2 (ih hr)

/-- **C01_sandwich, upper half**: after any history, everything `implementedBy` / `providedBy` report (`Impl`, `Prov`
— by `C01_exact` these are the real answers) was declared or inherited (`ImplMay`, `ProvMay`: the same specification
that never drops anything). No well-formedness is needed for this half. -/
theorem C01_sandwich_upper (h : List HOp) :
    (∀ c i, Impl (specRun h) c i → ImplMay h c i) ∧ (∀ o i, Prov (specRun h) o i → ProvMay h o i) :=
  ⟨fun _ _ hi => (le_run h).impl hi, fun _ _ hi => (le_run h).prov hi⟩

/-- **C01_sandwich, lower half, at the call**: right after `directlyProvides(o, *L)` / `alsoProvides(o, *L)` in a
well-formed state, every interface named in the call (and, for `alsoProvides`, every interface directly provided
before) is provided, with everything it extends; the ones that were not redundant at the time of the call (not already
implied by the class) are kept in the direct declaration `K o`.  The same for `classImplements(c, *L)`. -/
theorem C01_sandwich_lower {σ : Spec} (wf : SpecWF σ) :
    (∀ o L, WFop σ (.directlyProvides o L) → ∀ i ∈ L,
      (¬ Impl σ (σ.clsOf o) i → i ∈ (specStep σ (.directlyProvides o L)).Kl o) ∧
      (∀ t, Up σ [i] t → Prov (specStep σ (.directlyProvides o L)) o t)) ∧
    (∀ o L, WFop σ (.alsoProvides o L) → ∀ i, i ∈ σ.Kl o ∨ i ∈ L →
      (¬ Impl σ (σ.clsOf o) i → i ∈ (specStep σ (.alsoProvides o L)).Kl o) ∧
      (∀ t, Up σ [i] t → Prov (specStep σ (.alsoProvides o L)) o t)) ∧
    (∀ c L, WFop σ (.classImplements c L) → ∀ i ∈ L,
      (¬ Impl σ c i → i ∈ (specStep σ (.classImplements c L)).D c) ∧
      (∀ t, Up σ [i] t → Impl (specStep σ (.classImplements c L)) c t)) := by
  -- the class part of `Impl` does not change under an instance declaration, and only grows under `classImplements`
  have hsame : ∀ (K' : Nat → Option (List Nat)) (c i : Nat), Impl σ c i → Impl { σ with K := K' } c i := by
    intro K' c i hi
    induction hi with
    | root c => exact Impl.root c
    | decl hx hr => exact Impl.decl hx hr
    | inh h1 h2 _ ih => exact Impl.inh h1 h2 ih
  have hgrow : ∀ (c : Nat) (l : List Nat) (c' i : Nat), Impl σ c' i → Impl { σ with D := upd σ.D c (σ.D c ++ l) } c' i := by
    intro c l c' i hi
    induction hi with
    | root c => exact Impl.root c
    | @decl c'' x i hx hr =>
      refine Impl.decl ?_ hr
      by_cases hc : c'' = c
      · subst hc; simp [hx]
      · simp only [upd_other _ _ hc]; exact hx
    | inh h1 h2 _ ih => exact Impl.inh h1 h2 ih
  have hinst : ∀ (o : Nat) (N : List Nat), o ∈ σ.insts → ∀ i ∈ N,
      (¬ Impl σ (σ.clsOf o) i → i ∈ Spec.Kl { σ with K := upd σ.K o (some (N.filter fun i => !implB σ (σ.clsOf o) i)) } o) ∧
      (∀ t, Up σ [i] t → Prov { σ with K := upd σ.K o (some (N.filter fun i => !implB σ (σ.clsOf o) i)) } o t) := by
    intro o N ho i hi
    have hc := wf.cls_mem o ho
    have hkeep : ¬ Impl σ (σ.clsOf o) i →
        i ∈ Spec.Kl { σ with K := upd σ.K o (some (N.filter fun i => !implB σ (σ.clsOf o) i)) } o := by
      intro hn
      simp only [Spec.Kl, upd_same, Option.getD_some, List.mem_filter, Bool.not_eq_true', ← Bool.not_eq_true,
        implB_iff wf hc]
      exact ⟨hi, hn⟩
    refine ⟨hkeep, ?_⟩
    rintro t (rfl | ⟨x, hx, hr⟩)
    · exact Or.inl (Or.inl rfl)
    · simp at hx; subst hx
      by_cases hI : Impl σ (σ.clsOf o) x
      · exact Or.inr (hsame _ _ _ (hI.up_closed wf hr))
      · exact Or.inl (Or.inr ⟨x, hkeep hI, hr⟩)
  refine ⟨fun o L hw i hi => hinst o L hw.1 i hi, fun o L hw i hi => hinst o (σ.Kl o ++ L) hw.1 i (List.mem_append.mpr hi), ?_⟩
  intro c L hw i hi
  have hkeep : ¬ Impl σ c i → i ∈ (specStep σ (.classImplements c L)).D c := by
    intro hn
    simp only [specStep, upd_same, List.mem_append, List.mem_filter, Bool.not_eq_true', ← Bool.not_eq_true,
      implB_iff wf hw.1]
    exact Or.inr ⟨hi, hn⟩
  refine ⟨hkeep, ?_⟩
  rintro t (rfl | ⟨x, hx, hr⟩)
  · exact Impl.root c
  · simp at hx; subst hx
    by_cases hI : Impl σ c x
    · exact hgrow c _ c t (hI.up_closed wf hr)
    · exact Impl.decl (hkeep hI) hr

/-! ## 13. C01_independent: a declaration on one object never changes what an unrelated object provides -/

/-- the instance an operation declares on (or creates) -/
def instTarget : HOp → Option Nat
  | .inst o _ => some o
  | .directlyProvides o _ => some o
  | .alsoProvides o _ => some o
  | .noLongerProvides o _ => some o
  | _ => none

/-- the class an operation declares on -/
def clsTarget : HOp → Option Nat
  | .classImplements c _ => some c
  | .classImplementsOnly c _ => some c
  | .classImplementsFirst c _ => some c
  | _ => none

/-- `Anc σ c' c`: `c` is `c'` or one of its Python ancestors along classes that still inherit -/
inductive Anc (σ : Spec) : Nat → Nat → Prop
  | refl (c : Nat) : Anc σ c c
  | step {c' b c : Nat} : σ.inh c' = true → b ∈ σ.pyBases c' → Anc σ b c → Anc σ c' c

theorem Impl_congr {σ τ : Spec} (e2 : σ.ibases = τ.ibases) (e4 : σ.pyBases = τ.pyBases) (e5 : σ.inh = τ.inh)
    (e : σ.D = τ.D) {c i : Nat} (hi : Impl σ c i) : Impl τ c i := by
  induction hi with
  | root c => exact Impl.root c
  | decl hx hr => exact Impl.decl (e ▸ hx) (e2 ▸ hr)
  | inh h1 h2 _ ih => exact Impl.inh (e5 ▸ h1) (e4 ▸ h2) ih

/-- changing `D c` / `inh c` is invisible from classes that do not have `c` as an inheriting ancestor-or-self -/
theorem Impl_indep {σ τ : Spec} (c : Nat) (e2 : σ.ibases = τ.ibases) (e4 : σ.pyBases = τ.pyBases)
    (e : ∀ x, x ≠ c → σ.D x = τ.D x ∧ σ.inh x = τ.inh x) {c' i : Nat} (hi : Impl σ c' i) (hn : ¬ Anc σ c' c) :
    Impl τ c' i := by
  induction hi with
  | root c => exact Impl.root c
  | @decl c'' x i hx hr =>
    have hc : c'' ≠ c := fun e' => hn (e' ▸ Anc.refl c'')
    exact Impl.decl ((e c'' hc).1 ▸ hx) (e2 ▸ hr)
  | @inh c'' b i h1 h2 _ ih =>
    have hc : c'' ≠ c := fun e' => hn (e' ▸ Anc.refl c'')
    exact Impl.inh ((e c'' hc).2 ▸ h1) (e4 ▸ h2) (ih fun ha => hn (Anc.step h1 h2 ha))

/-- the ancestor relation towards `c` does not depend on `inh c` / `D c` -/
theorem Anc_indep {σ τ : Spec} (c : Nat) (e4 : σ.pyBases = τ.pyBases) (e : ∀ x, x ≠ c → σ.inh x = τ.inh x)
    {c' : Nat} (ha : Anc σ c' c) : Anc τ c' c := by
  induction ha with
  | refl c => exact Anc.refl c
  | @step c'' b c h1 h2 _ ih =>
    by_cases hc : c'' = c
    · subst hc; exact Anc.refl c''
    · exact Anc.step (e c'' hc ▸ h1) (e4 ▸ h2) (ih e)

/-- **C01_independent (abstract level).**
(a) an operation on instance `o` (`directlyProvides`, `alsoProvides`, `noLongerProvides`, creation) changes no `Impl`
    and no `Prov o'` for `o' ≠ o`;
(b) a declaration on class `c` (`classImplements`, `classImplementsOnly`, `classImplementsFirst`) changes `Impl c'` only
    if `c` is `c'` or an inheriting ancestor of `c'`, and `Prov o` only for instances of such classes.
No hypotheses are needed. Combined with `C01_exact` (`C01_independent_real`) it is the statement about the answers of
`implementedBy` / `providedBy`. -/
theorem C01_independent (σ : Spec) (op : HOp) :
    (∀ o, instTarget op = some o →
      (∀ c i, Impl (specStep σ op) c i ↔ Impl σ c i) ∧
      (∀ o', o' ≠ o → ∀ i, Prov (specStep σ op) o' i ↔ Prov σ o' i)) ∧
    (∀ c, clsTarget op = some c →
      (∀ c', ¬ Anc σ c' c → ∀ i, Impl (specStep σ op) c' i ↔ Impl σ c' i) ∧
      (∀ o, ¬ Anc σ (σ.clsOf o) c → ∀ i, Prov (specStep σ op) o i ↔ Prov σ o i)) := by
  constructor
  · intro o ht
    have key : ∀ τ : Spec, τ.ibases = σ.ibases → τ.pyBases = σ.pyBases → τ.inh = σ.inh → τ.D = σ.D →
        ∀ c i, Impl τ c i ↔ Impl σ c i := fun τ e2 e4 e5 e c i =>
      ⟨Impl_congr e2 e4 e5 e, Impl_congr e2.symm e4.symm e5.symm e.symm⟩
    have himp : ∀ c i, Impl (specStep σ op) c i ↔ Impl σ c i := by
      intro c i
      cases op <;> simp [instTarget] at ht <;> exact key (specStep σ _) rfl rfl rfl rfl c i
    refine ⟨himp, fun o' ho' i => ?_⟩
    have hK : (specStep σ op).Kl o' = σ.Kl o' ∧ (specStep σ op).clsOf o' = σ.clsOf o' ∧
        (specStep σ op).ibases = σ.ibases := by
      cases op <;> simp [instTarget] at ht <;> subst ht <;> simp [specStep, Spec.Kl, upd_other _ _ ho']
    simp only [Prov, Up, hK.1, hK.2.1, hK.2.2, himp]
  · intro c ht
    have hshape : (specStep σ op).ibases = σ.ibases ∧ (specStep σ op).pyBases = σ.pyBases ∧
        (specStep σ op).clsOf = σ.clsOf ∧ (specStep σ op).K = σ.K ∧
        ∀ x, x ≠ c → (specStep σ op).D x = σ.D x ∧ (specStep σ op).inh x = σ.inh x := by
      cases op <;> simp [clsTarget] at ht <;> subst ht <;>
        exact ⟨rfl, rfl, rfl, rfl, fun x hx => by simp [specStep, upd_other _ _ hx]⟩
    obtain ⟨e2, e4, e7, e8, e⟩ := hshape
    have himp : ∀ c', ¬ Anc σ c' c → ∀ i, Impl (specStep σ op) c' i ↔ Impl σ c' i := by
      intro c' hn i
      constructor
      · intro hi
        exact Impl_indep c e2 e4 e hi (fun ha => hn (Anc_indep c e4 (fun x hx => (e x hx).2) ha))
      · intro hi
        exact Impl_indep c e2.symm e4.symm (fun x hx => ⟨(e x hx).1.symm, (e x hx).2.symm⟩) hi hn
    refine ⟨himp, fun o hn i => ?_⟩
    simp only [Prov, Up, Spec.Kl, e2, e7, e8]
    rw [himp _ hn]

theorem WFFrom_append : ∀ (h1 h2 : List HOp) (σ : Spec),
    WFFrom σ (h1 ++ h2) ↔ (WFFrom σ h1 ∧ WFFrom (specRunFrom σ h1) h2) := by
  intro h1
  induction h1 with
  | nil => intro h2 σ; simp [WFFrom, specRunFrom]
  | cons op rest ih =>
    intro h2 σ
    simp only [List.cons_append, WFFrom, ih, specRunFrom, List.foldl_cons, and_assoc]

theorem specRun_append (h1 h2 : List HOp) : specRun (h1 ++ h2) = specRunFrom (specRun h1) h2 := by
  simp [specRun, specRunFrom, List.foldl_append]

/-- **C01_independent, for the real answers**: in a well-formed history `h ++ [op]`,
(a) if `op` declares on (or creates) instance `o`, the answers of `implementedBy(c)` for every existing class and of
    `providedBy(o')` for every other existing instance are the same before and after `op`;
(b) if `op` declares on class `c`, the answers of `implementedBy(c')` are the same before and after for every existing
    class `c'` that does not have `c` as itself / an inheriting ancestor (siblings, bases, unrelated classes), and so
    are the answers of `providedBy(o)` for the instances of such classes.
Guards: `WFHist (h ++ [op])` and the budget as in `C01_exact`; `o' ≠ o` and `¬ Anc … c' c` are the point of the
statement — `directlyProvides(o, IA)` does change `providedBy(o)`, and `classImplements(K, IA)` does add `IA` to `K`, to
every subclass of `K` that still inherits, and to their instances. -/
theorem C01_independent_real (h : List HOp) (op : HOp) (hw : WFHist (h ++ [op])) (fuel : Nat)
    (hf : (specRun (h ++ [op])).classes.length ≤ fuel) :
    (∀ o, instTarget op = some o →
      (∀ c ∈ (specRun h).classes, ∀ i, isIface i = true →
        (i ∈ (implementedBy fuel (run fuel (h ++ [op])) c).1.sro (implementedBy fuel (run fuel (h ++ [op])) c).2 ↔
         i ∈ (implementedBy fuel (run fuel h) c).1.sro (implementedBy fuel (run fuel h) c).2)) ∧
      (∀ o' ∈ (specRun h).insts, o' ≠ o → ∀ i, isIface i = true →
        (i ∈ (providedBy fuel (run fuel (h ++ [op])) o').1.sro (providedBy fuel (run fuel (h ++ [op])) o').2 ↔
         i ∈ (providedBy fuel (run fuel h) o').1.sro (providedBy fuel (run fuel h) o').2))) ∧
    (∀ c, clsTarget op = some c →
      (∀ c' ∈ (specRun h).classes, ¬ Anc (specRun h) c' c → ∀ i, isIface i = true →
        (i ∈ (implementedBy fuel (run fuel (h ++ [op])) c').1.sro (implementedBy fuel (run fuel (h ++ [op])) c').2 ↔
         i ∈ (implementedBy fuel (run fuel h) c').1.sro (implementedBy fuel (run fuel h) c').2)) ∧
      (∀ o ∈ (specRun h).insts, ¬ Anc (specRun h) ((specRun h).clsOf o) c → ∀ i, isIface i = true →
        (i ∈ (providedBy fuel (run fuel (h ++ [op])) o).1.sro (providedBy fuel (run fuel (h ++ [op])) o).2 ↔
         i ∈ (providedBy fuel (run fuel h) o).1.sro (providedBy fuel (run fuel h) o).2))) := by
  have hw' : WFHist h := ((WFFrom_append h [op] Spec.init).mp hw).1
  have hrun : specRun (h ++ [op]) = specStep (specRun h) op := by rw [specRun_append]; rfl
  have hmono : (specRun h).classes.length ≤ (specRun (h ++ [op])).classes.length := by
    rw [hrun]; cases op <;> simp [specStep]
  have hcm : ∀ c, c ∈ (specRun h).classes → c ∈ (specRun (h ++ [op])).classes := by
    intro c hc; rw [hrun]; cases op <;> simp [specStep, hc]
  have hom : ∀ o, o ∈ (specRun h).insts → o ∈ (specRun (h ++ [op])).insts := by
    intro o ho; rw [hrun]; cases op <;> simp [specStep, ho]
  obtain ⟨a1, a2⟩ := C01_exact (h ++ [op]) hw fuel hf
  obtain ⟨b1, b2⟩ := C01_exact h hw' fuel (Nat.le_trans hmono hf)
  obtain ⟨i1, i2⟩ := C01_independent (specRun h) op
  constructor
  · intro o ht
    obtain ⟨j1, j2⟩ := i1 o ht
    refine ⟨fun c hc i hi => ?_, fun o' ho' hne i hi => ?_⟩
    · rw [a1 c (hcm c hc) i hi, b1 c hc i hi, hrun]; exact j1 c i
    · rw [a2 o' (hom o' ho') i hi, b2 o' ho' i hi, hrun]; exact j2 o' hne i
  · intro c ht
    obtain ⟨j1, j2⟩ := i2 c ht
    refine ⟨fun c' hc hn i hi => ?_, fun o ho hn i hi => ?_⟩
    · rw [a1 c' (hcm c' hc) i hi, b1 c' hc i hi, hrun]; exact j1 c' hn i
    · rw [a2 o (hom o ho) i hi, b2 o ho i hi, hrun]; exact j2 o hn i

/-- the `ValueError` of the last call of a well-formed history `h ++ [noLongerProvides(o, j)]` is raised exactly when
`j` is still provided afterwards (through the class, or through another directly provided interface extending it) -/
theorem C01_noLonger_error (h : List HOp) (o j : Nat) (hw : WFHist (h ++ [.noLongerProvides o j])) (fuel : Nat)
    (hf : (specRun (h ++ [.noLongerProvides o j])).classes.length ≤ fuel) (hj : isIface j = true) :
    (noLongerProvides fuel (run fuel h) o j).2 = true ↔ Prov (specRun (h ++ [.noLongerProvides o j])) o j := by
  obtain ⟨hw1, hw2, _⟩ := (WFFrom_append h [.noLongerProvides o j] Spec.init).mp hw
  have hrun : specRun (h ++ [.noLongerProvides o j]) = specStep (specRun h) (.noLongerProvides o j) := by
    rw [specRun_append]; rfl
  rw [hrun] at hf ⊢
  exact (sim_run h hw1 hf).noLonger_error hf o j hw2 hj

/-! ## 14. what was kept stays: only declarations redundant *when made* are ever dropped -/

theorem reach_step_mono {σ : Spec} (wf : SpecWF σ) (op : HOp) (hw : WFop σ op) {x t : Nat}
    (hr : Reach σ.ibases x t) : Reach (specStep σ op).ibases x t := by
  cases op with
  | iface i bs =>
    induction hr with
    | refl => exact Reach.refl _
    | @step s b t' hb _ ih =>
      have hs : s ≠ i := fun e => hw.2.1 (e ▸ (wf.ib_wf s b hb).1)
      refine Reach.step ?_ ih
      show b ∈ upd σ.ibases i bs s
      rw [upd_other _ _ hs]; exact hb
  | _ => exact hr

/-- **kept declarations persist.**  What is in the direct declaration `K o` of an instance (by `C01_sandwich_lower`:
everything named in the last `directlyProvides` / `alsoProvides` call that was not redundant at that moment) stays
provided, with everything it extends, through ANY well-formed continuation that does not declare on `o` itself — whatever
happens to the class of `o`, its bases, other instances, or the `Provides` cache.  Likewise what is in `D c` stays
implemented by `c` until `classImplementsOnly(c, …)` is called. -/
theorem C01_kept_persists (o c : Nat) : ∀ (h2 : List HOp) (σ : Spec), SpecWF σ → WFFrom σ h2 →
    ((∀ op ∈ h2, instTarget op ≠ some o) →
      ∀ i ∈ σ.Kl o, ∀ t, Up σ [i] t → Prov (specRunFrom σ h2) o t) ∧
    (c ∈ σ.classes → (∀ op ∈ h2, ∀ L, op ≠ .classImplementsOnly c L) →
      ∀ i ∈ σ.D c, ∀ t, Up σ [i] t → Impl (specRunFrom σ h2) c t) := by
  intro h2
  induction h2 with
  | nil =>
    intro σ _ _
    refine ⟨fun _ i hi t ht => ?_, fun _ _ i hi t ht => ?_⟩
    · rcases ht with rfl | ⟨x, hx, hr⟩
      · exact Or.inl (Or.inl rfl)
      · simp at hx; subst hx; exact Or.inl (Or.inr ⟨x, hi, hr⟩)
    · rcases ht with rfl | ⟨x, hx, hr⟩
      · exact Impl.root c
      · simp at hx; subst hx; exact Impl.decl hi hr
  | cons op rest ih =>
    intro σ wf hw
    obtain ⟨ih1, ih2⟩ := ih (specStep σ op) (specStep_wf wf op hw.1) hw.2
    have hup : ∀ i t, Up σ [i] t → Up (specStep σ op) [i] t := by
      rintro i t (rfl | ⟨x, hx, hr⟩)
      · exact Or.inl rfl
      · exact Or.inr ⟨x, hx, reach_step_mono wf op hw.1 hr⟩
    refine ⟨fun hno i hi t ht => ?_, fun hc hno i hi t ht => ?_⟩
    · have hop := hno op (by simp)
      have hK : (specStep σ op).Kl o = σ.Kl o := by
        cases op with
        | inst o' _ =>
          have : o ≠ o' := fun e => hop (by simp [instTarget, e])
          simp [specStep, Spec.Kl, upd_other _ _ this]
        | directlyProvides o' _ =>
          have : o ≠ o' := fun e => hop (by simp [instTarget, e])
          simp [specStep, Spec.Kl, upd_other _ _ this]
        | alsoProvides o' _ =>
          have : o ≠ o' := fun e => hop (by simp [instTarget, e])
          simp [specStep, Spec.Kl, upd_other _ _ this]
        | noLongerProvides o' _ =>
          have : o ≠ o' := fun e => hop (by simp [instTarget, e])
          simp [specStep, Spec.Kl, upd_other _ _ this]
        | _ => rfl
      exact ih1 (fun op' h' => hno op' (by simp [h'])) i (hK ▸ hi) t (hup i t ht)
    · have hop := hno op (by simp)
      have hc' : c ∈ (specStep σ op).classes := by cases op <;> simp [specStep, hc]
      have hD : i ∈ (specStep σ op).D c := by
        cases op with
        | cls c' pb =>
          have : c ≠ c' := fun e => hw.1.1 (e ▸ hc)
          simp only [specStep, upd_other _ _ this]; exact hi
        | classImplements c' L =>
          simp only [specStep]
          by_cases hcc : c = c'
          · subst hcc; simp [hi]
          · rw [upd_other _ _ hcc]; exact hi
        | classImplementsFirst c' j =>
          simp only [specStep]
          by_cases hcc : c = c'
          · subst hcc; rw [upd_same]; exact List.mem_append.mpr (Or.inl hi)
          · rw [upd_other _ _ hcc]; exact hi
        | classImplementsOnly c' L =>
          have hcc : c ≠ c' := fun e => hop L (e ▸ rfl)
          simp only [specStep, upd_other _ _ hcc]; exact hi
        | _ => exact hi
      exact ih2 hc' (fun op' h' => hno op' (by simp [h'])) i hD t (hup i t ht)

/-- **C01_sandwich** (headline form).  Let a well-formed history contain `directlyProvides(o, *L)` followed by any
continuation `h2` that does not declare on `o` again.  Then at the end
* everything `providedBy(o)` reports (`Prov`, the real answer by `C01_exact`) was declared or inherited (`ProvMay`), and
* every interface named in `L` that was not redundant at the moment of the call (not implied by the class of `o` then)
  is still provided, together with everything it extends.
So only declarations redundant when made are dropped.  (`hno` is needed: a later `directlyProvides(o, …)` replaces the
declaration, a later `noLongerProvides` removes from it.) -/
theorem C01_sandwich (h1 h2 : List HOp) (o : Nat) (L : List Nat)
    (hw : WFHist (h1 ++ HOp.directlyProvides o L :: h2)) (hno : ∀ op ∈ h2, instTarget op ≠ some o) :
    (∀ i, Prov (specRun (h1 ++ HOp.directlyProvides o L :: h2)) o i → ProvMay (h1 ++ HOp.directlyProvides o L :: h2) o i) ∧
    (∀ i ∈ L, ¬ Impl (specRun h1) ((specRun h1).clsOf o) i → ∀ t, Up (specRun h1) [i] t →
      Prov (specRun (h1 ++ HOp.directlyProvides o L :: h2)) o t) := by
  refine ⟨fun i hi => (C01_sandwich_upper _).2 o i hi, fun i hi hn t ht => ?_⟩
  obtain ⟨hw1, hwop, hw2⟩ := (WFFrom_append h1 (HOp.directlyProvides o L :: h2) Spec.init).mp hw
  have wf1 : SpecWF (specRun h1) := specRun_wf h1 hw1
  have hk := ((C01_sandwich_lower wf1).1 o L hwop i hi).1 hn
  have hrun : specRun (h1 ++ HOp.directlyProvides o L :: h2)
      = specRunFrom (specStep (specRun h1) (.directlyProvides o L)) h2 := by
    rw [specRun_append]; rfl
  rw [hrun]
  exact (C01_kept_persists o 0 h2 _ (specStep_wf wf1 _ hwop) hw2).1 hno i hk t ht

/-! ## 15. non-vacuity: concrete well-formed histories -/

/-- the three-step history of the property text, IA = 1, IB = 2, class K = 1, k1 = 1, k2 = 2:
`@implementer(IA) class K; k1 = K(); directlyProvides(k1, IA); classImplementsOnly(K, IB); k2 = K();
directlyProvides(k2, IA)` -/
def h3 : List HOp :=
  [.iface 1 [0], .iface 2 [0], .cls 1 [0], .classImplements 1 [1], .inst 1 1, .directlyProvides 1 [1],
   .classImplementsOnly 1 [2], .inst 2 1, .directlyProvides 2 [1]]

/-- a longer history using every kind of step: a diamond of interfaces, a diamond of classes, declarations before
and after subclass / instance creation and queries -/
def h25 : List HOp :=
  [.iface 1 [0], .iface 2 [1], .iface 3 [0], .iface 4 [2, 3], .cls 1 [0], .cls 2 [1], .cls 3 [1], .cls 4 [2, 3],
   .inst 1 4, .directlyProvides 1 [4], .classImplements 2 [2], .classImplementsFirst 4 3, .inst 2 4,
   .alsoProvides 2 [1, 3], .alsoProvides 1 [1], .classImplementsOnly 3 [3], .noLongerProvides 1 2, .qImpl 4, .qProv 2,
   .classImplements 1 [4], .directlyProvides 2 [4, 1], .inst 3 2, .directlyProvides 3 [4, 1], .noLongerProvides 3 1,
   .classImplements 0 [3]]

theorem h3_wf : WFHist h3 := by decide
theorem h25_wf : WFHist h25 := by decide +kernel

/-- **non-vacuity of `C01_exact` on the history of the property text**: the history is well-formed, the budget 64 of
the driver suffices, abstractly `IA ∈ Prov k2` (the declaration made after `classImplementsOnly` is NOT dropped — this
is what the `Provides` factory of the pinned commit got wrong, `ZI.Classes.C01_asis_violates`), hence the model answers
`IA.providedBy(k2) = True`; and `k1`, whose `directlyProvides(k1, IA)` was redundant when it was made, no longer provides
`IA` after `classImplementsOnly(K, IB)` (the one permitted loss). -/
theorem C01_nonvacuous :
    WFHist h3 ∧ (specRun h3).classes.length ≤ 64 ∧ 2 ∈ (specRun h3).insts ∧ Prov (specRun h3) 2 1 ∧
    1 ∈ (providedBy 64 (run 64 h3) 2).1.sro (providedBy 64 (run 64 h3) 2).2 ∧ ¬ Prov (specRun h3) 1 1 := by
  have wf := specRun_wf h3 h3_wf
  have h2 : 2 ∈ (specRun h3).insts := by decide
  have h1 : 1 ∈ (specRun h3).insts := by decide
  have hp : Prov (specRun h3) 2 1 := (provB_iff wf h2 1).mp (by decide)
  refine ⟨h3_wf, by decide, h2, hp, ?_, fun hn => ?_⟩
  · exact ((C01_exact h3 h3_wf 64 (by decide)).2 2 h2 1 (by decide)).mpr hp
  · have := (provB_iff wf h1 1).mpr hn
    revert this; decide

/-- the model, evaluated by the kernel, agrees (a cross-check of `C01_exact` itself on `h3` and `h25`) -/
example : ((providedBy 64 (run 64 h3) 2).1.isOrExtends (providedBy 64 (run 64 h3) 2).2 1,
           (providedBy 64 (run 64 h3) 1).1.isOrExtends (providedBy 64 (run 64 h3) 1).2 1) = (true, false) := by
  decide +kernel
example : ([1, 2, 3].map fun o => ((providedBy 64 (run 64 h25) o).1.sro (providedBy 64 (run 64 h25) o).2).filter isIface)
    = [1, 2, 3].map fun o => ((providedBy 64 (run 64 h25) o).1.sro (providedBy 64 (run 64 h25) o).2).filter
        fun i => isIface i && provB (specRun h25) o i := by
  decide +kernel

/-- non-vacuity of `C01_independent_real`: `h3` is `h ++ [op]` with `op` a declaration on instance 2; and a class
declaration (`classImplementsOnly(K, IB)`) after which the unrelated class `object` keeps its answers -/
example : WFHist (h3.take 8 ++ [.directlyProvides 2 [1]]) ∧ instTarget (.directlyProvides 2 [1]) = some 2 := by decide
example : WFHist (h3.take 6 ++ [.classImplementsOnly 1 [2]]) ∧ clsTarget (.classImplementsOnly 1 [2]) = some 1 ∧
    0 ∈ (specRun (h3.take 6)).classes := by decide
/-- … and `object` indeed does not have `K` as an ancestor -/
example : ¬ Anc (specRun (h3.take 6)) 0 1 := by
  intro h
  cases h with
  | step _ h2 _ =>
    have e : (specRun (h3.take 6)).pyBases 0 = [] := by decide
    rw [e] at h2; simp at h2

/-- non-vacuity of `C01_sandwich_lower` / `C01_kept_persists`: the state before the last step of `h3` is well-formed,
the step is well-formed in it, `IA` is not redundant there, and the continuation `[classImplementsOnly(K, IB)]` after
`directlyProvides(k1, IA)` does not declare on `k1` -/
example : SpecWF (specRun (h3.take 8)) ∧ WFop (specRun (h3.take 8)) (.directlyProvides 2 [1]) ∧
    implB (specRun (h3.take 8)) 1 1 = false :=
  ⟨specRun_wf _ (by decide), by decide, by decide⟩
example : WFFrom (specRun (h3.take 6)) [.classImplementsOnly 1 [2], .inst 2 1] ∧
    (∀ op ∈ [HOp.classImplementsOnly 1 [2], HOp.inst 2 1], instTarget op ≠ some 1) := by decide

/-- non-vacuity of `C01_sandwich`: `h3` up to `classImplementsOnly` is `h1 ++ directlyProvides(k2…)`-shaped with a
non-redundant declaration: take `h1 = h3.take 8`, the call `directlyProvides(k2, IA)`, and the continuation
`[classImplements(K, IA), qProv k2]`, which does not declare on `k2` -/
example : WFHist (h3.take 8 ++ HOp.directlyProvides 2 [1] :: [.classImplements 1 [1], .qProv 2]) ∧
    (∀ op ∈ [HOp.classImplements 1 [1], HOp.qProv 2], instTarget op ≠ some 2) ∧
    implB (specRun (h3.take 8)) ((specRun (h3.take 8)).clsOf 2) 1 = false := by decide

/-- non-vacuity of `C01_noLonger_error`: step 17 of `h25` is `noLongerProvides(1, 2)` -/
example : WFHist (h25.take 16 ++ [.noLongerProvides 1 2]) ∧ isIface 2 = true := by decide +kernel

#print axioms C01_exact
#print axioms C01_exact_exec
#print axioms C01_sandwich_upper
#print axioms C01_sandwich_lower
#print axioms C01_kept_persists
#print axioms C01_sandwich
#print axioms C01_independent
#print axioms C01_independent_real
#print axioms C01_nonvacuous
#print axioms C01_noLonger_error
#print axioms sim_step
#print axioms implB_iff
end ZI.C01
