import ZI.Props.C05Reg
/-! # C05 / C06 / C08 for the generation-checking registries (`VerifyingAdapterRegistry`)

Model: `ZI.Registry` (`adapter.py`) with `World.verifying = true`, i.e. `VerifyingAdapterRegistry` = `BaseAdapterRegistry` +
`VerifyingAdapterLookup` (`VerifyingBase`).  In this flavour nobody is told about anybody else's changes:
* `BaseAdapterRegistry.changed` of registry `b` bumps `b._generation` and calls `b._v_lookup.changed`, which (as repaired)
  re-derives `b.ro` from the current `__bases__` graph, clears `b`'s three lookup caches and takes a snapshot
  `_verify_ro = ro[1:]`, `_verify_generations = [r._generation for r in _verify_ro]` (`verifyingChanged`); there are no
  `_v_subregistries`, so neither a registration in `b` nor `b.__bases__ = …` reaches the registries below `b`;
* instead every lookup entry point (`lookup`, `lookupAll`, `subscriptions`) first runs `_verify`: if the current generations
  of `_verify_ro` differ from the snapshot, it runs the lookup object's `changed` (`verify`).
Histories (`Op`, `step`, `run`, guards `WF` / `WFHist`, `existing`) are those of `ZI/Props/C06.lean`; nothing is added to the guards.

What is proved, for ALL well-formed histories `run fuel (emptyVer sro iro) ops` (all ten operation kinds, at any registry):

* `C05_verifying_invariant` — the invariant `VInv`: generations only grow (every snapshot entry is `≤` the current generation
  of the registry it was taken of, same lengths; `step_gen_mono` / `C05_verifying_gen_mono`: no step decreases a generation);
  a registry has `ro = []` exactly while its generation is 0; and, for every registry `r`, IF `r`'s snapshot is current THEN
  `r.ro` is the resolution order of the CURRENT base graph, `_verify_ro = ro[1:]`, and every entry of `r`'s three caches is
  the uncached answer on the current state (`CacheOk`).  Why it is preserved (`vc_inv`): a mutation or re-basing of `b` bumps
  `b`'s generation, so every `r` with `b` in its snapshot list has a stale snapshot (and will have one until it is
  re-snapshot, because generations only grow: `genLe_current`); an `r ≠ b` without `b` in its snapshot list has — as that list
  is `ro r [1:]` and `ro r` is exactly the set of registries reachable from `r` — neither `b`'s registrations in its walk nor
  `b` in the part of the base graph its `ro` depends on (`roFull_congr`); `b` itself re-derives, clears and re-snapshots.
* `roFull_regs_length` — the recursion bound the model's `verifyingChanged` uses (`len(regs) + 1`) always suffices: on an acyclic
  graph a base chain visits distinct registries with bases, all of which are in the table (`roFull_deep`); so this is NOT a guard.
* `C06_ro_verifying` — after the `_verify` every entry point starts with, every created registry holds exactly
  `ro.ro` of the current base graph.
* `C05_verifying_transparent_lookup` / `…_lookupAll` / `…_subscriptions` — each entry point returns the uncached walk of the
  verified state, for every registry, whatever the caches hold; `C05_verifying_uncached_spec` / `C05_verifying_spec` — that is
  the specification `specLookup` / `specLookupAll` / `specSubscriptions`: the walk over the freshly computed resolution order
  with the current registrations (no `ro`, cache or snapshot field is read) — for every registry if `0 < fuel`, in
  particular for every created registry (`C05_verifying_spec_existing`).
* `C05_verifying_erase` — C05 literally: each query returns, after a history, what it returns after the same history with
  all earlier queries erased.  Queries here may re-derive `ro` and re-snapshot, so the two runs are related by `VEq` (equal
  up to `ro`, caches, snapshots) and the answers compared through the specification.
* `C08_verifying_lookupAll_agrees` — `lookupAll` binds each name to what `lookup` returns for it, along the whole chain.

`fuel = 0` (the model's `changed` is then the identity; no registry can be created under the guards) is covered by the
separate invariant `ZInv`; `Reach5` packages the two cases so that no theorem needs `0 < fuel`.

Counterexamples for the guards (kernel-checked, at the end): `renewVer`, `shallowVer`, `blankVer`. -/
namespace ZI.Registry
open ZI.RO
local notation "Id" => Nat

/-! ### `ro.ro` does not depend on the fuel once the fuel exceeds the number of registries with bases -/
theorem acyclic_cut {B : Bases} {rank : Id → Nat} (ha : Acyclic B rank) (c : Id) : Acyclic (updB B c []) rank := by
  intro s b hb
  unfold updB at hb
  split at hb
  · cases hb
  · exact ha s b hb

theorem cut_agrees {B : Bases} {rank : Id → Nat} (ha : Acyclic B rank) {c b : Id} (hb : b ∈ B c) :
    ∀ x, Reach B b x → B x = updB B c [] x := by
  intro x hx
  have : x ≠ c := fun e => not_reach_self_of_base ha hb (e ▸ hx)
  simp [updB, this]

theorem cut_support {B : Bases} {K : List Id} (hK : ∀ y, B y ≠ [] → y ∈ K) (c : Id) :
    ∀ y, updB B c [] y ≠ [] → y ∈ K.erase c := by
  intro y hy
  unfold updB at hy
  split at hy
  · exact absurd rfl hy
  · rename_i hne
    exact (List.mem_erase_of_ne hne).mpr (hK y hy)

/-- the DFS of `_legacy_flatten` with fuel `m` ≥ the number of nodes that have bases is the DFS with any sufficient fuel -/
theorem flatten_deep : ∀ (m : Nat) (K : List Id) (B : Bases) (rank : Id → Nat), K.length ≤ m → Acyclic B rank →
    (∀ y, B y ≠ [] → y ∈ K) → ∀ (c : Id) (f : Nat), rank c ≤ f → flatten B m c = flatten B f c := by
  intro m
  induction m with
  | zero =>
    intro K B rank hK ha hs c f hr
    have hb : B c = [] := by
      cases h : B c with
      | nil => rfl
      | cons b _ =>
        have : c ∈ K := hs c (by rw [h]; simp)
        cases K with
        | nil => cases this
        | cons _ _ => simp at hK
    cases f with
    | zero => rfl
    | succ f => simp [flatten, hb]
  | succ m ih =>
    intro K B rank hK ha hs c f hr
    cases hbc : B c with
    | nil =>
      cases f with
      | zero => simp [flatten, hbc]
      | succ f => simp [flatten, hbc]
    | cons b0 bs0 =>
      have hcK : c ∈ K := hs c (by rw [hbc]; simp)
      have hb0 : b0 ∈ B c := by rw [hbc]; simp
      have hrk := ha c b0 hb0
      obtain ⟨f', rfl⟩ : ∃ f', f = f' + 1 := ⟨f - 1, by omega⟩
      rw [flatten_succ, flatten_succ]
      congr 1
      apply flatMap_congr'
      intro b hb
      have hrb := ha c b hb
      have hlen : (K.erase c).length ≤ m := by rw [List.length_erase_of_mem hcK]; omega
      rw [flatten_congr m b (cut_agrees ha hb), flatten_congr f' b (cut_agrees ha hb)]
      exact ih (K.erase c) (updB B c []) rank hlen (acyclic_cut ha c) (cut_support hs c) b f' (by omega)

/-- … and so is `ro.ro` -/
theorem roFull_deep : ∀ (m : Nat) (K : List Id) (B : Bases) (rank : Id → Nat), K.length ≤ m → Acyclic B rank →
    (∀ y, B y ≠ [] → y ∈ K) → ∀ (c : Id) (f : Nat), rank c < f → roFull B (m+1) c = roFull B f c := by
  intro m
  induction m with
  | zero =>
    intro K B rank hK ha hs c f hr
    obtain ⟨f', rfl⟩ : ∃ f', f = f' + 1 := ⟨f - 1, by omega⟩
    show c3Node B (legacyRo B 1) (roFull B 0) c = c3Node B (legacyRo B (f'+1)) (roFull B f') c
    apply c3Node_congr
    · unfold legacyRo
      rw [flatten_deep 1 K B rank (by omega) ha hs c (f'+1) (by omega)]
    · intro b hb
      have : c ∈ K := hs c (fun e => by rw [e] at hb; cases hb)
      cases K with
      | nil => cases this
      | cons _ _ => simp at hK
  | succ m ih =>
    intro K B rank hK ha hs c f hr
    obtain ⟨f', rfl⟩ : ∃ f', f = f' + 1 := ⟨f - 1, by omega⟩
    show c3Node B (legacyRo B (m+2)) (roFull B (m+1)) c = c3Node B (legacyRo B (f'+1)) (roFull B f') c
    apply c3Node_congr
    · unfold legacyRo
      rw [flatten_deep (m+2) K B rank (by omega) ha hs c (f'+1) (by omega)]
    · intro b hb
      have hcK : c ∈ K := hs c (fun e => by rw [e] at hb; cases hb)
      have hrb := ha c b hb
      have hlen : (K.erase c).length ≤ m := by rw [List.length_erase_of_mem hcK]; omega
      rw [roFull_congr (m+1) b (cut_agrees ha hb), roFull_congr f' b (cut_agrees ha hb)]
      exact ih (K.erase c) (updB B c []) rank hlen (acyclic_cut ha c) (cut_support hs c) b f' (by omega)

/-- a registry that is not in the table has the default record -/
theorem reg_bases_support (w : World) : ∀ y, regBases w y ≠ [] → y ∈ w.regs.map (·.1) := by
  intro y hy
  apply Classical.byContradiction
  intro hn
  apply hy
  have : w.reg y = {} := by
    apply reg_default
    rw [List.find?_eq_none]
    intro p hp hpy
    exact hn (List.mem_map.mpr ⟨p, hp, by simpa using hpy⟩)
  show (w.reg y).bases = []
  rw [this]

/-- **the fuel `VerifyingAdapterLookup.changed` uses in the model is enough**: `len(regs) + 1` gives the same resolution order
as the history's `fuel`, on every world whose base graph is acyclic with ranks `< fuel` -/
theorem roFull_regs_length {fuel : Nat} (w : World) (hg : GoodBases fuel (regBases w)) (c : Nat) :
    roFull (regBases w) (w.regs.length + 1) c = roFull (regBases w) fuel c := by
  obtain ⟨rank, ha, hrk⟩ := hg
  exact roFull_deep w.regs.length (w.regs.map (·.1)) (regBases w) rank (by simp) ha (reg_bases_support w) c fuel (hrk c)

/-! ### the generation-checking flavour: what a change notification does -/
/-- the empty world of the generation-checking flavour -/
def emptyVer (sro iro : Id → List Id) : World := { sro := sro, iro := iro, regs := [], verifying := true }

/-- `_generation` of a registry -/
def gen (w : World) (x : Nat) : Nat := (w.reg x).generation

/-- a generation snapshot `gs` of the registries `l` that is pointwise at most the current generations -/
def GenLe (G : Nat → Nat) : List Nat → List Nat → Prop
  | [], [] => True
  | a :: as, g :: gs => g ≤ G a ∧ GenLe G as gs
  | _ :: _, [] => False
  | [], _ :: _ => False

theorem genLe_map (G : Nat → Nat) : ∀ l : List Nat, GenLe G l (l.map G)
  | [] => trivial
  | _ :: l => ⟨Nat.le_refl _, genLe_map G l⟩

theorem genLe_mono {G G' : Nat → Nat} (h : ∀ x, G x ≤ G' x) : ∀ (l gs : List Nat), GenLe G l gs → GenLe G' l gs
  | [], [], _ => trivial
  | a :: l, _ :: gs, ⟨h1, h2⟩ => ⟨Nat.le_trans h1 (h a), genLe_mono h l gs h2⟩
  | _ :: _, [], h' => h'.elim
  | [], _ :: _, h' => h'.elim

/-- generations only grow: a snapshot that is current now was current before, and none of its registries has moved -/
theorem genLe_current {G G' : Nat → Nat} (h : ∀ x, G x ≤ G' x) : ∀ (l gs : List Nat), GenLe G l gs → l.map G' = gs →
    l.map G = gs ∧ ∀ a ∈ l, G' a = G a
  | [], [], _, _ => ⟨rfl, fun _ h => by cases h⟩
  | a :: l, g :: gs, ⟨h1, h2⟩, he => by
    simp only [List.map_cons, List.cons.injEq] at he
    obtain ⟨ih1, ih2⟩ := genLe_current h l gs h2 he.2
    have ha := h a
    have e : G a = g := by omega
    refine ⟨by simp [e, ih1], fun x hx => ?_⟩
    rcases List.mem_cons.mp hx with rfl | hx
    · omega
    · exact ih2 x hx
  | _ :: _, [], h', _ => h'.elim
  | [], _ :: _, h', _ => h'.elim

/-- the generation snapshot of registry `r` is current: `_verify` does nothing -/
def Cur (w : World) (r : Nat) : Prop := (w.reg r).verifyRo.map (gen w) = (w.reg r).verifyGen

/-- a registry record without the lookup object's state (`ro`, the three caches, the generation snapshot) -/
def core (x : Reg) : Reg := { x with ro := [], cache := [], mcache := [], scache := [], verifyRo := [], verifyGen := [] }

/-- what `VerifyingAdapterLookup.changed` (the model's `verifyingChanged w r`) does -/
structure VC (w : World) (r : Nat) (w' : World) : Prop where
  verifying : w'.verifying = w.verifying
  sro : w'.sro = w.sro
  iro : w'.iro = w.iro
  other : ∀ y, y ≠ r → w'.reg y = w.reg y
  core : core (w'.reg r) = core (w.reg r)
  ro : (w'.reg r).ro = (roFull (regBases w) (w.regs.length + 1) r).mro
  cleared : Cleared w' r
  vro : (w'.reg r).verifyRo = (w'.reg r).ro.drop 1
  vgen : (w'.reg r).verifyGen = (w'.reg r).verifyRo.map (gen w')

theorem verifyingChanged_reg_self (w : World) (r : Nat) :
    (verifyingChanged w r).reg r =
      { w.reg r with ro := (roFull (regBases w) (w.regs.length + 1) r).mro, cache := [], mcache := [], scache := [],
                     verifyRo := ((roFull (regBases w) (w.regs.length + 1) r).mro).drop 1,
                     verifyGen := (((roFull (regBases w) (w.regs.length + 1) r).mro).drop 1).map fun b =>
                       ((w.setReg r { w.reg r with ro := (roFull (regBases w) (w.regs.length + 1) r).mro }).reg b).generation } := by
  unfold verifyingChanged verifyingChangedBase
  simp only [reg_setReg_same]
  rfl

theorem verifyingChanged_reg_ne (w : World) {r y : Nat} (h : y ≠ r) : (verifyingChanged w r).reg y = w.reg y := by
  unfold verifyingChanged verifyingChangedBase
  simp only []
  rw [reg_setReg_ne _ h, reg_setReg_ne _ h]

theorem verifyingChanged_vc (w : World) (r : Nat) : VC w r (verifyingChanged w r) := by
  have hs := verifyingChanged_reg_self w r
  refine ⟨rfl, rfl, rfl, fun y hy => verifyingChanged_reg_ne w hy, ?_, ?_, ?_, ?_, ?_⟩
  · rw [hs]; rfl
  · rw [hs]
  · unfold Cleared; rw [hs]; exact ⟨rfl, rfl, rfl⟩
  · rw [hs]
  · rw [hs]
    show List.map _ _ = List.map _ _
    apply List.map_congr_left
    intro b _
    show _ = ((verifyingChanged w r).reg b).generation
    by_cases hb : b = r
    · subst hb; rw [reg_setReg_same, hs]
    · rw [reg_setReg_ne _ hb, verifyingChanged_reg_ne w hb]

theorem VC.gen {w w' : World} {r : Nat} (h : VC w r w') (y : Nat) : gen w' y = gen w y := by
  unfold Registry.gen
  by_cases hy : y = r
  · subst hy; exact (have := congrArg Reg.generation h.core; this)
  · rw [h.other y hy]

theorem VC.bases {w w' : World} {r : Nat} (h : VC w r w') (y : Nat) : (w'.reg y).bases = (w.reg y).bases := by
  by_cases hy : y = r
  · subst hy; exact (have := congrArg Reg.bases h.core; this)
  · rw [h.other y hy]

theorem VC.regBases {w w' : World} {r : Nat} (h : VC w r w') : regBases w' = regBases w := by
  funext y; exact h.bases y

theorem VC.data {w w' : World} {r : Nat} (h : VC w r w') (y : Nat) : DataAt w w' y := by
  by_cases hy : y = r
  · subst hy
    exact ⟨(have := congrArg Reg.adapters h.core; this), (have := congrArg Reg.subs h.core; this),
      (have := congrArg Reg.extendors h.core; this)⟩
  · exact DataAt.of_reg_eq (h.other y hy)

/-- `BaseAdapterRegistry.changed` of the generation-checking flavour: new generation, then `VerifyingAdapterLookup.changed` -/
theorem changed_succ_ver (f : Nat) (w : World) (r : Nat) (hv : w.verifying = true) :
    changed (f+1) w r = verifyingChanged (w.setReg r { w.reg r with generation := (w.reg r).generation + 1 }) r := by
  show (if (w.setReg r { w.reg r with generation := (w.reg r).generation + 1 }).verifying then _ else _) = _
  rw [verifying_setReg, hv]; rfl

theorem verify_cur (w : World) (r : Nat) (h : Cur w r) : verify w r = w := by
  unfold verify
  unfold Cur at h
  split
  · rfl
  · simp only []
    rw [if_neg]
    simp only [bne_iff_ne, ne_eq, Decidable.not_not]; exact h

theorem verify_stale (w : World) (r : Nat) (hv : w.verifying = true) (h : ¬ Cur w r) : verify w r = verifyingChanged w r := by
  unfold verify
  unfold Cur at h
  simp only [hv, Bool.not_true, Bool.false_eq_true, if_false]
  rw [if_pos]
  simp only [bne_iff_ne, ne_eq]; exact h

/-! ### the invariant -/
/-- Invariant of the generation-checking flavour (`fuel` = the recursion bound of the history, `dom` = the registries created so far).
* `good`: the base graph is acyclic with ranks `< fuel` (so `0 < fuel`);
* `le`: **generations only grow** — every registry's snapshot `verifyGen` has the length of `verifyRo` and is pointwise `≤` the
  current generations;
* `blank`: a registry has an empty `ro` exactly as long as it was never notified of a change (generation 0), and then its
  snapshot is empty;
* `j`: IF the snapshot of `r` is current THEN every cache entry of `r` is the uncached answer, and `ro r` is the resolution
  order of the CURRENT base graph with `verifyRo r = ro r [1:]` (or `r` was never notified: `ro r = []`);
* `dom`: created registries have a non-empty `ro`;
* `nodata`: a registry that was never notified has no registrations and no bases. -/
structure VInv (fuel : Nat) (dom : List Nat) (w : World) : Prop where
  verifying : w.verifying = true
  good : GoodBases fuel (regBases w)
  le : ∀ r, GenLe (gen w) (w.reg r).verifyRo (w.reg r).verifyGen
  blank : ∀ r, ((w.reg r).ro = [] ↔ gen w r = 0) ∧ ((w.reg r).ro = [] → (w.reg r).verifyRo = [] ∧ (w.reg r).verifyGen = [])
  j : ∀ r, Cur w r → CacheOk w r ∧
        ((w.reg r).ro = [] ∨ (FreshAt (regBases w) fuel w r ∧ (w.reg r).verifyRo = (w.reg r).ro.drop 1))
  dom : ∀ r ∈ dom, (w.reg r).ro ≠ []
  nodata : ∀ r, (w.reg r).ro = [] → (w.reg r).adapters = [] ∧ (w.reg r).subs = [] ∧ (w.reg r).bases = []

theorem mro_head {fuel : Nat} {B : Bases} (hg : GoodBases fuel B) (c : Nat) :
    ∃ t, (roFull B fuel c).mro = c :: t := by
  obtain ⟨rank, ha, hrk⟩ := hg
  have := (roFull_valid ha fuel c (hrk c)).head
  cases h : (roFull B fuel c).mro with
  | nil => rw [h] at this; cases this
  | cons a t => rw [h] at this; simp at this; subst this; exact ⟨t, rfl⟩

theorem mro_mem {fuel : Nat} {B : Bases} (hg : GoodBases fuel B) (c x : Nat) :
    x ∈ (roFull B fuel c).mro ↔ Reach B c x := by
  obtain ⟨rank, ha, hrk⟩ := hg
  exact (roFull_valid ha fuel c (hrk c)).mem x

theorem cur_of_blank {w : World} {r : Nat} (h1 : (w.reg r).verifyRo = []) (h2 : (w.reg r).verifyGen = []) : Cur w r := by
  unfold Cur; rw [h1, h2]; rfl

/-- **the step of the invariant**: registry `b` is notified of a change (`w2` = `verifyingChanged wb b`) in a world `wb` that differs
from `w` at most in the record of `b`, where EITHER the generation of `b` has been advanced (mutators, `__bases__`
assignment: registration data / bases of `b` may be anything) OR registration data and bases of `b` are untouched (the
notification `_verify` issues). -/
theorem vc_inv {fuel : Nat} {dom : List Nat} {w wb w2 : World} {b : Nat} (h : VInv fuel dom w)
    (hv : wb.verifying = true) (hsro : wb.sro = w.sro) (hother : ∀ y, y ≠ b → wb.reg y = w.reg y)
    (hgen : gen w b ≤ gen wb b) (hpos : gen wb b ≠ 0)
    (hsame : gen w b < gen wb b ∨ (DataAt w wb b ∧ (wb.reg b).bases = (w.reg b).bases))
    (hg : GoodBases fuel (regBases wb)) (vc : VC wb b w2) : VInv fuel (b :: dom) w2 := by
  have hB2 : regBases w2 = regBases wb := vc.regBases
  have hgen2 : ∀ y, gen w2 y = gen wb y := vc.gen
  have hreg : ∀ y, y ≠ b → w2.reg y = w.reg y := fun y hy => (vc.other y hy).trans (hother y hy)
  have hgenb : ∀ y, y ≠ b → gen w2 y = gen w y := fun y hy => by unfold gen; rw [hreg y hy]
  have hmono : ∀ y, gen w y ≤ gen w2 y := by
    intro y
    by_cases hy : y = b
    · subst hy; rw [hgen2]; exact hgen
    · rw [hgenb y hy]; exact Nat.le_refl _
  have hrob : (w2.reg b).ro = (roFull (regBases wb) fuel b).mro := by rw [vc.ro, roFull_regs_length wb hg]
  obtain ⟨t, ht⟩ := mro_head hg b
  have hrob_ne : (w2.reg b).ro ≠ [] := by rw [hrob, ht]; exact List.cons_ne_nil _ _
  refine ⟨vc.verifying.trans hv, by rw [hB2]; exact hg, fun r => ?_, fun r => ?_, fun r hc => ?_, fun r hr => ?_, fun r h0 => ?_⟩
  · -- le
    by_cases hr : r = b
    · subst hr; rw [vc.vgen]; exact genLe_map _ _
    · rw [hreg r hr]; exact genLe_mono hmono _ _ (h.le r)
  · -- blank
    by_cases hr : r = b
    · subst hr
      refine ⟨⟨fun e => absurd e hrob_ne, fun e => ?_⟩, fun e => absurd e hrob_ne⟩
      rw [hgen2] at e; exact absurd e hpos
    · rw [hreg r hr, hgenb r hr]; exact h.blank r
  · -- j
    by_cases hr : r = b
    · subst hr
      refine ⟨cacheOk_of_cleared vc.cleared, Or.inr ⟨?_, vc.vro⟩⟩
      unfold FreshAt; rw [hB2]; exact hrob
    · have hcw : (w.reg r).verifyRo.map (gen w2) = (w.reg r).verifyGen := by
        have := hc; unfold Cur at this; rw [hreg r hr] at this; exact this
      obtain ⟨hcur, hstill⟩ := genLe_current hmono _ _ (h.le r) hcw
      obtain ⟨hok, hro⟩ := h.j r hcur
      have hsc : SameCaches w w2 r := by unfold SameCaches; rw [hreg r hr]; exact ⟨rfl, rfl, rfl⟩
      have hsro2 : w2.sro = w.sro := vc.sro.trans hsro
      rcases hro with h0 | ⟨hfr, hvro⟩
      · refine ⟨cacheOk_congr hsro2 (by rw [hreg r hr]) (fun x hx => ?_) hsc hok, Or.inl (by rw [hreg r hr]; exact h0)⟩
        rw [h0] at hx; cases hx
      · -- every member of `ro r` keeps its registration data and its bases
        have hmem : ∀ x ∈ (w.reg r).ro, DataAt w w2 x ∧ (w2.reg x).bases = (w.reg x).bases := by
          intro x hx
          by_cases hxb : x = b
          · subst hxb
            rcases hsame with hlt | ⟨hd, hbs⟩
            · exfalso
              obtain ⟨t', ht'⟩ := mro_head h.good r
              have hx' : x ∈ (w.reg r).verifyRo := by
                rw [hvro, hfr, ht']
                rw [hfr, ht'] at hx
                rcases List.mem_cons.mp hx with e | hx
                · exact absurd e.symm hr
                · exact hx
              have := hstill x hx'
              rw [hgen2] at this; omega
            · exact ⟨hd.trans (vc.data x), (vc.bases x).trans hbs⟩
          · exact ⟨DataAt.of_reg_eq (hreg x hxb), by rw [hreg x hxb]⟩
        refine ⟨cacheOk_congr hsro2 (by rw [hreg r hr]) (fun x hx => (hmem x hx).1) hsc hok, Or.inr ⟨?_, ?_⟩⟩
        · unfold FreshAt
          rw [hreg r hr, hfr]
          congr 1
          apply roFull_congr
          intro x hx
          have : x ∈ (w.reg r).ro := by rw [hfr]; exact (mro_mem h.good r x).mpr hx
          exact ((hmem x this).2).symm
        · rw [hreg r hr]; exact hvro
  · -- dom
    by_cases hrb : r = b
    · subst hrb; exact hrob_ne
    · rw [hreg r hrb]
      rcases List.mem_cons.mp hr with e | hr
      · exact absurd e hrb
      · exact h.dom r hr
  · -- nodata
    by_cases hrb : r = b
    · subst hrb; exact absurd h0 hrob_ne
    · rw [hreg r hrb] at h0 ⊢; exact h.nodata r h0

theorem VInv.weaken {fuel : Nat} {dom dom' : List Nat} {w : World} (h : VInv fuel dom w) (hs : ∀ r ∈ dom', r ∈ dom) :
    VInv fuel dom' w :=
  ⟨h.verifying, h.good, h.le, h.blank, h.j, fun r hr => h.dom r (hs r hr), h.nodata⟩

theorem VInv.pos {fuel : Nat} {dom : List Nat} {w : World} (h : VInv fuel dom w) : 0 < fuel := by
  obtain ⟨rank, _, hrk⟩ := h.good
  have := hrk 0; omega

/-- the tail of every mutator and of `_setBases`: the record of `b` has been replaced (generation not decreased), then
`changed` -/
theorem mut_vinv {fuel : Nat} {dom : List Nat} {w : World} (h : VInv fuel dom w) (w1 : World) (b : Nat)
    (hv : w1.verifying = true) (hsro : w1.sro = w.sro) (hother : ∀ y, y ≠ b → w1.reg y = w.reg y)
    (hgen : gen w b ≤ gen w1 b) (hg : GoodBases fuel (regBases w1)) : VInv fuel (b :: dom) (changed fuel w1 b) := by
  obtain ⟨f, rfl⟩ : ∃ f, fuel = f + 1 := ⟨fuel - 1, by have := h.pos; omega⟩
  rw [changed_succ_ver f w1 b hv]
  have hgb : gen (w1.setReg b { w1.reg b with generation := (w1.reg b).generation + 1 }) b = gen w1 b + 1 := by
    unfold gen; rw [reg_setReg_same]
  refine vc_inv h (b := b) (wb := w1.setReg b { w1.reg b with generation := (w1.reg b).generation + 1 }) hv hsro
    (fun y hy => (reg_setReg_ne _ hy _).trans (hother y hy)) (by omega) (by omega) (Or.inl (by omega)) ?_
    (verifyingChanged_vc _ b)
  have : regBases (w1.setReg b { w1.reg b with generation := (w1.reg b).generation + 1 }) = regBases w1 := by
    funext y
    by_cases hy : y = b
    · subst hy; simp [regBases, reg_setReg_same]
    · simp [regBases, reg_setReg_ne _ hy]
  rw [this]; exact hg

theorem regBases_setReg_same_bases (w : World) (r : Nat) (x : Reg) (hb : x.bases = (w.reg r).bases) :
    regBases (w.setReg r x) = regBases w := by
  funext y
  by_cases hy : y = r
  · subst hy; simp [regBases, reg_setReg_same, hb]
  · simp [regBases, reg_setReg_ne _ hy]

theorem mut_setReg {fuel : Nat} {dom : List Nat} {w : World} (h : VInv fuel dom w) (r : Nat) (x : Reg)
    (hgen : x.generation = (w.reg r).generation) (hb : x.bases = (w.reg r).bases) :
    VInv fuel dom (changed fuel (w.setReg r x) r) := by
  refine (mut_vinv h (w.setReg r x) r h.verifying rfl (fun y hy => reg_setReg_ne _ hy _) ?_ ?_).weaken
    (fun y hy => List.mem_cons_of_mem _ hy)
  · unfold gen; rw [reg_setReg_same, hgen]; exact Nat.le_refl _
  · rw [regBases_setReg_same_bases w r x hb]; exact h.good

theorem register_vinv {fuel : Nat} {dom : List Nat} {w : World} (h : VInv fuel dom w) (r : Nat) (req : List (Option Id))
    (prov : Id) (name : String) (v : Val) : VInv fuel dom (register fuel w r req prov name v) := by
  unfold register
  simp only []
  repeat' (first
    | exact h
    | (refine mut_setReg h r _ ?_ ?_ <;> (repeat' split) <;> rfl)
    | split)

theorem unregister_vinv {fuel : Nat} {dom : List Nat} {w : World} (h : VInv fuel dom w) (r : Nat) (req : List (Option Id))
    (prov : Id) (name : String) (v : Option Val) : VInv fuel dom (unregister fuel w r req prov name v) := by
  unfold unregister
  simp only []
  repeat' (first
    | exact h
    | (refine mut_setReg h r _ ?_ ?_ <;> (repeat' split) <;> rfl)
    | split)

theorem subscribe_vinv {fuel : Nat} {dom : List Nat} {w : World} (h : VInv fuel dom w) (r : Nat) (req : List (Option Id))
    (prov : Option Id) (v : Val) : VInv fuel dom (subscribe fuel w r req prov v) := by
  unfold subscribe
  simp only []
  repeat' (first
    | exact h
    | (refine mut_setReg h r _ ?_ ?_ <;> (repeat' split) <;> rfl)
    | split)

theorem unsubscribe_vinv {fuel : Nat} {dom : List Nat} {w : World} (h : VInv fuel dom w) (r : Nat) (req : List (Option Id))
    (prov : Option Id) (v : Option Val) : VInv fuel dom (unsubscribe fuel w r req prov v) := by
  unfold unsubscribe
  simp only []
  repeat' (first
    | exact h
    | (refine mut_setReg h r _ ?_ ?_ <;> (repeat' split) <;> rfl)
    | split)

/-! ### `__bases__` assignment, creation, `rebuild()` -/
theorem setBases_ver (fuel : Nat) (w : World) (r : Nat) (bs : List Nat) (hv : w.verifying = true) :
    setBases fuel w r bs = changed fuel (rebased fuel w r bs) r := by
  unfold setBases; rw [hv]; rfl

theorem regBases_rebased (fuel : Nat) (w : World) (r : Nat) (bs : List Nat) :
    regBases (rebased fuel w r bs) = updB (regBases w) r bs := by
  funext y
  by_cases hy : y = r
  · subst hy; simp [regBases, updB, rebased_reg_self]
  · simp [regBases, updB, hy, rebased_reg_ne _ _ _ hy]

/-- `__bases__ = bs` on a world `w1` that differs from `w` (where the invariant holds) at most in the record of `r` -/
theorem setBases_vinv_aux {fuel : Nat} {dom : List Nat} {w : World} (h : VInv fuel dom w) (w1 : World) (r : Nat) (bs : List Nat)
    (hv : w1.verifying = true) (hsro : w1.sro = w.sro) (hother : ∀ y, y ≠ r → w1.reg y = w.reg y)
    (hgen : gen w r ≤ gen w1 r) (hg : GoodBases fuel (updB (regBases w1) r bs)) :
    VInv fuel (r :: dom) (setBases fuel w1 r bs) := by
  rw [setBases_ver fuel w1 r bs hv]
  refine mut_vinv h (rebased fuel w1 r bs) r hv hsro (fun y hy => (rebased_reg_ne _ _ _ hy).trans (hother y hy)) ?_ ?_
  · unfold gen; rw [rebased_reg_self]; exact hgen
  · rw [regBases_rebased]; exact hg

theorem setBases_vinv {fuel : Nat} {dom : List Nat} {w : World} (h : VInv fuel dom w) (r : Nat) (bs : List Nat)
    (hg : GoodBases fuel (updB (regBases w) r bs)) : VInv fuel (r :: dom) (setBases fuel w r bs) :=
  setBases_vinv_aux h w r bs h.verifying rfl (fun _ _ => rfl) (Nat.le_refl _) hg

theorem newreg_vinv {fuel : Nat} {dom : List Nat} {w : World} (h : VInv fuel dom w) (r : Nat) (bs : List Nat)
    (hwf : WF fuel w (.newreg r bs)) : VInv fuel (r :: dom) (setBases fuel (w.setReg r {}) r bs) := by
  obtain ⟨⟨f1, f2, _⟩, hg⟩ := hwf
  have hg0 : gen w r = 0 := ((h.blank r).1).mp f2
  refine setBases_vinv_aux h (w.setReg r {}) r bs h.verifying rfl (fun y hy => reg_setReg_ne _ hy _) ?_ ?_
  · rw [hg0]; exact Nat.zero_le _
  · rw [regBases_setReg_same_bases w r {} f1.symm]; exact hg

theorem foldl_vinv {α} {fuel : Nat} {dom : List Nat} (f : World → α → World)
    (hstep : ∀ w a, VInv fuel dom w → VInv fuel dom (f w a)) : ∀ (l : List α) (w : World), VInv fuel dom w → VInv fuel dom (l.foldl f w)
  | [], _, h => h
  | a :: l, w, h => foldl_vinv f hstep l (f w a) (hstep w a h)

theorem rebuild_vinv {fuel : Nat} {dom : List Nat} {w : World} (h : VInv fuel dom w) (r : Nat) :
    VInv fuel (r :: dom) (rebuild fuel w r) := by
  rw [rebuild_eq]
  refine foldl_vinv (fun w (e : List K × K × Val) => subscribe fuel w r e.1 e.2.1 e.2.2) (fun _ a ha => subscribe_vinv ha r _ _ _) _ _
    (foldl_vinv (fun w (e : List K × K × String × Val) => register fuel w r e.1 (e.2.1.getD 0) e.2.2.1 e.2.2.2)
      (fun _ a ha => register_vinv ha r _ _ _ _) _ _ ?_)
  refine setBases_vinv_aux h _ r _ h.verifying rfl (fun y hy => reg_setReg_ne _ hy _) ?_ ?_
  · unfold gen; rw [reg_setReg_same]; exact Nat.le_refl _
  · have e : ∀ x : Reg, x.bases = (w.reg r).bases → GoodBases fuel (updB (regBases (w.setReg r x)) r (w.reg r).bases) := by
      intro x hx
      rw [regBases_setReg_same_bases w r x hx]
      have : (w.reg r).bases = regBases w r := rfl
      rw [this, updB_self]; exact h.good
    exact e _ rfl

/-! ### the lookups: `_verify`, then the cache -/
theorem verify_vinv {fuel : Nat} {dom : List Nat} {w : World} (h : VInv fuel dom w) (r : Nat) :
    VInv fuel dom (verify w r) ∧ Cur (verify w r) r := by
  by_cases hc : Cur w r
  · rw [verify_cur w r hc]; exact ⟨h, hc⟩
  · rw [verify_stale w r h.verifying hc]
    have vc := verifyingChanged_vc w r
    have hpos : gen w r ≠ 0 := by
      intro e
      have h0 := ((h.blank r).1).mpr e
      obtain ⟨h1, h2⟩ := (h.blank r).2 h0
      exact hc (cur_of_blank h1 h2)
    refine ⟨(vc_inv h h.verifying rfl (fun _ _ => rfl) (Nat.le_refl _) hpos (Or.inr ⟨DataAt.refl w r, rfl⟩) h.good vc).weaken
      (fun y hy => List.mem_cons_of_mem _ hy), ?_⟩
    unfold Cur; exact vc.vgen.symm

/-- storing right answers in the caches of `r` -/
theorem fill_vinv {fuel : Nat} {dom : List Nat} {w : World} (h : VInv fuel dom w) (r : Nat) (x : Reg)
    (hx : clearCaches x = clearCaches (w.reg r))
    (h1 : ∀ prov name req a, AList.get? x.cache (prov, name, req) = some a → a = uncachedLookup w r req prov name)
    (h2 : ∀ prov req a, AList.get? x.mcache (prov, req) = some a → a = uncachedLookupAll w r req prov)
    (h3 : ∀ prov req a, AList.get? x.scache (prov, req) = some a → a = uncachedSubscriptions w r req prov) :
    VInv fuel dom (w.setReg r x) := by
  have hro : x.ro = (w.reg r).ro := (have := congrArg Reg.ro hx; this)
  have hvro : x.verifyRo = (w.reg r).verifyRo := (have := congrArg Reg.verifyRo hx; this)
  have hvgen : x.verifyGen = (w.reg r).verifyGen := (have := congrArg Reg.verifyGen hx; this)
  have hbs : x.bases = (w.reg r).bases := (have := congrArg Reg.bases hx; this)
  have hgn : x.generation = (w.reg r).generation := (have := congrArg Reg.generation hx; this)
  have hgen : ∀ y, gen (w.setReg r x) y = gen w y := by
    intro y; unfold gen
    by_cases hy : y = r
    · subst hy; rw [reg_setReg_same, hgn]
    · rw [reg_setReg_ne _ hy]
  have hgenf : gen (w.setReg r x) = gen w := funext hgen
  have hB : regBases (w.setReg r x) = regBases w := regBases_setReg_same_bases w r x hbs
  have hd : ∀ b, DataAt w (w.setReg r x) b := by
    intro b
    by_cases hb : b = r
    · subst hb
      refine ⟨?_, ?_, ?_⟩ <;> rw [reg_setReg_same]
      · exact (have := congrArg Reg.adapters hx; this)
      · exact (have := congrArg Reg.subs hx; this)
      · exact (have := congrArg Reg.extendors hx; this)
    · exact DataAt.of_reg_eq (reg_setReg_ne _ hb _)
  have hroy : ∀ y, ((w.setReg r x).reg y).ro = (w.reg y).ro := by
    intro y
    by_cases hy : y = r
    · subst hy; rw [reg_setReg_same, hro]
    · rw [reg_setReg_ne _ hy]
  have hvroy : ∀ y, ((w.setReg r x).reg y).verifyRo = (w.reg y).verifyRo := by
    intro y
    by_cases hy : y = r
    · subst hy; rw [reg_setReg_same, hvro]
    · rw [reg_setReg_ne _ hy]
  have hvgeny : ∀ y, ((w.setReg r x).reg y).verifyGen = (w.reg y).verifyGen := by
    intro y
    by_cases hy : y = r
    · subst hy; rw [reg_setReg_same, hvgen]
    · rw [reg_setReg_ne _ hy]
  refine ⟨h.verifying, by rw [hB]; exact h.good, fun y => ?_, fun y => ?_, fun y hc => ?_, fun y hy => ?_, fun y h0 => ?_⟩
  · rw [hgenf, hvroy, hvgeny]; exact h.le y
  · rw [hgen, hroy, hvroy, hvgeny]; exact h.blank y
  · have hc' : Cur w y := by unfold Cur at hc ⊢; rw [hgenf, hvroy, hvgeny] at hc; exact hc
    obtain ⟨hok, hfr⟩ := h.j y hc'
    refine ⟨?_, ?_⟩
    · by_cases hy : y = r
      · subst hy
        refine ⟨fun prov name req a ha' => ?_, fun prov req a ha' => ?_, fun prov req a ha' => ?_⟩
        · rw [uncachedLookup_congr (w := w) (w' := w.setReg y x) rfl (hroy y) (fun b _ => hd b)]; rw [reg_setReg_same] at ha'; exact h1 _ _ _ _ ha'
        · rw [uncachedLookupAll_congr (w := w) (w' := w.setReg y x) rfl (hroy y) (fun b _ => hd b)]; rw [reg_setReg_same] at ha'; exact h2 _ _ _ ha'
        · rw [uncachedSubscriptions_congr (w := w) (w' := w.setReg y x) rfl (hroy y) (fun b _ => hd b)]; rw [reg_setReg_same] at ha'; exact h3 _ _ _ ha'
      · have e : (w.setReg r x).reg y = w.reg y := reg_setReg_ne _ hy _
        refine cacheOk_congr (w := w) rfl (by rw [e]) (fun b _ => hd b) ?_ hok
        unfold SameCaches; rw [e]; exact ⟨rfl, rfl, rfl⟩
    · unfold FreshAt; rw [hB, hroy, hvroy]; exact hfr
  · rw [hroy]; exact h.dom y hy
  · rw [hroy] at h0
    obtain ⟨a1, a2, a3⟩ := h.nodata y h0
    exact ⟨(hd y).adapters.trans a1, (hd y).subs.trans a2, (congrFun hB y).trans a3⟩

theorem lookup_vinv {fuel : Nat} {dom : List Nat} {w : World} (h : VInv fuel dom w) (r : Nat) (req : List Id) (prov : Id)
    (name : String) : VInv fuel dom (lookup w r req prov name).1 := by
  obtain ⟨hv, hc⟩ := verify_vinv h r
  have hok := (hv.j r hc).1
  unfold lookup; simp only []
  split
  · exact hv
  · refine fill_vinv hv r _ rfl (fun prov' name' req' a ha => ?_) hok.all hok.subs
    by_cases hk : (prov', name', req') = (prov, name, req)
    · cases hk
      simp only [aget?_set_same] at ha
      cases ha; rfl
    · simp only [aget?_set_ne _ hk] at ha
      exact hok.one _ _ _ _ ha

theorem lookupAll_vinv {fuel : Nat} {dom : List Nat} {w : World} (h : VInv fuel dom w) (r : Nat) (req : List Id) (prov : Id) :
    VInv fuel dom (lookupAll w r req prov).1 := by
  obtain ⟨hv, hc⟩ := verify_vinv h r
  have hok := (hv.j r hc).1
  unfold lookupAll; simp only []
  split
  · exact hv
  · refine fill_vinv hv r _ rfl hok.one (fun prov' req' a ha => ?_) hok.subs
    by_cases hk : (prov', req') = (prov, req)
    · cases hk
      simp only [aget?_set_same] at ha
      cases ha; rfl
    · simp only [aget?_set_ne _ hk] at ha
      exact hok.all _ _ _ ha

theorem subscriptions_vinv {fuel : Nat} {dom : List Nat} {w : World} (h : VInv fuel dom w) (r : Nat) (req : List Id)
    (prov : Option Id) : VInv fuel dom (subscriptions w r req prov).1 := by
  obtain ⟨hv, hc⟩ := verify_vinv h r
  have hok := (hv.j r hc).1
  unfold subscriptions; simp only []
  split
  · exact hv
  · refine fill_vinv hv r _ rfl hok.one hok.all (fun prov' req' a ha => ?_)
    by_cases hk : (prov', req') = (prov, req)
    · cases hk
      simp only [aget?_set_same] at ha
      cases ha; rfl
    · simp only [aget?_set_ne _ hk] at ha
      exact hok.subs _ _ _ ha

/-! ### histories -/
theorem step_vinv {fuel : Nat} {dom : List Nat} {w : World} (h : VInv fuel dom w) (op : Op) (hwf : WF fuel w op) :
    VInv fuel (touched op ++ dom) (step fuel w op) := by
  cases op with
  | newreg r bs => exact newreg_vinv h r bs hwf
  | setBases r bs => exact setBases_vinv h r bs hwf
  | rebuild r => exact rebuild_vinv h r
  | register r req p n v => exact register_vinv h r req p n v
  | unregister r req p n v => exact unregister_vinv h r req p n v
  | subscribe r req p v => exact subscribe_vinv h r req p v
  | unsubscribe r req p v => exact unsubscribe_vinv h r req p v
  | lookup r req p n => exact lookup_vinv h r req p n
  | lookupAll r req p => exact lookupAll_vinv h r req p
  | subscriptions r req p => exact subscriptions_vinv h r req p

theorem run_vinv (fuel : Nat) : ∀ (ops : List Op) (dom : List Nat) (w : World), VInv fuel dom w → WFHist fuel w ops →
    VInv fuel (existing ops ++ dom) (run fuel w ops)
  | [], dom, w, h, _ => by simpa [existing, run] using h
  | op :: ops, dom, w, h, hwf => by
    have := run_vinv fuel ops (touched op ++ dom) (step fuel w op) (step_vinv h op hwf.1) hwf.2
    simpa [existing, run, List.append_assoc] using this

theorem reg_emptyVer (sro iro : Id → List Id) (r : Nat) : (emptyVer sro iro).reg r = {} := rfl

theorem vinv_empty (fuel : Nat) (h0 : 0 < fuel) (sro iro : Id → List Id) : VInv fuel [] (emptyVer sro iro) :=
  ⟨rfl, ⟨fun _ => 0, fun s b hb => (by cases hb), fun _ => h0⟩, fun _ => trivial,
   fun _ => ⟨⟨fun _ => rfl, fun _ => rfl⟩, fun _ => ⟨rfl, rfl⟩⟩,
   fun _ _ => ⟨cacheOk_of_cleared ⟨rfl, rfl, rfl⟩, Or.inl rfl⟩, fun _ h => (by cases h), fun _ _ => ⟨rfl, rfl, rfl⟩⟩

/-! ### equality up to the state of the lookup objects -/
/-- equal up to `ro`, the lookup caches and the generation snapshots (both worlds of the generation-checking flavour) -/
structure VEq (w w' : World) : Prop where
  vl : w.verifying = true
  vr : w'.verifying = true
  sro : w'.sro = w.sro
  iro : w'.iro = w.iro
  reg : ∀ x, core (w'.reg x) = core (w.reg x)

theorem VEq.refl {w : World} (hv : w.verifying = true) : VEq w w := ⟨hv, hv, rfl, rfl, fun _ => rfl⟩
theorem VEq.symm {w w' : World} (h : VEq w w') : VEq w' w := ⟨h.vr, h.vl, h.sro.symm, h.iro.symm, fun x => (h.reg x).symm⟩
theorem VEq.trans {a b c : World} (h1 : VEq a b) (h2 : VEq b c) : VEq a c :=
  ⟨h1.vl, h2.vr, h2.sro.trans h1.sro, h2.iro.trans h1.iro, fun x => (h2.reg x).trans (h1.reg x)⟩

theorem core_form {x x' : Reg} (h : core x' = core x) :
    x' = { x with ro := x'.ro, cache := x'.cache, mcache := x'.mcache, scache := x'.scache,
                  verifyRo := x'.verifyRo, verifyGen := x'.verifyGen } := by
  cases x; cases x'
  simp only [core, Reg.mk.injEq] at h
  obtain ⟨rfl, rfl, rfl, rfl, rfl, _, rfl, rfl, _, _, _, _, _⟩ := h
  rfl

theorem VEq.form {w w' : World} (h : VEq w w') (r : Nat) :
    ∃ o c m s vr vg, w'.reg r = { w.reg r with ro := o, cache := c, mcache := m, scache := s, verifyRo := vr, verifyGen := vg } :=
  ⟨_, _, _, _, _, _, core_form (h.reg r)⟩

theorem VEq.bases {w w' : World} (h : VEq w w') (x : Nat) : (w'.reg x).bases = (w.reg x).bases :=
  have := congrArg Reg.bases (h.reg x); this
theorem VEq.subregs {w w' : World} (h : VEq w w') (x : Nat) : (w'.reg x).subregs = (w.reg x).subregs :=
  have := congrArg Reg.subregs (h.reg x); this
theorem VEq.gen {w w' : World} (h : VEq w w') (x : Nat) : gen w' x = gen w x :=
  have := congrArg Reg.generation (h.reg x); this
theorem VEq.data {w w' : World} (h : VEq w w') (b : Nat) : DataAt w w' b :=
  ⟨(have := congrArg Reg.adapters (h.reg b); this), (have := congrArg Reg.subs (h.reg b); this),
   (have := congrArg Reg.extendors (h.reg b); this)⟩
theorem VEq.regBases {w w' : World} (h : VEq w w') : regBases w' = regBases w := by funext x; exact h.bases x

theorem veq_setReg {w w' : World} (h : VEq w w') (r : Nat) {x x' : Reg} (hx : core x' = core x) :
    VEq (w.setReg r x) (w'.setReg r x') := by
  refine ⟨h.vl, h.vr, h.sro, h.iro, fun y => ?_⟩
  by_cases hy : y = r
  · subst hy; rw [reg_setReg_same, reg_setReg_same]; exact hx
  · rw [reg_setReg_ne _ hy, reg_setReg_ne _ hy]; exact h.reg y

theorem foldl_veq {α} (f : World → α → World) (hf : ∀ w w' a, VEq w w' → VEq (f w a) (f w' a)) :
    ∀ (l : List α) (w w' : World), VEq w w' → VEq (l.foldl f w) (l.foldl f w')
  | [], _, _, h => h
  | a :: l, w, w', h => foldl_veq f hf l _ _ (hf w w' a h)

/-- `verifyingChanged` touches the lookup object only -/
theorem VC.veq {w w' : World} {r : Nat} (h : VC w r w') (hv : w.verifying = true) : VEq w w' := by
  refine ⟨hv, h.verifying.trans hv, h.sro, h.iro, fun y => ?_⟩
  by_cases hy : y = r
  · subst hy; exact h.core
  · rw [h.other y hy]

theorem changed_veq : ∀ (f : Nat) {w w' : World} (r : Nat), VEq w w' → VEq (changed f w r) (changed f w' r)
  | 0, _, _, _, h => h
  | f+1, w, w', r, h => by
    rw [changed_succ_ver f w r h.vl, changed_succ_ver f w' r h.vr]
    have h1 : VEq (w.setReg r { w.reg r with generation := (w.reg r).generation + 1 })
        (w'.setReg r { w'.reg r with generation := (w'.reg r).generation + 1 }) := by
      apply veq_setReg h
      obtain ⟨o, c, m, s, vr, vg, e⟩ := h.form r
      rw [e]; rfl
    exact (((verifyingChanged_vc _ r).veq h1.vl).symm.trans h1).trans ((verifyingChanged_vc _ r).veq h1.vr)

theorem rebased_veq (fuel : Nat) {w w' : World} (h : VEq w w') (r : Nat) (bs : List Nat) :
    VEq (rebased fuel w r bs) (rebased fuel w' r bs) := by
  refine ⟨h.vl, h.vr, h.sro, h.iro, fun y => ?_⟩
  by_cases hy : y = r
  · subst hy
    obtain ⟨o, c, m, s, vr, vg, e⟩ := h.form y
    rw [rebased_reg_self, rebased_reg_self, e]
    rfl
  · rw [rebased_reg_ne _ _ _ hy, rebased_reg_ne _ _ _ hy]; exact h.reg y

theorem setBases_veq (fuel : Nat) {w w' : World} (h : VEq w w') (r : Nat) (bs : List Nat) :
    VEq (setBases fuel w r bs) (setBases fuel w' r bs) := by
  rw [setBases_ver fuel w r bs h.vl, setBases_ver fuel w' r bs h.vr]
  exact changed_veq fuel r (rebased_veq fuel h r bs)

theorem register_veq (fuel : Nat) {w w' : World} (h : VEq w w') (r : Nat) (req : List (Option Id)) (prov : Id) (name : String) (v : Val) :
    VEq (register fuel w r req prov name v) (register fuel w' r req prov name v) := by
  obtain ⟨o, c, m, s, vr, vg, e⟩ := h.form r
  unfold register
  simp only [e, addExtendor_congr h.iro h.sro]
  repeat' (first
    | exact h
    | (apply changed_veq; apply veq_setReg h; (repeat' split) <;> rfl)
    | split)

theorem unregister_veq (fuel : Nat) {w w' : World} (h : VEq w w') (r : Nat) (req : List (Option Id)) (prov : Id) (name : String)
    (v : Option Val) : VEq (unregister fuel w r req prov name v) (unregister fuel w' r req prov name v) := by
  obtain ⟨o, c, m, s, vr, vg, e⟩ := h.form r
  unfold unregister
  simp only [e, removeExtendor_congr h.iro]
  repeat' (first
    | exact h
    | (apply changed_veq; apply veq_setReg h; (repeat' split) <;> rfl)
    | split)

theorem subscribe_veq (fuel : Nat) {w w' : World} (h : VEq w w') (r : Nat) (req : List (Option Id)) (prov : Option Id) (v : Val) :
    VEq (subscribe fuel w r req prov v) (subscribe fuel w' r req prov v) := by
  obtain ⟨o, c, m, s, vr, vg, e⟩ := h.form r
  unfold subscribe
  simp only [e, addExtendor_congr h.iro h.sro]
  repeat' (first
    | exact h
    | (apply changed_veq; apply veq_setReg h; (repeat' split) <;> rfl)
    | split)

theorem unsubscribe_veq (fuel : Nat) {w w' : World} (h : VEq w w') (r : Nat) (req : List (Option Id)) (prov : Option Id)
    (v : Option Val) : VEq (unsubscribe fuel w r req prov v) (unsubscribe fuel w' r req prov v) := by
  obtain ⟨o, c, m, s, vr, vg, e⟩ := h.form r
  unfold unsubscribe
  simp only [e, removeExtendor_congr h.iro]
  repeat' (first
    | exact h
    | (apply changed_veq; apply veq_setReg h; (repeat' split) <;> rfl)
    | split)

theorem rebuild_veq (fuel : Nat) {w w' : World} (h : VEq w w') (r : Nat) : VEq (rebuild fuel w r) (rebuild fuel w' r) := by
  obtain ⟨o, c, m, s, vr, vg, e⟩ := h.form r
  have e1 : allRegistrations (w'.reg r) = allRegistrations (w.reg r) := by rw [e]; rfl
  have e2 : allSubscriptions (w'.reg r) = allSubscriptions (w.reg r) := by rw [e]; rfl
  rw [rebuild_eq, rebuild_eq, e1, e2, h.bases r]
  refine foldl_veq (fun w (e : List K × K × Val) => subscribe fuel w r e.1 e.2.1 e.2.2) (fun _ _ a ha => subscribe_veq fuel ha r _ _ _) _ _ _
    (foldl_veq (fun w (e : List K × K × String × Val) => register fuel w r e.1 (e.2.1.getD 0) e.2.2.1 e.2.2.2) (fun _ _ a ha => register_veq fuel ha r _ _ _ _) _ _ _
      (setBases_veq fuel (veq_setReg h r ?_) r _))
  rw [e]; rfl

/-- `_verify` touches the lookup object only -/
theorem verify_veq {w : World} (hv : w.verifying = true) (r : Nat) : VEq w (verify w r) := by
  by_cases hc : Cur w r
  · rw [verify_cur w r hc]; exact VEq.refl hv
  · rw [verify_stale w r hv hc]; exact (verifyingChanged_vc w r).veq hv

/-- a lookup changes nothing but the lookup object -/
theorem lookup_veq {w : World} (hv : w.verifying = true) (r : Nat) (req : List Id) (prov : Id) (name : String) :
    VEq w (lookup w r req prov name).1 := by
  have h1 := verify_veq hv r
  unfold lookup; simp only []
  split
  · exact h1
  · refine h1.trans ⟨h1.vr, h1.vr, rfl, rfl, fun y => ?_⟩
    by_cases hy : y = r
    · subst hy; rw [reg_setReg_same]; rfl
    · rw [reg_setReg_ne _ hy]
theorem lookupAll_veq {w : World} (hv : w.verifying = true) (r : Nat) (req : List Id) (prov : Id) :
    VEq w (lookupAll w r req prov).1 := by
  have h1 := verify_veq hv r
  unfold lookupAll; simp only []
  split
  · exact h1
  · refine h1.trans ⟨h1.vr, h1.vr, rfl, rfl, fun y => ?_⟩
    by_cases hy : y = r
    · subst hy; rw [reg_setReg_same]; rfl
    · rw [reg_setReg_ne _ hy]
theorem subscriptions_veq {w : World} (hv : w.verifying = true) (r : Nat) (req : List Id) (prov : Option Id) :
    VEq w (subscriptions w r req prov).1 := by
  have h1 := verify_veq hv r
  unfold subscriptions; simp only []
  split
  · exact h1
  · refine h1.trans ⟨h1.vr, h1.vr, rfl, rfl, fun y => ?_⟩
    by_cases hy : y = r
    · subst hy; rw [reg_setReg_same]; rfl
    · rw [reg_setReg_ne _ hy]

theorem step_query_veq (fuel : Nat) {w : World} (hv : w.verifying = true) (op : Op) (hq : op.isQuery = true) :
    VEq w (step fuel w op) := by
  cases op <;> simp only [Op.isQuery, Bool.false_eq_true] at hq
  · exact lookup_veq hv _ _ _ _
  · exact lookupAll_veq hv _ _ _
  · exact subscriptions_veq hv _ _ _

theorem step_veq (fuel : Nat) {w w' : World} (h : VEq w w') (op : Op) : VEq (step fuel w op) (step fuel w' op) := by
  cases op with
  | newreg r bs => exact setBases_veq fuel (veq_setReg h r rfl) r bs
  | setBases r bs => exact setBases_veq fuel h r bs
  | rebuild r => exact rebuild_veq fuel h r
  | register r req p n v => exact register_veq fuel h r req p n v
  | unregister r req p n v => exact unregister_veq fuel h r req p n v
  | subscribe r req p v => exact subscribe_veq fuel h r req p v
  | unsubscribe r req p v => exact unsubscribe_veq fuel h r req p v
  | lookup r req p n => exact ((lookup_veq h.vl r req p n).symm.trans h).trans (lookup_veq h.vr r req p n)
  | lookupAll r req p => exact ((lookupAll_veq h.vl r req p).symm.trans h).trans (lookupAll_veq h.vr r req p)
  | subscriptions r req p => exact ((subscriptions_veq h.vl r req p).symm.trans h).trans (subscriptions_veq h.vr r req p)

/-! ### the specification: the walk over the resolution order of the CURRENT base graph, with the current registrations -/
/-- `ro.ro(registry)` computed afresh from the current `__bases__` of all registries -/
def specRo (fuel : Nat) (w : World) (r : Nat) : List Nat := (roFull (regBases w) fuel r).mro

/-- `_uncached_lookup` over `specRo`: reads only `sro`, `__bases__`, `_adapters`, `_extendors` — no `ro`, cache or snapshot field -/
def specLookup (fuel : Nat) (w : World) (r : Nat) (req : List Id) (prov : Id) (name : String) : Option Val :=
  (specRo fuel w r).findSome? fun b =>
    let x := w.reg b
    let order := req.length
    if !(x.adapters.any (·.order == order)) then none else
    match AList.get? x.extendors prov with
    | none => none
    | some ext => if ext.isEmpty then none else lookupRec w order (getOrder ([] : Names) x.adapters order) req ext name

/-- `_uncached_lookupAll` over `specRo` -/
def specLookupAll (fuel : Nat) (w : World) (r : Nat) (req : List Id) (prov : Id) : Names :=
  (specRo fuel w r).reverse.foldl (fun acc b =>
    let x := w.reg b
    let order := req.length
    if !(x.adapters.any (·.order == order)) then acc else
    match AList.get? x.extendors prov with
    | none => acc
    | some ext => if ext.isEmpty then acc else lookupAllRec w order (getOrder ([] : Names) x.adapters order) req ext acc) []

/-- `_uncached_subscriptions` over `specRo` -/
def specSubscriptions (fuel : Nat) (w : World) (r : Nat) (req : List Id) (prov : Option Id) : List Val :=
  (specRo fuel w r).reverse.foldl (fun acc b =>
    let x := w.reg b
    let order := req.length
    if !(x.subs.any (·.order == order)) then acc else
    let ext : Option (List K) := match prov with
      | none => some [none]
      | some p => (AList.get? x.extendors p).map fun l => l.map some
    match ext with
    | none => acc
    | some ext => subsRec w order (getOrder ([] : List Val) x.subs order) req ext acc) []

theorem uncachedLookup_eq_spec {fuel : Nat} {w w' : World} {r : Nat} (hs : w'.sro = w.sro) (hro : (w'.reg r).ro = specRo fuel w r)
    (hd : ∀ b, DataAt w w' b) (req : List Id) (prov : Id) (name : String) :
    uncachedLookup w' r req prov name = specLookup fuel w r req prov name := by
  unfold uncachedLookup specLookup
  rw [hro]
  apply findSome?_congr_mem
  intro b _
  have d := hd b
  simp only [d.adapters, d.extendors, lookupRec_congr hs]
  rfl

theorem uncachedLookupAll_eq_spec {fuel : Nat} {w w' : World} {r : Nat} (hs : w'.sro = w.sro) (hro : (w'.reg r).ro = specRo fuel w r)
    (hd : ∀ b, DataAt w w' b) (req : List Id) (prov : Id) :
    uncachedLookupAll w' r req prov = specLookupAll fuel w r req prov := by
  unfold uncachedLookupAll specLookupAll
  rw [hro]
  apply foldl_congr_mem
  intro acc b _
  have d := hd b
  simp only [d.adapters, d.extendors, lookupAllRec_congr hs]
  rfl

theorem uncachedSubscriptions_eq_spec {fuel : Nat} {w w' : World} {r : Nat} (hs : w'.sro = w.sro) (hro : (w'.reg r).ro = specRo fuel w r)
    (hd : ∀ b, DataAt w w' b) (req : List Id) (prov : Option Id) :
    uncachedSubscriptions w' r req prov = specSubscriptions fuel w r req prov := by
  unfold uncachedSubscriptions specSubscriptions
  rw [hro]
  apply foldl_congr_mem
  intro acc b _
  have d := hd b
  simp only [d.subs, d.extendors, subsRec_congr hs]
  rfl

/-- the specification reads `sro`, the bases and the registration data only -/
theorem spec_congr {fuel : Nat} {w w' : World} (h : VEq w w') (r : Nat) :
    (∀ req prov name, specLookup fuel w' r req prov name = specLookup fuel w r req prov name) ∧
    (∀ req prov, specLookupAll fuel w' r req prov = specLookupAll fuel w r req prov) ∧
    (∀ req prov, specSubscriptions fuel w' r req prov = specSubscriptions fuel w r req prov) := by
  have hro : specRo fuel w' r = specRo fuel w r := by unfold specRo; rw [h.regBases]
  refine ⟨fun req prov name => ?_, fun req prov => ?_, fun req prov => ?_⟩
  · unfold specLookup; rw [hro]
    apply findSome?_congr_mem; intro b _
    have d := h.data b
    simp only [d.adapters, d.extendors, lookupRec_congr h.sro]
  · unfold specLookupAll; rw [hro]
    apply foldl_congr_mem; intro acc b _
    have d := h.data b
    simp only [d.adapters, d.extendors, lookupAllRec_congr h.sro]
  · unfold specSubscriptions; rw [hro]
    apply foldl_congr_mem; intro acc b _
    have d := h.data b
    simp only [d.subs, d.extendors, subsRec_congr h.sro]

/-! ### consequences of the invariant for one world -/
/-- after `_verify`, a registry that was ever notified holds the resolution order of the current base graph -/
theorem verify_ro {fuel : Nat} {dom : List Nat} {w : World} (h : VInv fuel dom w) (r : Nat) (hne : (w.reg r).ro ≠ []) :
    ((verify w r).reg r).ro = specRo fuel w r := by
  obtain ⟨hv, hc⟩ := verify_vinv h r
  have hq := verify_veq h.verifying r
  have hne' : ((verify w r).reg r).ro ≠ [] := by
    intro e
    have := ((hv.blank r).1).mp e
    rw [hq.gen r] at this
    exact hne (((h.blank r).1).mpr this)
  rcases (hv.j r hc).2 with h0 | ⟨hfr, _⟩
  · exact absurd h0 hne'
  · unfold FreshAt at hfr; rw [hfr, hq.regBases]; rfl

theorem lookup_snd_ver {fuel : Nat} {dom : List Nat} {w : World} (h : VInv fuel dom w) (r : Nat) (req : List Id) (prov : Id) (name : String) :
    (lookup w r req prov name).2 = uncachedLookup (verify w r) r req prov name := by
  obtain ⟨hv, hc⟩ := verify_vinv h r
  have hok := (hv.j r hc).1
  unfold lookup; simp only []
  split
  · rename_i a ha; exact hok.one _ _ _ _ ha
  · rfl

theorem lookupAll_snd_ver {fuel : Nat} {dom : List Nat} {w : World} (h : VInv fuel dom w) (r : Nat) (req : List Id) (prov : Id) :
    (lookupAll w r req prov).2 = uncachedLookupAll (verify w r) r req prov := by
  obtain ⟨hv, hc⟩ := verify_vinv h r
  have hok := (hv.j r hc).1
  unfold lookupAll; simp only []
  split
  · rename_i a ha; exact hok.all _ _ _ ha
  · rfl

theorem subscriptions_snd_ver {fuel : Nat} {dom : List Nat} {w : World} (h : VInv fuel dom w) (r : Nat) (req : List Id) (prov : Option Id) :
    (subscriptions w r req prov).2 = uncachedSubscriptions (verify w r) r req prov := by
  obtain ⟨hv, hc⟩ := verify_vinv h r
  have hok := (hv.j r hc).1
  unfold subscriptions; simp only []
  split
  · rename_i a ha; exact hok.subs _ _ _ ha
  · rfl

/-- the three uncached walks after `_verify` are the specification, for a registry that was ever notified -/
theorem uncached_verify_spec {fuel : Nat} {dom : List Nat} {w : World} (h : VInv fuel dom w) (r : Nat) (hne : (w.reg r).ro ≠ []) :
    (∀ req prov name, uncachedLookup (verify w r) r req prov name = specLookup fuel w r req prov name) ∧
    (∀ req prov, uncachedLookupAll (verify w r) r req prov = specLookupAll fuel w r req prov) ∧
    (∀ req prov, uncachedSubscriptions (verify w r) r req prov = specSubscriptions fuel w r req prov) := by
  have hq := verify_veq h.verifying r
  have hro := verify_ro h r hne
  exact ⟨fun req prov name => uncachedLookup_eq_spec hq.sro hro hq.data req prov name,
    fun req prov => uncachedLookupAll_eq_spec hq.sro hro hq.data req prov,
    fun req prov => uncachedSubscriptions_eq_spec hq.sro hro hq.data req prov⟩

/-- … and for a registry that was never notified (`ro = []`) they are empty -/
theorem uncached_of_ro_nil {w : World} {r : Nat} (h0 : (w.reg r).ro = []) :
    (∀ req prov name, uncachedLookup w r req prov name = none) ∧
    (∀ req prov, uncachedLookupAll w r req prov = []) ∧
    (∀ req prov, uncachedSubscriptions w r req prov = []) := by
  refine ⟨fun req prov name => ?_, fun req prov => ?_, fun req prov => ?_⟩
  · unfold uncachedLookup; rw [h0]; rfl
  · unfold uncachedLookupAll; rw [h0]; rfl
  · unfold uncachedSubscriptions; rw [h0]; rfl

theorem verify_of_ro_nil {fuel : Nat} {dom : List Nat} {w : World} (h : VInv fuel dom w) {r : Nat} (h0 : (w.reg r).ro = []) :
    verify w r = w := by
  obtain ⟨h1, h2⟩ := (h.blank r).2 h0
  exact verify_cur w r (cur_of_blank h1 h2)

/-- the resolution order of a registry without bases is the registry alone -/
theorem specRo_of_no_bases {fuel : Nat} {w : World} (hg : GoodBases fuel (regBases w)) {r : Nat} (hb : (w.reg r).bases = []) :
    specRo fuel w r = [r] := by
  obtain ⟨t, ht⟩ := mro_head hg r
  have hnd : (roFull (regBases w) fuel r).mro.Nodup := by
    obtain ⟨rank, ha, hrk⟩ := hg
    exact (roFull_valid ha fuel r (hrk r)).nodup
  unfold specRo
  rw [ht]
  have : t = [] := by
    apply List.eq_nil_iff_forall_not_mem.mpr
    intro x hx
    have hreach : Reach (regBases w) r x := (mro_mem hg r x).mp (by rw [ht]; exact List.mem_cons_of_mem _ hx)
    have hxr : x = r := by
      cases hreach with
      | refl => rfl
      | step hb' _ => exfalso; have : (regBases w r) = [] := hb; rw [this] at hb'; cases hb'
    rw [ht] at hnd
    rw [hxr] at hx
    exact (List.nodup_cons.mp hnd).1 hx
  rw [this]

/-- the specification on a registry without bases and without registrations: nothing -/
theorem spec_of_blank {fuel : Nat} {w : World} (hg : GoodBases fuel (regBases w)) {r : Nat} (hb : (w.reg r).bases = [])
    (ha : (w.reg r).adapters = []) (hs : (w.reg r).subs = []) :
    (∀ req prov name, specLookup fuel w r req prov name = none) ∧
    (∀ req prov, specLookupAll fuel w r req prov = []) ∧
    (∀ req prov, specSubscriptions fuel w r req prov = []) := by
  have hro := specRo_of_no_bases hg hb
  refine ⟨fun req prov name => ?_, fun req prov => ?_, fun req prov => ?_⟩
  · unfold specLookup; rw [hro]; simp [ha]
  · unfold specLookupAll; rw [hro]; simp [ha]
  · unfold specSubscriptions; rw [hro]; simp [hs]

theorem pos_of_existing {fuel : Nat} : ∀ (ops : List Op) (w : World), WFHist fuel w ops → ∀ r ∈ existing ops, 0 < fuel
  | [], _, _, r, hr => by cases hr
  | op :: ops, w, hwf, r, hr => by
    rcases List.mem_append.mp hr with h | h
    · exact pos_of_existing ops _ hwf.2 r h
    · have good_pos : ∀ B, GoodBases fuel B → 0 < fuel := fun B ⟨rank, _, hrk⟩ => by have := hrk 0; omega
      cases op <;> simp only [touched, List.not_mem_nil] at h
      · exact good_pos _ hwf.1.2
      · exact good_pos _ hwf.1
      · exact good_pos _ hwf.1

/-! ### `fuel = 0`: the model's `changed` is the identity, no registry can be created; every `ro` stays empty -/
structure ZInv (w : World) : Prop where
  verifying : w.verifying = true
  ro : ∀ r, (w.reg r).ro = []
  vro : ∀ r, (w.reg r).verifyRo = []
  vgen : ∀ r, (w.reg r).verifyGen = []
  gen : ∀ r, gen w r = 0
  ok : ∀ r, CacheOk w r

theorem zinv_empty (sro iro : Id → List Id) : ZInv (emptyVer sro iro) :=
  ⟨rfl, fun _ => rfl, fun _ => rfl, fun _ => rfl, fun _ => rfl, fun _ => cacheOk_of_cleared ⟨rfl, rfl, rfl⟩⟩

theorem mut0 {w : World} (h : ZInv w) (r : Nat) (x : Reg) (h1 : x.ro = (w.reg r).ro) (h2 : x.verifyRo = (w.reg r).verifyRo)
    (h3 : x.verifyGen = (w.reg r).verifyGen) (h4 : x.generation = (w.reg r).generation)
    (c1 : x.cache = (w.reg r).cache) (c2 : x.mcache = (w.reg r).mcache) (c3 : x.scache = (w.reg r).scache) :
    ZInv (changed 0 (w.setReg r x) r) := by
  show ZInv (w.setReg r x)
  have hf : ∀ {α} (f : Reg → α), f x = f (w.reg r) → ∀ y, f ((w.setReg r x).reg y) = f (w.reg y) := by
    intro α f hx y
    by_cases hy : y = r
    · subst hy; rw [reg_setReg_same]; exact hx
    · rw [reg_setReg_ne _ hy]
  refine ⟨h.verifying, fun y => ?_, fun y => ?_, fun y => ?_, fun y => ?_, fun y => ?_⟩
  · rw [hf Reg.ro h1]; exact h.ro y
  · rw [hf Reg.verifyRo h2]; exact h.vro y
  · rw [hf Reg.verifyGen h3]; exact h.vgen y
  · show ((w.setReg r x).reg y).generation = 0
    rw [hf Reg.generation h4]; exact h.gen y
  · refine cacheOk_congr (w := w) rfl (hf Reg.ro h1 y) (fun b hb => ?_) ⟨hf Reg.cache c1 y, hf Reg.mcache c2 y, hf Reg.scache c3 y⟩ (h.ok y)
    rw [h.ro y] at hb; cases hb

theorem register_zinv {w : World} (h : ZInv w) (r : Nat) (req : List (Option Id)) (prov : Id) (name : String) (v : Val) :
    ZInv (register 0 w r req prov name v) := by
  unfold register
  simp only []
  repeat' (first
    | exact h
    | (refine mut0 h r _ ?_ ?_ ?_ ?_ ?_ ?_ ?_ <;> (repeat' split) <;> rfl)
    | split)

theorem unregister_zinv {w : World} (h : ZInv w) (r : Nat) (req : List (Option Id)) (prov : Id) (name : String) (v : Option Val) :
    ZInv (unregister 0 w r req prov name v) := by
  unfold unregister
  simp only []
  repeat' (first
    | exact h
    | (refine mut0 h r _ ?_ ?_ ?_ ?_ ?_ ?_ ?_ <;> (repeat' split) <;> rfl)
    | split)

theorem subscribe_zinv {w : World} (h : ZInv w) (r : Nat) (req : List (Option Id)) (prov : Option Id) (v : Val) :
    ZInv (subscribe 0 w r req prov v) := by
  unfold subscribe
  simp only []
  repeat' (first
    | exact h
    | (refine mut0 h r _ ?_ ?_ ?_ ?_ ?_ ?_ ?_ <;> (repeat' split) <;> rfl)
    | split)

theorem unsubscribe_zinv {w : World} (h : ZInv w) (r : Nat) (req : List (Option Id)) (prov : Option Id) (v : Option Val) :
    ZInv (unsubscribe 0 w r req prov v) := by
  unfold unsubscribe
  simp only []
  repeat' (first
    | exact h
    | (refine mut0 h r _ ?_ ?_ ?_ ?_ ?_ ?_ ?_ <;> (repeat' split) <;> rfl)
    | split)

theorem verify_zinv {w : World} (h : ZInv w) (r : Nat) : verify w r = w :=
  verify_cur w r (cur_of_blank (h.vro r) (h.vgen r))

/-- a cache fill on a world where `_verify` does nothing -/
theorem fill_zinv {w : World} (h : ZInv w) (r : Nat) (x : Reg) (hx : clearCaches x = clearCaches (w.reg r))
    (hok : ∀ y, CacheOk (w.setReg r x) y) : ZInv (w.setReg r x) := by
  have hf : ∀ {α} (f : Reg → α), f x = f (w.reg r) → ∀ y, f ((w.setReg r x).reg y) = f (w.reg y) := by
    intro α f hx y
    by_cases hy : y = r
    · subst hy; rw [reg_setReg_same]; exact hx
    · rw [reg_setReg_ne _ hy]
  refine ⟨h.verifying, fun y => ?_, fun y => ?_, fun y => ?_, fun y => ?_, hok⟩
  · rw [hf Reg.ro (have := congrArg Reg.ro hx; this)]; exact h.ro y
  · rw [hf Reg.verifyRo (have := congrArg Reg.verifyRo hx; this)]; exact h.vro y
  · rw [hf Reg.verifyGen (have := congrArg Reg.verifyGen hx; this)]; exact h.vgen y
  · show ((w.setReg r x).reg y).generation = 0
    rw [hf Reg.generation (have := congrArg Reg.generation hx; this)]; exact h.gen y

theorem lookup_zinv {w : World} (h : ZInv w) (r : Nat) (req : List Id) (prov : Id) (name : String) : ZInv (lookup w r req prov name).1 := by
  unfold lookup; rw [verify_zinv h r]; simp only []
  split
  · exact h
  · refine fill_zinv h r _ rfl (cache_fill_ok h.ok r _ rfl rfl rfl rfl (fun prov' name' req' a ha => ?_) (h.ok r).all (h.ok r).subs)
    by_cases hk : (prov', name', req') = (prov, name, req)
    · cases hk
      simp only [aget?_set_same] at ha
      cases ha; rfl
    · simp only [aget?_set_ne _ hk] at ha
      exact (h.ok r).one _ _ _ _ ha

theorem lookupAll_zinv {w : World} (h : ZInv w) (r : Nat) (req : List Id) (prov : Id) : ZInv (lookupAll w r req prov).1 := by
  unfold lookupAll; rw [verify_zinv h r]; simp only []
  split
  · exact h
  · refine fill_zinv h r _ rfl (cache_fill_ok h.ok r _ rfl rfl rfl rfl (h.ok r).one (fun prov' req' a ha => ?_) (h.ok r).subs)
    by_cases hk : (prov', req') = (prov, req)
    · cases hk
      simp only [aget?_set_same] at ha
      cases ha; rfl
    · simp only [aget?_set_ne _ hk] at ha
      exact (h.ok r).all _ _ _ ha

theorem subscriptions_zinv {w : World} (h : ZInv w) (r : Nat) (req : List Id) (prov : Option Id) : ZInv (subscriptions w r req prov).1 := by
  unfold subscriptions; rw [verify_zinv h r]; simp only []
  split
  · exact h
  · refine fill_zinv h r _ rfl (cache_fill_ok h.ok r _ rfl rfl rfl rfl (h.ok r).one (h.ok r).all (fun prov' req' a ha => ?_))
    by_cases hk : (prov', req') = (prov, req)
    · cases hk
      simp only [aget?_set_same] at ha
      cases ha; rfl
    · simp only [aget?_set_ne _ hk] at ha
      exact (h.ok r).subs _ _ _ ha

theorem not_good_zero (B : Bases) : ¬ GoodBases 0 B := fun ⟨_, _, hrk⟩ => by have := hrk 0; omega

theorem step_zinv {w : World} (h : ZInv w) (op : Op) (hwf : WF 0 w op) : ZInv (step 0 w op) := by
  cases op with
  | newreg r bs => exact absurd hwf.2 (not_good_zero _)
  | setBases r bs => exact absurd hwf (not_good_zero _)
  | rebuild r => exact absurd hwf (not_good_zero _)
  | register r req p n v => exact register_zinv h r req p n v
  | unregister r req p n v => exact unregister_zinv h r req p n v
  | subscribe r req p v => exact subscribe_zinv h r req p v
  | unsubscribe r req p v => exact unsubscribe_zinv h r req p v
  | lookup r req p n => exact lookup_zinv h r req p n
  | lookupAll r req p => exact lookupAll_zinv h r req p
  | subscriptions r req p => exact subscriptions_zinv h r req p

/-! ### what every reachable world satisfies, whatever the fuel -/
/-- reachable-world package: the invariant `VInv` (`0 < fuel`) or `ZInv` (`fuel = 0`) -/
def Reach5 (fuel : Nat) (w : World) : Prop := (∃ dom, VInv fuel dom w) ∨ (fuel = 0 ∧ ZInv w)

theorem reach5_empty (fuel : Nat) (sro iro : Id → List Id) : Reach5 fuel (emptyVer sro iro) := by
  cases fuel with
  | zero => exact Or.inr ⟨rfl, zinv_empty sro iro⟩
  | succ f => exact Or.inl ⟨[], vinv_empty (f+1) (Nat.succ_pos f) sro iro⟩

theorem step_reach5 {fuel : Nat} {w : World} (h : Reach5 fuel w) (op : Op) (hwf : WF fuel w op) : Reach5 fuel (step fuel w op) := by
  rcases h with ⟨dom, h⟩ | ⟨rfl, h⟩
  · exact Or.inl ⟨_, step_vinv h op hwf⟩
  · exact Or.inr ⟨rfl, step_zinv h op hwf⟩

theorem run_reach5 (fuel : Nat) : ∀ (ops : List Op) (w : World), Reach5 fuel w → WFHist fuel w ops → Reach5 fuel (run fuel w ops)
  | [], _, h, _ => h
  | op :: ops, w, h, hwf => run_reach5 fuel ops (step fuel w op) (step_reach5 h op hwf.1) hwf.2

theorem Reach5.verifying {fuel : Nat} {w : World} (h : Reach5 fuel w) : w.verifying = true := by
  rcases h with ⟨_, h⟩ | ⟨_, h⟩
  · exact h.verifying
  · exact h.verifying

/-- a registry has an empty `ro` exactly as long as its generation is 0 -/
theorem Reach5.blank {fuel : Nat} {w : World} (h : Reach5 fuel w) (r : Nat) : (w.reg r).ro = [] ↔ gen w r = 0 := by
  rcases h with ⟨_, h⟩ | ⟨_, h⟩
  · exact (h.blank r).1
  · exact ⟨fun _ => h.gen r, fun _ => h.ro r⟩

/-- after `_verify`, every cache entry of the registry is the uncached answer -/
theorem Reach5.ok {fuel : Nat} {w : World} (h : Reach5 fuel w) (r : Nat) : CacheOk (verify w r) r := by
  rcases h with ⟨_, h⟩ | ⟨_, h⟩
  · obtain ⟨hv, hc⟩ := verify_vinv h r
    exact (hv.j r hc).1
  · rw [verify_zinv h r]; exact h.ok r

/-- never notified: `_verify` does nothing and the walks are empty; otherwise `_verify` leaves the fresh resolution order -/
theorem Reach5.cases {fuel : Nat} {w : World} (h : Reach5 fuel w) (r : Nat) :
    ((w.reg r).ro = [] ∧ verify w r = w) ∨ ((w.reg r).ro ≠ [] ∧ ((verify w r).reg r).ro = specRo fuel w r) := by
  rcases h with ⟨_, h⟩ | ⟨_, h⟩
  · by_cases h0 : (w.reg r).ro = []
    · exact Or.inl ⟨h0, verify_of_ro_nil h h0⟩
    · exact Or.inr ⟨h0, verify_ro h r h0⟩
  · exact Or.inl ⟨h.ro r, verify_zinv h r⟩

/-! ### the answers of the three entry points on a reachable world -/
theorem lookup_snd_gen {w : World} {r : Nat} (hok : CacheOk (verify w r) r) (req : List Id) (prov : Id) (name : String) :
    (lookup w r req prov name).2 = uncachedLookup (verify w r) r req prov name := by
  unfold lookup; simp only []
  split
  · rename_i a ha; exact hok.one _ _ _ _ ha
  · rfl

theorem lookupAll_snd_gen {w : World} {r : Nat} (hok : CacheOk (verify w r) r) (req : List Id) (prov : Id) :
    (lookupAll w r req prov).2 = uncachedLookupAll (verify w r) r req prov := by
  unfold lookupAll; simp only []
  split
  · rename_i a ha; exact hok.all _ _ _ ha
  · rfl

theorem subscriptions_snd_gen {w : World} {r : Nat} (hok : CacheOk (verify w r) r) (req : List Id) (prov : Option Id) :
    (subscriptions w r req prov).2 = uncachedSubscriptions (verify w r) r req prov := by
  unfold subscriptions; simp only []
  split
  · rename_i a ha; exact hok.subs _ _ _ ha
  · rfl

/-- on a reachable world: a registry that was never notified of a change answers "nothing"; any other registry answers what
the specification computes from the current bases and registrations -/
theorem Reach5.answers {fuel : Nat} {w : World} (h : Reach5 fuel w) (r : Nat) :
    ((w.reg r).ro = [] ∧ (∀ req prov name, (lookup w r req prov name).2 = none) ∧
        (∀ req prov, (lookupAll w r req prov).2 = []) ∧ (∀ req prov, (subscriptions w r req prov).2 = [])) ∨
    ((w.reg r).ro ≠ [] ∧ (∀ req prov name, (lookup w r req prov name).2 = specLookup fuel w r req prov name) ∧
        (∀ req prov, (lookupAll w r req prov).2 = specLookupAll fuel w r req prov) ∧
        (∀ req prov, (subscriptions w r req prov).2 = specSubscriptions fuel w r req prov)) := by
  have hok := h.ok r
  rcases h.cases r with ⟨h0, hv⟩ | ⟨hne, hro⟩
  · left
    obtain ⟨u1, u2, u3⟩ := uncached_of_ro_nil h0
    refine ⟨h0, fun req prov name => ?_, fun req prov => ?_, fun req prov => ?_⟩
    · rw [lookup_snd_gen hok, hv]; exact u1 _ _ _
    · rw [lookupAll_snd_gen hok, hv]; exact u2 _ _
    · rw [subscriptions_snd_gen hok, hv]; exact u3 _ _
  · right
    have hq := verify_veq h.verifying r
    refine ⟨hne, fun req prov name => ?_, fun req prov => ?_, fun req prov => ?_⟩
    · rw [lookup_snd_gen hok]; exact uncachedLookup_eq_spec hq.sro hro hq.data req prov name
    · rw [lookupAll_snd_gen hok]; exact uncachedLookupAll_eq_spec hq.sro hro hq.data req prov
    · rw [subscriptions_snd_gen hok]; exact uncachedSubscriptions_eq_spec hq.sro hro hq.data req prov

/-- with `0 < fuel`, on a reachable world EVERY registry (created or not) answers what the specification computes -/
theorem VInv.answers_spec {fuel : Nat} {dom : List Nat} {w : World} (h : VInv fuel dom w) (r : Nat) :
    (∀ req prov name, (lookup w r req prov name).2 = specLookup fuel w r req prov name) ∧
    (∀ req prov, (lookupAll w r req prov).2 = specLookupAll fuel w r req prov) ∧
    (∀ req prov, (subscriptions w r req prov).2 = specSubscriptions fuel w r req prov) := by
  have b : Reach5 fuel w := Or.inl ⟨dom, h⟩
  rcases b.answers r with ⟨h0, a1, a2, a3⟩ | ⟨_, a⟩
  · obtain ⟨d1, d2, d3⟩ := h.nodata r h0
    obtain ⟨s1, s2, s3⟩ := spec_of_blank h.good d3 d1 d2
    exact ⟨fun _ _ _ => by rw [a1, s1], fun _ _ => by rw [a2, s2], fun _ _ => by rw [a3, s3]⟩
  · exact a

/-! ### erasing the queries of a history -/
theorem wf_veq {fuel : Nat} {w w' : World} (h : VEq w w') (b : Reach5 fuel w) (b' : Reach5 fuel w') (op : Op) (hwf : WF fuel w op) :
    WF fuel w' op := by
  cases op with
  | newreg r bs =>
    refine ⟨⟨by rw [h.bases]; exact hwf.1.1, ?_, by rw [h.subregs]; exact hwf.1.2.2⟩, by rw [h.regBases]; exact hwf.2⟩
    apply (b'.blank r).mpr
    rw [h.gen r]
    exact (b.blank r).mp hwf.1.2.1
  | setBases r bs => show GoodBases _ _; rw [h.regBases]; exact hwf
  | rebuild r => show GoodBases _ _; rw [h.regBases]; exact hwf
  | _ => trivial

theorem run_erase_veq (fuel : Nat) : ∀ (ops : List Op) {w w' : World}, Reach5 fuel w → Reach5 fuel w' → VEq w w' → WFHist fuel w ops →
    VEq (run fuel w ops) (run fuel w' (eraseLookups ops)) ∧ WFHist fuel w' (eraseLookups ops)
  | [], _, _, _, _, h, _ => ⟨h, trivial⟩
  | op :: ops, w, w', b, b', h, hwf => by
    cases hq : op.isQuery with
    | true =>
      have e : eraseLookups (op :: ops) = eraseLookups ops := by simp [eraseLookups, hq]
      rw [e]
      exact run_erase_veq fuel ops (step_reach5 b op hwf.1) b' ((step_query_veq fuel h.vl op hq).symm.trans h) hwf.2
    | false =>
      have e : eraseLookups (op :: ops) = op :: eraseLookups ops := by simp [eraseLookups, hq]
      rw [e]
      have hwf' := wf_veq h b b' op hwf.1
      obtain ⟨h1, h2⟩ := run_erase_veq fuel ops (step_reach5 b op hwf.1) (step_reach5 b' op hwf') (step_veq fuel h op) hwf.2
      exact ⟨h1, hwf', h2⟩

/-! ### every leaf of `_adapters` binds a name once (for C08), generation-checking flavour -/
theorem changed_ver_data : ∀ (f : Nat) (w : World) (r : Nat), w.verifying = true → ∀ b, DataAt w (changed f w r) b
  | 0, w, _, _, b => DataAt.refl w b
  | f+1, w, r, hv, b => by
    rw [changed_succ_ver f w r hv]
    refine DataAt.trans ?_ ((verifyingChanged_vc _ r).data b)
    by_cases hb : b = r
    · subst hb; refine ⟨?_, ?_, ?_⟩ <;> rw [reg_setReg_same]
    · exact DataAt.of_reg_eq (reg_setReg_ne _ hb _)

theorem mut_allOk_ver {fuel : Nat} {w : World} (hv : w.verifying = true) (h : AllOk w) (r : Nat) (x : Reg) (hx : TreesOk x.adapters) :
    AllOk (changed fuel (w.setReg r x) r) :=
  allOk_of_data (changed_ver_data fuel (w.setReg r x) r hv) (allOk_setReg h r x hx)

theorem register_allOk_ver (fuel : Nat) {w : World} (hv : w.verifying = true) (h : AllOk w) (r : Nat) (req : List (Option Id)) (prov : Id)
    (name : String) (v : Val) : AllOk (register fuel w r req prov name v) := by
  have hT : TreesOk (setOrder (w.reg r).adapters req.length
      (Level.update ([] : Names) (fun names => AList.set names name v) (req.length+1)
        (getOrder ([] : Names) (w.reg r).adapters req.length) (req.map convNone ++ [some prov]))) :=
    setOrder_ok (h r) _ _ (update_ok _ (fun names hn => aset_keys_nodup names name v hn) _ _ _ (getOrder_ok (h r) _))
  unfold register
  simp only []
  repeat' (first
    | exact h
    | (refine mut_allOk_ver hv h r _ ?_; (repeat' split) <;> exact hT)
    | split)

theorem unregister_allOk_ver (fuel : Nat) {w : World} (hv : w.verifying = true) (h : AllOk w) (r : Nat) (req : List (Option Id)) (prov : Id)
    (name : String) (v : Option Val) : AllOk (unregister fuel w r req prov name v) := by
  have hT : TreesOk (setOrder (w.reg r).adapters req.length
      (Level.remove (fun (names : Names) => names.isEmpty) (fun names => AList.erase names name) (req.length+1)
        (getOrder ([] : Names) (w.reg r).adapters req.length) (req.map convNone ++ [some prov])).1) :=
    setOrder_ok (h r) _ _ (remove_ok _ _ (fun names hn => aerase_keys_nodup names name hn) _ _ _ (getOrder_ok (h r) _))
  unfold unregister
  simp only []
  repeat' (first
    | exact h
    | (refine mut_allOk_ver hv h r _ ?_; (repeat' split) <;> exact hT)
    | split)

theorem subscribe_allOk_ver (fuel : Nat) {w : World} (hv : w.verifying = true) (h : AllOk w) (r : Nat) (req : List (Option Id)) (prov : Option Id)
    (v : Val) : AllOk (subscribe fuel w r req prov v) := by
  unfold subscribe
  simp only []
  repeat' (first
    | exact h
    | (refine mut_allOk_ver hv h r _ ?_; (repeat' split) <;> exact h r)
    | split)

theorem unsubscribe_allOk_ver (fuel : Nat) {w : World} (hv : w.verifying = true) (h : AllOk w) (r : Nat) (req : List (Option Id)) (prov : Option Id)
    (v : Option Val) : AllOk (unsubscribe fuel w r req prov v) := by
  unfold unsubscribe
  simp only []
  repeat' (first
    | exact h
    | (refine mut_allOk_ver hv h r _ ?_; (repeat' split) <;> exact h r)
    | split)

/-- generation-checking flavour + the leaves invariant -/
def LOkV (w : World) : Prop := w.verifying = true ∧ AllOk w

theorem step_verifying (fuel : Nat) {w : World} (hv : w.verifying = true) (op : Op) : (step fuel w op).verifying = true :=
  (step_veq fuel (VEq.refl hv) op).vl

theorem lokv_setReg {w : World} (h : LOkV w) (r : Nat) (x : Reg) (hx : TreesOk x.adapters) : LOkV (w.setReg r x) :=
  ⟨h.1, allOk_setReg h.2 r x hx⟩

theorem setBases_lokv (fuel : Nat) {w : World} (h : LOkV w) (r : Nat) (bs : List Nat) : LOkV (setBases fuel w r bs) := by
  refine ⟨(setBases_veq fuel (VEq.refl h.1) r bs).vl, ?_⟩
  rw [setBases_ver fuel w r bs h.1]
  exact allOk_of_data (fun b => (rebased_data fuel w r bs b).trans (changed_ver_data fuel (rebased fuel w r bs) r h.1 b)) h.2

theorem register_lokv (fuel : Nat) {w : World} (h : LOkV w) (r : Nat) (req : List (Option Id)) (prov : Id) (name : String) (v : Val) :
    LOkV (register fuel w r req prov name v) :=
  ⟨(register_veq fuel (VEq.refl h.1) r req prov name v).vl, register_allOk_ver fuel h.1 h.2 r req prov name v⟩
theorem subscribe_lokv (fuel : Nat) {w : World} (h : LOkV w) (r : Nat) (req : List (Option Id)) (prov : Option Id) (v : Val) :
    LOkV (subscribe fuel w r req prov v) :=
  ⟨(subscribe_veq fuel (VEq.refl h.1) r req prov v).vl, subscribe_allOk_ver fuel h.1 h.2 r req prov v⟩

theorem foldl_lokv {α} (f : World → α → World) (hf : ∀ w a, LOkV w → LOkV (f w a)) : ∀ (l : List α) (w : World), LOkV w → LOkV (l.foldl f w)
  | [], _, h => h
  | a :: l, w, h => foldl_lokv f hf l _ (hf w a h)

theorem rebuild_lokv (fuel : Nat) {w : World} (h : LOkV w) (r : Nat) : LOkV (rebuild fuel w r) := by
  rw [rebuild_eq]
  refine foldl_lokv (fun w (e : List K × K × Val) => subscribe fuel w r e.1 e.2.1 e.2.2) (fun _ a ha => subscribe_lokv fuel ha r _ _ _) _ _
    (foldl_lokv (fun w (e : List K × K × String × Val) => register fuel w r e.1 (e.2.1.getD 0) e.2.2.1 e.2.2.2)
      (fun _ a ha => register_lokv fuel ha r _ _ _ _) _ _ (setBases_lokv fuel (lokv_setReg h r _ ?_) r _))
  intro b hb; cases hb

theorem step_lokv (fuel : Nat) {w : World} (h : LOkV w) (op : Op) : LOkV (step fuel w op) := by
  refine ⟨step_verifying fuel h.1 op, ?_⟩
  cases op with
  | newreg r bs => exact (setBases_lokv fuel (lokv_setReg h r {} (fun b hb => by cases hb)) r bs).2
  | setBases r bs => exact (setBases_lokv fuel h r bs).2
  | rebuild r => exact (rebuild_lokv fuel h r).2
  | register r req p n v => exact register_allOk_ver fuel h.1 h.2 r req p n v
  | unregister r req p n v => exact unregister_allOk_ver fuel h.1 h.2 r req p n v
  | subscribe r req p v => exact subscribe_allOk_ver fuel h.1 h.2 r req p v
  | unsubscribe r req p v => exact unsubscribe_allOk_ver fuel h.1 h.2 r req p v
  | lookup r req p n => exact allOk_of_data (lookup_veq h.1 r req p n).data h.2
  | lookupAll r req p => exact allOk_of_data (lookupAll_veq h.1 r req p).data h.2
  | subscriptions r req p => exact allOk_of_data (subscriptions_veq h.1 r req p).data h.2

theorem run_lokv (fuel : Nat) : ∀ (ops : List Op) (w : World), LOkV w → LOkV (run fuel w ops)
  | [], _, h => h
  | op :: ops, _, h => run_lokv fuel ops _ (step_lokv fuel h op)

theorem lokv_empty (sro iro : Id → List Id) : LOkV (emptyVer sro iro) := ⟨rfl, fun b c hc => by rw [reg_emptyVer] at hc; cases hc⟩

/-! ### the main theorems -/
theorem reach5_run (fuel : Nat) (sro iro : Id → List Id) (ops : List Op) (hwf : WFHist fuel (emptyVer sro iro) ops) :
    Reach5 fuel (run fuel (emptyVer sro iro) ops) :=
  run_reach5 fuel ops _ (reach5_empty fuel sro iro) hwf

/-- the invariant `VInv` on every reachable world (`0 < fuel`; with `fuel = 0` no registry can be created: `ZInv`) -/
theorem C05_verifying_invariant (fuel : Nat) (h0 : 0 < fuel) (sro iro : Id → List Id) (ops : List Op)
    (hwf : WFHist fuel (emptyVer sro iro) ops) : VInv fuel (existing ops) (run fuel (emptyVer sro iro) ops) := by
  have := run_vinv fuel ops [] _ (vinv_empty fuel h0 sro iro) hwf
  simpa using this

/-- a created registry has been notified of a change: its `ro` is not empty -/
theorem existing_ro_ne (fuel : Nat) (sro iro : Id → List Id) (ops : List Op) (hwf : WFHist fuel (emptyVer sro iro) ops) :
    ∀ r ∈ existing ops, ((run fuel (emptyVer sro iro) ops).reg r).ro ≠ [] := fun r hr =>
  (C05_verifying_invariant fuel (pos_of_existing ops _ hwf r hr) sro iro ops hwf).dom r hr

/-- **C06 (generation-checking flavour `VerifyingAdapterRegistry`)**: after ANY well-formed history — creations, `__bases__`
assignments at any level of a chain (which do NOT notify the descendants in this flavour), `rebuild()`, registrations,
subscriptions, lookups — the check `_verify` that every lookup entry point performs first leaves in every created registry
`r` exactly the resolution order `ro.ro` computes from the CURRENT base graph; `_verify` does not touch the base graph
(`regBases (verify w r) = regBases w`).

Guards = C06's `WFHist`, nothing added:
* `newreg r bs` only for an `r` with no bases / `ro` / sub-registries: the operation installs a blank record, which resets
  `_generation` to 0; a child whose snapshot happens to show the re-grown generation keeps a stale cache (`renewVer` below);
* `newreg` / `setBases` / `rebuild`: the (new) base graph is acyclic with ranks `< fuel` (`GoodBases`): `fuel` stands for the
  unbounded recursion of `ro.ro`; with a chain deeper than `fuel` the right-hand side is a truncated order (`shallowVer` below).
The model's `verifyingChanged` recomputes with fuel `len(regs) + 1`; that this is enough is PROVED (`roFull_regs_length`). -/
theorem C06_ro_verifying (fuel : Nat) (sro iro : Id → List Id) (ops : List Op) (hwf : WFHist fuel (emptyVer sro iro) ops) :
    ∀ r ∈ existing ops,
      ((verify (run fuel (emptyVer sro iro) ops) r).reg r).ro = (roFull (regBases (run fuel (emptyVer sro iro) ops)) fuel r).mro ∧
      regBases (verify (run fuel (emptyVer sro iro) ops) r) = regBases (run fuel (emptyVer sro iro) ops) := by
  intro r hr
  have h := C05_verifying_invariant fuel (pos_of_existing ops _ hwf r hr) sro iro ops hwf
  exact ⟨verify_ro h r (h.dom r hr), (verify_veq h.verifying r).regBases⟩

/-- … more generally for every registry that was ever notified of a change (created or not): a registry whose `ro` is not
empty.  (A registry that was only ever mentioned keeps `ro = []`; nothing is claimed about it here.) -/
theorem C06_ro_verifying_notified (fuel : Nat) (sro iro : Id → List Id) (ops : List Op) (hwf : WFHist fuel (emptyVer sro iro) ops)
    (r : Nat) (hne : ((run fuel (emptyVer sro iro) ops).reg r).ro ≠ []) :
    ((verify (run fuel (emptyVer sro iro) ops) r).reg r).ro = (roFull (regBases (run fuel (emptyVer sro iro) ops)) fuel r).mro := by
  rcases (reach5_run fuel sro iro ops hwf).cases r with ⟨h0, _⟩ | ⟨_, h⟩
  · exact absurd h0 hne
  · exact h

/-- **C05, transparency** (all registries, created or not): each entry point returns what the uncached walk computes right
after `_verify` — whatever the caches hold. -/
theorem C05_verifying_transparent_lookup (fuel : Nat) (sro iro : Id → List Id) (ops : List Op)
    (hwf : WFHist fuel (emptyVer sro iro) ops) (r : Nat) (req : List Id) (prov : Id) (name : String) :
    (lookup (run fuel (emptyVer sro iro) ops) r req prov name).2 =
      uncachedLookup (verify (run fuel (emptyVer sro iro) ops) r) r req prov name :=
  lookup_snd_gen ((reach5_run fuel sro iro ops hwf).ok r) req prov name

theorem C05_verifying_transparent_lookupAll (fuel : Nat) (sro iro : Id → List Id) (ops : List Op)
    (hwf : WFHist fuel (emptyVer sro iro) ops) (r : Nat) (req : List Id) (prov : Id) :
    (lookupAll (run fuel (emptyVer sro iro) ops) r req prov).2 =
      uncachedLookupAll (verify (run fuel (emptyVer sro iro) ops) r) r req prov :=
  lookupAll_snd_gen ((reach5_run fuel sro iro ops hwf).ok r) req prov

theorem C05_verifying_transparent_subscriptions (fuel : Nat) (sro iro : Id → List Id) (ops : List Op)
    (hwf : WFHist fuel (emptyVer sro iro) ops) (r : Nat) (req : List Id) (prov : Option Id) :
    (subscriptions (run fuel (emptyVer sro iro) ops) r req prov).2 =
      uncachedSubscriptions (verify (run fuel (emptyVer sro iro) ops) r) r req prov :=
  subscriptions_snd_gen ((reach5_run fuel sro iro ops hwf).ok r) req prov

/-- **C05, the answers are the specification**: for EVERY registry (created or only ever mentioned), each entry point returns
the walk over the resolution order of the CURRENT base graph with the CURRENT registrations (`specLookup` & co. read `sro`,
`__bases__`, `_adapters`, `_subscribers`, `_extendors` only — no `ro`, no cache, no generation snapshot).

Guard `0 < fuel` (besides `WFHist`): with `fuel = 0` the model's `changed` is the identity — nothing in Python corresponds to
that —, a registry can then carry registrations while its `ro` is still `[]`, and answers "nothing" where the specification
walks `[r]` (`blankVer` below is the counterexample).  Any history that creates a registry has `0 < fuel` (`pos_of_existing`). -/
theorem C05_verifying_spec (fuel : Nat) (h0 : 0 < fuel) (sro iro : Id → List Id) (ops : List Op)
    (hwf : WFHist fuel (emptyVer sro iro) ops) (r : Nat) :
    (∀ req prov name, (lookup (run fuel (emptyVer sro iro) ops) r req prov name).2 =
        specLookup fuel (run fuel (emptyVer sro iro) ops) r req prov name) ∧
    (∀ req prov, (lookupAll (run fuel (emptyVer sro iro) ops) r req prov).2 =
        specLookupAll fuel (run fuel (emptyVer sro iro) ops) r req prov) ∧
    (∀ req prov, (subscriptions (run fuel (emptyVer sro iro) ops) r req prov).2 =
        specSubscriptions fuel (run fuel (emptyVer sro iro) ops) r req prov) :=
  (C05_verifying_invariant fuel h0 sro iro ops hwf).answers_spec r

/-- … in particular for every created registry, with no guard but `WFHist` -/
theorem C05_verifying_spec_existing (fuel : Nat) (sro iro : Id → List Id) (ops : List Op) (hwf : WFHist fuel (emptyVer sro iro) ops)
    (r : Nat) (hr : r ∈ existing ops) :
    (∀ req prov name, (lookup (run fuel (emptyVer sro iro) ops) r req prov name).2 =
        specLookup fuel (run fuel (emptyVer sro iro) ops) r req prov name) ∧
    (∀ req prov, (lookupAll (run fuel (emptyVer sro iro) ops) r req prov).2 =
        specLookupAll fuel (run fuel (emptyVer sro iro) ops) r req prov) ∧
    (∀ req prov, (subscriptions (run fuel (emptyVer sro iro) ops) r req prov).2 =
        specSubscriptions fuel (run fuel (emptyVer sro iro) ops) r req prov) :=
  C05_verifying_spec fuel (pos_of_existing ops _ hwf r hr) sro iro ops hwf r

/-- … and the uncached walks after `_verify` are the specification (the form asked for: no cache or snapshot field on the right) -/
theorem C05_verifying_uncached_spec (fuel : Nat) (sro iro : Id → List Id) (ops : List Op) (hwf : WFHist fuel (emptyVer sro iro) ops)
    (r : Nat) (hr : r ∈ existing ops) :
    (∀ req prov name, uncachedLookup (verify (run fuel (emptyVer sro iro) ops) r) r req prov name =
        specLookup fuel (run fuel (emptyVer sro iro) ops) r req prov name) ∧
    (∀ req prov, uncachedLookupAll (verify (run fuel (emptyVer sro iro) ops) r) r req prov =
        specLookupAll fuel (run fuel (emptyVer sro iro) ops) r req prov) ∧
    (∀ req prov, uncachedSubscriptions (verify (run fuel (emptyVer sro iro) ops) r) r req prov =
        specSubscriptions fuel (run fuel (emptyVer sro iro) ops) r req prov) :=
  uncached_verify_spec (C05_verifying_invariant fuel (pos_of_existing ops _ hwf r hr) sro iro ops hwf) r
    (existing_ro_ne fuel sro iro ops hwf r hr)

/-- **C05, literally** (all registries, created or not): after any well-formed history each of the three queries returns
what it returns after the same history with every earlier query erased.  Earlier queries do change more than caches here
(`_verify` may re-derive `ro` and re-snapshot), so the two final worlds are compared through the specification: they agree on
`sro`, bases, registration data and generations (`VEq`, `run_erase_veq`).  That the erased history is well-formed is proved,
not assumed. -/
theorem C05_verifying_erase (fuel : Nat) (sro iro : Id → List Id) (ops : List Op) (hwf : WFHist fuel (emptyVer sro iro) ops) (r : Nat) :
    (∀ req prov name, (lookup (run fuel (emptyVer sro iro) ops) r req prov name).2 =
        (lookup (run fuel (emptyVer sro iro) (eraseLookups ops)) r req prov name).2) ∧
    (∀ req prov, (lookupAll (run fuel (emptyVer sro iro) ops) r req prov).2 =
        (lookupAll (run fuel (emptyVer sro iro) (eraseLookups ops)) r req prov).2) ∧
    (∀ req prov, (subscriptions (run fuel (emptyVer sro iro) ops) r req prov).2 =
        (subscriptions (run fuel (emptyVer sro iro) (eraseLookups ops)) r req prov).2) := by
  have b0 := reach5_empty fuel sro iro
  obtain ⟨h, hwf'⟩ := run_erase_veq fuel ops b0 b0 (VEq.refl (w := emptyVer sro iro) rfl) hwf
  have b := reach5_run fuel sro iro ops hwf
  have b' := reach5_run fuel sro iro _ hwf'
  obtain ⟨s1, s2, s3⟩ := spec_congr (fuel := fuel) h r
  rcases b.answers r with ⟨h0, a1, a2, a3⟩ | ⟨hne, a1, a2, a3⟩ <;> rcases b'.answers r with ⟨h0', c1, c2, c3⟩ | ⟨hne', c1, c2, c3⟩
  · exact ⟨fun _ _ _ => by rw [a1, c1], fun _ _ => by rw [a2, c2], fun _ _ => by rw [a3, c3]⟩
  · exact absurd ((b'.blank r).mpr (by rw [h.gen r]; exact (b.blank r).mp h0)) hne'
  · exact absurd ((b.blank r).mpr (by rw [← h.gen r]; exact (b'.blank r).mp h0')) hne
  · exact ⟨fun _ _ _ => by rw [a1, c1, s1], fun _ _ => by rw [a2, c2, s2], fun _ _ => by rw [a3, c3, s3]⟩

/-- **C08 along the chain** (generation-checking flavour, all registries): `lookupAll(required, provided)` binds a name to
exactly what `lookup(required, provided, name)` returns, and leaves it unbound exactly when `lookup` returns the default.
Guard `WFHist` is needed only for the two transparency theorems (the leaves invariant `AllOk` holds after any history). -/
theorem C08_verifying_lookupAll_agrees (fuel : Nat) (sro iro : Id → List Id) (ops : List Op)
    (hwf : WFHist fuel (emptyVer sro iro) ops) (r : Nat) (req : List Id) (prov : Id) (name : String) :
    AList.get? (lookupAll (run fuel (emptyVer sro iro) ops) r req prov).2 name =
      (lookup (run fuel (emptyVer sro iro) ops) r req prov name).2 := by
  rw [C05_verifying_transparent_lookupAll fuel sro iro ops hwf, C05_verifying_transparent_lookup fuel sro iro ops hwf]
  have hl := run_lokv fuel ops _ (lokv_empty sro iro)
  exact uncachedLookupAll_get (allOk_of_data (verify_veq hl.1 r).data hl.2) r req prov name

/-! ### generations never decrease along a step -/
/-- still the generation-checking flavour, and no generation has decreased -/
def GM (w0 w : World) : Prop := w.verifying = true ∧ ∀ y, gen w0 y ≤ gen w y

theorem GM.refl {w : World} (hv : w.verifying = true) : GM w w := ⟨hv, fun _ => Nat.le_refl _⟩
theorem GM.trans {a b c : World} (h1 : GM a b) (h2 : GM b c) : GM a c := ⟨h2.1, fun y => Nat.le_trans (h1.2 y) (h2.2 y)⟩

theorem changed_gm : ∀ (f : Nat) (w : World) (r : Nat), w.verifying = true → GM w (changed f w r)
  | 0, _, _, hv => GM.refl hv
  | f+1, w, r, hv => by
    rw [changed_succ_ver f w r hv]
    have vc := verifyingChanged_vc (w.setReg r { w.reg r with generation := (w.reg r).generation + 1 }) r
    refine ⟨vc.verifying.trans hv, fun y => ?_⟩
    rw [vc.gen y]
    unfold gen
    by_cases hy : y = r
    · subst hy; rw [reg_setReg_same]; exact Nat.le_succ _
    · rw [reg_setReg_ne _ hy]; exact Nat.le_refl _

theorem mut_gm {fuel : Nat} {w : World} (hv : w.verifying = true) (r : Nat) (x : Reg) (hx : (w.reg r).generation ≤ x.generation) :
    GM w (changed fuel (w.setReg r x) r) := by
  have h1 : GM w (w.setReg r x) := by
    refine ⟨hv, fun y => ?_⟩
    unfold gen
    by_cases hy : y = r
    · subst hy; rw [reg_setReg_same]; exact hx
    · rw [reg_setReg_ne _ hy]; exact Nat.le_refl _
  exact h1.trans (changed_gm fuel (w.setReg r x) r hv)

theorem register_gm (fuel : Nat) {w : World} (hv : w.verifying = true) (r : Nat) (req : List (Option Id)) (prov : Id) (name : String)
    (v : Val) : GM w (register fuel w r req prov name v) := by
  unfold register
  simp only []
  repeat' (first
    | exact GM.refl hv
    | (refine mut_gm hv r _ (Nat.le_of_eq ?_) <;> (repeat' split) <;> rfl)
    | split)

theorem unregister_gm (fuel : Nat) {w : World} (hv : w.verifying = true) (r : Nat) (req : List (Option Id)) (prov : Id) (name : String)
    (v : Option Val) : GM w (unregister fuel w r req prov name v) := by
  unfold unregister
  simp only []
  repeat' (first
    | exact GM.refl hv
    | (refine mut_gm hv r _ (Nat.le_of_eq ?_) <;> (repeat' split) <;> rfl)
    | split)

theorem subscribe_gm (fuel : Nat) {w : World} (hv : w.verifying = true) (r : Nat) (req : List (Option Id)) (prov : Option Id)
    (v : Val) : GM w (subscribe fuel w r req prov v) := by
  unfold subscribe
  simp only []
  repeat' (first
    | exact GM.refl hv
    | (refine mut_gm hv r _ (Nat.le_of_eq ?_) <;> (repeat' split) <;> rfl)
    | split)

theorem unsubscribe_gm (fuel : Nat) {w : World} (hv : w.verifying = true) (r : Nat) (req : List (Option Id)) (prov : Option Id)
    (v : Option Val) : GM w (unsubscribe fuel w r req prov v) := by
  unfold unsubscribe
  simp only []
  repeat' (first
    | exact GM.refl hv
    | (refine mut_gm hv r _ (Nat.le_of_eq ?_) <;> (repeat' split) <;> rfl)
    | split)

/-- `__bases__ = bs` on a world that differs from `w` at most in the record of `r`, whose generation has not decreased -/
theorem setBases_gm_aux (fuel : Nat) {w : World} (w1 : World) (hv : w1.verifying = true) (r : Nat) (bs : List Nat)
    (hother : ∀ y, y ≠ r → w1.reg y = w.reg y) (hgen : gen w r ≤ gen w1 r) : GM w (setBases fuel w1 r bs) := by
  rw [setBases_ver fuel w1 r bs hv]
  have h1 : GM w (rebased fuel w1 r bs) := by
    refine ⟨hv, fun y => ?_⟩
    by_cases hy : y = r
    · subst hy; unfold gen at hgen ⊢; rw [rebased_reg_self]; exact hgen
    · unfold gen; rw [rebased_reg_ne _ _ _ hy, hother y hy]; exact Nat.le_refl _
  exact h1.trans (changed_gm fuel (rebased fuel w1 r bs) r hv)

theorem foldl_gm {α} (f : World → α → World) (hf : ∀ w a, w.verifying = true → GM w (f w a)) :
    ∀ (l : List α) (w0 w : World), GM w0 w → GM w0 (l.foldl f w)
  | [], _, _, h => h
  | a :: l, w0, w, h => foldl_gm f hf l w0 (f w a) (h.trans (hf w a h.1))

theorem rebuild_gm (fuel : Nat) {w : World} (hv : w.verifying = true) (r : Nat) : GM w (rebuild fuel w r) := by
  rw [rebuild_eq]
  refine foldl_gm (fun w (e : List K × K × Val) => subscribe fuel w r e.1 e.2.1 e.2.2) (fun _ a ha => subscribe_gm fuel ha r _ _ _) _ _ _
    (foldl_gm (fun w (e : List K × K × String × Val) => register fuel w r e.1 (e.2.1.getD 0) e.2.2.1 e.2.2.2)
      (fun _ a ha => register_gm fuel ha r _ _ _ _) _ _ _ ?_)
  have e : ∀ x : Reg, x.generation = (w.reg r).generation → GM w (setBases fuel (w.setReg r x) r (w.reg r).bases) := by
    intro x hx
    refine setBases_gm_aux fuel (w.setReg r x) hv r _ (fun y hy => reg_setReg_ne _ hy _) ?_
    unfold gen; rw [reg_setReg_same, hx]; exact Nat.le_refl _
  exact e _ rfl

/-- **generations only grow**: no operation of a well-formed history decreases the `_generation` of any registry (the guard
"a new registry is new" is what makes this true for `newreg`, which installs a record with generation 0) -/
theorem step_gen_mono {fuel : Nat} {w : World} (b : Reach5 fuel w) (op : Op) (hwf : WF fuel w op) :
    ∀ y, gen w y ≤ gen (step fuel w op) y := by
  have hv := b.verifying
  cases op with
  | newreg r bs =>
    refine (setBases_gm_aux fuel (w.setReg r {}) hv r bs (fun y hy => reg_setReg_ne _ hy _) ?_).2
    rw [(b.blank r).mp hwf.1.2.1]; exact Nat.zero_le _
  | setBases r bs => exact (setBases_gm_aux fuel w hv r bs (fun _ _ => rfl) (Nat.le_refl _)).2
  | rebuild r => exact (rebuild_gm fuel hv r).2
  | register r req p n v => exact (register_gm fuel hv r req p n v).2
  | unregister r req p n v => exact (unregister_gm fuel hv r req p n v).2
  | subscribe r req p v => exact (subscribe_gm fuel hv r req p v).2
  | unsubscribe r req p v => exact (unsubscribe_gm fuel hv r req p v).2
  | lookup r req p n => exact fun y => Nat.le_of_eq ((lookup_veq hv r req p n).gen y).symm
  | lookupAll r req p => exact fun y => Nat.le_of_eq ((lookupAll_veq hv r req p).gen y).symm
  | subscriptions r req p => exact fun y => Nat.le_of_eq ((subscriptions_veq hv r req p).gen y).symm

theorem run_gen_mono (fuel : Nat) : ∀ (ops : List Op) (w : World), Reach5 fuel w → WFHist fuel w ops →
    ∀ y, gen w y ≤ gen (run fuel w ops) y
  | [], _, _, _, _ => Nat.le_refl _
  | op :: ops, _, b, hwf, y =>
    Nat.le_trans (step_gen_mono b op hwf.1 y) (run_gen_mono fuel ops _ (step_reach5 b op hwf.1) hwf.2 y)

/-- along a well-formed history, a longer prefix never shows a smaller generation -/
theorem C05_verifying_gen_mono (fuel : Nat) (sro iro : Id → List Id) (ops ops' : List Op)
    (hwf : WFHist fuel (emptyVer sro iro) (ops ++ ops')) (y : Nat) :
    gen (run fuel (emptyVer sro iro) ops) y ≤ gen (run fuel (emptyVer sro iro) (ops ++ ops')) y := by
  have split : ∀ (l l' : List Op) (w : World), WFHist fuel w (l ++ l') →
      WFHist fuel w l ∧ WFHist fuel (run fuel w l) l' ∧ run fuel w (l ++ l') = run fuel (run fuel w l) l' := by
    intro l
    induction l with
    | nil => intro l' w h; exact ⟨trivial, h, rfl⟩
    | cons a l ih =>
      intro l' w h
      obtain ⟨h1, h2, h3⟩ := ih l' (step fuel w a) h.2
      exact ⟨⟨h.1, h1⟩, h2, h3⟩
  obtain ⟨h1, h2, h3⟩ := split ops ops' _ hwf
  rw [h3]
  exact run_gen_mono fuel ops' _ (reach5_run fuel sro iro ops h1) h2 y

/-! ### non-vacuity: a concrete well-formed history, and what happens in it -/
/-- the empty world of the generation-checking flavour over the specification graph "every interface extends interface 0" -/
def wv : World := emptyVer (fun i => [i, 0]) (fun i => [i, 0])

/-- `demo5` (of `C05Reg`): a chain 2 → 1 → 0, a registration in the root registry 0, a lookup through the leaf 2 (fills its
cache and takes a generation snapshot of `[1, 0]`), the middle registry cut off the root (nobody tells the leaf), the same
lookup again (`_verify` sees the new generation of registry 1) -/
theorem demoV_wf : WFHist 8 wv demo5 := by
  refine ⟨⟨⟨rfl, rfl, rfl⟩, ?_⟩, ⟨⟨rfl, rfl, rfl⟩, ?_⟩, ⟨⟨rfl, rfl, rfl⟩, ?_⟩, trivial, trivial, ?_, trivial, trivial⟩
  · exact goodBases_check 8 3 (by decide) (by decide) _ _ (fun s hs => updB_far _ 0 [] 3 (by decide) s hs) (by decide +kernel) (by decide +kernel)
  · exact goodBases_check 8 3 (by decide) (by decide) _ _ (fun s hs => updB_far _ 1 [0] 3 (by decide) s hs) (by decide +kernel) (by decide +kernel)
  · exact goodBases_check 8 3 (by decide) (by decide) _ _ (fun s hs => updB_far _ 2 [1] 3 (by decide) s hs) (by decide +kernel) (by decide +kernel)
  · exact goodBases_check 8 3 (by decide) (by decide) _ _ (fun s hs => updB_far _ 1 [] 3 (by decide) s hs) (by decide +kernel) (by decide +kernel)

theorem demoV_wf6 : WFHist 8 wv (demo5.take 6) :=
  ⟨demoV_wf.1, demoV_wf.2.1, demoV_wf.2.2.1, demoV_wf.2.2.2.1, demoV_wf.2.2.2.2.1, demoV_wf.2.2.2.2.2.1, trivial⟩

/-- the guards hold for the demo history; the theorems then say what the evaluation below shows -/
example : ∀ r ∈ [0, 1, 2], ((verify (run 8 wv (demo5.take 6)) r).reg r).ro = (roFull (regBases (run 8 wv (demo5.take 6))) 8 r).mro :=
  fun r hr => (C06_ro_verifying 8 _ _ (demo5.take 6) demoV_wf6 r (by revert r; decide)).1
example : VInv 8 (existing demo5) (run 8 wv demo5) := C05_verifying_invariant 8 (by decide) _ _ demo5 demoV_wf
example : (lookup (run 8 wv (demo5.take 6)) 2 [5] 6 "").2 = specLookup 8 (run 8 wv (demo5.take 6)) 2 [5] 6 "" :=
  (C05_verifying_spec 8 (by decide) _ _ (demo5.take 6) demoV_wf6 2).1 [5] 6 ""
example : (lookup (run 8 wv demo5) 2 [5] 6 "").2 = (lookup (run 8 wv (eraseLookups demo5)) 2 [5] 6 "").2 :=
  (C05_verifying_erase 8 _ _ demo5 demoV_wf 2).1 [5] 6 ""
example : AList.get? (lookupAll (run 8 wv (demo5.take 6)) 2 [5] 6).2 "" = (lookup (run 8 wv (demo5.take 6)) 2 [5] 6 "").2 :=
  C08_verifying_lookupAll_agrees 8 _ _ (demo5.take 6) demoV_wf6 2 [5] 6 ""

/-- what happens: the first lookup finds the root's registration, caches it in the leaf and snapshots the generations of
`[1, 0]`; the re-basing of the middle registry leaves the leaf completely alone (stale `ro`, stale cache entry — no cascade in
this flavour) but advances the generation of registry 1; the next lookup from the leaf notices, re-derives `ro = [2, 1]`,
drops the cache and answers "nothing", which is what the specification says -/
example : (lookup (run 8 wv (demo5.take 4)) 2 [5] 6 "").2 = some ⟨7, 1⟩ ∧
    ((run 8 wv (demo5.take 5)).reg 2).cache = [((6, "", [5]), some ⟨7, 1⟩)] ∧
    ((run 8 wv (demo5.take 5)).reg 2).verifyRo = [1, 0] ∧ ((run 8 wv (demo5.take 5)).reg 2).verifyGen = [1, 2] ∧
    ((run 8 wv (demo5.take 6)).reg 2).ro = [2, 1, 0] ∧
    ((run 8 wv (demo5.take 6)).reg 2).cache = [((6, "", [5]), some ⟨7, 1⟩)] ∧
    gen (run 8 wv (demo5.take 6)) 1 = 2 := by decide +kernel
example : specLookup 8 (run 8 wv (demo5.take 6)) 2 [5] 6 "" = none ∧
    (lookup (run 8 wv (demo5.take 6)) 2 [5] 6 "").2 = none ∧
    ((run 8 wv demo5).reg 2).ro = [2, 1] ∧ ((run 8 wv demo5).reg 2).cache = [((6, "", [5]), none)] ∧
    ((run 8 wv demo5).reg 2).verifyRo = [1] ∧ ((run 8 wv demo5).reg 2).verifyGen = [2] := by decide +kernel

/-! ### the guards are needed -/
/-- `newreg` on a registry that exists (guard "a new registry is new"): the blank record forgets the registrations AND resets
`_generation`; after one more registration the generation is back at the value the child's snapshot shows, `_verify` sees
nothing and the child serves a stale cache entry -/
def renewVer : List Op := [.newreg 0 [], .newreg 1 [0], .register 0 [some 5] 6 "" ⟨7, 1⟩, .lookup 1 [5] 6 "", .newreg 0 [],
  .register 0 [some 5] 8 "" ⟨9, 1⟩]
example : (lookup (run 8 wv renewVer) 1 [5] 6 "").2 = some ⟨7, 1⟩ ∧
    uncachedLookup (verify (run 8 wv renewVer) 1) 1 [5] 6 "" = none ∧ specLookup 8 (run 8 wv renewVer) 1 [5] 6 "" = none := by
  decide +kernel

/-- `fuel` too small for the depth of the chain (the size bound in `GoodBases` fails at `newreg 3 [2]`): the registry holds the
full order (its `changed` recomputes with `len(regs) + 1`), the right-hand side `roFull … fuel` is truncated -/
def shallowVer : List Op := [.newreg 0 [], .newreg 1 [0], .newreg 2 [1], .newreg 3 [2]]
example : ((verify (run 2 wv shallowVer) 3).reg 3).ro = [3, 2, 1, 0] ∧ specRo 2 (run 2 wv shallowVer) 3 = [3, 2, 1] := by
  decide +kernel

/-- `C05_verifying_spec` without `0 < fuel`: with `fuel = 0` the model's `changed` is the identity, the
registry keeps `ro = []` and answers "nothing" although it carries a registration -/
def blankVer : List Op := [.register 0 [some 5] 6 "" ⟨7, 1⟩]
example : WFHist 0 wv blankVer ∧ (lookup (run 0 wv blankVer) 0 [5] 6 "").2 = none ∧
    specLookup 0 (run 0 wv blankVer) 0 [5] 6 "" = some ⟨7, 1⟩ := ⟨⟨trivial, trivial⟩, by decide +kernel⟩

/-- non-vacuity of the remaining hypotheses: `GoodBases` of a reachable world, a well-formed history split in two -/
example : roFull (regBases (run 8 wv demo5)) ((run 8 wv demo5).regs.length + 1) 2 = roFull (regBases (run 8 wv demo5)) 8 2 :=
  roFull_regs_length _ (C05_verifying_invariant 8 (by decide) _ _ demo5 demoV_wf).good 2
example : gen (run 8 wv (demo5.take 5)) 1 ≤ gen (run 8 wv demo5) 1 :=
  C05_verifying_gen_mono 8 _ _ (demo5.take 5) (demo5.drop 5) demoV_wf 1
example : gen (run 8 wv (demo5.take 5)) 1 = 1 ∧ gen (run 8 wv demo5) 1 = 2 := by decide +kernel

#print axioms roFull_regs_length
#print axioms C05_verifying_invariant
#print axioms C06_ro_verifying
#print axioms C06_ro_verifying_notified
#print axioms C05_verifying_transparent_lookup
#print axioms C05_verifying_transparent_lookupAll
#print axioms C05_verifying_transparent_subscriptions
#print axioms C05_verifying_spec
#print axioms C05_verifying_spec_existing
#print axioms C05_verifying_uncached_spec
#print axioms C05_verifying_erase
#print axioms C08_verifying_lookupAll_agrees
#print axioms C05_verifying_gen_mono
#print axioms step_gen_mono
end ZI.Registry
