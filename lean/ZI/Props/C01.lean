import ZI.Classes
/-! # C01 — providedBy / implementedBy report exactly the declared and inherited interfaces

Model: `ZI.Classes` (`implementedBy` with lazily created class specifications, `_classImplements_ordered`,
`classImplements*`, the `Provides` factory with its shared weak cache, `directlyProvides`, `alsoProvides`,
`noLongerProvides`, `directlyProvidedBy`, `providedBy`).  `fixedProvides = false` is the factory as at the pinned commit,
`true` the repaired one (a cached declaration is shared only if its bases are what a fresh one would get).

Proved here: the kernel-checked witness that the pinned factory violates the statement and the repaired one does not on
the three-step history of the property text.  The invariant theorems (`C01_sandwich`, `C01_exact`, `C01_independent`)
are stated in DESIGN.md section 6 and are *not yet proved*; the check evaluates them with the sandwich oracle. -/
namespace ZI.Classes
open ZI.Graph

/-- `@implementer(IA) class K; k1 = K(); directlyProvides(k1, IA); classImplementsOnly(K, IB); k2 = K();
directlyProvides(k2, IA)` -/
def c01History (fixed : Bool) : W :=
  let w := init fixed
  let w := { w with g := newNode (newNode w.g 1 [0]) 2 [0] }       -- IA = 1, IB = 2
  let w := w.setCls 1 { pyBases := [0] }                            -- class K
  let w := classImplements 64 w 1 [1]
  let w := w.setInst 1 { cls := 1 }
  let w := directlyProvides 64 w 1 [1]
  let w := classImplementsOnly 64 w 1 [2]
  let w := w.setInst 2 { cls := 1 }
  directlyProvides 64 w 2 [1]

/-- does `IA.providedBy(k2)` hold at the end of the history? -/
def c01ProvidesIA (fixed : Bool) : Bool :=
  let w := c01History fixed
  let (w, s) := providedBy 64 w 2
  w.isOrExtends s 1

/-- the factory as at the pinned commit loses a declared, non-redundant interface -/
theorem C01_asis_violates : c01ProvidesIA false = false := by decide +kernel
/-- the repaired factory reports it -/
theorem C01_repaired_witness : c01ProvidesIA true = true := by decide +kernel
end ZI.Classes
