import ZI.AttrsWorld
import ZI.UpdateLemma
import ZI.Props.C15
/-! # C15 — tagged values set AFTER the interface was created (`I.setTaggedValue(tag, value)` on a live interface)

`getTaggedValueTags()` is the union over `__iro__` and `queryTaggedValue` the nearest direct definition along `__iro__`, in every
state — also right after an ancestor that had no tagged values at all received its first one, with no re-basing in between
(seeded change o15a memoised "which interfaces of `__iro__` carry tags" per resolution order and lost exactly this). -/
namespace ZI.AttrsW
open ZI.Upd ZI.Attrs ZI.Graph2

theorem mem_keys_of_get? {m : AList String Nat} {k : String} {v : Nat} (h : get? m k = some v) : k ∈ m.map (·.1) := by
  unfold get? at h
  cases hf : m.find? (fun p => p.1 = k) with
  | none => simp [hf] at h
  | some p =>
    have h1 := List.find?_some hf
    have h2 := List.mem_of_find?_eq_some hf
    simp only [decide_eq_true_eq] at h1
    exact List.mem_map.mpr ⟨p, h2, h1⟩

theorem findSome?_congr' {α β : Type} {f g : α → Option β} : ∀ {l : List α}, (∀ x ∈ l, f x = g x) → l.findSome? f = l.findSome? g
  | [], _ => rfl
  | a :: l, h => by
    simp only [List.findSome?_cons]
    rw [h a (List.mem_cons_self ..)]
    cases g a with
    | some b => rfl
    | none => exact findSome?_congr' (fun x hx => h x (List.mem_cons_of_mem _ hx))

theorem flatMap_congr' {α β : Type} {f g : α → List β} : ∀ {l : List α}, (∀ x ∈ l, f x = g x) → l.flatMap f = l.flatMap g
  | [], _ => rfl
  | a :: l, h => by
    simp only [List.flatMap_cons]
    rw [h a (List.mem_cons_self ..), flatMap_congr' (fun x hx => h x (List.mem_cons_of_mem _ hx))]

theorem setTag_iro (w : W) (j : Id) (t : String) (v : Nat) (i : Id) : (setTag w j t v).iro i = w.iro i := rfl

theorem setTag_tags_self (w : W) (j : Id) (t : String) (v : Nat) : (setTag w j t v).tags j = set (w.tags j) t v := by
  simp [setTag, upd]

theorem setTag_tags_other (w : W) (j : Id) (t : String) (v : Nat) (x : Id) (h : x ≠ j) : (setTag w j t v).tags x = w.tags x := by
  simp [setTag, upd, h]

/-- attribute lookups (and their memo) do not depend on tagged values -/
theorem setTag_get (w : W) (j : Id) (t : String) (v : Nat) (i : Id) (n : String) :
    (get (setTag w j t v) i n).2 = (get w i n).2 := by
  have hm : (setTag w j t v).memo = w.memo := rfl
  have hd : (setTag w j t v).direct = w.direct := rfl
  unfold get
  rw [hm, hd, setTag_iro]
  cases h1 : get? (w.memo i) n with
  | some d => rfl
  | none => cases h2 : getAttr (w.iro i) w.direct n <;> rfl

/-- **C15_settag_listed**: after `I_j.setTaggedValue(t, v)` every interface with `j` in its `__iro__` lists `t` — in every state,
whatever was asked before, with no re-basing needed -/
theorem C15_settag_listed (w : W) (i j : Id) (t : String) (v : Nat) (h : j ∈ w.iro i) :
    t ∈ tagNames (setTag w j t v) i := by
  unfold tagNames
  rw [setTag_iro]
  refine List.mem_flatMap.mpr ⟨j, h, ?_⟩
  rw [setTag_tags_self]
  exact mem_keys_of_get? (v := v) (by rw [get?_set]; simp)

/-- … and resolves it (to `v` itself when `j` is the nearest interface carrying the tag) -/
theorem C15_settag_resolves (w : W) (i j : Id) (t : String) (v : Nat) (h : j ∈ w.iro i) :
    (queryTag (setTag w j t v) i t).isSome := by
  unfold queryTag
  rw [setTag_iro]
  rw [List.findSome?_isSome_iff]
  exact ⟨j, h, by rw [setTag_tags_self, get?_set]; simp⟩

/-- other tags are untouched -/
theorem C15_settag_other (w : W) (i j : Id) (t t' : String) (v : Nat) (h : t ≠ t') :
    queryTag (setTag w j t v) i t' = queryTag w i t' := by
  unfold queryTag
  rw [setTag_iro]
  congr 1
  funext x
  by_cases hx : x = j
  · subst hx; rw [setTag_tags_self, get?_set]; simp [h]
  · rw [setTag_tags_other _ _ _ _ _ hx]

/-- interfaces that do not have `j` in their `__iro__` are untouched -/
theorem C15_settag_unrelated (w : W) (i j : Id) (t t' : String) (v : Nat) (h : j ∉ w.iro i) :
    queryTag (setTag w j t v) i t' = queryTag w i t' ∧ tagNames (setTag w j t v) i = tagNames w i := by
  have hx : ∀ x ∈ w.iro i, (setTag w j t v).tags x = w.tags x := fun x hm =>
    setTag_tags_other _ _ _ _ _ (fun e => h (e ▸ hm))
  constructor
  · unfold queryTag
    rw [setTag_iro]
    exact findSome?_congr' (fun x hm => by rw [hx x hm])
  · unfold tagNames
    rw [setTag_iro]
    exact flatMap_congr' (fun x hm => by rw [hx x hm])

/-- **C15_settag_history**: after ANY well-formed history of interface creations, `__bases__` reassignments, memo-filling lookups
and `setTaggedValue` calls on live interfaces, in any order, one more `I_j.setTaggedValue(t, v)` is seen at once by every interface
that has `j` in its current `__iro__` (listed and resolved), and every attribute lookup still answers the first definition along
the current `__iro__` (the memo is untouched by tagged values) -/
theorem C15_settag_history (ops : List WOp) (hw : WFWHist { g := Graph2.init 0 } ops) (i j : Id) (t : String) (v : Nat)
    (h : j ∈ (ops.foldl wstep { g := Graph2.init 0 }).iro i) :
    let w := (ops ++ [WOp.setTag j t v]).foldl wstep { g := Graph2.init 0 }
    t ∈ tagNames w i ∧ (queryTag w i t).isSome ∧ ∀ n, (get w i n).2 = getAttr (w.iro i) w.direct n := by
  simp only [List.foldl_append, List.foldl_cons, List.foldl_nil, wstep]
  refine ⟨C15_settag_listed _ i j t v h, C15_settag_resolves _ i j t v h, fun n => ?_⟩
  exact C15_get _ (winv_step _ (.setTag j t v) (winv_run ops _ winv_init hw) trivial).memo i n

/-- non-vacuity (kernel): an ancestor with no tags gets its first one; the descendant lists and resolves it -/
example : let w := newIface (newIface { g := ZI.Graph2.init 0 } 1 [0] [] [] []) 2 [1] [] [("p", 1)] []
    1 ∈ w.iro 2 ∧ tagNames w 2 = ["p"] ∧ tagNames (setTag w 1 "q" 5) 2 = ["p", "q"] ∧ queryTag (setTag w 1 "q" 5) 2 "q" = some 5 := by
  decide +kernel

end ZI.AttrsW
