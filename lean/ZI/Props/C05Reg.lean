import ZI.Props.C06
import ZI.Props.C08
import ZI.Valid2
/-! # C05 / C08 on the registry model — the lookup caches of `AdapterRegistry` are transparent (notifying flavour)

Model: `ZI.Registry` (`adapter.py`: `BaseAdapterRegistry`, `AdapterLookupBase`, `LookupBase`, `AdapterRegistry`), the model the
registry-layer correspondence check runs against the real code.  A `World` is a table of registries; each has the
registration trees `_adapters` / `_subscribers`, `_v_lookup._extendors`, `__bases__`, `ro`, `_v_subregistries` and the three
caches of its lookup object (`_cache`, `_mcache`, `_scache`).  Histories (`Op`, `step`, `run`, guards `WF` / `WFHist`) are those
of `ZI/Props/C06.lean`; nothing is added to the guards.

What is proved, for the notifying flavour (`verifying = false`), quantified over ALL histories from the empty world:

* `C05_registry_cacheOk` — after any well-formed history of registry creations, `__bases__` assignments at any level of a
  chain, `rebuild()`, `register` / `unregister` / `subscribe` / `unsubscribe` and earlier `lookup` / `lookupAll` /
  `subscriptions` calls, EVERY entry of EVERY cache of EVERY registry is the answer the uncached walk
  (`_uncached_lookup` & co.) computes on the current state (`CacheOk`).
* `C05_registry_transparent_lookup` / `…_lookupAll` / `…_subscriptions` — hence each entry point returns the uncached answer.
* `C05_registry_erase` — the literal statement of C05: each of the three queries returns, after a history, what it returns
  after the same history with all earlier queries erased (`eraseLookups`).  For this: queries change nothing but caches
  (`lookup_ceq`), every operation respects equality-up-to-caches (`CEq`, `step_ceq`), the guards do too (`wf_ceq`).
* `C08_registry_lookupAll_agrees` — along the whole chain, `lookupAll(required, provided)` binds a name to exactly what
  `lookup(required, provided, name)` returns (and leaves it unbound exactly when `lookup` returns the default); this lifts
  `C08.lookupAllRec_get` from one tree to `ro`, using the history invariant `AllOk` (every leaf of `_adapters` binds a name
  once), which needs no guard at all.

How (invariant `Inv5` carried through `step`): C06's `Inv` (existing registries hold the fresh `ro`; `b ∈ bases s → s ∈
subregs b`), `FreshOrEmpty` (a registry's `ro` is `[]` or fresh — also for registries that were only ever mentioned), `Near`
(every member `b` of `ro y` is an ancestor of `y` at a distance `< fuel`, so the `changed` cascade started at `b` reaches `y`:
`changed_reaches`), and `CacheOk` for all registries.  A mutation of `b` ends in `changed fuel _ b`, which empties the caches of
every `y` with `b ∈ ro y` (`mut_ok`); the other registries keep `ro`, caches and all the data their walk reads
(`uncachedLookup_congr`).  `__bases__ = …` and the cascade into the sub-registries never touch registration data, and whatever
registry gets a new `ro` gets its caches emptied in the same `_setBases` call (`Quiet`, `setBases_quiet`).  `rebuild()` empties
the registry's data, but the `_setBases` it issues next notifies every registry that has it in `ro` (`setBases_same_clears`).

The generation-checking flavour (`verifying = true`) is out of scope here. -/
namespace ZI.Registry
open ZI.RO
local notation "Id" => Nat

/-! ### association lists with lawful keys (the three cache key types) -/
section alist
variable {κ α : Type} [BEq κ] [LawfulBEq κ]

theorem afind_set_same (ps : List (κ × α)) (k : κ) (v : α) (h : ps.any (·.1 == k) = true) :
    ((ps.map (fun p => if p.1 == k then (k, v) else p)).find? (·.1 == k)).map (·.2) = some v := by
  induction ps with
  | nil => simp at h
  | cons p ps ih =>
    cases hpk : (p.1 == k) with
    | true =>
      rw [List.map_cons, hpk, if_pos rfl, List.find?_cons_of_pos (by simp)]; rfl
    | false =>
      have h' : ps.any (·.1 == k) = true := by
        rw [List.any_cons, hpk, Bool.false_or] at h; exact h
      rw [List.map_cons, hpk, if_neg (by simp), List.find?_cons_of_neg (by simp [hpk])]
      exact ih h'

theorem afind_set_ne (ps : List (κ × α)) (k k' : κ) (v : α) (hk : (k == k') = false) :
    ((ps.map (fun p => if p.1 == k then (k, v) else p)).find? (·.1 == k')).map (·.2) = (ps.find? (·.1 == k')).map (·.2) := by
  induction ps with
  | nil => rfl
  | cons p ps ih =>
    cases hpk : (p.1 == k) with
    | true =>
      have e : p.1 = k := by simpa using hpk
      have hq : (p.1 == k') = false := by rw [e]; exact hk
      rw [List.map_cons, hpk, if_pos rfl, List.find?_cons_of_neg (by simp [hk]), List.find?_cons_of_neg (by simp [hq])]
      exact ih
    | false =>
      rw [List.map_cons, hpk, if_neg (by simp)]
      cases hq : (p.1 == k') with
      | true => rw [List.find?_cons_of_pos (by simp [hq]), List.find?_cons_of_pos (by simp [hq])]
      | false => rw [List.find?_cons_of_neg (by simp [hq]), List.find?_cons_of_neg (by simp [hq])]; exact ih

/-- read-after-write, same key -/
theorem aget?_set_same (m : AList κ α) (k : κ) (v : α) : AList.get? (AList.set m k v) k = some v := by
  unfold AList.get? AList.set
  split
  · rename_i h; exact afind_set_same m k v h
  · rename_i h
    have hnone : m.find? (·.1 == k) = none := by
      rw [List.find?_eq_none]; intro x hx
      simp only [List.any_eq_true, not_exists, not_and] at h
      exact h x hx
    simp [List.find?_append, hnone]

/-- read-after-write, other key -/
theorem aget?_set_ne (m : AList κ α) {k k' : κ} (hk : k' ≠ k) (v : α) :
    AList.get? (AList.set m k v) k' = AList.get? m k' := by
  unfold AList.get? AList.set
  have hkk : (k == k') = false := by simpa using fun e => hk e.symm
  split
  · exact afind_set_ne m k k' v hkk
  · have : ¬ k = k' := fun e => hk e.symm
    simp [List.find?_append, this]

omit [LawfulBEq κ] in
theorem aget?_nil (k : κ) : AList.get? ([] : AList κ α) k = none := rfl
end alist

/-! ### the property -/
/-- every entry of the three lookup caches of registry `r` is what the uncached computation returns in the current state -/
structure CacheOk (w : World) (r : Nat) : Prop where
  one  : ∀ prov name req a, AList.get? (w.reg r).cache (prov, name, req) = some a → a = uncachedLookup w r req prov name
  all  : ∀ prov req a, AList.get? (w.reg r).mcache (prov, req) = some a → a = uncachedLookupAll w r req prov
  subs : ∀ prov req a, AList.get? (w.reg r).scache (prov, req) = some a → a = uncachedSubscriptions w r req prov

/-- all three caches of `x` are empty -/
def Cleared (w : World) (x : Nat) : Prop := (w.reg x).cache = [] ∧ (w.reg x).mcache = [] ∧ (w.reg x).scache = []

/-- the three caches of `x` are the same in both worlds -/
def SameCaches (w w' : World) (x : Nat) : Prop :=
  (w'.reg x).cache = (w.reg x).cache ∧ (w'.reg x).mcache = (w.reg x).mcache ∧ (w'.reg x).scache = (w.reg x).scache

theorem cacheOk_of_cleared {w : World} {x : Nat} (h : Cleared w x) : CacheOk w x := by
  obtain ⟨h1, h2, h3⟩ := h
  refine ⟨fun _ _ _ a ha => ?_, fun _ _ a ha => ?_, fun _ _ a ha => ?_⟩
  · rw [h1] at ha; cases ha
  · rw [h2] at ha; cases ha
  · rw [h3] at ha; cases ha

/-! ### the uncached computations read `sro`, the registry's `ro`, and the registration data of the members of `ro` -/
theorem lookupRec_congr {w w' : World} (h : w'.sro = w.sro) : ∀ (n : Nat) (m : Level Names (n+1)) (specs ext : List Id) (name : String),
    lookupRec w' n m specs ext name = lookupRec w n m specs ext name := by
  intro n
  induction n with
  | zero => intro m specs ext name; rfl
  | succ n ih =>
    intro m specs ext name
    cases specs with
    | nil => rfl
    | cons s rest =>
      simp only [lookupRec, h]
      congr 1; funext sp
      split
      · rw [ih]
      · rfl

theorem lookupAllRec_congr {w w' : World} (h : w'.sro = w.sro) : ∀ (n : Nat) (m : Level Names (n+1)) (specs ext : List Id) (acc : Names),
    lookupAllRec w' n m specs ext acc = lookupAllRec w n m specs ext acc := by
  intro n
  induction n with
  | zero => intro m specs ext acc; rfl
  | succ n ih =>
    intro m specs ext acc
    cases specs with
    | nil => rfl
    | cons s rest =>
      simp only [lookupAllRec, h]
      congr 1; funext acc sp
      split
      · rw [ih]
      · rfl

theorem subsRec_congr {w w' : World} (h : w'.sro = w.sro) : ∀ (n : Nat) (m : Level (List Val) (n+1)) (specs : List Id) (ext : List K) (acc : List Val),
    subsRec w' n m specs ext acc = subsRec w n m specs ext acc := by
  intro n
  induction n with
  | zero => intro m specs ext acc; rfl
  | succ n ih =>
    intro m specs ext acc
    cases specs with
    | nil => rfl
    | cons s rest =>
      simp only [subsRec, h]
      congr 1; funext acc sp
      split
      · rw [ih]
      · rfl


theorem findSome?_congr_mem {α β} {f g : α → Option β} : ∀ {l : List α}, (∀ x ∈ l, f x = g x) → l.findSome? f = l.findSome? g
  | [], _ => rfl
  | a :: l, h => by
    rw [List.findSome?_cons, List.findSome?_cons, h a (List.mem_cons_self ..),
      findSome?_congr_mem (l := l) (fun x hx => h x (List.mem_cons_of_mem _ hx))]

theorem foldl_congr_mem {α β} {f g : β → α → β} : ∀ {l : List α}, (∀ acc, ∀ x ∈ l, f acc x = g acc x) → ∀ init, l.foldl f init = l.foldl g init
  | [], _, _ => rfl
  | a :: l, h, init => by
    rw [List.foldl_cons, List.foldl_cons, h init a (List.mem_cons_self ..)]
    exact foldl_congr_mem (l := l) (fun acc x hx => h acc x (List.mem_cons_of_mem _ hx)) _

/-- the registration data of one registry: what `register` / `subscribe` & co. write and the lookups read -/
structure DataAt (w w' : World) (b : Nat) : Prop where
  adapters : (w'.reg b).adapters = (w.reg b).adapters
  subs : (w'.reg b).subs = (w.reg b).subs
  extendors : (w'.reg b).extendors = (w.reg b).extendors

theorem DataAt.refl (w : World) (b : Nat) : DataAt w w b := ⟨rfl, rfl, rfl⟩
theorem DataAt.trans {a b c : World} {x : Nat} (h1 : DataAt a b x) (h2 : DataAt b c x) : DataAt a c x :=
  ⟨h2.adapters.trans h1.adapters, h2.subs.trans h1.subs, h2.extendors.trans h1.extendors⟩
theorem DataAt.of_reg_eq {w w' : World} {b : Nat} (h : w'.reg b = w.reg b) : DataAt w w' b := by
  refine ⟨?_, ?_, ?_⟩ <;> rw [h]

theorem uncachedLookup_congr {w w' : World} {r : Nat} (hs : w'.sro = w.sro) (hro : (w'.reg r).ro = (w.reg r).ro)
    (hd : ∀ b ∈ (w.reg r).ro, DataAt w w' b) (req : List Id) (prov : Id) (name : String) :
    uncachedLookup w' r req prov name = uncachedLookup w r req prov name := by
  unfold uncachedLookup
  rw [hro]
  apply findSome?_congr_mem
  intro b hb
  have d := hd b hb
  simp only [d.adapters, d.extendors, lookupRec_congr hs]

theorem uncachedLookupAll_congr {w w' : World} {r : Nat} (hs : w'.sro = w.sro) (hro : (w'.reg r).ro = (w.reg r).ro)
    (hd : ∀ b ∈ (w.reg r).ro, DataAt w w' b) (req : List Id) (prov : Id) :
    uncachedLookupAll w' r req prov = uncachedLookupAll w r req prov := by
  unfold uncachedLookupAll
  rw [hro]
  apply foldl_congr_mem
  intro acc b hb
  have d := hd b (List.mem_reverse.mp hb)
  simp only [d.adapters, d.extendors, lookupAllRec_congr hs]

theorem uncachedSubscriptions_congr {w w' : World} {r : Nat} (hs : w'.sro = w.sro) (hro : (w'.reg r).ro = (w.reg r).ro)
    (hd : ∀ b ∈ (w.reg r).ro, DataAt w w' b) (req : List Id) (prov : Option Id) :
    uncachedSubscriptions w' r req prov = uncachedSubscriptions w r req prov := by
  unfold uncachedSubscriptions
  rw [hro]
  apply foldl_congr_mem
  intro acc b hb
  have d := hd b (List.mem_reverse.mp hb)
  simp only [d.subs, d.extendors, subsRec_congr hs]

/-- cache entries stay right when the caches, the `ro` and the data of the members of `ro` stay -/
theorem cacheOk_congr {w w' : World} {r : Nat} (hs : w'.sro = w.sro) (hro : (w'.reg r).ro = (w.reg r).ro)
    (hd : ∀ b ∈ (w.reg r).ro, DataAt w w' b) (hc : SameCaches w w' r) (h : CacheOk w r) : CacheOk w' r := by
  obtain ⟨c1, c2, c3⟩ := hc
  refine ⟨fun prov name req a ha => ?_, fun prov req a ha => ?_, fun prov req a ha => ?_⟩
  · rw [uncachedLookup_congr hs hro hd]; rw [c1] at ha; exact h.one _ _ _ _ ha
  · rw [uncachedLookupAll_congr hs hro hd]; rw [c2] at ha; exact h.all _ _ _ ha
  · rw [uncachedSubscriptions_congr hs hro hd]; rw [c3] at ha; exact h.subs _ _ _ ha


/-! ### transformations that leave registration data alone -/
/-- `w'` arises from `w` without touching registration data, and every registry either has its caches cleared or keeps both
its caches and its `ro` -/
structure Quiet (w w' : World) : Prop where
  verifying : w'.verifying = w.verifying
  sro : w'.sro = w.sro
  data : ∀ x, DataAt w w' x
  each : ∀ x, Cleared w' x ∨ ((w'.reg x).ro = (w.reg x).ro ∧ SameCaches w w' x)

theorem Quiet.refl (w : World) : Quiet w w := ⟨rfl, rfl, fun x => DataAt.refl w x, fun _ => Or.inr ⟨rfl, rfl, rfl, rfl⟩⟩

theorem Quiet.trans {a b c : World} (h1 : Quiet a b) (h2 : Quiet b c) : Quiet a c := by
  refine ⟨h2.verifying.trans h1.verifying, h2.sro.trans h1.sro, fun x => (h1.data x).trans (h2.data x), fun x => ?_⟩
  rcases h2.each x with h | ⟨hr, c1, c2, c3⟩
  · exact Or.inl h
  · rcases h1.each x with ⟨d1, d2, d3⟩ | ⟨hr', e1, e2, e3⟩
    · exact Or.inl ⟨c1.trans d1, c2.trans d2, c3.trans d3⟩
    · exact Or.inr ⟨hr.trans hr', c1.trans e1, c2.trans e2, c3.trans e3⟩

theorem Quiet.cleared {w w' : World} (h : Quiet w w') {x : Nat} (hc : Cleared w x) : Cleared w' x := by
  rcases h.each x with h | ⟨_, c1, c2, c3⟩
  · exact h
  · exact ⟨c1.trans hc.1, c2.trans hc.2.1, c3.trans hc.2.2⟩

theorem Quiet.cacheOk {w w' : World} (h : Quiet w w') {x : Nat} (hc : CacheOk w x) : CacheOk w' x := by
  rcases h.each x with hcl | ⟨hr, hsc⟩
  · exact cacheOk_of_cleared hcl
  · exact cacheOk_congr h.sro hr (fun b _ => h.data b) hsc hc

theorem foldl_quiet_v {α} (f : World → α → World) (h : ∀ w a, w.verifying = false → Quiet w (f w a)) :
    ∀ (l : List α) (w : World), w.verifying = false → Quiet w (l.foldl f w)
  | [], w, _ => Quiet.refl w
  | a :: l, w, hv => (h w a hv).trans (foldl_quiet_v f h l (f w a) ((h w a hv).verifying.trans hv))

/-- replacing a registry's record by one with the same registration data whose caches are emptied or which keeps `ro` and caches -/
theorem quiet_setReg (w : World) (r : Nat) (x : Reg) (ha : x.adapters = (w.reg r).adapters) (hs : x.subs = (w.reg r).subs)
    (he : x.extendors = (w.reg r).extendors)
    (hc : (x.cache = [] ∧ x.mcache = [] ∧ x.scache = []) ∨
      (x.ro = (w.reg r).ro ∧ x.cache = (w.reg r).cache ∧ x.mcache = (w.reg r).mcache ∧ x.scache = (w.reg r).scache)) :
    Quiet w (w.setReg r x) := by
  refine ⟨rfl, rfl, fun y => ?_, fun y => ?_⟩
  · by_cases h : y = r
    · subst h; refine ⟨?_, ?_, ?_⟩ <;> rw [reg_setReg_same] <;> assumption
    · exact DataAt.of_reg_eq (reg_setReg_ne _ h _)
  · by_cases h : y = r
    · subst h
      unfold Cleared SameCaches
      rw [reg_setReg_same]; exact hc
    · right; unfold SameCaches; rw [reg_setReg_ne _ h]; exact ⟨rfl, rfl, rfl, rfl⟩

/-- the first half of a change notification (notifying flavour): new generation, own caches dropped -/
def bump (w : World) (r : Nat) : World :=
  (w.setReg r { w.reg r with generation := (w.reg r).generation + 1 }).setReg r
    (clearCaches ((w.setReg r { w.reg r with generation := (w.reg r).generation + 1 }).reg r))

theorem changed_succ (f : Nat) (w : World) (r : Nat) (hv : w.verifying = false) :
    changed (f+1) w r = ((bump w r).reg r).subregs.foldl (fun w s => changed f w s) (bump w r) := by
  show (if (w.setReg r { w.reg r with generation := (w.reg r).generation + 1 }).verifying then _ else _) = _
  rw [verifying_setReg, hv]; rfl

theorem bump_reg_self (w : World) (r : Nat) :
    (bump w r).reg r = clearCaches { w.reg r with generation := (w.reg r).generation + 1 } := by
  unfold bump; rw [reg_setReg_same, reg_setReg_same]
theorem bump_reg_ne (w : World) {r y : Nat} (h : y ≠ r) : (bump w r).reg y = w.reg y := by
  unfold bump; rw [reg_setReg_ne _ h, reg_setReg_ne _ h]

theorem bump_sameStr (w : World) (r : Nat) : SameStr w (bump w r) := by
  refine ⟨rfl, fun y => ?_, fun y => ?_, fun y => ?_⟩ <;>
  · by_cases h : y = r
    · subst h; rw [bump_reg_self]; rfl
    · rw [bump_reg_ne _ h]

theorem bump_quiet (w : World) (r : Nat) : Quiet w (bump w r) := by
  refine ⟨rfl, rfl, fun y => ?_, fun y => ?_⟩
  · by_cases h : y = r
    · subst h; refine ⟨?_, ?_, ?_⟩ <;> rw [bump_reg_self] <;> rfl
    · exact DataAt.of_reg_eq (bump_reg_ne _ h)
  · by_cases h : y = r
    · subst h; left; unfold Cleared; rw [bump_reg_self]; exact ⟨rfl, rfl, rfl⟩
    · right; unfold SameCaches; rw [bump_reg_ne _ h]; exact ⟨rfl, rfl, rfl, rfl⟩

theorem bump_cleared (w : World) (r : Nat) : Cleared (bump w r) r := by
  unfold Cleared; rw [bump_reg_self]; exact ⟨rfl, rfl, rfl⟩

theorem changed_quiet : ∀ (f : Nat) (w : World) (r : Nat), w.verifying = false → Quiet w (changed f w r)
  | 0, w, _, _ => Quiet.refl w
  | f+1, w, r, hv => by
    rw [changed_succ f w r hv]
    exact (bump_quiet w r).trans (foldl_quiet_v _ (fun w s hv => changed_quiet f w s hv) _ _ ((bump_sameStr w r).verifying.trans hv))

/-- chains through a children table: `Chain S n r x` = `x` is an `n`-th generation child of `r` -/
inductive Chain (S : Nat → List Nat) : Nat → Nat → Nat → Prop
  | zero (r) : Chain S 0 r r
  | succ {n r s x} : s ∈ S r → Chain S n s x → Chain S (n+1) r x

theorem chain_of_desc {B : Bases} {S : Nat → List Nat} (hcons : ∀ s b, b ∈ B s → s ∈ S b) {n r x : Nat} (h : Desc B n r x) :
    Chain S n r x := by
  induction h with
  | zero r => exact Chain.zero r
  | succ hrs _ ih => exact Chain.succ (hcons _ _ hrs) ih

/-- a fold of change notifications keeps cleared registries cleared and clears what one of its elements clears -/
theorem fold_changed_reaches (S : Nat → List Nat) (f : Nat) (x s : Nat)
    (hit : ∀ w, w.verifying = false → (∀ y, (w.reg y).subregs = S y) → Cleared (changed f w s) x) :
    ∀ (l : List Nat) (w : World), s ∈ l → w.verifying = false → (∀ y, (w.reg y).subregs = S y) →
      Cleared (l.foldl (fun w s => changed f w s) w) x := by
  intro l
  induction l with
  | nil => intro w hs; cases hs
  | cons a l ih =>
    intro w hs hv hS
    rw [List.foldl_cons]
    have ss := changed_sameStr f w a hv
    have hv' : (changed f w a).verifying = false := ss.verifying.trans hv
    rcases List.mem_cons.mp hs with e | hs'
    · subst e
      exact (foldl_quiet_v _ (fun w s hv => changed_quiet f w s hv) l _ hv').cleared (hit w hv hS)
    · exact ih _ hs' hv' (fun y => (ss.subregs y).trans (hS y))

/-- `changed` reaches every registry within `f` sub-registry links -/
theorem changed_reaches (S : Nat → List Nat) : ∀ (f : Nat) (w : World) (r x n : Nat), w.verifying = false →
    (∀ y, (w.reg y).subregs = S y) → n < f → Chain S n r x → Cleared (changed f w r) x := by
  intro f
  induction f with
  | zero => intro w r x n _ _ hn; omega
  | succ f ih =>
    intro w r x n hv hS hn hc
    rw [changed_succ f w r hv]
    have sb := bump_sameStr w r
    have hvb : (bump w r).verifying = false := sb.verifying.trans hv
    have hSb : ∀ y, ((bump w r).reg y).subregs = S y := fun y => (sb.subregs y).trans (hS y)
    cases hc with
    | zero =>
      exact (foldl_quiet_v _ (fun w s hv => changed_quiet f w s hv) _ _ hvb).cleared (bump_cleared w r)
    | @succ n' _ s _ hs hc' =>
      refine fold_changed_reaches S f x s (fun w' hv' hS' => ih w' s x n' hv' hS' (by omega) hc') _ _ ?_ hvb hSb
      rw [hSb r]; exact hs


/-! ### the invariant carried through histories -/
/-- every member of a registry's `ro` is an ancestor within reach of the change cascade -/
def Near (fuel : Nat) (w : World) : Prop := ∀ y b, b ∈ (w.reg y).ro → ∃ n, n < fuel ∧ Desc (regBases w) n b y

/-- a registry's `ro` is empty (never given bases) or the one `ro.ro` computes from the current base graph -/
def FreshOrEmpty (fuel : Nat) (w : World) : Prop := ∀ y, (w.reg y).ro = [] ∨ FreshAt (regBases w) fuel w y

structure Inv5 (fuel : Nat) (dom : List Nat) (w : World) : Prop where
  inv : Inv fuel dom w
  near : Near fuel w
  foe : FreshOrEmpty fuel w
  ok : ∀ r, CacheOk w r

theorem near_of_sameStr {fuel : Nat} {w w' : World} (h : Near fuel w) (s : SameStr w w') : Near fuel w' := by
  intro y b hb
  rw [s.ro y] at hb
  rw [regBases_of_sameStr s]
  exact h y b hb

theorem foe_of_sameStr {fuel : Nat} {w w' : World} (h : FreshOrEmpty fuel w) (s : SameStr w w') : FreshOrEmpty fuel w' := by
  intro y
  unfold FreshAt
  rw [s.ro y, regBases_of_sameStr s]
  exact h y

/-- the tail of every mutator: store the new registration data of `r`, then notify -/
theorem mut_ok {fuel : Nat} {dom : List Nat} {w : World} (h : Inv fuel dom w) (hn : Near fuel w) (hok : ∀ r, CacheOk w r)
    (r : Nat) (x : Reg) (hb : x.bases = (w.reg r).bases) (hr : x.ro = (w.reg r).ro) (hs : x.subregs = (w.reg r).subregs)
    (hc1 : x.cache = (w.reg r).cache) (hc2 : x.mcache = (w.reg r).mcache) (hc3 : x.scache = (w.reg r).scache) :
    ∀ y, CacheOk (changed fuel (w.setReg r x) r) y := by
  intro y
  have hv1 : (w.setReg r x).verifying = false := h.verifying
  have s1 : SameStr w (w.setReg r x) := sameStr_setReg w r x hb hr hs
  have q := changed_quiet fuel (w.setReg r x) r hv1
  by_cases hm : r ∈ (w.reg y).ro
  · obtain ⟨n, hnf, hd⟩ := hn y r hm
    have hc : Chain (fun b => (w.reg b).subregs) n r y := chain_of_desc (fun s b hb => h.cons s b hb) hd
    exact cacheOk_of_cleared (changed_reaches _ fuel _ r y n hv1 (fun y => s1.subregs y) hnf hc)
  · rcases q.each y with hcl | ⟨hro, hsc⟩
    · exact cacheOk_of_cleared hcl
    · refine cacheOk_congr (w := w) q.sro (hro.trans (s1.ro y)) (fun b hb => ?_) ?_ (hok y)
      · have hbr : b ≠ r := fun e => hm (e ▸ hb)
        exact (DataAt.of_reg_eq (reg_setReg_ne w hbr x)).trans (q.data b)
      · obtain ⟨e1, e2, e3⟩ := hsc
        by_cases hy : y = r
        · subst hy
          rw [reg_setReg_same] at e1 e2 e3
          exact ⟨e1.trans hc1, e2.trans hc2, e3.trans hc3⟩
        · rw [reg_setReg_ne _ hy] at e1 e2 e3
          exact ⟨e1, e2, e3⟩

theorem register_ok {fuel : Nat} {dom : List Nat} {w : World} (h : Inv fuel dom w) (hn : Near fuel w) (hok : ∀ r, CacheOk w r)
    (r : Nat) (req : List (Option Id)) (prov : Id) (name : String) (v : Val) :
    ∀ y, CacheOk (register fuel w r req prov name v) y := by
  unfold register
  simp only []
  repeat' (first
    | exact hok
    | (refine mut_ok h hn hok r _ ?_ ?_ ?_ ?_ ?_ ?_ <;> (repeat' split) <;> rfl)
    | split)


theorem unregister_ok {fuel : Nat} {dom : List Nat} {w : World} (h : Inv fuel dom w) (hn : Near fuel w) (hok : ∀ r, CacheOk w r)
    (r : Nat) (req : List (Option Id)) (prov : Id) (name : String) (v : Option Val) :
    ∀ y, CacheOk (unregister fuel w r req prov name v) y := by
  unfold unregister
  simp only []
  repeat' (first
    | exact hok
    | (refine mut_ok h hn hok r _ ?_ ?_ ?_ ?_ ?_ ?_ <;> (repeat' split) <;> rfl)
    | split)

theorem subscribe_ok {fuel : Nat} {dom : List Nat} {w : World} (h : Inv fuel dom w) (hn : Near fuel w) (hok : ∀ r, CacheOk w r)
    (r : Nat) (req : List (Option Id)) (prov : Option Id) (v : Val) :
    ∀ y, CacheOk (subscribe fuel w r req prov v) y := by
  unfold subscribe
  simp only []
  repeat' (first
    | exact hok
    | (refine mut_ok h hn hok r _ ?_ ?_ ?_ ?_ ?_ ?_ <;> (repeat' split) <;> rfl)
    | split)

theorem unsubscribe_ok {fuel : Nat} {dom : List Nat} {w : World} (h : Inv fuel dom w) (hn : Near fuel w) (hok : ∀ r, CacheOk w r)
    (r : Nat) (req : List (Option Id)) (prov : Option Id) (v : Option Val) :
    ∀ y, CacheOk (unsubscribe fuel w r req prov v) y := by
  unfold unsubscribe
  simp only []
  repeat' (first
    | exact hok
    | (refine mut_ok h hn hok r _ ?_ ?_ ?_ ?_ ?_ ?_ <;> (repeat' split) <;> rfl)
    | split)

theorem inv5_of_sameStr {fuel : Nat} {dom : List Nat} {w w' : World} (h : Inv5 fuel dom w) (s : SameStr w w')
    (hok : ∀ r, CacheOk w' r) : Inv5 fuel dom w' :=
  ⟨inv_of_sameStr h.inv s, near_of_sameStr h.near s, foe_of_sameStr h.foe s, hok⟩

theorem register_inv5 {fuel : Nat} {dom : List Nat} {w : World} (h : Inv5 fuel dom w)
    (r : Nat) (req : List (Option Id)) (prov : Id) (name : String) (v : Val) : Inv5 fuel dom (register fuel w r req prov name v) :=
  inv5_of_sameStr h (register_sameStr fuel w h.inv.verifying r req prov name v) (register_ok h.inv h.near h.ok r req prov name v)
theorem unregister_inv5 {fuel : Nat} {dom : List Nat} {w : World} (h : Inv5 fuel dom w)
    (r : Nat) (req : List (Option Id)) (prov : Id) (name : String) (v : Option Val) : Inv5 fuel dom (unregister fuel w r req prov name v) :=
  inv5_of_sameStr h (unregister_sameStr fuel w h.inv.verifying r req prov name v) (unregister_ok h.inv h.near h.ok r req prov name v)
theorem subscribe_inv5 {fuel : Nat} {dom : List Nat} {w : World} (h : Inv5 fuel dom w)
    (r : Nat) (req : List (Option Id)) (prov : Option Id) (v : Val) : Inv5 fuel dom (subscribe fuel w r req prov v) :=
  inv5_of_sameStr h (subscribe_sameStr fuel w h.inv.verifying r req prov v) (subscribe_ok h.inv h.near h.ok r req prov v)
theorem unsubscribe_inv5 {fuel : Nat} {dom : List Nat} {w : World} (h : Inv5 fuel dom w)
    (r : Nat) (req : List (Option Id)) (prov : Option Id) (v : Option Val) : Inv5 fuel dom (unsubscribe fuel w r req prov v) :=
  inv5_of_sameStr h (unsubscribe_sameStr fuel w h.inv.verifying r req prov v) (unsubscribe_ok h.inv h.near h.ok r req prov v)

/-! ### lookups add correct entries only -/
/-- a record of `r` that differs from the current one in caches only, each cache being the old one or the old one plus a right entry -/
theorem cache_fill_ok {w : World} (hok : ∀ r, CacheOk w r) (r : Nat) (x : Reg)
    (ha : x.adapters = (w.reg r).adapters) (hs : x.subs = (w.reg r).subs) (he : x.extendors = (w.reg r).extendors)
    (hr : x.ro = (w.reg r).ro)
    (h1 : ∀ prov name req a, AList.get? x.cache (prov, name, req) = some a → a = uncachedLookup w r req prov name)
    (h2 : ∀ prov req a, AList.get? x.mcache (prov, req) = some a → a = uncachedLookupAll w r req prov)
    (h3 : ∀ prov req a, AList.get? x.scache (prov, req) = some a → a = uncachedSubscriptions w r req prov) :
    ∀ y, CacheOk (w.setReg r x) y := by
  intro y
  have hd : ∀ b, DataAt w (w.setReg r x) b := by
    intro b
    by_cases hb : b = r
    · subst hb; refine ⟨?_, ?_, ?_⟩ <;> rw [reg_setReg_same] <;> assumption
    · exact DataAt.of_reg_eq (reg_setReg_ne _ hb _)
  by_cases hy : y = r
  · subst hy
    have hro : ((w.setReg y x).reg y).ro = (w.reg y).ro := by rw [reg_setReg_same]; exact hr
    refine ⟨fun prov name req a ha' => ?_, fun prov req a ha' => ?_, fun prov req a ha' => ?_⟩
    · rw [uncachedLookup_congr (w := w) (w' := w.setReg y x) rfl hro (fun b _ => hd b)]; rw [reg_setReg_same] at ha'; exact h1 _ _ _ _ ha'
    · rw [uncachedLookupAll_congr (w := w) (w' := w.setReg y x) rfl hro (fun b _ => hd b)]; rw [reg_setReg_same] at ha'; exact h2 _ _ _ ha'
    · rw [uncachedSubscriptions_congr (w := w) (w' := w.setReg y x) rfl hro (fun b _ => hd b)]; rw [reg_setReg_same] at ha'; exact h3 _ _ _ ha'
  · have e : (w.setReg r x).reg y = w.reg y := reg_setReg_ne _ hy _
    refine cacheOk_congr (w := w) rfl (by rw [e]) (fun b _ => hd b) ?_ (hok y)
    unfold SameCaches; rw [e]; exact ⟨rfl, rfl, rfl⟩

theorem lookup_ok {w : World} (hv : w.verifying = false) (hok : ∀ r, CacheOk w r) (r : Nat) (req : List Id) (prov : Id) (name : String) :
    ∀ y, CacheOk (lookup w r req prov name).1 y := by
  unfold lookup; rw [verify_push w hv]; simp only []
  split
  · exact hok
  · refine cache_fill_ok hok r _ rfl rfl rfl rfl (fun prov' name' req' a ha => ?_) (hok r).all (hok r).subs
    by_cases hk : (prov', name', req') = (prov, name, req)
    · cases hk
      simp only [aget?_set_same] at ha
      cases ha; rfl
    · simp only [aget?_set_ne _ hk] at ha
      exact (hok r).one _ _ _ _ ha

theorem lookupAll_ok {w : World} (hv : w.verifying = false) (hok : ∀ r, CacheOk w r) (r : Nat) (req : List Id) (prov : Id) :
    ∀ y, CacheOk (lookupAll w r req prov).1 y := by
  unfold lookupAll; rw [verify_push w hv]; simp only []
  split
  · exact hok
  · refine cache_fill_ok hok r _ rfl rfl rfl rfl (hok r).one (fun prov' req' a ha => ?_) (hok r).subs
    by_cases hk : (prov', req') = (prov, req)
    · cases hk
      simp only [aget?_set_same] at ha
      cases ha; rfl
    · simp only [aget?_set_ne _ hk] at ha
      exact (hok r).all _ _ _ ha

theorem subscriptions_ok {w : World} (hv : w.verifying = false) (hok : ∀ r, CacheOk w r) (r : Nat) (req : List Id) (prov : Option Id) :
    ∀ y, CacheOk (subscriptions w r req prov).1 y := by
  unfold subscriptions; rw [verify_push w hv]; simp only []
  split
  · exact hok
  · refine cache_fill_ok hok r _ rfl rfl rfl rfl (hok r).one (hok r).all (fun prov' req' a ha => ?_)
    by_cases hk : (prov', req') = (prov, req)
    · cases hk
      simp only [aget?_set_same] at ha
      cases ha; rfl
    · simp only [aget?_set_ne _ hk] at ha
      exact (hok r).subs _ _ _ ha


/-! ### `__bases__` assignment: whatever gets a new `ro` gets its caches dropped -/
theorem foldl_quiet {α} (f : World → α → World) (h : ∀ w a, Quiet w (f w a)) : ∀ (l : List α) (w : World), Quiet w (l.foldl f w)
  | [], w => Quiet.refl w
  | a :: l, w => (h w a).trans (foldl_quiet f h l (f w a))

theorem stepSub_quiet (c : Nat → Bool) (g : List Nat → List Nat) (w : World) (b : Nat) : Quiet w (stepSub c g w b) := by
  unfold stepSub
  split
  · exact Quiet.refl w
  · exact quiet_setReg w b _ rfl rfl rfl (Or.inr ⟨rfl, rfl, rfl, rfl⟩)

theorem moveSubreg_quiet (w : World) (r : Nat) (old bs : List Nat) : Quiet w (moveSubreg w r old bs) := by
  have e : moveSubreg w r old bs =
      bs.foldl (stepSub (fun b => old.contains b) (fun L => L.filter (· != r) ++ [r]))
        (old.foldl (stepSub (fun b => bs.contains b) (fun L => L.filter (· != r))) w) := rfl
  rw [e]
  exact (foldl_quiet _ (stepSub_quiet _ _) old w).trans (foldl_quiet _ (stepSub_quiet _ _) bs _)

/-- the world `_setBases` hands to `changed`: new bases, new `ro`, everything else (caches included) as before -/
def rebased (fuel : Nat) (w : World) (r : Nat) (bs : List Nat) : World :=
  (w.setReg r { w.reg r with bases := bs }).setReg r
    { (w.setReg r { w.reg r with bases := bs }).reg r with
      ro := (roFull (regBases (w.setReg r { w.reg r with bases := bs })) fuel r).mro }

theorem setBasesOwn_eq (fuel : Nat) (w : World) (r : Nat) (bs : List Nat) :
    setBasesOwn fuel w r bs = changed fuel (rebased fuel w r bs) r := rfl

theorem rebased_reg_ne (fuel : Nat) (w : World) {r y : Nat} (bs : List Nat) (h : y ≠ r) : (rebased fuel w r bs).reg y = w.reg y := by
  unfold rebased; rw [reg_setReg_ne _ h, reg_setReg_ne _ h]

theorem rebased_reg_self (fuel : Nat) (w : World) (r : Nat) (bs : List Nat) :
    (rebased fuel w r bs).reg r = { w.reg r with bases := bs, ro := (roFull (regBases (w.setReg r { w.reg r with bases := bs })) fuel r).mro } := by
  unfold rebased; rw [reg_setReg_same, reg_setReg_same]

theorem rebased_subregs (fuel : Nat) (w : World) (r : Nat) (bs : List Nat) (y : Nat) :
    ((rebased fuel w r bs).reg y).subregs = (w.reg y).subregs := by
  by_cases h : y = r
  · subst h; rw [rebased_reg_self]
  · rw [rebased_reg_ne _ _ _ h]

theorem rebased_data (fuel : Nat) (w : World) (r : Nat) (bs : List Nat) (y : Nat) : DataAt w (rebased fuel w r bs) y := by
  by_cases h : y = r
  · subst h; refine ⟨?_, ?_, ?_⟩ <;> rw [rebased_reg_self]
  · exact DataAt.of_reg_eq (rebased_reg_ne _ _ _ h)

theorem setBasesOwn_quiet (f : Nat) (w : World) (r : Nat) (bs : List Nat) (hv : w.verifying = false) :
    Quiet w (setBasesOwn (f+1) w r bs) := by
  rw [setBasesOwn_eq]
  have hv2 : (rebased (f+1) w r bs).verifying = false := hv
  have q := changed_quiet (f+1) _ r hv2
  refine ⟨q.verifying, q.sro, fun y => (rebased_data (f+1) w r bs y).trans (q.data y), fun y => ?_⟩
  by_cases h : y = r
  · subst h
    exact Or.inl (changed_reaches (fun b => ((rebased (f+1) w y bs).reg b).subregs) (f+1) _ y y 0 hv2 (fun _ => rfl)
      (Nat.succ_pos f) (Chain.zero y))
  · rcases q.each y with hc | ⟨hr, c1, c2, c3⟩
    · exact Or.inl hc
    · rw [rebased_reg_ne _ _ _ h] at hr c1 c2 c3
      exact Or.inr ⟨hr, c1, c2, c3⟩

theorem setBasesPush_quiet (fuel : Nat) : ∀ (f : Nat) (w : World) (r : Nat) (bs : List Nat), w.verifying = false →
    Quiet w (setBasesPush (fuel+1) f w r bs)
  | 0, w, _, _, _ => Quiet.refl w
  | f+1, w, r, bs, hv => by
    rw [setBasesPush_succ']
    have q1 := moveSubreg_quiet w r (w.reg r).bases bs
    have q2 := setBasesOwn_quiet fuel _ r bs (q1.verifying.trans hv)
    have q12 := q1.trans q2
    exact q12.trans (foldl_quiet_v _ (fun w s hv => setBasesPush_quiet fuel f w s _ hv) _ _ (q12.verifying.trans hv))

theorem setBases_quiet (fuel : Nat) (w : World) (r : Nat) (bs : List Nat) (hv : w.verifying = false) :
    Quiet w (setBases (fuel+1) w r bs) := by
  unfold setBases; rw [hv]
  exact setBasesPush_quiet fuel (fuel+1) w r bs hv


/-- after `__bases__ = bs` every registry has the `ro` it had or the fresh one -/
theorem setBases_mono (fuel : Nat) (w : World) (hv : w.verifying = false) (r : Nat) (bs : List Nat) :
    ∀ y, ((setBases fuel w r bs).reg y).ro = (w.reg y).ro ∨ FreshAt (updB (regBases w) r bs) fuel (setBases fuel w r bs) y := by
  have e : setBases fuel w r bs = setBasesPush fuel fuel w r bs := by unfold setBases; rw [hv]; rfl
  rw [e]
  cases fuel with
  | zero => intro y; exact Or.inl rfl
  | succ f =>
    rw [setBasesPush_succ']
    have ms := moveSubreg_spec w r (w.reg r).bases bs
    generalize moveSubreg w r (w.reg r).bases bs = w1 at ms
    have hb1 : regBases w1 = regBases w := by funext x; exact ms.bases x
    have os := setBasesOwn_spec (f+1) w1 r bs (ms.verifying.trans hv)
    have ob := os.bases
    have ofr := os.ro_self
    have oro := os.ro_other
    have ov := os.verifying
    rw [hb1] at ob ofr
    clear os
    generalize setBasesOwn (f+1) w1 r bs = w2 at ob ofr oro ov ⊢
    have p2 : PInv (updB (regBases w) r bs) (fun x => (w2.reg x).subregs) w2 := ⟨ov, ob, fun _ => rfl⟩
    obtain ⟨_, mf⟩ := fold_keeps (f+1) f (push_keeps (f+1) f) ((w2.reg r).subregs) w2 p2
    intro y
    rcases mf y with hf | hf
    · exact Or.inr hf
    · by_cases hy : y = r
      · subst hy; right; unfold FreshAt; rw [hf]; exact ofr
      · left; rw [hf, oro y hy, ms.ro y]

theorem near_of_foe {fuel : Nat} {w : World} (hg : GoodBases fuel (regBases w)) (hf : FreshOrEmpty fuel w) : Near fuel w := by
  obtain ⟨rank, ha, hrk⟩ := hg
  intro y b hb
  rcases hf y with h0 | hfr
  · rw [h0] at hb; cases hb
  · rw [hfr] at hb
    have hreach : Reach (regBases w) y b := ((roFull_valid ha fuel y (hrk y)).mem b).mp hb
    obtain ⟨n, hd⟩ := desc_of_reach hreach
    have := desc_rank ha hd
    have := hrk y
    exact ⟨n, by omega, hd⟩

/-- the structural part of the invariant across `__bases__ = bs` -/
theorem setBases_str (fuel : Nat) (dom : List Nat) (w : World) (h : Inv fuel dom w) (hf : FreshOrEmpty fuel w) (r : Nat) (bs : List Nat)
    (hg : GoodBases fuel (updB (regBases w) r bs)) :
    Inv fuel (r :: dom) (setBases fuel w r bs) ∧ Near fuel (setBases fuel w r bs) ∧ FreshOrEmpty fuel (setBases fuel w r bs) ∧
      regBases (setBases fuel w r bs) = updB (regBases w) r bs := by
  obtain ⟨i', hb'⟩ := setBases_inv fuel dom w h r bs hg
  have foe' : FreshOrEmpty fuel (setBases fuel w r bs) := by
    intro y
    rw [hb']
    rcases setBases_mono fuel w h.verifying r bs y with hm | hm
    · rcases hf y with h0 | hfr
      · left; rw [hm, h0]
      · right
        have iy : Inv fuel [y] w := ⟨h.verifying, fun x hx => by rw [List.mem_singleton.mp hx]; exact hfr, h.cons⟩
        have := (setBases_inv fuel [y] w iy r bs hg).1.fresh y (by simp)
        rw [hb'] at this; exact this
    · exact Or.inr hm
  exact ⟨i', near_of_foe (by rw [hb']; exact hg) foe', foe', hb'⟩

theorem setBases_inv5 {fuel : Nat} {dom : List Nat} {w : World} (h : Inv5 fuel dom w) (r : Nat) (bs : List Nat)
    (hg : GoodBases fuel (updB (regBases w) r bs)) : Inv5 fuel (r :: dom) (setBases fuel w r bs) := by
  obtain ⟨i', n', f', _⟩ := setBases_str fuel dom w h.inv h.foe r bs hg
  refine ⟨i', n', f', fun y => ?_⟩
  obtain ⟨rank, _, hrk⟩ := hg
  obtain ⟨f, rfl⟩ : ∃ f, fuel = f + 1 := ⟨fuel - 1, by have := hrk r; omega⟩
  exact (setBases_quiet f w r bs h.inv.verifying).cacheOk (h.ok y)


/-! ### creation of a registry -/
/-- a registry without sub-registries is in nobody else's `ro` -/
theorem not_mem_ro_of_childless {fuel : Nat} {dom : List Nat} {w : World} (h : Inv fuel dom w) (hn : Near fuel w) {r : Nat}
    (hsub : (w.reg r).subregs = []) : ∀ y, y ≠ r → r ∉ (w.reg y).ro := by
  intro y hy hm
  obtain ⟨n, _, hd⟩ := hn y r hm
  cases hd with
  | zero => exact hy rfl
  | @succ _ _ s _ hrs _ =>
    have := h.cons s r hrs
    rw [hsub] at this; cases this

theorem newreg_inv5 {fuel : Nat} {dom : List Nat} {w : World} (h : Inv5 fuel dom w) (r : Nat) (bs : List Nat)
    (hwf : WF fuel w (.newreg r bs)) : Inv5 fuel (r :: dom) (setBases fuel (w.setReg r {}) r bs) := by
  obtain ⟨⟨f1, f2, f3⟩, hg⟩ := hwf
  have s1 : SameStr w (w.setReg r {}) := sameStr_setReg w r {} f1.symm f2.symm f3.symm
  have hg' : GoodBases fuel (updB (regBases (w.setReg r {})) r bs) := by rw [regBases_of_sameStr s1]; exact hg
  refine setBases_inv5 (inv5_of_sameStr h s1 (fun y => ?_)) r bs hg'
  by_cases hy : y = r
  · subst hy
    apply cacheOk_of_cleared
    unfold Cleared; rw [reg_setReg_same]; exact ⟨rfl, rfl, rfl⟩
  · have e : (w.setReg r {}).reg y = w.reg y := reg_setReg_ne _ hy _
    have hnot := not_mem_ro_of_childless h.inv h.near f3 y hy
    refine cacheOk_congr (w := w) rfl (by rw [e]) (fun b hb => ?_) ?_ (h.ok y)
    · have hbr : b ≠ r := fun e => hnot (e ▸ hb)
      exact DataAt.of_reg_eq (reg_setReg_ne _ hbr _)
    · unfold SameCaches; rw [e]; exact ⟨rfl, rfl, rfl⟩

/-! ### `rebuild()` -/
/-- re-assigning a registry the bases it has notifies every registry within reach -/
theorem setBases_same_clears (fuel : Nat) (w : World) (hv : w.verifying = false) (r : Nat) (S : Nat → List Nat)
    (hS : ∀ y, (w.reg y).subregs = S y) (n y : Nat) (hn : n < fuel) (hc : Chain S n r y) :
    Cleared (setBases fuel w r (w.reg r).bases) y := by
  obtain ⟨f, rfl⟩ : ∃ f, fuel = f + 1 := ⟨fuel - 1, by omega⟩
  have e : setBases (f+1) w r (w.reg r).bases = setBasesPush (f+1) (f+1) w r (w.reg r).bases := by
    unfold setBases; rw [hv]; rfl
  rw [e, setBasesPush_succ']
  have hm := moveSubreg_self w r (w.reg r).bases
  have hv1 := (moveSubreg_spec w r (w.reg r).bases (w.reg r).bases).verifying.trans hv
  generalize moveSubreg w r (w.reg r).bases (w.reg r).bases = w1 at hm hv1
  rw [setBasesOwn_eq]
  have hv2 : (rebased (f+1) w1 r (w.reg r).bases).verifying = false := hv1
  have hcl : Cleared (changed (f+1) (rebased (f+1) w1 r (w.reg r).bases) r) y :=
    changed_reaches S (f+1) _ r y n hv2 (fun y => by rw [rebased_subregs, hm]; exact hS y) hn hc
  have hv3 := (changed_sameStr (f+1) _ r hv2).verifying.trans hv2
  exact (foldl_quiet_v _ (fun w s hv => setBasesPush_quiet f f w s _ hv) _ _ hv3).cleared hcl

theorem foldl_inv5 {α} {fuel : Nat} {dom : List Nat} (f : World → α → World)
    (hstep : ∀ w a, Inv5 fuel dom w → Inv5 fuel dom (f w a)) : ∀ (l : List α) (w : World), Inv5 fuel dom w → Inv5 fuel dom (l.foldl f w)
  | [], _, h => h
  | a :: l, w, h => foldl_inv5 f hstep l (f w a) (hstep w a h)

theorem rebuild_aux5 {fuel : Nat} {dom : List Nat} {w : World} (h : Inv5 fuel dom w) (r : Nat)
    (hg : GoodBases fuel (regBases w)) (w1 : World) (s1 : SameStr w w1) (hsro : w1.sro = w.sro)
    (hother : ∀ b, b ≠ r → w1.reg b = w.reg b) (hclr : Cleared w1 r)
    (regs : List (List K × K × String × Val)) (subs : List (List K × K × Val)) :
    let w2 := setBases fuel w1 r (w.reg r).bases
    let w3 := regs.foldl (fun w e => register fuel w r e.1 (e.2.1.getD 0) e.2.2.1 e.2.2.2) w2
    let w4 := subs.foldl (fun w e => subscribe fuel w r e.1 e.2.1 e.2.2) w3
    Inv5 fuel (r :: dom) w4 := by
  intro w2 w3 w4
  have i1 := inv_of_sameStr h.inv s1
  have hb1 := regBases_of_sameStr s1
  have hbr : (w.reg r).bases = regBases w1 r := by rw [hb1]; rfl
  have hg1 : GoodBases fuel (updB (regBases w1) r (w.reg r).bases) := by rw [hbr, updB_self, hb1]; exact hg
  obtain ⟨i2, n2, f2, _⟩ := setBases_str fuel dom w1 i1 (foe_of_sameStr h.foe s1) r (w.reg r).bases hg1
  have ok2 : ∀ y, CacheOk w2 y := by
    intro y
    obtain ⟨rank, _, hrk⟩ := hg
    obtain ⟨f, rfl⟩ : ∃ f, fuel = f + 1 := ⟨fuel - 1, by have := hrk r; omega⟩
    have q : Quiet w1 w2 := setBases_quiet f w1 r _ i1.verifying
    by_cases hm : r ∈ (w.reg y).ro
    · obtain ⟨n, hnf, hd⟩ := h.near y r hm
      have hc : Chain (fun b => (w.reg b).subregs) n r y := chain_of_desc (fun s b hb => h.inv.cons s b hb) hd
      apply cacheOk_of_cleared
      show Cleared (setBases (f+1) w1 r (w.reg r).bases) y
      rw [← s1.bases r]
      exact setBases_same_clears (f+1) w1 i1.verifying r _ (fun y => s1.subregs y) n y hnf hc
    · rcases q.each y with hcl | ⟨hro, hsc⟩
      · exact cacheOk_of_cleared hcl
      · by_cases hy : y = r
        · subst hy
          exact cacheOk_of_cleared ⟨hsc.1.trans hclr.1, hsc.2.1.trans hclr.2.1, hsc.2.2.trans hclr.2.2⟩
        · refine cacheOk_congr (w := w) (q.sro.trans hsro) (hro.trans (s1.ro y)) (fun b hb => ?_) ?_ (h.ok y)
          · have hbr' : b ≠ r := fun e => hm (e ▸ hb)
            exact (DataAt.of_reg_eq (hother b hbr')).trans (q.data b)
          · obtain ⟨e1, e2, e3⟩ := hsc
            rw [hother y hy] at e1 e2 e3
            exact ⟨e1, e2, e3⟩
  have j2 : Inv5 fuel (r :: dom) w2 := ⟨i2, n2, f2, ok2⟩
  have j3 : Inv5 fuel (r :: dom) w3 :=
    foldl_inv5 (fun w e => register fuel w r e.1 (e.2.1.getD 0) e.2.2.1 e.2.2.2) (fun w e hw => register_inv5 hw r _ _ _ _) regs w2 j2
  exact foldl_inv5 (fun w e => subscribe fuel w r e.1 e.2.1 e.2.2) (fun w e hw => subscribe_inv5 hw r _ _ _) subs w3 j3

theorem rebuild_inv5 {fuel : Nat} {dom : List Nat} {w : World} (h : Inv5 fuel dom w) (r : Nat)
    (hg : GoodBases fuel (regBases w)) : Inv5 fuel (r :: dom) (rebuild fuel w r) := by
  refine rebuild_aux5 h r hg
    (w.setReg r { w.reg r with adapters := [], subs := [], provided := [], extendors := [],
                               cache := [], mcache := [], scache := [], verifyRo := [], verifyGen := [] })
    (sameStr_setReg w r _ rfl rfl rfl) rfl (fun b hb => reg_setReg_ne _ hb _) ?_ (allRegistrations (w.reg r)) (allSubscriptions (w.reg r))
  unfold Cleared; rw [reg_setReg_same]; exact ⟨rfl, rfl, rfl⟩

/-! ### histories -/
theorem step_inv5 {fuel : Nat} {dom : List Nat} {w : World} (h : Inv5 fuel dom w) (op : Op) (hwf : WF fuel w op) :
    Inv5 fuel (touched op ++ dom) (step fuel w op) := by
  cases op with
  | newreg r bs => exact newreg_inv5 h r bs hwf
  | setBases r bs => exact setBases_inv5 h r bs hwf
  | rebuild r => exact rebuild_inv5 h r hwf
  | register r req p n v => exact register_inv5 h r req p n v
  | unregister r req p n v => exact unregister_inv5 h r req p n v
  | subscribe r req p v => exact subscribe_inv5 h r req p v
  | unsubscribe r req p v => exact unsubscribe_inv5 h r req p v
  | lookup r req p n => exact inv5_of_sameStr h (lookup_sameStr w h.inv.verifying r req p n) (lookup_ok h.inv.verifying h.ok r req p n)
  | lookupAll r req p => exact inv5_of_sameStr h (lookupAll_sameStr w h.inv.verifying r req p) (lookupAll_ok h.inv.verifying h.ok r req p)
  | subscriptions r req p =>
    exact inv5_of_sameStr h (subscriptions_sameStr w h.inv.verifying r req p) (subscriptions_ok h.inv.verifying h.ok r req p)

theorem run_inv5 (fuel : Nat) : ∀ (ops : List Op) (dom : List Nat) (w : World), Inv5 fuel dom w → WFHist fuel w ops →
    Inv5 fuel (existing ops ++ dom) (run fuel w ops)
  | [], dom, w, h, _ => by simpa [existing, run] using h
  | op :: ops, dom, w, h, hwf => by
    have := run_inv5 fuel ops (touched op ++ dom) (step fuel w op) (step_inv5 h op hwf.1) hwf.2
    simpa [existing, run, List.append_assoc] using this

theorem reg_emptyPush (sro iro : Id → List Id) (r : Nat) : (emptyPush sro iro).reg r = {} := rfl

theorem inv5_empty (fuel : Nat) (sro iro : Id → List Id) : Inv5 fuel [] (emptyPush sro iro) :=
  ⟨inv_empty fuel sro iro, fun y b hb => (by rw [reg_emptyPush] at hb; cases hb), fun y => Or.inl rfl,
   fun r => cacheOk_of_cleared ⟨rfl, rfl, rfl⟩⟩

/-- the guard of `rebuild` is implied by the others: on a reachable world the base graph is acyclic within the fuel (unless
`fuel = 0`, where no registry can have been given bases) -/
theorem step_good {fuel : Nat} {dom : List Nat} {w : World} (h : Inv fuel dom w) (hG : GoodBases fuel (regBases w)) (op : Op)
    (hwf : WF fuel w op) : GoodBases fuel (regBases (step fuel w op)) := by
  cases op with
  | newreg r bs =>
    obtain ⟨⟨f1, f2, f3⟩, hg⟩ := hwf
    have s1 : SameStr w (w.setReg r {}) := sameStr_setReg w r {} f1.symm f2.symm f3.symm
    have hg' : GoodBases fuel (updB (regBases (w.setReg r {})) r bs) := by rw [regBases_of_sameStr s1]; exact hg
    show GoodBases fuel (regBases (setBases fuel (w.setReg r {}) r bs))
    rw [(setBases_inv fuel dom _ (inv_of_sameStr h s1) r bs hg').2]; exact hg'
  | setBases r bs => show GoodBases fuel (regBases (setBases fuel w r bs)); rw [(setBases_inv fuel dom w h r bs hwf).2]; exact hwf
  | rebuild r => show GoodBases fuel (regBases (rebuild fuel w r)); rw [(rebuild_inv fuel dom w h r hwf).2]; exact hG
  | register r req p n v => show GoodBases fuel (regBases (register fuel w r req p n v)); rw [regBases_of_sameStr (register_sameStr fuel w h.verifying r req p n v)]; exact hG
  | unregister r req p n v => show GoodBases fuel (regBases (unregister fuel w r req p n v)); rw [regBases_of_sameStr (unregister_sameStr fuel w h.verifying r req p n v)]; exact hG
  | subscribe r req p v => show GoodBases fuel (regBases (subscribe fuel w r req p v)); rw [regBases_of_sameStr (subscribe_sameStr fuel w h.verifying r req p v)]; exact hG
  | unsubscribe r req p v => show GoodBases fuel (regBases (unsubscribe fuel w r req p v)); rw [regBases_of_sameStr (unsubscribe_sameStr fuel w h.verifying r req p v)]; exact hG
  | lookup r req p n => show GoodBases fuel (regBases (lookup w r req p n).1); rw [regBases_of_sameStr (lookup_sameStr w h.verifying r req p n)]; exact hG
  | lookupAll r req p => show GoodBases fuel (regBases (lookupAll w r req p).1); rw [regBases_of_sameStr (lookupAll_sameStr w h.verifying r req p)]; exact hG
  | subscriptions r req p => show GoodBases fuel (regBases (subscriptions w r req p).1); rw [regBases_of_sameStr (subscriptions_sameStr w h.verifying r req p)]; exact hG

theorem run_good (fuel : Nat) : ∀ (ops : List Op) (dom : List Nat) (w : World), Inv fuel dom w → GoodBases fuel (regBases w) →
    WFHist fuel w ops → GoodBases fuel (regBases (run fuel w ops))
  | [], _, _, _, hG, _ => hG
  | op :: ops, dom, w, h, hG, hwf =>
    run_good fuel ops (touched op ++ dom) (step fuel w op) (step_inv fuel dom w h op hwf.1) (step_good h hG op hwf.1) hwf.2

theorem goodBases_reachable (fuel : Nat) (h0 : 0 < fuel) (sro iro : Id → List Id) (ops : List Op)
    (hwf : WFHist fuel (emptyPush sro iro) ops) : GoodBases fuel (regBases (run fuel (emptyPush sro iro) ops)) :=
  run_good fuel ops [] _ (inv_empty fuel sro iro) ⟨fun _ => 0, fun s b hb => (by cases hb), fun _ => h0⟩ hwf

/-! ### the main theorem (with a concrete well-formed history for non-vacuity) -/
/-- a chain 2 → 1 → 0, a registration in the root registry 0, a lookup through the leaf 2 (fills its cache), the middle
registry cut off the root, the same lookup again -/
def demo5 : List Op := [.newreg 0 [], .newreg 1 [0], .newreg 2 [1], .register 0 [some 5] 6 "" ⟨7, 1⟩, .lookup 2 [5] 6 "",
  .setBases 1 [], .lookup 2 [5] 6 ""]

theorem demo5_wf : WFHist 8 w0 demo5 := by
  refine ⟨⟨⟨rfl, rfl, rfl⟩, ?_⟩, ⟨⟨rfl, rfl, rfl⟩, ?_⟩, ⟨⟨rfl, rfl, rfl⟩, ?_⟩, trivial, trivial, ?_, trivial, trivial⟩
  · exact goodBases_check 8 3 (by decide) (by decide) _ _ (fun s hs => updB_far _ 0 [] 3 (by decide) s hs) (by decide +kernel) (by decide +kernel)
  · exact goodBases_check 8 3 (by decide) (by decide) _ _ (fun s hs => updB_far _ 1 [0] 3 (by decide) s hs) (by decide +kernel) (by decide +kernel)
  · exact goodBases_check 8 3 (by decide) (by decide) _ _ (fun s hs => updB_far _ 2 [1] 3 (by decide) s hs) (by decide +kernel) (by decide +kernel)
  · exact goodBases_check 8 3 (by decide) (by decide) _ _ (fun s hs => updB_far _ 1 [] 3 (by decide) s hs) (by decide +kernel) (by decide +kernel)

/-- **C05 (registry model, notifying flavour), the invariant**: after ANY history of registry creations, `__bases__`
assignments at any level of a chain, `rebuild()`, registrations, un-registrations, subscriptions, un-subscriptions and
earlier lookups, every entry of every lookup cache of every registry (existing or not) is what the uncached computation
returns on the current state.

Guards (`WFHist`, exactly C06's, nothing added; operations may address registries that were never created):
* `newreg r bs` only for an `r` with no bases / `ro` / sub-registries — the operation installs a blank record, and a blank
  record forgets `_v_subregistries`, after which changes of `r` no longer reach its children (`renewOps` below is the
  counterexample: a stale `None` in the child's cache);
* `newreg` / `setBases`: the new base graph is acyclic with ranks below `fuel` (`GoodBases`) — `fuel` is what the model has in
  place of Python's unbounded recursion in `changed` / `_setBases` / `ro.ro`; on a chain deeper than `fuel` the model's
  cascade stops early (`shallowOps` below is the counterexample), on a cyclic graph the real code does not terminate;
* `rebuild r`: `GoodBases fuel` of the current graph — C06's guard, kept as it is; it is implied by the other guards on every
  reachable world unless `fuel = 0` (`goodBases_reachable`), and with `fuel = 0` no registry can have been given bases. -/
theorem C05_registry_cacheOk (fuel : Nat) (sro iro : Id → List Id) (ops : List Op) (hwf : WFHist fuel (emptyPush sro iro) ops) :
    ∀ r, CacheOk (run fuel (emptyPush sro iro) ops) r :=
  (run_inv5 fuel ops [] _ (inv5_empty fuel sro iro) hwf).ok

/-- non-vacuity: the guards hold for the demo history -/
example : ∀ r, CacheOk (run 8 w0 demo5) r := C05_registry_cacheOk 8 _ _ demo5 demo5_wf


/-! ### corollaries: the three entry points are transparent -/
theorem lookup_snd_of_ok {w : World} {r : Nat} (hv : w.verifying = false) (hok : CacheOk w r) (req : List Id) (prov : Id) (name : String) :
    (lookup w r req prov name).2 = uncachedLookup w r req prov name := by
  unfold lookup; rw [verify_push w hv]; simp only []
  split
  · rename_i a ha; exact hok.one _ _ _ _ ha
  · rfl

theorem lookupAll_snd_of_ok {w : World} {r : Nat} (hv : w.verifying = false) (hok : CacheOk w r) (req : List Id) (prov : Id) :
    (lookupAll w r req prov).2 = uncachedLookupAll w r req prov := by
  unfold lookupAll; rw [verify_push w hv]; simp only []
  split
  · rename_i a ha; exact hok.all _ _ _ ha
  · rfl

theorem subscriptions_snd_of_ok {w : World} {r : Nat} (hv : w.verifying = false) (hok : CacheOk w r) (req : List Id) (prov : Option Id) :
    (subscriptions w r req prov).2 = uncachedSubscriptions w r req prov := by
  unfold subscriptions; rw [verify_push w hv]; simp only []
  split
  · rename_i a ha; exact hok.subs _ _ _ ha
  · rfl

/-- **C05, `lookup`**: on every reachable world, whatever the caches hold, `lookup` returns the uncached answer -/
theorem C05_registry_transparent_lookup (fuel : Nat) (sro iro : Id → List Id) (ops : List Op)
    (hwf : WFHist fuel (emptyPush sro iro) ops) (r : Nat) (req : List Id) (prov : Id) (name : String) :
    (lookup (run fuel (emptyPush sro iro) ops) r req prov name).2 = uncachedLookup (run fuel (emptyPush sro iro) ops) r req prov name :=
  have j := run_inv5 fuel ops [] _ (inv5_empty fuel sro iro) hwf
  lookup_snd_of_ok j.inv.verifying (j.ok r) req prov name

example : (lookup (run 8 w0 demo5) 2 [5] 6 "").2 = uncachedLookup (run 8 w0 demo5) 2 [5] 6 "" :=
  C05_registry_transparent_lookup 8 _ _ demo5 demo5_wf 2 [5] 6 ""

/-- **C05, `lookupAll`** -/
theorem C05_registry_transparent_lookupAll (fuel : Nat) (sro iro : Id → List Id) (ops : List Op)
    (hwf : WFHist fuel (emptyPush sro iro) ops) (r : Nat) (req : List Id) (prov : Id) :
    (lookupAll (run fuel (emptyPush sro iro) ops) r req prov).2 = uncachedLookupAll (run fuel (emptyPush sro iro) ops) r req prov :=
  have j := run_inv5 fuel ops [] _ (inv5_empty fuel sro iro) hwf
  lookupAll_snd_of_ok j.inv.verifying (j.ok r) req prov

example : (lookupAll (run 8 w0 demo5) 2 [5] 6).2 = uncachedLookupAll (run 8 w0 demo5) 2 [5] 6 :=
  C05_registry_transparent_lookupAll 8 _ _ demo5 demo5_wf 2 [5] 6

/-- **C05, `subscriptions`** -/
theorem C05_registry_transparent_subscriptions (fuel : Nat) (sro iro : Id → List Id) (ops : List Op)
    (hwf : WFHist fuel (emptyPush sro iro) ops) (r : Nat) (req : List Id) (prov : Option Id) :
    (subscriptions (run fuel (emptyPush sro iro) ops) r req prov).2 =
      uncachedSubscriptions (run fuel (emptyPush sro iro) ops) r req prov :=
  have j := run_inv5 fuel ops [] _ (inv5_empty fuel sro iro) hwf
  subscriptions_snd_of_ok j.inv.verifying (j.ok r) req prov

example : (subscriptions (run 8 w0 demo5) 2 [5] (some 6)).2 = uncachedSubscriptions (run 8 w0 demo5) 2 [5] (some 6) :=
  C05_registry_transparent_subscriptions 8 _ _ demo5 demo5_wf 2 [5] (some 6)

/-! ### C05 literally: as if no lookup had ever happened -/
/-- equal up to the contents of the lookup caches (both worlds of the notifying flavour) -/
structure CEq (w w' : World) : Prop where
  vl : w.verifying = false
  vr : w'.verifying = false
  sro : w'.sro = w.sro
  iro : w'.iro = w.iro
  reg : ∀ x, clearCaches (w'.reg x) = clearCaches (w.reg x)

theorem CEq.refl {w : World} (hv : w.verifying = false) : CEq w w := ⟨hv, hv, rfl, rfl, fun _ => rfl⟩
theorem CEq.symm {w w' : World} (h : CEq w w') : CEq w' w := ⟨h.vr, h.vl, h.sro.symm, h.iro.symm, fun x => (h.reg x).symm⟩
theorem CEq.trans {a b c : World} (h1 : CEq a b) (h2 : CEq b c) : CEq a c :=
  ⟨h1.vl, h2.vr, h2.sro.trans h1.sro, h2.iro.trans h1.iro, fun x => (h2.reg x).trans (h1.reg x)⟩

/-- a record equal to `x` up to caches is `x` with other caches -/
theorem reg_form {x x' : Reg} (h : clearCaches x' = clearCaches x) :
    x' = { x with cache := x'.cache, mcache := x'.mcache, scache := x'.scache } := by
  cases x; cases x'
  simp only [clearCaches, Reg.mk.injEq] at h
  obtain ⟨rfl, rfl, rfl, rfl, rfl, rfl, rfl, rfl, _, _, _, rfl, rfl⟩ := h
  rfl

theorem CEq.form {w w' : World} (h : CEq w w') (r : Nat) :
    ∃ c m s, w'.reg r = { w.reg r with cache := c, mcache := m, scache := s } :=
  ⟨_, _, _, reg_form (h.reg r)⟩

theorem ceq_setReg {w w' : World} (h : CEq w w') (r : Nat) {x x' : Reg} (hx : clearCaches x' = clearCaches x) :
    CEq (w.setReg r x) (w'.setReg r x') := by
  refine ⟨h.vl, h.vr, h.sro, h.iro, fun y => ?_⟩
  by_cases hy : y = r
  · subst hy; rw [reg_setReg_same, reg_setReg_same]; exact hx
  · rw [reg_setReg_ne _ hy, reg_setReg_ne _ hy]; exact h.reg y

theorem foldl_ceq {α} (f : World → α → World) (hf : ∀ w w' a, CEq w w' → CEq (f w a) (f w' a)) :
    ∀ (l : List α) (w w' : World), CEq w w' → CEq (l.foldl f w) (l.foldl f w')
  | [], _, _, h => h
  | a :: l, w, w', h => foldl_ceq f hf l _ _ (hf w w' a h)

theorem bump_ceq {w w' : World} (h : CEq w w') (r : Nat) : CEq (bump w r) (bump w' r) := by
  refine ⟨h.vl, h.vr, h.sro, h.iro, fun y => ?_⟩
  by_cases hy : y = r
  · subst hy
    obtain ⟨c, m, s, e⟩ := h.form y
    rw [bump_reg_self, bump_reg_self, e]
    rfl
  · rw [bump_reg_ne _ hy, bump_reg_ne _ hy]; exact h.reg y

theorem CEq.subregs {w w' : World} (h : CEq w w') (x : Nat) : (w'.reg x).subregs = (w.reg x).subregs :=
  have := congrArg Reg.subregs (h.reg x); this
theorem CEq.bases {w w' : World} (h : CEq w w') (x : Nat) : (w'.reg x).bases = (w.reg x).bases :=
  have := congrArg Reg.bases (h.reg x); this
theorem CEq.ro {w w' : World} (h : CEq w w') (x : Nat) : (w'.reg x).ro = (w.reg x).ro :=
  have := congrArg Reg.ro (h.reg x); this
theorem CEq.data {w w' : World} (h : CEq w w') (b : Nat) : DataAt w w' b :=
  ⟨(have := congrArg Reg.adapters (h.reg b); this), (have := congrArg Reg.subs (h.reg b); this),
   (have := congrArg Reg.extendors (h.reg b); this)⟩
theorem CEq.regBases {w w' : World} (h : CEq w w') : regBases w' = regBases w := by funext x; exact h.bases x

theorem changed_ceq : ∀ (f : Nat) {w w' : World} (r : Nat), CEq w w' → CEq (changed f w r) (changed f w' r)
  | 0, _, _, _, h => h
  | f+1, w, w', r, h => by
    rw [changed_succ f w r h.vl, changed_succ f w' r h.vr]
    have hb := bump_ceq h r
    rw [hb.subregs r]
    exact foldl_ceq _ (fun w w' s h => changed_ceq f s h) _ _ _ hb

theorem stepSub_ceq (c : Nat → Bool) (g : List Nat → List Nat) {w w' : World} (b : Nat) (h : CEq w w') :
    CEq (stepSub c g w b) (stepSub c g w' b) := by
  unfold stepSub
  split
  · exact h
  · apply ceq_setReg h
    obtain ⟨c, m, s, e⟩ := h.form b
    rw [e]; rfl

theorem moveSubreg_ceq {w w' : World} (h : CEq w w') (r : Nat) (old bs : List Nat) :
    CEq (moveSubreg w r old bs) (moveSubreg w' r old bs) := by
  have e : ∀ w, moveSubreg w r old bs =
      bs.foldl (stepSub (fun b => old.contains b) (fun L => L.filter (· != r) ++ [r]))
        (old.foldl (stepSub (fun b => bs.contains b) (fun L => L.filter (· != r))) w) := fun _ => rfl
  rw [e, e]
  exact foldl_ceq _ (fun _ _ b h => stepSub_ceq _ _ b h) _ _ _ (foldl_ceq _ (fun _ _ b h => stepSub_ceq _ _ b h) _ _ _ h)

theorem rebased_ceq (fuel : Nat) {w w' : World} (h : CEq w w') (r : Nat) (bs : List Nat) :
    CEq (rebased fuel w r bs) (rebased fuel w' r bs) := by
  refine ⟨h.vl, h.vr, h.sro, h.iro, fun y => ?_⟩
  by_cases hy : y = r
  · subst hy
    obtain ⟨c, m, s, e⟩ := h.form y
    rw [rebased_reg_self, rebased_reg_self, regBases_setReg_bases, regBases_setReg_bases, h.regBases, e]
    rfl
  · rw [rebased_reg_ne _ _ _ hy, rebased_reg_ne _ _ _ hy]; exact h.reg y

theorem setBasesOwn_ceq (fuel : Nat) {w w' : World} (h : CEq w w') (r : Nat) (bs : List Nat) :
    CEq (setBasesOwn fuel w r bs) (setBasesOwn fuel w' r bs) := by
  rw [setBasesOwn_eq, setBasesOwn_eq]
  exact changed_ceq fuel r (rebased_ceq fuel h r bs)

theorem setBasesPush_ceq (fuel : Nat) : ∀ (f : Nat) {w w' : World} (r : Nat) (bs : List Nat), CEq w w' →
    CEq (setBasesPush fuel f w r bs) (setBasesPush fuel f w' r bs)
  | 0, _, _, _, _, h => h
  | f+1, w, w', r, bs, h => by
    rw [setBasesPush_succ', setBasesPush_succ', h.bases r]
    have h2 := setBasesOwn_ceq fuel (moveSubreg_ceq h r (w.reg r).bases bs) r bs
    rw [h2.subregs r]
    refine foldl_ceq _ (fun a a' s ha => ?_) _ _ _ h2
    unfold pushStep
    rw [ha.bases s]
    exact setBasesPush_ceq fuel f s _ ha

theorem setBases_ceq (fuel : Nat) {w w' : World} (h : CEq w w') (r : Nat) (bs : List Nat) :
    CEq (setBases fuel w r bs) (setBases fuel w' r bs) := by
  unfold setBases
  rw [h.vl, h.vr]
  exact setBasesPush_ceq fuel fuel r bs h

theorem addExtendor_congr {w w' : World} (hi : w'.iro = w.iro) (hs : w'.sro = w.sro) (x : Reg) (p : Id) :
    addExtendor w' x p = addExtendor w x p := by unfold addExtendor; rw [hi, hs]
theorem removeExtendor_congr {w w' : World} (hi : w'.iro = w.iro) (x : Reg) (p : Id) :
    removeExtendor w' x p = removeExtendor w x p := by unfold removeExtendor; rw [hi]

theorem register_ceq (fuel : Nat) {w w' : World} (h : CEq w w') (r : Nat) (req : List (Option Id)) (prov : Id) (name : String) (v : Val) :
    CEq (register fuel w r req prov name v) (register fuel w' r req prov name v) := by
  obtain ⟨c, m, s, e⟩ := h.form r
  unfold register
  simp only [e, addExtendor_congr h.iro h.sro]
  repeat' (first
    | exact h
    | (apply changed_ceq; apply ceq_setReg h; (repeat' split) <;> rfl)
    | split)

theorem unregister_ceq (fuel : Nat) {w w' : World} (h : CEq w w') (r : Nat) (req : List (Option Id)) (prov : Id) (name : String)
    (v : Option Val) : CEq (unregister fuel w r req prov name v) (unregister fuel w' r req prov name v) := by
  obtain ⟨c, m, s, e⟩ := h.form r
  unfold unregister
  simp only [e, removeExtendor_congr h.iro]
  repeat' (first
    | exact h
    | (apply changed_ceq; apply ceq_setReg h; (repeat' split) <;> rfl)
    | split)

theorem subscribe_ceq (fuel : Nat) {w w' : World} (h : CEq w w') (r : Nat) (req : List (Option Id)) (prov : Option Id) (v : Val) :
    CEq (subscribe fuel w r req prov v) (subscribe fuel w' r req prov v) := by
  obtain ⟨c, m, s, e⟩ := h.form r
  unfold subscribe
  simp only [e, addExtendor_congr h.iro h.sro]
  repeat' (first
    | exact h
    | (apply changed_ceq; apply ceq_setReg h; (repeat' split) <;> rfl)
    | split)

theorem unsubscribe_ceq (fuel : Nat) {w w' : World} (h : CEq w w') (r : Nat) (req : List (Option Id)) (prov : Option Id)
    (v : Option Val) : CEq (unsubscribe fuel w r req prov v) (unsubscribe fuel w' r req prov v) := by
  obtain ⟨c, m, s, e⟩ := h.form r
  unfold unsubscribe
  simp only [e, removeExtendor_congr h.iro]
  repeat' (first
    | exact h
    | (apply changed_ceq; apply ceq_setReg h; (repeat' split) <;> rfl)
    | split)

theorem rebuild_eq (fuel : Nat) (w : World) (r : Nat) :
    rebuild fuel w r =
      (allSubscriptions (w.reg r)).foldl (fun w e => subscribe fuel w r e.1 e.2.1 e.2.2)
        ((allRegistrations (w.reg r)).foldl (fun w e => register fuel w r e.1 (e.2.1.getD 0) e.2.2.1 e.2.2.2)
          (setBases fuel (w.setReg r { w.reg r with adapters := [], subs := [], provided := [], extendors := [], cache := [], mcache := [], scache := [], verifyRo := [], verifyGen := [] }) r (w.reg r).bases)) := rfl

theorem rebuild_ceq (fuel : Nat) {w w' : World} (h : CEq w w') (r : Nat) : CEq (rebuild fuel w r) (rebuild fuel w' r) := by
  obtain ⟨c, m, s, e⟩ := h.form r
  have e1 : allRegistrations (w'.reg r) = allRegistrations (w.reg r) := by rw [e]; rfl
  have e2 : allSubscriptions (w'.reg r) = allSubscriptions (w.reg r) := by rw [e]; rfl
  rw [rebuild_eq, rebuild_eq, e1, e2, h.bases r]
  refine foldl_ceq (fun w (e : List K × K × Val) => subscribe fuel w r e.1 e.2.1 e.2.2) (fun _ _ a ha => subscribe_ceq fuel ha r _ _ _) _ _ _
    (foldl_ceq (fun w (e : List K × K × String × Val) => register fuel w r e.1 (e.2.1.getD 0) e.2.2.1 e.2.2.2) (fun _ _ a ha => register_ceq fuel ha r _ _ _ _) _ _ _
      (setBases_ceq fuel (ceq_setReg h r ?_) r _))
  rw [e]

/-- a lookup changes nothing but a cache -/
theorem lookup_ceq {w : World} (hv : w.verifying = false) (r : Nat) (req : List Id) (prov : Id) (name : String) :
    CEq w (lookup w r req prov name).1 := by
  unfold lookup; rw [verify_push w hv]; simp only []
  split
  · exact CEq.refl hv
  · refine ⟨hv, hv, rfl, rfl, fun y => ?_⟩
    by_cases hy : y = r
    · subst hy; rw [reg_setReg_same]; rfl
    · rw [reg_setReg_ne _ hy]
theorem lookupAll_ceq {w : World} (hv : w.verifying = false) (r : Nat) (req : List Id) (prov : Id) :
    CEq w (lookupAll w r req prov).1 := by
  unfold lookupAll; rw [verify_push w hv]; simp only []
  split
  · exact CEq.refl hv
  · refine ⟨hv, hv, rfl, rfl, fun y => ?_⟩
    by_cases hy : y = r
    · subst hy; rw [reg_setReg_same]; rfl
    · rw [reg_setReg_ne _ hy]
theorem subscriptions_ceq {w : World} (hv : w.verifying = false) (r : Nat) (req : List Id) (prov : Option Id) :
    CEq w (subscriptions w r req prov).1 := by
  unfold subscriptions; rw [verify_push w hv]; simp only []
  split
  · exact CEq.refl hv
  · refine ⟨hv, hv, rfl, rfl, fun y => ?_⟩
    by_cases hy : y = r
    · subst hy; rw [reg_setReg_same]; rfl
    · rw [reg_setReg_ne _ hy]

/-- the query operations of a history -/
def Op.isQuery : Op → Bool
  | .lookup .. => true
  | .lookupAll .. => true
  | .subscriptions .. => true
  | _ => false

/-- the history with every `lookup` / `lookupAll` / `subscriptions` call dropped -/
def eraseLookups (ops : List Op) : List Op := ops.filter fun op => !op.isQuery

theorem step_query_ceq (fuel : Nat) {w : World} (hv : w.verifying = false) (op : Op) (hq : op.isQuery = true) :
    CEq w (step fuel w op) := by
  cases op <;> simp only [Op.isQuery, Bool.false_eq_true] at hq
  · exact lookup_ceq hv _ _ _ _
  · exact lookupAll_ceq hv _ _ _
  · exact subscriptions_ceq hv _ _ _

theorem step_ceq (fuel : Nat) {w w' : World} (h : CEq w w') (op : Op) : CEq (step fuel w op) (step fuel w' op) := by
  cases op with
  | newreg r bs => exact setBases_ceq fuel (ceq_setReg h r rfl) r bs
  | setBases r bs => exact setBases_ceq fuel h r bs
  | rebuild r => exact rebuild_ceq fuel h r
  | register r req p n v => exact register_ceq fuel h r req p n v
  | unregister r req p n v => exact unregister_ceq fuel h r req p n v
  | subscribe r req p v => exact subscribe_ceq fuel h r req p v
  | unsubscribe r req p v => exact unsubscribe_ceq fuel h r req p v
  | lookup r req p n => exact ((lookup_ceq h.vl r req p n).symm.trans h).trans (lookup_ceq h.vr r req p n)
  | lookupAll r req p => exact ((lookupAll_ceq h.vl r req p).symm.trans h).trans (lookupAll_ceq h.vr r req p)
  | subscriptions r req p => exact ((subscriptions_ceq h.vl r req p).symm.trans h).trans (subscriptions_ceq h.vr r req p)

theorem wf_ceq (fuel : Nat) {w w' : World} (h : CEq w w') (op : Op) (hwf : WF fuel w op) : WF fuel w' op := by
  cases op with
  | newreg r bs => exact ⟨by rw [h.bases, h.ro, h.subregs]; exact hwf.1, by rw [h.regBases]; exact hwf.2⟩
  | setBases r bs => show GoodBases _ _; rw [h.regBases]; exact hwf
  | rebuild r => show GoodBases _ _; rw [h.regBases]; exact hwf
  | _ => trivial

theorem run_erase_ceq (fuel : Nat) : ∀ (ops : List Op) {w w' : World}, CEq w w' → WFHist fuel w ops →
    CEq (run fuel w ops) (run fuel w' (eraseLookups ops)) ∧ WFHist fuel w' (eraseLookups ops)
  | [], _, _, h, _ => ⟨h, trivial⟩
  | op :: ops, w, w', h, hwf => by
    cases hq : op.isQuery with
    | true =>
      have e : eraseLookups (op :: ops) = eraseLookups ops := by simp [eraseLookups, hq]
      rw [e]
      exact run_erase_ceq fuel ops ((step_query_ceq fuel h.vl op hq).symm.trans h) hwf.2
    | false =>
      have e : eraseLookups (op :: ops) = op :: eraseLookups ops := by simp [eraseLookups, hq]
      rw [e]
      obtain ⟨h1, h2⟩ := run_erase_ceq fuel ops (step_ceq fuel h op) hwf.2
      exact ⟨h1, wf_ceq fuel h op hwf.1, h2⟩


/-- **C05, literally**: after any well-formed history, each of the three queries returns what it returns after the same
history with every earlier query erased — "as if no lookup had ever happened".  Guard: `WFHist` of the given history (as in
`C05_registry_cacheOk`, where the counterexamples are); that the erased history is well-formed too is proved
(`run_erase_ceq`), not assumed. -/
theorem C05_registry_erase (fuel : Nat) (sro iro : Id → List Id) (ops : List Op) (hwf : WFHist fuel (emptyPush sro iro) ops) (r : Nat) :
    (∀ req prov name, (lookup (run fuel (emptyPush sro iro) ops) r req prov name).2 =
        (lookup (run fuel (emptyPush sro iro) (eraseLookups ops)) r req prov name).2) ∧
    (∀ req prov, (lookupAll (run fuel (emptyPush sro iro) ops) r req prov).2 =
        (lookupAll (run fuel (emptyPush sro iro) (eraseLookups ops)) r req prov).2) ∧
    (∀ req prov, (subscriptions (run fuel (emptyPush sro iro) ops) r req prov).2 =
        (subscriptions (run fuel (emptyPush sro iro) (eraseLookups ops)) r req prov).2) := by
  obtain ⟨h, hwf'⟩ := run_erase_ceq fuel ops (CEq.refl (w := emptyPush sro iro) rfl) hwf
  refine ⟨fun req prov name => ?_, fun req prov => ?_, fun req prov => ?_⟩
  · rw [C05_registry_transparent_lookup fuel sro iro ops hwf, C05_registry_transparent_lookup fuel sro iro _ hwf']
    exact (uncachedLookup_congr h.sro (h.ro r) (fun b _ => h.data b) req prov name).symm
  · rw [C05_registry_transparent_lookupAll fuel sro iro ops hwf, C05_registry_transparent_lookupAll fuel sro iro _ hwf']
    exact (uncachedLookupAll_congr h.sro (h.ro r) (fun b _ => h.data b) req prov).symm
  · rw [C05_registry_transparent_subscriptions fuel sro iro ops hwf, C05_registry_transparent_subscriptions fuel sro iro _ hwf']
    exact (uncachedSubscriptions_congr h.sro (h.ro r) (fun b _ => h.data b) req prov).symm

example : (lookup (run 8 w0 demo5) 2 [5] 6 "").2 = (lookup (run 8 w0 (eraseLookups demo5)) 2 [5] 6 "").2 :=
  (C05_registry_erase 8 _ _ demo5 demo5_wf 2).1 [5] 6 ""
example : eraseLookups demo5 = [.newreg 0 [], .newreg 1 [0], .newreg 2 [1], .register 0 [some 5] 6 "" ⟨7, 1⟩, .setBases 1 []] := rfl

/-! ### C08 along the chain: `lookupAll` is the name-indexed family of `lookup` answers -/
theorem mem_aset {κ α} [BEq κ] {m : AList κ α} {k : κ} {v : α} {p : κ × α} (h : p ∈ AList.set m k v) : p ∈ m ∨ p = (k, v) := by
  unfold AList.set at h
  split at h
  · obtain ⟨q, hq, e⟩ := List.mem_map.mp h
    split at e
    · exact Or.inr e.symm
    · exact Or.inl (e ▸ hq)
  · rcases List.mem_append.mp h with h | h
    · exact Or.inl h
    · exact Or.inr (List.mem_singleton.mp h)

theorem mem_aerase {κ α} [BEq κ] {m : AList κ α} {k : κ} {p : κ × α} (h : p ∈ AList.erase m k) : p ∈ m :=
  (List.mem_filter.mp h).1

theorem aset_keys_nodup (m : Names) (k : String) (v : Val) (h : (m.map (·.1)).Nodup) : ((AList.set m k v).map (·.1)).Nodup := by
  unfold AList.set
  split
  · have : (m.map (fun p => if p.1 == k then (k, v) else p)).map (·.1) = m.map (·.1) := by
      rw [List.map_map]
      apply List.map_congr_left
      intro p _
      show (if p.1 == k then (k, v) else p).1 = p.1
      split
      · rename_i hk; exact (by simpa using hk : p.1 = k).symm
      · rfl
    rw [this]; exact h
  · rename_i hany
    rw [List.map_append]
    refine List.nodup_append.mpr ⟨h, by simp, ?_⟩
    intro a ha b hb
    obtain ⟨p, hp, rfl⟩ := List.mem_map.mp ha
    have hb' : b = k := by simpa using hb
    subst hb'
    intro e
    exact hany (List.any_eq_true.mpr ⟨p, hp, by simpa using e⟩)

theorem aerase_keys_nodup (m : Names) (k : String) (h : (m.map (·.1)).Nodup) : ((AList.erase m k).map (·.1)).Nodup :=
  List.Nodup.sublist (List.Sublist.map _ List.filter_sublist) h

theorem leavesOk_empty : ∀ n, LeavesOk n (Level.empty ([] : Names) n)
  | 0 => List.nodup_nil
  | _+1 => fun p hp => by cases hp

theorem update_ok (f : Names → Names) (hf : ∀ names : Names, (names.map (·.1)).Nodup → ((f names).map (·.1)).Nodup) :
    ∀ (n : Nat) (t : Level Names n) (path : List K), LeavesOk n t → LeavesOk n (Level.update ([] : Names) f n t path)
  | 0, t, path, h => hf _ h
  | n+1, t, [], h => h
  | n+1, t, k :: ks, h => by
    show ∀ p ∈ AList.set (kidsOf t) k (Level.update [] f n ((AList.get? (kidsOf t) k).getD (Level.empty [] n)) ks), LeavesOk n p.2
    intro p hp
    rcases mem_aset hp with hm | rfl
    · exact h p hm
    · apply update_ok f hf n
      cases hg : AList.get? (kidsOf t) k with
      | none => exact leavesOk_empty n
      | some c => obtain ⟨q, hq, rfl⟩ := get?_mem hg; exact h q hq

theorem remove_ok (isEmpty : Names → Bool) (f : Names → Names)
    (hf : ∀ names : Names, (names.map (·.1)).Nodup → ((f names).map (·.1)).Nodup) :
    ∀ (n : Nat) (t : Level Names n) (path : List K), LeavesOk n t → LeavesOk n (Level.remove isEmpty f n t path).1
  | 0, t, path, h => hf _ h
  | n+1, t, [], h => h
  | n+1, t, k :: ks, h => by
    cases hg : AList.get? (kidsOf t) k with
    | none =>
      have e : Level.remove isEmpty f (n+1) t (k :: ks) = (t, false) := by
        simp only [Level.remove, hg]
      rw [e]; exact h
    | some c =>
      have e : (Level.remove isEmpty f (n+1) t (k :: ks)).1 =
          mkNode (if (Level.remove isEmpty f n c ks).2 then AList.erase (kidsOf t) k else AList.set (kidsOf t) k (Level.remove isEmpty f n c ks).1) := by
        simp only [Level.remove, hg]
      rw [e]
      intro p hp
      have hp' : p ∈ (if (Level.remove isEmpty f n c ks).2 then AList.erase (kidsOf t) k else AList.set (kidsOf t) k (Level.remove isEmpty f n c ks).1) := hp
      split at hp'
      · exact h p (mem_aerase hp')
      · rcases mem_aset hp' with hm | rfl
        · exact h p hm
        · apply remove_ok isEmpty f hf n
          obtain ⟨q, hq, rfl⟩ := get?_mem hg; exact h q hq

/-- every `_adapters[order]` tree of a list is made of dictionaries -/
def TreesOk (l : List (ByOrder Names)) : Prop := ∀ b ∈ l, LeavesOk (b.order+1) b.tree

theorem getOrder_ok {l : List (ByOrder Names)} (h : TreesOk l) (order : Nat) : LeavesOk (order+1) (getOrder ([] : Names) l order) := by
  unfold getOrder
  split
  · rename_i b hb
    have hm := h b (List.mem_of_find?_eq_some hb)
    split
    · rename_i e
      obtain ⟨o, t⟩ := b
      cases e
      exact hm
    · exact leavesOk_empty (order+1)
  · exact leavesOk_empty (order+1)

theorem setOrder_ok {l : List (ByOrder Names)} (h : TreesOk l) (order : Nat) (t : Level Names (order+1)) (ht : LeavesOk (order+1) t) :
    TreesOk (setOrder l order t) := by
  unfold setOrder
  intro b hb
  split at hb
  · obtain ⟨q, hq, e⟩ := List.mem_map.mp hb
    split at e
    · subst e; exact ht
    · subst e; exact h q hq
  · rcases List.mem_append.mp hb with hb | hb
    · exact h b hb
    · rw [List.mem_singleton.mp hb]; exact ht

/-- the leaves invariant: in every registry, every leaf of `_adapters` binds each name once -/
def AllOk (w : World) : Prop := ∀ b, TreesOk (w.reg b).adapters

theorem allOk_of_data {w w' : World} (hd : ∀ b, DataAt w w' b) (h : AllOk w) : AllOk w' := by
  intro b; rw [(hd b).adapters]; exact h b

theorem allOk_setReg {w : World} (h : AllOk w) (r : Nat) (x : Reg) (hx : TreesOk x.adapters) : AllOk (w.setReg r x) := by
  intro b
  by_cases hb : b = r
  · subst hb; rw [reg_setReg_same]; exact hx
  · rw [reg_setReg_ne _ hb]; exact h b

theorem mut_allOk {fuel : Nat} {w : World} (hv : w.verifying = false) (h : AllOk w) (r : Nat) (x : Reg) (hx : TreesOk x.adapters) :
    AllOk (changed fuel (w.setReg r x) r) :=
  allOk_of_data (changed_quiet fuel (w.setReg r x) r hv).data (allOk_setReg h r x hx)

theorem register_allOk (fuel : Nat) {w : World} (hv : w.verifying = false) (h : AllOk w) (r : Nat) (req : List (Option Id)) (prov : Id)
    (name : String) (v : Val) : AllOk (register fuel w r req prov name v) := by
  have hT : TreesOk (setOrder (w.reg r).adapters req.length
      (Level.update ([] : Names) (fun names => AList.set names name v) (req.length+1)
        (getOrder ([] : Names) (w.reg r).adapters req.length) (req.map convNone ++ [some prov]))) :=
    setOrder_ok (h r) _ _ (update_ok _ (fun names hn => aset_keys_nodup names name v hn) _ _ _ (getOrder_ok (h r) _))
  unfold register
  simp only []
  repeat' (first
    | exact h
    | (refine mut_allOk hv h r _ ?_; (repeat' split) <;> exact hT)
    | split)

theorem unregister_allOk (fuel : Nat) {w : World} (hv : w.verifying = false) (h : AllOk w) (r : Nat) (req : List (Option Id)) (prov : Id)
    (name : String) (v : Option Val) : AllOk (unregister fuel w r req prov name v) := by
  have hT : TreesOk (setOrder (w.reg r).adapters req.length
      (Level.remove (fun (names : Names) => names.isEmpty) (fun names => AList.erase names name) (req.length+1)
        (getOrder ([] : Names) (w.reg r).adapters req.length) (req.map convNone ++ [some prov])).1) :=
    setOrder_ok (h r) _ _ (remove_ok _ _ (fun names hn => aerase_keys_nodup names name hn) _ _ _ (getOrder_ok (h r) _))
  unfold unregister
  simp only []
  repeat' (first
    | exact h
    | (refine mut_allOk hv h r _ ?_; (repeat' split) <;> exact hT)
    | split)

theorem subscribe_allOk (fuel : Nat) {w : World} (hv : w.verifying = false) (h : AllOk w) (r : Nat) (req : List (Option Id)) (prov : Option Id)
    (v : Val) : AllOk (subscribe fuel w r req prov v) := by
  unfold subscribe
  simp only []
  repeat' (first
    | exact h
    | (refine mut_allOk hv h r _ ?_; (repeat' split) <;> exact h r)
    | split)

theorem unsubscribe_allOk (fuel : Nat) {w : World} (hv : w.verifying = false) (h : AllOk w) (r : Nat) (req : List (Option Id)) (prov : Option Id)
    (v : Option Val) : AllOk (unsubscribe fuel w r req prov v) := by
  unfold unsubscribe
  simp only []
  repeat' (first
    | exact h
    | (refine mut_allOk hv h r _ ?_; (repeat' split) <;> exact h r)
    | split)

theorem setBases_data (fuel : Nat) (w : World) (hv : w.verifying = false) (r : Nat) (bs : List Nat) :
    (setBases fuel w r bs).verifying = false ∧ ∀ b, DataAt w (setBases fuel w r bs) b := by
  cases fuel with
  | zero =>
    have e : setBases 0 w r bs = w := by unfold setBases; rw [hv]; rfl
    rw [e]; exact ⟨hv, fun b => DataAt.refl w b⟩
  | succ f =>
    have q := setBases_quiet f w r bs hv
    exact ⟨q.verifying.trans hv, q.data⟩

/-- notifying flavour + the leaves invariant -/
def LOk (w : World) : Prop := w.verifying = false ∧ AllOk w

theorem lok_setReg {w : World} (h : LOk w) (r : Nat) (x : Reg) (hx : TreesOk x.adapters) : LOk (w.setReg r x) :=
  ⟨h.1, allOk_setReg h.2 r x hx⟩

theorem setBases_lok (fuel : Nat) {w : World} (h : LOk w) (r : Nat) (bs : List Nat) : LOk (setBases fuel w r bs) :=
  ⟨(setBases_data fuel w h.1 r bs).1, allOk_of_data (setBases_data fuel w h.1 r bs).2 h.2⟩

theorem foldl_lok {α} (f : World → α → World) (hf : ∀ w a, LOk w → LOk (f w a)) : ∀ (l : List α) (w : World), LOk w → LOk (l.foldl f w)
  | [], _, h => h
  | a :: l, w, h => foldl_lok f hf l _ (hf w a h)

theorem register_lok (fuel : Nat) {w : World} (h : LOk w) (r : Nat) (req : List (Option Id)) (prov : Id) (name : String) (v : Val) :
    LOk (register fuel w r req prov name v) :=
  ⟨(register_sameStr fuel w h.1 r req prov name v).verifying.trans h.1, register_allOk fuel h.1 h.2 r req prov name v⟩
theorem subscribe_lok (fuel : Nat) {w : World} (h : LOk w) (r : Nat) (req : List (Option Id)) (prov : Option Id) (v : Val) :
    LOk (subscribe fuel w r req prov v) :=
  ⟨(subscribe_sameStr fuel w h.1 r req prov v).verifying.trans h.1, subscribe_allOk fuel h.1 h.2 r req prov v⟩

theorem rebuild_lok (fuel : Nat) {w : World} (h : LOk w) (r : Nat) : LOk (rebuild fuel w r) := by
  rw [rebuild_eq]
  refine foldl_lok (fun w (e : List K × K × Val) => subscribe fuel w r e.1 e.2.1 e.2.2) (fun _ a ha => subscribe_lok fuel ha r _ _ _) _ _
    (foldl_lok (fun w (e : List K × K × String × Val) => register fuel w r e.1 (e.2.1.getD 0) e.2.2.1 e.2.2.2)
      (fun _ a ha => register_lok fuel ha r _ _ _ _) _ _ (setBases_lok fuel (lok_setReg h r _ ?_) r _))
  intro b hb; cases hb

theorem step_lok (fuel : Nat) {w : World} (h : LOk w) (op : Op) : LOk (step fuel w op) := by
  cases op with
  | newreg r bs => exact setBases_lok fuel (lok_setReg h r {} (fun b hb => by cases hb)) r bs
  | setBases r bs => exact setBases_lok fuel h r bs
  | rebuild r => exact rebuild_lok fuel h r
  | register r req p n v => exact register_lok fuel h r req p n v
  | unregister r req p n v =>
    exact ⟨(unregister_sameStr fuel w h.1 r req p n v).verifying.trans h.1, unregister_allOk fuel h.1 h.2 r req p n v⟩
  | subscribe r req p v => exact subscribe_lok fuel h r req p v
  | unsubscribe r req p v =>
    exact ⟨(unsubscribe_sameStr fuel w h.1 r req p v).verifying.trans h.1, unsubscribe_allOk fuel h.1 h.2 r req p v⟩
  | lookup r req p n => exact ⟨(lookup_ceq h.1 r req p n).vr, allOk_of_data (lookup_ceq h.1 r req p n).data h.2⟩
  | lookupAll r req p => exact ⟨(lookupAll_ceq h.1 r req p).vr, allOk_of_data (lookupAll_ceq h.1 r req p).data h.2⟩
  | subscriptions r req p => exact ⟨(subscriptions_ceq h.1 r req p).vr, allOk_of_data (subscriptions_ceq h.1 r req p).data h.2⟩

theorem run_lok (fuel : Nat) : ∀ (ops : List Op) (w : World), LOk w → LOk (run fuel w ops)
  | [], _, h => h
  | op :: ops, _, h => run_lok fuel ops _ (step_lok fuel h op)

theorem lok_empty (sro iro : Id → List Id) : LOk (emptyPush sro iro) := ⟨rfl, fun b c hc => by rw [reg_emptyPush] at hc; cases hc⟩

/-- along a chain: the overlay of the per-registry `_lookupAll` walks in reversed `ro` order binds each name to what the
first registry of `ro` with an answer gives it -/
theorem uncachedLookupAll_get {w : World} (h : AllOk w) (r : Nat) (req : List Id) (prov : Id) (name : String) :
    AList.get? (uncachedLookupAll w r req prov) name = uncachedLookup w r req prov name := by
  unfold uncachedLookupAll uncachedLookup
  refine (foldl_reverse_overlay (w.reg r).ro _ (fun b k =>
      if !((w.reg b).adapters.any (·.order == req.length)) then none else
      match AList.get? (w.reg b).extendors prov with
      | none => none
      | some ext => if ext.isEmpty then none else
          lookupRec w req.length (getOrder ([] : Names) (w.reg b).adapters req.length) req ext k) ?_ [] name).trans ?_
  · intro acc b _ k
    cases hany : (!((w.reg b).adapters.any (·.order == req.length))) with
    | true => simp [hany]
    | false =>
      cases hext : AList.get? (w.reg b).extendors prov with
      | none => simp [hany, hext]
      | some ext =>
        cases hemp : ext.isEmpty with
        | true => simp [hany, hext, hemp]
        | false =>
          simp only [hany, hext, hemp, Bool.false_eq_true, if_false]
          exact lookupAllRec_get w _ _ req ext acc k (getOrder_ok (h b) _) rfl
  · cases List.findSome? _ (w.reg r).ro <;> simp [AList.get?]

/-- **C08 along the chain** (registry model, notifying flavour): on every reachable world and in every cache state,
`lookupAll(required, provided)` of a registry with bases sends each name to what `lookup(required, provided, name)` returns,
and has no entry for a name exactly when that lookup returns the default (`none = none`).  Guard: `WFHist`, needed only for
the two transparency theorems used (the agreement of the uncached walks, `uncachedLookupAll_get`, holds after any history
at all: `run_lok`). -/
theorem C08_registry_lookupAll_agrees (fuel : Nat) (sro iro : Id → List Id) (ops : List Op)
    (hwf : WFHist fuel (emptyPush sro iro) ops) (r : Nat) (req : List Id) (prov : Id) (name : String) :
    AList.get? (lookupAll (run fuel (emptyPush sro iro) ops) r req prov).2 name =
      (lookup (run fuel (emptyPush sro iro) ops) r req prov name).2 := by
  rw [C05_registry_transparent_lookupAll fuel sro iro ops hwf, C05_registry_transparent_lookup fuel sro iro ops hwf]
  exact uncachedLookupAll_get (run_lok fuel ops _ (lok_empty sro iro)).2 r req prov name

example : AList.get? (lookupAll (run 8 w0 (demo5.take 5)) 2 [5] 6).2 "" = (lookup (run 8 w0 (demo5.take 5)) 2 [5] 6 "").2 :=
  C08_registry_lookupAll_agrees 8 _ _ (demo5.take 5) ⟨demo5_wf.1, demo5_wf.2.1, demo5_wf.2.2.1, trivial, trivial, trivial⟩ 2 [5] 6 ""
example : (lookupAll (run 8 w0 (demo5.take 5)) 2 [5] 6).2 = [("", ⟨7, 1⟩)] := by decide +kernel

/-! ### what happens in the demo history -/
/-- this is what happens in the demo history: the first lookup finds the root's registration and caches it in the leaf; the
re-basing of the middle registry empties the leaf's cache; afterwards the leaf does not see the root's registration -/
example : (lookup (run 8 w0 (demo5.take 4)) 2 [5] 6 "").2 = some ⟨7, 1⟩ ∧
    ((run 8 w0 (demo5.take 5)).reg 2).cache = [((6, "", [5]), some ⟨7, 1⟩)] ∧
    ((run 8 w0 (demo5.take 5)).reg 2).ro = [2, 1, 0] ∧
    ((run 8 w0 (demo5.take 6)).reg 2).cache = [] ∧
    ((run 8 w0 (demo5.take 6)).reg 2).ro = [2, 1] ∧
    (lookup (run 8 w0 (demo5.take 6)) 2 [5] 6 "").2 = none ∧
    ((run 8 w0 demo5).reg 2).cache = [((6, "", [5]), none)] := by decide +kernel


/-! ### the guards are needed -/
/-- `fuel` too small for the depth of the chain (the size bound in `GoodBases` fails at `newreg 2 [1]`): the cascade of
`changed` stops above the leaf, whose cache keeps a stale `None` -/
def shallowOps : List Op := [.newreg 0 [], .newreg 1 [0], .newreg 2 [1], .lookup 2 [5] 6 "", .register 0 [some 5] 6 "" ⟨7, 1⟩]
example : (lookup (run 2 w0 shallowOps) 2 [5] 6 "").2 = none ∧ uncachedLookup (run 2 w0 shallowOps) 2 [5] 6 "" = some ⟨7, 1⟩ := by
  decide +kernel

/-- `newreg` on a registry that exists (guard "a new registry is new"): the blank record forgets the sub-registries, the
child is no longer notified -/
def renewOps : List Op := [.newreg 0 [], .newreg 1 [0], .newreg 0 [], .lookup 1 [5] 6 "", .register 0 [some 5] 6 "" ⟨7, 1⟩]
example : (lookup (run 8 w0 renewOps) 1 [5] 6 "").2 = none ∧ uncachedLookup (run 8 w0 renewOps) 1 [5] 6 "" = some ⟨7, 1⟩ := by
  decide +kernel

#print axioms C05_registry_cacheOk
#print axioms C05_registry_transparent_lookup
#print axioms C05_registry_transparent_lookupAll
#print axioms C05_registry_transparent_subscriptions
#print axioms C05_registry_erase
#print axioms C08_registry_lookupAll_agrees
end ZI.Registry
