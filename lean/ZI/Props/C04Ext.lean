import ZI.Props.C06
import ZI.Props.C04
import ZI.Props.C09
/-! # C04 (extendors) — content and order of `_extendors`; the most general provided interface wins

Python code this is about (zope.interface `adapter.py`): `BaseAdapterRegistry` keeps, per registry, the reference counts
`_provided[p]` of the provided interfaces of its registrations and subscriptions; `register` / `subscribe` add 1 and call
`AdapterLookupBase.add_extendor(p)` when the count goes 0 → 1, `unregister` / `unsubscribe` subtract and, at 0, delete the
entry and call `remove_extendor(p)`.  `add_extendor(p)` inserts `p` into `_extendors[i]` for every `i ∈ p.__iro__`, after
the entries `p` is-or-extends and before the others; `remove_extendor(p)` filters `p` out.  `_uncached_lookup` skips a
registry whose `_extendors.get(provided)` is missing or empty and otherwise walks `_lookup(…, extendors, …)`, which at its
innermost level takes the FIRST extendor that has a binding for the name.  `rebuild()` re-initialises the tables and
replays all registrations.

Model: `ZI.Registry` (`addExtendor`, `removeExtendor`, `register`, `unregister`, `subscribe`, `unsubscribe`, `rebuild`,
`lookupRec`, `uncachedLookup`), histories `Op` / `step` / `run` of `ZI.Props.C06`.  No model definition is changed.

Proved (all for EVERY history `run fuel (emptyPush sro iro) ops` — all ten operation kinds, any arguments, any fuel, no
well-formedness guard on the history; `run_extInv` gives the same from any start world satisfying `ExtInv`, e.g. an empty
world of the generation-checking flavour):

* `step_sameGraph` / `run_sameGraph`: `sro` / `iro` never change.
* `C04_extInv` (the invariant `ExtInv` = `TabOk` for every registry), unpacked as
  - `C04_extendors_content` (1a): `p ∈ _extendors[i] ↔ _provided[p] exists ∧ i ∈ iro p` — no hypothesis;
  - `C04_provided_count_ne_zero`: a stored count is never 0 — no hypothesis;
  - `C04_extendors_nodup` (1b) — hypothesis `∀ p, (iro p).Nodup`;
  - `C04_extendors_order` (1c): `Pairwise (fun e1 e2 => ¬ (e1 ≠ e2 ∧ e2 ∈ sro e1))` — hypotheses transitivity and
    antisymmetry of `e ∈ sro p`.  The hypotheses are needed: `nodup_needs_iro_nodup`, `order_needs_trans`,
    `order_needs_antisymm`.
* `lookupRec_most_general`, `C04_most_general`, `regLookup_most_general`, `C04_most_general_lookup` (2): at ANY depth the
  hit of the `_lookup` walk is under a path `req ++ [e]` with `e` a live provided interface that is-or-extends the requested
  one and that strictly extends no other candidate `e'` having the name bound under the same required part `req`;
  `lookupRec_lex` / `C04_most_general_lex`: that path is moreover the first one in the lexicographic enumeration in which
  the required components are ordered first (`rpaths_eq_flatMap`).
* `extGuard_iff`, `C04_guard`, `regLookup_none_of_no_provider` (3): the lookup guard skips a registry iff no live
  provided interface of it is-or-extends the requested one.
* corollaries under `GraphOk` (`diamond_ok`: a diamond satisfies it): `ext_mem_extends`, `ext_self_first` (an exact match
  on the provided interface is tried first).

"Live" means: has an entry in `_provided`.  This is the code's own notion; it is NOT the same as "some adapter or
subscriber is stored under it": re-registering a different value under an existing (required, provided, name) bumps the
count without adding an entry, so after the matching `unregister` the interface stays listed (see the evaluation of
`demoExtOps`, where `C` keeps count 1 with no adapter left).  That is harmless for lookups (the walk finds no binding).
The converse direction — what IS stored is live — is the content of the last part:

* (4, beyond the task list) `C04_count_ge`: after any history `_provided[p]` is at least the number of adapters and
  subscriber entries stored under the provided interface `p` (`CountOk`); hence `registered_live` / `subscribed_live` /
  `registered_in_extendors`, and **completeness through the extendors table** `regLookup_complete` /
  `C04_lookup_complete`: a stored adapter applicable to a lookup is never missed — not by the guard, not by the walk.

Generic helper lemmas (association lists, `getOrder` / `setOrder`, counting) live in the sub-namespace `ZI.Registry.Ext`. -/
namespace ZI.Registry
open ZI.RO

/-! ### association lists with lawful keys -/
namespace Ext
section AL
variable {κ α : Type} [BEq κ] [LawfulBEq κ]

omit [LawfulBEq κ] in
theorem get?_nil (k : κ) : AList.get? ([] : AList κ α) k = none := rfl

omit [LawfulBEq κ] in
theorem get?_cons (p : κ × α) (m : AList κ α) (k : κ) :
    AList.get? (p :: m) k = if p.1 == k then some p.2 else AList.get? m k := by
  unfold AList.get?
  cases h : p.1 == k <;> simp [h]

omit [LawfulBEq κ] in
theorem get?_append (m m' : AList κ α) (k : κ) :
    AList.get? (m ++ m') k = (AList.get? m k).or (AList.get? m' k) := by
  induction m with
  | nil => simp [get?_nil]
  | cons p t ih =>
    rw [List.cons_append, get?_cons, get?_cons]
    cases h : p.1 == k <;> simp [ih]

omit [LawfulBEq κ] in
theorem get?_none_of_not_any {m : AList κ α} {k : κ} (h : ¬ (m.any (·.1 == k)) = true) : AList.get? m k = none := by
  induction m with
  | nil => rfl
  | cons p t ih =>
    rw [List.any_cons] at h
    have h1 : (p.1 == k) = false := by cases e : p.1 == k <;> simp_all
    have h2 : ¬ (t.any (·.1 == k)) = true := fun e => h (by simp [e])
    rw [get?_cons, h1]; exact ih h2

omit [LawfulBEq κ] in
theorem get?_isSome_of_any {m : AList κ α} {k : κ} (h : (m.any (·.1 == k)) = true) : (AList.get? m k).isSome = true := by
  induction m with
  | nil => simp at h
  | cons p t ih =>
    rw [get?_cons]
    cases h1 : p.1 == k with
    | true => simp
    | false =>
      apply ih
      rw [List.any_cons] at h
      simpa [h1] using h

theorem get?_map_set (m : AList κ α) (k : κ) (v : α) (k' : κ) :
    AList.get? (m.map (fun p => if p.1 == k then (k, v) else p)) k' =
      if k == k' then (AList.get? m k).map (fun _ => v) else AList.get? m k' := by
  induction m with
  | nil => cases h : k == k' <;> simp [get?_nil]
  | cons p t ih =>
    rw [List.map_cons, get?_cons, ih]
    cases hp : p.1 == k with
    | true =>
      have e : p.1 = k := by simpa using hp
      subst e
      cases hk : p.1 == k' <;> simp [hk, get?_cons]
    | false =>
      simp only [Bool.false_eq_true, if_false]
      cases hk : k == k' with
      | true =>
        have e : k = k' := by simpa using hk
        subst e; simp [hp, get?_cons]
      | false => simp [get?_cons]

theorem get?_set (m : AList κ α) (k : κ) (v : α) (k' : κ) :
    AList.get? (AList.set m k v) k' = if k == k' then some v else AList.get? m k' := by
  unfold AList.set
  split
  · rename_i h
    rw [get?_map_set]
    cases hk : k == k' with
    | true =>
      have := get?_isSome_of_any h
      cases hg : AList.get? m k with
      | none => rw [hg] at this; cases this
      | some a => simp
    | false => simp
  · rename_i h
    rw [get?_append, get?_cons, get?_nil]
    cases hk : k == k' with
    | true =>
      have e : k = k' := by simpa using hk
      subst e; simp [get?_none_of_not_any h]
    | false => simp

theorem get?_erase (m : AList κ α) (k k' : κ) :
    AList.get? (AList.erase m k) k' = if k == k' then none else AList.get? m k' := by
  unfold AList.erase
  induction m with
  | nil => cases h : k == k' <;> simp [get?_nil]
  | cons p t ih =>
    cases hp : p.1 == k with
    | true =>
      have e : p.1 = k := by simpa using hp
      subst e
      rw [List.filter_cons_of_neg (by simp), ih, get?_cons]
      cases hk : p.1 == k' <;> simp
    | false =>
      rw [List.filter_cons_of_pos (by simp [hp]), get?_cons, get?_cons, ih]
      cases hk : k == k' with
      | true =>
        have e : k = k' := by simpa using hk
        subst e; simp [hp]
      | false => simp
end AL
end Ext
open Ext

/-! ### the two table updates as pure functions -/
/-- `_extendors.get(i, ())` -/
def look (ext : AList Id (List Id)) (i : Id) : List Id := (AList.get? ext i).getD []

/-- `for i in provided.__iro__: _extendors[i] = g(_extendors.get(i, ()))` -/
def updAll (g : List Id → List Id) (l : List Id) (ext : AList Id (List Id)) : AList Id (List Id) :=
  l.foldl (fun ext i => AList.set ext i (g ((AList.get? ext i).getD []))) ext

/-- the insertion of `add_extendor`: after the entries `p` is-or-extends, before the others -/
def insExt (S : Id → List Id) (p : Id) (cur : List Id) : List Id :=
  cur.filter (fun e => (S p).contains e) ++ [p] ++ cur.filter (fun e => !(S p).contains e)

/-- the removal of `remove_extendor` -/
def delExt (p : Id) (cur : List Id) : List Id := cur.filter (· != p)

theorem addExtendor_extendors (w : World) (x : Reg) (p : Id) :
    (addExtendor w x p).extendors = updAll (insExt w.sro p) (w.iro p) x.extendors := rfl
theorem removeExtendor_extendors (w : World) (x : Reg) (p : Id) :
    (removeExtendor w x p).extendors = updAll (delExt p) (w.iro p) x.extendors := rfl
theorem addExtendor_provided (w : World) (x : Reg) (p : Id) : (addExtendor w x p).provided = x.provided := rfl
theorem removeExtendor_provided (w : World) (x : Reg) (p : Id) : (removeExtendor w x p).provided = x.provided := rfl

theorem look_set (ext : AList Id (List Id)) (k : Id) (v : List Id) (i : Id) :
    look (AList.set ext k v) i = if k = i then v else look ext i := by
  unfold look
  rw [Ext.get?_set]
  by_cases h : k = i <;> simp [h]

namespace Ext
/-- `n`-fold application -/
def iter {α : Type} (g : α → α) : Nat → α → α
  | 0, a => a
  | n+1, a => iter g n (g a)

theorem iter_keeps {α : Type} (P : α → Prop) (g : α → α) (hg : ∀ a, P a → P (g a)) : ∀ (n : Nat) (a : α), P a → P (iter g n a)
  | 0, _, h => h
  | n+1, a, h => iter_keeps P g hg n (g a) (hg a h)

end Ext
/-- after the fold, the list under `i` has been updated once per occurrence of `i` in `l` -/
theorem look_updAll (g : List Id → List Id) : ∀ (l : List Id) (ext : AList Id (List Id)) (i : Id),
    look (updAll g l ext) i = iter g (l.count i) (look ext i)
  | [], ext, i => rfl
  | a :: l, ext, i => by
    have e : updAll g (a :: l) ext = updAll g l (AList.set ext a (g (look ext a))) := rfl
    rw [e, look_updAll g l, look_set]
    by_cases h : a = i
    · subst h; simp [iter]
    · have : ¬ (a == i) = true := by simpa using h
      simp [h]

/-! ### what one insertion / removal does to one list -/
/-- "`e1` is not listed before something it strictly extends" -/
def NoStrict (S : Id → List Id) (e1 e2 : Id) : Prop := ¬ (e1 ≠ e2 ∧ e2 ∈ S e1)
def SroTrans (S : Id → List Id) : Prop := ∀ p e f, e ∈ S p → f ∈ S e → f ∈ S p
def SroAntisymm (S : Id → List Id) : Prop := ∀ p e, e ∈ S p → p ∈ S e → p = e

theorem mem_insExt (S : Id → List Id) (p : Id) (cur : List Id) (q : Id) : q ∈ insExt S p cur ↔ q ∈ cur ∨ q = p := by
  unfold insExt
  simp only [List.mem_append, List.mem_filter, List.mem_singleton]
  cases h : (S p).contains q <;> simp <;> grind

theorem insExt_nodup (S : Id → List Id) (p : Id) (cur : List Id) (h : cur.Nodup) (hp : p ∉ cur) : (insExt S p cur).Nodup := by
  unfold insExt
  have hperm : (cur.filter (fun e => (S p).contains e) ++ [p] ++ cur.filter (fun e => !(S p).contains e)).Perm (p :: cur) := by
    have h1 := List.filter_append_perm (fun e => (S p).contains e) cur
    refine List.Perm.trans ?_ (List.Perm.cons p h1)
    rw [List.append_assoc]
    exact List.perm_middle
  rw [hperm.nodup_iff]
  exact List.nodup_cons.mpr ⟨hp, h⟩

theorem insExt_order (S : Id → List Id) (ht : SroTrans S) (ha : SroAntisymm S) (p : Id) (cur : List Id)
    (h : cur.Pairwise (NoStrict S)) : (insExt S p cur).Pairwise (NoStrict S) := by
  unfold insExt
  rw [List.pairwise_append, List.pairwise_append]
  refine ⟨⟨h.filter _, List.pairwise_singleton _ _, ?_⟩, h.filter _, ?_⟩
  · intro a ha' b hb
    rw [List.mem_singleton] at hb; subst hb
    have hab : a ∈ S b := by simpa using (List.mem_filter.mp ha').2
    exact fun ⟨hne, hba⟩ => hne (ha b a hab hba).symm
  · intro a ha' b hb
    have hbp : b ∉ S p := by simpa using (List.mem_filter.mp hb).2
    rcases List.mem_append.mp ha' with ha1 | ha1
    · have hap : a ∈ S p := by simpa using (List.mem_filter.mp ha1).2
      exact fun ⟨_, hba⟩ => hbp (ht p a b hap hba)
    · rw [List.mem_singleton] at ha1; subst ha1
      exact fun ⟨_, hba⟩ => hbp hba

theorem mem_delExt (p : Id) (cur : List Id) (q : Id) : q ∈ delExt p cur ↔ q ∈ cur ∧ q ≠ p := by
  unfold delExt; simp [List.mem_filter]

theorem delExt_nodup (p : Id) (cur : List Id) (h : cur.Nodup) : (delExt p cur).Nodup := List.Pairwise.filter _ h
theorem delExt_order (S : Id → List Id) (p : Id) (cur : List Id) (h : cur.Pairwise (NoStrict S)) :
    (delExt p cur).Pairwise (NoStrict S) := List.Pairwise.filter _ h

theorem mem_iter_ins (g : List Id → List Id) (p : Id) (hg : ∀ c q, q ∈ g c ↔ q ∈ c ∨ q = p) :
    ∀ (n : Nat) (cur : List Id) (q : Id), q ∈ iter g n cur ↔ q ∈ cur ∨ (0 < n ∧ q = p)
  | 0, cur, q => by simp [iter]
  | n+1, cur, q => by
    rw [iter, mem_iter_ins g p hg n, hg]
    constructor
    · rintro ((h | h) | ⟨_, h⟩)
      · exact Or.inl h
      · exact Or.inr ⟨Nat.succ_pos n, h⟩
      · exact Or.inr ⟨Nat.succ_pos n, h⟩
    · rintro (h | ⟨_, h⟩)
      · exact Or.inl (Or.inl h)
      · exact Or.inl (Or.inr h)

theorem mem_iter_del (g : List Id → List Id) (p : Id) (hg : ∀ c q, q ∈ g c ↔ q ∈ c ∧ q ≠ p) :
    ∀ (n : Nat) (cur : List Id) (q : Id), q ∈ iter g n cur ↔ q ∈ cur ∧ (n = 0 ∨ q ≠ p)
  | 0, cur, q => by simp [iter]
  | n+1, cur, q => by
    rw [iter, mem_iter_del g p hg n, hg]
    constructor
    · rintro ⟨⟨h1, h2⟩, _⟩; exact ⟨h1, Or.inr h2⟩
    · rintro ⟨h1, h2 | h2⟩
      · cases h2
      · exact ⟨⟨h1, h2⟩, Or.inr h2⟩

/-! ### the invariant of one registry's `_provided` / `_extendors` pair -/
/-- `S` = `__sro__`, `I` = `__iro__`.  The graph facts that the `nodup` / `order` parts need are hypotheses of those
parts, so that the invariant itself holds for every history over every graph. -/
structure TabOk (S I : Id → List Id) (prov : AList Id Nat) (ext : AList Id (List Id)) : Prop where
  content : ∀ i p, p ∈ look ext i ↔ ((AList.get? prov p).isSome = true ∧ i ∈ I p)
  count : ∀ p, AList.get? prov p ≠ some 0
  nodup : (∀ p, (I p).Nodup) → ∀ i, (look ext i).Nodup
  order : SroTrans S → SroAntisymm S → ∀ i, (look ext i).Pairwise (NoStrict S)

theorem tabOk_empty (S I : Id → List Id) : TabOk S I [] [] :=
  ⟨fun i p => by simp [look, AList.get?], fun p => by simp [AList.get?], fun _ i => by simp [look, AList.get?],
   fun _ _ i => by simp [look, AList.get?]⟩

/-- 0 → 1: the count appears and `add_extendor` runs -/
theorem tabOk_add {S I : Id → List Id} {prov : AList Id Nat} {ext : AList Id (List Id)} (h : TabOk S I prov ext) (p : Id)
    (hp : AList.get? prov p = none) (n : Nat) (hn : n ≠ 0) :
    TabOk S I (AList.set prov p n) (updAll (insExt S p) (I p) ext) := by
  have hnot : ∀ i, p ∉ look ext i := fun i hm => by
    have := ((h.content i p).mp hm).1; rw [hp] at this; cases this
  refine ⟨fun i q => ?_, fun q => ?_, fun hN i => ?_, fun ht ha i => ?_⟩
  · rw [look_updAll, mem_iter_ins _ p (fun c q => mem_insExt S p c q), h.content, Ext.get?_set, List.count_pos_iff]
    by_cases hq : p = q
    · subst hq; simp [hp]
    · have hq' : ¬ q = p := fun e => hq e.symm
      simp [hq, hq']
  · rw [Ext.get?_set]
    by_cases hq : p = q
    · simp [hq, hn]
    · simp [hq]; exact h.count q
  · rw [look_updAll]
    have hc : (I p).count i = 0 ∨ (I p).count i = 1 := by
      have := List.nodup_iff_count.mp (hN p) i; omega
    rcases hc with hc | hc
    · rw [hc]; exact h.nodup hN i
    · rw [hc]; exact insExt_nodup S p _ (h.nodup hN i) (hnot i)
  · rw [look_updAll]
    exact iter_keeps (fun c => c.Pairwise (NoStrict S)) _ (fun c hc => insExt_order S ht ha p c hc) _ _ (h.order ht ha i)

/-- n → n+1 (n ≠ 0) and n → n-1 (≠ 0): only the count changes -/
theorem tabOk_bump {S I : Id → List Id} {prov : AList Id Nat} {ext : AList Id (List Id)} (h : TabOk S I prov ext) (p : Id)
    (hp : (AList.get? prov p).isSome = true) (n : Nat) (hn : n ≠ 0) : TabOk S I (AList.set prov p n) ext := by
  refine ⟨fun i q => ?_, fun q => ?_, h.nodup, h.order⟩
  · rw [h.content, Ext.get?_set]
    by_cases hq : p = q
    · subst hq; simp [hp]
    · simp [hq]
  · rw [Ext.get?_set]
    by_cases hq : p = q
    · simp [hq, hn]
    · simp [hq]; exact h.count q

/-- → 0: the count is erased and `remove_extendor` runs -/
theorem tabOk_drop {S I : Id → List Id} {prov : AList Id Nat} {ext : AList Id (List Id)} (h : TabOk S I prov ext) (p : Id) :
    TabOk S I (AList.erase prov p) (updAll (delExt p) (I p) ext) := by
  refine ⟨fun i q => ?_, fun q => ?_, fun hN i => ?_, fun ht ha i => ?_⟩
  · rw [look_updAll, mem_iter_del _ p (fun c q => mem_delExt p c q), h.content, Ext.get?_erase]
    by_cases hq : p = q
    · subst hq
      by_cases hi : i ∈ I p
      · have : (I p).count i ≠ 0 := by have := List.count_pos_iff.mpr hi; omega
        simp [this]
      · simp [hi]
    · have hq' : ¬ q = p := fun e => hq e.symm
      simp [hq, hq']
  · rw [Ext.get?_erase]
    by_cases hq : p = q
    · simp [hq]
    · simp [hq]; exact h.count q
  · rw [look_updAll]
    exact iter_keeps (fun c => c.Nodup) _ (fun c hc => delExt_nodup p c hc) _ _ (h.nodup hN i)
  · rw [look_updAll]
    exact iter_keeps (fun c => c.Pairwise (NoStrict S)) _ (fun c hc => delExt_order S p c hc) _ _ (h.order ht ha i)

/-! ### frame: what leaves every registry's `_provided` / `_extendors` / `_adapters` / `_subscribers` (and the
specification graph) alone -/
structure SameTab (w w' : World) : Prop where
  sro : w'.sro = w.sro
  iro : w'.iro = w.iro
  provided : ∀ x, (w'.reg x).provided = (w.reg x).provided
  extendors : ∀ x, (w'.reg x).extendors = (w.reg x).extendors
  adapters : ∀ x, (w'.reg x).adapters = (w.reg x).adapters
  subs : ∀ x, (w'.reg x).subs = (w.reg x).subs

theorem SameTab.refl (w : World) : SameTab w w := ⟨rfl, rfl, fun _ => rfl, fun _ => rfl, fun _ => rfl, fun _ => rfl⟩
theorem SameTab.trans {a b c : World} (h1 : SameTab a b) (h2 : SameTab b c) : SameTab a c :=
  ⟨h2.sro.trans h1.sro, h2.iro.trans h1.iro, fun x => (h2.provided x).trans (h1.provided x),
   fun x => (h2.extendors x).trans (h1.extendors x), fun x => (h2.adapters x).trans (h1.adapters x),
   fun x => (h2.subs x).trans (h1.subs x)⟩

theorem sameTab_setReg (w : World) (r : Nat) (x : Reg) (hp : x.provided = (w.reg r).provided)
    (he : x.extendors = (w.reg r).extendors) (ha : x.adapters = (w.reg r).adapters) (hs : x.subs = (w.reg r).subs) :
    SameTab w (w.setReg r x) := by
  refine ⟨rfl, rfl, fun y => ?_, fun y => ?_, fun y => ?_, fun y => ?_⟩ <;>
  · by_cases h : y = r
    · subst h; rw [reg_setReg_same]; assumption
    · rw [reg_setReg_ne _ h]

theorem foldl_sameTab {α} (f : World → α → World) (h : ∀ w a, SameTab w (f w a)) :
    ∀ (l : List α) (w : World), SameTab w (l.foldl f w)
  | [], w => SameTab.refl w
  | a :: l, w => (h w a).trans (foldl_sameTab f h l (f w a))

theorem verifyingChangedBase_sameTab (w : World) (r : Nat) : SameTab w (verifyingChangedBase w r) :=
  sameTab_setReg w r _ rfl rfl rfl rfl

theorem verifyingChanged_sameTab (w : World) (r : Nat) : SameTab w (verifyingChanged w r) := by
  unfold verifyingChanged
  refine SameTab.trans ?_ (verifyingChangedBase_sameTab _ r)
  exact sameTab_setReg w r _ rfl rfl rfl rfl

/-- a change notification (either flavour, cascade included) touches generations, caches, `ro` snapshots only -/
theorem changed_sameTab : ∀ (f : Nat) (w : World) (r : Nat), SameTab w (changed f w r)
  | 0, w, _ => SameTab.refl w
  | f+1, w, r => by
    unfold changed
    simp only []
    have h1 : SameTab w (w.setReg r { w.reg r with generation := (w.reg r).generation + 1 }) :=
      sameTab_setReg w r _ rfl rfl rfl rfl
    refine h1.trans ?_
    generalize (w.setReg r { w.reg r with generation := (w.reg r).generation + 1 }) = w1
    split
    · exact verifyingChanged_sameTab w1 r
    · refine (sameTab_setReg w1 r (clearCaches (w1.reg r)) rfl rfl rfl rfl).trans ?_
      exact foldl_sameTab _ (fun w s => changed_sameTab f w s) _ _

theorem verify_sameTab (w : World) (r : Nat) : SameTab w (verify w r) := by
  unfold verify
  split
  · exact SameTab.refl w
  · simp only []
    split
    · exact verifyingChanged_sameTab w r
    · exact SameTab.refl w

theorem setBasesOwn_sameTab (fuel : Nat) (w : World) (r : Nat) (bs : List Nat) : SameTab w (setBasesOwn fuel w r bs) := by
  unfold setBasesOwn
  simp only []
  refine SameTab.trans ?_ (changed_sameTab fuel _ r)
  refine SameTab.trans ?_ (sameTab_setReg _ r _ rfl rfl rfl rfl)
  exact sameTab_setReg w r _ rfl rfl rfl rfl

theorem moveSubreg_sameTab (w : World) (r : Nat) (old bs : List Nat) : SameTab w (moveSubreg w r old bs) := by
  unfold moveSubreg
  simp only []
  refine (foldl_sameTab _ (fun w b => ?_) old w).trans (foldl_sameTab _ (fun w b => ?_) bs _)
  · split
    · exact SameTab.refl w
    · exact sameTab_setReg w b _ rfl rfl rfl rfl
  · split
    · exact SameTab.refl w
    · exact sameTab_setReg w b _ rfl rfl rfl rfl

theorem setBasesPush_sameTab (fuel : Nat) : ∀ (f : Nat) (w : World) (r : Nat) (bs : List Nat),
    SameTab w (setBasesPush fuel f w r bs)
  | 0, w, _, _ => SameTab.refl w
  | f+1, w, r, bs => by
    rw [setBasesPush_succ]
    refine SameTab.trans ?_ (foldl_sameTab _ (fun w s => setBasesPush_sameTab fuel f w s _) _ _)
    exact (moveSubreg_sameTab w r (w.reg r).bases bs).trans (setBasesOwn_sameTab fuel _ r bs)

theorem setBases_sameTab (fuel : Nat) (w : World) (r : Nat) (bs : List Nat) : SameTab w (setBases fuel w r bs) := by
  unfold setBases
  split
  · exact setBasesOwn_sameTab fuel w r bs
  · exact setBasesPush_sameTab fuel fuel w r bs

theorem lookup_sameTab (w : World) (r : Nat) (req : List Id) (prov : Id) (name : String) :
    SameTab w (lookup w r req prov name).1 := by
  unfold lookup
  simp only []
  split
  · exact verify_sameTab w r
  · exact (verify_sameTab w r).trans (sameTab_setReg _ r _ rfl rfl rfl rfl)
theorem lookupAll_sameTab (w : World) (r : Nat) (req : List Id) (prov : Id) : SameTab w (lookupAll w r req prov).1 := by
  unfold lookupAll
  simp only []
  split
  · exact verify_sameTab w r
  · exact (verify_sameTab w r).trans (sameTab_setReg _ r _ rfl rfl rfl rfl)
theorem subscriptions_sameTab (w : World) (r : Nat) (req : List Id) (prov : Option Id) :
    SameTab w (subscriptions w r req prov).1 := by
  unfold subscriptions
  simp only []
  split
  · exact verify_sameTab w r
  · exact (verify_sameTab w r).trans (sameTab_setReg _ r _ rfl rfl rfl rfl)

/-! ### the world invariant and the four mutators -/
def RegOk (w : World) (x : Reg) : Prop := TabOk w.sro w.iro x.provided x.extendors
/-- every registry's `_provided` / `_extendors` pair is consistent -/
def ExtInv (w : World) : Prop := ∀ r, RegOk w (w.reg r)

theorem extInv_of_sameTab {w w' : World} (h : ExtInv w) (s : SameTab w w') : ExtInv w' := fun r => by
  unfold RegOk; rw [s.sro, s.iro, s.provided, s.extendors]; exact h r

theorem extInv_setReg {w : World} (h : ExtInv w) (r : Nat) (x : Reg) (hx : RegOk w x) : ExtInv (w.setReg r x) := fun y => by
  by_cases hy : y = r
  · subst hy; rw [reg_setReg_same]; exact hx
  · rw [reg_setReg_ne _ hy]; exact h y

theorem extInv_mut (fuel : Nat) {w : World} (h : ExtInv w) (r : Nat) (x : Reg) (hx : RegOk w x) :
    ExtInv (changed fuel (w.setReg r x) r) :=
  extInv_of_sameTab (extInv_setReg h r x hx) (changed_sameTab fuel _ r)

/-- the count goes up by one (`register`, `subscribe`) -/
theorem tabOk_inc {S I : Id → List Id} {prov : AList Id Nat} {ext : AList Id (List Id)} (h : TabOk S I prov ext) (p : Id) :
    TabOk S I (AList.set prov p ((AList.get? prov p).getD 0 + 1))
      (if ((AList.get? prov p).getD 0 + 1 == 1) = true then updAll (insExt S p) (I p) ext else ext) := by
  cases hg : AList.get? prov p with
  | none => simpa using tabOk_add h p hg 1 (by decide)
  | some c =>
    have hc : c ≠ 0 := fun e => h.count p (by rw [hg, e])
    simpa [hc] using tabOk_bump h p (by rw [hg]; rfl) (c + 1) (by omega)

/-- the count goes down to `n` (`unregister`, `unsubscribe`); `n ≠ 0` only if there was a count -/
theorem tabOk_dec {S I : Id → List Id} {prov : AList Id Nat} {ext : AList Id (List Id)} (h : TabOk S I prov ext) (p : Id)
    (n : Nat) (hn : n ≠ 0 → (AList.get? prov p).isSome = true) :
    TabOk S I (if (n == 0) = true then AList.erase prov p else AList.set prov p n)
      (if (n == 0) = true then updAll (delExt p) (I p) ext else ext) := by
  by_cases h0 : n = 0
  · subst h0; simpa using tabOk_drop h p
  · simpa [h0] using tabOk_bump h p (hn h0) n h0

namespace Ext
theorem getD_ne_zero_isSome {prov : AList Id Nat} {p : Id} (h : (AList.get? prov p).getD 0 ≠ 0) :
    (AList.get? prov p).isSome = true := by
  cases hg : AList.get? prov p with
  | none => rw [hg] at h; exact absurd rfl h
  | some c => rfl

theorem getD_sub_isSome {prov : AList Id Nat} {p : Id} {a b : Nat} (hab : a ≤ b)
    (hn : (AList.get? prov p).getD 0 + a - b ≠ 0) : (AList.get? prov p).isSome = true :=
  getD_ne_zero_isSome (fun e => hn (by rw [e]; omega))

end Ext
/-- the shape of the record `register` / `subscribe` store -/
theorem regOk_inc {w : World} {x : Reg} (h : RegOk w x) (p : Id) (x1 : Reg)
    (hp : x1.provided = AList.set x.provided p ((AList.get? x.provided p).getD 0 + 1)) (he : x1.extendors = x.extendors) :
    RegOk w (if ((AList.get? x.provided p).getD 0 + 1 == 1) = true then addExtendor w x1 p else x1) := by
  have := tabOk_inc h p
  split
  · rename_i hc; rw [if_pos hc] at this
    unfold RegOk; rw [addExtendor_extendors, addExtendor_provided, hp, he]; exact this
  · rename_i hc; rw [if_neg hc] at this
    unfold RegOk; rw [hp, he]; exact this

/-- the shape of the record `unregister` / `unsubscribe` store -/
theorem regOk_dec {w : World} {x : Reg} (h : RegOk w x) (p : Id) (n : Nat)
    (hn : n ≠ 0 → (AList.get? x.provided p).isSome = true) (x1 x2 : Reg)
    (h1p : x1.provided = AList.erase x.provided p) (h1e : x1.extendors = x.extendors)
    (h2p : x2.provided = AList.set x.provided p n) (h2e : x2.extendors = x.extendors) :
    RegOk w (if (n == 0) = true then removeExtendor w x1 p else x2) := by
  have := tabOk_dec h p n hn
  split
  · rename_i hc; rw [if_pos hc, if_pos hc] at this
    unfold RegOk; rw [removeExtendor_extendors, removeExtendor_provided, h1p, h1e]; exact this
  · rename_i hc; rw [if_neg hc, if_neg hc] at this
    unfold RegOk; rw [h2p, h2e]; exact this

theorem register_extInv (fuel : Nat) {w : World} (h : ExtInv w) (r : Nat) (req : List (Option Id)) (prov : Id)
    (name : String) (v : Val) : ExtInv (register fuel w r req prov name v) := by
  unfold register
  simp only []
  split
  · exact h
  · exact extInv_mut fuel h r _ (regOk_inc (h r) prov _ rfl rfl)

theorem subscribe_extInv (fuel : Nat) {w : World} (h : ExtInv w) (r : Nat) (req : List (Option Id)) (prov : Option Id)
    (v : Val) : ExtInv (subscribe fuel w r req prov v) := by
  unfold subscribe
  simp only []
  apply extInv_mut fuel h
  split
  · exact h r
  · exact regOk_inc (h r) _ _ rfl rfl

theorem unregister_extInv (fuel : Nat) {w : World} (h : ExtInv w) (r : Nat) (req : List (Option Id)) (prov : Id)
    (name : String) (v : Option Val) : ExtInv (unregister fuel w r req prov name v) := by
  unfold unregister
  simp only []
  repeat' (first
    | exact h
    | exact extInv_mut fuel h r _ (regOk_dec (h r) prov _ (fun hn => getD_ne_zero_isSome (by omega)) _ _ rfl rfl rfl rfl)
    | split)

theorem unsubscribe_extInv (fuel : Nat) {w : World} (h : ExtInv w) (r : Nat) (req : List (Option Id)) (prov : Option Id)
    (v : Option Val) : ExtInv (unsubscribe fuel w r req prov v) := by
  unfold unsubscribe
  simp only []
  repeat' (first
    | exact h
    | (apply extInv_mut fuel h
       split
       · exact h r
       · refine regOk_dec (h r) _ _ (getD_sub_isSome ?_) _ _ rfl rfl rfl rfl
         first | exact Nat.zero_le _ | exact List.length_filter_le _ _)
    | split)

theorem foldl_extInv {α} (f : World → α → World) (hf : ∀ w a, ExtInv w → ExtInv (f w a)) :
    ∀ (l : List α) (w : World), ExtInv w → ExtInv (l.foldl f w)
  | [], _, h => h
  | a :: l, w, h => foldl_extInv f hf l (f w a) (hf w a h)

/-- `rebuild()`: the emptied tables satisfy the invariant, the replayed `register` / `subscribe` calls re-establish it -/
theorem rebuild_extInv (fuel : Nat) {w : World} (h : ExtInv w) (r : Nat) : ExtInv (rebuild fuel w r) := by
  unfold rebuild
  simp only []
  apply foldl_extInv _ (fun w e hw => subscribe_extInv fuel hw r _ _ _)
  apply foldl_extInv _ (fun w e hw => register_extInv fuel hw r _ _ _ _)
  refine extInv_of_sameTab ?_ (setBases_sameTab fuel _ r _)
  exact extInv_setReg h r _ (tabOk_empty _ _)

/-! ### the specification graph never changes -/
structure SameGraph (w w' : World) : Prop where
  sro : w'.sro = w.sro
  iro : w'.iro = w.iro
theorem SameGraph.refl (w : World) : SameGraph w w := ⟨rfl, rfl⟩
theorem SameGraph.trans {a b c : World} (h1 : SameGraph a b) (h2 : SameGraph b c) : SameGraph a c :=
  ⟨h2.sro.trans h1.sro, h2.iro.trans h1.iro⟩
theorem SameTab.graph {w w' : World} (s : SameTab w w') : SameGraph w w' := ⟨s.sro, s.iro⟩
theorem sameGraph_mut (fuel : Nat) (w : World) (r : Nat) (x : Reg) : SameGraph w (changed fuel (w.setReg r x) r) :=
  ⟨(changed_sameTab fuel (w.setReg r x) r).sro, (changed_sameTab fuel (w.setReg r x) r).iro⟩
theorem foldl_sameGraph {α} (f : World → α → World) (h : ∀ w a, SameGraph w (f w a)) :
    ∀ (l : List α) (w : World), SameGraph w (l.foldl f w)
  | [], w => SameGraph.refl w
  | a :: l, w => (h w a).trans (foldl_sameGraph f h l (f w a))

theorem register_sameGraph (fuel : Nat) (w : World) (r : Nat) (req : List (Option Id)) (prov : Id) (name : String) (v : Val) :
    SameGraph w (register fuel w r req prov name v) := by
  unfold register
  simp only []
  repeat' (first | exact SameGraph.refl w | exact sameGraph_mut fuel w r _ | split)
theorem unregister_sameGraph (fuel : Nat) (w : World) (r : Nat) (req : List (Option Id)) (prov : Id) (name : String)
    (v : Option Val) : SameGraph w (unregister fuel w r req prov name v) := by
  unfold unregister
  simp only []
  repeat' (first | exact SameGraph.refl w | exact sameGraph_mut fuel w r _ | split)
theorem subscribe_sameGraph (fuel : Nat) (w : World) (r : Nat) (req : List (Option Id)) (prov : Option Id) (v : Val) :
    SameGraph w (subscribe fuel w r req prov v) := by
  unfold subscribe
  simp only []
  repeat' (first | exact SameGraph.refl w | exact sameGraph_mut fuel w r _ | split)
theorem unsubscribe_sameGraph (fuel : Nat) (w : World) (r : Nat) (req : List (Option Id)) (prov : Option Id)
    (v : Option Val) : SameGraph w (unsubscribe fuel w r req prov v) := by
  unfold unsubscribe
  simp only []
  repeat' (first | exact SameGraph.refl w | exact sameGraph_mut fuel w r _ | split)
theorem rebuild_sameGraph (fuel : Nat) (w : World) (r : Nat) : SameGraph w (rebuild fuel w r) := by
  unfold rebuild
  simp only []
  refine SameGraph.trans ?_ (foldl_sameGraph _ (fun w e => subscribe_sameGraph fuel w r _ _ _) _ _)
  refine SameGraph.trans ?_ (foldl_sameGraph _ (fun w e => register_sameGraph fuel w r _ _ _ _) _ _)
  exact ⟨(setBases_sameTab fuel _ r _).sro, (setBases_sameTab fuel _ r _).iro⟩

/-- `sro` / `iro` are the same after every operation … -/
theorem step_sameGraph (fuel : Nat) (w : World) (op : Op) : SameGraph w (step fuel w op) := by
  cases op with
  | newreg r bs => exact ⟨(setBases_sameTab fuel (w.setReg r {}) r bs).sro, (setBases_sameTab fuel (w.setReg r {}) r bs).iro⟩
  | setBases r bs => exact (setBases_sameTab fuel w r bs).graph
  | rebuild r => exact rebuild_sameGraph fuel w r
  | register r req p n v => exact register_sameGraph fuel w r req p n v
  | unregister r req p n v => exact unregister_sameGraph fuel w r req p n v
  | subscribe r req p v => exact subscribe_sameGraph fuel w r req p v
  | unsubscribe r req p v => exact unsubscribe_sameGraph fuel w r req p v
  | lookup r req p n => exact (lookup_sameTab w r req p n).graph
  | lookupAll r req p => exact (lookupAll_sameTab w r req p).graph
  | subscriptions r req p => exact (subscriptions_sameTab w r req p).graph

/-- … and after every history -/
theorem run_sameGraph (fuel : Nat) : ∀ (ops : List Op) (w : World), SameGraph w (run fuel w ops)
  | [], w => SameGraph.refl w
  | op :: ops, w => (step_sameGraph fuel w op).trans (run_sameGraph fuel ops (step fuel w op))

/-- every operation keeps the invariant — no guard on the operation, the registry graph, the flavour or the fuel -/
theorem step_extInv (fuel : Nat) {w : World} (h : ExtInv w) (op : Op) : ExtInv (step fuel w op) := by
  cases op with
  | newreg r bs =>
    exact extInv_of_sameTab (extInv_setReg h r {} (tabOk_empty _ _)) (setBases_sameTab fuel (w.setReg r {}) r bs)
  | setBases r bs => exact extInv_of_sameTab h (setBases_sameTab fuel w r bs)
  | rebuild r => exact rebuild_extInv fuel h r
  | register r req p n v => exact register_extInv fuel h r req p n v
  | unregister r req p n v => exact unregister_extInv fuel h r req p n v
  | subscribe r req p v => exact subscribe_extInv fuel h r req p v
  | unsubscribe r req p v => exact unsubscribe_extInv fuel h r req p v
  | lookup r req p n => exact extInv_of_sameTab h (lookup_sameTab w r req p n)
  | lookupAll r req p => exact extInv_of_sameTab h (lookupAll_sameTab w r req p)
  | subscriptions r req p => exact extInv_of_sameTab h (subscriptions_sameTab w r req p)

theorem run_extInv (fuel : Nat) : ∀ (ops : List Op) {w : World}, ExtInv w → ExtInv (run fuel w ops)
  | [], _, h => h
  | op :: ops, _, h => run_extInv fuel ops (step_extInv fuel h op)

namespace Ext
theorem reg_of_no_regs (w : World) (h : w.regs = []) (r : Nat) : w.reg r = {} := by
  simp [World.reg, h, AList.get?]

end Ext
/-- a world without registries (either flavour) -/
theorem extInv_of_no_regs (w : World) (h : w.regs = []) : ExtInv w := fun r => by
  rw [reg_of_no_regs w h r]; exact tabOk_empty _ _

theorem extInv_empty (sro iro : Id → List Id) : ExtInv (emptyPush sro iro) := extInv_of_no_regs _ rfl

/-! ### the walk over an ordered extendors list -/
namespace Ext
theorem findSome?_first_pairwise {α β : Type} {R : α → α → Prop} {l : List α} {f : α → Option β} {v : β}
    (hp : l.Pairwise R) (h : l.findSome? f = some v) :
    ∃ e ∈ l, f e = some v ∧ ∀ e' ∈ l, (f e').isSome = true → e' = e ∨ R e e' := by
  obtain ⟨pre, e, post, hl, hv, hpre⟩ := List.findSome?_eq_some_iff.mp h
  subst hl
  refine ⟨e, by simp, hv, fun e' he' hs => ?_⟩
  rcases List.mem_append.mp he' with h1 | h1
  · rw [hpre e' h1] at hs; cases hs
  · rcases List.mem_cons.mp h1 with h2 | h2
    · exact Or.inl h2
    · right
      have := (List.pairwise_append.mp hp).2.1
      exact (List.pairwise_cons.mp this).1 e' h2

end Ext
/-- the `_lookup` walk at any depth over an extendors list in which nothing is listed before something it strictly
extends: the hit is under a path `req ++ [e]` such that no other extendor `e'` that also has a binding for the name under
the same required part `req` is strictly more general than `e` -/
theorem lookupRec_most_general (w : World) : ∀ (n : Nat) (m : Level Names (n+1)) (specs ext : List Id) (name : String) (v : Val),
    specs.length = n → ext.Pairwise (NoStrict w.sro) → lookupRec w n m specs ext name = some v →
    ∃ (req : List Id) (e : Id), ReqOk w req specs ∧ e ∈ ext ∧ rhit n m name (req.map some ++ [some e]) = some v ∧
      ∀ e' ∈ ext, (rhit n m name (req.map some ++ [some e'])).isSome = true → ¬ (e ≠ e' ∧ e' ∈ w.sro e) := by
  intro n
  induction n with
  | zero =>
    intro m specs ext name v hl hO h
    have : specs = [] := by cases specs <;> simp_all
    subst this
    have e0 : lookupRec w 0 m [] ext name = ext.findSome? fun e => rhit 0 m name [some e] := by
      simp only [lookupRec]
      apply findSome?_congr''
      intro e _
      rw [rhit_zero]
      cases AList.get? (kidsOf m) (some e) <;> rfl
    rw [e0] at h
    obtain ⟨e, he, hv, hbest⟩ := findSome?_first_pairwise hO h
    refine ⟨[], e, ReqOk.nil, he, hv, fun e' he' hs => ?_⟩
    rcases hbest e' he' hs with h1 | h1
    · exact fun ⟨hne, _⟩ => hne h1.symm
    · exact h1
  | succ n ih =>
    intro m specs ext name v hl hO h
    cases specs with
    | nil => simp at hl
    | cons s rest =>
      have hrest : rest.length = n := by simpa using hl
      simp only [lookupRec] at h
      obtain ⟨sp, hsp, hv⟩ := List.exists_of_findSome?_eq_some h
      cases hg : AList.get? (kidsOf m) (some sp) with
      | none => rw [hg] at hv; cases hv
      | some comps =>
        rw [hg] at hv
        simp only [] at hv
        split at hv
        · cases hv
        · obtain ⟨req, e, hreq, he, hhit, hbest⟩ := ih comps rest ext name v hrest hO hv
          refine ⟨sp :: req, e, ReqOk.cons hsp hreq, he, ?_, fun e' he' hs => ?_⟩
          · rw [List.map_cons, List.cons_append, rhit_cons, hg]; exact hhit
          · rw [List.map_cons, List.cons_append, rhit_cons, hg] at hs
            exact hbest e' he' hs

/-! ### what a real interface DAG guarantees -/
/-- the facts about `__sro__` / `__iro__` used below (each theorem names the ones it needs): `e ∈ w.sro p` = "`p` is or
extends `e`" is reflexive, transitive and antisymmetric; `__iro__` is the duplicate-free interface part of `__sro__`, and
its members are interfaces (an interface heads its own `__iro__`) -/
structure GraphOk (w : World) : Prop where
  refl : ∀ p, p ∈ w.sro p
  trans : ∀ p e f, e ∈ w.sro p → f ∈ w.sro e → f ∈ w.sro p
  antisymm : ∀ p e, e ∈ w.sro p → p ∈ w.sro e → p = e
  iro_sub : ∀ p i, i ∈ w.iro p → i ∈ w.sro p
  iro_self : ∀ p i, i ∈ w.iro p → i ∈ w.iro i
  iro_nodup : ∀ p, (w.iro p).Nodup

theorem GraphOk.of_sameGraph {w w' : World} (g : GraphOk w) (s : SameGraph w w') : GraphOk w' := by
  obtain ⟨a, b, c, d, e, f⟩ := g
  constructor <;> simp only [s.sro, s.iro] <;> assumption

/-- a diamond `D(B, C)`, `B(A)`, `C(A)`, `A(Interface)` (4, 2, 3, 1, 0), the declaration `5` of a class implementing `D`
(its `__iro__` does not contain it), every other id an interface directly below `Interface` -/
def diamondSro : Id → List Id
  | 0 => [0]
  | 1 => [1, 0]
  | 2 => [2, 1, 0]
  | 3 => [3, 1, 0]
  | 4 => [4, 2, 3, 1, 0]
  | 5 => [5, 4, 2, 3, 1, 0]
  | i => [i, 0]
def diamondIro : Id → List Id
  | 0 => [0]
  | 1 => [1, 0]
  | 2 => [2, 1, 0]
  | 3 => [3, 1, 0]
  | 4 => [4, 2, 3, 1, 0]
  | 5 => [4, 2, 3, 1, 0]
  | i => [i, 0]

namespace Ext
theorem dsro_big (i : Nat) (h : 6 ≤ i) : diamondSro i = [i, 0] := by
  unfold diamondSro; split <;> first | omega | rfl
theorem diro_big (i : Nat) (h : 6 ≤ i) : diamondIro i = [i, 0] := by
  unfold diamondIro; split <;> first | omega | rfl
theorem dsro_small : ∀ p, p < 6 → ∀ e ∈ diamondSro p, e < 6 := by decide
theorem diro_small : ∀ p, p < 6 → ∀ e ∈ diamondIro p, e < 6 := by decide
end Ext
theorem diamond_ok : GraphOk (emptyPush diamondSro diamondIro) := by
  refine ⟨?_, ?_, ?_, ?_, ?_, ?_⟩
  · intro p
    show p ∈ diamondSro p
    unfold diamondSro; split <;> simp
  · intro p e f h1 h2
    change e ∈ diamondSro p at h1; change f ∈ diamondSro e at h2; show f ∈ diamondSro p
    by_cases hp : 6 ≤ p
    · rw [dsro_big p hp] at h1 ⊢
      simp at h1
      rcases h1 with rfl | rfl
      · rw [dsro_big _ hp] at h2; exact h2
      · simp [diamondSro] at h2; simp [h2]
    · have hp' : p < 6 := Nat.lt_of_not_le hp
      have : ∀ p, p < 6 → ∀ e ∈ diamondSro p, ∀ f ∈ diamondSro e, f ∈ diamondSro p := by decide
      exact this p hp' e h1 f h2
  · intro p e h1 h2
    change e ∈ diamondSro p at h1; change p ∈ diamondSro e at h2
    by_cases hp : 6 ≤ p
    · rw [dsro_big p hp] at h1
      simp at h1
      rcases h1 with rfl | rfl
      · rfl
      · simp [diamondSro] at h2; omega
    · have hp' : p < 6 := Nat.lt_of_not_le hp
      have : ∀ p, p < 6 → ∀ e ∈ diamondSro p, p ∈ diamondSro e → p = e := by decide
      exact this p hp' e h1 h2
  · intro p i h
    change i ∈ diamondIro p at h; show i ∈ diamondSro p
    by_cases hp : 6 ≤ p
    · rw [diro_big p hp] at h; rw [dsro_big p hp]; exact h
    · have : ∀ p, p < 6 → ∀ i ∈ diamondIro p, i ∈ diamondSro p := by decide
      exact this p (Nat.lt_of_not_le hp) i h
  · intro p i h
    change i ∈ diamondIro p at h; show i ∈ diamondIro i
    by_cases hp : 6 ≤ p
    · rw [diro_big p hp] at h
      simp at h
      rcases h with rfl | rfl
      · rw [diro_big _ hp]; simp
      · decide
    · have : ∀ p, p < 6 → ∀ i ∈ diamondIro p, i ∈ diamondIro i := by decide
      exact this p (Nat.lt_of_not_le hp) i h
  · intro p
    show (diamondIro p).Nodup
    by_cases hp : 6 ≤ p
    · rw [diro_big p hp]; simp; intro e; rw [e] at hp; exact absurd hp (by decide)
    · have : ∀ p, p < 6 → (diamondIro p).Nodup := by decide
      exact this p (Nat.lt_of_not_le hp)

/-! ### 1. the `_extendors` table along every history -/
/-- **the history invariant**: after ANY history of registry operations (all ten kinds, any arguments, any fuel, no
guard at all — in particular no well-formedness of the registry base graph and no assumption on `sro` / `iro`) every
registry's `_provided` / `_extendors` pair satisfies `TabOk`. -/
theorem C04_extInv (fuel : Nat) (sro iro : Id → List Id) (ops : List Op) : ExtInv (run fuel (emptyPush sro iro) ops) :=
  run_extInv fuel ops (extInv_empty sro iro)

/-- the same from ANY world without registries — in particular the empty world of the generation-checking flavour
(`verifying := true`, `VerifyingAdapterRegistry`) -/
theorem C04_extInv_any_flavour (fuel : Nat) (w0 : World) (h0 : w0.regs = []) (ops : List Op) : ExtInv (run fuel w0 ops) :=
  run_extInv fuel ops (extInv_of_no_regs w0 h0)
example (ops : List Op) : ExtInv (run 8 { sro := diamondSro, iro := diamondIro, regs := [], verifying := true } ops) :=
  C04_extInv_any_flavour 8 _ rfl ops

theorem run_sro (fuel : Nat) (sro iro : Id → List Id) (ops : List Op) : (run fuel (emptyPush sro iro) ops).sro = sro :=
  (run_sameGraph fuel ops _).sro
theorem run_iro (fuel : Nat) (sro iro : Id → List Id) (ops : List Op) : (run fuel (emptyPush sro iro) ops).iro = iro :=
  (run_sameGraph fuel ops _).iro

/-- **1a content** (no hypothesis): `_extendors[i]` lists exactly the interfaces `p` with a live `_provided` count
such that `i ∈ p.__iro__`. -/
theorem C04_extendors_content (fuel : Nat) (sro iro : Id → List Id) (ops : List Op) (r : Nat) (i p : Id) :
    p ∈ (AList.get? ((run fuel (emptyPush sro iro) ops).reg r).extendors i).getD [] ↔
      ((AList.get? ((run fuel (emptyPush sro iro) ops).reg r).provided p).isSome = true ∧ i ∈ iro p) := by
  have := (C04_extInv fuel sro iro ops r).content i p
  rw [run_iro] at this
  exact this

/-- **stored counts are never 0** (no hypothesis): registrations add 1, removals erase the entry at 0 -/
theorem C04_provided_count_ne_zero (fuel : Nat) (sro iro : Id → List Id) (ops : List Op) (r : Nat) (p : Id) :
    AList.get? ((run fuel (emptyPush sro iro) ops).reg r).provided p ≠ some 0 :=
  (C04_extInv fuel sro iro ops r).count p

/-- **1b no duplicates**.  Guard `(iro p).Nodup` (true of every real `__iro__`): with `iro 1 = [0, 0]` one
`register` of `1` stores `_extendors[0] = [1, 1]` (`nodup_needs_iro_nodup` below). -/
theorem C04_extendors_nodup (fuel : Nat) (sro iro : Id → List Id) (hN : ∀ p, (iro p).Nodup) (ops : List Op) (r : Nat) (i : Id) :
    ((AList.get? ((run fuel (emptyPush sro iro) ops).reg r).extendors i).getD []).Nodup :=
  (C04_extInv fuel sro iro ops r).nodup (by rw [run_iro]; exact hN) i

/-- **1c order**: nothing is listed before something it strictly extends.  Guards: "is or extends" is transitive and
antisymmetric (`order_needs_trans`, `order_needs_antisymm` below are the counterexamples). -/
theorem C04_extendors_order (fuel : Nat) (sro iro : Id → List Id) (hT : SroTrans sro) (hA : SroAntisymm sro) (ops : List Op)
    (r : Nat) (i : Id) :
    List.Pairwise (fun e1 e2 => ¬ (e1 ≠ e2 ∧ e2 ∈ sro e1))
      ((AList.get? ((run fuel (emptyPush sro iro) ops).reg r).extendors i).getD []) := by
  have := (C04_extInv fuel sro iro ops r).order (by rw [run_sro]; exact hT) (by rw [run_sro]; exact hA) i
  rw [run_sro] at this
  exact this

/-- **1a + 1b + 1c bundled** under `GraphOk` (of which only `iro_nodup`, `trans`, `antisymm` are used): after any history,
for every registry `r` and interface `i`, the list `_extendors[i]` has exactly the live provided interfaces whose
`__iro__` contains `i`, each once, none before one it strictly extends. -/
theorem C04_extendors (fuel : Nat) (sro iro : Id → List Id) (g : GraphOk (emptyPush sro iro)) (ops : List Op) (r : Nat) (i : Id) :
    (∀ p, p ∈ (AList.get? ((run fuel (emptyPush sro iro) ops).reg r).extendors i).getD [] ↔
      ((AList.get? ((run fuel (emptyPush sro iro) ops).reg r).provided p).isSome = true ∧ i ∈ iro p)) ∧
    ((AList.get? ((run fuel (emptyPush sro iro) ops).reg r).extendors i).getD []).Nodup ∧
    List.Pairwise (fun e1 e2 => ¬ (e1 ≠ e2 ∧ e2 ∈ sro e1))
      ((AList.get? ((run fuel (emptyPush sro iro) ops).reg r).extendors i).getD []) :=
  ⟨fun p => C04_extendors_content fuel sro iro ops r i p, C04_extendors_nodup fuel sro iro g.iro_nodup ops r i,
   C04_extendors_order fuel sro iro g.trans g.antisymm ops r i⟩

/-! state-level corollaries under `GraphOk` -/
/-- everything listed under `i` is or extends `i` -/
theorem ext_mem_extends {w : World} (h : ExtInv w) (g : GraphOk w) (r : Nat) (i e : Id)
    (he : e ∈ (AList.get? (w.reg r).extendors i).getD []) : i ∈ w.sro e :=
  g.iro_sub e i ((h r).content i e |>.mp he).2

/-- the requested interface itself, when it has a live registration, is the FIRST entry of its own extendors list: an
exact match on the provided interface is tried before any extending interface -/
theorem ext_self_first {w : World} (h : ExtInv w) (g : GraphOk w) (r : Nat) (i : Id)
    (hlive : (AList.get? (w.reg r).provided i).isSome = true) (hi : i ∈ w.iro i) :
    ((AList.get? (w.reg r).extendors i).getD []).head? = some i := by
  have hmem : i ∈ look (w.reg r).extendors i := ((h r).content i i).mpr ⟨hlive, hi⟩
  have hnd := (h r).nodup g.iro_nodup i
  have hord := (h r).order g.trans g.antisymm i
  have hext : ∀ e ∈ look (w.reg r).extendors i, i ∈ w.sro e := fun e he => ext_mem_extends h g r i e he
  show (look (w.reg r).extendors i).head? = some i
  generalize look (w.reg r).extendors i = l at hmem hnd hord hext
  cases l with
  | nil => cases hmem
  | cons a t =>
    rcases List.mem_cons.mp hmem with e | ht
    · rw [e]; rfl
    · have := (List.pairwise_cons.mp hord).1 i ht
      have hne : a ≠ i := fun e => (List.nodup_cons.mp hnd).1 (e ▸ ht)
      exact absurd ⟨hne, hext a (List.mem_cons_self ..)⟩ this

/-! ### 3. the lookup guard of `uncachedLookup` -/
/-- `_extendors.get(provided)` is missing or empty -/
def extGuard (x : Reg) (prov : Id) : Bool :=
  match AList.get? x.extendors prov with
  | none => true
  | some ext => ext.isEmpty

/-- the guard skips a registry exactly when no live registration of it provides an interface that is or extends the
requested one -/
theorem extGuard_iff {w : World} (h : ExtInv w) (r : Nat) (prov : Id) :
    extGuard (w.reg r) prov = true ↔ ¬ ∃ p, (AList.get? (w.reg r).provided p).isSome = true ∧ prov ∈ w.iro p := by
  have hc := (h r).content prov
  have e : extGuard (w.reg r) prov = true ↔ look (w.reg r).extendors prov = [] := by
    unfold extGuard look
    cases AList.get? (w.reg r).extendors prov with
    | none => simp
    | some ext => simp
  rw [e, List.eq_nil_iff_forall_not_mem]
  constructor
  · rintro hn ⟨p, hp⟩; exact hn p ((hc p).mpr hp)
  · intro hn p hp; exact hn ⟨p, (hc p).mp hp⟩

theorem C04_guard (fuel : Nat) (sro iro : Id → List Id) (ops : List Op) (r : Nat) (prov : Id) :
    (AList.get? ((run fuel (emptyPush sro iro) ops).reg r).extendors prov = none ∨
      ∃ ext, AList.get? ((run fuel (emptyPush sro iro) ops).reg r).extendors prov = some ext ∧ ext.isEmpty = true) ↔
    ¬ ∃ p, (AList.get? ((run fuel (emptyPush sro iro) ops).reg r).provided p).isSome = true ∧ prov ∈ iro p := by
  have := extGuard_iff (C04_extInv fuel sro iro ops) r prov
  rw [run_iro] at this
  rw [← this]
  unfold extGuard
  cases AList.get? ((run fuel (emptyPush sro iro) ops).reg r).extendors prov <;> simp

/-- … so a registry without such a registration answers nothing (it is skipped) -/
theorem regLookup_none_of_no_provider {w : World} (h : ExtInv w) (b : Nat) (req : List Id) (prov : Id) (name : String)
    (hno : ¬ ∃ p, (AList.get? (w.reg b).provided p).isSome = true ∧ prov ∈ w.iro p) : regLookup w b req prov name = none := by
  have hg := (extGuard_iff h b prov).mpr hno
  unfold extGuard at hg
  unfold regLookup
  simp only []
  split
  · rfl
  · split
    · rfl
    · rename_i ext he
      rw [he] at hg
      simp only [] at hg
      rw [if_pos hg]
/-! ### 2. the most general provided interface wins -/
/-- state form: in a world satisfying the invariant, over a transitive and antisymmetric "is or extends", a `_lookup`
walk (any depth `n`) over `ext = _extendors[prov]` of registry `b` that returns `v` found it under a path `req ++ [e]`
where `e` has a live registration, is or extends `prov`, and does not strictly extend any other extendor `e'` that also has
a binding for the name under the same required part `req`. -/
theorem most_general_of_extInv {w : World} (h : ExtInv w) (hT : SroTrans w.sro) (hA : SroAntisymm w.sro) (b : Nat) (prov : Id)
    (ext : List Id) (hext : AList.get? (w.reg b).extendors prov = some ext)
    (n : Nat) (m : Level Names (n+1)) (specs : List Id) (name : String) (v : Val) (hl : specs.length = n)
    (hv : lookupRec w n m specs ext name = some v) :
    ∃ (req : List Id) (e : Id), ReqOk w req specs ∧ e ∈ ext ∧
      ((AList.get? (w.reg b).provided e).isSome = true ∧ prov ∈ w.iro e) ∧
      rhit n m name (req.map some ++ [some e]) = some v ∧
      ∀ e' ∈ ext, (rhit n m name (req.map some ++ [some e'])).isSome = true → ¬ (e ≠ e' ∧ e' ∈ w.sro e) := by
  have hlook : look (w.reg b).extendors prov = ext := by unfold look; rw [hext]; rfl
  have hO : ext.Pairwise (NoStrict w.sro) := by rw [← hlook]; exact (h b).order hT hA prov
  obtain ⟨req, e, hreq, he, hhit, hbest⟩ := lookupRec_most_general w n m specs ext name v hl hO hv
  exact ⟨req, e, hreq, he, ((h b).content prov e).mp (by rw [hlook]; exact he), hhit, hbest⟩

/-- **C04_most_general**: after any history, "among several registered provided interfaces that extend the requested
one, the most general one (among comparable ones) wins".  Guards: transitivity and antisymmetry of "is or extends" (needed
for the order of the extendors list, see `C04_extendors_order`). -/
theorem C04_most_general (fuel : Nat) (sro iro : Id → List Id) (hT : SroTrans sro) (hA : SroAntisymm sro) (ops : List Op)
    (b : Nat) (prov : Id) (ext : List Id)
    (hext : AList.get? ((run fuel (emptyPush sro iro) ops).reg b).extendors prov = some ext)
    (n : Nat) (m : Level Names (n+1)) (specs : List Id) (name : String) (v : Val) (hl : specs.length = n)
    (hv : lookupRec (run fuel (emptyPush sro iro) ops) n m specs ext name = some v) :
    ∃ (req : List Id) (e : Id), ReqOk (run fuel (emptyPush sro iro) ops) req specs ∧ e ∈ ext ∧
      ((AList.get? ((run fuel (emptyPush sro iro) ops).reg b).provided e).isSome = true ∧ prov ∈ iro e) ∧
      rhit n m name (req.map some ++ [some e]) = some v ∧
      ∀ e' ∈ ext, (rhit n m name (req.map some ++ [some e'])).isSome = true → ¬ (e ≠ e' ∧ e' ∈ sro e) := by
  have := most_general_of_extInv (C04_extInv fuel sro iro ops) (by rw [run_sro]; exact hT) (by rw [run_sro]; exact hA)
    b prov ext hext n m specs name v hl hv
  rw [run_sro, run_iro] at this
  exact this

/-- one registry of the chain, end to end: what `regLookup` (the per-registry step of `uncachedLookup`) returns is
registered in that registry's `_adapters[len(required)]` under a path `path ++ [e]` with `path` applicable to the
required specifications, `e` live and is-or-extending `prov`; and among ALL live provided interfaces `e'` of that registry
that are-or-extend `prov` and have the name bound under the same `path`, `e` strictly extends none. -/
theorem regLookup_most_general {w : World} (h : ExtInv w) (hT : SroTrans w.sro) (hA : SroAntisymm w.sro) (b : Nat)
    (req : List Id) (prov : Id) (name : String) (v : Val) (hv : regLookup w b req prov name = some v) :
    ∃ (path : List Id) (e : Id), ReqOk w path req ∧ (AList.get? (w.reg b).provided e).isSome = true ∧ prov ∈ w.iro e ∧
      rhit req.length (getOrder ([] : Names) (w.reg b).adapters req.length) name (path.map some ++ [some e]) = some v ∧
      ∀ e', (AList.get? (w.reg b).provided e').isSome = true → prov ∈ w.iro e' →
        (rhit req.length (getOrder ([] : Names) (w.reg b).adapters req.length) name (path.map some ++ [some e'])).isSome = true →
        ¬ (e ≠ e' ∧ e' ∈ w.sro e) := by
  unfold regLookup at hv
  simp only [] at hv
  split at hv
  · cases hv
  · split at hv
    · cases hv
    · rename_i ext hext
      split at hv
      · cases hv
      · obtain ⟨path, e, hp, _, ⟨hlive, hext'⟩, hhit, hbest⟩ :=
          most_general_of_extInv h hT hA b prov ext hext req.length _ req name v rfl hv
        refine ⟨path, e, hp, hlive, hext', hhit, fun e' hl' he' hs => hbest e' ?_ hs⟩
        have := ((h b).content prov e').mpr ⟨hl', he'⟩
        unfold look at this; rw [hext] at this; exact this

/-- **C04_most_general_lookup**: the uncached `lookup(required, provided, name)` of registry `r` after any history —
the answer comes from the first registry `b` of `r`'s resolution order that answers at all (`C04_chain`), and inside `b`
from the most general (among comparable) live provided interface for its required path. -/
theorem C04_most_general_lookup (fuel : Nat) (sro iro : Id → List Id) (hT : SroTrans sro) (hA : SroAntisymm sro)
    (ops : List Op) (r : Nat) (req : List Id) (prov : Id) (name : String) (v : Val)
    (hv : uncachedLookup (run fuel (emptyPush sro iro) ops) r req prov name = some v) :
    ∃ pre b post, ((run fuel (emptyPush sro iro) ops).reg r).ro = pre ++ b :: post ∧
      (∀ b' ∈ pre, regLookup (run fuel (emptyPush sro iro) ops) b' req prov name = none) ∧
      ∃ (path : List Id) (e : Id), ReqOk (run fuel (emptyPush sro iro) ops) path req ∧
        (AList.get? ((run fuel (emptyPush sro iro) ops).reg b).provided e).isSome = true ∧ prov ∈ iro e ∧
        rhit req.length (getOrder ([] : Names) ((run fuel (emptyPush sro iro) ops).reg b).adapters req.length) name
          (path.map some ++ [some e]) = some v ∧
        ∀ e', (AList.get? ((run fuel (emptyPush sro iro) ops).reg b).provided e').isSome = true → prov ∈ iro e' →
          (rhit req.length (getOrder ([] : Names) ((run fuel (emptyPush sro iro) ops).reg b).adapters req.length) name
            (path.map some ++ [some e'])).isSome = true →
          ¬ (e ≠ e' ∧ e' ∈ sro e) := by
  obtain ⟨pre, b, post, hro, hb, hpre⟩ := C04_chain _ r req prov name v hv
  have := regLookup_most_general (C04_extInv fuel sro iro ops) (by rw [run_sro]; exact hT) (by rw [run_sro]; exact hA)
    b req prov name v hb
  rw [run_sro, run_iro] at this
  exact ⟨pre, b, post, hro, hpre, this⟩
/-! ### the required components are ordered first -/
/-- the required parts of the applicable paths, in lexicographic order of the positions in the `__sro__`s -/
def rreqs (w : World) : List Id → List (List K)
  | [] => [[]]
  | s :: rest => (w.sro s).flatMap fun sp => (rreqs w rest).map fun q => some sp :: q

/-- the enumeration `rpaths` orders the required components first, the provided component last -/
theorem rpaths_eq_flatMap (w : World) (ext : List Id) : ∀ (specs : List Id),
    rpaths w specs ext = (rreqs w specs).flatMap fun q => ext.map fun e => q ++ [some e]
  | [] => by simp [rpaths, rreqs]
  | s :: rest => by
    simp only [rpaths, rreqs, rpaths_eq_flatMap w ext rest, List.map_flatMap, List.flatMap_assoc, List.flatMap_map,
      List.map_map]
    rfl

theorem mem_rreqs (w : World) : ∀ (specs : List Id) (q : List K),
    q ∈ rreqs w specs ↔ ∃ req : List Id, q = req.map some ∧ ReqOk w req specs
  | [], q => by
    simp only [rreqs, List.mem_singleton]
    constructor
    · rintro rfl; exact ⟨[], rfl, ReqOk.nil⟩
    · rintro ⟨req, rfl, hf⟩; cases hf; rfl
  | s :: rest, q => by
    simp only [rreqs, List.mem_flatMap, List.mem_map]
    constructor
    · rintro ⟨sp, hsp, q', hq', rfl⟩
      obtain ⟨req, rfl, hf⟩ := (mem_rreqs w rest q').mp hq'
      exact ⟨sp :: req, rfl, ReqOk.cons hsp hf⟩
    · rintro ⟨req, rfl, hf⟩
      cases hf with
      | cons hsp hf' =>
        rename_i r req'
        exact ⟨r, hsp, req'.map some, (mem_rreqs w rest _).mpr ⟨req', rfl, hf'⟩, rfl⟩

/-- the strongest form: the winning path `q ++ [e]` is the first one in the lexicographic enumeration — every path whose
REQUIRED part comes earlier has no binding, whatever its provided component — and within the winning required part the
provided component is the most general among the comparable candidates -/
theorem lookupRec_lex (w : World) (n : Nat) (m : Level Names (n+1)) (specs ext : List Id) (name : String) (v : Val)
    (hl : specs.length = n) (hO : ext.Pairwise (NoStrict w.sro)) (hv : lookupRec w n m specs ext name = some v) :
    ∃ pre q post e, rreqs w specs = pre ++ q :: post ∧ e ∈ ext ∧ rhit n m name (q ++ [some e]) = some v ∧
      (∀ q' ∈ pre, ∀ e' ∈ ext, rhit n m name (q' ++ [some e']) = none) ∧
      (∀ e' ∈ ext, (rhit n m name (q ++ [some e'])).isSome = true → ¬ (e ≠ e' ∧ e' ∈ w.sro e)) := by
  rw [lookupRec_eq_first w n m specs ext name hl, rpaths_eq_flatMap, findSome?_flatMap'] at hv
  obtain ⟨pre, q, post, hq, hin, hpre⟩ := List.findSome?_eq_some_iff.mp hv
  rw [findSome?_map''] at hin
  obtain ⟨e, he, hhit, hbest⟩ := findSome?_first_pairwise hO hin
  refine ⟨pre, q, post, e, hq, he, hhit, fun q' hq' e' he' => ?_, fun e' he' hs => ?_⟩
  · have := hpre q' hq'
    rw [findSome?_map''] at this
    exact List.findSome?_eq_none_iff.mp this e' he'
  · rcases hbest e' he' hs with h1 | h1
    · exact fun ⟨hne, _⟩ => hne h1.symm
    · exact h1

/-- **C04_most_general_lex**: `lookupRec_lex` for the extendors list of any registry after any history -/
theorem C04_most_general_lex (fuel : Nat) (sro iro : Id → List Id) (hT : SroTrans sro) (hA : SroAntisymm sro) (ops : List Op)
    (b : Nat) (prov : Id) (ext : List Id)
    (hext : AList.get? ((run fuel (emptyPush sro iro) ops).reg b).extendors prov = some ext)
    (n : Nat) (m : Level Names (n+1)) (specs : List Id) (name : String) (v : Val) (hl : specs.length = n)
    (hv : lookupRec (run fuel (emptyPush sro iro) ops) n m specs ext name = some v) :
    ∃ pre q post e, rreqs (run fuel (emptyPush sro iro) ops) specs = pre ++ q :: post ∧ e ∈ ext ∧
      rhit n m name (q ++ [some e]) = some v ∧
      (∀ q' ∈ pre, ∀ e' ∈ ext, rhit n m name (q' ++ [some e']) = none) ∧
      (∀ e' ∈ ext, (rhit n m name (q ++ [some e'])).isSome = true → ¬ (e ≠ e' ∧ e' ∈ sro e)) := by
  have hO : ext.Pairwise (NoStrict (run fuel (emptyPush sro iro) ops).sro) := by
    have := (C04_extInv fuel sro iro ops b).order (by rw [run_sro]; exact hT) (by rw [run_sro]; exact hA) prov
    unfold look at this; rw [hext] at this; exact this
  have := lookupRec_lex _ n m specs ext name v hl hO hv
  rw [run_sro] at this
  exact this

/-! ### 4. (beyond the task list) stored adapters and subscribers keep their provided interface alive

`_provided[p]` is a reference count; the invariant `CountOk` says it is AT LEAST the number of things stored under the
provided interface `p` (adapters = (arity, key path, name) with a binding; subscribers = positions of the subscriber
lists), in every registry after every history.  (It is not always equal: `register` of a different value under an
existing key adds 1 without adding an entry.)  Consequences: a registered adapter's provided interface has a `_provided`
entry, hence (1a) is listed in `_extendors[i]` for each `i` of its `__iro__`, hence the guard of `_uncached_lookup` does not
skip the registry and the walk reaches it: `regLookup_complete`, `C04_lookup_complete`.  The nested containers are seen
through `Level.find` (laws `find_update` / `find_remove` of `ZI.Props.C09`). -/

namespace Ext
theorem getOrder_nil {α} (e : α) (o : Nat) : getOrder e ([] : List (ByOrder α)) o = Level.empty e (o+1) := rfl

theorem getOrder_cons_same {α} (e : α) (o : Nat) (t : Level α (o+1)) (l : List (ByOrder α)) :
    getOrder e (⟨o, t⟩ :: l) o = t := by
  unfold getOrder
  rw [List.find?_cons_of_pos (by simp)]
  simp

theorem getOrder_cons_ne {α} (e : α) (b : ByOrder α) (l : List (ByOrder α)) (o : Nat) (h : ¬ b.order = o) :
    getOrder e (b :: l) o = getOrder e l o := by
  unfold getOrder
  rw [List.find?_cons_of_neg (by simpa using h)]

theorem getOrder_setOrder_same {α} (e : α) (l : List (ByOrder α)) (o : Nat) (t : Level α (o+1)) :
    getOrder e (setOrder l o t) o = t := by
  unfold setOrder
  split
  · rename_i hany
    induction l with
    | nil => simp at hany
    | cons b l ih =>
      rw [List.map_cons]
      by_cases hb : b.order = o
      · have hb' : (b.order == o) = true := by simpa using hb
        simp only [hb', if_true]
        exact getOrder_cons_same e o t _
      · have hb' : (b.order == o) = false := by simpa using hb
        simp only [hb', Bool.false_eq_true, if_false]
        rw [getOrder_cons_ne e b _ o hb]
        apply ih
        simpa [List.any_cons, hb'] using hany
  · rename_i hany
    induction l with
    | nil => exact getOrder_cons_same e o t _
    | cons b l ih =>
      have hb : ¬ b.order = o := fun e => hany (by simp [List.any_cons, e])
      rw [List.cons_append, getOrder_cons_ne e b _ o hb]
      apply ih
      intro h; exact hany (by simp [List.any_cons, h])

theorem getOrder_map_ne {α} (e : α) (o o' : Nat) (t : Level α (o+1)) (h : o' ≠ o) : ∀ (l : List (ByOrder α)),
    getOrder e (l.map (fun b => if b.order == o then ⟨o, t⟩ else b)) o' = getOrder e l o'
  | [] => rfl
  | b :: l => by
    rw [List.map_cons]
    by_cases hb : b.order = o
    · have hb' : (b.order == o) = true := by simpa using hb
      simp only [hb', if_true]
      rw [getOrder_cons_ne e ⟨o, t⟩ _ o' (fun e => h e.symm), getOrder_cons_ne e b _ o' (by rw [hb]; exact fun e => h e.symm)]
      exact getOrder_map_ne e o o' t h l
    · have hb' : (b.order == o) = false := by simpa using hb
      simp only [hb', Bool.false_eq_true, if_false]
      by_cases h2 : b.order = o'
      · obtain ⟨bo, bt⟩ := b
        simp only at h2; subst h2
        rw [getOrder_cons_same, getOrder_cons_same]
      · rw [getOrder_cons_ne e b _ o' h2, getOrder_cons_ne e b _ o' h2]
        exact getOrder_map_ne e o o' t h l

theorem getOrder_append_ne {α} (e : α) (o o' : Nat) (t : Level α (o+1)) (h : o' ≠ o) : ∀ (l : List (ByOrder α)),
    getOrder e (l ++ [⟨o, t⟩]) o' = getOrder e l o'
  | [] => by
    rw [List.nil_append, getOrder_cons_ne e ⟨o, t⟩ _ o' (fun e => h e.symm)]
  | b :: l => by
    rw [List.cons_append]
    by_cases h2 : b.order = o'
    · obtain ⟨bo, bt⟩ := b
      simp only at h2; subst h2
      rw [getOrder_cons_same, getOrder_cons_same]
    · rw [getOrder_cons_ne e b _ o' h2, getOrder_cons_ne e b _ o' h2]
      exact getOrder_append_ne e o o' t h l

theorem getOrder_setOrder_ne {α} (e : α) (l : List (ByOrder α)) (o o' : Nat) (t : Level α (o+1)) (h : o' ≠ o) :
    getOrder e (setOrder l o t) o' = getOrder e l o' := by
  unfold setOrder
  split
  · exact getOrder_map_ne e o o' t h l
  · exact getOrder_append_ne e o o' t h l
theorem leaf_update {α} (e : α) (f : α → α) (l : List (ByOrder α)) (o0 : Nat) (path0 : List K) (h0 : path0.length = o0+1)
    (o : Nat) (path : List K) (h : path.length = o+1) :
    Level.find (o+1) (getOrder e (setOrder l o0 (Level.update e f (o0+1) (getOrder e l o0) path0)) o) path =
      if o = o0 ∧ path = path0 then some (f ((Level.find (o0+1) (getOrder e l o0) path0).getD e))
      else Level.find (o+1) (getOrder e l o) path := by
  by_cases ho : o = o0
  · subst ho
    rw [getOrder_setOrder_same, find_update e f (o+1) _ path0 path h0 h]
    by_cases hp : path = path0 <;> simp [hp]
  · rw [getOrder_setOrder_ne e l o0 o _ ho]
    simp [ho]

theorem leaf_remove {α} (e : α) (isEmpty : α → Bool) (f : α → α) (l : List (ByOrder α)) (o0 : Nat) (path0 : List K)
    (h0 : path0.length = o0+1) (o : Nat) (path : List K) (h : path.length = o+1) :
    Level.find (o+1) (getOrder e (setOrder l o0 (Level.remove isEmpty f (o0+1) (getOrder e l o0) path0).1) o) path =
      if o = o0 ∧ path = path0 then
        (Level.find (o0+1) (getOrder e l o0) path0).bind fun a => if isEmpty (f a) then none else some (f a)
      else Level.find (o+1) (getOrder e l o) path := by
  by_cases ho : o = o0
  · subst ho
    rw [getOrder_setOrder_same, find_remove isEmpty f o _ path0 path h0 h]
    by_cases hp : path = path0 <;> simp [hp]
  · rw [getOrder_setOrder_ne e l o0 o _ ho]
    simp [ho]

/-! counting -/
theorem nodup_subset_length_le {α} [DecidableEq α] : ∀ (M L : List α), L.Nodup → (∀ a ∈ L, a ∈ M) → L.length ≤ M.length
  | [], L, _, hs => by
    cases L with
    | nil => exact Nat.le_refl _
    | cons a t => exact absurd (hs a (List.mem_cons_self ..)) (by simp)
  | b :: M, L, hn, hs => by
    have h1 : (L.erase b).Nodup := hn.erase b
    have h2 : ∀ a ∈ L.erase b, a ∈ M := by
      intro a ha
      have := (hn.mem_erase_iff).mp ha
      rcases List.mem_cons.mp (hs a this.2) with e | h
      · exact absurd e this.1
      · exact h
    have ih := nodup_subset_length_le M (L.erase b) h1 h2
    have := @List.length_erase _ _ _ b L
    simp only [List.length_cons]
    split at this <;> omega

/-- the counting step: the tokens `T0` disappear, the tokens `T1` appear -/
theorem count_replace {α} [DecidableEq α] (B B' : α → Prop) (c : Nat) (T0 T1 : List α)
    (h : ∀ L : List α, L.Nodup → (∀ t ∈ L, B t) → L.length ≤ c)
    (hT0 : T0.Nodup) (hT0B : ∀ t ∈ T0, B t)
    (hB : ∀ t, B' t → (B t ∧ t ∉ T0) ∨ t ∈ T1) :
    ∀ L : List α, L.Nodup → (∀ t ∈ L, B' t) → L.length ≤ c + T1.length - T0.length := by
  intro L hn hL
  have hperm := List.filter_append_perm (fun t => decide (t ∈ T1)) L
  have hlen : (L.filter (fun t => decide (t ∈ T1))).length + (L.filter (fun t => !decide (t ∈ T1))).length = L.length := by
    rw [← List.length_append]; exact hperm.length_eq
  have h0 : (L.filter (fun t => decide (t ∈ T1))).length ≤ T1.length :=
    nodup_subset_length_le T1 _ (List.Nodup.sublist (List.filter_sublist ..) hn) (fun a ha => by simpa using (List.mem_filter.mp ha).2)
  have hL1 : ∀ t ∈ L.filter (fun t => !decide (t ∈ T1)), B t ∧ t ∉ T0 := by
    intro t ht
    obtain ⟨htL, htn⟩ := List.mem_filter.mp ht
    rcases hB t (hL t htL) with h1 | h1
    · exact h1
    · simp [h1] at htn
  have hnd : (T0 ++ L.filter (fun t => !decide (t ∈ T1))).Nodup := by
    rw [List.nodup_append]
    refine ⟨hT0, List.Nodup.sublist (List.filter_sublist ..) hn, fun a ha b hb e => ?_⟩
    subst e; exact (hL1 a hb).2 ha
  have := h _ hnd (fun t ht => by
    rcases List.mem_append.mp ht with h1 | h1
    · exact hT0B t h1
    · exact (hL1 t h1).1)
  rw [List.length_append] at this
  omega

end Ext
/-- one stored thing: an adapter (arity, key path, name) or one position of a subscriber list (arity, key path, index) -/
inductive Token
  | ad (o : Nat) (path : List K) (name : String)
  | sub (o : Nat) (path : List K) (idx : Nat)
deriving DecidableEq

def adLeaf (x : Reg) (o : Nat) (path : List K) : Option Names := Level.find (o+1) (getOrder ([] : Names) x.adapters o) path
def subLeaf (x : Reg) (o : Nat) (path : List K) : Option (List Val) := Level.find (o+1) (getOrder ([] : List Val) x.subs o) path

/-- `t` is stored in `x` and its provided key is the interface `p` -/
def Bound (x : Reg) (p : Id) : Token → Prop
  | .ad o path name => path.length = o+1 ∧ path.getLast? = some (some p) ∧
      ∃ names, adLeaf x o path = some names ∧ (AList.get? names name).isSome = true
  | .sub o path i => path.length = o+1 ∧ path.getLast? = some (some p) ∧ ∃ vs, subLeaf x o path = some vs ∧ i < vs.length

/-- `_provided[p]` is at least the number of things stored under the provided interface `p` -/
def CountOk (x : Reg) : Prop :=
  ∀ (p : Id) (L : List Token), L.Nodup → (∀ t ∈ L, Bound x p t) → L.length ≤ (AList.get? x.provided p).getD 0

theorem countOk_step {x x' : Reg} (hx : CountOk x) (q : Id) (T0 T1 : List Token) (hT0 : T0.Nodup)
    (hT0B : ∀ t ∈ T0, Bound x q t)
    (hB : ∀ p t, Bound x' p t → (Bound x p t ∧ ¬ (p = q ∧ t ∈ T0)) ∨ (p = q ∧ t ∈ T1))
    (hq : (AList.get? x'.provided q).getD 0 = (AList.get? x.provided q).getD 0 + T1.length - T0.length)
    (hother : ∀ p, p ≠ q → AList.get? x'.provided p = AList.get? x.provided p) : CountOk x' := by
  intro p L hn hL
  by_cases hp : p = q
  · subst hp
    rw [hq]
    refine count_replace (Bound x p) (Bound x' p) _ T0 T1 (hx p) hT0 hT0B (fun t ht => ?_) L hn hL
    rcases hB p t ht with ⟨h1, h2⟩ | ⟨_, h2⟩
    · exact Or.inl ⟨h1, fun h3 => h2 ⟨rfl, h3⟩⟩
    · exact Or.inr h2
  · rw [hother p hp]
    refine hx p L hn (fun t ht => ?_)
    rcases hB p t (hL t ht) with ⟨h1, _⟩ | ⟨h1, _⟩
    · exact h1
    · exact absurd h1 hp

/-- nothing stored changes, the counts stay -/
theorem countOk_same {x x' : Reg} (hx : CountOk x) (ha : x'.adapters = x.adapters) (hs : x'.subs = x.subs)
    (hp : x'.provided = x.provided) : CountOk x' := by
  intro p L hn hL
  rw [hp]
  refine hx p L hn (fun t ht => ?_)
  have := hL t ht
  cases t with
  | ad o path name => simpa [Bound, adLeaf, ha] using this
  | sub o path i => simpa [Bound, subLeaf, hs] using this

namespace Ext
theorem path_len (req : List (Option Id)) (k : K) : (req.map convNone ++ [k]).length = req.length + 1 := by simp
theorem path_last (req : List (Option Id)) (k : K) : (req.map convNone ++ [k]).getLast? = some k := by simp

end Ext
theorem countOk_register {x : Reg} (hx : CountOk x) (req : List (Option Id)) (prov : Id) (name : String) (v : Val) (x' : Reg)
    (ha : x'.adapters = setOrder x.adapters req.length
      (Level.update ([] : Names) (fun names => AList.set names name v) (req.length+1)
        (getOrder ([] : Names) x.adapters req.length) (req.map convNone ++ [some prov])))
    (hs : x'.subs = x.subs)
    (hp : x'.provided = AList.set x.provided prov ((AList.get? x.provided prov).getD 0 + 1)) : CountOk x' := by
  refine countOk_step hx prov [] [.ad req.length (req.map convNone ++ [some prov]) name] List.nodup_nil
    (fun t ht => by cases ht) (fun p t ht => ?_) (by rw [hp, Ext.get?_set]; simp) (fun p hne => by
      have : ¬ prov = p := fun e => hne e.symm
      rw [hp, Ext.get?_set]; simp [this])
  cases t with
  | sub o path i =>
    left
    refine ⟨?_, fun h => by cases h.2⟩
    simpa [Bound, subLeaf, hs] using ht
  | ad o path nm =>
    obtain ⟨hlen, hlast, names, hleaf, hnm⟩ := ht
    unfold adLeaf at hleaf
    rw [ha, leaf_update _ _ _ _ _ (path_len req _) _ _ hlen] at hleaf
    by_cases hc : o = req.length ∧ path = req.map convNone ++ [some prov]
    · rw [if_pos hc] at hleaf
      obtain ⟨ho, hpath⟩ := hc
      subst ho; subst hpath
      have hpq : p = prov := by
        rw [path_last] at hlast; injection hlast with e; injection e with e; exact e.symm
      injection hleaf with hleaf
      subst hleaf
      rw [Ext.get?_set] at hnm
      by_cases hn : name = nm
      · subst hn; exact Or.inr ⟨hpq, by simp⟩
      · left
        refine ⟨⟨hlen, hlast, ?_⟩, fun h => by cases h.2⟩
        have hn' : (name == nm) = false := by simpa using hn
        rw [hn'] at hnm
        simp only [Bool.false_eq_true, if_false] at hnm
        cases hf : Level.find (req.length+1) (getOrder ([] : Names) x.adapters req.length) (req.map convNone ++ [some prov]) with
        | none => rw [hf] at hnm; simp [AList.get?] at hnm
        | some old => rw [hf] at hnm; exact ⟨old, hf, hnm⟩
    · rw [if_neg hc] at hleaf
      exact Or.inl ⟨⟨hlen, hlast, names, hleaf, hnm⟩, fun h => by cases h.2⟩

theorem countOk_unregister {x : Reg} (hx : CountOk x) (req : List (Option Id)) (prov : Id) (name : String) (old : Val)
    (hfound : ((Level.find (req.length+1) (getOrder ([] : Names) x.adapters req.length) (req.map convNone ++ [some prov])).bind
      fun names => AList.get? names name) = some old) (x' : Reg)
    (ha : x'.adapters = setOrder x.adapters req.length
      (Level.remove (fun (names : Names) => names.isEmpty) (fun names => AList.erase names name) (req.length+1)
        (getOrder ([] : Names) x.adapters req.length) (req.map convNone ++ [some prov])).1)
    (hs : x'.subs = x.subs)
    (hp : (AList.get? x'.provided prov).getD 0 = (AList.get? x.provided prov).getD 0 - 1)
    (hother : ∀ p, p ≠ prov → AList.get? x'.provided p = AList.get? x.provided p) : CountOk x' := by
  refine countOk_step hx prov [.ad req.length (req.map convNone ++ [some prov]) name] [] (by simp)
    (fun t ht => ?_) (fun p t ht => ?_) (by rw [hp]; simp) hother
  · rw [List.mem_singleton] at ht; subst ht
    refine ⟨path_len req _, path_last req _, ?_⟩
    unfold adLeaf
    cases hf : Level.find (req.length+1) (getOrder ([] : Names) x.adapters req.length) (req.map convNone ++ [some prov]) with
    | none => rw [hf] at hfound; cases hfound
    | some names => rw [hf] at hfound; exact ⟨names, rfl, by simp only [Option.bind_some] at hfound; rw [hfound]; rfl⟩
  · left
    cases t with
    | sub o path i =>
      refine ⟨?_, fun h => by simp at h⟩
      simpa [Bound, subLeaf, hs] using ht
    | ad o path nm =>
      obtain ⟨hlen, hlast, names, hleaf, hnm⟩ := ht
      unfold adLeaf at hleaf
      rw [ha, leaf_remove _ _ _ _ _ _ (path_len req _) _ _ hlen] at hleaf
      by_cases hc : o = req.length ∧ path = req.map convNone ++ [some prov]
      · rw [if_pos hc] at hleaf
        obtain ⟨ho, hpath⟩ := hc
        subst ho; subst hpath
        cases hf : Level.find (req.length+1) (getOrder ([] : Names) x.adapters req.length) (req.map convNone ++ [some prov]) with
        | none => rw [hf] at hleaf; cases hleaf
        | some a =>
          rw [hf] at hleaf
          simp only [Option.bind_some] at hleaf
          split at hleaf
          · cases hleaf
          · injection hleaf with hleaf
            subst hleaf
            rw [Ext.get?_erase] at hnm
            by_cases hn : name = nm
            · subst hn; simp at hnm
            · have hn' : (name == nm) = false := by simpa using hn
              rw [hn'] at hnm
              simp only [Bool.false_eq_true, if_false] at hnm
              refine ⟨⟨hlen, hlast, a, hf, hnm⟩, fun h => ?_⟩
              have := h.2; simp at this; exact hn this.symm
      · rw [if_neg hc] at hleaf
        refine ⟨⟨hlen, hlast, names, hleaf, hnm⟩, fun h => ?_⟩
        have := h.2; simp at this; exact hc ⟨this.1, this.2.1⟩

theorem countOk_subscribe_some {x : Reg} (hx : CountOk x) (req : List (Option Id)) (q : Id) (v : Val) (x' : Reg)
    (ha : x'.adapters = x.adapters)
    (hs : x'.subs = setOrder x.subs req.length
      (Level.update ([] : List Val) (fun vs => vs ++ [v]) (req.length+1)
        (getOrder ([] : List Val) x.subs req.length) (req.map convNone ++ [some q])))
    (hp : x'.provided = AList.set x.provided q ((AList.get? x.provided q).getD 0 + 1)) : CountOk x' := by
  refine countOk_step hx q []
    [.sub req.length (req.map convNone ++ [some q]) ((subLeaf x req.length (req.map convNone ++ [some q])).getD []).length]
    List.nodup_nil (fun t ht => by cases ht) (fun p t ht => ?_) (by rw [hp, Ext.get?_set]; simp) (fun p hne => by
      have : ¬ q = p := fun e => hne e.symm
      rw [hp, Ext.get?_set]; simp [this])
  cases t with
  | ad o path nm =>
    left
    refine ⟨?_, fun h => by cases h.2⟩
    simpa [Bound, adLeaf, ha] using ht
  | sub o path i =>
    obtain ⟨hlen, hlast, vs, hleaf, hi⟩ := ht
    unfold subLeaf at hleaf
    rw [hs, leaf_update _ _ _ _ _ (path_len req _) _ _ hlen] at hleaf
    by_cases hc : o = req.length ∧ path = req.map convNone ++ [some q]
    · rw [if_pos hc] at hleaf
      obtain ⟨ho, hpath⟩ := hc
      subst ho; subst hpath
      have hpq : p = q := by
        rw [path_last] at hlast; injection hlast with e; injection e with e; exact e.symm
      injection hleaf with hleaf
      subst hleaf
      rw [List.length_append, List.length_singleton] at hi
      by_cases hlt : i < ((subLeaf x req.length (req.map convNone ++ [some q])).getD []).length
      · left
        refine ⟨⟨hlen, hlast, ?_⟩, fun h => by cases h.2⟩
        unfold subLeaf at hlt ⊢
        cases hf : Level.find (req.length+1) (getOrder ([] : List Val) x.subs req.length) (req.map convNone ++ [some q]) with
        | none => rw [hf] at hlt; simp at hlt
        | some old => rw [hf] at hlt; exact ⟨old, rfl, hlt⟩
      · right
        refine ⟨hpq, ?_⟩
        have : i = ((subLeaf x req.length (req.map convNone ++ [some q])).getD []).length := by
          unfold subLeaf at hlt ⊢; omega
        rw [this]; simp
    · rw [if_neg hc] at hleaf
      exact Or.inl ⟨⟨hlen, hlast, vs, hleaf, hi⟩, fun h => by cases h.2⟩

theorem countOk_mono {x x' : Reg} (hx : CountOk x) (hB : ∀ p t, Bound x' p t → Bound x p t) (hp : x'.provided = x.provided) :
    CountOk x' := by
  intro p L hn hL
  rw [hp]
  exact hx p L hn (fun t ht => hB p t (hL t ht))

/-- a change of the subscriber containers under a path whose provided key is `None` is invisible to the counts -/
theorem bound_of_subs_none {x x' : Reg} (ha : x'.adapters = x.adapters)
    (hsame : ∀ o path, path.length = o+1 → path.getLast? ≠ some none → subLeaf x' o path = subLeaf x o path) :
    ∀ p t, Bound x' p t → Bound x p t := by
  intro p t ht
  cases t with
  | ad o path nm => simpa [Bound, adLeaf, ha] using ht
  | sub o path i =>
    obtain ⟨hlen, hlast, vs, hleaf, hi⟩ := ht
    rw [hsame o path hlen (by rw [hlast]; simp)] at hleaf
    exact ⟨hlen, hlast, vs, hleaf, hi⟩

theorem countOk_subscribe_none {x : Reg} (hx : CountOk x) (req : List (Option Id)) (v : Val) (x' : Reg)
    (ha : x'.adapters = x.adapters)
    (hs : x'.subs = setOrder x.subs req.length
      (Level.update ([] : List Val) (fun vs => vs ++ [v]) (req.length+1)
        (getOrder ([] : List Val) x.subs req.length) (req.map convNone ++ [none])))
    (hp : x'.provided = x.provided) : CountOk x' := by
  refine countOk_mono hx (bound_of_subs_none ha (fun o path hlen hlast => ?_)) hp
  unfold subLeaf
  rw [hs, leaf_update _ _ _ _ _ (path_len req _) _ _ hlen, if_neg]
  rintro ⟨_, rfl⟩
  exact hlast (path_last req none)

theorem countOk_unsubscribe_none {x : Reg} (hx : CountOk x) (req : List (Option Id)) (new : List Val) (x' : Reg)
    (ha : x'.adapters = x.adapters)
    (hs : x'.subs = setOrder x.subs req.length
      (Level.remove (fun (vs : List Val) => vs.isEmpty) (fun _ => new) (req.length+1)
        (getOrder ([] : List Val) x.subs req.length) (req.map convNone ++ [none])).1)
    (hp : x'.provided = x.provided) : CountOk x' := by
  refine countOk_mono hx (bound_of_subs_none ha (fun o path hlen hlast => ?_)) hp
  unfold subLeaf
  rw [hs, leaf_remove _ _ _ _ _ _ (path_len req _) _ _ hlen, if_neg]
  rintro ⟨_, rfl⟩
  exact hlast (path_last req none)

theorem countOk_unsubscribe_some {x : Reg} (hx : CountOk x) (req : List (Option Id)) (q : Id) (old new : List Val)
    (hfound : Level.find (req.length+1) (getOrder ([] : List Val) x.subs req.length) (req.map convNone ++ [some q]) = some old)
    (x' : Reg) (ha : x'.adapters = x.adapters)
    (hs : x'.subs = setOrder x.subs req.length
      (Level.remove (fun (vs : List Val) => vs.isEmpty) (fun _ => new) (req.length+1)
        (getOrder ([] : List Val) x.subs req.length) (req.map convNone ++ [some q])).1)
    (hp : (AList.get? x'.provided q).getD 0 = (AList.get? x.provided q).getD 0 + new.length - old.length)
    (hother : ∀ p, p ≠ q → AList.get? x'.provided p = AList.get? x.provided p) : CountOk x' := by
  have hinj : ∀ a b : Nat, a ≠ b → Token.sub req.length (req.map convNone ++ [some q]) a ≠ Token.sub req.length (req.map convNone ++ [some q]) b :=
    fun a b hab e => hab (by injection e)
  refine countOk_step hx q ((List.range old.length).map (Token.sub req.length (req.map convNone ++ [some q])))
    ((List.range new.length).map (Token.sub req.length (req.map convNone ++ [some q])))
    (List.Pairwise.map _ hinj List.nodup_range) (fun t ht => ?_) (fun p t ht => ?_)
    (by rw [hp]; simp) hother
  · obtain ⟨i, hi, rfl⟩ := List.mem_map.mp ht
    exact ⟨path_len req _, path_last req _, old, hfound, List.mem_range.mp hi⟩
  · cases t with
    | ad o path nm =>
      left
      refine ⟨?_, fun h => by simp at h⟩
      simpa [Bound, adLeaf, ha] using ht
    | sub o path i =>
      obtain ⟨hlen, hlast, vs, hleaf, hi⟩ := ht
      unfold subLeaf at hleaf
      rw [hs, leaf_remove _ _ _ _ _ _ (path_len req _) _ _ hlen] at hleaf
      by_cases hc : o = req.length ∧ path = req.map convNone ++ [some q]
      · rw [if_pos hc, hfound] at hleaf
        obtain ⟨ho, hpath⟩ := hc
        subst ho; subst hpath
        have hpq : p = q := by
          rw [path_last] at hlast; injection hlast with e; injection e with e; exact e.symm
        simp only [Option.bind_some] at hleaf
        split at hleaf
        · cases hleaf
        · injection hleaf with hleaf
          subst hleaf
          exact Or.inr ⟨hpq, List.mem_map.mpr ⟨i, List.mem_range.mpr hi, rfl⟩⟩
      · rw [if_neg hc] at hleaf
        refine Or.inl ⟨⟨hlen, hlast, vs, hleaf, hi⟩, fun h => ?_⟩
        obtain ⟨j, _, e⟩ := List.mem_map.mp h.2
        injection e with e1 e2 e3
        exact hc ⟨e1.symm, e2.symm⟩

/-! the count invariant along histories -/
def CountInv (w : World) : Prop := ∀ r, CountOk (w.reg r)

theorem countInv_of_sameTab {w w' : World} (h : CountInv w) (s : SameTab w w') : CountInv w' := fun r =>
  countOk_same (h r) (s.adapters r) (s.subs r) (s.provided r)

theorem countInv_setReg {w : World} (h : CountInv w) (r : Nat) (x : Reg) (hx : CountOk x) : CountInv (w.setReg r x) := fun y => by
  by_cases hy : y = r
  · subst hy; rw [reg_setReg_same]; exact hx
  · rw [reg_setReg_ne _ hy]; exact h y

theorem countInv_mut (fuel : Nat) {w : World} (h : CountInv w) (r : Nat) (x : Reg) (hx : CountOk x) :
    CountInv (changed fuel (w.setReg r x) r) :=
  countInv_of_sameTab (countInv_setReg h r x hx) (changed_sameTab fuel _ r)

theorem countOk_empty (x : Reg) (ha : x.adapters = []) (hs : x.subs = []) : CountOk x := by
  intro p L _ hL
  cases L with
  | nil => exact Nat.zero_le _
  | cons t _ =>
    have := hL t (List.mem_cons_self ..)
    cases t with
    | ad o path nm =>
      obtain ⟨hlen, _, names, hleaf, _⟩ := this
      unfold adLeaf at hleaf; rw [ha, getOrder_nil, find_empty_succ] at hleaf; cases hleaf
    | sub o path i =>
      obtain ⟨hlen, _, vs, hleaf, _⟩ := this
      unfold subLeaf at hleaf; rw [hs, getOrder_nil, find_empty_succ] at hleaf; cases hleaf

theorem register_countInv (fuel : Nat) {w : World} (h : CountInv w) (r : Nat) (req : List (Option Id)) (prov : Id)
    (name : String) (v : Val) : CountInv (register fuel w r req prov name v) := by
  unfold register
  simp only []
  split
  · exact h
  · refine countInv_mut fuel h r _ (countOk_register (h r) req prov name v _ ?_ ?_ ?_) <;> (split <;> rfl)

theorem subscribe_countInv (fuel : Nat) {w : World} (h : CountInv w) (r : Nat) (req : List (Option Id)) (prov : Option Id)
    (v : Val) : CountInv (subscribe fuel w r req prov v) := by
  unfold subscribe
  simp only []
  apply countInv_mut fuel h
  split
  · exact countOk_subscribe_none (h r) req v _ rfl rfl rfl
  · rename_i q
    refine countOk_subscribe_some (h r) req q v _ ?_ ?_ ?_ <;> (split <;> rfl)
namespace Ext
/-- the `_provided` part of the record `unregister` / `unsubscribe` store -/
theorem dec_provided (w : World) (x1 x2 : Reg) (prov : AList Id Nat) (p : Id) (n : Nat)
    (h1 : x1.provided = AList.erase prov p) (h2 : x2.provided = AList.set prov p n) :
    (AList.get? (if (n == 0) = true then removeExtendor w x1 p else x2).provided p).getD 0 = n ∧
    ∀ p', p' ≠ p → AList.get? (if (n == 0) = true then removeExtendor w x1 p else x2).provided p' = AList.get? prov p' := by
  split
  · rename_i hn
    have hn' : n = 0 := by simpa using hn
    rw [removeExtendor_provided, h1]
    refine ⟨by rw [Ext.get?_erase]; simp [hn'], fun p' hp' => ?_⟩
    have : ¬ p = p' := fun e => hp' e.symm
    rw [Ext.get?_erase]; simp [this]
  · rw [h2]
    refine ⟨by rw [Ext.get?_set]; simp, fun p' hp' => ?_⟩
    have : ¬ p = p' := fun e => hp' e.symm
    rw [Ext.get?_set]; simp [this]

end Ext
theorem unregister_countInv (fuel : Nat) {w : World} (h : CountInv w) (r : Nat) (req : List (Option Id)) (prov : Id)
    (name : String) (v : Option Val) : CountInv (unregister fuel w r req prov name v) := by
  unfold unregister
  simp only []
  split
  · exact h
  · split
    · exact h
    · rename_i old hfound
      repeat' (first
        | exact h
        | (refine countInv_mut fuel h r _ (countOk_unregister (h r) req prov name old hfound _ ?_ ?_
              (dec_provided w _ _ _ prov _ rfl rfl).1 (dec_provided w _ _ _ prov _ rfl rfl).2) <;> (split <;> rfl))
        | split)
theorem unsubscribe_countInv (fuel : Nat) {w : World} (h : CountInv w) (r : Nat) (req : List (Option Id)) (prov : Option Id)
    (v : Option Val) : CountInv (unsubscribe fuel w r req prov v) := by
  unfold unsubscribe
  simp only []
  split
  · exact h
  · split
    · exact h
    · rename_i old hfound
      repeat' (first
        | exact h
        | (apply countInv_mut fuel h
           split
           · exact countOk_unsubscribe_none (h r) req _ _ rfl rfl rfl
           · rename_i q
             refine countOk_unsubscribe_some (h r) req q old _ hfound _ ?_ ?_
               (dec_provided w _ _ _ q _ rfl rfl).1 (dec_provided w _ _ _ q _ rfl rfl).2 <;> (split <;> rfl))
        | split)

theorem foldl_countInv {α} (f : World → α → World) (hf : ∀ w a, CountInv w → CountInv (f w a)) :
    ∀ (l : List α) (w : World), CountInv w → CountInv (l.foldl f w)
  | [], _, h => h
  | a :: l, w, h => foldl_countInv f hf l (f w a) (hf w a h)

theorem rebuild_countInv (fuel : Nat) {w : World} (h : CountInv w) (r : Nat) : CountInv (rebuild fuel w r) := by
  unfold rebuild
  simp only []
  apply foldl_countInv _ (fun w e hw => subscribe_countInv fuel hw r _ _ _)
  apply foldl_countInv _ (fun w e hw => register_countInv fuel hw r _ _ _ _)
  refine countInv_of_sameTab ?_ (setBases_sameTab fuel _ r _)
  exact countInv_setReg h r _ (countOk_empty _ rfl rfl)

theorem step_countInv (fuel : Nat) {w : World} (h : CountInv w) (op : Op) : CountInv (step fuel w op) := by
  cases op with
  | newreg r bs =>
    exact countInv_of_sameTab (countInv_setReg h r {} (countOk_empty _ rfl rfl)) (setBases_sameTab fuel (w.setReg r {}) r bs)
  | setBases r bs => exact countInv_of_sameTab h (setBases_sameTab fuel w r bs)
  | rebuild r => exact rebuild_countInv fuel h r
  | register r req p n v => exact register_countInv fuel h r req p n v
  | unregister r req p n v => exact unregister_countInv fuel h r req p n v
  | subscribe r req p v => exact subscribe_countInv fuel h r req p v
  | unsubscribe r req p v => exact unsubscribe_countInv fuel h r req p v
  | lookup r req p n => exact countInv_of_sameTab h (lookup_sameTab w r req p n)
  | lookupAll r req p => exact countInv_of_sameTab h (lookupAll_sameTab w r req p)
  | subscriptions r req p => exact countInv_of_sameTab h (subscriptions_sameTab w r req p)

theorem run_countInv (fuel : Nat) : ∀ (ops : List Op) {w : World}, CountInv w → CountInv (run fuel w ops)
  | [], _, h => h
  | op :: ops, _, h => run_countInv fuel ops (step_countInv fuel h op)

theorem countInv_of_no_regs (w : World) (h : w.regs = []) : CountInv w := fun r => by
  rw [reg_of_no_regs w h r]; exact countOk_empty _ rfl rfl

/-! what the count invariant gives -/
namespace Ext
theorem map_convNone_some (path : List Id) : (path.map some).map convNone = path.map some := by
  induction path with
  | nil => rfl
  | cons a t ih => simp [convNone]

end Ext
theorem ReqOk.length_eq {w : World} {path req : List Id} (h : ReqOk w path req) : path.length = req.length := by
  induction h with
  | nil => rfl
  | cons _ _ ih => simp [ih]

/-- an adapter that is registered keeps its provided interface alive in `_provided` -/
theorem registered_live {w : World} (h : CountInv w) (r : Nat) (req : List (Option Id)) (prov : Id) (name : String) (v : Val)
    (hreg : registered w r req prov name = some v) : (AList.get? (w.reg r).provided prov).isSome = true := by
  have hb : Bound (w.reg r) prov (.ad req.length (req.map convNone ++ [some prov]) name) := by
    refine ⟨path_len req _, path_last req _, ?_⟩
    unfold registered at hreg
    simp only [] at hreg
    unfold adLeaf
    cases hf : Level.find (req.length+1) (getOrder ([] : Names) (w.reg r).adapters req.length) (req.map convNone ++ [some prov]) with
    | none => rw [hf] at hreg; cases hreg
    | some names => rw [hf] at hreg; exact ⟨names, rfl, by simp only [Option.bind_some] at hreg; rw [hreg]; rfl⟩
  have := h r prov [_] (by simp) (fun t ht => by rw [List.mem_singleton] at ht; subst ht; exact hb)
  apply getD_ne_zero_isSome
  simp at this; omega

/-- … and so does a subscriber -/
theorem subscribed_live {w : World} (h : CountInv w) (r : Nat) (req : List (Option Id)) (q : Id) (v v' : Val)
    (hsub : subscribed w r req (some q) v = some v') : (AList.get? (w.reg r).provided q).isSome = true := by
  have hb : Bound (w.reg r) q (.sub req.length (req.map convNone ++ [some q]) 0) := by
    refine ⟨path_len req _, path_last req _, ?_⟩
    unfold subscribed at hsub
    simp only [] at hsub
    unfold subLeaf
    split at hsub
    · rename_i vs hf
      refine ⟨vs, hf, ?_⟩
      cases vs with
      | nil => simp at hsub
      | cons _ _ => simp
    · cases hsub
  have := h r q [_] (by simp) (fun t ht => by rw [List.mem_singleton] at ht; subst ht; exact hb)
  apply getD_ne_zero_isSome
  simp at this; omega

/-- a registered adapter's provided interface is listed in `_extendors[i]` for every `i` of its `__iro__` -/
theorem registered_in_extendors {w : World} (hE : ExtInv w) (hC : CountInv w) (r : Nat) (req : List (Option Id)) (prov : Id)
    (name : String) (v : Val) (hreg : registered w r req prov name = some v) (i : Id) (hi : i ∈ w.iro prov) :
    prov ∈ (AList.get? (w.reg r).extendors i).getD [] :=
  ((hE r).content i prov).mpr ⟨registered_live hC r req prov name v hreg, hi⟩

namespace Ext
theorem getOrder_of_not_any {α} (e : α) (l : List (ByOrder α)) (o : Nat) (h : ¬ (l.any (·.order == o)) = true) :
    getOrder e l o = Level.empty e (o+1) := by
  induction l with
  | nil => rfl
  | cons b l ih =>
    have hb : ¬ b.order = o := fun e => h (by simp [List.any_cons, e])
    rw [getOrder_cons_ne e b l o hb]
    exact ih (fun h' => h (by simp [List.any_cons, h']))

end Ext
/-- **completeness through the extendors table**, one registry: if registry `b` stores an adapter under a path
`path ++ [e]` that is applicable to the lookup (`path` position-wise in the `__sro__`s of the required specifications, `e`
is-or-extends `prov`), then `b` answers the lookup (with that adapter or a better one: `regLookup_most_general`,
`C04_best`) — neither the guard nor the extendors walk can miss it. -/
theorem regLookup_complete {w : World} (hE : ExtInv w) (hC : CountInv w) (b : Nat) (path req : List Id) (e prov : Id)
    (name : String) (v' : Val) (hreq : ReqOk w path req) (hext : prov ∈ w.iro e)
    (hreg : registered w b (path.map some) e name = some v') : regLookup w b req prov name ≠ none := by
  have hmem := registered_in_extendors hE hC b _ e name v' hreg prov hext
  have hlen : (path.map some).length = req.length := by rw [List.length_map]; exact hreq.length_eq
  unfold registered at hreg
  simp only [] at hreg
  rw [hlen, map_convNone_some] at hreg
  have hhit : rhit req.length (getOrder ([] : Names) (w.reg b).adapters req.length) name (path.map some ++ [some e]) = some v' := hreg
  unfold regLookup
  simp only []
  split
  · rename_i hany
    exfalso
    rw [getOrder_of_not_any _ _ _ (by simpa using hany)] at hreg
    rw [find_empty_succ] at hreg
    cases hreg
  · split
    · rename_i hnone
      rw [hnone] at hmem; cases hmem
    · rename_i ext hsome
      rw [hsome] at hmem
      have hmem' : e ∈ ext := hmem
      split
      · rename_i hemp
        rw [List.isEmpty_iff.mp hemp] at hmem'; cases hmem'
      · intro hnone
        have := (C04_complete w req.length _ req ext name rfl).mp hnone (path.map some ++ [some e])
          ((mem_rpaths w req ext _).mpr ⟨path, e, rfl, hmem', hreq⟩)
        rw [hhit] at this; cases this

/-- **C04_lookup_complete**: after any history, if some registry `b` of `r`'s resolution order stores an adapter
applicable to `lookup(required, provided, name)`, the uncached lookup through `r` does not return the default. -/
theorem C04_lookup_complete (fuel : Nat) (sro iro : Id → List Id) (ops : List Op) (r b : Nat) (path req : List Id)
    (e prov : Id) (name : String) (v' : Val)
    (hb : b ∈ ((run fuel (emptyPush sro iro) ops).reg r).ro)
    (hreq : ReqOk (run fuel (emptyPush sro iro) ops) path req) (hext : prov ∈ iro e)
    (hreg : registered (run fuel (emptyPush sro iro) ops) b (path.map some) e name = some v') :
    uncachedLookup (run fuel (emptyPush sro iro) ops) r req prov name ≠ none := by
  have hE := C04_extInv fuel sro iro ops
  have hC : CountInv (run fuel (emptyPush sro iro) ops) := run_countInv fuel ops (countInv_of_no_regs _ rfl)
  have e1 : uncachedLookup (run fuel (emptyPush sro iro) ops) r req prov name =
      ((run fuel (emptyPush sro iro) ops).reg r).ro.findSome? fun b => regLookup (run fuel (emptyPush sro iro) ops) b req prov name := rfl
  rw [e1]
  intro hnone
  have := List.findSome?_eq_none_iff.mp hnone b hb
  exact regLookup_complete hE hC b path req e prov name v' hreq (by rw [run_iro]; exact hext) hreg this

theorem C04_count_ge_any_flavour (fuel : Nat) (w0 : World) (h0 : w0.regs = []) (ops : List Op) : CountInv (run fuel w0 ops) :=
  run_countInv fuel ops (countInv_of_no_regs w0 h0)

/-- **the count invariant** after any history (no guard) -/
theorem C04_count_ge (fuel : Nat) (sro iro : Id → List Id) (ops : List Op) : CountInv (run fuel (emptyPush sro iro) ops) :=
  run_countInv fuel ops (countInv_of_no_regs _ rfl)

/-! ### non-vacuity: a concrete history over the diamond; the guards are needed: counterexamples -/
/-- registry 1 below registry 0; in registry 0 adapters from `9` providing `D`, `B`, `C`, a subscriber providing `A`, a
re-registration (the count of `C` goes to 2), an unregistration, a lookup through registry 1 -/
def demoExtOps : List Op := [.newreg 0 [], .newreg 1 [0],
   .register 0 [some 9] 4 "" ⟨40, 4⟩, .register 0 [some 9] 2 "" ⟨20, 2⟩, .register 0 [some 9] 3 "" ⟨30, 3⟩,
   .subscribe 0 [some 9] (some 1) ⟨10, 1⟩, .register 0 [some 9] 3 "" ⟨31, 5⟩, .unregister 0 [some 9] 3 "" none,
   .lookup 1 [9] 1 ""]
def diamondWorld : World := emptyPush diamondSro diamondIro

/-- what the tables are after that history (by evaluation): more general first; `C` (3) is still listed although its
only adapter is gone — the re-registration had bumped its count to 2 -/
example : ((run 8 diamondWorld demoExtOps).reg 0).extendors = [(4, [4]), (2, [2, 4]), (3, [3, 4]), (1, [1, 3, 2, 4]), (0, [1, 3, 2, 4])] ∧
    ((run 8 diamondWorld demoExtOps).reg 0).provided = [(4, 1), (2, 1), (3, 1), (1, 1)] := by decide +kernel

example (r : Nat) (i : Id) := C04_extendors 8 diamondSro diamondIro diamond_ok (demoExtOps ++ [.rebuild 0]) r i
example (e : Id) (he : e ∈ (AList.get? ((run 8 diamondWorld demoExtOps).reg 0).extendors 1).getD []) : 1 ∈ diamondSro e := by
  have := ext_mem_extends (C04_extInv 8 _ _ demoExtOps) (diamond_ok.of_sameGraph (run_sameGraph 8 demoExtOps _)) 0 1 e he
  rw [run_sro] at this; exact this
example (r : Nat) (i : Id) : ((AList.get? ((run 8 diamondWorld (demoExtOps ++ [.rebuild 0])).reg r).extendors i).getD []).Nodup :=
  C04_extendors_nodup 8 diamondSro diamondIro diamond_ok.iro_nodup _ r i
example (r : Nat) (i : Id) : List.Pairwise (fun e1 e2 => ¬ (e1 ≠ e2 ∧ e2 ∈ diamondSro e1))
    ((AList.get? ((run 8 diamondWorld (demoExtOps ++ [.rebuild 0])).reg r).extendors i).getD []) :=
  C04_extendors_order 8 diamondSro diamondIro diamond_ok.trans diamond_ok.antisymm _ r i

/-- the lookup of `A` (1) through registry 1 finds the adapter providing `B` (2): `A` itself has only a subscriber, `C`
has nothing left, `D` (4) extends `B` -/
theorem demo_lookup : uncachedLookup (run 8 diamondWorld demoExtOps) 1 [9] 1 "" = some ⟨20, 2⟩ := by decide +kernel
example := C04_most_general_lookup 8 diamondSro diamondIro diamond_ok.trans diamond_ok.antisymm demoExtOps 1 [9] 1 "" ⟨20, 2⟩
  demo_lookup
/-- the hypotheses of `C04_most_general` on the same history: depth 1, `ext = _extendors[A]` of registry 0 -/
example := C04_most_general 8 diamondSro diamondIro diamond_ok.trans diamond_ok.antisymm demoExtOps 0 1 [1, 3, 2, 4]
  (by decide +kernel) 1 (getOrder ([] : Names) ((run 8 diamondWorld demoExtOps).reg 0).adapters 1) [9] "" ⟨20, 2⟩ rfl (by decide +kernel)
example := C04_most_general_lex 8 diamondSro diamondIro diamond_ok.trans diamond_ok.antisymm demoExtOps 0 1 [1, 3, 2, 4]
  (by decide +kernel) 1 (getOrder ([] : Names) ((run 8 diamondWorld demoExtOps).reg 0).adapters 1) [9] "" ⟨20, 2⟩ rfl (by decide +kernel)
example : ((AList.get? ((run 8 diamondWorld demoExtOps).reg 0).extendors 1).getD []).head? = some 1 :=
  ext_self_first (C04_extInv 8 _ _ demoExtOps) (diamond_ok.of_sameGraph (run_sameGraph 8 demoExtOps _)) 0 1
    (by decide +kernel) (by rw [run_iro]; decide)
/-- the hypotheses of `C04_lookup_complete`: the adapter providing `D` (4) stored in registry 0 is applicable to the lookup
of `A` (1) through registry 1 -/
example := C04_lookup_complete 8 diamondSro diamondIro demoExtOps 1 0 [9] [9] 4 1 "" ⟨40, 4⟩ (by decide +kernel)
  (ReqOk.cons (by rw [run_sro]; decide) ReqOk.nil) (by decide) (by decide +kernel)
/-- the guard: registry 1 has no registration at all and is skipped; registry 0 is not -/
example : extGuard ((run 8 diamondWorld demoExtOps).reg 1) 1 = true ∧ extGuard ((run 8 diamondWorld demoExtOps).reg 0) 1 = false := by
  decide +kernel

/-- `(iro p).Nodup` is needed for 1b: an `__iro__` listing `0` twice makes `add_extendor` insert twice -/
theorem nodup_needs_iro_nodup :
    ((run 1 (emptyPush (fun i => [i]) (fun i => if i = 1 then [0, 0] else [i])) [.register 0 [] 1 "" ⟨1, 1⟩]).reg 0).extendors
      = [(0, [1, 1])] := by decide +kernel

/-- transitivity is needed for 1c: `1` extends `2`, `2` extends `3`, but `3 ∉ sro 1`; registering 2, 3, 1 puts `1`
between them and `2` ends up before `3`, which it strictly extends -/
theorem order_needs_trans :
    let sro : Id → List Id := fun i => if i = 1 then [1, 2] else if i = 2 then [2, 3] else [i]
    SroAntisymm sro ∧
    ((run 1 (emptyPush sro (fun i => [i, 0]))
      [.register 0 [] 2 "" ⟨1, 1⟩, .register 0 [] 3 "" ⟨1, 1⟩, .register 0 [] 1 "" ⟨1, 1⟩]).reg 0).extendors
      = [(2, [2]), (0, [2, 1, 3]), (3, [3]), (1, [1])] ∧
    ¬ List.Pairwise (fun e1 e2 => ¬ (e1 ≠ e2 ∧ e2 ∈ sro e1)) [2, 1, 3] := by
  refine ⟨fun p e h1 h2 => ?_, by decide +kernel, by decide⟩
  by_cases hp1 : p = 1
  · subst hp1
    simp at h1
    rcases h1 with rfl | rfl
    · rfl
    · simp at h2
  · by_cases hp2 : p = 2
    · subst hp2
      simp at h1
      rcases h1 with rfl | rfl
      · rfl
      · simp at h2
    · simp [hp1, hp2] at h1; exact h1.symm

/-- antisymmetry is needed for 1c: `1` and `2` extend each other (the relation is transitive); `2` is inserted after `1` -/
theorem order_needs_antisymm :
    let sro : Id → List Id := fun i => if i = 1 then [1, 2] else if i = 2 then [2, 1] else [i]
    SroTrans sro ∧
    ((run 1 (emptyPush sro (fun i => [i, 0])) [.register 0 [] 1 "" ⟨1, 1⟩, .register 0 [] 2 "" ⟨1, 1⟩]).reg 0).extendors
      = [(1, [1]), (0, [1, 2]), (2, [2])] ∧
    ¬ List.Pairwise (fun e1 e2 => ¬ (e1 ≠ e2 ∧ e2 ∈ sro e1)) [1, 2] := by
  refine ⟨fun p e f h1 h2 => ?_, by decide +kernel, by decide⟩
  by_cases hp1 : p = 1
  · subst hp1
    simp at h1
    rcases h1 with rfl | rfl
    · exact h2
    · simp at h2 ⊢; rcases h2 with rfl | rfl <;> simp
  · by_cases hp2 : p = 2
    · subst hp2
      simp at h1
      rcases h1 with rfl | rfl
      · exact h2
      · simp at h2 ⊢; rcases h2 with rfl | rfl <;> simp
    · simp [hp1, hp2] at h1; subst h1; exact h2

#print axioms C04_extInv
#print axioms C04_extendors_content
#print axioms C04_extendors
#print axioms C04_provided_count_ne_zero
#print axioms C04_extendors_nodup
#print axioms C04_extendors_order
#print axioms C04_most_general
#print axioms C04_most_general_lookup
#print axioms C04_most_general_lex
#print axioms C04_guard
#print axioms C04_count_ge
#print axioms C04_lookup_complete
#print axioms registered_live
#print axioms subscribed_live
#print axioms ext_self_first
#print axioms step_sameGraph
#print axioms diamond_ok
#print axioms order_needs_trans
end ZI.Registry
