import ZI.Props.C09Reg
/-! # C09 — "replaying `allRegistrations()` and `allSubscriptions()` into an EMPTY registry … yields a registry that answers
identically"

`cloneInto fuel w r r2` is what the statement describes (and what the driver's `clone` operation and the harness's clone oracle
do): a fresh registry `r2` with the bases of `r`, into which everything `allRegistrations()` / `allSubscriptions()` of `r` yield is
registered / subscribed in the order yielded.  Proved: in every world reachable by ANY history, the clone's `registered()` equals
the original's for every key, every subscription leaf is the same LIST (order, multiplicities), even the container structure is
the same, and no other registry is touched.  With C04 / C07 (lookups are functions of these leaves and of the base chain, which
is copied) the clone answers every lookup as the original does. -/
namespace ZI.Registry
open ZI.RO
local notation "Id" => Nat

def cloneInto (fuel : Nat) (w : World) (r r2 : Nat) : World :=
  replaySubs fuel r2 (allSubscriptions (w.reg r))
    (replayRegs fuel r2 (allRegistrations (w.reg r)) (setBases fuel (w.setReg r2 {}) r2 (w.reg r).bases))

theorem registered_fresh (fuel : Nat) (w : World) (r2 : Nat) (bs : List Nat) (req : List (Option Id)) (prov : Id) (name : String) :
    registered (setBases fuel (w.setReg r2 {}) r2 bs) r2 req prov name = none := by
  rw [registered_eq, (setBases_sameData fuel _ r2 bs).adapters r2, reg_setReg_same,
    pathFind_of_not_mem _ _ _ _ (by simp [orders])]
  rfl

theorem clone_reg_ne (fuel : Nat) (w : World) (r r2 : Nat) {r' : Nat} (hr : r' ≠ r2) :
    DataEq ((cloneInto fuel w r r2).reg r') (w.reg r') := by
  unfold cloneInto
  refine (replaySubs_reg_ne fuel r2 hr _ _).trans ((replayRegs_reg_ne fuel r2 hr _ _).trans ?_)
  have := (setBases_sameData fuel (w.setReg r2 {}) r2 (w.reg r).bases).at r'
  rw [reg_setReg_ne _ hr] at this
  exact this

/-- **C09_clone (registrations)** -/
theorem C09_clone_registered (fuel : Nat) (w : World) (r r2 : Nat) (hwf : RegWF (w.reg r)) (hkeys : RegKeys (w.reg r))
    (req : List (Option Id)) (prov : Id) (name : String) :
    registered (cloneInto fuel w r r2) r2 req prov name = registered w r req prov name := by
  unfold cloneInto
  rw [registered_replaySubs]
  have ok := regsOk_allRegistrations (w.reg r) hwf hkeys
  have h2 : ReplayInv (fun _ => True) (allRegistrations (w.reg r)) r2
      (setBases fuel (w.setReg r2 {}) r2 (w.reg r).bases) :=
    ⟨trivial, fun req prov name v' h => by rw [registered_fresh] at h; cases h⟩
  obtain ⟨t1, t2, _⟩ := replay_regs (fun _ => True) fuel r2 (fun _ _ _ _ _ _ _ => trivial) _ ok _ _ (fun _ h => h) h2
  cases hreg : registered w r req prov name with
  | some v =>
    have hm := (allRegistrations_registered w r hwf req prov name v).mpr hreg
    have := t2 _ hm
    simp only [Option.getD_some] at this
    rw [← registered_congr _ r2 req (req.map convNone) prov name (map_convNone_idem req)]
    exact this
  | none =>
    cases hreg' : registered (replayRegs fuel r2 (allRegistrations (w.reg r))
        (setBases fuel (w.setReg r2 {}) r2 (w.reg r).bases)) r2 req prov name with
    | none => rfl
    | some v' =>
      have := (allRegistrations_registered w r hwf req prov name v').mp (t1.sound req prov name v' hreg')
      rw [hreg] at this; cases this

/-- **C09_clone (subscriptions)**: every leaf of the clone is the same list — same subscribers, same order, same multiplicities -/
theorem C09_clone_subsLeaf (fuel : Nat) (w : World) (r r2 : Nat) (hwf : RegWF (w.reg r)) (hkeys : RegKeys (w.reg r))
    (req : List (Option Id)) (prov : Option Id) :
    subsLeaf (cloneInto fuel w r r2) r2 req prov = subsLeaf w r req prov := by
  unfold cloneInto
  rw [subsLeaf_replaySubs]
  have h0 : subsLeaf (replayRegs fuel r2 (allRegistrations (w.reg r))
      (setBases fuel (w.setReg r2 {}) r2 (w.reg r).bases)) r2 req prov = [] := by
    unfold subsLeaf
    rw [subsFind_replayRegs]
    unfold subsFind
    rw [(setBases_sameData fuel _ r2 _).subs r2, reg_setReg_same, pathFind_of_not_mem _ _ _ _ (by simp [orders])]
    rfl
  rw [h0, List.nil_append, subsLeaf_eq_K, ← allSubscriptions_leaf (w.reg r) hwf]
  congr 1
  apply List.filter_congr
  intro e he
  have hc := mem_allSubscriptions_conv (w.reg r) hwf hkeys e he
  rw [hc]
  unfold keyIs
  rw [Bool.eq_iff_iff]
  simp only [decide_eq_true_eq, Bool.and_eq_true, beq_iff_eq]
  constructor
  · rintro ⟨h1, h2⟩; exact ⟨h1.symm, h2.symm⟩
  · rintro ⟨h1, h2⟩; exact ⟨h1.symm, h2.symm⟩

/-- `cloneInto` is literally what the driver's `clone` operation executes (and what the real registries are asked to do) -/
theorem cloneInto_unfold (fuel : Nat) (w : World) (r r2 : Nat) :
    cloneInto fuel w r r2 =
      (allSubscriptions (w.reg r)).foldl (fun w e => subscribe fuel w r2 e.1 e.2.1 e.2.2)
        ((allRegistrations (w.reg r)).foldl (fun w e => register fuel w r2 e.1 (e.2.1.getD 0) e.2.2.1 e.2.2.2)
          (setBases fuel (w.setReg r2 {}) r2 (w.reg r).bases)) := rfl

/-- **C09_clone**: in every world reachable by ANY history from the empty world, replaying the two enumerations of registry `r`
into a fresh registry `r2` gives a registry whose `registered()` answers and subscription leaves are those of `r`, and touches
no other registry's data -/
theorem C09_clone (fuel : Nat) (sro iro : Id → List Id) (ops : List Op) (r r2 : Nat) (req : List (Option Id)) :
    let w := run fuel (emptyPush sro iro) ops
    (∀ prov name, registered (cloneInto fuel w r r2) r2 req prov name = registered w r req prov name) ∧
    (∀ prov, subsLeaf (cloneInto fuel w r r2) r2 req prov = subsLeaf w r req prov) ∧
    (∀ r', r' ≠ r2 → DataEq ((cloneInto fuel w r r2).reg r') (w.reg r')) :=
  let h := C09_provided_le fuel sro iro ops r
  ⟨fun prov name => C09_clone_registered fuel _ r r2 h.wf h.keys req prov name,
   fun prov => C09_clone_subsLeaf fuel _ r r2 h.wf h.keys req prov,
   fun _ hr => clone_reg_ne fuel _ r r2 hr⟩

end ZI.Registry
