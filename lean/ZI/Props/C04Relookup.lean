import ZI.Props.C04Ext
/-! # `relookup` — the lookup object re-created for a registry that already holds registrations

`BaseAdapterRegistry._createLookup()` followed by `_v_lookup.changed(registry)` is what unpickling a persistent registry does
(`zope.component.persistentregistry`): the new lookup object starts with empty caches and builds its `_extendors` table with
`init_extendors`, which calls `add_extendor(p)` for the keys of `_provided` in their insertion order.  Model: `ZI.Registry.relookup`
(an operation of the registry driver; the correspondence runs it against both twins).

Proved here, for ANY world (no history hypothesis):
* `relookup_registered`, `relookup_provided` — the registration data and the reference counts are untouched;
* `relookup_tabOk` — the table built by `init_extendors` satisfies the invariant `TabOk` of C04Ext (content = the provided
  interfaces with a count, filed under every interface of their `__iro__`; no duplicates; MOST GENERAL FIRST), whenever the
  reference counts are what every history leaves (`C04_provided_count_ne_zero`) and `_provided` has one entry per interface.
  `TabOk` is all the C04 theorems about the ranking of candidates use of the table, so a re-created lookup object ranks like
  the one it replaces.  (A seeded change that appended instead of calling `add_extendor` — round 8, `q04a` — breaks exactly the
  `order` clause.) -/
namespace ZI.Registry
open ZI.RO
open Ext
namespace Ext

/-- the table `init_extendors` builds from a `_provided` listing -/
def initExt (S I : Id → List Id) (ps : AList Id Nat) (ext : AList Id (List Id)) : AList Id (List Id) :=
  ps.foldl (fun e pc => updAll (insExt S pc.1) (I pc.1) e) ext

theorem not_any_of_get?_none {m : AList Id Nat} {k : Id} (h : AList.get? m k = none) : ¬ (m.any (·.1 == k)) = true := by
  intro ha
  have := get?_isSome_of_any (m := m) (k := k) ha
  rw [h] at this
  cases this

theorem set_fresh (m : AList Id Nat) (k : Id) (v : Nat) (h : AList.get? m k = none) : AList.set m k v = m ++ [(k, v)] := by
  unfold AList.set
  rw [if_neg (not_any_of_get?_none h)]

/-- the loop of `init_extendors`, one `tabOk_add` per entry -/
theorem tabOk_initExt {S I : Id → List Id} : ∀ (ps pre : AList Id Nat) (ext : AList Id (List Id)), TabOk S I pre ext →
    (∀ pc ∈ ps, AList.get? pre pc.1 = none ∧ pc.2 ≠ 0) → (ps.map (·.1)).Nodup →
    TabOk S I (pre ++ ps) (initExt S I ps ext) := by
  intro ps
  induction ps with
  | nil => intro pre ext h _ _; simpa [initExt] using h
  | cons pc rest ih =>
    intro pre ext h hfresh hnd
    have hpc := hfresh pc (by simp)
    have h1 := tabOk_add h pc.1 hpc.1 pc.2 hpc.2
    rw [set_fresh pre pc.1 pc.2 hpc.1] at h1
    rw [List.map_cons, List.nodup_cons] at hnd
    have h2 := ih (pre ++ [(pc.1, pc.2)]) _ h1 (fun qc hq => by
      have hq' := hfresh qc (by simp [hq])
      refine ⟨?_, hq'.2⟩
      rw [get?_append, hq'.1, get?_cons, get?_nil]
      have hne : ¬ pc.1 = qc.1 := fun e => hnd.1 (by rw [e]; exact List.mem_map_of_mem hq)
      simp [hne]) hnd.2
    have e : pre ++ [(pc.1, pc.2)] ++ rest = pre ++ pc :: rest := by simp
    rw [e] at h2
    simpa [initExt] using h2

theorem fold_addExtendor_extendors (w : World) : ∀ (ps : AList Id Nat) (x : Reg),
    (ps.foldl (fun acc pc => addExtendor w acc pc.1) x).extendors = initExt w.sro w.iro ps x.extendors := by
  intro ps
  induction ps with
  | nil => intro x; rfl
  | cons pc rest ih => intro x; simp only [List.foldl_cons, initExt]; rw [ih]; rfl

theorem fold_addExtendor_provided (w : World) : ∀ (ps : AList Id Nat) (x : Reg),
    (ps.foldl (fun acc pc => addExtendor w acc pc.1) x).provided = x.provided := by
  intro ps
  induction ps with
  | nil => intro x; rfl
  | cons pc rest ih => intro x; simp only [List.foldl_cons]; rw [ih]; rfl

theorem fold_addExtendor_adapters (w : World) : ∀ (ps : AList Id Nat) (x : Reg),
    (ps.foldl (fun acc pc => addExtendor w acc pc.1) x).adapters = x.adapters := by
  intro ps
  induction ps with
  | nil => intro x; rfl
  | cons pc rest ih => intro x; simp only [List.foldl_cons]; rw [ih]; rfl

/-- the registry as `relookup` leaves it, for the flavour that is told of changes (no generation snapshot to take) -/
theorem relookup_reg (w : World) (r : Nat) (hv : w.verifying = false) :
    (relookup w r).reg r = (w.reg r).provided.foldl (fun acc pc => addExtendor w acc pc.1)
      { w.reg r with extendors := [], cache := [], mcache := [], scache := [], verifyRo := [], verifyGen := [] } := by
  unfold relookup
  simp only []
  have : (w.setReg r ((w.reg r).provided.foldl (fun acc pc => addExtendor w acc pc.1)
      { w.reg r with extendors := [], cache := [], mcache := [], scache := [], verifyRo := [], verifyGen := [] })).verifying = false := hv
  rw [if_neg (by simpa using hv)]
  exact reg_setReg_same _ _ _

theorem relookup_provided (w : World) (r : Nat) (hv : w.verifying = false) : ((relookup w r).reg r).provided = (w.reg r).provided := by
  rw [relookup_reg w r hv, fold_addExtendor_provided]

/-- **the registration data is untouched** -/
theorem relookup_adapters (w : World) (r : Nat) (hv : w.verifying = false) : ((relookup w r).reg r).adapters = (w.reg r).adapters := by
  rw [relookup_reg w r hv, fold_addExtendor_adapters]

/-- **the table a re-created lookup object builds satisfies the invariant of C04Ext**: same content, no duplicates, most general
    first — for any registry whose reference counts are positive and listed once per interface -/
theorem relookup_tabOk (w : World) (r : Nat) (hv : w.verifying = false)
    (hk : ((w.reg r).provided.map (·.1)).Nodup) (hc : ∀ pc ∈ (w.reg r).provided, pc.2 ≠ 0) :
    TabOk w.sro w.iro ((relookup w r).reg r).provided ((relookup w r).reg r).extendors := by
  rw [relookup_provided w r hv, relookup_reg w r hv, fold_addExtendor_extendors]
  have := tabOk_initExt (S := w.sro) (I := w.iro) (w.reg r).provided [] [] (tabOk_empty _ _)
    (fun pc hpc => ⟨rfl, hc pc hpc⟩) hk
  simpa using this

/-- non-vacuity: two provided interfaces, the special one registered FIRST; the re-created table lists the general one first
    under the general key (the order a plain append would get wrong) -/
example :
    let S : Id → List Id := fun i => if i = 2 then [2, 1, 0] else if i = 1 then [1, 0] else [i]
    look (initExt S S [(2, 1), (1, 1)] []) 1 = [1, 2] := by decide

end Ext
end ZI.Registry

namespace ZI.Registry
open ZI.RO
open Ext
namespace Ext

/-- `VerifyingAdapterLookup.changed` touches the resolution order, the generation snapshot and the caches of the registry only -/
theorem verifyingChanged_tables (w : World) (r : Nat) :
    ((verifyingChanged w r).reg r).provided = (w.reg r).provided ∧
    ((verifyingChanged w r).reg r).extendors = (w.reg r).extendors ∧
    ((verifyingChanged w r).reg r).adapters = (w.reg r).adapters := by
  unfold verifyingChanged verifyingChangedBase
  simp [reg_setReg_same, clearCaches]

/-- … hence the generation-checking flavour's re-created lookup object builds the same table -/
theorem relookup_tabOk_verifying (w : World) (r : Nat) (hv : w.verifying = true)
    (hk : ((w.reg r).provided.map (·.1)).Nodup) (hc : ∀ pc ∈ (w.reg r).provided, pc.2 ≠ 0) :
    TabOk w.sro w.iro ((relookup w r).reg r).provided ((relookup w r).reg r).extendors := by
  have key : (relookup w r) = verifyingChanged (w.setReg r ((w.reg r).provided.foldl (fun acc pc => addExtendor w acc pc.1)
      { w.reg r with extendors := [], cache := [], mcache := [], scache := [], verifyRo := [], verifyGen := [] })) r := by
    unfold relookup
    simp only []
    rw [if_pos (by simpa using hv)]
  rw [key]
  obtain ⟨h1, h2, _⟩ := verifyingChanged_tables (w.setReg r ((w.reg r).provided.foldl (fun acc pc => addExtendor w acc pc.1)
      { w.reg r with extendors := [], cache := [], mcache := [], scache := [], verifyRo := [], verifyGen := [] })) r
  rw [h1, h2, reg_setReg_same, fold_addExtendor_provided, fold_addExtendor_extendors]
  have := tabOk_initExt (S := w.sro) (I := w.iro) (w.reg r).provided [] [] (tabOk_empty _ _)
    (fun pc hpc => ⟨rfl, hc pc hpc⟩) hk
  have hs : (w.setReg r ((w.reg r).provided.foldl (fun acc pc => addExtendor w acc pc.1)
      { w.reg r with extendors := [], cache := [], mcache := [], scache := [], verifyRo := [], verifyGen := [] })).sro = w.sro := rfl
  simpa using this

end Ext
end ZI.Registry
