import ZI.SpecTwin
/-! # C10 — the C accelerator is observationally equivalent to the Python reference: declaration-query twins

Model: `ZI/SpecTwin.lean` — `providedBy`, `getObjectSpecification`, `implementedBy` as written in `declarations.py` and as
written in `_zope_interface_coptimizations.c`, over an explicit view of every attribute probe the code performs.  Each twin
is tied to the implementation of its own mode by the `spectwin` correspondence (views probed from real objects).

The other twin theorems of C10 are `ZI.Order.C12_twin` (`IB_richcompare`) and `ZI.Adapt.C14_twin` (`IB__call__`). -/
namespace ZI.SpecTwin

/-- **getObjectSpecification**: the two bodies agree on every view (every outcome of the `__provides__`, `isinstance` and
`__class__` probes, exceptions included). -/
theorem C10_getObjectSpecification_twin (o : ObView) : getObjectSpecificationC o = getObjectSpecificationPy o := by
  unfold getObjectSpecificationC getObjectSpecificationPy
  cases o.provides with
  | ok v => rfl
  | err e => cases e <;> rfl

/-- a real `SpecificationBase` has the method `extends` (so C's type check and Python's attribute probe agree on it) -/
def SpecHasExtends (o : ObView) : Prop := ∀ r, o.providedBy = .ok r → r.isSpecBase = true → r.extendsAttr = none

/-- **providedBy** (repaired C code): the accelerator and the reference return the same object, or raise the same kind of
exception at the same probe, on EVERY view — whatever `__providedBy__`, `__provides__`, `__class__` and the class's
`__provides__` yield or raise. -/
theorem C10_providedBy_twin (o : ObView) (hs : SpecHasExtends o) : providedByC o = providedByPy o := by
  unfold providedByC providedByPy
  split
  · rfl
  · cases hp : o.providedBy with
    | err e => cases e <;> simp [C10_getObjectSpecification_twin]
    | ok r =>
      simp only
      cases hsb : r.isSpecBase with
      | true => simp [hs r hp hsb]
      | false => simp

/-- the guard is satisfiable by a non-trivial view: an instance whose class does not understand descriptors, with its own
`__provides__` different from the class's -/
example : SpecHasExtends ⟨false, .ok ⟨1, false, some .attr⟩, .ok ⟨2, true, none⟩, .ok ⟨1, .ok ⟨3, true, none⟩⟩⟩ ∧
    providedByPy ⟨false, .ok ⟨1, false, some .attr⟩, .ok ⟨2, true, none⟩, .ok ⟨1, .ok ⟨3, true, none⟩⟩⟩ = .val 2 := by
  refine ⟨?_, by decide⟩
  intro r h hsb; cases h; cases hsb

/-- `ob.__class__` can be fetched (the pinned C code fetched it before `__provides__`, Python after) -/
def HasClass (o : ObView) : Prop := ∃ c, o.cls = .ok c
/-- no probe raises anything but `AttributeError` -/
def OnlyAttrErrors (o : ObView) : Prop :=
  (∀ r, o.providedBy = .ok r → r.extendsAttr ≠ some .other) ∧ o.provides ≠ .err .other ∧
  (∀ c, o.cls = .ok c → c.provides ≠ .err .other)

/-- the C code as at the pinned commit agrees with the reference as long as `__class__` is available and no attribute probe
raises anything but `AttributeError` … -/
theorem C10_providedBy_twin_pinned (o : ObView) (hs : SpecHasExtends o) (hc : HasClass o) (ha : OnlyAttrErrors o) :
    providedByCPinned o = providedByPy o := by
  obtain ⟨c, hc⟩ := hc
  obtain ⟨h1, h2, h3⟩ := ha
  unfold providedByCPinned providedByPy
  split
  · rfl
  · cases hp : o.providedBy with
    | err e => cases e <;> simp [C10_getObjectSpecification_twin]
    | ok r =>
      simp only
      cases hsb : r.isSpecBase with
      | true => simp [hs r hp hsb]
      | false =>
        simp only [Bool.false_eq_true, if_false]
        cases he : r.extendsAttr with
        | none => rfl
        | some e =>
          cases e with
          | other => exact absurd he (h1 r hp)
          | attr =>
            simp only [hc]
            cases hpr : o.provides with
            | err e =>
              cases e with
              | other => exact absurd hpr h2
              | attr => rfl
            | ok r2 =>
              simp only
              cases hcp : c.provides with
              | err e =>
                cases e with
                | other => exact absurd hcp (h3 c hc)
                | attr => rfl
              | ok cp => rfl

/-- … and diverged otherwise: a `__providedBy__` value whose `extends` raises, say, `ValueError` makes the reference raise
it while the pinned accelerator carried on; an object whose `__class__` cannot be fetched made the pinned accelerator raise
`AttributeError` where the reference answers with the object's own `__provides__` (kernel-checked; both replayed on the real
code by the `spectwin` stream, repaired in /repo) -/
theorem C10_providedBy_pinned_diverges :
    providedByPy ⟨false, .ok ⟨1, false, some .other⟩, .err .attr, .ok ⟨1, .err .attr⟩⟩ = .raise .other ∧
    providedByCPinned ⟨false, .ok ⟨1, false, some .other⟩, .err .attr, .ok ⟨1, .err .attr⟩⟩ = .implBy 1 ∧
    providedByC ⟨false, .ok ⟨1, false, some .other⟩, .err .attr, .ok ⟨1, .err .attr⟩⟩ = .raise .other ∧
    providedByPy ⟨false, .ok ⟨1, false, some .attr⟩, .ok ⟨2, true, none⟩, .err .attr⟩ = .val 2 ∧
    providedByCPinned ⟨false, .ok ⟨1, false, some .attr⟩, .ok ⟨2, true, none⟩, .err .attr⟩ = .raise .attr ∧
    providedByC ⟨false, .ok ⟨1, false, some .attr⟩, .ok ⟨2, true, none⟩, .err .attr⟩ = .val 2 := by decide

/-- **implementedBy**: wherever the C fast path answers by itself it returns the very object the Python function returns;
everywhere else it *is* the Python function (`implementedByFallback`). -/
theorem C10_implementedBy_twin (v : ImplView) : implementedByC v = implementedByPy v := by
  unfold implementedByC implementedByPy
  split
  · simp [*]
  · split
    · simp [*]
    · cases hi : v.implemented with
      | none => cases v.builtin <;> simp_all
      | some p =>
        obtain ⟨id, b⟩ := p
        cases b <;> simp_all

/-- `I.providedBy(ob)` / `I.implementedBy(cls)` answer membership in the found declaration's `_implied` in both twins
whenever the declaration is a specification -/
theorem C10_sbProvidedBy_twin (d : DeclView) : sbProvidedByC d = sbProvidedByPy d := rfl


/-- `ObjectSpecificationDescriptor.__get__`: same answer, same exception kind, on every outcome of the `__provides__` probe -/
theorem C10_osd_get_twin (instIsNone : Bool) (p : Get ValView) : osdGetC instIsNone p = osdGetPy instIsNone p := by
  unfold osdGetC osdGetPy
  cases instIsNone
  · cases p with
    | ok v => rfl
    | err e => cases e <;> rfl
  · rfl
/-- `ClassProvidesBase.__get__` -/
theorem C10_cpb_get_twin (a b : Bool) : cpbGetC a b = cpbGetPy a b := rfl

#print axioms C10_providedBy_twin
#print axioms C10_implementedBy_twin
end ZI.SpecTwin
