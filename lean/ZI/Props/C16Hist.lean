import ZI.Props.C16
import ZI.Props.C09Reg
/-! # C16 over all histories — the registries underneath a `Components` answer as registries populated from the listings

`ZI.Components` is the executable the C16 correspondence runs against both implementations.  `Props/C16.lean` proves what
each call returns, emits and does to the listings (statements about ONE call in ANY state).  This file proves the part of
the statement that is about the *state*: after ANY history of the eight register / unregister methods, interleaved with
queries, pickle re-loads and re-initialisations,

* `C16_queries`  — the utility registry's registrations are exactly the utility listing, the adapter registry's
  registrations are exactly the adapter listing (same objects), and the subscription leaves of the adapter registry are
  exactly the subscription-adapter / handler listings filtered by key, *in listing order*;
* `C16_counts`   — the `{provided: {component: count}}` cache holds, per `(provided, component under ==)`, the number of
  listing entries (one per name);
* `C16_probe`    — `rebuildUtilityRegistryFromLocalCache()` finds nothing to repair: `probe = (0, 0)`;
* `C16_all_utilities` — `getAllUtilitiesRegisteredFor`'s source (the subscription leaf of the utility registry) holds each
  listed component exactly once per equality class however many names it is registered under, and nothing else.

Guard `HashClass` (decidable, checked per operation by the driver): hashability is a function of the equality class — an
unhashable component is never `==` a hashable one.  Outside it the real code double-subscribes (known finding
`utilities-mixed-hashability-double-subscription`); `mixed_hashability_breaks` is the kernel-checked witness that the
guard is necessary.  No other hypothesis: names, interfaces, arities, components (equal, identical, distinct) are arbitrary. -/
namespace ZI.Components
open ZI.Registry

/-! ## histories -/
inductive Op
  | regU (c : C) (p : Id) (name info : String)
  | unregU (c : Option C) (p : Id) (name : String)
  | regA (f : C) (req : List Id) (p : Id) (name info : String)
  | unregA (f : Option C) (req : List Id) (p : Id) (name : String)
  | regS (f : C) (req : List Id) (p : Id) (info : String)
  | unregS (f : Option C) (req : List Id) (p : Id)
  | regH (f : C) (req : List Id) (info : String)
  | unregH (f : Option C) (req : List Id)
  | qLookup (r : Nat) (req : List Id) (p : Id) (name : String)
  | qLookupAll (r : Nat) (req : List Id) (p : Id)
  | qSubs (r : Nat) (req : List Id) (p : Option Id)
  | persist
  | reload
  | reinit
deriving Repr

def step (s : Comp) : Op → Comp
  | .regU c p name info => (registerUtility s c p name info).1
  | .unregU c p name => (unregisterUtility s c p name).1
  | .regA f req p name info => (registerAdapter s f req p name info).1
  | .unregA f req p name => (unregisterAdapter s f req p name).1
  | .regS f req p info => (registerSubscriptionAdapter s f req p info).1
  | .unregS f req p => (unregisterSubscriptionAdapter s f req p).1
  | .regH f req info => (registerHandler s f req info).1
  | .unregH f req => (unregisterHandler s f req).1
  | .qLookup r req p name => { s with w := (lookup s.w r req p name).1 }
  | .qLookupAll r req p => { s with w := (lookupAll s.w r req p).1 }
  | .qSubs r req p => { s with w := (subscriptions s.w r req p).1 }
  | .persist => { s with w := { s.w with verifying := true } }
  | .reload => reload s
  | .reinit => reinit s

def run (s : Comp) (ops : List Op) : Comp := ops.foldl step s

/-- the state the driver starts from (`Drv.Components.fresh`): two empty registries over any specification graph -/
def fresh (sro iro : Id → List Id) (verifying : Bool) : Comp :=
  let w : World := { sro := sro, iro := iro, regs := [], verifying := verifying }
  let w := setBases FUEL (w.setReg UT {}) UT []
  let w := setBases FUEL (w.setReg AD {}) AD []
  { w := w }

/-- the components an operation mentions -/
def Op.comps : Op → List C
  | .regU c .. => [c]
  | .unregU c .. => c.toList
  | .regA f .. => [f]
  | .unregA f .. => f.toList
  | .regS f .. => [f]
  | .unregS f .. => f.toList
  | .regH f .. => [f]
  | .unregH f .. => f.toList
  | _ => []

/-- guard: hashability is a function `H` of the equality class on every component of the history -/
def HashClass (H : Nat → Bool) (ops : List Op) : Prop := ∀ op ∈ ops, ∀ c ∈ op.comps, c.hashable = H c.v.eqc

/-! ## the views the statement is about -/
/-- utility registry: what is registered for `(provided, name)` -/
def vU (w : World) (p : Id) (name : String) : Option Val := registered w UT [] p name
/-- utility registry: the subscription leaf behind `getAllUtilitiesRegisteredFor(provided)` -/
def vUS (w : World) (p : Id) : List Val := subsLeaf w UT [] (some p)
/-- adapter registry: what is registered for `(required, provided, name)` -/
def vA (w : World) (req : List Id) (p : Id) (name : String) : Option Val := registered w AD (req.map some) p name
/-- adapter registry: subscription adapters under `(required, provided)` in subscription order -/
def vS (w : World) (req : List Id) (p : Id) : List Val := subsLeaf w AD (req.map some) (some p)
/-- adapter registry: handlers under `required` in subscription order -/
def vH (w : World) (req : List Id) : List Val := subsLeaf w AD (req.map some) none

/-- entries of a subscription leaf `==` a component -/
def cls (l : List Val) (e : Nat) : Nat := (l.filter fun u => u.eqc == e).length

/-- the listing side -/
def lU (s : Comp) (p : Id) (name : String) : Option Val := (AList.get? s.utilRegs (p, name)).map (·.1.v)
def lA (s : Comp) (req : List Id) (p : Id) (name : String) : Option Nat :=
  (AList.get? s.adapterRegs (req, p, name)).map (·.1.v.ident)
def lS (s : Comp) (req : List Id) (p : Id) : List Val :=
  (s.subRegs.filter fun t => t.1 == req && t.2.1 == p).map (·.2.2.1.v)
def lH (s : Comp) (req : List Id) : List Val := (s.handlerRegs.filter fun t => t.1 == req).map (·.2.1.v)

/-- the unhashable-seen flag of the counter cache for `provided` -/
def unhOf (uc : AList Id (List (C × Nat) × Bool)) (p : Id) : Bool := ((AList.get? uc p).getD ([], false)).2

structure Inv (H : Nat → Bool) (s : Comp) : Prop where
  util : ∀ p name, vU s.w p name = lU s p name
  adapters : ∀ req p name, (vA s.w req p name).map (·.ident) = lA s req p name
  subs : ∀ req p, vS s.w req p = lS s req p
  handlers : ∀ req, vH s.w req = lH s req
  counts : ∀ p c, countOf s.ucache p c = listed s.utilRegs p c
  unh : ∀ e ∈ s.utilRegs, e.2.1.hashable = false → unhOf s.ucache e.1.1 = true
  hcls : ∀ e ∈ s.utilRegs, e.2.1.hashable = H e.2.1.v.eqc
  usubs : ∀ p (c : C), cls (vUS s.w p) c.v.eqc = if listed s.utilRegs p c > 0 then 1 else 0
  nodup : (akeys s.utilRegs).Nodup

/-! ## frame: operations that leave the registration data alone leave every view alone -/
structure SameViews (w w' : World) : Prop where
  u : ∀ p name, vU w' p name = vU w p name
  us : ∀ p, vUS w' p = vUS w p
  a : ∀ req p name, vA w' req p name = vA w req p name
  s : ∀ req p, vS w' req p = vS w req p
  h : ∀ req, vH w' req = vH w req

theorem sameViews_of_sameData {w w' : World} (h : SameData w w') : SameViews w w' := by
  refine ⟨fun p name => ?_, fun p => ?_, fun req p name => ?_, fun req p => ?_, fun req => ?_⟩
  · exact registered_of_dataEq (h.adapters UT) _ _ _
  · unfold vUS subsLeaf; rw [subsFind_of_dataEq (h.subs UT)]
  · exact registered_of_dataEq (h.adapters AD) _ _ _
  · unfold vS subsLeaf; rw [subsFind_of_dataEq (h.subs AD)]
  · unfold vH subsLeaf; rw [subsFind_of_dataEq (h.subs AD)]

/-! ## how the four registry mutators move the views -/
theorem map_some_convNone (req : List Id) : (req.map some).map convNone = req.map some := by
  induction req with
  | nil => rfl
  | cons a t ih => simp only [List.map_cons, ih]; rfl

theorem map_some_inj {req req' : List Id} : req'.map some = req.map some ↔ req' = req := by
  constructor
  · intro h
    induction req' generalizing req with
    | nil => cases req with
      | nil => rfl
      | cons b t => simp at h
    | cons a t ih => cases req with
      | nil => simp at h
      | cons b t' =>
        simp only [List.map_cons, List.cons.injEq, Option.some.injEq] at h
        rw [h.1, ih h.2]
  · intro h; rw [h]

theorem keyA_iff (req req' : List Id) : (req'.map some).map convNone = (req.map some).map convNone ↔ req' = req := by
  rw [map_some_convNone, map_some_convNone, map_some_inj]

theorem UT_ne_AD : UT ≠ AD := by decide
theorem AD_ne_UT : AD ≠ UT := by decide

section Moves
variable (w : World)

theorem vU_register_UT (p : Id) (name : String) (v : Val) (q : Id) (n : String) :
    vU (register FUEL w UT [] p name v) q n =
      if q = p ∧ n = name then (if (vU w p name).map (·.ident) = some v.ident then vU w p name else some v) else vU w q n := by
  unfold vU; rw [registered_register]; simp
theorem vUS_register (r : Nat) (req : List (Option Id)) (p : Id) (name : String) (v : Val) (q : Id) :
    vUS (register FUEL w r req p name v) q = vUS w q := by
  unfold vUS subsLeaf; rw [subsFind_register]
theorem vS_register (r : Nat) (req : List (Option Id)) (p : Id) (name : String) (v : Val) (rq : List Id) (q : Id) :
    vS (register FUEL w r req p name v) rq q = vS w rq q := by
  unfold vS subsLeaf; rw [subsFind_register]
theorem vH_register (r : Nat) (req : List (Option Id)) (p : Id) (name : String) (v : Val) (rq : List Id) :
    vH (register FUEL w r req p name v) rq = vH w rq := by
  unfold vH subsLeaf; rw [subsFind_register]
theorem vA_register_UT (req : List (Option Id)) (p : Id) (name : String) (v : Val) (rq : List Id) (q : Id) (n : String) :
    vA (register FUEL w UT req p name v) rq q n = vA w rq q n := by
  unfold vA; rw [registered_register]; simp [UT, AD]
theorem vU_register_AD (req : List (Option Id)) (p : Id) (name : String) (v : Val) (q : Id) (n : String) :
    vU (register FUEL w AD req p name v) q n = vU w q n := by
  unfold vU; rw [registered_register]; simp [UT, AD]
theorem vA_register_AD (req : List Id) (p : Id) (name : String) (v : Val) (rq : List Id) (q : Id) (n : String) :
    vA (register FUEL w AD (req.map some) p name v) rq q n =
      if rq = req ∧ q = p ∧ n = name then
        (if (vA w req p name).map (·.ident) = some v.ident then vA w req p name else some v) else vA w rq q n := by
  unfold vA; rw [registered_register]
  by_cases h : rq = req ∧ q = p ∧ n = name
  · obtain ⟨h1, h2, h3⟩ := h
    subst h1 h2 h3
    simp only [and_self, if_true]
  · have : ¬ (AD = AD ∧ (rq.map some).map convNone = (req.map some).map convNone ∧ q = p ∧ n = name) := by
      rintro ⟨_, h1, h2⟩; exact h ⟨(keyA_iff req rq).mp h1, h2⟩
    rw [if_neg this, if_neg h]

theorem vU_unregister_UT (p : Id) (name : String) (q : Id) (n : String) :
    vU (unregister FUEL w UT [] p name none) q n = if q = p ∧ n = name then none else vU w q n := by
  unfold vU; rw [registered_unregister]
  by_cases h : q = p ∧ n = name
  · simp only [h, and_self, if_true, List.map_nil]
    cases registered w UT [] p name <;> simp [identMismatch]
  · have : ¬ (UT = UT ∧ List.map convNone [] = List.map convNone [] ∧ q = p ∧ n = name) := fun hh => h hh.2.2
    rw [if_neg this, if_neg h]
theorem vUS_unregister (r : Nat) (req : List (Option Id)) (p : Id) (name : String) (v : Option Val) (q : Id) :
    vUS (unregister FUEL w r req p name v) q = vUS w q := by
  unfold vUS subsLeaf; rw [subsFind_unregister]
theorem vS_unregister (r : Nat) (req : List (Option Id)) (p : Id) (name : String) (v : Option Val) (rq : List Id) (q : Id) :
    vS (unregister FUEL w r req p name v) rq q = vS w rq q := by
  unfold vS subsLeaf; rw [subsFind_unregister]
theorem vH_unregister (r : Nat) (req : List (Option Id)) (p : Id) (name : String) (v : Option Val) (rq : List Id) :
    vH (unregister FUEL w r req p name v) rq = vH w rq := by
  unfold vH subsLeaf; rw [subsFind_unregister]
theorem vA_unregister_UT (req : List (Option Id)) (p : Id) (name : String) (v : Option Val) (rq : List Id) (q : Id) (n : String) :
    vA (unregister FUEL w UT req p name v) rq q n = vA w rq q n := by
  unfold vA; rw [registered_unregister]; simp [UT, AD]
theorem vU_unregister_AD (req : List (Option Id)) (p : Id) (name : String) (v : Option Val) (q : Id) (n : String) :
    vU (unregister FUEL w AD req p name v) q n = vU w q n := by
  unfold vU; rw [registered_unregister]; simp [UT, AD]
theorem vA_unregister_AD (req : List Id) (p : Id) (name : String) (rq : List Id) (q : Id) (n : String) :
    vA (unregister FUEL w AD (req.map some) p name none) rq q n = if rq = req ∧ q = p ∧ n = name then none else vA w rq q n := by
  unfold vA; rw [registered_unregister]
  by_cases h : rq = req ∧ q = p ∧ n = name
  · obtain ⟨h1, h2, h3⟩ := h
    subst h1 h2 h3
    simp only [and_self, if_true]
    cases registered w AD (rq.map some) q n <;> simp [identMismatch]
  · have : ¬ (AD = AD ∧ (rq.map some).map convNone = (req.map some).map convNone ∧ q = p ∧ n = name) := by
      rintro ⟨_, h1, h2⟩; exact h ⟨(keyA_iff req rq).mp h1, h2⟩
    rw [if_neg this, if_neg h]

theorem vU_subscribe (r : Nat) (req : List (Option Id)) (p : Option Id) (v : Val) (q : Id) (n : String) :
    vU (subscribe FUEL w r req p v) q n = vU w q n := by
  unfold vU; rw [registered_subscribe]
theorem vA_subscribe (r : Nat) (req : List (Option Id)) (p : Option Id) (v : Val) (rq : List Id) (q : Id) (n : String) :
    vA (subscribe FUEL w r req p v) rq q n = vA w rq q n := by
  unfold vA; rw [registered_subscribe]
theorem vUS_subscribe_UT (p : Id) (v : Val) (q : Id) :
    vUS (subscribe FUEL w UT [] (some p) v) q = if q = p then vUS w p ++ [v] else vUS w q := by
  unfold vUS; rw [subsLeaf_subscribe]; simp
theorem vS_subscribe_UT (req : List (Option Id)) (p : Option Id) (v : Val) (rq : List Id) (q : Id) :
    vS (subscribe FUEL w UT req p v) rq q = vS w rq q := by
  unfold vS; rw [subsLeaf_subscribe]; simp [UT, AD]
theorem vH_subscribe_UT (req : List (Option Id)) (p : Option Id) (v : Val) (rq : List Id) :
    vH (subscribe FUEL w UT req p v) rq = vH w rq := by
  unfold vH; rw [subsLeaf_subscribe]; simp [UT, AD]
theorem vUS_subscribe_AD (req : List (Option Id)) (p : Option Id) (v : Val) (q : Id) :
    vUS (subscribe FUEL w AD req p v) q = vUS w q := by
  unfold vUS; rw [subsLeaf_subscribe]; simp [UT, AD]
theorem vS_subscribe_AD (req : List Id) (p : Option Id) (v : Val) (rq : List Id) (q : Id) :
    vS (subscribe FUEL w AD (req.map some) p v) rq q =
      if rq = req ∧ some q = p then vS w rq q ++ [v] else vS w rq q := by
  unfold vS; rw [subsLeaf_subscribe]
  by_cases h : rq = req ∧ some q = p
  · obtain ⟨h1, h2⟩ := h; subst h1 h2; simp
  · have : ¬ (AD = AD ∧ (rq.map some).map convNone = (req.map some).map convNone ∧ some q = p) := by
      rintro ⟨_, h1, h2⟩; exact h ⟨(keyA_iff req rq).mp h1, h2⟩
    rw [if_neg this, if_neg h]
theorem vH_subscribe_AD (req : List Id) (p : Option Id) (v : Val) (rq : List Id) :
    vH (subscribe FUEL w AD (req.map some) p v) rq =
      if rq = req ∧ p = none then vH w rq ++ [v] else vH w rq := by
  unfold vH; rw [subsLeaf_subscribe]
  by_cases h : rq = req ∧ p = none
  · obtain ⟨h1, h2⟩ := h; subst h1 h2; simp
  · have : ¬ (AD = AD ∧ (rq.map some).map convNone = (req.map some).map convNone ∧ none = p) := by
      rintro ⟨_, h1, h2⟩; exact h ⟨(keyA_iff req rq).mp h1, h2.symm⟩
    rw [if_neg this, if_neg h]

theorem vU_unsubscribe (r : Nat) (req : List (Option Id)) (p : Option Id) (v : Option Val) (q : Id) (n : String) :
    vU (unsubscribe FUEL w r req p v) q n = vU w q n := by
  unfold vU; rw [registered_unsubscribe]
theorem vA_unsubscribe (r : Nat) (req : List (Option Id)) (p : Option Id) (v : Option Val) (rq : List Id) (q : Id) (n : String) :
    vA (unsubscribe FUEL w r req p v) rq q n = vA w rq q n := by
  unfold vA; rw [registered_unsubscribe]
theorem vUS_unsubscribe_UT (p : Id) (v : Option Val) (q : Id) :
    vUS (unsubscribe FUEL w UT [] (some p) v) q = if q = p then unsubLeaf v (vUS w p) else vUS w q := by
  unfold vUS; rw [subsLeaf_unsubscribe]; simp
theorem vS_unsubscribe_UT (req : List (Option Id)) (p : Option Id) (v : Option Val) (rq : List Id) (q : Id) :
    vS (unsubscribe FUEL w UT req p v) rq q = vS w rq q := by
  unfold vS; rw [subsLeaf_unsubscribe]; simp [UT, AD]
theorem vH_unsubscribe_UT (req : List (Option Id)) (p : Option Id) (v : Option Val) (rq : List Id) :
    vH (unsubscribe FUEL w UT req p v) rq = vH w rq := by
  unfold vH; rw [subsLeaf_unsubscribe]; simp [UT, AD]
theorem vUS_unsubscribe_AD (req : List (Option Id)) (p : Option Id) (v : Option Val) (q : Id) :
    vUS (unsubscribe FUEL w AD req p v) q = vUS w q := by
  unfold vUS; rw [subsLeaf_unsubscribe]; simp [UT, AD]
theorem vS_unsubscribe_AD (req : List Id) (p : Option Id) (v : Option Val) (rq : List Id) (q : Id) :
    vS (unsubscribe FUEL w AD (req.map some) p v) rq q =
      if rq = req ∧ some q = p then unsubLeaf v (vS w rq q) else vS w rq q := by
  unfold vS; rw [subsLeaf_unsubscribe]
  by_cases h : rq = req ∧ some q = p
  · obtain ⟨h1, h2⟩ := h; subst h1 h2; simp
  · have : ¬ (AD = AD ∧ (rq.map some).map convNone = (req.map some).map convNone ∧ some q = p) := by
      rintro ⟨_, h1, h2⟩; exact h ⟨(keyA_iff req rq).mp h1, h2⟩
    rw [if_neg this, if_neg h]
theorem vH_unsubscribe_AD (req : List Id) (p : Option Id) (v : Option Val) (rq : List Id) :
    vH (unsubscribe FUEL w AD (req.map some) p v) rq =
      if rq = req ∧ p = none then unsubLeaf v (vH w rq) else vH w rq := by
  unfold vH; rw [subsLeaf_unsubscribe]
  by_cases h : rq = req ∧ p = none
  · obtain ⟨h1, h2⟩ := h; subst h1 h2; simp
  · have : ¬ (AD = AD ∧ (rq.map some).map convNone = (req.map some).map convNone ∧ none = p) := by
      rintro ⟨_, h1, h2⟩; exact h ⟨(keyA_iff req rq).mp h1, h2.symm⟩
    rw [if_neg this, if_neg h]
end Moves

/-! ## list-level facts about the listing counters and the equality classes of a leaf -/
theorem listed_nil (q : Id) (d : C) : listed [] q d = 0 := rfl
theorem listed_cons (e : (Id × String) × (C × String)) (l : AList (Id × String) (C × String)) (q : Id) (d : C) :
    listed (e :: l) q d = (if e.1.1 = q ∧ e.2.1.eq d = true then 1 else 0) + listed l q d := by
  unfold listed
  rw [List.filter_cons]
  by_cases h : e.1.1 = q ∧ e.2.1.eq d = true
  · have : (e.1.1 == q && e.2.1.eq d) = true := by simp [h.1, h.2]
    simp [h, this]; omega
  · have : (e.1.1 == q && e.2.1.eq d) = false := by
      rw [Bool.and_eq_false_iff]
      by_cases h1 : e.1.1 = q
      · right; simpa [h1] using h
      · left; simpa using h1
    simp [h, this]
theorem listed_append (l l' : AList (Id × String) (C × String)) (q : Id) (d : C) :
    listed (l ++ l') q d = listed l q d + listed l' q d := by
  unfold listed; rw [List.filter_append, List.length_append]

theorem C.eq_trans_left {c d : C} (h : c.eq d = true) (x : C) : x.eq c = x.eq d := by
  rw [Bool.eq_iff_iff, C.eq_iff, C.eq_iff]; rw [C.eq_iff] at h; omega
theorem C.eq_refl (c : C) : c.eq c = true := by simp [C.eq]
theorem C.eq_symm (c d : C) : c.eq d = d.eq c := by rw [Bool.eq_iff_iff, C.eq_iff, C.eq_iff]; omega

theorem listed_congr (l : AList (Id × String) (C × String)) (q : Id) {c d : C} (h : c.eq d = true) :
    listed l q c = listed l q d := by
  unfold listed
  congr 1
  apply List.filter_congr
  intro e _
  rw [C.eq_trans_left h]

theorem listed_pos_iff (l : AList (Id × String) (C × String)) (q : Id) (d : C) :
    listed l q d > 0 ↔ ∃ e ∈ l, e.1.1 = q ∧ e.2.1.eq d = true := by
  unfold listed
  rw [gt_iff_lt, List.length_pos_iff_exists_mem]
  constructor
  · rintro ⟨e, he⟩
    rw [List.mem_filter] at he
    refine ⟨e, he.1, ?_⟩
    simpa using he.2
  · rintro ⟨e, he, h1, h2⟩
    exact ⟨e, List.mem_filter.mpr ⟨he, by simp [h1, h2]⟩⟩

theorem not_mem_keys_of_aget_none {κ α : Type} [BEq κ] [LawfulBEq κ] (m : AList κ α) (k : κ)
    (h : AList.get? m k = none) : k ∉ akeys m := by
  intro hk
  unfold akeys at hk
  rw [List.mem_map] at hk
  obtain ⟨e, he, hek⟩ := hk
  unfold AList.get? at h
  rw [Option.map_eq_none_iff, List.find?_eq_none] at h
  have := h e he
  simp [hek] at this

theorem set_of_aget_none {κ α : Type} [BEq κ] [LawfulBEq κ] [DecidableEq κ] (m : AList κ α) (k : κ) (v : α)
    (h : AList.get? m k = none) : AList.set m k v = m ++ [(k, v)] := by
  unfold AList.set
  have : ¬ (m.any (·.1 == k) = true) := fun hh => not_mem_keys_of_aget_none m k h ((any_key_iff m k).mp hh)
  rw [if_neg this]

theorem listed_set_new (l : AList (Id × String) (C × String)) (k : Id × String) (v : C × String) (q : Id) (d : C)
    (h : AList.get? l k = none) :
    listed (AList.set l k v) q d = listed l q d + (if k.1 = q ∧ v.1.eq d = true then 1 else 0) := by
  rw [set_of_aget_none l k v h, listed_append, listed_cons, listed_nil]; simp

theorem listed_erase (l : AList (Id × String) (C × String)) (hnd : (akeys l).Nodup) (k : Id × String) (old : C × String)
    (h : AList.get? l k = some old) (q : Id) (d : C) :
    listed (AList.erase l k) q d + (if k.1 = q ∧ old.1.eq d = true then 1 else 0) = listed l q d := by
  induction l with
  | nil => simp [aget_nil] at h
  | cons e t ih =>
    have hnd' : (akeys t).Nodup := (List.nodup_cons.mp hnd).2
    have hnot : e.1 ∉ akeys t := (List.nodup_cons.mp hnd).1
    rw [aget_cons] at h
    by_cases hk : e.1 = k
    · have hb : (e.1 == k) = true := by simpa using hk
      simp only [hk, if_true, Option.some.injEq] at h
      have : AList.erase (e :: t) k = t := by
        unfold AList.erase
        rw [List.filter_cons]
        simp only [hb, Bool.not_true, Bool.false_eq_true, if_false]
        have := erase_of_not_mem t k (by rw [← hk]; exact hnot)
        unfold AList.erase at this; exact this
      rw [this, listed_cons, ← hk, h]; omega
    · have hb : (e.1 == k) = false := by simpa using hk
      simp only [hk, if_false] at h
      have : AList.erase (e :: t) k = e :: AList.erase t k := by
        unfold AList.erase
        rw [List.filter_cons]
        simp [hb]
      rw [this, listed_cons, listed_cons, ← ih hnd' h]; omega

theorem cls_nil (e : Nat) : cls [] e = 0 := rfl
theorem cls_append (l l' : List Val) (e : Nat) : cls (l ++ l') e = cls l e + cls l' e := by
  unfold cls; rw [List.filter_append, List.length_append]
theorem cls_single (v : Val) (e : Nat) : cls [v] e = if v.eqc = e then 1 else 0 := by
  unfold cls; by_cases h : v.eqc = e <;> simp [h]
theorem cls_filter_ne (l : List Val) (x e : Nat) :
    cls (l.filter fun u => u.eqc != x) e = if e = x then 0 else cls l e := by
  unfold cls
  rw [List.filter_filter]
  by_cases h : e = x
  · subst h
    rw [if_pos rfl]
    have : (l.filter fun u => (u.eqc == e && u.eqc != e)) = [] := by
      rw [List.filter_eq_nil_iff]; intro u _; simp
    rw [this]; rfl
  · rw [if_neg h]
    congr 1
    apply List.filter_congr
    intro u _
    by_cases hu : u.eqc = e
    · simp [hu, h]
    · simp [hu]
theorem cls_pos_iff (l : List Val) (e : Nat) : cls l e > 0 ↔ l.any (fun u => u.eqc == e) = true := by
  unfold cls
  rw [gt_iff_lt, List.length_pos_iff_exists_mem, List.any_eq_true]
  constructor
  · rintro ⟨u, hu⟩; rw [List.mem_filter] at hu; exact ⟨u, hu⟩
  · rintro ⟨u, hu⟩; exact ⟨u, List.mem_filter.mpr hu⟩

theorem count_delCount (cache : List (C × Nat)) (c d : C) :
    count (delCount cache c) d = if c.eq d then 0 else count cache d := by
  induction cache with
  | nil => simp [delCount, count_nil]
  | cons x l ih =>
    unfold delCount at ih ⊢
    rw [List.filter_cons]
    by_cases hx : x.1.eq c = true
    · simp only [hx, Bool.not_true, Bool.false_eq_true, if_false]
      rw [ih, count_cons]
      by_cases hcd : c.eq d = true
      · simp [hcd]
      · have : x.1.eq d = false := by
          rw [Bool.eq_false_iff]; intro hxd; apply hcd
          rw [C.eq_iff] at *; omega
        simp [hcd, this]
    · simp only [hx, Bool.not_false, if_true]
      rw [count_cons, count_cons, ih]
      by_cases hxd : x.1.eq d = true
      · have : c.eq d = false := by
          rw [Bool.eq_false_iff]; intro hcd; apply hx
          rw [C.eq_iff] at *; omega
        simp [hxd, this]
      · simp [hxd]

theorem unhOf_cacheUtility (uc : AList Id (List (C × Nat) × Bool)) (p q : Id) (c : C) :
    unhOf (cacheUtility uc p c) q = if p = q then (unhOf uc p || !c.hashable) else unhOf uc q := by
  unfold unhOf cacheUtility
  simp only
  rw [aget?_set_nat]
  by_cases h : p = q <;> simp [h]

theorem countOf_set (uc : AList Id (List (C × Nat) × Bool)) (p q : Id) (cache : List (C × Nat)) (b : Bool) (d : C) :
    countOf (AList.set uc p (cache, b)) q d = if p = q then count cache d else countOf uc q d := by
  unfold countOf; rw [aget?_set_nat]; by_cases h : p = q <;> simp [h]
theorem unhOf_set (uc : AList Id (List (C × Nat) × Bool)) (p q : Id) (cache : List (C × Nat)) (b : Bool) :
    unhOf (AList.set uc p (cache, b)) q = if p = q then b else unhOf uc q := by
  unfold unhOf; rw [aget?_set_nat]; by_cases h : p = q <;> simp [h]

/-! ## the two halves of the utility bookkeeping -/
/-- `_is_utility_subscribed` as the code evaluates it -/
def subscribedU (s : Comp) (p : Id) (c : C) : Bool :=
  if !c.hashable && !unhOf s.ucache p then false else decide (countOf s.ucache p c > 0)

theorem cacheRegister_eq (s : Comp) (p : Id) (name : String) (c : C) (info : String) :
    cacheRegister s p name c info =
      { s with utilRegs := AList.set s.utilRegs (p, name) (c, info),
               w := (if subscribedU s p c then register FUEL s.w UT [] p name c.v
                     else subscribe FUEL (register FUEL s.w UT [] p name c.v) UT [] (some p) c.v),
               ucache := cacheUtility s.ucache p c } := by
  unfold cacheRegister subscribedU unhOf countOf
  generalize (AList.get? s.ucache p).getD ([], false) = pr
  obtain ⟨cache, unh⟩ := pr
  simp only
  split
  · rfl
  · split <;> rfl

/-- under the invariant the code's subscription test says whether a listing entry for `(provided, == component)` exists -/
theorem subscribedU_eq {H : Nat → Bool} {s : Comp} (inv : Inv H s) (p : Id) (c : C) (hc : c.hashable = H c.v.eqc) :
    subscribedU s p c = decide (listed s.utilRegs p c > 0) := by
  unfold subscribedU
  rw [inv.counts]
  split
  · rename_i hcond
    simp only [Bool.and_eq_true, Bool.not_eq_true', Bool.not_eq_eq_eq_not, Bool.not_true] at hcond
    symm
    rw [decide_eq_false_iff_not]
    intro hpos
    obtain ⟨e, he, h1, h2⟩ := (listed_pos_iff _ _ _).mp hpos
    have hh : e.2.1.hashable = false := by
      rw [inv.hcls e he, ← hcond.1, hc]
      congr 1
      exact (C.eq_iff _ _).mp h2
    have := inv.unh e he hh
    rw [h1, hcond.2] at this
    exact Bool.false_ne_true this
  · rfl

theorem inv_cacheRegister {H : Nat → Bool} {s : Comp} (inv : Inv H s) (p : Id) (name : String) (c : C) (info : String)
    (hnone : AList.get? s.utilRegs (p, name) = none) (hc : c.hashable = H c.v.eqc) :
    Inv H (cacheRegister s p name c info) := by
  rw [cacheRegister_eq, subscribedU_eq inv p c hc]
  have hvU : vU s.w p name = none := by rw [inv.util]; unfold lU; rw [hnone]; rfl
  refine ⟨?_, ?_, ?_, ?_, ?_, ?_, ?_, ?_, ?_⟩
  · -- util
    intro q n
    have e1 : vU (if decide (listed s.utilRegs p c > 0) = true then register FUEL s.w UT [] p name c.v
        else subscribe FUEL (register FUEL s.w UT [] p name c.v) UT [] (some p) c.v) q n
        = vU (register FUEL s.w UT [] p name c.v) q n := by
      split
      · rfl
      · rw [vU_subscribe]
    show vU _ q n = (AList.get? (AList.set s.utilRegs (p, name) (c, info)) (q, n)).map (·.1.v)
    rw [e1, vU_register_UT, hvU, aget_set]
    by_cases h : q = p ∧ n = name
    · obtain ⟨h1, h2⟩ := h; subst h1 h2; simp
    · have : ¬ ((p, name) = (q, n)) := by
        intro hh; rw [Prod.mk.injEq] at hh; exact h ⟨hh.1.symm, hh.2.symm⟩
      rw [if_neg h, if_neg this, inv.util]; rfl
  · intro req q n
    have e1 : vA (if decide (listed s.utilRegs p c > 0) = true then register FUEL s.w UT [] p name c.v
        else subscribe FUEL (register FUEL s.w UT [] p name c.v) UT [] (some p) c.v) req q n = vA s.w req q n := by
      split
      · rw [vA_register_UT]
      · rw [vA_subscribe, vA_register_UT]
    show (vA _ req q n).map _ = _
    rw [e1]; exact inv.adapters req q n
  · intro req q
    have e1 : vS (if decide (listed s.utilRegs p c > 0) = true then register FUEL s.w UT [] p name c.v
        else subscribe FUEL (register FUEL s.w UT [] p name c.v) UT [] (some p) c.v) req q = vS s.w req q := by
      split
      · rw [vS_register]
      · rw [vS_subscribe_UT, vS_register]
    show vS _ req q = _
    rw [e1]; exact inv.subs req q
  · intro req
    have e1 : vH (if decide (listed s.utilRegs p c > 0) = true then register FUEL s.w UT [] p name c.v
        else subscribe FUEL (register FUEL s.w UT [] p name c.v) UT [] (some p) c.v) req = vH s.w req := by
      split
      · rw [vH_register]
      · rw [vH_subscribe_UT, vH_register]
    show vH _ req = _
    rw [e1]; exact inv.handlers req
  · intro q d
    show countOf (cacheUtility s.ucache p c) q d = listed (AList.set s.utilRegs (p, name) (c, info)) q d
    rw [countOf_cacheUtility, listed_set_new _ _ _ _ _ hnone, inv.counts]
  · intro e he
    show e.2.1.hashable = false → unhOf (cacheUtility s.ucache p c) e.1.1 = true
    intro hh
    rw [unhOf_cacheUtility]
    rcases mem_set _ _ _ _ he with h | h
    · have := inv.unh e h hh
      split
      · rename_i hp; rw [hp, this]; rfl
      · exact this
    · rw [h] at hh ⊢
      simp only at hh ⊢
      simp [hh]
  · intro e he
    rcases mem_set _ _ _ _ he with h | h
    · exact inv.hcls e h
    · rw [h]; exact hc
  · intro q d
    show cls (vUS _ q) d.v.eqc = if listed (AList.set s.utilRegs (p, name) (c, info)) q d > 0 then 1 else 0
    rw [listed_set_new _ _ _ _ _ hnone]
    by_cases hsub : listed s.utilRegs p c > 0
    · rw [if_pos (by simpa using hsub), vUS_register, inv.usubs]
      by_cases hm : p = q ∧ c.eq d = true
      · obtain ⟨h1, h2⟩ := hm
        subst h1
        have := listed_congr s.utilRegs p h2
        simp only [h2, and_self, if_true]
        rw [if_pos (by omega), if_pos (by omega)]
      · have hm' : ¬ ((p, name).1 = q ∧ (c, info).1.eq d = true) := hm
        rw [if_neg hm']; rfl
    · rw [if_neg (by simpa using hsub), vUS_subscribe_UT]
      simp only [vUS_register]
      have hzero : listed s.utilRegs p c = 0 := by omega
      by_cases hq : q = p
      · subst hq
        rw [if_pos rfl, cls_append, cls_single, inv.usubs]
        by_cases hcd : c.eq d = true
        · have := listed_congr s.utilRegs q hcd
          have he : c.v.eqc = d.v.eqc := (C.eq_iff _ _).mp hcd
          simp only [hcd, and_self, if_true, he]
          rw [if_neg (by omega), if_pos (by omega)]
        · have he : ¬ c.v.eqc = d.v.eqc := fun h => hcd ((C.eq_iff _ _).mpr h)
          simp [hcd, he]
      · have : ¬ ((p, name).1 = q ∧ (c, info).1.eq d = true) := fun h => hq h.1.symm
        rw [if_neg hq, if_neg this, inv.usubs]; rfl
  · exact nodup_set _ _ _ inv.nodup

def cacheOf (uc : AList Id (List (C × Nat) × Bool)) (p : Id) : List (C × Nat) := ((AList.get? uc p).getD ([], false)).1

theorem cacheUnregister_eq (s : Comp) (p : Id) (name : String) (c : C) (hok : (!c.hashable && !unhOf s.ucache p) = false) :
    cacheUnregister s p name c =
      ({ s with utilRegs := AList.erase s.utilRegs (p, name),
                w := (if countOf s.ucache p c - 1 > 0 then unregister FUEL s.w UT [] p name none
                      else unsubscribe FUEL (unregister FUEL s.w UT [] p name none) UT [] (some p) (some c.v)),
                ucache := AList.set s.ucache p
                  ((if (countOf s.ucache p c - 1 == 0) = true then delCount (cacheOf s.ucache p) c
                    else setCount (cacheOf s.ucache p) c (countOf s.ucache p c - 1)), unhOf s.ucache p) }, true) := by
  unfold cacheUnregister
  unfold unhOf at hok
  unfold unhOf countOf cacheOf
  simp only []
  generalize (AList.get? s.ucache p).getD ([], false) = pr at hok ⊢
  obtain ⟨cache, unh⟩ := pr
  simp only at hok ⊢
  rw [if_neg (by simp [hok])]
  split <;> rfl

theorem inv_cacheUnregister {H : Nat → Bool} {s : Comp} (inv : Inv H s) (p : Id) (name : String) (c : C) (info : String)
    (hsome : AList.get? s.utilRegs (p, name) = some (c, info)) :
    (cacheUnregister s p name c).2 = true ∧ Inv H (cacheUnregister s p name c).1 := by
  have hmem : ((p, name), (c, info)) ∈ s.utilRegs := aget_some_mem _ _ _ hsome
  have hok : (!c.hashable && !unhOf s.ucache p) = false := by
    cases hh : c.hashable
    · have := inv.unh _ hmem hh
      simp only at this
      simp [this]
    · simp
  rw [cacheUnregister_eq s p name c hok]
  refine ⟨rfl, ?_⟩
  have hpos : listed s.utilRegs p c ≥ 1 := by
    have : listed s.utilRegs p c > 0 := (listed_pos_iff _ _ _).mpr ⟨_, hmem, rfl, C.eq_refl c⟩
    omega
  have hcount : countOf s.ucache p c = listed s.utilRegs p c := inv.counts p c
  have herase : ∀ q d, listed (AList.erase s.utilRegs (p, name)) q d + (if p = q ∧ c.eq d = true then 1 else 0)
      = listed s.utilRegs q d := fun q d => listed_erase _ inv.nodup _ _ hsome q d
  refine ⟨?_, ?_, ?_, ?_, ?_, ?_, ?_, ?_, ?_⟩
  · intro q n
    have e1 : vU (if countOf s.ucache p c - 1 > 0 then unregister FUEL s.w UT [] p name none
        else unsubscribe FUEL (unregister FUEL s.w UT [] p name none) UT [] (some p) (some c.v)) q n
        = vU (unregister FUEL s.w UT [] p name none) q n := by
      split
      · rfl
      · rw [vU_unsubscribe]
    show vU _ q n = (AList.get? (AList.erase s.utilRegs (p, name)) (q, n)).map (·.1.v)
    rw [e1, vU_unregister_UT, aget_erase]
    by_cases h : q = p ∧ n = name
    · obtain ⟨h1, h2⟩ := h; subst h1 h2; simp
    · have : ¬ ((p, name) = (q, n)) := by
        intro hh; rw [Prod.mk.injEq] at hh; exact h ⟨hh.1.symm, hh.2.symm⟩
      rw [if_neg h, if_neg this, inv.util]; rfl
  · intro req q n
    have e1 : vA (if countOf s.ucache p c - 1 > 0 then unregister FUEL s.w UT [] p name none
        else unsubscribe FUEL (unregister FUEL s.w UT [] p name none) UT [] (some p) (some c.v)) req q n = vA s.w req q n := by
      split
      · rw [vA_unregister_UT]
      · rw [vA_unsubscribe, vA_unregister_UT]
    show (vA _ req q n).map _ = _
    rw [e1]; exact inv.adapters req q n
  · intro req q
    have e1 : vS (if countOf s.ucache p c - 1 > 0 then unregister FUEL s.w UT [] p name none
        else unsubscribe FUEL (unregister FUEL s.w UT [] p name none) UT [] (some p) (some c.v)) req q = vS s.w req q := by
      split
      · rw [vS_unregister]
      · rw [vS_unsubscribe_UT, vS_unregister]
    show vS _ req q = _
    rw [e1]; exact inv.subs req q
  · intro req
    have e1 : vH (if countOf s.ucache p c - 1 > 0 then unregister FUEL s.w UT [] p name none
        else unsubscribe FUEL (unregister FUEL s.w UT [] p name none) UT [] (some p) (some c.v)) req = vH s.w req := by
      split
      · rw [vH_unregister]
      · rw [vH_unsubscribe_UT, vH_unregister]
    show vH _ req = _
    rw [e1]; exact inv.handlers req
  · intro q d
    show countOf (AList.set s.ucache p _) q d = listed (AList.erase s.utilRegs (p, name)) q d
    rw [countOf_set]
    have hE := herase q d
    by_cases hq : p = q
    · subst hq
      rw [if_pos rfl]
      have hcnt : count (cacheOf s.ucache p) d = listed s.utilRegs p d := inv.counts p d
      have hval : count (if (countOf s.ucache p c - 1 == 0) = true then delCount (cacheOf s.ucache p) c
          else setCount (cacheOf s.ucache p) c (countOf s.ucache p c - 1)) d =
          if c.eq d then countOf s.ucache p c - 1 else count (cacheOf s.ucache p) d := by
        split
        · rename_i hz
          rw [count_delCount]
          have : countOf s.ucache p c - 1 = 0 := by simpa using hz
          rw [this]
        · rw [count_setCount]
      rw [hval]
      by_cases hcd : c.eq d = true
      · have := listed_congr s.utilRegs p hcd
        simp only [hcd, and_self, if_true] at hE ⊢
        omega
      · simp only [hcd, and_false, if_false, Bool.false_eq_true] at hE ⊢
        omega
    · rw [if_neg hq, inv.counts]
      simp only [hq, false_and, if_false] at hE
      omega
  · intro e he
    show e.2.1.hashable = false → unhOf (AList.set s.ucache p _) e.1.1 = true
    intro hh
    rw [unhOf_set]
    have := inv.unh e (mem_erase _ _ _ he).1 hh
    split
    · rename_i hp; rw [hp]; exact this
    · exact this
  · intro e he
    exact inv.hcls e (mem_erase _ _ _ he).1
  · intro q d
    show cls (vUS _ q) d.v.eqc = if listed (AList.erase s.utilRegs (p, name)) q d > 0 then 1 else 0
    have hE := herase q d
    rw [hcount]
    by_cases hn : listed s.utilRegs p c - 1 > 0
    · rw [if_pos hn, vUS_unregister, inv.usubs]
      by_cases hm : p = q ∧ c.eq d = true
      · obtain ⟨h1, h2⟩ := hm
        subst h1
        have := listed_congr s.utilRegs p h2
        simp only [h2, and_self, if_true] at hE
        rw [if_pos (by omega), if_pos (by omega)]
      · rw [if_neg hm] at hE
        rw [show listed (AList.erase s.utilRegs (p, name)) q d = listed s.utilRegs q d by omega]
    · rw [if_neg hn, vUS_unsubscribe_UT]
      simp only [vUS_unregister]
      by_cases hq : q = p
      · subst hq
        rw [if_pos rfl]
        show cls ((vUS s.w q).filter fun u => u.eqc != c.v.eqc) d.v.eqc = _
        rw [cls_filter_ne, inv.usubs]
        by_cases hcd : c.eq d = true
        · have := listed_congr s.utilRegs q hcd
          have he : d.v.eqc = c.v.eqc := ((C.eq_iff _ _).mp hcd).symm
          simp only [hcd, and_self, if_true] at hE
          rw [if_pos he, if_neg (by omega)]
        · have he : ¬ d.v.eqc = c.v.eqc := fun h => hcd ((C.eq_iff _ _).mpr h.symm)
          simp only [hcd, and_false, if_false, Bool.false_eq_true] at hE
          rw [if_neg he, show listed (AList.erase s.utilRegs (q, name)) q d = listed s.utilRegs q d by omega]
      · have : ¬ (p = q ∧ c.eq d = true) := fun h => hq h.1.symm
        rw [if_neg this] at hE
        rw [if_neg hq, inv.usubs, show listed (AList.erase s.utilRegs (p, name)) q d = listed s.utilRegs q d by omega]
  · exact nodup_erase _ _ inv.nodup

/-! ## the eight methods keep the invariant -/
theorem inv_unregisterUtility {H : Nat → Bool} {s : Comp} (inv : Inv H s) (c : Option C) (p : Id) (name : String) :
    Inv H (unregisterUtility s c p name).1 ∧ (unregisterUtility s c p name).2.1 ≠ "TypeError" := by
  cases hget : AList.get? s.utilRegs (p, name) with
  | none => rw [(C16_unregisterUtility s c p name).1 hget]; exact ⟨inv, by simp⟩
  | some old =>
    rw [unregU_unfold s c p name old hget]
    split
    · obtain ⟨h1, h2⟩ := inv_cacheUnregister inv p name old.1 old.2 hget
      rw [h1]
      exact ⟨h2, by simp⟩
    · exact ⟨inv, by simp⟩

theorem inv_registerUtility {H : Nat → Bool} {s : Comp} (inv : Inv H s) (c : C) (p : Id) (name info : String)
    (hc : c.hashable = H c.v.eqc) : Inv H (registerUtility s c p name info).1 := by
  unfold registerUtility
  cases hget : AList.get? s.utilRegs (p, name) with
  | none => exact inv_cacheRegister inv p name c info hget hc
  | some reg =>
    simp only
    split
    · exact inv
    · have hm : matchesComp (some reg.1) reg.1 = true := by simp [matchesComp, C.eq]
      have hun := unregU_unfold s (some reg.1) p name reg hget
      obtain ⟨h1, h2⟩ := inv_cacheUnregister inv p name reg.1 reg.2 hget
      rw [hm, if_pos rfl, h1, if_pos rfl] at hun
      rw [hun]
      simp only [show ("True" == "TypeError") = false by decide, Bool.false_eq_true, if_false]
      exact inv_cacheRegister h2 p name c info (cacheUnregister_listing s p name reg.1) hc

theorem lawful_key_A : LawfulBEq (List Id × Id × String) := inferInstance

theorem inv_registerAdapter {H : Nat → Bool} {s : Comp} (inv : Inv H s) (f : C) (req : List Id) (p : Id) (name info : String) :
    Inv H (registerAdapter s f req p name info).1 := by
  unfold registerAdapter
  refine ⟨?_, ?_, ?_, ?_, inv.counts, inv.unh, inv.hcls, ?_, inv.nodup⟩
  · intro q n; show vU (register FUEL s.w AD (req.map some) p name f.v) q n = _
    rw [vU_register_AD]; exact inv.util q n
  · intro rq q n
    show (vA (register FUEL s.w AD (req.map some) p name f.v) rq q n).map (·.ident) =
      (AList.get? (AList.set s.adapterRegs (req, p, name) (f, info)) (rq, q, n)).map (·.1.v.ident)
    rw [vA_register_AD, aget_set]
    by_cases h : rq = req ∧ q = p ∧ n = name
    · obtain ⟨h1, h2, h3⟩ := h; subst h1 h2 h3
      simp only [and_self, if_true, Option.map_some]
      split
      · rename_i hh; exact hh
      · rfl
    · have : ¬ ((req, p, name) = (rq, q, n)) := by
        intro hh; simp only [Prod.mk.injEq] at hh; exact h ⟨hh.1.symm, hh.2.1.symm, hh.2.2.symm⟩
      rw [if_neg h, if_neg this]; exact inv.adapters rq q n
  · intro rq q; show vS (register FUEL s.w AD (req.map some) p name f.v) rq q = _
    rw [vS_register]; exact inv.subs rq q
  · intro rq; show vH (register FUEL s.w AD (req.map some) p name f.v) rq = _
    rw [vH_register]; exact inv.handlers rq
  · intro q d; show cls (vUS (register FUEL s.w AD (req.map some) p name f.v) q) _ = _
    rw [vUS_register]; exact inv.usubs q d

theorem unregA_unfold (s : Comp) (f : Option C) (req : List Id) (p : Id) (name : String) (old : C × String)
    (h : AList.get? s.adapterRegs (req, p, name) = some old) :
    unregisterAdapter s f req p name =
      if matchesComp f old.1 then
        ({ s with adapterRegs := AList.erase s.adapterRegs (req, p, name),
                  w := unregister FUEL s.w AD (req.map some) p name none }, "True", [.unregistered "Adapter"])
      else (s, "False", []) := by
  unfold unregisterAdapter matchesComp
  simp only [h]
  cases f with
  | none => simp
  | some c' => cases hc : c'.eq old.1 <;> simp [hc]

theorem inv_unregisterAdapter {H : Nat → Bool} {s : Comp} (inv : Inv H s) (f : Option C) (req : List Id) (p : Id) (name : String) :
    Inv H (unregisterAdapter s f req p name).1 := by
  cases hget : AList.get? s.adapterRegs (req, p, name) with
  | none => rw [(C16_adapters s ⟨⟨0, 0⟩, true⟩ req p name "").2.1 f hget]; exact inv
  | some old =>
    rw [unregA_unfold s f req p name old hget]
    split
    · refine ⟨?_, ?_, ?_, ?_, inv.counts, inv.unh, inv.hcls, ?_, inv.nodup⟩
      · intro q n; show vU (unregister FUEL s.w AD (req.map some) p name none) q n = _
        rw [vU_unregister_AD]; exact inv.util q n
      · intro rq q n
        show (vA (unregister FUEL s.w AD (req.map some) p name none) rq q n).map (·.ident) =
          (AList.get? (AList.erase s.adapterRegs (req, p, name)) (rq, q, n)).map (·.1.v.ident)
        rw [vA_unregister_AD, aget_erase]
        by_cases h : rq = req ∧ q = p ∧ n = name
        · obtain ⟨h1, h2, h3⟩ := h; subst h1 h2 h3; simp
        · have : ¬ ((req, p, name) = (rq, q, n)) := by
            intro hh; simp only [Prod.mk.injEq] at hh; exact h ⟨hh.1.symm, hh.2.1.symm, hh.2.2.symm⟩
          rw [if_neg h, if_neg this]; exact inv.adapters rq q n
      · intro rq q; show vS (unregister FUEL s.w AD (req.map some) p name none) rq q = _
        rw [vS_unregister]; exact inv.subs rq q
      · intro rq; show vH (unregister FUEL s.w AD (req.map some) p name none) rq = _
        rw [vH_unregister]; exact inv.handlers rq
      · intro q d; show cls (vUS (unregister FUEL s.w AD (req.map some) p name none) q) _ = _
        rw [vUS_unregister]; exact inv.usubs q d
    · exact inv

/-! ### subscription adapters and handlers: the leaf is the listing filtered by key, in order -/
def matchF (f : Option C) (c : C) : Bool := match f with | some f => c.eq f | none => true

theorem unsub_listing {τ : Type} (l : List τ) (key : τ → Bool) (comp : τ → C) (f : Option C) :
    ((l.filter fun t => !(key t && matchF f (comp t))).filter key).map (fun t => (comp t).v)
      = unsubLeaf (f.map (·.v)) ((l.filter key).map fun t => (comp t).v) := by
  rw [List.filter_filter]
  cases f with
  | none =>
    simp only [matchF, Bool.and_true, Option.map_none, unsubLeaf]
    have : (l.filter fun t => key t && !key t) = [] := by
      rw [List.filter_eq_nil_iff]; intro t _; simp
    rw [this]; rfl
  | some f0 =>
    simp only [matchF, Option.map_some, unsubLeaf]
    rw [List.filter_map, List.filter_filter]
    congr 1
    apply List.filter_congr
    intro t _
    simp only [Function.comp, C.eq]
    cases key t <;> simp [bne]

theorem unsub_other_key {τ : Type} (l : List τ) (key key' m : τ → Bool) (h : ∀ t, key' t = true → key t = false) :
    (l.filter fun t => !(key t && m t)).filter key' = l.filter key' := by
  rw [List.filter_filter]
  apply List.filter_congr
  intro t _
  cases hk : key' t
  · rfl
  · simp [h t hk]

theorem inv_registerSubscriptionAdapter {H : Nat → Bool} {s : Comp} (inv : Inv H s) (f : C) (req : List Id) (p : Id) (info : String) :
    Inv H (registerSubscriptionAdapter s f req p info).1 := by
  unfold registerSubscriptionAdapter
  refine ⟨?_, ?_, ?_, ?_, inv.counts, inv.unh, inv.hcls, ?_, inv.nodup⟩
  · intro q n; show vU (subscribe FUEL s.w AD (req.map some) (some p) f.v) q n = _
    rw [vU_subscribe]; exact inv.util q n
  · intro rq q n; show (vA (subscribe FUEL s.w AD (req.map some) (some p) f.v) rq q n).map _ = _
    rw [vA_subscribe]; exact inv.adapters rq q n
  · intro rq q
    show vS (subscribe FUEL s.w AD (req.map some) (some p) f.v) rq q =
      ((s.subRegs ++ [(req, p, f, info)]).filter fun t => t.1 == rq && t.2.1 == q).map (·.2.2.1.v)
    rw [vS_subscribe_AD, List.filter_append, List.map_append, inv.subs]
    by_cases h : rq = req ∧ some q = some p
    · obtain ⟨h1, h2⟩ := h
      have h2' : q = p := by simpa using h2
      subst h1 h2'
      simp [lS]
    · rw [if_neg h]
      have : ([(req, p, f, info)].filter fun t => t.1 == rq && t.2.1 == q) = [] := by
        rw [List.filter_eq_nil_iff]
        intro t ht
        rw [List.mem_singleton] at ht
        subst ht
        simp only [Bool.and_eq_true, beq_iff_eq, not_and]
        intro h1 h2; exact h ⟨h1.symm, by rw [h2]⟩
      rw [this]; simp [lS]
  · intro rq; show vH (subscribe FUEL s.w AD (req.map some) (some p) f.v) rq = _
    rw [vH_subscribe_AD, if_neg (by simp)]; exact inv.handlers rq
  · intro q d; show cls (vUS (subscribe FUEL s.w AD (req.map some) (some p) f.v) q) _ = _
    rw [vUS_subscribe_AD]; exact inv.usubs q d

def keepS (f : Option C) (req : List Id) (p : Id) (t : List Id × Id × C × String) : Bool :=
  !(t.1 == req && t.2.1 == p && matchF f t.2.2.1)
def keepH (f : Option C) (req : List Id) (t : List Id × C × String) : Bool :=
  !(t.1 == req && matchF f t.2.1)

theorem unregS_unfold (s : Comp) (f : Option C) (req : List Id) (p : Id) :
    unregisterSubscriptionAdapter s f req p =
      if ((s.subRegs.filter (keepS f req p)).length == s.subRegs.length) = true then (s, "False", []) else
      ({ s with subRegs := s.subRegs.filter (keepS f req p),
                w := unsubscribe FUEL s.w AD (req.map some) (some p) (f.map (·.v)) }, "True", [.unregistered "Subscription"]) := rfl
theorem unregH_unfold (s : Comp) (f : Option C) (req : List Id) :
    unregisterHandler s f req =
      if ((s.handlerRegs.filter (keepH f req)).length == s.handlerRegs.length) = true then (s, "False", []) else
      ({ s with handlerRegs := s.handlerRegs.filter (keepH f req),
                w := unsubscribe FUEL s.w AD (req.map some) none (f.map (·.v)) }, "True", [.unregistered "Handler"]) := rfl

theorem inv_unregisterSubscriptionAdapter {H : Nat → Bool} {s : Comp} (inv : Inv H s) (f : Option C) (req : List Id) (p : Id) :
    Inv H (unregisterSubscriptionAdapter s f req p).1 := by
  rw [unregS_unfold]
  by_cases hl : ((s.subRegs.filter (keepS f req p)).length == s.subRegs.length) = true
  · rw [if_pos hl]; exact inv
  · rw [if_neg hl]
    refine ⟨?_, ?_, ?_, ?_, inv.counts, inv.unh, inv.hcls, ?_, inv.nodup⟩
    · intro q n; show vU (unsubscribe FUEL s.w AD (req.map some) (some p) (f.map (·.v))) q n = _
      rw [vU_unsubscribe]; exact inv.util q n
    · intro rq q n; show (vA (unsubscribe FUEL s.w AD (req.map some) (some p) (f.map (·.v))) rq q n).map _ = _
      rw [vA_unsubscribe]; exact inv.adapters rq q n
    · intro rq q
      show vS (unsubscribe FUEL s.w AD (req.map some) (some p) (f.map (·.v))) rq q =
        ((s.subRegs.filter (keepS f req p)).filter fun t => t.1 == rq && t.2.1 == q).map (·.2.2.1.v)
      rw [vS_unsubscribe_AD, inv.subs]
      by_cases h : rq = req ∧ some q = some p
      · obtain ⟨h1, h2⟩ := h
        have h2' : q = p := by simpa using h2
        subst h1 h2'
        rw [if_pos ⟨rfl, rfl⟩]
        exact (unsub_listing s.subRegs (fun t => t.1 == rq && t.2.1 == q) (fun t => t.2.2.1) f).symm
      · rw [if_neg h]
        have := unsub_other_key s.subRegs (fun t => t.1 == req && t.2.1 == p)
          (fun t => t.1 == rq && t.2.1 == q) (fun t => matchF f t.2.2.1) (by
            intro t ht
            simp only [Bool.and_eq_true, beq_iff_eq] at ht
            rw [Bool.and_eq_false_iff]
            by_cases h1 : t.1 = req
            · right
              simp only [beq_eq_false_iff_ne, ne_eq]
              intro h2; exact h ⟨ht.1.symm.trans h1, by rw [← ht.2, h2]⟩
            · left; simpa using h1)
        show lS s rq q = List.map _ (List.filter _ (List.filter (fun t => !(t.1 == req && t.2.1 == p && matchF f t.2.2.1)) s.subRegs))
        rw [this]; rfl
    · intro rq; show vH (unsubscribe FUEL s.w AD (req.map some) (some p) (f.map (·.v))) rq = _
      rw [vH_unsubscribe_AD, if_neg (by simp)]; exact inv.handlers rq
    · intro q d; show cls (vUS (unsubscribe FUEL s.w AD (req.map some) (some p) (f.map (·.v))) q) _ = _
      rw [vUS_unsubscribe_AD]; exact inv.usubs q d

theorem inv_registerHandler {H : Nat → Bool} {s : Comp} (inv : Inv H s) (f : C) (req : List Id) (info : String) :
    Inv H (registerHandler s f req info).1 := by
  unfold registerHandler
  refine ⟨?_, ?_, ?_, ?_, inv.counts, inv.unh, inv.hcls, ?_, inv.nodup⟩
  · intro q n; show vU (subscribe FUEL s.w AD (req.map some) none f.v) q n = _
    rw [vU_subscribe]; exact inv.util q n
  · intro rq q n; show (vA (subscribe FUEL s.w AD (req.map some) none f.v) rq q n).map _ = _
    rw [vA_subscribe]; exact inv.adapters rq q n
  · intro rq q; show vS (subscribe FUEL s.w AD (req.map some) none f.v) rq q = _
    rw [vS_subscribe_AD, if_neg (by simp)]; exact inv.subs rq q
  · intro rq
    show vH (subscribe FUEL s.w AD (req.map some) none f.v) rq =
      ((s.handlerRegs ++ [(req, f, info)]).filter fun t => t.1 == rq).map (·.2.1.v)
    rw [vH_subscribe_AD, List.filter_append, List.map_append, inv.handlers]
    by_cases h : rq = req
    · subst h; simp [lH]
    · rw [if_neg (fun hh => h hh.1)]
      have : ([(req, f, info)].filter fun t => t.1 == rq) = [] := by
        rw [List.filter_eq_nil_iff]
        intro t ht
        rw [List.mem_singleton] at ht
        subst ht
        simp only [beq_iff_eq]
        exact fun h1 => h h1.symm
      rw [this]; simp [lH]
  · intro q d; show cls (vUS (subscribe FUEL s.w AD (req.map some) none f.v) q) _ = _
    rw [vUS_subscribe_AD]; exact inv.usubs q d

theorem inv_unregisterHandler {H : Nat → Bool} {s : Comp} (inv : Inv H s) (f : Option C) (req : List Id) :
    Inv H (unregisterHandler s f req).1 := by
  rw [unregH_unfold]
  by_cases hl : ((s.handlerRegs.filter (keepH f req)).length == s.handlerRegs.length) = true
  · rw [if_pos hl]; exact inv
  · rw [if_neg hl]
    refine ⟨?_, ?_, ?_, ?_, inv.counts, inv.unh, inv.hcls, ?_, inv.nodup⟩
    · intro q n; show vU (unsubscribe FUEL s.w AD (req.map some) none (f.map (·.v))) q n = _
      rw [vU_unsubscribe]; exact inv.util q n
    · intro rq q n; show (vA (unsubscribe FUEL s.w AD (req.map some) none (f.map (·.v))) rq q n).map _ = _
      rw [vA_unsubscribe]; exact inv.adapters rq q n
    · intro rq q; show vS (unsubscribe FUEL s.w AD (req.map some) none (f.map (·.v))) rq q = _
      rw [vS_unsubscribe_AD, if_neg (by simp)]; exact inv.subs rq q
    · intro rq
      show vH (unsubscribe FUEL s.w AD (req.map some) none (f.map (·.v))) rq =
        ((s.handlerRegs.filter (keepH f req)).filter fun t => t.1 == rq).map (·.2.1.v)
      rw [vH_unsubscribe_AD, inv.handlers]
      by_cases h : rq = req
      · subst h
        rw [if_pos ⟨rfl, rfl⟩]
        exact (unsub_listing s.handlerRegs (fun t => t.1 == rq) (fun t => t.2.1) f).symm
      · rw [if_neg (fun hh => h hh.1)]
        have := unsub_other_key s.handlerRegs (fun t => t.1 == req) (fun t => t.1 == rq)
          (fun t => matchF f t.2.1) (by
            intro t ht
            simp only [beq_iff_eq] at ht
            simp only [beq_eq_false_iff_ne, ne_eq]
            intro h1; exact h (ht.symm.trans h1))
        show lH s rq = List.map _ (List.filter _ (List.filter (fun t => !(t.1 == req && matchF f t.2.1)) s.handlerRegs))
        rw [this]; rfl
    · intro q d; show cls (vUS (unsubscribe FUEL s.w AD (req.map some) none (f.map (·.v))) q) _ = _
      rw [vUS_unsubscribe_AD]; exact inv.usubs q d

/-! ### queries, re-loads, re-initialisation -/
theorem sameViews_of_as {w w' : World} (ha : ∀ x, (w'.reg x).adapters = (w.reg x).adapters)
    (hs : ∀ x, (w'.reg x).subs = (w.reg x).subs) : SameViews w w' := by
  refine ⟨fun p name => ?_, fun p => ?_, fun req p name => ?_, fun req p => ?_, fun req => ?_⟩
  · exact registered_of_dataEq (ha UT) _ _ _
  · unfold vUS subsLeaf; rw [subsFind_of_dataEq (hs UT)]
  · exact registered_of_dataEq (ha AD) _ _ _
  · unfold vS subsLeaf; rw [subsFind_of_dataEq (hs AD)]
  · unfold vH subsLeaf; rw [subsFind_of_dataEq (hs AD)]

theorem SameViews.trans {a b c : World} (h1 : SameViews a b) (h2 : SameViews b c) : SameViews a c :=
  ⟨fun p n => (h2.u p n).trans (h1.u p n), fun p => (h2.us p).trans (h1.us p),
   fun r p n => (h2.a r p n).trans (h1.a r p n), fun r p => (h2.s r p).trans (h1.s r p), fun r => (h2.h r).trans (h1.h r)⟩

theorem inv_of_sameViews {H : Nat → Bool} {s : Comp} (inv : Inv H s) {w' : World} (h : SameViews s.w w') :
    Inv H { s with w := w' } := by
  refine ⟨?_, ?_, ?_, ?_, inv.counts, inv.unh, inv.hcls, ?_, inv.nodup⟩
  · intro p n; show vU w' p n = _; rw [h.u]; exact inv.util p n
  · intro r p n; show (vA w' r p n).map _ = _; rw [h.a]; exact inv.adapters r p n
  · intro r p; show vS w' r p = _; rw [h.s]; exact inv.subs r p
  · intro r; show vH w' r = _; rw [h.h]; exact inv.handlers r
  · intro p c; show cls (vUS w' p) _ = _; rw [h.us]; exact inv.usubs p c

theorem addExtendor_fold_data (w : World) (l : List (Id × Nat)) (x : Reg) :
    (l.foldl (fun x e => addExtendor w x e.1) x).adapters = x.adapters ∧
    (l.foldl (fun x e => addExtendor w x e.1) x).subs = x.subs := by
  induction l generalizing x with
  | nil => exact ⟨rfl, rfl⟩
  | cons e t ih => rw [List.foldl_cons]; exact ih _

theorem reloadRegistry_sameViews (w : World) (r : Nat) : SameViews w (reloadRegistry w r) := by
  unfold reloadRegistry
  simp only []
  refine SameViews.trans ?_ (sameViews_of_sameData (setBases_sameData FUEL _ r _))
  have hd := addExtendor_fold_data w (clearCaches (w.reg r)).provided { clearCaches (w.reg r) with extendors := [] }
  apply sameViews_of_as
  · intro y
    by_cases h : y = r
    · subst h; rw [reg_setReg_same]; exact hd.1
    · rw [reg_setReg_ne _ h]
  · intro y
    by_cases h : y = r
    · subst h; rw [reg_setReg_same]; exact hd.2
    · rw [reg_setReg_ne _ h]

theorem unhOf_populate (regs : AList (Id × String) (C × String)) (uc : AList Id (List (C × Nat) × Bool)) (q : Id) :
    unhOf (regs.foldl (fun uc e => cacheUtility uc e.1.1 e.2.1) uc) q =
      (unhOf uc q || regs.any fun e => e.1.1 == q && !e.2.1.hashable) := by
  induction regs generalizing uc with
  | nil => simp
  | cons e t ih =>
    rw [List.foldl_cons, ih, unhOf_cacheUtility, List.any_cons]
    by_cases h : e.1.1 = q
    · simp [h, Bool.or_assoc]
    · have hb : (e.1.1 == q) = false := by simpa using h
      simp [h, hb]

theorem inv_reload {H : Nat → Bool} {s : Comp} (inv : Inv H s) : Inv H (reload s) := by
  unfold reload
  have hv : SameViews s.w (reloadRegistry (reloadRegistry s.w UT) AD) :=
    (reloadRegistry_sameViews s.w UT).trans (reloadRegistry_sameViews _ AD)
  refine ⟨?_, ?_, ?_, ?_, ?_, ?_, inv.hcls, ?_, inv.nodup⟩
  · intro p n; show vU _ p n = _; rw [hv.u]; exact inv.util p n
  · intro r p n; show (vA _ r p n).map _ = _; rw [hv.a]; exact inv.adapters r p n
  · intro r p; show vS _ r p = _; rw [hv.s]; exact inv.subs r p
  · intro r; show vH _ r = _; rw [hv.h]; exact inv.handlers r
  · intro p c; exact populateCache_counts s.utilRegs p c
  · intro e he hh
    show unhOf (populateCache s.utilRegs) e.1.1 = true
    unfold populateCache
    rw [unhOf_populate, Bool.or_eq_true]
    right
    rw [List.any_eq_true]
    exact ⟨e, he, by simp [hh]⟩
  · intro p c; show cls (vUS _ p) _ = _; rw [hv.us]; exact inv.usubs p c

/-- two empty registries answer nothing: the state after `__init__` -/
theorem inv_reinit (H : Nat → Bool) (s : Comp) : Inv H (reinit s) := by
  have hA : ∀ y, (((reinit s).w).reg y).adapters = [] ∧ (((reinit s).w).reg y).subs = [] := by
    intro y
    unfold reinit
    simp only []
    generalize hw0 : ({ s.w with regs := [] } : World) = w0
    have h0 : ∀ y, (w0.reg y).adapters = [] ∧ (w0.reg y).subs = [] := by
      intro y; subst hw0; exact ⟨rfl, rfl⟩
    have h1 : ∀ y, ((w0.setReg UT {}).reg y).adapters = [] ∧ ((w0.setReg UT {}).reg y).subs = [] := by
      intro y
      by_cases h : y = UT
      · subst h; rw [reg_setReg_same]; exact ⟨rfl, rfl⟩
      · rw [reg_setReg_ne _ h]; exact h0 y
    have sd1 := setBases_sameData FUEL (w0.setReg UT {}) UT []
    have h2 : ∀ y, ((setBases FUEL (w0.setReg UT {}) UT []).reg y).adapters = [] ∧
        ((setBases FUEL (w0.setReg UT {}) UT []).reg y).subs = [] := by
      intro y; rw [sd1.adapters, sd1.subs]; exact h1 y
    have h3 : ∀ y, (((setBases FUEL (w0.setReg UT {}) UT []).setReg AD {}).reg y).adapters = [] ∧
        (((setBases FUEL (w0.setReg UT {}) UT []).setReg AD {}).reg y).subs = [] := by
      intro y
      by_cases h : y = AD
      · subst h; rw [reg_setReg_same]; exact ⟨rfl, rfl⟩
      · rw [reg_setReg_ne _ h]; exact h2 y
    have sd2 := setBases_sameData FUEL ((setBases FUEL (w0.setReg UT {}) UT []).setReg AD {}) AD []
    rw [sd2.adapters, sd2.subs]; exact h3 y
  have hreg : ∀ r req p n, registered (reinit s).w r req p n = none := by
    intro r req p n
    exact registered_none_of_no_order _ r req p n (by rw [(hA r).1]; rfl)
  have hsub : ∀ r req p, subsLeaf (reinit s).w r req p = [] := by
    intro r req p
    unfold subsLeaf
    rw [subsFind_none_of_no_order _ r req p (by rw [(hA r).2]; rfl)]; rfl
  have hl : (reinit s).utilRegs = [] ∧ (reinit s).adapterRegs = [] ∧ (reinit s).subRegs = [] ∧
      (reinit s).handlerRegs = [] ∧ (reinit s).ucache = [] := ⟨rfl, rfl, rfl, rfl, rfl⟩
  refine ⟨?_, ?_, ?_, ?_, ?_, ?_, ?_, ?_, ?_⟩
  · intro p n; unfold vU lU; rw [hreg, hl.1]; rfl
  · intro r p n; unfold vA lA; rw [hreg, hl.2.1]; rfl
  · intro r p; unfold vS lS; rw [hsub, hl.2.2.1]; rfl
  · intro r; unfold vH lH; rw [hsub, hl.2.2.2.1]; rfl
  · intro p c; rw [hl.1, hl.2.2.2.2]; rfl
  · intro e he; rw [hl.1] at he; cases he
  · intro e he; rw [hl.1] at he; cases he
  · intro p c; unfold vUS; rw [hsub, hl.1]; rfl
  · rw [hl.1]; exact List.nodup_nil

theorem fresh_eq_reinit (sro iro : Id → List Id) (verifying : Bool) :
    fresh sro iro verifying = reinit { w := { sro := sro, iro := iro, regs := [], verifying := verifying } } := rfl

theorem inv_fresh (H : Nat → Bool) (sro iro : Id → List Id) (verifying : Bool) : Inv H (fresh sro iro verifying) := by
  rw [fresh_eq_reinit]; exact inv_reinit H _

theorem persist_sameViews (w : World) : SameViews w { w with verifying := true } :=
  sameViews_of_as (fun _ => rfl) (fun _ => rfl)

/-- **one step keeps the invariant** -/
theorem inv_step {H : Nat → Bool} {s : Comp} (inv : Inv H s) (op : Op) (hop : ∀ c ∈ op.comps, c.hashable = H c.v.eqc) :
    Inv H (step s op) := by
  cases op with
  | regU c p name info => exact inv_registerUtility inv c p name info (hop c (by simp [Op.comps]))
  | unregU c p name => exact (inv_unregisterUtility inv c p name).1
  | regA f req p name info => exact inv_registerAdapter inv f req p name info
  | unregA f req p name => exact inv_unregisterAdapter inv f req p name
  | regS f req p info => exact inv_registerSubscriptionAdapter inv f req p info
  | unregS f req p => exact inv_unregisterSubscriptionAdapter inv f req p
  | regH f req info => exact inv_registerHandler inv f req info
  | unregH f req => exact inv_unregisterHandler inv f req
  | qLookup r req p name => exact inv_of_sameViews inv (sameViews_of_sameData (lookup_sameData s.w r req p name))
  | qLookupAll r req p => exact inv_of_sameViews inv (sameViews_of_sameData (lookupAll_sameData s.w r req p))
  | qSubs r req p => exact inv_of_sameViews inv (sameViews_of_sameData (subscriptions_sameData s.w r req p))
  | persist => exact inv_of_sameViews inv (persist_sameViews s.w)
  | reload => exact inv_reload inv
  | reinit => exact inv_reinit H s

/-- **every reachable state**: after any history inside the guard the invariant holds -/
theorem inv_run {H : Nat → Bool} : ∀ (ops : List Op) (s : Comp), Inv H s → HashClass H ops → Inv H (run s ops)
  | [], _, inv, _ => inv
  | op :: ops, s, inv, hg => by
    show Inv H (run (step s op) ops)
    exact inv_run ops (step s op) (inv_step inv op (hg op (List.mem_cons_self ..)))
      (fun o ho => hg o (List.mem_cons_of_mem _ ho))

/-! ## the statement's clauses about the state, for every history -/
theorem foldl_fixed {α β : Type} (f : β → α → β) (l : List α) (b : β) (h : ∀ b, ∀ a ∈ l, f b a = b) : l.foldl f b = b := by
  induction l generalizing b with
  | nil => rfl
  | cons a t ih =>
    rw [List.foldl_cons, h b a (List.mem_cons_self ..)]
    exact ih b (fun b a ha => h b a (List.mem_cons_of_mem _ ha))

theorem probe_zero {H : Nat → Bool} {s : Comp} (inv : Inv H s) : probe s = (0, 0) := by
  unfold probe
  apply foldl_fixed
  intro acc e he
  have hget : AList.get? s.utilRegs e.1 = some e.2 := aget_of_mem _ inv.nodup _ _ he
  have hreg : registered s.w UT [] e.1.1 e.1.2 = some e.2.1.v := by
    have := inv.util e.1.1 e.1.2
    unfold vU lU at this
    rw [this, hget]; rfl
  have hsub : ((Level.find 1 (getOrder ([] : List Val) (s.w.reg UT).subs 0) [some e.1.1]).getD []) = vUS s.w e.1.1 := rfl
  have hany : (vUS s.w e.1.1).any (fun v => v.eqc == e.2.1.v.eqc) = true := by
    rw [← cls_pos_iff, inv.usubs e.1.1 e.2.1]
    have : listed s.utilRegs e.1.1 e.2.1 > 0 := (listed_pos_iff _ _ _).mpr ⟨e, he, rfl, C.eq_refl _⟩
    rw [if_pos this]; omega
  simp only [hreg, hsub, hany]
  simp

/-- the initial state of every history: `Components()` over any specification graph, either registry flavour -/
abbrev Start := fresh

/-- **C16_queries** — after ANY history the registries underneath hold exactly the listings: the utility registry's
`registered(provided, name)` is the listed component, the adapter registry's `registered(required, provided, name)` is
the listed factory (the same object), the subscription leaf under `(required, provided)` is the list of listed
subscription adapters for that key *in listing order*, and the leaf under `(required, None)` the listed handlers.
Every lookup of C04 / C07 is a function of these leaves, so the query methods answer as registries populated with
exactly the listed registrations would. -/
theorem C16_queries (H : Nat → Bool) (sro iro : Id → List Id) (v : Bool) (ops : List Op) (hg : HashClass H ops) :
    let s := run (Start sro iro v) ops
    (∀ p name, registered s.w UT [] p name = (AList.get? s.utilRegs (p, name)).map (·.1.v)) ∧
    (∀ req p name, (registered s.w AD (req.map some) p name).map (·.ident) =
        (AList.get? s.adapterRegs (req, p, name)).map (·.1.v.ident)) ∧
    (∀ req p, subsLeaf s.w AD (req.map some) (some p) =
        (s.subRegs.filter fun t => t.1 == req && t.2.1 == p).map (·.2.2.1.v)) ∧
    (∀ req, subsLeaf s.w AD (req.map some) none = (s.handlerRegs.filter fun t => t.1 == req).map (·.2.1.v)) := by
  have inv := inv_run ops _ (inv_fresh H sro iro v) hg
  exact ⟨inv.util, inv.adapters, inv.subs, inv.handlers⟩

/-- **C16_counts** — the `{provided: {component: count}}` cache equals the number of listing entries per
`(provided, component under ==)`, after any history (re-loads rebuild it, re-initialisation empties both) -/
theorem C16_counts (H : Nat → Bool) (sro iro : Id → List Id) (v : Bool) (ops : List Op) (hg : HashClass H ops) (p : Id) (c : C) :
    countOf (run (Start sro iro v) ops).ucache p c = listed (run (Start sro iro v) ops).utilRegs p c :=
  (inv_run ops _ (inv_fresh H sro iro v) hg).counts p c

/-- **C16_all_utilities** — `getAllUtilitiesRegisteredFor`'s leaf holds each listed component once per equality class,
however many names it is registered under, and nothing that is not listed -/
theorem C16_all_utilities (H : Nat → Bool) (sro iro : Id → List Id) (v : Bool) (ops : List Op) (hg : HashClass H ops) (p : Id) (c : C) :
    cls (subsLeaf (run (Start sro iro v) ops).w UT [] (some p)) c.v.eqc =
      if listed (run (Start sro iro v) ops).utilRegs p c > 0 then 1 else 0 :=
  (inv_run ops _ (inv_fresh H sro iro v) hg).usubs p c

/-- **C16_probe** — `rebuildUtilityRegistryFromLocalCache()` finds nothing to repair in any reachable state -/
theorem C16_probe (H : Nat → Bool) (sro iro : Id → List Id) (v : Bool) (ops : List Op) (hg : HashClass H ops) :
    probe (run (Start sro iro v) ops) = (0, 0) :=
  probe_zero (inv_run ops _ (inv_fresh H sro iro v) hg)

/-- **C16_no_TypeError** — inside the guard no unregister call fails half-way (the repaired `unregisterUtility`) -/
theorem C16_no_TypeError (H : Nat → Bool) (sro iro : Id → List Id) (v : Bool) (ops : List Op) (hg : HashClass H ops)
    (c : Option C) (p : Id) (name : String) :
    (unregisterUtility (run (Start sro iro v) ops) c p name).2.1 ≠ "TypeError" :=
  (inv_unregisterUtility (inv_run ops _ (inv_fresh H sro iro v) hg) c p name).2

/-! ### the guard is necessary, and satisfiable -/
def sroEx : Id → List Id := fun i => [i, 0]
/-- a frozenset-like hashable component and an equal set-like unhashable one under two names: outside `HashClass` the
utility is subscribed twice (known finding `utilities-mixed-hashability-double-subscription`) -/
def mixedOps : List Op := [.regU ⟨⟨1, 7⟩, true⟩ 1 "a" "", .regU ⟨⟨2, 7⟩, false⟩ 1 "b" ""]
theorem mixed_hashability_breaks :
    cls (subsLeaf (run (Start sroEx sroEx false) mixedOps).w UT [] (some 1)) 7 = 2 := by decide +kernel

/-- non-vacuity: a history inside the guard that exercises every method, a replacement, a duplicate name, equal but
distinct components, an unhashable one, a re-load and queries -/
def exOps : List Op :=
  [.regU ⟨⟨1, 1⟩, true⟩ 1 "a" "", .regU ⟨⟨2, 1⟩, true⟩ 1 "b" "", .regU ⟨⟨3, 3⟩, false⟩ 1 "c" "", .regU ⟨⟨4, 4⟩, true⟩ 1 "a" "x",
   .regA ⟨⟨5, 5⟩, true⟩ [2, 3] 1 "n" "", .regA ⟨⟨5, 5⟩, true⟩ [2, 3] 1 "n" "again", .regS ⟨⟨6, 6⟩, true⟩ [2] 1 "",
   .regS ⟨⟨7, 6⟩, true⟩ [2] 1 "", .regH ⟨⟨8, 8⟩, true⟩ [2] "", .qLookup 0 [] 1 "a", .reload, .unregU none 1 "b",
   .unregS (some ⟨⟨9, 6⟩, true⟩) [2] 1, .unregH none [2], .unregA none [2, 3] 1 "n", .qSubs 1 [2] (some 1), .persist]
def exH : Nat → Bool := fun e => e != 3
theorem exOps_guard : HashClass exH exOps := by
  intro op hop c hc
  simp only [exOps, List.mem_cons, List.not_mem_nil, or_false] at hop
  rcases hop with h | h | h | h | h | h | h | h | h | h | h | h | h | h | h | h | h <;> subst h <;>
    simp [Op.comps] at hc <;> (try subst hc) <;> rfl
example : (run (Start sroEx sroEx false) exOps).utilRegs.length = 2 ∧ probe (run (Start sroEx sroEx false) exOps) = (0, 0) := by
  decide +kernel

end ZI.Components
