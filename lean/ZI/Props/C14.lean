import ZI.AdaptModel
/-! # C14 — calling an interface follows the PEP 246 adaptation order

Model: `ZI.Adapt.callPy` (`InterfaceBase.__call__` + `__adapt__`), `callC` (`IB__call__`/`IB__adapt__` with the
`_CALL_CUSTOM_ADAPT` dispatch).  Inputs: what `obj.__conform__` does (`absent` also stands for an attribute access that
raises `AttributeError`), whether `obj` provides the interface, the hook list, the alternate, an optional custom
`__adapt__` (defined through `interfacemethod`).  Outputs: the result or the exception *and the log of what was called*.
Specification: `spec` (the declarative precedence) with `outcome`/`called` over the hook list. -/
namespace ZI.Adapt

/-- **C14_order**: result and call log are exactly the declarative precedence — conform's non-None result; the object
if provided; the first non-None hook result in list order; the alternate; else "Could not adapt" — and nothing is
called after the step that decided -/
theorem C14_order (conf : Conform) (provided : Bool) (hooks : List Hook) (alt : Option V) :
    callPy conf provided hooks alt none = spec conf provided hooks alt := callPy_spec conf provided hooks alt

/-- a non-None `__conform__` result wins and nothing else runs -/
theorem C14_conform_wins (v : V) (provided : Bool) (hooks : List Hook) (alt : Option V) (custom : Option Hook) :
    callPy (.returns v) provided hooks alt custom = (.val v, [.conform]) := by
  cases custom <;> rfl

/-- **C14_raise** (attribute access): an exception other than AttributeError from reading `__conform__` propagates
unchanged, nothing is called -/
theorem C14_raise_attr (e : E) (provided : Bool) (hooks : List Hook) (alt : Option V) (custom : Option Hook) :
    callPy (.attrRaises e) provided hooks alt custom = (.exc e, []) := by
  cases custom <;> rfl

/-- **C14_raise** (`__conform__` body) -/
theorem C14_raise_conform (e : E) (provided : Bool) (hooks : List Hook) (alt : Option V) (custom : Option Hook) :
    callPy (.raises e) provided hooks alt custom = (.exc e, [.conform]) := by
  cases custom <;> rfl

/-- the object itself when it provides the interface: no hook runs -/
theorem C14_provided (conf : Conform) (hooks : List Hook) (alt : Option V)
    (hc : conf = .absent ∨ conf = .returnsNone) :
    (callPy conf true hooks alt none).1 = .self ∧
    ∀ k, Ev.hook k ∉ (callPy conf true hooks alt none).2 := by
  rw [C14_order]
  rcases hc with h | h <;> subst h <;> simp [spec]

/-- hooks run in list order up to and including the first one that returns a value or raises; its result (value or
the exception, unchanged) is the result of the call; later hooks never run -/
theorem C14_hooks (conf : Conform) (pre : List Hook) (h : Hook) (post : List Hook) (alt : Option V) (o : Out)
    (hc : conf = .absent ∨ conf = .returnsNone) (hpre : ∀ x ∈ pre, x = Hook.none)
    (ho : (h = .value (match o with | .val v => v | _ => 0) ∧ ∃ v, o = .val v) ∨
          (h = .raises (match o with | .exc e => e | _ => 0) ∧ ∃ e, o = .exc e)) :
    (callPy conf false (pre ++ h :: post) alt none).1 = o ∧
    ∀ k, Ev.hook k ∈ (callPy conf false (pre ++ h :: post) alt none).2 ↔ k ≤ pre.length := by
  have hout : outcome (pre ++ h :: post) = some o ∧ called (pre ++ h :: post) = pre.length + 1 := by
    induction pre with
    | nil =>
      rcases ho with ⟨rfl, v, rfl⟩ | ⟨rfl, e, rfl⟩ <;> simp [outcome, called]
    | cons x xs ih =>
      have hx : x = Hook.none := hpre x (List.mem_cons_self ..)
      subst hx
      have := ih (fun y hy => hpre y (List.mem_cons_of_mem _ hy))
      simp [outcome, called, this.1, this.2]
  rw [C14_order]
  rcases hc with h' | h' <;> subst h' <;> simp [spec, hout.1, hout.2] <;> omega

/-- no hook answers: the alternate, or `TypeError("Could not adapt", …)` -/
theorem C14_alternate (conf : Conform) (hooks : List Hook) (alt : Option V)
    (hc : conf = .absent ∨ conf = .returnsNone) (hh : ∀ x ∈ hooks, x = Hook.none) :
    (callPy conf false hooks alt none).1 = (match alt with | some a => .val a | none => .couldNotAdapt) := by
  have hout : outcome hooks = none := by
    induction hooks with
    | nil => rfl
    | cons x xs ih =>
      have hx : x = Hook.none := hh x (List.mem_cons_self ..)
      subst hx
      simpa [outcome] using ih (fun y hy => hh y (List.mem_cons_of_mem _ hy))
  rw [C14_order]
  rcases hc with h' | h' <;> subst h' <;> cases alt <;> simp [spec, hout]

/-- **C14_custom**: with `interfacemethod __adapt__` neither the provided-check nor any hook is consulted -/
theorem C14_custom (conf : Conform) (provided : Bool) (hooks : List Hook) (alt : Option V) (c : Hook) :
    callPy conf provided hooks alt (some c) = callPy conf false [] alt (some c) ∧
    (∀ k, Ev.hook k ∉ (callPy conf provided hooks alt (some c)).2) ∧
    Ev.providedCheck ∉ (callPy conf provided hooks alt (some c)).2 := by
  refine ⟨callPy_custom conf provided hooks [] alt c false, ?_, ?_⟩ <;>
    cases conf <;> cases c <;> cases alt <;> simp [callPy, adaptCustom]

/-- **C14_registry**: with a registry's `adapter_hook` as the only hook (it returns the adapter `queryAdapter` finds, or
None), `I(obj, alt)` is `queryAdapter(obj, I, default=alt)` whenever `__conform__` does not answer and `obj` does not
provide `I` -/
theorem C14_registry (conf : Conform) (q : Option V) (alt : Option V) (hc : conf = .absent ∨ conf = .returnsNone) :
    (callPy conf false [match q with | some v => Hook.value v | none => Hook.none] alt none).1 =
      (match q, alt with | some v, _ => .val v | none, some a => .val a | none, none => .couldNotAdapt) := by
  rw [C14_order]
  rcases hc with h | h <;> subst h <;> cases q <;> cases alt <;> simp [spec, outcome, called]

/-- **C14_twin**: the C accelerator and the Python reference agree on result and call log -/
theorem C14_twin (conf : Conform) (provided : Bool) (hooks : List Hook) (alt : Option V) (custom : Option Hook) :
    callC conf provided hooks alt custom = callPy conf provided hooks alt custom :=
  callC_eq_callPy conf provided hooks alt custom

/-- non-vacuity: second hook answers after the first returned None; third never runs -/
example : callPy .returnsNone false [.none, .value 7, .raises 9] (some 1) none =
    (.val 7, [.conform, .providedCheck, .hook 0, .hook 1]) := by decide
end ZI.Adapt
