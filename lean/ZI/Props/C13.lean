import ZI.PickleModel
/-! # C13 — specifications pickle by reference and unpickle to the equivalent live object

Model: `ZI.Pickle` — the per-class state `Implements.__reduce__` reads (`inherit`, `_implements_for`) under every history
of specification-creating and declaration calls; the shape of every reduction (`Red`: names and references only).
CPython's `pickle` (global lookup by module and name, calling the named constructor with the unpickled arguments) is
modelled, not verified; the round trips themselves are executed for protocols 0–5 on every run. -/
namespace ZI.Pickle

/-- the invariant of the repaired code: the specification of class `c` records `c` for pickling, and its `inherit` is
`c` or (after an *only* form) None -/
def Inv (w : W) : Prop := ∀ c s, w c = some s → s.implFor = some c ∧ (s.inherit = some c ∨ s.inherit = none)

theorem inv_create (w : W) (c : Cls) (h : Inv w) : Inv (create true w c) := by
  intro d s hs
  unfold create at hs
  by_cases hd : d = c
  · subst hd
    simp only [if_true] at hs
    cases hw : w d with
    | some s0 => rw [hw] at hs; simp at hs; subst hs; exact h d s0 hw
    | none => rw [hw] at hs; simp at hs; subst hs; exact ⟨rfl, Or.inl rfl⟩
  · simp only [hd, if_false] at hs; exact h d s hs

theorem inv_step (w : W) (op : Op) (h : Inv w) : Inv (step true w op) := by
  cases op with
  | implementedBy c => exact inv_create w c h
  | classImplements c => exact inv_create w c h
  | classImplementsOnly c =>
    intro d s hs
    simp only [step] at hs
    by_cases hd : d = c
    · subst hd
      simp only [if_true] at hs
      cases hc : create true w d d with
      | none => rw [hc] at hs; simp at hs
      | some s0 =>
        rw [hc] at hs; simp at hs; subst hs
        exact ⟨(inv_create w d h d s0 hc).1, Or.inr rfl⟩
    · simp only [hd, if_false] at hs
      exact inv_create w c h d s hs

theorem inv_run (ops : List Op) : Inv (run true ops) := by
  unfold run
  suffices h : ∀ w, Inv w → Inv (ops.foldl (step true) w) from h _ (fun c s hs => by simp at hs)
  induction ops with
  | nil => intro w h; exact h
  | cons op rest ih => intro w h; exact ih _ (inv_step w op h)

/-- **C13_implements**: after ANY history of declaration calls (inherited, `implementer`, `classImplementsFirst`, the
*only* forms, in any order and number), the specification of every class reduces to `implementedBy(<that class>)` — so
unpickling, which calls `implementedBy` on the class found by name, returns the identical live specification -/
theorem C13_implements (ops : List Op) (c : Cls) (s : ImplSpec) (h : run true ops c = some s) :
    reduce true s = some c := by
  obtain ⟨h1, h2⟩ := inv_run ops c s h
  unfold reduce
  rcases h2 with h2 | h2 <;> simp [h2, h1]

/-- the pinned commit violated it for every class declared with an *only* form: the specification reduced to
`implementedBy(None)`, which unpickles as the empty declaration -/
theorem C13_pinned_violates :
    (run false [.classImplements 1, .classImplementsOnly 1] 1).map (reduce false) = some none ∧
    (run true [.classImplements 1, .classImplementsOnly 1, .classImplementsOnly 1] 1).map (reduce true) = some (some 1) := by
  decide

/-- **C13_names_only**: a reduction consists of global names and references to classes / interfaces (themselves pickled
by reference) — by construction of `Red` there is nothing else it could carry -/
theorem C13_names_only (r : Red) :
    (∃ m n, r = .globalName m n) ∨ (∃ a, r = .implementedBy a) ∨ (∃ l, r = .provides l) ∨ (∃ l, r = .classProvides l) ∨ r = .empty := by
  cases r with
  | globalName m n => exact Or.inl ⟨m, n, rfl⟩
  | implementedBy a => exact Or.inr (Or.inl ⟨a, rfl⟩)
  | provides l => exact Or.inr (Or.inr (Or.inl ⟨l, rfl⟩))
  | classProvides l => exact Or.inr (Or.inr (Or.inr (Or.inl ⟨l, rfl⟩)))
  | empty => exact Or.inr (Or.inr (Or.inr (Or.inr rfl)))
end ZI.Pickle
