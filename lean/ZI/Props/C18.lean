import ZI.MethodModel
/-! # C18 — method descriptions mirror the described function's real signature

Model: `ZI.Method.fromFunction` (index arithmetic over `co_argcount`, `co_kwonlyargcount`, `co_varnames`, `co_flags`,
`__defaults__`, `imlevel`), `fromMethod`, `sigString`.  `Layout` is CPython's layout of `co_varnames`:
dropped leading names (`self`), the remaining positional names, keyword-only names, `*` name, `**` name, locals. -/
namespace ZI.Method

/-- the declarative description of a signature: the last `nd` positional parameters carry the last `nd` defaults -/
def describe (pos : List String) (defaults : List Nat) (star dstar : Option String) : Info :=
  let nd := min defaults.length pos.length
  { positional := pos
    required := pos.take (pos.length - nd)
    optional := List.zip (pos.drop (pos.length - nd)) (defaults.drop (defaults.length - nd))
    varargs := star
    kwargs := dstar }

/-- **C18_info**: for every code object laid out as CPython lays them out — any number of positional-only /
positional parameters, defaults, keyword-only parameters, `*args`, `**kw`, locals — `fromFunction` with `imlevel`
leading names dropped reports exactly the positional names in order, which are required, the defaults of the
optional ones and the actual `*` / `**` names (or None) -/
theorem C18_info (c : Code) (lead pos kw : List String) (star dstar : Option String) (locals : List String)
    (h : Layout c lead pos kw star dstar locals) :
    fromFunction c lead.length = describe pos c.defaults star dstar := by
  obtain ⟨hn, hp, hk, hs, hd⟩ := h
  have hlead : min lead.length c.argcount = lead.length := Nat.min_eq_left (by omega)
  have hna : c.argcount - lead.length = pos.length := by omega
  have hdrop : c.varnames.drop lead.length = pos ++ (kw ++ star.toList ++ dstar.toList ++ locals) := by
    rw [hn]; simp [List.append_assoc]
  simp only [fromFunction, fromFunctionV, describe, hlead, hna, hdrop, if_true]
  have hnd : min c.defaults.length pos.length ≤ pos.length := Nat.min_le_right _ _
  congr 1
  · rw [List.take_append_of_le_length (Nat.le_refl _), List.take_length]
  · rw [List.take_append_of_le_length (by omega)]
  · -- optional: zip truncates at the number of defaults kept, all of which fall inside `pos`
    rw [List.drop_append_of_le_length (by omega)]
    have hlen : (c.defaults.drop (c.defaults.length - min c.defaults.length pos.length)).length =
        (pos.drop (pos.length - min c.defaults.length pos.length)).length := by
      simp only [List.length_drop]; omega
    have hz := @List.zip_append _ _ (pos.drop (pos.length - min c.defaults.length pos.length))
      (kw ++ star.toList ++ dstar.toList ++ locals)
      (c.defaults.drop (c.defaults.length - min c.defaults.length pos.length)) [] hlen.symm
    simpa using hz
  · cases star with
    | none => simp [hs]
    | some a =>
      have e : pos ++ (kw ++ [a] ++ dstar.toList ++ locals) = (pos ++ kw) ++ (a :: (dstar.toList ++ locals)) := by
        simp [List.append_assoc]
      simp only [hs, Option.isSome_some, if_true, Option.toList_some, Version.noConfusion, if_false]
      rw [e, List.getElem?_append_right (by simp; omega)]
      have hz : ∀ n, n = 0 → (a :: (dstar.toList ++ locals))[n]? = some a := by intro n h; subst h; rfl
      apply hz; simp; omega
  · cases dstar with
    | none => simp [hd]
    | some b =>
      simp only [hd, Option.isSome_some, if_true]
      cases star with
      | none =>
        have e : pos ++ (kw ++ [] ++ [b] ++ locals) = (pos ++ kw) ++ (b :: locals) := by simp [List.append_assoc]
        simp only [hs, Option.isSome_none, Bool.false_eq_true, if_false, Option.toList_none, Option.toList_some,
          Nat.add_zero, Version.noConfusion]
        rw [e, List.getElem?_append_right (by simp; omega)]
        have hz : ∀ n, n = 0 → (b :: locals)[n]? = some b := by intro n h; subst h; rfl
        apply hz; simp; omega
      | some a =>
        have e : pos ++ (kw ++ [a] ++ [b] ++ locals) = (pos ++ kw ++ [a]) ++ (b :: locals) := by simp [List.append_assoc]
        simp only [hs, Option.isSome_some, if_true, Option.toList_some, Version.noConfusion, if_false]
        rw [e, List.getElem?_append_right (by simp; omega)]
        have hz : ∀ n, n = 0 → (b :: locals)[n]? = some b := by intro n h; subst h; rfl
        apply hz; simp; omega

/-- **C18_method**: a bound method is described like its function with exactly the leading `self` removed -/
theorem C18_method (c : Code) (self : String) (pos kw : List String) (star dstar : Option String) (locals : List String)
    (h : Layout c [self] pos kw star dstar locals) :
    fromMethod c = describe pos c.defaults star dstar := C18_info c [self] pos kw star dstar locals h

/-- … and a method whose `self` is absorbed by `*args` (no positional parameter at all) loses nothing -/
theorem C18_method_star (c : Code) (kw : List String) (star dstar : Option String) (locals : List String)
    (h : Layout c [] [] kw star dstar locals) :
    fromMethod c = describe [] c.defaults star dstar := by
  have h0 : c.argcount = 0 := by have := h.npos; simpa using this.symm
  have : fromMethod c = fromFunction c 0 := by
    simp [fromMethod, fromFunction, fromFunctionV, h0]
  rw [this]; exact C18_info c [] [] kw star dstar locals h

/-- the rendering the statement asks for: required names bare, optional ones `name=repr(default)`, then `*a`, `**k` -/
def renderSpec (reprOf : Nat → String) (pos : List String) (defaults : List Nat) (star dstar : Option String) : String :=
  let nd := min defaults.length pos.length
  let req := pos.take (pos.length - nd)
  let opt := List.zip (pos.drop (pos.length - nd)) (defaults.drop (defaults.length - nd))
  let parts := req ++ opt.map (fun p => p.1 ++ "=" ++ reprOf p.2)
  let parts := parts ++ (match star with | some a => if a == "" then [] else ["*" ++ a] | none => [])
  let parts := parts ++ (match dstar with | some k => if k == "" then [] else ["**" ++ k] | none => [])
  "(" ++ ", ".intercalate parts ++ ")"

theorem find_zip_of_nodup {f : Nat → String} (l : List String) (ds : List Nat) (hl : l.Nodup) (hlen : ds.length = l.length) :
    l.map (renderName f (List.zip l ds)) = (List.zip l ds).map (fun p => p.1 ++ "=" ++ f p.2) := by
  induction l generalizing ds with
  | nil => simp
  | cons x xs ih =>
    cases ds with
    | nil => simp at hlen
    | cons d ds =>
      have hx := List.nodup_cons.mp hl
      simp only [List.zip_cons_cons, List.map_cons]
      congr 1
      · simp [renderName]
      · rw [← ih ds hx.2 (by simpa using hlen)]
        apply List.map_congr_left
        intro v hv
        have : (x == v) = false := by
          simp only [beq_eq_false_iff_ne]; intro e; subst e; exact hx.1 hv
        simp [renderName, List.find?_cons, this]

theorem find_zip_none (l m : List String) (ds : List Nat) (v : String) (hv : v ∈ l) (hd : ∀ x ∈ l, x ∉ m) :
    (List.zip m ds).find? (·.1 == v) = none := by
  rw [List.find?_eq_none]
  intro p hp
  have : p.1 ∈ m := (List.of_mem_zip hp).1
  simp only [beq_iff_eq]
  intro e; exact hd v hv (e ▸ this)

/-- **C18_string**: `getSignatureString` renders exactly the described signature (parameter names are distinct, as
Python requires) -/
theorem C18_string (reprOf : Nat → String) (pos : List String) (defaults : List Nat) (star dstar : Option String)
    (hnd : pos.Nodup) :
    sigString reprOf (describe pos defaults star dstar) = renderSpec reprOf pos defaults star dstar := by
  generalize hk : min defaults.length pos.length = nd
  have hle : nd ≤ pos.length := by omega
  have hle2 : nd ≤ defaults.length := by omega
  have hsplit : pos = pos.take (pos.length - nd) ++ pos.drop (pos.length - nd) := (List.take_append_drop _ pos).symm
  have hnd' : (pos.take (pos.length - nd) ++ pos.drop (pos.length - nd)).Nodup := hsplit ▸ hnd
  obtain ⟨_, h2, h3⟩ := List.nodup_append.mp hnd'
  let Z := List.zip (pos.drop (pos.length - nd)) (defaults.drop (defaults.length - nd))
  let F : String → String := renderName reprOf Z
  have hA : (pos.take (pos.length - nd)).map F = pos.take (pos.length - nd) := by
    conv => rhs; rw [← List.map_id (pos.take (pos.length - nd))]
    apply List.map_congr_left
    intro v hv
    show renderName reprOf Z v = id v
    unfold renderName
    rw [find_zip_none (pos.take (pos.length - nd)) _ _ v hv (fun x hx hx' => h3 x hx x hx' rfl)]
    rfl
  have hB : (pos.drop (pos.length - nd)).map F = Z.map (fun p => p.1 ++ "=" ++ reprOf p.2) :=
    find_zip_of_nodup (f := reprOf) _ _ h2 (by simp only [List.length_drop]; omega)
  have hmain : pos.map F = pos.take (pos.length - nd) ++ Z.map (fun p => p.1 ++ "=" ++ reprOf p.2) := by
    calc pos.map F = (pos.take (pos.length - nd) ++ pos.drop (pos.length - nd)).map F := congrArg (List.map F) hsplit
      _ = (pos.take (pos.length - nd)).map F ++ (pos.drop (pos.length - nd)).map F := List.map_append
      _ = _ := by rw [hA, hB]
  simp only [sigString, describe, renderSpec, hk]
  simp only [F, Z] at hmain
  rw [hmain]
  cases star <;> cases dstar <;> rfl

/-- the pinned commit violated the statement: `def f(a, b=1, *args, k=1, **kw)` was described as `(a, b=1, *k, **args)` -/
def fCode : Code := ⟨2, 1, ["a", "b", "k", "args", "kw"], true, true, [1]⟩
theorem C18_pinned_violates :
    (fromFunctionV .pinned fCode 0).varargs = some "k" ∧ (fromFunctionV .pinned fCode 0).kwargs = some "args" ∧
    (fromFunction fCode 0).varargs = some "args" ∧ (fromFunction fCode 0).kwargs = some "kw" := by decide

/-- … and so did the next version for a method whose `self` is absorbed by `*args`: `def m(*args, **kw)` -/
def mCode : Code := ⟨0, 0, ["args", "kw"], true, true, []⟩
theorem C18_kwonlyFixed_violates :
    (fromFunctionV .kwonlyFixed mCode 1).varargs = some "kw" ∧ (fromMethod mCode).varargs = some "args" ∧
    (fromMethod mCode).kwargs = some "kw" := by decide

/-- the layout premises are satisfiable: `def m(self, a, b=7, /, c=8, *rest, k, **kw): x = 1` -/
example : Layout ⟨4, 1, ["self", "a", "b", "c", "k", "rest", "kw", "x"], true, true, [7, 8]⟩
    ["self"] ["a", "b", "c"] ["k"] (some "rest") (some "kw") ["x"] := ⟨rfl, rfl, rfl, rfl, rfl⟩
example : sigString toString (fromMethod ⟨4, 1, ["self", "a", "b", "c", "k", "rest", "kw", "x"], true, true, [7, 8]⟩) =
    "(a, b=7, c=8, *rest, **kw)" := by decide
end ZI.Method
