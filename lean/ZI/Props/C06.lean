import ZI.Registry
import ZI.Fresh
/-! # C06 — registries consult exactly their current base chain, in resolution order

Model: `ZI.Registry` (the model the registry-layer correspondence validates on every run).  Theorem of this file, for the
notifying flavour (`AdapterRegistry`): after ANY history of registry operations whose re-basings keep the base graph
acyclic, every registry that has been given bases holds, in `ro`, exactly the order `ro.ro` computes from the CURRENT base
graph (`roFull (regBases w)`, which `C03_ro_eq_c3` / `roFull_valid` relate to C3).  The lookup functions walk that `ro`.

The generation-checking flavour re-derives `ro` inside every change notification and inside `_verify`; for it the file
proves what holds right after a notification (`verifyingChanged_fresh`) — the argument that an unchanged generation
snapshot implies unchanged ancestors' bases needs a ghost history and is not carried (listed as not proved). -/
namespace ZI.Registry
open ZI.RO
local notation "Id" => Nat

/-! ### the registry table as a function -/
theorem find_map_set_same (ps : List (Nat × Reg)) (k : Nat) (v : Reg) (h : ps.any (·.1 == k) = true) :
    ((ps.map (fun p => if p.1 == k then (k, v) else p)).find? (·.1 == k)).map (·.2) = some v := by
  induction ps with
  | nil => simp at h
  | cons p ps ih =>
    cases hpk : (p.1 == k) with
    | true =>
      rw [List.map_cons, hpk, if_pos rfl, List.find?_cons_of_pos (by simp)]; rfl
    | false =>
      have h' : ps.any (·.1 == k) = true := by
        rw [List.any_cons, hpk, Bool.false_or] at h; exact h
      rw [List.map_cons, hpk, if_neg (by simp), List.find?_cons_of_neg (by simp [hpk])]
      exact ih h'

theorem find_map_set_ne (ps : List (Nat × Reg)) (k k' : Nat) (v : Reg) (hk : (k == k') = false) :
    ((ps.map (fun p => if p.1 == k then (k, v) else p)).find? (·.1 == k')).map (·.2) = (ps.find? (·.1 == k')).map (·.2) := by
  induction ps with
  | nil => rfl
  | cons p ps ih =>
    cases hpk : (p.1 == k) with
    | true =>
      have e : p.1 = k := by simpa using hpk
      have hq : (p.1 == k') = false := by rw [e]; exact hk
      rw [List.map_cons, hpk, if_pos rfl, List.find?_cons_of_neg (by simp [hk]), List.find?_cons_of_neg (by simp [hq])]
      exact ih
    | false =>
      rw [List.map_cons, hpk, if_neg (by simp)]
      cases hq : (p.1 == k') with
      | true => rw [List.find?_cons_of_pos (by simp [hq]), List.find?_cons_of_pos (by simp [hq])]
      | false => rw [List.find?_cons_of_neg (by simp [hq]), List.find?_cons_of_neg (by simp [hq])]; exact ih
theorem alist_get?_set_same (m : AList Nat Reg) (k : Nat) (v : Reg) : AList.get? (AList.set m k v) k = some v := by
  unfold AList.get? AList.set
  split
  · rename_i h; exact find_map_set_same m k v h
  · rename_i h
    have hnone : m.find? (·.1 == k) = none := by
      rw [List.find?_eq_none]; intro x hx
      simp only [List.any_eq_true, not_exists, not_and] at h
      exact h x hx
    simp [List.find?_append, hnone]

theorem alist_get?_set_ne (m : AList Nat Reg) {k k' : Nat} (hk : k' ≠ k) (v : Reg) :
    AList.get? (AList.set m k v) k' = AList.get? m k' := by
  unfold AList.get? AList.set
  have hkk : (k == k') = false := by simpa using fun e => hk e.symm
  split
  · exact find_map_set_ne m k k' v hkk
  · have : ¬ k = k' := fun e => hk e.symm
    simp [List.find?_append, this]

theorem reg_setReg_same (w : World) (r : Nat) (x : Reg) : (w.setReg r x).reg r = x := by
  simp [World.reg, World.setReg, alist_get?_set_same]

theorem reg_setReg_ne (w : World) {r r' : Nat} (h : r' ≠ r) (x : Reg) : (w.setReg r x).reg r' = w.reg r' := by
  simp [World.reg, World.setReg, alist_get?_set_ne _ h]

@[simp] theorem verifying_setReg (w : World) (r : Nat) (x : Reg) : (w.setReg r x).verifying = w.verifying := rfl

/-- the part of a registry's state the resolution order lives in -/
structure SameStr (w w' : World) : Prop where
  verifying : w'.verifying = w.verifying
  bases : ∀ x, (w'.reg x).bases = (w.reg x).bases
  ro : ∀ x, (w'.reg x).ro = (w.reg x).ro
  subregs : ∀ x, (w'.reg x).subregs = (w.reg x).subregs

theorem SameStr.refl (w : World) : SameStr w w := ⟨rfl, fun _ => rfl, fun _ => rfl, fun _ => rfl⟩
theorem SameStr.trans {a b c : World} (h1 : SameStr a b) (h2 : SameStr b c) : SameStr a c :=
  ⟨h2.verifying.trans h1.verifying, fun x => (h2.bases x).trans (h1.bases x), fun x => (h2.ro x).trans (h1.ro x),
   fun x => (h2.subregs x).trans (h1.subregs x)⟩

/-- replacing a registry's record by one with the same bases / ro / subregs -/
theorem sameStr_setReg (w : World) (r : Nat) (x : Reg) (hb : x.bases = (w.reg r).bases) (hr : x.ro = (w.reg r).ro)
    (hs : x.subregs = (w.reg r).subregs) : SameStr w (w.setReg r x) := by
  refine ⟨rfl, fun y => ?_, fun y => ?_, fun y => ?_⟩ <;>
  · by_cases h : y = r
    · subst h; rw [reg_setReg_same]; assumption
    · rw [reg_setReg_ne _ h]

theorem foldl_sameStr {α} (f : World → α → World) (h : ∀ w a, SameStr w (f w a)) : ∀ (l : List α) (w : World), SameStr w (l.foldl f w)
  | [], w => SameStr.refl w
  | a :: l, w => (h w a).trans (foldl_sameStr f h l (f w a))

/-- a change notification of the notifying flavour touches generations and caches only -/
theorem changed_sameStr : ∀ (f : Nat) (w : World) (r : Nat), w.verifying = false → SameStr w (changed f w r)
  | 0, w, _, _ => SameStr.refl w
  | f+1, w, r, hv => by
    unfold changed
    simp only [verifying_setReg, hv, Bool.false_eq_true, if_false]
    have h1 : SameStr w (w.setReg r { w.reg r with generation := (w.reg r).generation + 1 }) :=
      sameStr_setReg w r _ rfl rfl rfl
    have h2 : SameStr (w.setReg r { w.reg r with generation := (w.reg r).generation + 1 })
        ((w.setReg r { w.reg r with generation := (w.reg r).generation + 1 }).setReg r
          (clearCaches ((w.setReg r { w.reg r with generation := (w.reg r).generation + 1 }).reg r))) :=
      sameStr_setReg _ r _ rfl rfl rfl
    refine (h1.trans h2).trans ?_
    generalize hw2 : ((w.setReg r { w.reg r with generation := (w.reg r).generation + 1 }).setReg r
          (clearCaches ((w.setReg r { w.reg r with generation := (w.reg r).generation + 1 }).reg r))) = w2
    have hv2 : w2.verifying = false := by rw [← hw2]; simpa using hv
    -- the cascade into the sub-registries
    have : ∀ (l : List Nat) (w' : World), w'.verifying = false → SameStr w' (l.foldl (fun w s => changed f w s) w') := by
      intro l
      induction l with
      | nil => intro w' _; exact SameStr.refl w'
      | cons s l ih =>
        intro w' hv'
        have hs := changed_sameStr f w' s hv'
        exact hs.trans (ih _ (hs.verifying.trans hv'))
    exact this _ w2 hv2

/-! ### `ro.ro` only looks at the base lists of what it reaches -/
theorem roFull_congr {B B' : Bases} : ∀ (f : Nat) (c : Id), (∀ x, Reach B c x → B x = B' x) → roFull B f c = roFull B' f c := by
  intro f
  induction f with
  | zero => intro c _; rfl
  | succ f ih =>
    intro c h
    show c3Node B (legacyRo B (f+1)) (roFull B f) c = c3Node B' (legacyRo B' (f+1)) (roFull B' f) c
    have hleg : legacyRo B (f+1) c = legacyRo B' (f+1) c := by
      unfold legacyRo; rw [flatten_congr (f+1) c h]
    have hb : ∀ b ∈ B c, roFull B f b = roFull B' f b := fun b hb => ih b (fun x hx => h x (Reach.step hb hx))
    rw [c3Node_congr (legacyRo B (f+1)) (legacyRo B' (f+1)) _ _ c hleg hb]
    have hc : B c = B' c := h c (Reach.refl c)
    unfold c3Node; rw [hc]

def updB (B : Bases) (r : Id) (bs : List Id) : Bases := fun x => if x = r then bs else B x

/-- a path to `r` survives the re-basing of `r` (cut it at its first visit of `r`) -/
theorem reach_updB {B : Bases} {r : Id} (bs : List Id) {x : Id} (h : Reach B x r) : Reach (updB B r bs) x r := by
  induction h with
  | refl s => exact Reach.refl s
  | @step s b t hb _ ih =>
    by_cases hs : s = t
    · subst hs; exact Reach.refl s
    · exact Reach.step (by simp [updB, hs]; exact hb) ih

/-- … so a registry from which `r` cannot be reached keeps its `ro.ro` -/
theorem roFull_updB_of_not_reach {B : Bases} {r : Id} (bs : List Id) (f : Nat) {x : Id} (h : ¬ Reach (updB B r bs) x r) :
    roFull B f x = roFull (updB B r bs) f x := by
  apply roFull_congr
  intro y hy
  have : y ≠ r := fun e => h (reach_updB bs (e ▸ hy))
  simp [updB, this]

/-- descendants at distance `n`: `Desc B n r x` = a chain `x → … → r` of `n` base links -/
inductive Desc (B : Bases) : Nat → Id → Id → Prop
  | zero (r) : Desc B 0 r r
  | succ {n r s x} : r ∈ B s → Desc B n s x → Desc B (n+1) r x

theorem desc_of_reach {B : Bases} {x r : Id} (h : Reach B x r) : ∃ n, Desc B n r x := by
  induction h with
  | refl s => exact ⟨0, Desc.zero s⟩
  | @step s b t hb _ ih =>
    obtain ⟨n, hn⟩ := ih
    -- extend the chain at its far end
    have ext : ∀ (n : Nat) (t y : Id), Desc B n t y → y ∈ B s → Desc B (n+1) t s := by
      intro n
      induction n with
      | zero => intro t y hd hy; cases hd; exact Desc.succ hy (Desc.zero s)
      | succ n ihn =>
        intro t y hd hy
        cases hd with
        | succ hts hd' => exact Desc.succ hts (ihn _ _ hd' hy)
    exact ⟨n+1, ext n t b hn hb⟩

theorem desc_rank {B : Bases} {rank : Id → Nat} (ha : Acyclic B rank) : ∀ {n r x}, Desc B n r x → rank r + n ≤ rank x := by
  intro n r x h
  induction h with
  | zero r => simp
  | @succ n r s x hrs _ ih => have := ha s r hrs; omega

/-! ### `_setBases` of one registry, and the sub-registry bookkeeping -/
def FreshAt (B : Bases) (fuel : Nat) (w : World) (x : Nat) : Prop := (w.reg x).ro = (roFull B fuel x).mro

theorem regBases_setReg_bases (w : World) (r : Nat) (bs : List Nat) :
    regBases (w.setReg r { w.reg r with bases := bs }) = updB (regBases w) r bs := by
  funext x
  by_cases h : x = r
  · subst h; simp [regBases, updB, reg_setReg_same]
  · simp [regBases, updB, h, reg_setReg_ne _ h]

structure OwnSpec (fuel : Nat) (w : World) (r : Nat) (bs : List Nat) (w' : World) : Prop where
  verifying : w'.verifying = false
  bases : regBases w' = updB (regBases w) r bs
  ro_self : FreshAt (updB (regBases w) r bs) fuel w' r
  ro_other : ∀ x, x ≠ r → (w'.reg x).ro = (w.reg x).ro
  subregs : ∀ x, (w'.reg x).subregs = (w.reg x).subregs

theorem setBasesOwn_spec (fuel : Nat) (w : World) (r : Nat) (bs : List Nat) (hv : w.verifying = false) :
    OwnSpec fuel w r bs (setBasesOwn fuel w r bs) := by
  have e : setBasesOwn fuel w r bs = changed fuel ((w.setReg r { w.reg r with bases := bs }).setReg r
      { (w.setReg r { w.reg r with bases := bs }).reg r with
        ro := (roFull (regBases (w.setReg r { w.reg r with bases := bs })) fuel r).mro }) r := rfl
  rw [e]
  generalize hw1 : w.setReg r { w.reg r with bases := bs } = w1
  have hb1 : regBases w1 = updB (regBases w) r bs := by rw [← hw1]; exact regBases_setReg_bases w r bs
  have hv1 : w1.verifying = false := by rw [← hw1]; exact hv
  generalize hw2 : w1.setReg r { w1.reg r with ro := (roFull (regBases w1) fuel r).mro } = w2
  have hv2 : w2.verifying = false := by rw [← hw2]; exact hv1
  have hs := changed_sameStr fuel w2 r hv2
  have reg2 : ∀ x, x ≠ r → w2.reg x = w.reg x := by
    intro x hx; rw [← hw2, reg_setReg_ne _ hx, ← hw1, reg_setReg_ne _ hx]
  have reg2r : w2.reg r = { w1.reg r with ro := (roFull (regBases w1) fuel r).mro } := by rw [← hw2, reg_setReg_same]
  have reg1r : w1.reg r = { w.reg r with bases := bs } := by rw [← hw1, reg_setReg_same]
  refine ⟨hs.verifying.trans hv2, ?_, ?_, ?_, ?_⟩
  · funext x
    show ((changed fuel w2 r).reg x).bases = _
    rw [hs.bases x, ← hb1]
    by_cases hx : x = r
    · subst hx; rw [reg2r]; rfl
    · rw [reg2 x hx]; simp [regBases, ← hw1, reg_setReg_ne _ hx]
  · show ((changed fuel w2 r).reg r).ro = _
    rw [hs.ro r, reg2r, hb1]
  · intro x hx; rw [hs.ro x, reg2 x hx]
  · intro x
    rw [hs.subregs x]
    by_cases hx : x = r
    · subst hx; rw [reg2r, reg1r]
    · rw [reg2 x hx]

/-- one step of the two folds of `moveSubreg` -/
def stepSub (c : Nat → Bool) (g : List Nat → List Nat) (w : World) (b : Nat) : World :=
  if c b then w else w.setReg b { w.reg b with subregs := g (w.reg b).subregs }

theorem stepSub_reg (c : Nat → Bool) (g : List Nat → List Nat) (w : World) (b x : Nat) :
    (stepSub c g w b).reg x = if x = b ∧ c b = false then { w.reg x with subregs := g (w.reg x).subregs } else w.reg x := by
  unfold stepSub
  cases hc : c b with
  | true => simp
  | false =>
    by_cases hx : x = b
    · subst hx; simp [reg_setReg_same]
    · simp [hx, reg_setReg_ne _ hx]

/-- what a fold of such steps preserves / establishes, for `g` that keeps every member other than `r` -/
theorem foldl_stepSub (c : Nat → Bool) (g : List Nat → List Nat) (r : Nat)
    (hg : ∀ L s, s ≠ r → (s ∈ g L ↔ s ∈ L)) :
    ∀ (l : List Nat) (w : World),
      let w' := l.foldl (stepSub c g) w
      w'.verifying = w.verifying ∧ (∀ x, (w'.reg x).bases = (w.reg x).bases) ∧ (∀ x, (w'.reg x).ro = (w.reg x).ro) ∧
      (∀ b s, s ≠ r → (s ∈ (w'.reg b).subregs ↔ s ∈ (w.reg b).subregs)) ∧
      (∀ b, c b = true → (w'.reg b).subregs = (w.reg b).subregs) := by
  intro l
  induction l with
  | nil => intro w; exact ⟨rfl, fun _ => rfl, fun _ => rfl, fun _ _ _ => Iff.rfl, fun _ _ => rfl⟩
  | cons a l ih =>
    intro w
    obtain ⟨h1, h2, h3, h4, h5⟩ := ih (stepSub c g w a)
    have hv : (stepSub c g w a).verifying = w.verifying := by unfold stepSub; split <;> rfl
    refine ⟨h1.trans hv, fun x => ?_, fun x => ?_, fun b s hs => ?_, fun b hb => ?_⟩
    · rw [List.foldl_cons, h2 x, stepSub_reg]; split <;> rfl
    · rw [List.foldl_cons, h3 x, stepSub_reg]; split <;> rfl
    · rw [List.foldl_cons, h4 b s hs, stepSub_reg]
      split
      · exact hg _ s hs
      · exact Iff.rfl
    · rw [List.foldl_cons, h5 b hb, stepSub_reg]
      have : ¬ (b = a ∧ c a = false) := fun ⟨e, hca⟩ => by rw [← e, hb] at hca; cases hca
      rw [if_neg this]

/-- … and for a `g` whose result always contains `r` -/
theorem foldl_stepSub_r (c : Nat → Bool) (g : List Nat → List Nat) (r : Nat) (hgr : ∀ L, r ∈ g L) :
    ∀ (l : List Nat) (w : World),
      let w' := l.foldl (stepSub c g) w
      (∀ b, r ∈ (w.reg b).subregs → r ∈ (w'.reg b).subregs) ∧ (∀ b ∈ l, c b = false → r ∈ (w'.reg b).subregs) := by
  intro l
  induction l with
  | nil => intro w; exact ⟨fun _ h => h, fun _ h => by cases h⟩
  | cons a l ih =>
    intro w
    obtain ⟨h1, h2⟩ := ih (stepSub c g w a)
    have keep : ∀ b, r ∈ (w.reg b).subregs → r ∈ ((stepSub c g w a).reg b).subregs := by
      intro b hb; rw [stepSub_reg]; split
      · exact hgr _
      · exact hb
    refine ⟨fun b hb => h1 b (keep b hb), fun b hb hcb => ?_⟩
    rw [List.foldl_cons]
    rcases List.mem_cons.mp hb with e | hb'
    · subst e
      apply h1
      rw [stepSub_reg, if_pos ⟨rfl, hcb⟩]; exact hgr _
    · exact h2 b hb' hcb

structure MoveSpec (w : World) (r : Nat) (old bs : List Nat) (w' : World) : Prop where
  verifying : w'.verifying = w.verifying
  bases : ∀ x, (w'.reg x).bases = (w.reg x).bases
  ro : ∀ x, (w'.reg x).ro = (w.reg x).ro
  others : ∀ b s, s ≠ r → (s ∈ (w'.reg b).subregs ↔ s ∈ (w.reg b).subregs)
  added : ∀ b, b ∈ bs → (b ∈ old → r ∈ (w.reg b).subregs) → r ∈ (w'.reg b).subregs

theorem moveSubreg_spec (w : World) (r : Nat) (old bs : List Nat) : MoveSpec w r old bs (moveSubreg w r old bs) := by
  have e : moveSubreg w r old bs =
      bs.foldl (stepSub (fun b => old.contains b) (fun L => L.filter (· != r) ++ [r]))
        (old.foldl (stepSub (fun b => bs.contains b) (fun L => L.filter (· != r))) w) := rfl
  rw [e]
  have hg1 : ∀ (L : List Nat) (s : Nat), s ≠ r → (s ∈ L.filter (· != r) ↔ s ∈ L) := by
    intro L s hs; simp [List.mem_filter, hs]
  have hg2 : ∀ (L : List Nat) (s : Nat), s ≠ r → (s ∈ L.filter (· != r) ++ [r] ↔ s ∈ L) := by
    intro L s hs; simp [List.mem_filter, hs]
  obtain ⟨a1, a2, a3, a4, a5⟩ := foldl_stepSub (fun b => bs.contains b) (fun L => L.filter (· != r)) r hg1 old w
  generalize old.foldl (stepSub (fun b => bs.contains b) (fun L => L.filter (· != r))) w = w1 at a1 a2 a3 a4 a5 ⊢
  obtain ⟨b1, b2, b3, b4, _⟩ := foldl_stepSub (fun b => old.contains b) (fun L => L.filter (· != r) ++ [r]) r hg2 bs w1
  obtain ⟨c1, c2⟩ := foldl_stepSub_r (fun b => old.contains b) (fun L => L.filter (· != r) ++ [r]) r (fun L => by simp) bs w1
  refine ⟨b1.trans a1, fun x => (b2 x).trans (a2 x), fun x => (b3 x).trans (a3 x),
          fun b s hs => (b4 b s hs).trans (a4 b s hs), fun b hb hold => ?_⟩
  by_cases ho : b ∈ old
  · apply c1
    rw [a5 b (by simpa using hb)]
    exact hold ho
  · exact c2 b hb (by simpa using ho)

theorem moveSubreg_self (w : World) (r : Nat) (bs : List Nat) : ∀ x, (moveSubreg w r bs bs).reg x = w.reg x := by
  have e : moveSubreg w r bs bs =
      bs.foldl (stepSub (fun b => bs.contains b) (fun L => L.filter (· != r) ++ [r]))
        (bs.foldl (stepSub (fun b => bs.contains b) (fun L => L.filter (· != r))) w) := rfl
  rw [e]
  have skip : ∀ (g : List Nat → List Nat) (l : List Nat) (w : World), (∀ b ∈ l, b ∈ bs) →
      l.foldl (stepSub (fun b => bs.contains b) g) w = w := by
    intro g l
    induction l with
    | nil => intro w _; rfl
    | cons a l ih =>
      intro w h
      have ha : bs.contains a = true := by simpa using h a (List.mem_cons_self ..)
      rw [List.foldl_cons]
      have : stepSub (fun b => bs.contains b) g w a = w := by unfold stepSub; rw [if_pos ha]
      rw [this]
      exact ih w (fun b hb => h b (List.mem_cons_of_mem _ hb))
  intro x
  rw [skip _ bs _ (fun _ h => h), skip _ bs _ (fun _ h => h)]

/-! ### the cascade of `AdapterRegistry._setBases` into the sub-registries -/
structure PInv (B : Bases) (S : Nat → List Nat) (w : World) : Prop where
  verifying : w.verifying = false
  bases : regBases w = B
  subregs : ∀ x, (w.reg x).subregs = S x

theorem setBasesPush_succ (fuel f : Nat) (w : World) (r : Nat) (bs : List Nat) :
    setBasesPush fuel (f+1) w r bs =
      ((setBasesOwn fuel (moveSubreg w r (w.reg r).bases bs) r bs).reg r).subregs.foldl
        (fun w s => setBasesPush fuel f w s (w.reg s).bases) (setBasesOwn fuel (moveSubreg w r (w.reg r).bases bs) r bs) := rfl

theorem updB_self (B : Bases) (r : Nat) : updB B r (B r) = B := by
  funext x; unfold updB; split
  · rename_i h; rw [h]
  · rfl

/-- every registry's `ro` is either what it was or fresh -/
def Mono (B : Bases) (fuel : Nat) (w w' : World) : Prop := ∀ x, FreshAt B fuel w' x ∨ (w'.reg x).ro = (w.reg x).ro

theorem Mono.refl (B : Bases) (fuel : Nat) (w : World) : Mono B fuel w w := fun _ => Or.inr rfl
theorem Mono.fresh {B : Bases} {fuel : Nat} {w w' : World} (m : Mono B fuel w w') {x : Nat} (h : FreshAt B fuel w x) :
    FreshAt B fuel w' x := by
  rcases m x with h' | h'
  · exact h'
  · unfold FreshAt; rw [h']; exact h
theorem Mono.trans {B : Bases} {fuel : Nat} {a b c : World} (m1 : Mono B fuel a b) (m2 : Mono B fuel b c) : Mono B fuel a c := by
  intro x
  rcases m2 x with h | h
  · exact Or.inl h
  · rcases m1 x with h' | h'
    · left; unfold FreshAt; rw [h]; exact h'
    · right; rw [h, h']

/-- re-running `_setBases` on a registry with the bases it already has: nothing but its `ro` changes, and that becomes fresh -/
theorem refresh_spec {B : Bases} {S : Nat → List Nat} (fuel : Nat) {w : World} (h : PInv B S w) (r : Nat) :
    let w2 := setBasesOwn fuel (moveSubreg w r (w.reg r).bases (B r)) r (B r)
    PInv B S w2 ∧ FreshAt B fuel w2 r ∧ Mono B fuel w w2 := by
  intro w2
  have hbr : (w.reg r).bases = B r := by rw [← h.bases]; rfl
  have hm := moveSubreg_self w r (B r)
  have hmv := (moveSubreg_spec w r (B r) (B r)).verifying
  generalize hw1 : moveSubreg w r (B r) (B r) = w1 at hm hmv
  have hw2 : w2 = setBasesOwn fuel w1 r (B r) := by show setBasesOwn fuel (moveSubreg w r (w.reg r).bases (B r)) r (B r) = _; rw [hbr, hw1]
  have hb1 : regBases w1 = B := by rw [← h.bases]; funext x; simp [regBases, hm x]
  have os := setBasesOwn_spec fuel w1 r (B r) (hmv.trans h.verifying)
  rw [← hw2] at os
  have ob : regBases w2 = B := by rw [os.bases, hb1, updB_self]
  have ofr : FreshAt B fuel w2 r := by have := os.ro_self; rw [hb1, updB_self] at this; exact this
  refine ⟨⟨os.verifying, ob, fun x => ?_⟩, ofr, fun x => ?_⟩
  · rw [os.subregs x, hm x, h.subregs x]
  · by_cases hxr : x = r
    · subst hxr; exact Or.inl ofr
    · right; rw [os.ro_other x hxr, hm x]

/-- the cascade step used by the folds -/
def pushStep (fuel f : Nat) : World → Nat → World := fun w s => setBasesPush fuel f w s (w.reg s).bases

theorem setBasesPush_succ' (fuel f : Nat) (w : World) (r : Nat) (bs : List Nat) :
    setBasesPush fuel (f+1) w r bs =
      ((setBasesOwn fuel (moveSubreg w r (w.reg r).bases bs) r bs).reg r).subregs.foldl (pushStep fuel f)
        (setBasesOwn fuel (moveSubreg w r (w.reg r).bases bs) r bs) := rfl

theorem pushStep_eq {B : Bases} {S : Nat → List Nat} (fuel f : Nat) {w : World} (h : PInv B S w) (s : Nat) :
    pushStep fuel f w s = setBasesPush fuel f w s (B s) := by
  have : (w.reg s).bases = B s := by rw [← h.bases]; rfl
  unfold pushStep; rw [this]

/-- a fold of steps each of which keeps `PInv` and is `Mono` -/
theorem fold_keeps {B : Bases} {S : Nat → List Nat} (fuel f : Nat)
    (step : ∀ (w : World) (s : Nat), PInv B S w → PInv B S (setBasesPush fuel f w s (B s)) ∧ Mono B fuel w (setBasesPush fuel f w s (B s))) :
    ∀ (l : List Nat) (w : World), PInv B S w → PInv B S (l.foldl (pushStep fuel f) w) ∧ Mono B fuel w (l.foldl (pushStep fuel f) w) := by
  intro l
  induction l with
  | nil => intro w h; exact ⟨h, Mono.refl _ _ _⟩
  | cons s l ih =>
    intro w h
    rw [List.foldl_cons, pushStep_eq fuel f h]
    obtain ⟨q1, q2⟩ := step w s h
    obtain ⟨q3, q4⟩ := ih _ q1
    exact ⟨q3, q2.trans q4⟩

theorem push_keeps {B : Bases} {S : Nat → List Nat} (fuel : Nat) : ∀ (f : Nat) (w : World) (r : Nat), PInv B S w →
    PInv B S (setBasesPush fuel f w r (B r)) ∧ Mono B fuel w (setBasesPush fuel f w r (B r)) := by
  intro f
  induction f with
  | zero => intro w r h; exact ⟨h, Mono.refl _ _ _⟩
  | succ f ih =>
    intro w r h
    rw [setBasesPush_succ']
    obtain ⟨p2, _, m2⟩ := refresh_spec fuel h r
    obtain ⟨q1, q2⟩ := fold_keeps fuel f ih _ _ p2
    exact ⟨q1, m2.trans q2⟩

/-- if one element of the list freshens `x` (from any state satisfying `PInv`), the fold does -/
theorem fold_reaches {B : Bases} {S : Nat → List Nat} (fuel f : Nat) (x s : Nat)
    (hit : ∀ w, PInv B S w → FreshAt B fuel (setBasesPush fuel f w s (B s)) x) :
    ∀ (l : List Nat) (w : World), s ∈ l → PInv B S w → FreshAt B fuel (l.foldl (pushStep fuel f) w) x := by
  intro l
  induction l with
  | nil => intro w hs; cases hs
  | cons a l ih =>
    intro w hs h
    rw [List.foldl_cons, pushStep_eq fuel f h]
    obtain ⟨q1, _⟩ := push_keeps fuel f w a h
    rcases List.mem_cons.mp hs with e | hs'
    · subst e
      exact (fold_keeps fuel f (push_keeps fuel f) l _ q1).2.fresh (hit w h)
    · exact ih _ hs' q1

/-- every descendant within reach of the recursion is refreshed -/
theorem push_reaches {B : Bases} {S : Nat → List Nat} (fuel : Nat) (hcons : ∀ s b, b ∈ B s → s ∈ S b) :
    ∀ (n f : Nat) (w : World) (r x : Nat), n + 1 ≤ f → PInv B S w → Desc B n r x →
      FreshAt B fuel (setBasesPush fuel f w r (B r)) x := by
  intro n
  induction n with
  | zero =>
    intro f w r x hf h hd
    cases hd
    obtain ⟨f', rfl⟩ : ∃ f', f = f' + 1 := ⟨f - 1, by omega⟩
    rw [setBasesPush_succ']
    obtain ⟨p2, fr, _⟩ := refresh_spec fuel h r
    exact (fold_keeps fuel f' (push_keeps fuel f') _ _ p2).2.fresh fr
  | succ n ih =>
    intro f w r x hf h hd
    obtain ⟨f', rfl⟩ : ∃ f', f = f' + 1 := ⟨f - 1, by omega⟩
    cases hd with
    | @succ _ _ s _ hrs hd' =>
      rw [setBasesPush_succ']
      obtain ⟨p2, _, _⟩ := refresh_spec fuel h r
      apply fold_reaches fuel f' x s (fun w' h' => ih f' w' s x (by omega) h' hd') _ _ _ p2
      rw [p2.subregs r]; exact hcons s r hrs

/-! ### the invariant and `AdapterRegistry.__bases__ = …` -/
/-- `dom` = the registries that exist (have been given bases at least once) -/
structure Inv (fuel : Nat) (dom : List Nat) (w : World) : Prop where
  verifying : w.verifying = false
  fresh : ∀ x ∈ dom, FreshAt (regBases w) fuel w x
  cons : ∀ s b, b ∈ (w.reg s).bases → s ∈ (w.reg b).subregs

/-- guard G-acyclic with the size bound the recursion fuel stands for -/
def GoodBases (fuel : Nat) (B : Bases) : Prop := ∃ rank : Nat → Nat, Acyclic B rank ∧ ∀ x, rank x < fuel

theorem inv_of_sameStr {fuel : Nat} {dom : List Nat} {w w' : World} (h : Inv fuel dom w) (s : SameStr w w') : Inv fuel dom w' := by
  have hb : regBases w' = regBases w := by funext x; exact s.bases x
  refine ⟨s.verifying.trans h.verifying, fun x hx => ?_, fun a b hab => ?_⟩
  · unfold FreshAt; rw [hb, s.ro x]; exact h.fresh x hx
  · rw [s.subregs b]; rw [s.bases a] at hab; exact h.cons a b hab

theorem regBases_of_sameStr {w w' : World} (s : SameStr w w') : regBases w' = regBases w := by funext x; exact s.bases x

theorem setBases_inv (fuel : Nat) (dom : List Nat) (w : World) (h : Inv fuel dom w) (r : Nat) (bs : List Nat)
    (hg : GoodBases fuel (updB (regBases w) r bs)) :
    Inv fuel (r :: dom) (setBases fuel w r bs) ∧ regBases (setBases fuel w r bs) = updB (regBases w) r bs := by
  obtain ⟨rank, ha, hrk⟩ := hg
  obtain ⟨f, rfl⟩ : ∃ f, fuel = f + 1 := ⟨fuel - 1, by have := hrk r; omega⟩
  have e : setBases (f+1) w r bs = setBasesPush (f+1) (f+1) w r bs := by unfold setBases; rw [h.verifying]; rfl
  rw [e, setBasesPush_succ']
  have ms := moveSubreg_spec w r (w.reg r).bases bs
  generalize moveSubreg w r (w.reg r).bases bs = w1 at ms
  have hb1 : regBases w1 = regBases w := by funext x; exact ms.bases x
  have os := setBasesOwn_spec (f+1) w1 r bs (ms.verifying.trans h.verifying)
  have ob : regBases (setBasesOwn (f+1) w1 r bs) = updB (regBases w) r bs := by rw [os.bases, hb1]
  have ofr : FreshAt (updB (regBases w) r bs) (f+1) (setBasesOwn (f+1) w1 r bs) r := by
    have := os.ro_self; rw [hb1] at this; exact this
  have oro := os.ro_other
  have osub := os.subregs
  have ov := os.verifying
  clear os
  generalize setBasesOwn (f+1) w1 r bs = w2 at ob ofr oro osub ov ⊢
  generalize hB : updB (regBases w) r bs = B' at ob ofr ha
  have p2 : PInv B' (fun x => (w2.reg x).subregs) w2 := ⟨ov, ob, fun _ => rfl⟩
  have hcons' : ∀ s b, b ∈ B' s → s ∈ (w2.reg b).subregs := by
    intro s b hb
    rw [osub b]
    by_cases hs : s = r
    · subst hs
      have hbbs : b ∈ bs := by rw [← hB] at hb; simpa [updB] using hb
      exact ms.added b hbbs (fun ho => h.cons s b ho)
    · have : b ∈ (w.reg s).bases := by rw [← hB] at hb; simpa [updB, hs, regBases] using hb
      exact (ms.others b s hs).mpr (h.cons s b this)
  obtain ⟨pf, mf⟩ := fold_keeps (f+1) f (push_keeps (f+1) f) ((w2.reg r).subregs) w2 p2
  generalize hwf : List.foldl (pushStep (f+1) f) w2 (w2.reg r).subregs = wf at pf mf
  refine ⟨⟨pf.verifying, fun x hx => ?_, fun s b hb => ?_⟩, pf.bases⟩
  · rw [pf.bases]
    by_cases hreach : Reach B' x r
    · obtain ⟨n, hd⟩ := desc_of_reach hreach
      cases n with
      | zero => cases hd; exact mf.fresh ofr
      | succ m =>
        have hr := desc_rank ha hd
        have hx := hrk x
        cases hd with
        | @succ _ _ s _ hrs hd' =>
          have hm : m + 1 ≤ f := by omega
          rw [← hwf]
          exact fold_reaches (f+1) f x s (fun w' h' => push_reaches (f+1) hcons' m f w' s x hm h' hd')
            ((w2.reg r).subregs) w2 (hcons' s r hrs) p2
    · have hxr : x ≠ r := fun e => hreach (e ▸ Reach.refl x)
      have hxd : x ∈ dom := by
        rcases List.mem_cons.mp hx with e | h'
        · exact absurd e hxr
        · exact h'
      rcases mf x with hf | hf
      · exact hf
      · unfold FreshAt
        rw [hf, oro x hxr, ms.ro x, h.fresh x hxd, ← hB, roFull_updB_of_not_reach bs (f+1) (by rw [hB]; exact hreach)]
  · have : b ∈ B' s := by rw [← pf.bases]; exact hb
    rw [pf.subregs b]; exact hcons' s b this

/-! ### every other operation leaves bases / ro / sub-registries alone -/
theorem mut_sameStr (fuel : Nat) (w : World) (r : Nat) (x : Reg) (hv : w.verifying = false)
    (hb : x.bases = (w.reg r).bases) (hr : x.ro = (w.reg r).ro) (hs : x.subregs = (w.reg r).subregs) :
    SameStr w (changed fuel (w.setReg r x) r) :=
  (sameStr_setReg w r x hb hr hs).trans (changed_sameStr fuel _ r hv)

theorem addExtendor_str (w : World) (x : Reg) (p : Id) :
    (addExtendor w x p).bases = x.bases ∧ (addExtendor w x p).ro = x.ro ∧ (addExtendor w x p).subregs = x.subregs := ⟨rfl, rfl, rfl⟩
theorem removeExtendor_str (w : World) (x : Reg) (p : Id) :
    (removeExtendor w x p).bases = x.bases ∧ (removeExtendor w x p).ro = x.ro ∧ (removeExtendor w x p).subregs = x.subregs := ⟨rfl, rfl, rfl⟩

theorem register_sameStr (fuel : Nat) (w : World) (hv : w.verifying = false) (r : Nat) (req : List (Option Id)) (prov : Id)
    (name : String) (v : Val) : SameStr w (register fuel w r req prov name v) := by
  unfold register
  simp only []
  repeat' (first
    | exact SameStr.refl w
    | (refine mut_sameStr fuel w r _ hv ?_ ?_ ?_ <;> (repeat' split) <;> rfl)
    | split)

theorem unregister_sameStr (fuel : Nat) (w : World) (hv : w.verifying = false) (r : Nat) (req : List (Option Id)) (prov : Id)
    (name : String) (v : Option Val) : SameStr w (unregister fuel w r req prov name v) := by
  unfold unregister
  simp only []
  repeat' (first
    | exact SameStr.refl w
    | (refine mut_sameStr fuel w r _ hv ?_ ?_ ?_ <;> (repeat' split) <;> rfl)
    | split)

theorem subscribe_sameStr (fuel : Nat) (w : World) (hv : w.verifying = false) (r : Nat) (req : List (Option Id)) (prov : Option Id)
    (v : Val) : SameStr w (subscribe fuel w r req prov v) := by
  unfold subscribe
  simp only []
  repeat' (first
    | exact SameStr.refl w
    | (refine mut_sameStr fuel w r _ hv ?_ ?_ ?_ <;> (repeat' split) <;> rfl)
    | split)

theorem unsubscribe_sameStr (fuel : Nat) (w : World) (hv : w.verifying = false) (r : Nat) (req : List (Option Id)) (prov : Option Id)
    (v : Option Val) : SameStr w (unsubscribe fuel w r req prov v) := by
  unfold unsubscribe
  simp only []
  repeat' (first
    | exact SameStr.refl w
    | (refine mut_sameStr fuel w r _ hv ?_ ?_ ?_ <;> (repeat' split) <;> rfl)
    | split)

theorem verify_push (w : World) (hv : w.verifying = false) (r : Nat) : verify w r = w := by unfold verify; simp [hv]

theorem lookup_sameStr (w : World) (hv : w.verifying = false) (r : Nat) (req : List Id) (prov : Id) (name : String) :
    SameStr w (lookup w r req prov name).1 := by
  unfold lookup; rw [verify_push w hv]; simp only []
  split
  · exact SameStr.refl w
  · exact sameStr_setReg w r _ rfl rfl rfl
theorem lookupAll_sameStr (w : World) (hv : w.verifying = false) (r : Nat) (req : List Id) (prov : Id) :
    SameStr w (lookupAll w r req prov).1 := by
  unfold lookupAll; rw [verify_push w hv]; simp only []
  split
  · exact SameStr.refl w
  · exact sameStr_setReg w r _ rfl rfl rfl
theorem subscriptions_sameStr (w : World) (hv : w.verifying = false) (r : Nat) (req : List Id) (prov : Option Id) :
    SameStr w (subscriptions w r req prov).1 := by
  unfold subscriptions; rw [verify_push w hv]; simp only []
  split
  · exact SameStr.refl w
  · exact sameStr_setReg w r _ rfl rfl rfl

theorem foldl_sameStr_v {α} (f : World → α → World) (h : ∀ w a, w.verifying = false → SameStr w (f w a)) :
    ∀ (l : List α) (w : World), w.verifying = false → SameStr w (l.foldl f w)
  | [], w, _ => SameStr.refl w
  | a :: l, w, hv => (h w a hv).trans (foldl_sameStr_v f h l (f w a) ((h w a hv).verifying.trans hv))

theorem rebuild_aux (fuel : Nat) (dom : List Nat) (w : World) (h : Inv fuel dom w) (r : Nat)
    (hg : GoodBases fuel (regBases w)) (w1 : World) (s1 : SameStr w w1)
    (regs : List (List K × K × String × Val)) (subs : List (List K × K × Val)) :
    let w2 := setBases fuel w1 r (w.reg r).bases
    let w3 := regs.foldl (fun w e => register fuel w r e.1 (e.2.1.getD 0) e.2.2.1 e.2.2.2) w2
    let w4 := subs.foldl (fun w e => subscribe fuel w r e.1 e.2.1 e.2.2) w3
    Inv fuel (r :: dom) w4 ∧ regBases w4 = regBases w := by
  intro w2 w3 w4
  have i1 := inv_of_sameStr h s1
  have hb1 := regBases_of_sameStr s1
  have hbr : (w.reg r).bases = regBases w1 r := by rw [hb1]; rfl
  have hg1 : GoodBases fuel (updB (regBases w1) r (w.reg r).bases) := by rw [hbr, updB_self, hb1]; exact hg
  obtain ⟨i2, hb2'⟩ := setBases_inv fuel dom w1 i1 r (w.reg r).bases hg1
  have hb2 : regBases w2 = regBases w := by
    show regBases (setBases fuel w1 r (w.reg r).bases) = _
    rw [hb2', hbr, updB_self, hb1]
  have s3 : SameStr w2 w3 := foldl_sameStr_v (fun w e => register fuel w r e.1 (e.2.1.getD 0) e.2.2.1 e.2.2.2)
    (fun w e hv => register_sameStr fuel w hv r _ _ _ _) regs w2 i2.verifying
  have i3 := inv_of_sameStr i2 s3
  have s4 : SameStr w3 w4 := foldl_sameStr_v (fun w e => subscribe fuel w r e.1 e.2.1 e.2.2)
    (fun w e hv => subscribe_sameStr fuel w hv r _ _ _) subs w3 i3.verifying
  exact ⟨inv_of_sameStr i3 s4, (regBases_of_sameStr s4).trans ((regBases_of_sameStr s3).trans hb2)⟩

theorem rebuild_inv (fuel : Nat) (dom : List Nat) (w : World) (h : Inv fuel dom w) (r : Nat)
    (hg : GoodBases fuel (regBases w)) :
    Inv fuel (r :: dom) (rebuild fuel w r) ∧ regBases (rebuild fuel w r) = regBases w := by
  exact rebuild_aux fuel dom w h r hg
    (w.setReg r { w.reg r with adapters := [], subs := [], provided := [], extendors := [],
                               cache := [], mcache := [], scache := [], verifyRo := [], verifyGen := [] })
    (sameStr_setReg w r _ rfl rfl rfl) (allRegistrations (w.reg r)) (allSubscriptions (w.reg r))

/-! ### histories -/
inductive Op
  | newreg (r : Nat) (bs : List Nat)
  | setBases (r : Nat) (bs : List Nat)
  | rebuild (r : Nat)
  | register (r : Nat) (req : List (Option Id)) (prov : Id) (name : String) (v : Val)
  | unregister (r : Nat) (req : List (Option Id)) (prov : Id) (name : String) (v : Option Val)
  | subscribe (r : Nat) (req : List (Option Id)) (prov : Option Id) (v : Val)
  | unsubscribe (r : Nat) (req : List (Option Id)) (prov : Option Id) (v : Option Val)
  | lookup (r : Nat) (req : List Id) (prov : Id) (name : String)
  | lookupAll (r : Nat) (req : List Id) (prov : Id)
  | subscriptions (r : Nat) (req : List Id) (prov : Option Id)

def step (fuel : Nat) (w : World) : Op → World
  | .newreg r bs => setBases fuel (w.setReg r {}) r bs
  | .setBases r bs => setBases fuel w r bs
  | .rebuild r => rebuild fuel w r
  | .register r req p n v => register fuel w r req p n v
  | .unregister r req p n v => unregister fuel w r req p n v
  | .subscribe r req p v => subscribe fuel w r req p v
  | .unsubscribe r req p v => unsubscribe fuel w r req p v
  | .lookup r req p n => (lookup w r req p n).1
  | .lookupAll r req p => (lookupAll w r req p).1
  | .subscriptions r req p => (subscriptions w r req p).1

/-- the registries an operation brings into existence (or re-bases) -/
def touched : Op → List Nat
  | .newreg r _ => [r]
  | .setBases r _ => [r]
  | .rebuild r => [r]
  | _ => []

/-- guards: a new registry is new; re-basing keeps the registry base graph acyclic (G-acyclic, with the size bound that the
recursion fuel of the model stands for) -/
def WF (fuel : Nat) (w : World) : Op → Prop
  | .newreg r bs => ((w.reg r).bases = [] ∧ (w.reg r).ro = [] ∧ (w.reg r).subregs = []) ∧ GoodBases fuel (updB (regBases w) r bs)
  | .setBases r bs => GoodBases fuel (updB (regBases w) r bs)
  | .rebuild _ => GoodBases fuel (regBases w)
  | _ => True

theorem step_inv (fuel : Nat) (dom : List Nat) (w : World) (h : Inv fuel dom w) (op : Op) (hwf : WF fuel w op) :
    Inv fuel (touched op ++ dom) (step fuel w op) := by
  cases op with
  | newreg r bs =>
    obtain ⟨⟨f1, f2, f3⟩, hg⟩ := hwf
    have s1 : SameStr w (w.setReg r {}) := sameStr_setReg w r {} f1.symm f2.symm f3.symm
    have hg' : GoodBases fuel (updB (regBases (w.setReg r {})) r bs) := by rw [regBases_of_sameStr s1]; exact hg
    exact (setBases_inv fuel dom _ (inv_of_sameStr h s1) r bs hg').1
  | setBases r bs => exact (setBases_inv fuel dom w h r bs hwf).1
  | rebuild r => exact (rebuild_inv fuel dom w h r hwf).1
  | register r req p n v => exact inv_of_sameStr h (register_sameStr fuel w h.verifying r req p n v)
  | unregister r req p n v => exact inv_of_sameStr h (unregister_sameStr fuel w h.verifying r req p n v)
  | subscribe r req p v => exact inv_of_sameStr h (subscribe_sameStr fuel w h.verifying r req p v)
  | unsubscribe r req p v => exact inv_of_sameStr h (unsubscribe_sameStr fuel w h.verifying r req p v)
  | lookup r req p n => exact inv_of_sameStr h (lookup_sameStr w h.verifying r req p n)
  | lookupAll r req p => exact inv_of_sameStr h (lookupAll_sameStr w h.verifying r req p)
  | subscriptions r req p => exact inv_of_sameStr h (subscriptions_sameStr w h.verifying r req p)

def run (fuel : Nat) : World → List Op → World
  | w, [] => w
  | w, op :: ops => run fuel (step fuel w op) ops

def WFHist (fuel : Nat) : World → List Op → Prop
  | _, [] => True
  | w, op :: ops => WF fuel w op ∧ WFHist fuel (step fuel w op) ops

def existing : List Op → List Nat
  | [] => []
  | op :: ops => existing ops ++ touched op

theorem run_inv (fuel : Nat) : ∀ (ops : List Op) (dom : List Nat) (w : World), Inv fuel dom w → WFHist fuel w ops →
    Inv fuel (existing ops ++ dom) (run fuel w ops)
  | [], dom, w, h, _ => by simpa [existing, run] using h
  | op :: ops, dom, w, h, hwf => by
    have := run_inv fuel ops (touched op ++ dom) (step fuel w op) (step_inv fuel dom w h op hwf.1) hwf.2
    simpa [existing, run, List.append_assoc] using this

/-- the empty world of the notifying flavour -/
def emptyPush (sro iro : Id → List Id) : World := { sro := sro, iro := iro, regs := [], verifying := false }

theorem inv_empty (fuel : Nat) (sro iro : Id → List Id) : Inv fuel [] (emptyPush sro iro) :=
  ⟨rfl, fun _ h => (by cases h), fun s b hb => (by simp [emptyPush, World.reg, AList.get?] at hb)⟩

/-- **C06_ro** (notifying flavour `AdapterRegistry`): after any history of registry operations — creation, re-basing at any
level of the chain, `rebuild()`, registrations, subscriptions, lookups — that keeps the base graph acyclic, every
existing registry's `ro` is exactly what `ro.ro` computes from the CURRENT bases of the registries (which `C03_ro_eq_c3` /
`roFull_valid` relate to the C3 linearization); `lookup` / `lookupAll` / `subscriptions` walk that `ro`. -/
theorem C06_ro (fuel : Nat) (sro iro : Id → List Id) (ops : List Op) (hwf : WFHist fuel (emptyPush sro iro) ops) :
    ∀ r ∈ existing ops,
      ((run fuel (emptyPush sro iro) ops).reg r).ro = (roFull (regBases (run fuel (emptyPush sro iro) ops)) fuel r).mro := by
  intro r hr
  have := run_inv fuel ops [] _ (inv_empty fuel sro iro) hwf
  exact this.fresh r (by simpa using hr)

/-- … and the sub-registry table covers the base links (what makes the cascade reach every descendant) -/
theorem C06_subregistries (fuel : Nat) (sro iro : Id → List Id) (ops : List Op) (hwf : WFHist fuel (emptyPush sro iro) ops) :
    ∀ s b, b ∈ ((run fuel (emptyPush sro iro) ops).reg s).bases → s ∈ ((run fuel (emptyPush sro iro) ops).reg b).subregs :=
  (run_inv fuel ops [] _ (inv_empty fuel sro iro) hwf).cons

/-- generation-checking flavour, what is carried: right after any change notification of a registry its `ro` is the
one `ro.ro` computes from the current base graph (the notification includes the one `_verify` issues when an ancestor's
generation moved).  Not carried: that an unchanged generation snapshot implies unchanged ancestors' bases. -/
theorem verifyingChanged_fresh (w : World) (r : Nat) :
    ((verifyingChanged w r).reg r).ro = (roFull (fun b => (w.reg b).bases) (w.regs.length + 1) r).mro := by
  unfold verifyingChanged verifyingChangedBase
  simp [reg_setReg_same, clearCaches]

/-! ### the guards are satisfiable: a concrete history -/
theorem goodBases_small (fuel N : Nat) (B : Bases) (hN : N ≤ fuel) (h0 : 0 < fuel) (hz : ∀ s, N ≤ s → B s = [])
    (hc : ∀ s, s < N → ∀ b ∈ B s, b < s) : GoodBases fuel B := by
  refine ⟨fun x => if x < N then x else 0, fun s b hb => ?_, fun x => ?_⟩
  · show (if b < N then b else 0) < (if s < N then s else 0)
    by_cases hs : s < N
    · have := hc s hs b hb
      have hbN : b < N := Nat.lt_trans this hs
      rw [if_pos hs, if_pos hbN]; exact this
    · rw [hz s (Nat.le_of_not_lt hs)] at hb; cases hb
  · show (if x < N then x else 0) < fuel
    split <;> omega

theorem reg_default (w : World) (s : Nat) (h : (w.regs.find? (·.1 == s)) = none) : w.reg s = {} := by
  simp [World.reg, AList.get?, h]

def demoOps : List Op := [.newreg 0 [], .newreg 1 [], .newreg 2 [0], .newreg 3 [2], .setBases 2 [1, 0],
  .register 1 [some 5] 6 "" ⟨7, 1⟩, .lookup 3 [5] 6 "", .rebuild 0]
def w0 : World := emptyPush (fun i => [i, 0]) (fun i => [i, 0])

theorem reg_default_of_keys (w : World) (N s : Nat) (hk : (w.regs.map (·.1)).all (· < N) = true) (hs : N ≤ s) : w.reg s = {} := by
  apply reg_default
  rw [List.find?_eq_none]
  intro p hp
  have : p.1 < N := by
    have := List.all_eq_true.mp hk p.1 (List.mem_map_of_mem hp)
    simpa using this
  have hne : p.1 ≠ s := fun e => by rw [e] at this; exact absurd this (Nat.not_lt.mpr hs)
  simpa using hne

theorem goodBases_check (fuel N : Nat) (hN : N ≤ fuel) (h0 : 0 < fuel) (w : World) (B : Bases)
    (hB : ∀ s, N ≤ s → B s = (w.reg s).bases)
    (hk : (w.regs.map (·.1)).all (· < N) = true)
    (hc : (List.range N).all (fun s => (B s).all (· < s)) = true) : GoodBases fuel B := by
  apply goodBases_small fuel N B hN h0
  · intro s hs; rw [hB s hs, reg_default_of_keys w N s hk hs]
  · intro s hs b hb
    have := List.all_eq_true.mp hc s (List.mem_range.mpr hs)
    have := List.all_eq_true.mp this b hb
    simpa using this

theorem updB_far (B : Bases) (r : Nat) (bs : List Nat) (N : Nat) (hr : r < N) (s : Nat) (hs : N ≤ s) : updB B r bs s = B s := by
  unfold updB; rw [if_neg]; intro e; rw [e] at hs; exact absurd hr (Nat.not_lt.mpr hs)

theorem demo_wf : WFHist 8 w0 demoOps := by
  refine ⟨⟨⟨rfl, rfl, rfl⟩, ?_⟩, ⟨⟨rfl, rfl, rfl⟩, ?_⟩, ⟨⟨rfl, rfl, rfl⟩, ?_⟩, ⟨⟨rfl, rfl, rfl⟩, ?_⟩, ?_, trivial, trivial, ?_, trivial⟩
  · exact goodBases_check 8 4 (by decide) (by decide) _ _ (fun s hs => updB_far _ 0 [] 4 (by decide) s hs) (by decide +kernel) (by decide +kernel)
  · exact goodBases_check 8 4 (by decide) (by decide) _ _ (fun s hs => updB_far _ 1 [] 4 (by decide) s hs) (by decide +kernel) (by decide +kernel)
  · exact goodBases_check 8 4 (by decide) (by decide) _ _ (fun s hs => updB_far _ 2 [0] 4 (by decide) s hs) (by decide +kernel) (by decide +kernel)
  · exact goodBases_check 8 4 (by decide) (by decide) _ _ (fun s hs => updB_far _ 3 [2] 4 (by decide) s hs) (by decide +kernel) (by decide +kernel)
  · exact goodBases_check 8 4 (by decide) (by decide) _ _ (fun s hs => updB_far _ 2 [1, 0] 4 (by decide) s hs) (by decide +kernel) (by decide +kernel)
  · exact goodBases_check 8 4 (by decide) (by decide) _ _ (fun s _ => rfl) (by decide +kernel) (by decide +kernel)

/-- non-vacuity: a history with a chain 2 → 1 → 0, a re-basing of the middle registry onto (3, 0), registrations, a lookup and a
rebuild satisfies the guards; the theorem then says what the evaluation shows -/
example : ∀ r ∈ [0, 1, 2, 3], ((run 8 w0 demoOps).reg r).ro = (roFull (regBases (run 8 w0 demoOps)) 8 r).mro :=
  fun r hr => C06_ro 8 _ _ demoOps demo_wf r (by revert r; decide)
example : ((run 8 w0 (demoOps.take 7)).reg 3).ro = [3, 2, 1, 0] ∧ ((run 8 w0 (demoOps.take 4)).reg 3).ro = [3, 2, 0] := by decide +kernel
end ZI.Registry
