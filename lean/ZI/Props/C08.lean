import ZI.Props.C04
/-! # C08 — all lookup entry points agree with lookup() and subscriptions()

Proved here, on the registry model that is compared with the real code: `lookupAll` is the name-indexed family of
`lookup` answers — the reversed `_lookupAll` walk with `dict.update` binds every name to exactly what the forward `_lookup`
walk returns for that name (and leaves a name unbound exactly when `lookup` returns the default).  `lookup1`, `queryAdapter`,
`adapter_hook`, `queryMultiAdapter`, `names` and `subscribers` are defined in the model through `lookup` / `lookupAll` /
`subscriptions` and agree with the real entry points in every cache state by the correspondence of this check. -/
namespace ZI.Registry
open ZI.RO

theorem find_map_same (m : Names) (k : String) (v : Val) :
    (m.map fun p => if p.1 == k then (k, v) else p).find? (fun x => x.1 == k) = (m.find? (fun x => x.1 == k)).map fun _ => (k, v) := by
  induction m with
  | nil => rfl
  | cons p t ih =>
    simp only [List.map_cons, List.find?_cons]
    by_cases hp : (p.1 == k) = true
    · simp only [hp, if_true, beq_self_eq_true, Option.map_some]
    · have hp' : (p.1 == k) = false := by simpa using hp
      simp only [hp', Bool.false_eq_true, if_false]; exact ih

theorem find_map_other (m : Names) (k k' : String) (v : Val) (h : (k == k') = false) :
    (m.map fun p => if p.1 == k then (k, v) else p).find? (fun x => x.1 == k') = m.find? (fun x => x.1 == k') := by
  induction m with
  | nil => rfl
  | cons p t ih =>
    simp only [List.map_cons, List.find?_cons]
    by_cases hp : (p.1 == k) = true
    · have e : p.1 = k := by simpa using hp
      have h2 : (p.1 == k') = false := by rw [e]; exact h
      simp only [hp, if_true, h, h2]; exact ih
    · simp only [hp, if_false, Bool.false_eq_true]
      cases hq : p.1 == k' with
      | true => rfl
      | false => exact ih

theorem AList.get?_set_str (m : Names) (k : String) (v : Val) (k' : String) :
    AList.get? (AList.set m k v) k' = if k == k' then some v else AList.get? m k' := by
  unfold AList.set AList.get?
  split
  · rename_i hany
    by_cases hk : (k == k') = true
    · have e : k = k' := by simpa using hk
      subst e
      rw [find_map_same]
      obtain ⟨x, hx, hxk⟩ := List.any_eq_true.mp hany
      cases hf : m.find? (fun x => x.1 == k) with
      | none => exact absurd hxk (by simpa using List.find?_eq_none.mp hf x hx)
      | some y => simp
    · have hk' : (k == k') = false := by simpa using hk
      rw [find_map_other m k k' v hk']; simp [hk']
  · rename_i hany
    have hnone : ∀ x ∈ m, (x.1 == k) = false := by
      intro x hx
      cases h : x.1 == k with
      | false => rfl
      | true => exact absurd (List.any_eq_true.mpr ⟨x, hx, h⟩) hany
    rw [List.find?_append]
    by_cases hk : (k == k') = true
    · have e : k = k' := by simpa using hk
      subst e
      have : m.find? (fun x => x.1 == k) = none := List.find?_eq_none.mpr (fun x hx => by simp [hnone x hx])
      simp [this]
    · have hk' : (k == k') = false := by simpa using hk
      cases hf : m.find? (fun x => x.1 == k') with
      | some x => simp [hk']
      | none => simp [List.find?_cons, hk']

/-- every leaf is a dictionary: no name twice -/
def LeavesOk : (n : Nat) → Level Names n → Prop
  | 0, l => ((leafOf l).map (·.1)).Nodup
  | n+1, m => ∀ p ∈ kidsOf m, LeavesOk n p.2

theorem get?_mem {α} {m : AList K α} {k : K} {c : α} (h : AList.get? m k = some c) : ∃ p ∈ m, p.2 = c := by
  unfold AList.get? at h
  cases hf : m.find? (fun x => x.1 == k) with
  | none => rw [hf] at h; simp at h
  | some p => rw [hf] at h; simp at h; exact ⟨p, List.mem_of_find?_eq_some hf, h⟩

/-- `dict.update(names)` on the accumulator: the names of the leaf win, the others keep what they had -/
theorem get?_foldl_set (names : Names) (hnd : (names.map (·.1)).Nodup) (acc : Names) (k : String) :
    AList.get? (names.foldl (fun acc p => AList.set acc p.1 p.2) acc) k =
      (AList.get? names k).orElse fun _ => AList.get? acc k := by
  induction names generalizing acc with
  | nil => simp [AList.get?]
  | cons p t ih =>
    have hnd' := List.nodup_cons.mp hnd
    simp only [List.foldl_cons]
    rw [ih hnd'.2, AList.get?_set_str]
    by_cases hp : (p.1 == k) = true
    · have e : p.1 = k := by simpa using hp
      have hfind : t.find? (fun x => x.1 == k) = none := List.find?_eq_none.mpr (fun x hx => by
        simp only [beq_iff_eq]; intro e2
        exact hnd'.1 (List.mem_map.mpr ⟨x, hx, e2.trans e.symm⟩))
      simp only [hp, if_true, AList.get?, List.find?_cons, hfind, Option.map_none, Option.map_some]
      rfl
    · have hp' : (p.1 == k) = false := by simpa using hp
      simp only [hp', Bool.false_eq_true, if_false, AList.get?, List.find?_cons]

/-- folding overlays over a REVERSED list: the FIRST element (of the forward list) that binds the name wins -/
theorem foldl_reverse_overlay {α} (l : List α) (step : Names → α → Names) (g : α → String → Option Val)
    (hstep : ∀ acc x, x ∈ l → ∀ k, AList.get? (step acc x) k = (g x k).orElse fun _ => AList.get? acc k)
    (acc : Names) (k : String) :
    AList.get? (l.reverse.foldl step acc) k = (l.findSome? fun x => g x k).orElse fun _ => AList.get? acc k := by
  induction l with
  | nil => simp
  | cons x t ih =>
    rw [List.reverse_cons, List.foldl_append]
    simp only [List.foldl_cons, List.foldl_nil]
    rw [hstep _ x (List.mem_cons_self ..) k, ih (fun acc y hy => hstep acc y (List.mem_cons_of_mem _ hy)), List.findSome?_cons]
    cases g x k <;> simp

/-- **C08 (lookupAll vs lookup)**: for every name, what the `_lookupAll` walk binds it to is exactly what the `_lookup`
walk returns for it; a name stays as in the accumulator exactly when `_lookup` finds nothing -/
theorem lookupAllRec_get (w : World) : ∀ (n : Nat) (m : Level Names (n+1)) (specs ext : List Id) (acc : Names) (k : String),
    LeavesOk (n+1) m → specs.length = n →
    AList.get? (lookupAllRec w n m specs ext acc) k =
      (lookupRec w n m specs ext k).orElse fun _ => AList.get? acc k := by
  intro n
  induction n with
  | zero =>
    intro m specs ext acc k hok hl
    simp only [lookupAllRec, lookupRec]
    refine (foldl_reverse_overlay ext _ (fun iface k => match AList.get? (kidsOf m) (some iface) with
      | some names => AList.get? (leafOf names) k | none => none) ?_ acc k).trans ?_
    · intro acc iface _ k
      cases hg : AList.get? (kidsOf m) (some iface) with
      | none => simp
      | some names =>
        obtain ⟨p, hp, rfl⟩ := get?_mem hg
        exact get?_foldl_set _ (hok p hp) acc k
    · rfl
  | succ n ih =>
    intro m specs ext acc k hok hl
    cases specs with
    | nil => simp at hl
    | cons s rest =>
      have hrest : rest.length = n := by simpa using hl
      simp only [lookupAllRec, lookupRec]
      refine (foldl_reverse_overlay (w.sro s) _ (fun sp k => match AList.get? (kidsOf m) (some sp) with
        | some comps => if Level.isEmptyNode comps then none else lookupRec w n comps rest ext k | none => none) ?_ acc k).trans ?_
      · intro acc sp _ k
        cases hg : AList.get? (kidsOf m) (some sp) with
        | none => simp
        | some comps =>
          obtain ⟨p, hp, rfl⟩ := get?_mem hg
          simp only
          split
          · simp
          · exact ih p.2 rest ext acc k (hok p hp) hrest
      · rfl

/-- **C08_lookupAll**: as a mapping, `lookupAll(required, provided)` (one registry, one arity) sends each name to
`lookup(required, provided, name)` and has no entry exactly when that lookup returns the default -/
theorem C08_lookupAll (w : World) (n : Nat) (m : Level Names (n+1)) (specs ext : List Id) (k : String)
    (hok : LeavesOk (n+1) m) (hl : specs.length = n) :
    AList.get? (lookupAllRec w n m specs ext []) k = lookupRec w n m specs ext k := by
  rw [lookupAllRec_get w n m specs ext [] k hok hl]
  cases lookupRec w n m specs ext k <;> simp [AList.get?]

/-- non-vacuity: two names on IA, one of them overridden on the more specific IB -/
example :
    let w : World := { sro := fun i => if i = 2 then [2, 1, 0] else [i, 0], iro := fun i => [i, 0], regs := [], verifying := false }
    let m : Level Names 2 := mkNode [(some 1, mkNode [(some 5, mkLeaf [("", ⟨10, 1⟩), ("n", ⟨11, 1⟩)])]), (some 2, mkNode [(some 5, mkLeaf [("", ⟨20, 2⟩)])])]
    lookupAllRec w 1 m [2] [5] [] = [("", ⟨20, 2⟩), ("n", ⟨11, 1⟩)] ∧ lookupRec w 1 m [2] [5] "n" = some ⟨11, 1⟩ := by decide
end ZI.Registry
