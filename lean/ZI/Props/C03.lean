import ZI.Props.C02
import ZI.EqC3e
import ZI.EqC3d
/-! # C03 — resolution orders are valid linearizations and equal C3 whenever C3 exists

Model: `ZI.RO` (`ro.py`: legacy flatten/merge, `C3.__init__`, `_merge`, `_StrictC3`, `ro()`, `is_consistent`;
`Specification._calculate_sro` = `sroStep`).  Specification: textbook C3 `lin`/`specMerge`; `mirror` replaces an
empty base list by `[root]` (what CPython does with `object`). -/
namespace ZI.RO

theorem before_idx {l : List Id} {x y : Id} (hnd : l.Nodup) (h : Before l x y) : l.idxOf x < l.idxOf y := by
  obtain ⟨l1, l2, rfl, hy⟩ := h
  have h1 := List.nodup_append.mp hnd
  obtain ⟨_, h2, h3⟩ := h1
  have hx1 : x ∉ l1 := fun hx => h3 x hx x (by simp) rfl
  have hy1 : y ∉ l1 := fun hy' => h3 y hy' y (by simp [hy]) rfl
  have hxy : x ≠ y := by
    intro e; subst e
    exact (List.nodup_cons.mp h2).1 hy
  rw [List.idxOf_append, List.idxOf_append]
  simp [hx1, hy1, List.idxOf_cons]
  have : (x == y) = false := by simp [hxy]
  rw [this]; simp

/-- **C03_valid** (every acyclic graph, consistent or not; duplicate base lists allowed). -/
theorem C03_valid_thm : C03_valid_stmt := by
  intro bases rank root c ha hroot
  have h := C03_valid bases rank root c ha hroot
  refine ⟨h.head, h.nodup, h.mem, ?_, h.last⟩
  intro x hx b hb
  exact before_idx h.nodup (h.topo x hx b hb)

/-- **C03_eq_c3**: whenever the mirrored hierarchy admits a C3 linearization, `__sro__` is that linearization. -/
theorem C03_eq_c3 : C03_eq_c3_stmt := by
  intro bases rank root c l ha hnd hroot hl
  rw [sroFresh_fuel ha (rank c + 1) c (Nat.lt_succ_self _)]
  exact sro_eq_c3 ha hnd hroot (rank c + 2) c l (by split <;> omega) hl

/-- **C03_ro_eq_c3**: the free function `ro.ro` equals literal C3 whenever that exists. -/
theorem C03_ro_eq_c3 : C03_ro_eq_c3_stmt := fun bases rank c l ha hnd hl =>
  ro_eq_c3 ha hnd (rank c + 1) c l (Nat.lt_succ_self _) hl

/-- **C03_strict_iff**: strict mode raises exactly when no C3 linearization exists. -/
theorem C03_strict_iff_thm : C03_strict_iff_stmt := fun _ _ c ha hnd => C03_strict_iff ha hnd c

/-- **C03_consistent_iff** (repaired `is_consistent`). -/
theorem C03_consistent_iff_thm : C03_consistent_iff_stmt := fun _ _ c ha hnd => C03_consistent_iff ha hnd c

/-- the pinned commit's `is_consistent` (leaf merge never run) violates the statement: I3(I0, I1), I1(I0) -/
theorem C03_asis_violates : isConsistentAsIs wBases 3 3 = true ∧ (lin wBases 4 3).isSome = false := by decide

end ZI.RO

namespace ZI.Graph2
open ZI.RO

def C03_cached_valid_stmt : Prop := ∀ ops : List Op, WFHist ops → NoRootOp ops →
  ∀ c, ValidLinR (run ops).bases 0 c ((run ops).sro c)

/-- **C03 over histories**: after any well-formed sequence of creations and `__bases__` reassignments, the *cached*
`__sro__` of every specification starts with itself, lists each ancestor once, places every specification before all of
its bases and ends with the root. -/
theorem C03_cached_valid : C03_cached_valid_stmt := by
  intro ops hwf hnr c
  obtain ⟨N, hg, _⟩ := reach_inv ops hwf
  obtain ⟨rank, ha, hr⟩ := hg.acyc
  obtain ⟨hroot, hb0⟩ := root_bases_run ops hnr
  rw [hg.fresh (N+1) (Nat.lt_succ_self _) c, hroot]
  exact sroFresh_valid ha hb0 (N+1) c (by have := hr c; omega)

theorem nodup_run (ops : List Op) (hwf : WFHist ops) : NodupBases (run ops).bases := by
  suffices h : ∀ (ops : List Op) (g : G), NodupBases g.bases →
      (∀ k (h : k < ops.length), WFOp ((ops.take k).foldl step g) ops[k]) → NodupBases (ops.foldl step g).bases from
    h ops (init 0) (fun _ => List.nodup_nil) hwf
  intro ops
  induction ops with
  | nil => intro g h _; exact h
  | cons op rest ih =>
    intro g hn hw
    simp only [List.foldl_cons]
    have h0 : WFOp g op := by
      have := hw 0 (by simp)
      simpa [List.take] using this
    apply ih
    · cases op with
      | new s bs =>
        intro x
        show ((setBases _ s bs).bases x).Nodup
        rw [bases_setBases]; simp only [upd]
        split
        · exact h0.1
        · exact hn x
      | set s bs =>
        intro x
        show ((setBases _ s bs).bases x).Nodup
        rw [bases_setBases]; simp only [upd]
        split
        · exact h0.1
        · exact hn x
    · intro k hk
      have := hw (k+1) (by simp; omega)
      simpa using this

def C03_cached_eq_c3_stmt : Prop := ∀ ops : List Op, WFHist ops → NoRootOp ops →
  ∀ c l F, (run ops).ids.length + 1 < F → lin (mirror (run ops).bases 0) F c = some l → (run ops).sro c = l

/-- **C03 over histories, equality with C3**: whenever the current (mirrored) hierarchy admits a C3 linearization of
`c`, the cached `__sro__` of `c` is that linearization — whatever rebasing history led to the current graph. -/
theorem C03_cached_eq_c3 : C03_cached_eq_c3_stmt := by
  intro ops hwf hnr c l F hF hl
  obtain ⟨N, hg, hN⟩ := reach_inv ops hwf
  obtain ⟨rank, ha, hr⟩ := hg.acyc
  obtain ⟨hroot, hb0⟩ := root_bases_run ops hnr
  have hnd : NodupBases (run ops).bases := nodup_run ops hwf
  rw [hg.fresh F (by omega) c, hroot]
  exact sro_eq_c3 ha hnd hb0 F c l (by have := hr c; split <;> omega) hl

#print axioms C03_cached_valid
#print axioms C03_cached_eq_c3
end ZI.Graph2
