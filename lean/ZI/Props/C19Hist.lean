import ZI.Props.C01Hist
import ZI.Props.C19
import ZI.Valid2
/-! # C19 — `super()` proxies see only the remainder of the MRO, after ANY declaration history

Python code concerned: `zope/interface/declarations.py` — `_implementedBy_super(sup)` (called by `implementedBy` /
`providedBy` when handed a `super(C, ob)` object): it takes `spec_self = implementedBy(type(ob))`, looks
`C` up in `spec_self._super_cache`, and on a miss synthesizes a new `Implements` whose `__bases__` are
`[implementedBy(d) for d in type(ob).__mro__[mro.index(C)+1:]]` and stores it in the cache; `Implements.changed()` deletes
`_super_cache`, and `changed()` runs on a specification whenever it or anything in its resolution order is re-based.

Model: `superSpec2` below — `ZI.World.superSpec` (the reference, on `ZI.Classes` / `ZI.Graph`, section `crosscheck`
compares the two by kernel evaluation) transliterated onto `ZI.Classes2` / `ZI.Graph2`, minus the registry notification;
the `_super_cache`s are the extra component `W19.superCache : (spec(type(ob)), C) ↦ synthesized spec`, and `stepU` drops,
after a class declaration on class `c`, the entries of every class specification that has `spec(c)` in its resolution
order (= the specifications `changed()` reaches through `_dependents`: `changed_reaches_iff`; abstractly the classes
that have `c` as themselves or an inheriting ancestor: `sim_anc_iff`).  `type(ob).__mro__` is `ro.ro`
(`roFull`, C3) over the class graph, as in `ZI.World.mro`.

## What is proved (everything over ALL well-formed histories `WFHist19`: C01's steps plus `super()` queries, in any order)

* **`C19_super`** (and `C19_super_after` for a plain C01 history followed by one query): the specification returned for
  `super(c, o)` — cache hit or miss — lists, among the interfaces, exactly
  `⋃ { Impl σ d | d ∈ remainder (mro (type o)) c } ∪ {Interface}` with `Impl` the abstract "declared or inherited NOW" of
  `ZI.Props.C01Hist`: only the remainder of the MRO — not `c`, not the classes before `c` (`C19_remainder_split`:
  the MRO is `pre ++ c :: remainder`, duplicate-free), not the instance's own `directlyProvides` declaration.  The world
  after the query satisfies `Graph2.Inv` (the synthesized node has duplicate-free bases — different classes have
  different specifications — and ranks above every class specification), indeed the whole simulation `Sim` of C01 is kept
  (`super_query`, `sim_newSuper`), so C01's theorems continue to hold in histories containing `super()` queries.
* **`C19_stable`**: an object once returned for `super(c, o)` keeps reporting the remainder of the MRO under the CURRENT
  declarations after any continuation of the history (its bases are the class specifications themselves; nothing ever
  re-bases it: `Frame`, `SuperFor.frame`; `changed()` propagation keeps its cached order fresh: `Sim.mem_sro`).
* **`C19_reuse_iff`**: a second `super(c, o)` query returns the IDENTICAL object iff no step in between was a class
  declaration on `type(o)` or on an ancestor of it along inheriting classes (`Untouched`) — exactly the steps that run
  `changed()` on `implementedBy(type(o))`.  (`cache_step_base`, `hit_step`, `touched_step`, `gone_step` are the one-step
  facts.)
* the cache invariant `CacheOk` (every entry `(spec k, c) ↦ s` has `s` a synthesized specification for
  `remainder (mro k) c`; cached objects are pairwise distinct) holds along every history: `sim19_step`, `sim19_run`.
* general frame facts about `declarations.py` used for this (section 3, `frame_step`): no operation ever touches the
  bases of a specification object that is not a class specification, class specifications once created stay, ids only
  grow; and `smro_step`: the MRO of an existing class never changes (`ro` is local and budget-independent:
  `roFull_local`, `roFull_fuel`).

Not modelled: the `inherit` / `declared` attributes copied onto the synthesized object (no effect on the resolution
order), the weak keys of `_super_cache` (classes are never collected in these histories), `TypeError` of `super(C, ob)`
for `ob` not an instance of `C` (the model then computes the empty remainder). -/
namespace ZI.C19
open ZI.RO ZI.Graph2 ZI.Classes2 ZI.C01
open ZI.World (remainder)

/-! ## 1. the model of `_implementedBy_super` on `ZI.Classes2` -/

/-- Python `__bases__` of the classes, as a base graph for `ro` -/
def classBases2 (w : W) : Bases := fun c => (w.cls c).pyBases
/-- `type(o).__mro__`: C3 over the class graph, as `ZI.World.mro` -/
def mro2 (fuel : Nat) (w : W) (c : Id) : List Id := (roFull (classBases2 w) fuel c).mro

/-- the declarations world extended by the `_super_cache`s of all class specifications:
`(specification of type(o), thisclass) ↦ synthesized specification` -/
structure W19 where
  w : W
  superCache : List ((Id × Id) × Id) := []

def superHit (u : W19) (selfSpec c : Id) : Option Id := (u.superCache.find? (·.1 == (selfSpec, c))).map (·.2)

/-- create the synthesized `Implements` object with the given base specifications -/
def newSuper (w : W) (bases : List Id) : W := { w with next := w.next + 1, g := newNode w.g w.next bases }

/-- `_implementedBy_super(super(c, o))` -/
def superSpec2 (fuel : Nat) (u : W19) (c o : Id) : W19 × Id :=
  match superHit u (implementedBy fuel u.w (u.w.inst o).cls).2 c with
  | some s => ({ u with w := (implementedBy fuel u.w (u.w.inst o).cls).1 }, s)
  | none =>
    ({ w := newSuper
        (specFold (implementedBy fuel) (implementedBy fuel u.w (u.w.inst o).cls).1
          (remainder (mro2 fuel (implementedBy fuel u.w (u.w.inst o).cls).1 (u.w.inst o).cls) c)).1
        (specFold (implementedBy fuel) (implementedBy fuel u.w (u.w.inst o).cls).1
          (remainder (mro2 fuel (implementedBy fuel u.w (u.w.inst o).cls).1 (u.w.inst o).cls) c)).2,
       superCache := u.superCache ++ [(((implementedBy fuel u.w (u.w.inst o).cls).2, c),
        (specFold (implementedBy fuel) (implementedBy fuel u.w (u.w.inst o).cls).1
          (remainder (mro2 fuel (implementedBy fuel u.w (u.w.inst o).cls).1 (u.w.inst o).cls) c)).1.next)] },
     (specFold (implementedBy fuel) (implementedBy fuel u.w (u.w.inst o).cls).1
          (remainder (mro2 fuel (implementedBy fuel u.w (u.w.inst o).cls).1 (u.w.inst o).cls) c)).1.next)

/-- `specFold` is the left fold `[implementedBy(k) for k in keep]` of `ZI.World.superSpec` -/
theorem specFold_eq_foldl (rec : W → Id → W × Id) : ∀ (l : List Id) (w : W) (acc : List Id),
    l.foldl (fun (a : W × List Id) k => ((rec a.1 k).1, a.2 ++ [(rec a.1 k).2])) (w, acc)
      = ((specFold rec w l).1, acc ++ (specFold rec w l).2) := by
  intro l
  induction l with
  | nil => intro w acc; simp [specFold]
  | cons b t ih => intro w acc; simp only [List.foldl_cons, ih, specFold]; simp

/-! ## 2. `ro.ro` over the class graph: budget independence, locality -/

theorem roFull_fuel {bases : Bases} {rank : Id → Nat} (ha : Acyclic bases rank) :
    ∀ (f f' : Nat) (c : Id), rank c < f → rank c < f' → roFull bases f c = roFull bases f' c := by
  intro f
  induction f with
  | zero => intro f' c h; omega
  | succ f ih =>
    intro f' c h h'
    cases f' with
    | zero => omega
    | succ f' =>
      show c3Node bases (legacyRo bases (f+1)) (roFull bases f) c = c3Node bases (legacyRo bases (f'+1)) (roFull bases f') c
      apply c3Node_congr
      · exact legacyRo_fuel ha (by omega) (by omega)
      · intro b hb
        have := ha c b hb
        exact ih f' b (by omega) (by omega)

theorem roFull_local {B B' : Bases} : ∀ (f : Nat) (c : Id), (∀ x, Reach B c x → B x = B' x) → roFull B f c = roFull B' f c := by
  intro f
  induction f with
  | zero => intro c _; rfl
  | succ f ih =>
    intro c h
    show c3Node B (legacyRo B (f+1)) (roFull B f) c = c3Node B' (legacyRo B' (f+1)) (roFull B' f) c
    have hleg : legacyRo B (f+1) c = legacyRo B' (f+1) c := by
      unfold legacyRo; rw [flatten_congr (f+1) c h]
    have hb : ∀ b ∈ B c, roFull B f b = roFull B' f b := fun b hb => ih b (fun x hx => h x (Reach.step hb hx))
    rw [c3Node_congr (legacyRo B (f+1)) (legacyRo B' (f+1)) _ _ c hleg hb]
    have hc : B c = B' c := h c (Reach.refl c)
    unfold c3Node; rw [hc]

/-- the MRO of a class in the abstract state (budget = number of classes; any larger budget gives the same list) -/
def smro (σ : Spec) (k : Nat) : List Nat := (roFull σ.pyBases σ.classes.length k).mro

theorem cacyc {σ : Spec} (h : SpecWF σ) : Acyclic σ.pyBases (fun x => σ.classes.idxOf x) :=
  fun c b hb => (h.py_wf c b hb).2.2

theorem smro_valid {σ : Spec} (h : SpecWF σ) {k : Nat} (hk : k ∈ σ.classes) : ValidLin σ.pyBases k (smro σ k) :=
  roFull_valid (cacyc h) _ k (List.idxOf_lt_length_of_mem hk)

theorem reach_classes {σ : Spec} (h : SpecWF σ) {k t : Nat} (hk : k ∈ σ.classes) (hr : Reach σ.pyBases k t) :
    t ∈ σ.classes := by
  induction hr with
  | refl => exact hk
  | step hb _ ih => exact ih (h.py_wf _ _ hb).2.1

theorem smro_classes {σ : Spec} (h : SpecWF σ) {k d : Nat} (hk : k ∈ σ.classes) (hd : d ∈ smro σ k) : d ∈ σ.classes :=
  reach_classes h hk (((smro_valid h hk).mem d).mp hd)

theorem remainder_sublist (l : List Nat) (c : Nat) : (remainder l c).Sublist l :=
  (List.drop_sublist _ _).trans (List.dropWhile_sublist _)

theorem mro2_eq {w : W} {σ : Spec} (h : Sim w σ) {fuel : Nat} (hf : σ.classes.length ≤ fuel) {k : Nat}
    (hk : k ∈ σ.classes) : mro2 fuel w k = smro σ k := by
  have e : classBases2 w = σ.pyBases := by funext c; exact h.c.cpy c
  have := List.idxOf_lt_length_of_mem hk
  unfold mro2 smro
  rw [e, roFull_fuel (cacyc h.wf) fuel σ.classes.length k (by omega) this]

/-! ## 3. frame facts of the declaration operations: what no step of `declarations.py` ever touches

Every operation of `ZI.Classes2` only (a) creates nodes at the fresh id `next`, (b) creates interface nodes (ids `< 1000`),
(c) re-bases the specification of a class.  So a specification object that is not a class specification (a `Provides`
object or a synthesized `super` specification, `IsPNode`) keeps its bases for ever, and class specifications, once created,
stay the specification of their class. -/

structure FrameL (w w' : W) : Prop where
  next_le : w.next ≤ w'.next
  newspec : ∀ c s : Nat, (w'.cls c).spec = some s → (w.cls c).spec = some s ∨ w.next ≤ s
  pbases : ∀ p : Nat, IsPNode w p → w'.g.bases p = w.g.bases p

theorem FrameL.refl (w : W) : FrameL w w := ⟨Nat.le_refl _, fun _ _ h => Or.inl h, fun _ _ => rfl⟩

theorem FrameL.pnode {w w' : W} (h : FrameL w w') {p : Nat} (hp : IsPNode w p) : IsPNode w' p :=
  hp.mono h.next_le h.newspec

theorem FrameL.trans {w w' w'' : W} (h1 : FrameL w w') (h2 : FrameL w' w'') : FrameL w w'' := by
  refine ⟨Nat.le_trans h1.next_le h2.next_le, fun c s hs => ?_, fun p hp => ?_⟩
  · rcases h2.newspec c s hs with h | h
    · exact h1.newspec c s h
    · exact Or.inr (Nat.le_trans h1.next_le h)
  · rw [h2.pbases p (h1.pnode hp), h1.pbases p hp]

theorem Ext.refl (w : W) : Ext w w := fun _ _ h => h
theorem Ext.trans {w w' w'' : W} (h1 : Ext w w') (h2 : Ext w' w'') : Ext w w'' := fun x s h => h2 x s (h1 x s h)

/-- graph, `next` and the `spec` fields agree: same frame -/
theorem FrameL.of_eq {w w' : W} (h1 : w'.next = w.next) (h2 : ∀ c, (w'.cls c).spec = (w.cls c).spec) (h3 : w'.g = w.g) :
    FrameL w w' :=
  ⟨by rw [h1]; exact Nat.le_refl _, fun c s hs => Or.inl (by rw [← h2]; exact hs), fun p _ => by rw [h3]⟩

theorem frameL_mkSpec (w : W) (c : Nat) (bs : List Nat) : FrameL w (mkSpec w c bs).1 := by
  have hcls : (mkSpec w c bs).1.cls = upd w.cls c { w.cls c with spec := some w.next } := rfl
  have hnext : (mkSpec w c bs).1.next = w.next + 1 := rfl
  have hg : (mkSpec w c bs).1.g = newNode w.g w.next bs := rfl
  refine ⟨by rw [hnext]; omega', fun x s hs => ?_, fun p hp => ?_⟩
  · rw [hcls] at hs
    by_cases hx : x = c
    · subst hx; rw [upd_same] at hs
      have : s = w.next := (Option.some.inj hs).symm
      exact Or.inr (by omega')
    · rw [upd_other _ _ hx] at hs; exact Or.inl hs
  · have := hp.2.1
    rw [hg, bases_newNode, upd_other _ _ (by omega')]

theorem frameL_specFold {rec : W → Id → W × Id} (hrec : ∀ w c, FrameL w (rec w c).1) :
    ∀ (l : List Nat) (w : W), FrameL w (specFold rec w l).1 := by
  intro l
  induction l with
  | nil => intro w; exact FrameL.refl w
  | cons b t ih => intro w; simp only [specFold]; exact (hrec w b).trans (ih _)

theorem ext_specFold {rec : W → Id → W × Id} (hrec : ∀ w c, Ext w (rec w c).1) :
    ∀ (l : List Nat) (w : W), Ext w (specFold rec w l).1 := by
  intro l
  induction l with
  | nil => intro w; exact Ext.refl w
  | cons b t ih => intro w; simp only [specFold]; exact Ext.trans (hrec w b) (ih _)

theorem frameL_implementedBy : ∀ (f : Nat) (w : W) (c : Nat), FrameL w (implementedBy f w c).1 := by
  intro f
  induction f with
  | zero => intro w c; exact FrameL.refl w
  | succ f ih =>
    intro w c
    cases hsp : (w.cls c).spec with
    | some s => rw [implementedBy_some hsp]; exact FrameL.refl w
    | none => rw [implementedBy_none hsp]; exact (frameL_specFold ih _ w).trans (frameL_mkSpec _ _ _)

/-- class specifications, once created, stay (no acyclicity needed: a specification is only ever written into a class
whose `__implemented__` was missing when the call started) -/
theorem ext_implementedBy : ∀ (f : Nat) (w : W) (c : Nat), Ext w (implementedBy f w c).1 := by
  intro f
  induction f with
  | zero => intro w c; exact Ext.refl w
  | succ f ih =>
    intro w c
    cases hsp : (w.cls c).spec with
    | some s => rw [implementedBy_some hsp]; exact Ext.refl w
    | none =>
      rw [implementedBy_none hsp]
      intro x s hs
      have hx : x ≠ c := fun e => by rw [e, hsp] at hs; cases hs
      rw [mkSpec_cls_ne _ _ _ hx]
      exact ext_specFold ih _ w x s hs

theorem implementedBy_spec (f : Nat) (w : W) (c : Nat) :
    ((implementedBy (f+1) w c).1.cls c).spec = some (implementedBy (f+1) w c).2 := by
  cases hsp : (w.cls c).spec with
  | some s => rw [implementedBy_some hsp]; exact hsp
  | none =>
    rw [implementedBy_none hsp]
    show Cls.spec (upd _ c _ c) = _
    rw [upd_same]; rfl

theorem frameL_addBaseSpecs (fuel : Nat) : ∀ (bs : List Nat) (w : W) (acc : List Nat),
    FrameL w (addBaseSpecs fuel w bs acc).1 := by
  intro bs
  induction bs with
  | nil => intro w acc; exact FrameL.refl w
  | cons b t ih => intro w acc; simp only [addBaseSpecs]; exact (frameL_implementedBy fuel w b).trans (ih _ _)

theorem ext_addBaseSpecs (fuel : Nat) : ∀ (bs : List Nat) (w : W) (acc : List Nat),
    Ext w (addBaseSpecs fuel w bs acc).1 := by
  intro bs
  induction bs with
  | nil => intro w acc; exact Ext.refl w
  | cons b t ih => intro w acc; simp only [addBaseSpecs]; exact Ext.trans (ext_implementedBy fuel w b) (ih _ _)

theorem rebase_spec (w : W) (c s : Nat) (nd : List Nat) (inh' : Bool) (bs : List Nat) (x : Nat) :
    ((rebase w c s nd inh' bs).cls x).spec = (w.cls x).spec := by
  show Cls.spec (upd w.cls c _ x) = _
  by_cases hx : x = c
  · subst hx; rw [upd_same]
  · rw [upd_other _ _ hx]

/-- re-basing the specification of a class -/
theorem frameL_rebase {w : W} {c' s : Nat} (hs : (w.cls c').spec = some s) (c : Nat) (nd : List Nat) (inh' : Bool)
    (bs : List Nat) : FrameL w (rebase w c s nd inh' bs) := by
  refine ⟨Nat.le_refl _, fun x s' hs' => Or.inl (by rw [rebase_spec] at hs'; exact hs'), fun p hp => ?_⟩
  have hps : p ≠ s := fun e => hp.2.2 c' (e ▸ hs)
  show (setBases w.g s bs).bases p = _
  rw [bases_setBases, upd_other _ _ hps]

theorem frameL_declareOn {w : W} {c s : Nat} (hs : (w.cls c).spec = some s) (fuel : Nat) (before after : List Nat) :
    FrameL w (declareOn fuel w c s before after) := by
  rw [declareOn_eq]
  generalize hwb : (if (w.cls c).inherit then addBaseSpecs fuel w (w.cls c).pyBases (newDeclared w c s before after)
              else (w, newDeclared w c s before after)) = wb
  have h1 : FrameL w wb.1 ∧ Ext w wb.1 := by
    rw [← hwb]; split
    · exact ⟨frameL_addBaseSpecs _ _ _ _, ext_addBaseSpecs _ _ _ _⟩
    · exact ⟨FrameL.refl w, Ext.refl w⟩
  exact h1.1.trans (frameL_rebase (h1.2 c s hs) c _ _ _)

theorem ext_declareOn (w : W) (c s : Nat) (fuel : Nat) (before after : List Nat) :
    Ext w (declareOn fuel w c s before after) := by
  rw [declareOn_eq]
  generalize hwb : (if (w.cls c).inherit then addBaseSpecs fuel w (w.cls c).pyBases (newDeclared w c s before after)
              else (w, newDeclared w c s before after)) = wb
  have h1 : Ext w wb.1 := by
    rw [← hwb]; split
    · exact ext_addBaseSpecs _ _ _ _
    · exact Ext.refl w
  intro x s' hs'
  rw [rebase_spec]; exact h1 x s' hs'

theorem frameL_ordered (f : Nat) (w : W) (c : Nat) (before after : List Nat) :
    FrameL w (classImplementsOrdered (f+1) w c before after) :=
  (frameL_implementedBy (f+1) w c).trans (frameL_declareOn (implementedBy_spec f w c) _ _ _)

theorem ext_ordered (fuel : Nat) (w : W) (c : Nat) (before after : List Nat) :
    Ext w (classImplementsOrdered fuel w c before after) :=
  Ext.trans (ext_implementedBy fuel w c) (ext_declareOn _ _ _ _ _ _)

theorem frameL_newProvides (w : W) (c : Nat) (L fb : List Nat) : FrameL w (newProvides w c L fb).1 := by
  refine ⟨by show w.next ≤ w.next + 1; omega', fun x s hs => Or.inl hs, fun p hp => ?_⟩
  have := hp.2.1
  show (newNode w.g w.next fb).bases p = _
  rw [bases_newNode, upd_other _ _ (by omega')]

theorem frameL_provides (fuel : Nat) (w : W) (c : Nat) (L : List Nat) : FrameL w (provides fuel w c L).1 := by
  have h1 : FrameL w (addInterfacesToCls fuel w L c).1 := frameL_implementedBy fuel w c
  unfold provides
  simp only []
  split
  · exact h1
  · exact h1.trans (frameL_newProvides _ _ _ _)

theorem ext_provides (fuel : Nat) (w : W) (c : Nat) (L : List Nat) : Ext w (provides fuel w c L).1 := by
  have h1 : Ext w (addInterfacesToCls fuel w L c).1 := ext_implementedBy fuel w c
  unfold provides
  simp only []
  split
  · exact h1
  · exact h1

theorem frameL_dp (fuel : Nat) (w : W) (o : Nat) (L : List Nat) : FrameL w (directlyProvides fuel w o L) :=
  (frameL_provides fuel w (w.inst o).cls L).trans (FrameL.of_eq rfl (fun _ => rfl) rfl)

theorem ext_dp (fuel : Nat) (w : W) (o : Nat) (L : List Nat) : Ext w (directlyProvides fuel w o L) :=
  ext_provides fuel w (w.inst o).cls L

theorem frameL_providedBy (fuel : Nat) (w : W) (o : Nat) : FrameL w (providedBy fuel w o).1 := by
  unfold providedBy; split
  · exact FrameL.refl w
  · exact frameL_implementedBy _ _ _

theorem ext_providedBy (fuel : Nat) (w : W) (o : Nat) : Ext w (providedBy fuel w o).1 := by
  unfold providedBy; split
  · exact Ext.refl w
  · exact ext_implementedBy _ _ _

/-- **frame of one step**: a specification object that is not a class specification keeps its bases, class
specifications stay, nothing is created below `next` -/
structure Frame (w w' : W) : Prop extends FrameL w w' where
  ext : Ext w w'

theorem Frame.refl (w : W) : Frame w w := ⟨FrameL.refl w, Ext.refl w⟩
theorem Frame.trans {w w' w'' : W} (h1 : Frame w w') (h2 : Frame w' w'') : Frame w w'' :=
  ⟨h1.toFrameL.trans h2.toFrameL, Ext.trans h1.ext h2.ext⟩

theorem frame_step {w : W} {σ : Spec} (h : Sim w σ) (op : HOp) (hw : WFop σ op) {fuel : Nat}
    (hf : σ.classes.length ≤ fuel) : Frame w (stepW fuel w op) := by
  have hfuel : ∀ c, c ∈ σ.classes → ∃ f, fuel = f + 1 := fun c hc => by
    have := List.length_pos_of_mem hc
    exact ⟨fuel - 1, by omega⟩
  cases op with
  | iface i bs =>
    refine ⟨⟨Nat.le_refl _, fun _ _ hs => Or.inl hs, fun p hp => ?_⟩, Ext.refl _⟩
    have := hp.1; have := hw.1
    show (newNode w.g i bs).bases p = _
    rw [bases_newNode, upd_other _ _ (by omega')]
  | cls c pb =>
    have hnone : (w.cls c).spec = none := by
      cases hsp : (w.cls c).spec with
      | none => rfl
      | some s => exact absurd (h.c.spec_cls c s hsp).1 hw.1
    have hspec : ∀ b : Nat, ((w.setCls c { pyBases := pb }).cls b).spec = (w.cls b).spec := by
      intro b
      show Cls.spec (upd w.cls c _ b) = _
      by_cases hb : b = c
      · subst hb; rw [upd_same, hnone]
      · rw [upd_other _ _ hb]
    exact ⟨FrameL.of_eq rfl hspec rfl, fun x s hs => (hspec x).trans hs⟩
  | inst o c => exact ⟨FrameL.of_eq rfl (fun _ => rfl) rfl, Ext.refl _⟩
  | classImplements c L =>
    obtain ⟨f, rfl⟩ := hfuel c hw.1
    exact ⟨(frameL_implementedBy _ w c).trans (frameL_ordered f _ c _ _),
      Ext.trans (ext_implementedBy _ w c) (ext_ordered _ _ c _ _)⟩
  | classImplementsOnly c L =>
    obtain ⟨f, rfl⟩ := hfuel c hw.1
    refine ⟨(frameL_implementedBy _ w c).trans
      ((frameL_rebase (implementedBy_spec f w c) c [] false []).trans (frameL_ordered f _ c _ _)), ?_⟩
    refine Ext.trans (ext_implementedBy (f+1) w c) (Ext.trans (w' := resetDecl (implementedBy (f+1) w c).1 c (implementedBy (f+1) w c).2) ?_ (ext_ordered _ _ c _ _))
    intro x s hs
    show (((rebase (implementedBy (f+1) w c).1 c (implementedBy (f+1) w c).2 [] false []).cls x).spec) = _
    rw [rebase_spec]; exact hs
  | classImplementsFirst c i =>
    obtain ⟨f, rfl⟩ := hfuel c hw.1
    exact ⟨frameL_ordered f _ c _ _, ext_ordered _ _ c _ _⟩
  | directlyProvides o L => exact ⟨frameL_dp _ _ _ _, ext_dp _ _ _ _⟩
  | alsoProvides o L => exact ⟨frameL_dp _ _ _ _, ext_dp _ _ _ _⟩
  | noLongerProvides o j =>
    exact ⟨(frameL_dp _ _ _ _).trans (frameL_providedBy _ _ _), Ext.trans (ext_dp _ _ _ _) (ext_providedBy _ _ _)⟩
  | qImpl c => exact ⟨frameL_implementedBy _ _ _, ext_implementedBy _ _ _⟩
  | qProv o => exact ⟨frameL_providedBy _ _ _, ext_providedBy _ _ _⟩

/-! ## 4. synthesized specifications: creation keeps the invariants, membership follows the CURRENT declarations -/

/-- `s` is a synthesized specification for the classes `ks`: a specification object that is not a class specification
and whose bases are exactly the specifications of `ks`, in order -/
def SuperFor (w : W) (s : Nat) (ks : List Nat) : Prop :=
  IsPNode w s ∧ (w.g.bases s).map some = ks.map (fun d => (w.cls d).spec)

theorem spec_of_map_some {l bs : List Nat} {f : Nat → Option Nat} (h : bs.map some = l.map f) {d : Nat} (hd : d ∈ l) :
    ∃ b ∈ bs, f d = some b := by
  have hm : f d ∈ l.map f := List.mem_map.mpr ⟨d, hd, rfl⟩
  rw [← h] at hm
  obtain ⟨b, hb, e⟩ := List.mem_map.mp hm
  exact ⟨b, hb, e.symm⟩

/-- no later operation touches the synthesized specification, and its bases stay the specifications of `ks` -/
theorem SuperFor.frame {w w' : W} {s : Nat} {ks : List Nat} (h : SuperFor w s ks) (hf : Frame w w') :
    SuperFor w' s ks := by
  refine ⟨hf.pnode h.1, ?_⟩
  rw [hf.pbases s h.1, h.2]
  apply List.map_congr_left
  intro d hd
  obtain ⟨b, _, hb⟩ := spec_of_map_some h.2 hd
  rw [hb, hf.ext d b hb]

/-- **core lemma**: the interfaces in the resolution order of a synthesized specification for `ks` are exactly the
interfaces implemented (NOW) by one of the classes `ks` -/
theorem SuperFor.mem_iff {w : W} {σ : Spec} (h : Sim w σ) {s : Nat} {ks : List Nat} (hs : SuperFor w s ks) {i : Nat}
    (hi : i < 1000) : i ∈ w.g.sro s ↔ ((∃ d ∈ ks, Impl σ d i) ∨ i = 0) := by
  rw [h.mem_sro]
  constructor
  · rintro (hr | rfl)
    · rcases reach_iff.mp hr with h1 | ⟨b, hb, hbi⟩
      · have := hs.1.1; omega'
      · obtain ⟨d, hd, hsp⟩ := (mem_of_map_some hs.2 b).mp hb
        exact Or.inl ⟨d, hd, h.reach_impl b d i hsp hi hbi⟩
    · exact Or.inr rfl
  · rintro (⟨d, hd, hI⟩ | rfl)
    · obtain ⟨b, hb, hsp⟩ := spec_of_map_some hs.2 hd
      rcases h.impl_reach hI b hsp with hr | h0
      · exact Or.inl (Reach.step hb hr)
      · exact Or.inr h0
    · exact Or.inr rfl

/-- creating the synthesized specification: the new node keeps `Graph2.Inv` (duplicate-free bases — different classes
have different specifications —, rank above all class specifications) and every other part of the simulation -/
theorem sim_newSuper {w : W} {σ : Spec} (h : Sim w σ) {ks bs : List Nat} (hks : ks.Nodup)
    (hbs : bs.map some = ks.map (fun d => (w.cls d).spec)) :
    Sim (newSuper w bs) σ ∧ SuperFor (newSuper w bs) w.next ks ∧ Frame w (newSuper w bs) := by
  have hmem := mem_of_map_some hbs
  have hg : (newSuper w bs).g = newNode w.g w.next bs := rfl
  have hnext : (newSuper w bs).next = w.next + 1 := rfl
  have hcls : (newSuper w bs).cls = w.cls := rfl
  have hnge := h.g.next_ge
  have hcount := h.g.count
  have ib' : ∀ x : Nat, x < 1000 → upd w.g.bases w.next bs x = σ.ibases x := by
    intro x hx; rw [upd_other _ _ (by omega')]; exact h.g.ib x hx
  have hi' : ∀ x b : Nat, 1000 ≤ x → b ∈ upd w.g.bases w.next bs x →
      x < w.next + 1 ∧ (b ∈ σ.ifaces ∨ (1000 ≤ b ∧ b < x)) := by
    intro x b hx hb
    by_cases hxn : x = w.next
    · subst hxn
      rw [upd_same] at hb
      obtain ⟨d, _, hd⟩ := (hmem b).mp hb
      obtain ⟨_, a1, a2⟩ := h.c.spec_cls d b hd
      exact ⟨by omega', Or.inr ⟨a1, a2⟩⟩
    · rw [upd_other _ _ hxn] at hb
      obtain ⟨a, b'⟩ := h.g.hi x b hx hb
      exact ⟨by omega', b'⟩
  have hnd : bs.Nodup := nodup_of_map_some (fun a b s ha hb => h.c.spec_inj a b s ha hb) hks hbs
  have hfr : Frame w (newSuper w bs) := by
    refine ⟨⟨by rw [hnext]; omega', fun c s hs => Or.inl hs, fun p hp => ?_⟩, fun _ _ hs => hs⟩
    have := hp.2.1
    rw [hg, bases_newNode, upd_other _ _ (by omega')]
  have hnew : IsPNode (newSuper w bs) w.next := by
    refine ⟨by omega', by rw [hnext]; omega', fun x hx => ?_⟩
    have := (h.c.spec_cls x w.next hx).2.2
    omega'
  refine ⟨⟨h.wf, ?_, ?_, ?_⟩, ⟨hnew, ?_⟩, hfr⟩
  · refine ⟨?_, ?_, ?_, ?_, h.g.fixed, ?_, ?_⟩
    · rw [hg]
      exact inv_newNode h.g.inv w.next bs hnd (by omega') (shape_of h.wf ib' hi') (by omega')
    · rw [hg, root_newNode]; exact h.g.root
    · rw [hnext]; omega'
    · rw [hg, ids_newNode, hnext]; simp; omega'
    · intro x hx; rw [hg, bases_newNode]; exact ib' x hx
    · intro x b hx hb; rw [hg, bases_newNode] at hb; rw [hnext]; exact hi' x b hx hb
  · exact h.c.frame rfl rfl (by rw [hnext]; omega')
      (fun x _ hx => by rw [hg, bases_newNode, upd_other _ _ (by omega')]) rfl rfl rfl rfl (fun _ h => h)
  · exact h.i.frame rfl rfl rfl (by rw [hnext]; omega') (fun _ _ hs => hs) (fun _ _ hs => Or.inl hs)
      (fun p hp => hfr.pbases p hp) rfl rfl rfl
  · rw [hg, bases_newNode, upd_same, hcls]; exact hbs

/-- `[implementedBy(k) for k in keep]`: all specifications exist afterwards and are what the loop returns -/
theorem sim_specFold {σ : Spec} {fuel : Nat} (hf : σ.classes.length ≤ fuel) : ∀ (bs : List Nat) (w : W), Sim w σ →
    (∀ b ∈ bs, b ∈ σ.classes) →
    Sim (specFold (implementedBy fuel) w bs).1 σ ∧ Frame w (specFold (implementedBy fuel) w bs).1 ∧
    (specFold (implementedBy fuel) w bs).2.map some
      = bs.map (fun b => ((specFold (implementedBy fuel) w bs).1.cls b).spec) := by
  intro bs
  induction bs with
  | nil => intro w h _; exact ⟨h, Frame.refl w, rfl⟩
  | cons b t iht =>
    intro w h hb
    have hb1 := hb b (by simp)
    have hidx : σ.classes.idxOf b < fuel := by have := List.idxOf_lt_length_of_mem hb1; omega
    obtain ⟨a1, a2, _, _⟩ := sim_implementedBy fuel w b h hb1 hidx
    obtain ⟨b1, b2, b4⟩ := iht (implementedBy fuel w b).1 a1 (fun x hx => hb x (by simp [hx]))
    simp only [specFold]
    refine ⟨b1, Frame.trans ⟨frameL_implementedBy _ _ _, ext_implementedBy _ _ _⟩ b2, ?_⟩
    simp only [List.map_cons, b4, b2.ext b _ a2]

/-! ## 5. histories with `super()` queries; the cache invariant -/

/-- a step of a history: any step of C01's histories, or a query `providedBy(super(c, o))` -/
inductive Op19
  | base (op : HOp)
  | qSuper (c o : Nat)

def specStep19 (σ : Spec) : Op19 → Spec
  | .base op => specStep σ op
  | .qSuper _ _ => σ

/-- well-formedness: C01's for the inherited steps; for `super(c, o)` the instance exists.  (`c` need not be in the MRO
of `type(o)`: Python raises `TypeError` then; the model computes the empty remainder and the theorems below still hold.) -/
def WFop19 (σ : Spec) : Op19 → Prop
  | .base op => WFop σ op
  | .qSuper _ o => o ∈ σ.insts

instance (σ : Spec) (op : Op19) : Decidable (WFop19 σ op) := by
  cases op <;> unfold WFop19 <;> infer_instance

def specRunFrom19 (σ : Spec) (h : List Op19) : Spec := h.foldl specStep19 σ
def specRun19 (h : List Op19) : Spec := specRunFrom19 Spec.init h
def WFFrom19 : Spec → List Op19 → Prop
  | _, [] => True
  | σ, op :: rest => WFop19 σ op ∧ WFFrom19 (specStep19 σ op) rest
def WFHist19 (h : List Op19) : Prop := WFFrom19 Spec.init h

instance : ∀ (σ : Spec) (h : List Op19), Decidable (WFFrom19 σ h)
  | _, [] => by unfold WFFrom19; infer_instance
  | σ, op :: rest => by
    unfold WFFrom19
    have := instDecidableWFFrom19 (specStep19 σ op) rest
    infer_instance
instance (h : List Op19) : Decidable (WFHist19 h) := by unfold WFHist19; infer_instance

/-- `Implements.changed()` deletes `_super_cache`; `changed()` on the re-based specification of class `c` runs on every
specification that has it in its resolution order (its transitive `_dependents`): their entries go -/
def dropChanged (w : W) (c : Id) (cache : List ((Id × Id) × Id)) : List ((Id × Id) × Id) :=
  match (w.cls c).spec with
  | some s => cache.filter fun e => !((w.g.sro e.1.1).contains s)
  | none => cache

/-- the model transition on the extended world -/
def stepU (fuel : Nat) (u : W19) : Op19 → W19
  | .base op =>
    { w := stepW fuel u.w op,
      superCache := match clsTarget op with
        | some c => dropChanged (stepW fuel u.w op) c u.superCache
        | none => u.superCache }
  | .qSuper c o => (superSpec2 fuel u c o).1

def runFrom19 (fuel : Nat) (u : W19) (h : List Op19) : W19 := h.foldl (stepU fuel) u
def run19 (fuel : Nat) (h : List Op19) : W19 := runFrom19 fuel { w := init true, superCache := [] } h

/-- a cache entry `(spec(k), c) ↦ s`: `s` is a synthesized specification for the remainder of `k`'s MRO after `c` -/
def EntryOk (w : W) (σ : Spec) (e : (Nat × Nat) × Nat) : Prop :=
  ∃ k ∈ σ.classes, (w.cls k).spec = some e.1.1 ∧ SuperFor w e.2 (remainder (smro σ k) e.1.2)

structure CacheOk (w : W) (σ : Spec) (cache : List ((Nat × Nat) × Nat)) : Prop where
  entry : ∀ e ∈ cache, EntryOk w σ e
  nodup : (cache.map (·.2)).Nodup

theorem classes_step {σ : Spec} (op : HOp) {k : Nat} (hk : k ∈ σ.classes) : k ∈ (specStep σ op).classes := by
  cases op <;> simp [specStep, hk]

theorem insts_step {σ : Spec} (op : HOp) {o : Nat} (ho : o ∈ σ.insts) : o ∈ (specStep σ op).insts := by
  cases op <;> simp [specStep, ho]

theorem classes_len_step (σ : Spec) (op : HOp) : σ.classes.length ≤ (specStep σ op).classes.length := by
  cases op <;> simp [specStep]

/-- the MRO of an existing class never changes (class `__bases__` are fixed at creation in these histories) -/
theorem smro_step {σ : Spec} (wf : SpecWF σ) (op : HOp) (hw : WFop σ op) {k : Nat} (hk : k ∈ σ.classes) :
    smro (specStep σ op) k = smro σ k := by
  cases op with
  | cls c pb =>
    have hidx := List.idxOf_lt_length_of_mem hk
    have e1 : roFull σ.pyBases (σ.classes.length + 1) k = roFull (upd σ.pyBases c pb) (σ.classes.length + 1) k := by
      apply roFull_local
      intro x hx
      have hxc : x ≠ c := fun e => hw.1 (e ▸ reach_classes wf hk hx)
      rw [upd_other _ _ hxc]
    show (roFull (upd σ.pyBases c pb) (σ.classes ++ [c]).length k).mro = _
    rw [List.length_append, List.length_singleton, ← e1]
    unfold smro
    rw [roFull_fuel (cacyc wf) (σ.classes.length + 1) σ.classes.length k (by omega) hidx]
  | _ => rfl

theorem EntryOk.step {w w' : W} {σ σ' : Spec} {e : (Nat × Nat) × Nat} (h : EntryOk w σ e) (hf : Frame w w')
    (hcl : ∀ k ∈ σ.classes, k ∈ σ'.classes ∧ smro σ' k = smro σ k) : EntryOk w' σ' e := by
  obtain ⟨k, hk, hs, hsf⟩ := h
  refine ⟨k, (hcl k hk).1, hf.ext k _ hs, ?_⟩
  rw [(hcl k hk).2]; exact hsf.frame hf

theorem CacheOk.frame {w w' : W} {σ : Spec} {cache : List ((Nat × Nat) × Nat)} (h : CacheOk w σ cache)
    (hf : Frame w w') : CacheOk w' σ cache :=
  ⟨fun e he => (h.entry e he).step hf (fun _ hk => ⟨hk, rfl⟩), h.nodup⟩

theorem find_key {cache : List ((Nat × Nat) × Nat)} {key : Nat × Nat} {s : Nat}
    (h : (cache.find? (·.1 == key)).map (·.2) = some s) : ∃ e ∈ cache, e.1 = key ∧ e.2 = s := by
  cases hfind : cache.find? (·.1 == key) with
  | none => rw [hfind] at h; simp at h
  | some e =>
    rw [hfind] at h; simp at h
    exact ⟨e, List.mem_of_find?_eq_some hfind, by simpa using List.find?_some hfind, h⟩

/-- **one `super(c, o)` query** (cache hit or miss): the simulation and the cache invariant are kept, nothing else is
touched, and the returned object is a synthesized specification for the remainder of the MRO of `type(o)` after `c` -/
theorem super_query {u : W19} {σ : Spec} (h : Sim u.w σ) (hc : CacheOk u.w σ u.superCache) {fuel : Nat}
    (hf : σ.classes.length ≤ fuel) {o : Nat} (ho : o ∈ σ.insts) (c : Nat) :
    Sim (superSpec2 fuel u c o).1.w σ ∧ CacheOk (superSpec2 fuel u c o).1.w σ (superSpec2 fuel u c o).1.superCache ∧
    Frame u.w (superSpec2 fuel u c o).1.w ∧
    SuperFor (superSpec2 fuel u c o).1.w (superSpec2 fuel u c o).2 (remainder (smro σ (σ.clsOf o)) c) := by
  have hk := h.wf.cls_mem o ho
  have hidx : σ.classes.idxOf (σ.clsOf o) < fuel := by have := List.idxOf_lt_length_of_mem hk; omega
  obtain ⟨a1, a2, _, _⟩ := sim_implementedBy fuel u.w (σ.clsOf o) h hk hidx
  have hfr1 : Frame u.w (implementedBy fuel u.w (σ.clsOf o)).1 := ⟨frameL_implementedBy _ _ _, ext_implementedBy _ _ _⟩
  unfold superSpec2
  rw [h.i.icls o]
  generalize implementedBy fuel u.w (σ.clsOf o) = r at a1 a2 hfr1
  split
  · rename_i s hhit
    obtain ⟨e, he, hek, hes⟩ := find_key hhit
    obtain ⟨k, hkc, hks, hsf⟩ := hc.entry e he
    rw [hek] at hks hsf
    have hkk : k = σ.clsOf o := a1.c.spec_inj k (σ.clsOf o) r.2 (hfr1.ext k _ hks) a2
    subst hkk
    rw [hes] at hsf
    exact ⟨a1, hc.frame hfr1, hfr1, hsf.frame hfr1⟩
  · rename_i hmiss
    rw [mro2_eq a1 hf hk]
    have hval := smro_valid h.wf hk
    have hsub := remainder_sublist (smro σ (σ.clsOf o)) c
    obtain ⟨b1, b2, b4⟩ := sim_specFold hf (remainder (smro σ (σ.clsOf o)) c) r.1 a1
      (fun d hd => smro_classes h.wf hk (hsub.subset hd))
    generalize specFold (implementedBy fuel) r.1 (remainder (smro σ (σ.clsOf o)) c) = rb at b1 b2 b4
    obtain ⟨c1, c2, c3⟩ := sim_newSuper b1 (hval.nodup.sublist hsub) b4
    have hfr : Frame u.w (newSuper rb.1 rb.2) := (hfr1.trans b2).trans c3
    refine ⟨c1, ⟨?_, ?_⟩, hfr, c2⟩
    · intro e he
      rcases List.mem_append.mp he with he | he
      · exact (hc.entry e he).step hfr (fun _ hk => ⟨hk, rfl⟩)
      · simp at he; subst he
        exact ⟨σ.clsOf o, hk, c3.ext _ _ (b2.ext _ _ a2), c2⟩
    · rw [List.map_append, List.nodup_append]
      refine ⟨hc.nodup, by simp, ?_⟩
      intro a ha b hb
      simp at hb; subst hb
      obtain ⟨e, he, rfl⟩ := List.mem_map.mp ha
      obtain ⟨_, _, _, hsf⟩ := hc.entry e he
      have := ((hfr1.trans b2).pnode hsf.1).2.1
      omega'

/-- the combined invariant of the extended world -/
structure Sim19 (u : W19) (σ : Spec) : Prop where
  sim : Sim u.w σ
  cache : CacheOk u.w σ u.superCache

/-- what never changes along a history: existing classes keep their MRO, existing instances keep their class -/
def Stable (σ σ' : Spec) : Prop :=
  (∀ k ∈ σ.classes, k ∈ σ'.classes ∧ smro σ' k = smro σ k) ∧ (∀ o ∈ σ.insts, o ∈ σ'.insts ∧ σ'.clsOf o = σ.clsOf o)

theorem Stable.refl (σ : Spec) : Stable σ σ := ⟨fun _ h => ⟨h, rfl⟩, fun _ h => ⟨h, rfl⟩⟩
theorem Stable.trans {σ σ' σ'' : Spec} (h1 : Stable σ σ') (h2 : Stable σ' σ'') : Stable σ σ'' :=
  ⟨fun k hk => ⟨(h2.1 k (h1.1 k hk).1).1, (h2.1 k (h1.1 k hk).1).2.trans (h1.1 k hk).2⟩,
   fun o ho => ⟨(h2.2 o (h1.2 o ho).1).1, (h2.2 o (h1.2 o ho).1).2.trans (h1.2 o ho).2⟩⟩

theorem clsOf_step {σ : Spec} (op : HOp) (hw : WFop σ op) {o : Nat} (ho : o ∈ σ.insts) :
    (specStep σ op).clsOf o = σ.clsOf o := by
  cases op with
  | inst o' c =>
    have : o ≠ o' := fun e => hw.1 (e ▸ ho)
    show upd σ.clsOf o' c o = _
    rw [upd_other _ _ this]
  | _ => rfl

theorem stable_step {σ : Spec} (wf : SpecWF σ) (op : Op19) (hw : WFop19 σ op) : Stable σ (specStep19 σ op) := by
  cases op with
  | qSuper _ _ => exact Stable.refl σ
  | base op =>
    exact ⟨fun k hk => ⟨classes_step op hk, smro_step wf op hw hk⟩, fun o ho => ⟨insts_step op ho, clsOf_step op hw ho⟩⟩

theorem sim19_step {u : W19} {σ : Spec} (h : Sim19 u σ) (op : Op19) (hw : WFop19 σ op) {fuel : Nat}
    (hf : σ.classes.length ≤ fuel) : Sim19 (stepU fuel u op) (specStep19 σ op) ∧ Frame u.w (stepU fuel u op).w := by
  cases op with
  | qSuper c o =>
    obtain ⟨a, b, c', _⟩ := super_query h.sim h.cache hf hw c
    exact ⟨⟨a, b⟩, c'⟩
  | base op =>
    have hfr := frame_step h.sim op hw hf
    have hkeep : ∀ cache' : List ((Nat × Nat) × Nat), cache'.Sublist u.superCache →
        CacheOk (stepW fuel u.w op) (specStep σ op) cache' := by
      intro cache' hsub
      refine ⟨fun e he => (h.cache.entry e (hsub.subset he)).step hfr
        (fun k hk => ⟨classes_step op hk, smro_step h.sim.wf op hw hk⟩), (hsub.map _).nodup h.cache.nodup⟩
    refine ⟨⟨sim_step h.sim op hw hf, ?_⟩, hfr⟩
    show CacheOk (stepW fuel u.w op) (specStep σ op) (match clsTarget op with
        | some c => dropChanged (stepW fuel u.w op) c u.superCache
        | none => u.superCache)
    split
    · apply hkeep
      unfold dropChanged
      split
      · exact List.filter_sublist
      · exact List.Sublist.refl _
    · exact hkeep _ (List.Sublist.refl _)

theorem init19 : Sim19 { w := init true, superCache := [] } Spec.init :=
  ⟨sim_init, ⟨fun _ he => absurd he (by simp), by simp⟩⟩

theorem classes_len_step19 (σ : Spec) (op : Op19) : σ.classes.length ≤ (specStep19 σ op).classes.length := by
  cases op with
  | base op => exact classes_len_step σ op
  | qSuper _ _ => exact Nat.le_refl _

theorem classes_len_run19 : ∀ (h : List Op19) (σ : Spec), σ.classes.length ≤ (specRunFrom19 σ h).classes.length := by
  intro h
  induction h with
  | nil => intro σ; exact Nat.le_refl _
  | cons op rest ih => intro σ; exact Nat.le_trans (classes_len_step19 σ op) (ih (specStep19 σ op))

/-- **simulation along a history with `super()` queries** -/
theorem sim19_runFrom {fuel : Nat} : ∀ (h : List Op19) (u : W19) (σ : Spec), Sim19 u σ → WFFrom19 σ h →
    (specRunFrom19 σ h).classes.length ≤ fuel →
    Sim19 (runFrom19 fuel u h) (specRunFrom19 σ h) ∧ Frame u.w (runFrom19 fuel u h).w ∧
    Stable σ (specRunFrom19 σ h) := by
  intro h
  induction h with
  | nil => intro u σ hs _ _; exact ⟨hs, Frame.refl _, Stable.refl _⟩
  | cons op rest ih =>
    intro u σ hs hw hf
    obtain ⟨hw1, hw2⟩ := hw
    have hf1 : σ.classes.length ≤ fuel :=
      Nat.le_trans (Nat.le_trans (classes_len_step19 σ op) (classes_len_run19 rest (specStep19 σ op))) hf
    obtain ⟨a, b⟩ := sim19_step hs op hw1 hf1
    obtain ⟨c, d, e⟩ := ih (stepU fuel u op) (specStep19 σ op) a hw2 hf
    exact ⟨c, b.trans d, (stable_step hs.sim.wf op hw1).trans e⟩

theorem sim19_run {fuel : Nat} (h : List Op19) (hw : WFHist19 h) (hf : (specRun19 h).classes.length ≤ fuel) :
    Sim19 (run19 fuel h) (specRun19 h) := (sim19_runFrom h _ Spec.init init19 hw hf).1

/-! ## 6. C19: the main theorems -/

theorem WFFrom19_append : ∀ (h1 h2 : List Op19) (σ : Spec),
    WFFrom19 σ (h1 ++ h2) ↔ (WFFrom19 σ h1 ∧ WFFrom19 (specRunFrom19 σ h1) h2) := by
  intro h1
  induction h1 with
  | nil => intro h2 σ; simp [WFFrom19, specRunFrom19]
  | cons op rest ih =>
    intro h2 σ
    simp only [List.cons_append, WFFrom19, ih, specRunFrom19, List.foldl_cons, and_assoc]

theorem specRun19_append (h1 h2 : List Op19) : specRun19 (h1 ++ h2) = specRunFrom19 (specRun19 h1) h2 := by
  simp [specRun19, specRunFrom19, List.foldl_append]
theorem run19_append (fuel : Nat) (h1 h2 : List Op19) : run19 fuel (h1 ++ h2) = runFrom19 fuel (run19 fuel h1) h2 := by
  simp [run19, runFrom19, List.foldl_append]

/-- **C19_super.**  After ANY well-formed history `h` of interface / class / instance creations, class and instance
declarations, `implementedBy` / `providedBy` queries and earlier `super()` queries, for every existing instance `o` and
every `c`: the specification `_implementedBy_super(super(c, o))` returns (from the cache or freshly synthesized) lists,
among the interfaces, exactly those implemented — according to the declarations in force NOW, `Impl` of `C01Hist` — by
one of the classes strictly after `c` in `type(o).__mro__` (plus the root `Interface`, which every specification lists).
In particular it says nothing about `K o`, the instance's own direct declaration, about `c` itself or about the classes
before `c` (`C19_remainder_split`).  The world after the query still satisfies the propagation invariant `Graph2.Inv`
(the synthesized node has duplicate-free bases and sits above all class specifications).

Hypotheses: `WFHist19 h` (C01's well-formedness of every step; the queried instances exist) and `fuel ≥` number of
classes (recursion budget of `implementedBy` and of `ro.ro` in the model; 64 in the driver).  `o ∈ insts`: for an unknown
id the model's instance table returns a default instance of an arbitrary class.  No hypothesis on `c`: if `c` is not in
the MRO (Python: `TypeError`), the remainder is empty and the specification lists only the root. -/
theorem C19_super (h : List Op19) (hw : WFHist19 h) (fuel : Nat) (hf : (specRun19 h).classes.length ≤ fuel)
    (c o : Nat) (ho : o ∈ (specRun19 h).insts) :
    Inv (superSpec2 fuel (run19 fuel h) c o).1.w.g ∧
    ∀ i, isIface i = true →
      (i ∈ (superSpec2 fuel (run19 fuel h) c o).1.w.sro (superSpec2 fuel (run19 fuel h) c o).2 ↔
        ((∃ d ∈ remainder (smro (specRun19 h) ((specRun19 h).clsOf o)) c, Impl (specRun19 h) d i) ∨ i = 0)) := by
  have hs := sim19_run h hw hf
  obtain ⟨a, _, _, d⟩ := super_query hs.sim hs.cache hf ho c
  exact ⟨a.g.inv, fun i hi => d.mem_iff a ((isIface_iff i).mp hi)⟩

/-- in particular: an interface that no class of the remainder implements — declared only on `c`, on a class before
`c`, or directly on the instance — is NOT in the resolution order of `super(c, o)`'s specification -/
theorem C19_super_excludes (h : List Op19) (hw : WFHist19 h) (fuel : Nat) (hf : (specRun19 h).classes.length ≤ fuel)
    (c o : Nat) (ho : o ∈ (specRun19 h).insts) (i : Nat) (hi : isIface i = true) (h0 : i ≠ 0)
    (hno : ∀ d ∈ remainder (smro (specRun19 h) ((specRun19 h).clsOf o)) c, ¬ Impl (specRun19 h) d i) :
    i ∉ (superSpec2 fuel (run19 fuel h) c o).1.w.sro (superSpec2 fuel (run19 fuel h) c o).2 := by
  intro hm
  rcases ((C19_super h hw fuel hf c o ho).2 i hi).mp hm with ⟨d, hd, hI⟩ | h0'
  · exact hno d hd hI
  · exact h0 h0'

/-- the MRO the remainder is taken from is a linearization of the superclasses of `type(o)`: it starts with the class,
is duplicate-free and contains exactly the classes reachable through `__bases__`; and for `c` in it the remainder is
what follows `c`: it contains neither `c` nor any class before `c` -/
theorem C19_remainder_split {σ : Spec} (wf : SpecWF σ) {k : Nat} (hk : k ∈ σ.classes) (c : Nat) (hc : c ∈ smro σ k) :
    ValidLin σ.pyBases k (smro σ k) ∧
    ∃ pre, smro σ k = pre ++ c :: remainder (smro σ k) c ∧ c ∉ remainder (smro σ k) c ∧
      ∀ d ∈ pre, d ∉ remainder (smro σ k) c :=
  ⟨smro_valid wf hk, ZI.World.C19_mro_remainder _ c hc (smro_valid wf hk).nodup⟩

/-- **C19_stable (membership).**  Once `super(c, o)` has been queried (after `h1`), the object `s` it returned keeps
reporting the remainder of the MRO according to the CURRENT declarations after any well-formed continuation `h2` (class
declarations on the remaining classes, on `c`, on anything; instance declarations; more queries): its bases are the class
specifications themselves, which are re-based in place, and `changed()` propagation (C02) keeps its cached resolution
order fresh. -/
theorem C19_stable (h1 h2 : List Op19) (c o : Nat) (hw : WFHist19 (h1 ++ Op19.qSuper c o :: h2)) (fuel : Nat)
    (hf : (specRun19 (h1 ++ Op19.qSuper c o :: h2)).classes.length ≤ fuel) :
    ∀ i, isIface i = true →
      (i ∈ (run19 fuel (h1 ++ Op19.qSuper c o :: h2)).w.sro (superSpec2 fuel (run19 fuel h1) c o).2 ↔
        ((∃ d ∈ remainder (smro (specRun19 (h1 ++ Op19.qSuper c o :: h2))
              ((specRun19 (h1 ++ Op19.qSuper c o :: h2)).clsOf o)) c,
            Impl (specRun19 (h1 ++ Op19.qSuper c o :: h2)) d i) ∨ i = 0)) := by
  obtain ⟨hw1, hwq, hw2⟩ := (WFFrom19_append h1 (Op19.qSuper c o :: h2) Spec.init).mp hw
  have ho : o ∈ (specRun19 h1).insts := hwq
  have e1 : specRun19 (h1 ++ Op19.qSuper c o :: h2) = specRunFrom19 (specRun19 h1) h2 := by
    rw [specRun19_append]; rfl
  have e2 : run19 fuel (h1 ++ Op19.qSuper c o :: h2)
      = runFrom19 fuel (superSpec2 fuel (run19 fuel h1) c o).1 h2 := by rw [run19_append]; rfl
  rw [e1] at hf ⊢
  rw [e2]
  have hf1 : (specRun19 h1).classes.length ≤ fuel := Nat.le_trans (classes_len_run19 h2 _) hf
  have hs := sim19_run h1 hw1 hf1
  obtain ⟨a, b, _, d⟩ := super_query hs.sim hs.cache hf1 ho c
  obtain ⟨s2, fr, st⟩ := sim19_runFrom h2 (superSpec2 fuel (run19 fuel h1) c o).1 (specRun19 h1) ⟨a, b⟩ hw2 hf
  have d' := d.frame fr
  rw [← (st.1 _ (hs.sim.wf.cls_mem o ho)).2, ← (st.2 o ho).2] at d'
  exact fun i hi => d'.mem_iff s2.sim ((isIface_iff i).mp hi)

/-! ## 7. the cache: a cached specification is reused exactly while `changed()` did not run on the class specification -/

theorem reach_iface_lt {w : W} {σ : Spec} (h : Sim w σ) {x t : Nat} (hx : x < 1000) (hr : Reach w.g.bases x t) :
    t < 1000 := by
  induction hr with
  | refl => exact hx
  | @step s b t' hb _ ih =>
    rw [h.g.ib s hx] at hb
    exact ih (h.wf.if_lt b (h.wf.ib_wf s b hb).2.1)

theorem sim_reach_anc {w : W} {σ : Spec} (h : Sim w σ) : ∀ (ks k c' s' : Nat), (w.cls k).spec = some ks →
    (w.cls c').spec = some s' → Reach w.g.bases ks s' → Anc σ k c' := by
  intro ks
  induction ks using Nat.strongRecOn with
  | _ ks ih =>
    intro k c' s' hk hc' hr
    rcases reach_iff.mp hr with h1 | ⟨b, hb, hbi⟩
    · subst h1
      have := h.c.spec_inj k c' _ hk hc'
      subst this; exact Anc.refl _
    · rcases (h.c.spec_bases k ks b hk).mp hb with hd | ⟨hinh, pb, hpb, hpbs⟩
      · have hblt := h.wf.if_lt b (h.c.decl_if k b hd)
        have := reach_iface_lt h hblt hbi
        have := (h.c.spec_cls c' s' hc').2.1
        omega'
      · obtain ⟨sb, hsb, hlt⟩ := h.c.spec_py k ks pb hk hpb
        have : sb = b := by rw [hsb] at hpbs; exact Option.some.inj hpbs
        subst this
        exact Anc.step (by rw [← h.c.cinh k]; exact hinh) hpb (ih sb hlt pb c' s' hpbs hc' hbi)

theorem sim_anc_reach {w : W} {σ : Spec} (h : Sim w σ) {k c' : Nat} (ha : Anc σ k c') :
    ∀ ks, (w.cls k).spec = some ks → ∃ s', (w.cls c').spec = some s' ∧ Reach w.g.bases ks s' := by
  induction ha with
  | refl c => intro ks hk; exact ⟨ks, hk, Reach.refl _⟩
  | @step c'' b c h1 h2 _ ih =>
    intro ks hk
    obtain ⟨sb, hsb, _⟩ := h.c.spec_py c'' ks b hk h2
    obtain ⟨s', hs', hr⟩ := ih sb hsb
    exact ⟨s', hs', Reach.step
      ((h.c.spec_bases c'' ks sb hk).mpr (Or.inr ⟨by rw [h.c.cinh]; exact h1, b, h2, hsb⟩)) hr⟩

/-- `changed()` on the specification of class `c'` reaches the specification of class `k` (which has it in its
resolution order) exactly when `c'` is `k` or an ancestor of `k` along classes that still inherit -/
theorem sim_anc_iff {w : W} {σ : Spec} (h : Sim w σ) {k c' ks s' : Nat} (hk : (w.cls k).spec = some ks)
    (hc' : (w.cls c').spec = some s') : s' ∈ w.g.sro ks ↔ Anc σ k c' := by
  rw [h.mem_sro]
  constructor
  · rintro (hr | h0)
    · exact sim_reach_anc h ks k c' s' hk hc' hr
    · have := (h.c.spec_cls c' s' hc').2.1; omega'
  · intro ha
    obtain ⟨s'', hs'', hr⟩ := sim_anc_reach h ha ks hk
    rw [hc'] at hs''
    exact Or.inl (Option.some.inj hs'' ▸ hr)

theorem reach_snoc {B : Bases} {x d s : Nat} (h : Reach B x d) (hs : s ∈ B d) : Reach B x s := by
  induction h with
  | refl d => exact Reach.step hs (Reach.refl s)
  | step hb _ ih => exact Reach.step hb (ih hs)

/-- justification of `dropChanged`: in a graph satisfying the propagation invariant, the specifications `changed()`
visits when it is started on `s` (the closure of `s` under `_dependents`, `ZI.Prop.Down` — see `Graph2.changed_spec` /
`ZI.Prop.prop_spec`) are exactly the specifications that have `s` in their resolution order -/
theorem changed_reaches_iff {w : W} {σ : Spec} (h : Sim w σ) {s ks : Nat} (hs : s ≠ 0) :
    s ∈ w.g.sro ks ↔ ZI.Prop.Down (depIds w.g) s ks := by
  obtain ⟨N, hg, _⟩ := h.g.inv
  rw [h.mem_sro]
  constructor
  · rintro (hr | h0)
    · induction hr with
      | refl s => exact ZI.Prop.Down.refl s
      | @step x b t hb _ ih => exact (ih hs).trans_dep ((hg.cons x b).mp hb)
    · exact absurd h0 hs
  · intro hd
    refine Or.inl ?_
    induction hd with
    | refl s => exact Reach.refl s
    | @step s' d x hd' _ ih =>
      have hb : s' ∈ w.g.bases d := (hg.cons d s').mpr hd'
      have hd0 : d ≠ 0 := fun e => by
        rw [e, h.bases0] at hb; simp at hb
      exact reach_snoc (ih hd0) hb

theorem anc_step_iff (σ : Spec) (op : HOp) {c' : Nat} (ht : clsTarget op = some c') (k : Nat) :
    Anc (specStep σ op) k c' ↔ Anc σ k c' := by
  have hshape : (specStep σ op).pyBases = σ.pyBases ∧ ∀ x, x ≠ c' → (specStep σ op).inh x = σ.inh x := by
    cases op <;> simp [clsTarget] at ht <;> subst ht <;>
      exact ⟨rfl, fun x hx => by simp [specStep, upd_other _ _ hx]⟩
  exact ⟨Anc_indep c' hshape.1 hshape.2, Anc_indep c' hshape.1.symm (fun x hx => (hshape.2 x hx).symm)⟩

theorem spec_after_clsop (f : Nat) (w : W) (op : HOp) {c' : Nat} (ht : clsTarget op = some c') :
    ∃ s', ((stepW (f+1) w op).cls c').spec = some s' := by
  cases op with
  | classImplements c L =>
    simp [clsTarget] at ht; subst ht
    exact ⟨_, (ext_ordered (f+1) (implementedBy (f+1) w c).1 c _ _) c _ (implementedBy_spec f w c)⟩
  | classImplementsOnly c L =>
    simp [clsTarget] at ht; subst ht
    exact ⟨_, (ext_ordered (f+1) (resetDecl (implementedBy (f+1) w c).1 c (implementedBy (f+1) w c).2) c L []) c _
      ((rebase_spec (implementedBy (f+1) w c).1 c (implementedBy (f+1) w c).2 [] false [] c).trans
        (implementedBy_spec f w c))⟩
  | classImplementsFirst c i =>
    simp [clsTarget] at ht; subst ht
    exact ⟨_, (ext_declareOn (implementedBy (f+1) w c).1 c (implementedBy (f+1) w c).2 (f+1) [i] []) c _
      (implementedBy_spec f w c)⟩
  | _ => simp [clsTarget] at ht

theorem find_filter_of_imp {α : Type} (p q : α → Bool) : ∀ (l : List α), (∀ e ∈ l, p e = true → q e = true) →
    (l.filter q).find? p = l.find? p := by
  intro l
  induction l with
  | nil => intro _; rfl
  | cons a t ih =>
    intro h
    have iht := ih (fun e he => h e (List.mem_cons_of_mem _ he))
    by_cases hq : q a = true
    · rw [List.filter_cons_of_pos hq, List.find?_cons, List.find?_cons, iht]
    · have hp : p a = false := by
        cases hpa : p a with
        | false => rfl
        | true => exact absurd (h a (by simp) hpa) hq
      rw [List.filter_cons_of_neg hq, List.find?_cons, hp, iht]

theorem nodup_map_inj {α β : Type} {f : α → β} : ∀ {l : List α}, (l.map f).Nodup → ∀ {a b : α}, a ∈ l → b ∈ l →
    f a = f b → a = b := by
  intro l
  induction l with
  | nil => intro _ a b ha; simp at ha
  | cons x t ih =>
    intro h a b ha hb e
    rw [List.map_cons, List.nodup_cons] at h
    rcases List.mem_cons.mp ha with rfl | ha' <;> rcases List.mem_cons.mp hb with rfl | hb'
    · rfl
    · exact absurd (List.mem_map.mpr ⟨b, hb', e.symm⟩) h.1
    · exact absurd (List.mem_map.mpr ⟨a, ha', e⟩) h.1
    · exact ih h.2 ha' hb' e

/-- **one declaration / creation / query step and the cache of class `k`** (`ks` its specification): if the step is a
class declaration on `k` itself or on an inheriting ancestor of `k`, `changed()` runs on `ks` and every entry of its
`_super_cache` is gone; otherwise every lookup in it answers as before -/
theorem cache_step_base {u : W19} {σ : Spec} (h : Sim19 u σ) (op : HOp) (hw : WFop σ op) {fuel : Nat}
    (hf : σ.classes.length ≤ fuel) {k ks : Nat} (hks : (u.w.cls k).spec = some ks) :
    ((∀ c', clsTarget op = some c' → ¬ Anc σ k c') →
      ∀ c, superHit (stepU fuel u (.base op)) ks c = superHit u ks c) ∧
    ((∃ c', clsTarget op = some c' ∧ Anc σ k c') → ∀ e ∈ (stepU fuel u (.base op)).superCache, e.1.1 ≠ ks) := by
  have hs' := sim_step h.sim op hw hf
  have hfr := frame_step h.sim op hw hf
  have hks' := hfr.ext k ks hks
  cases hct : clsTarget op with
  | none =>
    have hc : (stepU fuel u (.base op)).superCache = u.superCache := by simp [stepU, hct]
    refine ⟨fun _ c => ?_, ?_⟩
    · unfold superHit; rw [hc]
    · rintro ⟨c', h1, _⟩; cases h1
  | some c' =>
    obtain ⟨f, rfl⟩ : ∃ f, fuel = f + 1 := by
      have hcl : c' ∈ σ.classes := by
        cases op <;> simp [clsTarget] at hct <;> subst hct <;> exact hw.1
      have := List.length_pos_of_mem hcl
      exact ⟨fuel - 1, by omega⟩
    obtain ⟨s', hs'c⟩ := spec_after_clsop f u.w op hct
    have hc : (stepU (f+1) u (.base op)).superCache
        = u.superCache.filter fun e => !(((stepW (f+1) u.w op).g.sro e.1.1).contains s') := by
      simp [stepU, hct, dropChanged, hs'c]
    have hanc : s' ∈ (stepW (f+1) u.w op).g.sro ks ↔ Anc σ k c' := by
      rw [sim_anc_iff hs' hks' hs'c, anc_step_iff σ op hct k]
    refine ⟨fun hn c => ?_, ?_⟩
    · unfold superHit; rw [hc]
      rw [find_filter_of_imp]
      intro e _ he
      have : e.1 = (ks, c) := by simpa using he
      have hn' : s' ∉ (stepW (f+1) u.w op).g.sro ks := fun hm => hn c' rfl (hanc.mp hm)
      simp [this, hn']
    · rintro ⟨c'', h1, ha⟩ e he hek
      have : c'' = c' := (Option.some.inj h1).symm
      subst this
      rw [hc] at he
      have := (List.mem_filter.mp he).2
      rw [hek] at this
      simp [hanc.mpr ha] at this

theorem superSpec2_hit {fuel : Nat} {u : W19} {c o s : Nat}
    (h : superHit u (implementedBy fuel u.w (u.w.inst o).cls).2 c = some s) :
    superSpec2 fuel u c o = ({ u with w := (implementedBy fuel u.w (u.w.inst o).cls).1 }, s) := by
  unfold superSpec2; rw [h]

theorem superSpec2_miss {fuel : Nat} {u : W19} {c o : Nat}
    (h : superHit u (implementedBy fuel u.w (u.w.inst o).cls).2 c = none) :
    (superSpec2 fuel u c o).1.superCache = u.superCache ++ [(((implementedBy fuel u.w (u.w.inst o).cls).2, c),
        (superSpec2 fuel u c o).2)] ∧
    (superSpec2 fuel u c o).2 = (specFold (implementedBy fuel) (implementedBy fuel u.w (u.w.inst o).cls).1
          (remainder (mro2 fuel (implementedBy fuel u.w (u.w.inst o).cls).1 (u.w.inst o).cls) c)).1.next ∧
    (superSpec2 fuel u c o).1.w.cls = (specFold (implementedBy fuel) (implementedBy fuel u.w (u.w.inst o).cls).1
          (remainder (mro2 fuel (implementedBy fuel u.w (u.w.inst o).cls).1 (u.w.inst o).cls) c)).1.cls := by
  unfold superSpec2; rw [h]; exact ⟨rfl, rfl, rfl⟩

/-- what one `super(c, o)` query does to the cache: the entry `(spec(type(o)), c)` afterwards holds the returned object;
on a hit nothing changed, on a miss exactly this entry was added and the object is brand new (`≥ next`) -/
theorem super_query_cache {u : W19} {σ : Spec} (h : Sim u.w σ) {fuel : Nat}
    (hf : σ.classes.length ≤ fuel) {o : Nat} (ho : o ∈ σ.insts) (c : Nat) :
    ∃ ks, ((superSpec2 fuel u c o).1.w.cls (σ.clsOf o)).spec = some ks ∧
      (∀ ks0, (u.w.cls (σ.clsOf o)).spec = some ks0 → ks0 = ks) ∧
      superHit (superSpec2 fuel u c o).1 ks c = some (superSpec2 fuel u c o).2 ∧
      ((superHit u ks c = some (superSpec2 fuel u c o).2 ∧ (superSpec2 fuel u c o).1.superCache = u.superCache) ∨
       (superHit u ks c = none ∧
        (superSpec2 fuel u c o).1.superCache = u.superCache ++ [((ks, c), (superSpec2 fuel u c o).2)] ∧
        u.w.next ≤ (superSpec2 fuel u c o).2)) := by
  have hk := h.wf.cls_mem o ho
  have hidx : σ.classes.idxOf (σ.clsOf o) < fuel := by have := List.idxOf_lt_length_of_mem hk; omega
  obtain ⟨a1, a2, a3, _⟩ := sim_implementedBy fuel u.w (σ.clsOf o) h hk hidx
  have hicls := h.i.icls o
  refine ⟨(implementedBy fuel u.w (σ.clsOf o)).2, ?_⟩
  have hks0 : ∀ ks0, (u.w.cls (σ.clsOf o)).spec = some ks0 → ks0 = (implementedBy fuel u.w (σ.clsOf o)).2 := by
    intro ks0 h0
    have := a3 _ _ h0; rw [a2] at this; exact (Option.some.inj this).symm
  cases hhit : superHit u (implementedBy fuel u.w (σ.clsOf o)).2 c with
  | some s =>
    have e := superSpec2_hit (fuel := fuel) (u := u) (c := c) (o := o) (s := s) (by rw [hicls]; exact hhit)
    rw [hicls] at e
    rw [e]
    exact ⟨a2, hks0, hhit, Or.inl ⟨rfl, rfl⟩⟩
  | none =>
    obtain ⟨e1, e2, e3⟩ := superSpec2_miss (fuel := fuel) (u := u) (c := c) (o := o) (by rw [hicls]; exact hhit)
    rw [hicls] at e1 e2 e3
    have hnone : u.superCache.find? (·.1 == ((implementedBy fuel u.w (σ.clsOf o)).2, c)) = none := by
      unfold superHit at hhit
      cases hf' : u.superCache.find? (·.1 == ((implementedBy fuel u.w (σ.clsOf o)).2, c)) with
      | none => rfl
      | some x => rw [hf'] at hhit; simp at hhit
    refine ⟨?_, hks0, ?_, Or.inr ⟨rfl, e1, ?_⟩⟩
    · rw [e3]
      exact ext_specFold (ext_implementedBy fuel) _ _ _ _ a2
    · unfold superHit; rw [e1, List.find?_append, hnone]; simp
    · rw [e2]
      exact Nat.le_trans (frameL_implementedBy fuel u.w (σ.clsOf o)).next_le
        (frameL_specFold (frameL_implementedBy fuel) _ _).next_le

/-- the step runs `changed()` on the specification of class `k`: it is a class declaration (`classImplements`,
`classImplementsOnly`, `classImplementsFirst`, i.e. also `@implementer…`) on `k` or on an ancestor of `k` reached
through classes that still inherit -/
def touches (σ : Spec) (k : Nat) : Op19 → Prop
  | .base op => ∃ c', clsTarget op = some c' ∧ Anc σ k c'
  | .qSuper _ _ => False

/-- no step of the history runs `changed()` on the specification of class `k` -/
def Untouched (k : Nat) : Spec → List Op19 → Prop
  | _, [] => True
  | σ, op :: rest => ¬ touches σ k op ∧ Untouched k (specStep19 σ op) rest

theorem stepU_base_sublist (fuel : Nat) (u : W19) (op : HOp) :
    (stepU fuel u (.base op)).superCache.Sublist u.superCache := by
  show (match clsTarget op with
        | some c => dropChanged (stepW fuel u.w op) c u.superCache
        | none => u.superCache).Sublist u.superCache
  split
  · unfold dropChanged; split
    · exact List.filter_sublist
    · exact List.Sublist.refl _
  · exact List.Sublist.refl _

/-- a live cache entry survives every step that does not run `changed()` on the class specification -/
theorem hit_step {u : W19} {σ : Spec} (h : Sim19 u σ) (op : Op19) (hw : WFop19 σ op) {fuel : Nat}
    (hf : σ.classes.length ≤ fuel) {k ks c s : Nat} (hks : (u.w.cls k).spec = some ks)
    (hhit : superHit u ks c = some s) (hn : ¬ touches σ k op) : superHit (stepU fuel u op) ks c = some s := by
  cases op with
  | base op =>
    rw [(cache_step_base h op hw hf hks).1 (fun c' h1 h2 => hn ⟨c', h1, h2⟩) c]; exact hhit
  | qSuper c2 o2 =>
    obtain ⟨ks2, _, _, _, hcase⟩ := super_query_cache h.sim hf hw c2
    show superHit (superSpec2 fuel u c2 o2).1 ks c = some s
    rcases hcase with ⟨_, hc⟩ | ⟨_, hc, _⟩
    · unfold superHit at hhit ⊢; rw [hc]; exact hhit
    · unfold superHit at hhit ⊢
      rw [hc, List.find?_append]
      cases hfd : u.superCache.find? (·.1 == (ks, c)) with
      | none => rw [hfd] at hhit; simp at hhit
      | some e => rw [hfd] at hhit; simpa using hhit

/-- an object that is not in the cache never (re-)enters it: new entries hold brand-new objects -/
theorem gone_step {u : W19} {σ : Spec} (h : Sim19 u σ) (op : Op19) (hw : WFop19 σ op) {fuel : Nat}
    (hf : σ.classes.length ≤ fuel) {s : Nat} (hlt : s < u.w.next) (hgone : s ∉ u.superCache.map (·.2)) :
    s ∉ (stepU fuel u op).superCache.map (·.2) := by
  cases op with
  | base op => exact fun hm => hgone (((stepU_base_sublist fuel u op).map _).subset hm)
  | qSuper c2 o2 =>
    obtain ⟨ks2, _, _, _, hcase⟩ := super_query_cache h.sim hf hw c2
    show s ∉ (superSpec2 fuel u c2 o2).1.superCache.map (·.2)
    rcases hcase with ⟨_, hc⟩ | ⟨_, hc, hge⟩
    · rw [hc]; exact hgone
    · rw [hc, List.map_append, List.mem_append]
      rintro (hm | hm)
      · exact hgone hm
      · simp at hm; omega'

/-- the step that runs `changed()` removes the entry, and the object it held is in no other entry -/
theorem touched_step {u : W19} {σ : Spec} (h : Sim19 u σ) (op : Op19) (hw : WFop19 σ op) {fuel : Nat}
    (hf : σ.classes.length ≤ fuel) {k ks c s : Nat} (hks : (u.w.cls k).spec = some ks)
    (hhit : superHit u ks c = some s) (ht : touches σ k op) : s ∉ (stepU fuel u op).superCache.map (·.2) := by
  cases op with
  | qSuper _ _ => exact absurd ht id
  | base op =>
    intro hm
    obtain ⟨e, he, hes⟩ := List.mem_map.mp hm
    obtain ⟨e0, he0, hk0, hs0⟩ := find_key hhit
    have he' := (stepU_base_sublist fuel u op).subset he
    have : e = e0 := nodup_map_inj h.cache.nodup he' he0 (hes.trans hs0.symm)
    subst this
    exact (cache_step_base h op hw hf hks).2 ht e he (by rw [hk0])

theorem gone_run {fuel : Nat} {s : Nat} : ∀ (h2 : List Op19) (u : W19) (σ : Spec), Sim19 u σ → WFFrom19 σ h2 →
    (specRunFrom19 σ h2).classes.length ≤ fuel → s < u.w.next → s ∉ u.superCache.map (·.2) →
    s ∉ (runFrom19 fuel u h2).superCache.map (·.2) := by
  intro h2
  induction h2 with
  | nil => intro u σ _ _ _ _ hg; exact hg
  | cons op rest ih =>
    intro u σ hs hw hf hlt hg
    have hf1 : σ.classes.length ≤ fuel :=
      Nat.le_trans (Nat.le_trans (classes_len_step19 σ op) (classes_len_run19 rest (specStep19 σ op))) hf
    obtain ⟨a, b⟩ := sim19_step hs op hw.1 hf1
    exact ih (stepU fuel u op) (specStep19 σ op) a hw.2 hf (Nat.lt_of_lt_of_le hlt b.next_le)
      (gone_step hs op hw.1 hf1 hlt hg)

theorem reuse_run {fuel : Nat} {k ks c s : Nat} : ∀ (h2 : List Op19) (u : W19) (σ : Spec), Sim19 u σ → WFFrom19 σ h2 →
    (specRunFrom19 σ h2).classes.length ≤ fuel → (u.w.cls k).spec = some ks → superHit u ks c = some s →
    (Untouched k σ h2 → superHit (runFrom19 fuel u h2) ks c = some s) ∧
    (¬ Untouched k σ h2 → s ∉ (runFrom19 fuel u h2).superCache.map (·.2)) := by
  intro h2
  induction h2 with
  | nil => intro u σ _ _ _ _ hh; exact ⟨fun _ => hh, fun hn => absurd trivial hn⟩
  | cons op rest ih =>
    intro u σ hs hw hf hks hh
    have hf1 : σ.classes.length ≤ fuel :=
      Nat.le_trans (Nat.le_trans (classes_len_step19 σ op) (classes_len_run19 rest (specStep19 σ op))) hf
    obtain ⟨a, b⟩ := sim19_step hs op hw.1 hf1
    have hlt : s < u.w.next := by
      obtain ⟨e0, he0, _, hs0⟩ := find_key hh
      obtain ⟨_, _, _, hsf⟩ := hs.cache.entry e0 he0
      rw [hs0] at hsf; exact hsf.1.2.1
    by_cases ht : touches σ k op
    · have hg := touched_step hs op hw.1 hf1 hks hh ht
      have hfin := gone_run rest (stepU fuel u op) (specStep19 σ op) a hw.2 hf (Nat.lt_of_lt_of_le hlt b.next_le) hg
      refine ⟨fun hu => absurd ht hu.1, fun _ => hfin⟩
    · have hh' := hit_step hs op hw.1 hf1 hks hh ht
      obtain ⟨i1, i2⟩ := ih (stepU fuel u op) (specStep19 σ op) a hw.2 hf (b.ext k ks hks) hh'
      exact ⟨fun hu => i1 hu.2, fun hn => i2 (fun hr => hn ⟨ht, hr⟩)⟩

/-- **C19_stable (identity): a cached specification is reused exactly while `changed()` did not run on the class
specification of `type(o)`.**  In a well-formed history `h1 ++ super(c, o) :: h2`, a second query `super(c, o)` after `h2`
returns the IDENTICAL object as the first one if and only if no step of `h2` is a class declaration on `type(o)` or on
one of its ancestors along inheriting classes (those are exactly the steps whose `changed()` reaches
`implementedBy(type(o))` and deletes its `_super_cache`; other declarations, creations and queries — also other `super()`
queries — leave the entry alone, and once dropped the old object is never handed out again).  Either way the object
returned reports the remainder of the MRO under the current declarations (`C19_super`), and so does the old one
(`C19_stable`). -/
theorem C19_reuse_iff (h1 h2 : List Op19) (c o : Nat) (hw : WFHist19 (h1 ++ Op19.qSuper c o :: h2)) (fuel : Nat)
    (hf : (specRun19 (h1 ++ Op19.qSuper c o :: h2)).classes.length ≤ fuel) :
    (superSpec2 fuel (run19 fuel (h1 ++ Op19.qSuper c o :: h2)) c o).2 = (superSpec2 fuel (run19 fuel h1) c o).2
      ↔ Untouched ((specRun19 h1).clsOf o) (specRun19 h1) h2 := by
  obtain ⟨hw1, hwq, hw2⟩ := (WFFrom19_append h1 (Op19.qSuper c o :: h2) Spec.init).mp hw
  have ho : o ∈ (specRun19 h1).insts := hwq
  have e1 : specRun19 (h1 ++ Op19.qSuper c o :: h2) = specRunFrom19 (specRun19 h1) h2 := by
    rw [specRun19_append]; rfl
  have e2 : run19 fuel (h1 ++ Op19.qSuper c o :: h2)
      = runFrom19 fuel (superSpec2 fuel (run19 fuel h1) c o).1 h2 := by rw [run19_append]; rfl
  rw [e1] at hf
  rw [e2]
  have hf1 : (specRun19 h1).classes.length ≤ fuel := Nat.le_trans (classes_len_run19 h2 _) hf
  have hs := sim19_run h1 hw1 hf1
  obtain ⟨a, b, _, d⟩ := super_query hs.sim hs.cache hf1 ho c
  obtain ⟨ks, q1, _, q3, _⟩ := super_query_cache hs.sim hf1 ho c
  obtain ⟨s2, fr, st⟩ := sim19_runFrom h2 (superSpec2 fuel (run19 fuel h1) c o).1 (specRun19 h1) ⟨a, b⟩ hw2 hf
  obtain ⟨r1, r2⟩ := reuse_run (fuel := fuel) h2 (superSpec2 fuel (run19 fuel h1) c o).1 (specRun19 h1) ⟨a, b⟩ hw2 hf q1 q3
  -- the final query
  have hof : o ∈ (specRunFrom19 (specRun19 h1) h2).insts := (st.2 o ho).1
  obtain ⟨ks', _, p2, _, pcase⟩ := super_query_cache s2.sim hf hof c
  rw [(st.2 o ho).2] at p2
  have hkk : ks = ks' := p2 ks (fr.ext _ _ q1)
  subst hkk
  have hlt : (superSpec2 fuel (run19 fuel h1) c o).2 < (runFrom19 fuel (superSpec2 fuel (run19 fuel h1) c o).1 h2).w.next :=
    Nat.lt_of_lt_of_le d.1.2.1 fr.next_le
  constructor
  · intro heq
    refine Classical.byContradiction fun hn => ?_
    have hg := r2 hn
    rcases pcase with ⟨hh, _⟩ | ⟨_, _, hge⟩
    · obtain ⟨e, he, _, hes⟩ := find_key hh
      exact hg (List.mem_map.mpr ⟨e, he, hes.trans heq⟩)
    · omega'
  · intro hu
    have hh := r1 hu
    rcases pcase with ⟨hh', _⟩ | ⟨hh', _, _⟩
    · rw [hh] at hh'; exact (Option.some.inj hh').symm
    · rw [hh] at hh'; cases hh'

/-! ## 8. the simpler form: any C01 history, then one `super()` query -/

theorem dropChanged_nil (w : W) (c : Id) : dropChanged w c [] = [] := by
  unfold dropChanged; split <;> rfl

theorem specRunFrom19_base : ∀ (h : List HOp) (σ : Spec), specRunFrom19 σ (h.map Op19.base) = specRunFrom σ h := by
  intro h
  induction h with
  | nil => intro σ; rfl
  | cons op rest ih => intro σ; exact ih (specStep σ op)

theorem WFFrom19_base : ∀ (h : List HOp) (σ : Spec), WFFrom19 σ (h.map Op19.base) ↔ WFFrom σ h := by
  intro h
  induction h with
  | nil => intro σ; exact Iff.rfl
  | cons op rest ih => intro σ; exact and_congr Iff.rfl (ih (specStep σ op))

theorem runFrom19_base (fuel : Nat) : ∀ (h : List HOp) (w : W),
    runFrom19 fuel { w := w, superCache := [] } (h.map Op19.base) = { w := runFrom fuel w h, superCache := [] } := by
  intro h
  induction h with
  | nil => intro w; rfl
  | cons op rest ih =>
    intro w
    have e : stepU fuel { w := w, superCache := [] } (Op19.base op) = { w := stepW fuel w op, superCache := [] } := by
      show W19.mk _ _ = _
      congr 1
      split
      · exact dropChanged_nil _ _
      · rfl
    show runFrom19 fuel (stepU fuel { w := w, superCache := [] } (Op19.base op)) (rest.map Op19.base) = _
    rw [e, ih]; rfl

/-- **C19_super, simple form**: after any well-formed history of C01 (`ZI.C01.WFHist`, world `ZI.C01.run fuel h`), the
first `super(c, o)` query synthesizes a specification that lists exactly the interfaces implemented by the classes after
`c` in the MRO of `type(o)` -/
theorem C19_super_after (h : List HOp) (hw : WFHist h) (fuel : Nat) (hf : (specRun h).classes.length ≤ fuel)
    (c o : Nat) (ho : o ∈ (specRun h).insts) :
    Inv (superSpec2 fuel { w := run fuel h, superCache := [] } c o).1.w.g ∧
    ∀ i, isIface i = true →
      (i ∈ (superSpec2 fuel { w := run fuel h, superCache := [] } c o).1.w.sro
            (superSpec2 fuel { w := run fuel h, superCache := [] } c o).2 ↔
        ((∃ d ∈ remainder (smro (specRun h) ((specRun h).clsOf o)) c, Impl (specRun h) d i) ∨ i = 0)) := by
  have e1 : specRun19 (h.map Op19.base) = specRun h := specRunFrom19_base h _
  have e2 : run19 fuel (h.map Op19.base) = { w := run fuel h, superCache := [] } := runFrom19_base fuel h _
  have := C19_super (h.map Op19.base) ((WFFrom19_base h _).mpr hw) fuel (by rw [e1]; exact hf) c o (by rw [e1]; exact ho)
  rw [e1, e2] at this
  exact this

/-! ## 9. non-vacuity: a diamond of classes -/

theorem anc_reach_py {σ : Spec} {k c' : Nat} (h : Anc σ k c') : Reach σ.pyBases k c' := by
  induction h with
  | refl c => exact Reach.refl c
  | step _ h2 _ ih => exact Reach.step h2 ih

theorem not_anc_of_not_mro {σ : Spec} (wf : SpecWF σ) {k c' : Nat} (hk : k ∈ σ.classes) (h : c' ∉ smro σ k) :
    ¬ Anc σ k c' := fun ha => h (((smro_valid wf hk).mem c').mpr (anc_reach_py ha))

/-- interfaces `IA..IE` = 1..5; classes `A(object)` = 1, `B(A)` = 2, `C(A)` = 3, `D(B, C)` = 4, `E(A)` = 5, each
implementing "its" interface; `d = D()` = instance 1 with `directlyProvides(d, IE)` -/
def hD : List Op19 :=
  [.base (.iface 1 [0]), .base (.iface 2 [0]), .base (.iface 3 [0]), .base (.iface 4 [0]), .base (.iface 5 [0]),
   .base (.cls 1 [0]), .base (.cls 2 [1]), .base (.cls 3 [1]), .base (.cls 4 [2, 3]), .base (.cls 5 [1]),
   .base (.classImplements 1 [1]), .base (.classImplements 2 [2]), .base (.classImplements 3 [3]),
   .base (.classImplements 4 [4]), .base (.inst 1 4), .base (.directlyProvides 1 [5])]
/-- a continuation that never runs `changed()` on `implementedBy(D)`: a declaration on the unrelated class `E`, an
instance declaration, another `super()` query, an `implementedBy` query -/
def hQuiet : List Op19 :=
  [.base (.classImplements 5 [5]), .base (.directlyProvides 1 [2]), .qSuper 3 1, .base (.qImpl 4)]
/-- a continuation that does: a declaration on the base class `C` -/
def hLoud : List Op19 := [.base (.classImplements 3 [5])]

theorem hD_wf : WFHist19 (hD ++ Op19.qSuper 2 1 :: hQuiet) ∧ WFHist19 (hD ++ Op19.qSuper 2 1 :: hLoud) := by
  constructor <;> decide +kernel

/-- `C19_super` is not vacuous: `D.__mro__ = [D, B, C, A, object]`, the remainder after `B` is `[C, A, object]`, and the
model's `super(B, d)` specification lists `IC, IA, Interface` — not `IB` (declared by `B` itself), not `ID` (declared by
`D`, before `B`), not `IE` (declared directly on the instance) -/
example : WFHist19 hD ∧ (specRun19 hD).classes.length ≤ 64 ∧ 1 ∈ (specRun19 hD).insts ∧
    smro (specRun19 hD) ((specRun19 hD).clsOf 1) = [4, 2, 3, 1, 0] ∧
    remainder (smro (specRun19 hD) ((specRun19 hD).clsOf 1)) 2 = [3, 1, 0] ∧
    ((superSpec2 64 (run19 64 hD) 2 1).1.w.sro (superSpec2 64 (run19 64 hD) 2 1).2).filter isIface = [3, 1, 0] := by
  refine ⟨by decide +kernel, by decide +kernel, by decide +kernel, by decide +kernel, by decide +kernel, by decide +kernel⟩

/-- `C19_super_after` / `C19_remainder_split` are not vacuous: C01's 25-step history is well-formed and has instances;
`B` is in the MRO of `D` -/
example : WFHist ZI.C01.h25 ∧ (specRun ZI.C01.h25).classes.length ≤ 64 ∧ 1 ∈ (specRun ZI.C01.h25).insts :=
  ⟨ZI.C01.h25_wf, by decide +kernel, by decide +kernel⟩
example : 4 ∈ (specRun19 hD).classes ∧ 2 ∈ smro (specRun19 hD) 4 := by constructor <;> decide +kernel

/-- `C19_stable` is not vacuous: after `classImplements(C, IE)` the OLD `super(B, d)` object lists `IE` as well -/
example : ((run19 64 (hD ++ Op19.qSuper 2 1 :: hLoud)).w.sro (superSpec2 64 (run19 64 hD) 2 1).2).filter isIface
    = [3, 5, 1, 0] := by decide +kernel

/-- `C19_reuse_iff` is not vacuous, both ways: the quiet continuation leaves `implementedBy(D)` untouched … -/
example : Untouched ((specRun19 hD).clsOf 1) (specRun19 hD) hQuiet := by
  have e : (specRun19 hD).clsOf 1 = 4 := by decide +kernel
  rw [e]
  have wf0 : SpecWF (specRun19 hD) := (sim19_run (fuel := 64) hD (by decide +kernel) (by decide +kernel)).sim.wf
  refine ⟨?_, ?_, ?_, ?_, trivial⟩
  · rintro ⟨c', h1, h2⟩
    have : c' = 5 := by simpa [clsTarget] using h1.symm
    subst this
    exact not_anc_of_not_mro wf0 (by decide +kernel) (by decide +kernel) h2
  · rintro ⟨c', h1, _⟩; simp [clsTarget] at h1
  · exact id
  · rintro ⟨c', h1, _⟩; simp [clsTarget] at h1
/-- … and the loud one does not (`C` is an inheriting ancestor of `D`) -/
example : ¬ Untouched ((specRun19 hD).clsOf 1) (specRun19 hD) hLoud := by
  have e : (specRun19 hD).clsOf 1 = 4 := by decide +kernel
  rw [e]
  intro h
  exact h.1 ⟨3, rfl, Anc.step (by decide +kernel) (by decide +kernel : 3 ∈ (specRun19 hD).pyBases 4) (Anc.refl 3)⟩
/-- the model agrees: identical object after the quiet continuation, a new one after the loud one -/
example : (superSpec2 64 (run19 64 (hD ++ Op19.qSuper 2 1 :: hQuiet)) 2 1).2 = (superSpec2 64 (run19 64 hD) 2 1).2 ∧
    (superSpec2 64 (run19 64 (hD ++ Op19.qSuper 2 1 :: hLoud)) 2 1).2 ≠ (superSpec2 64 (run19 64 hD) 2 1).2 := by
  decide +kernel

/-! ### cross-check against the reference model `ZI.World.superSpec` (on `ZI.Classes` / `ZI.Graph`, with registry
notification), kernel-evaluated: same history, first query (miss), second query (hit), `classImplements(C, IE)` (drops
the entry through `changed()` propagation), third query (miss): same objects, same resolution orders, same cache -/
section crosscheck
def cmdsD : List Cmd :=
  [.iface 1 [0], .iface 2 [0], .iface 3 [0], .iface 4 [0], .iface 5 [0], .cls 1 [0], .cls 2 [1], .cls 3 [1], .cls 4 [2, 3],
   .cls 5 [1], .add 1 [1], .add 2 [2], .add 3 [3], .add 4 [4], .inst 1 4, .dp 1 [5]]
def refU : ZI.World.U := { ZI.World.init true false with cw := cmdsD.foldl exec1 (ZI.Classes.init true) }
def ref1 := ZI.World.superSpec refU 2 1
def ref2 := ZI.World.superSpec ref1.1 2 1
def ref3 := ZI.World.superSpec (ZI.World.declOp ref2.1 (fun w => ZI.Classes.classImplements 64 w 3 [5])) 2 1
def mod1 := superSpec2 64 (run19 64 hD) 2 1
def mod2 := superSpec2 64 mod1.1 2 1
def mod3 := superSpec2 64 (stepU 64 mod2.1 (.base (.classImplements 3 [5]))) 2 1
example : ref1.2 = mod1.2 ∧ ref2.2 = mod2.2 ∧ ref3.2 = mod3.2 ∧ ref1.2 = ref2.2 ∧ ref3.2 ≠ ref1.2 ∧
    ref1.1.cw.sro ref1.2 = mod1.1.w.sro mod1.2 ∧ ref3.1.cw.sro ref3.2 = mod3.1.w.sro mod3.2 ∧
    ref3.1.cw.sro ref1.2 = mod3.1.w.sro mod1.2 ∧ ref1.1.superCache = mod1.1.superCache ∧
    ref3.1.superCache = mod3.1.superCache := by
  refine ⟨?_, ?_, ?_, ?_, ?_, ?_, ?_, ?_, ?_, ?_⟩ <;> decide +kernel
end crosscheck

#print axioms C19_super
#print axioms C19_super_after
#print axioms C19_super_excludes
#print axioms changed_reaches_iff
#print axioms C19_remainder_split
#print axioms C19_stable
#print axioms C19_reuse_iff
#print axioms sim19_step
#print axioms sim_newSuper
end ZI.C19
