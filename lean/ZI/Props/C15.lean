import ZI.AttrsWorld
import ZI.Props.C02
/-! # C15 — attribute, tagged-value and invariant resolution follow the resolution order

Model: `ZI.Attrs` (`get`, `namesAndDescriptions(all=True)`), `ZI.AttrsW` (the same over the re-basable graph of C02
with the `_v_attrs` memo, tagged values, invariants).  `iro i` is the cached `__iro__` of the current graph, which C02 /
C03 prove equal to the order computed from scratch on the current bases after any re-basing history. -/
namespace ZI.AttrsW
open ZI.Upd ZI.Attrs ZI.Graph2

/-- **C15_agree**: `namesAndDescriptions(all=True)` (repaired) binds every name exactly as `get` / `__getitem__` /
`queryDescriptionFor` do: to the description of the first interface in `__iro__` that defines it directly -/
theorem C15_agree (iro : List Id) (direct : Id → Attrs) (hd : ∀ j, ((direct j).map (·.1)).Nodup) (n : String) :
    get? (nadAllFixed iro direct) n = getAttr iro direct n := nad_eq_get iro direct hd n

/-- a name is present (`in`, `iter`, `names(all)`) iff some interface in `__iro__` defines it directly -/
theorem C15_present (iro : List Id) (direct : Id → Attrs) (hd : ∀ j, ((direct j).map (·.1)).Nodup) (n : String) :
    (get? (nadAllFixed iro direct) n).isSome ↔ ∃ j ∈ iro, (get? (direct j) n).isSome := nad_present_iff iro direct hd n

/-- the pinned commit violated it on the README's own diamond -/
theorem C15_pinned_violates : getAttr dIro dDirect "foo" = some 30 ∧ get? (nadAllAsIs dBases dDirect 5 4) "foo" = some 10 ∧
    get? (nadAllFixed dIro dDirect) "foo" = some 30 := by decide

/-! ## the `_v_attrs` memo never changes an answer -/
/-- every memo entry is what a fresh walk over the current `__iro__` would find -/
def MemoOk (w : W) : Prop := ∀ i n d, get? (w.memo i) n = some d → getAttr (w.iro i) w.direct n = some d

/-- **C15_get**: with a consistent memo, `get` answers exactly "first direct definition along `__iro__`" … -/
theorem C15_get (w : W) (h : MemoOk w) (i : Id) (n : String) :
    (get w i n).2 = getAttr (w.iro i) w.direct n := by
  unfold get
  cases hm : get? (w.memo i) n with
  | some d => simp [h i n d hm]
  | none => cases hg : getAttr (w.iro i) w.direct n <;> simp

/-- … and keeps the memo consistent -/
theorem get_memoOk (w : W) (h : MemoOk w) (i : Id) (n : String) : MemoOk (get w i n).1 := by
  unfold get
  cases hm : get? (w.memo i) n with
  | some d => exact h
  | none =>
    cases hg : getAttr (w.iro i) w.direct n with
    | none => exact h
    | some d =>
      intro j m e he
      by_cases hj : j = i
      · subst hj
        simp only [upd, if_true] at he
        rw [get?_set] at he
        show getAttr (W.iro _ j) _ m = some e
        by_cases hnm : n = m
        · subst hnm; simp at he; subst he; exact hg
        · simp [hnm] at he; exact h j m e he
      · simp only [upd, hj, if_false] at he
        exact h j m e he

/-- re-basing keeps the memo consistent **provided** every specification whose cached order is rewritten is visited by
`changed` (which is what drops its memo).  The proviso is the first conjunct of `ZI.Prop.prop_spec` (C02): "nothing
outside the downstream closure of `s` is touched". -/
theorem setBases_memoOk (w : W) (h : MemoOk w) (s : Id) (bs : List Id)
    (huntouched : ∀ x, visited (Graph2.setBases w.g s bs) s x = false → (Graph2.setBases w.g s bs).sro x = w.g.sro x) :
    MemoOk (setBases w s bs) := by
  intro i n d he
  simp only [setBases] at he ⊢
  by_cases hv : visited (Graph2.setBases w.g s bs) s i = true
  · simp [hv, get?_nil] at he
  · have hv' : visited (Graph2.setBases w.g s bs) s i = false := by simpa using hv
    simp only [hv', Bool.false_eq_true, if_false] at he
    have := h i n d he
    simp only [W.iro] at this ⊢
    rw [huntouched i hv']
    exact this

/-! ## tagged values and invariants -/
/-- **C15_tags**: an inherited tagged value is the one of the nearest interface in `__iro__` that has it; the tags are
the union -/
theorem C15_tags (w : W) (i : Id) (t : String) :
    ((queryTag w i t).isSome ↔ ∃ j ∈ w.iro i, (get? (w.tags j) t).isSome) ∧
    (∀ t', t' ∈ tagNames w i ↔ ∃ j ∈ w.iro i, t' ∈ (w.tags j).map (·.1)) := by
  constructor
  · unfold queryTag
    constructor
    · intro h
      cases hf : (w.iro i).findSome? (fun j => get? (w.tags j) t) with
      | none => rw [hf] at h; simp at h
      | some v =>
        obtain ⟨j, hj, hv⟩ := List.exists_of_findSome?_eq_some hf
        exact ⟨j, hj, by rw [hv]; rfl⟩
    · rintro ⟨j, hj, hs⟩
      cases hf : (w.iro i).findSome? (fun j => get? (w.tags j) t) with
      | some v => rfl
      | none =>
        have := List.findSome?_eq_none_iff.mp hf j hj
        rw [this] at hs; simp at hs
  · intro t'; simp [tagNames]

/-- the value found is the one of the *first* interface along `__iro__` having the tag -/
theorem C15_tag_first (w : W) (i : Id) (t : String) (pre : List Id) (j : Id) (post : List Id) (v : Nat)
    (hiro : w.iro i = pre ++ j :: post) (hpre : ∀ k ∈ pre, get? (w.tags k) t = none) (hj : get? (w.tags j) t = some v) :
    queryTag w i t = some v := by
  unfold queryTag
  rw [hiro, List.findSome?_append]
  have : pre.findSome? (fun k => get? (w.tags k) t) = none := List.findSome?_eq_none_iff.mpr hpre
  simp [this, List.findSome?_cons, hj]

/-- **C15_invariants**: every invariant of every interface in `__iro__` is run, in order; with a list all failures are
collected (exactly the failing ones, in order); without one the first failure is raised -/
theorem C15_invariants (w : W) (i : Id) :
    (validateAll w i).1 = ((w.iro i).flatMap w.invs).map (·.1) ∧
    (∀ k, k ∈ (validateAll w i).2 ↔ (k, true) ∈ (w.iro i).flatMap w.invs) ∧
    validateFirst w i = (validateAll w i).2.head? := by
  refine ⟨rfl, fun k => ?_, ?_⟩
  · simp only [validateAll, allInvs, List.mem_map, List.mem_filter]
    constructor
    · rintro ⟨⟨a, b⟩, ⟨hm, hb⟩, rfl⟩
      simp only at hb; subst hb; exact hm
    · intro h; exact ⟨(k, true), ⟨h, rfl⟩, rfl⟩
  · simp only [validateFirst, validateAll]
    generalize allInvs w i = l
    induction l with
    | nil => rfl
    | cons p ps ih =>
      obtain ⟨a, b⟩ := p
      cases b with
      | true => simp [List.find?_cons, List.filter_cons]
      | false =>
        rw [List.find?_cons_of_neg (by simp), List.filter_cons_of_neg (by simp)]
        exact ih

/-- **C15_follow**: all of the above are functions of the current `__iro__`, which after any well-formed re-basing
history is the order a freshly built hierarchy has (C02_fresh) -/
theorem C15_follow (ops : List Op) (hwf : WFHist ops) (x : Id) :
    (run ops).sro x = fresh (run ops) x := C02_fresh_thm ops hwf x

/-- non-vacuity: diamond overridden on one branch, memo filled, then re-based -/
example :
    let w : W := { g := Graph2.init 0 }
    let w := newIface w 1 [0] [("foo", 10)] [("t", 1)] [(1, false)]
    let w := newIface w 2 [1] [] [] []
    let w := newIface w 3 [1] [("foo", 30)] [("t", 3)] [(3, true)]
    let w := newIface w 4 [2, 3] [] [] []
    let (w, a) := get w 4 "foo"
    let w := setBases w 4 [2]
    let (_, b) := get w 4 "foo"
    a = some 30 ∧ b = some 10 := by decide +kernel
end ZI.AttrsW
