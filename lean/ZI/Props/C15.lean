import ZI.AttrsWorld
import ZI.Props.C02
/-! # C15 — attribute, tagged-value and invariant resolution follow the resolution order

Model: `ZI.Attrs` (`get`, `namesAndDescriptions(all=True)`), `ZI.AttrsW` (the same over the re-basable graph of C02
with the `_v_attrs` memo, tagged values, invariants).  `iro i` is the cached `__iro__` of the current graph, which C02 /
C03 prove equal to the order computed from scratch on the current bases after any re-basing history. -/
namespace ZI.AttrsW
open ZI.Upd ZI.Attrs ZI.Graph2

/-- **C15_agree**: `namesAndDescriptions(all=True)` (repaired) binds every name exactly as `get` / `__getitem__` /
`queryDescriptionFor` do: to the description of the first interface in `__iro__` that defines it directly -/
theorem C15_agree (iro : List Id) (direct : Id → Attrs) (hd : ∀ j, ((direct j).map (·.1)).Nodup) (n : String) :
    get? (nadAllFixed iro direct) n = getAttr iro direct n := nad_eq_get iro direct hd n

/-- a name is present (`in`, `iter`, `names(all)`) iff some interface in `__iro__` defines it directly -/
theorem C15_present (iro : List Id) (direct : Id → Attrs) (hd : ∀ j, ((direct j).map (·.1)).Nodup) (n : String) :
    (get? (nadAllFixed iro direct) n).isSome ↔ ∃ j ∈ iro, (get? (direct j) n).isSome := nad_present_iff iro direct hd n

/-- the pinned commit violated it on the README's own diamond -/
theorem C15_pinned_violates : getAttr dIro dDirect "foo" = some 30 ∧ get? (nadAllAsIs dBases dDirect 5 4) "foo" = some 10 ∧
    get? (nadAllFixed dIro dDirect) "foo" = some 30 := by decide

/-! ## the `_v_attrs` memo never changes an answer -/
/-- every memo entry is what a fresh walk over the current `__iro__` would find -/
def MemoOk (w : W) : Prop := ∀ i n d, get? (w.memo i) n = some d → getAttr (w.iro i) w.direct n = some d

/-- **C15_get**: with a consistent memo, `get` answers exactly "first direct definition along `__iro__`" … -/
theorem C15_get (w : W) (h : MemoOk w) (i : Id) (n : String) :
    (get w i n).2 = getAttr (w.iro i) w.direct n := by
  unfold get
  cases hm : get? (w.memo i) n with
  | some d => simp [h i n d hm]
  | none => cases hg : getAttr (w.iro i) w.direct n <;> simp

/-- … and keeps the memo consistent -/
theorem get_memoOk (w : W) (h : MemoOk w) (i : Id) (n : String) : MemoOk (get w i n).1 := by
  unfold get
  cases hm : get? (w.memo i) n with
  | some d => exact h
  | none =>
    cases hg : getAttr (w.iro i) w.direct n with
    | none => exact h
    | some d =>
      intro j m e he
      by_cases hj : j = i
      · subst hj
        simp only [upd, if_true] at he
        rw [get?_set] at he
        show getAttr (W.iro _ j) _ m = some e
        by_cases hnm : n = m
        · subst hnm; simp at he; subst he; exact hg
        · simp [hnm] at he; exact h j m e he
      · simp only [upd, hj, if_false] at he
        exact h j m e he

/-- re-basing keeps the memo consistent **provided** every specification whose cached order is rewritten is visited by
`changed` (which is what drops its memo).  The proviso is the first conjunct of `ZI.Prop.prop_spec` (C02): "nothing
outside the downstream closure of `s` is touched". -/
theorem setBases_memoOk (w : W) (h : MemoOk w) (s : Id) (bs : List Id)
    (huntouched : ∀ x, visited (Graph2.setBases w.g s bs) s x = false → (Graph2.setBases w.g s bs).sro x = w.g.sro x) :
    MemoOk (setBases w s bs) := by
  intro i n d he
  simp only [setBases] at he ⊢
  by_cases hv : visited (Graph2.setBases w.g s bs) s i = true
  · simp [hv, get?_nil] at he
  · have hv' : visited (Graph2.setBases w.g s bs) s i = false := by simpa using hv
    simp only [hv', Bool.false_eq_true, if_false] at he
    have := h i n d he
    simp only [W.iro] at this ⊢
    rw [huntouched i hv']
    exact this

/-! ## tagged values and invariants -/
/-- **C15_tags**: an inherited tagged value is the one of the nearest interface in `__iro__` that has it; the tags are
the union -/
theorem C15_tags (w : W) (i : Id) (t : String) :
    ((queryTag w i t).isSome ↔ ∃ j ∈ w.iro i, (get? (w.tags j) t).isSome) ∧
    (∀ t', t' ∈ tagNames w i ↔ ∃ j ∈ w.iro i, t' ∈ (w.tags j).map (·.1)) := by
  constructor
  · unfold queryTag
    constructor
    · intro h
      cases hf : (w.iro i).findSome? (fun j => get? (w.tags j) t) with
      | none => rw [hf] at h; simp at h
      | some v =>
        obtain ⟨j, hj, hv⟩ := List.exists_of_findSome?_eq_some hf
        exact ⟨j, hj, by rw [hv]; rfl⟩
    · rintro ⟨j, hj, hs⟩
      cases hf : (w.iro i).findSome? (fun j => get? (w.tags j) t) with
      | some v => rfl
      | none =>
        have := List.findSome?_eq_none_iff.mp hf j hj
        rw [this] at hs; simp at hs
  · intro t'; simp [tagNames]

/-- the value found is the one of the *first* interface along `__iro__` having the tag -/
theorem C15_tag_first (w : W) (i : Id) (t : String) (pre : List Id) (j : Id) (post : List Id) (v : Nat)
    (hiro : w.iro i = pre ++ j :: post) (hpre : ∀ k ∈ pre, get? (w.tags k) t = none) (hj : get? (w.tags j) t = some v) :
    queryTag w i t = some v := by
  unfold queryTag
  rw [hiro, List.findSome?_append]
  have : pre.findSome? (fun k => get? (w.tags k) t) = none := List.findSome?_eq_none_iff.mpr hpre
  simp [this, List.findSome?_cons, hj]

/-- **C15_invariants**: every invariant of every interface in `__iro__` is run, in order; with a list all failures are
collected (exactly the failing ones, in order); without one the first failure is raised -/
theorem C15_invariants (w : W) (i : Id) :
    (validateAll w i).1 = ((w.iro i).flatMap w.invs).map (·.1) ∧
    (∀ k, k ∈ (validateAll w i).2 ↔ (k, true) ∈ (w.iro i).flatMap w.invs) ∧
    validateFirst w i = (validateAll w i).2.head? := by
  refine ⟨rfl, fun k => ?_, ?_⟩
  · simp only [validateAll, allInvs, List.mem_map, List.mem_filter]
    constructor
    · rintro ⟨⟨a, b⟩, ⟨hm, hb⟩, rfl⟩
      simp only at hb; subst hb; exact hm
    · intro h; exact ⟨(k, true), ⟨h, rfl⟩, rfl⟩
  · simp only [validateFirst, validateAll]
    generalize allInvs w i = l
    induction l with
    | nil => rfl
    | cons p ps ih =>
      obtain ⟨a, b⟩ := p
      cases b with
      | true => simp [List.find?_cons, List.filter_cons]
      | false =>
        rw [List.find?_cons_of_neg (by simp), List.filter_cons_of_neg (by simp)]
        exact ih

/-- **C15_follow**: all of the above are functions of the current `__iro__`, which after any well-formed re-basing
history is the order a freshly built hierarchy has (C02_fresh) -/
theorem C15_follow (ops : List Op) (hwf : WFHist ops) (x : Id) :
    (run ops).sro x = fresh (run ops) x := C02_fresh_thm ops hwf x

/-- non-vacuity: diamond overridden on one branch, memo filled, then re-based -/
example :
    let w : W := { g := Graph2.init 0 }
    let w := newIface w 1 [0] [("foo", 10)] [("t", 1)] [(1, false)]
    let w := newIface w 2 [1] [] [] []
    let w := newIface w 3 [1] [("foo", 30)] [("t", 3)] [(3, true)]
    let w := newIface w 4 [2, 3] [] [] []
    let (w, a) := get w 4 "foo"
    let w := setBases w 4 [2]
    let (_, b) := get w 4 "foo"
    a = some 30 ∧ b = some 10 := by decide +kernel
end ZI.AttrsW

/-! ## composition with the C02 history invariant: the memo never changes an answer, after ANY history -/
namespace ZI.AttrsW
open ZI.Upd ZI.Attrs ZI.Graph2 ZI.RO
local notation "Id" => Nat

theorem c3Node_bases_congr {B B' : Bases} (leg : Id → List Id) (r : Id → Res) (c : Id) (h : B c = B' c) :
    c3Node B leg r c = c3Node B' leg r c := by
  unfold c3Node; rw [h]

/-- the order computed from scratch only looks at the base lists of what it reaches -/
theorem sroFresh_congr {B B' : Bases} {root : Id} : ∀ (f : Nat) (c : Id), (∀ x, Reach B c x → B x = B' x) →
    sroFresh B root f c = sroFresh B' root f c := by
  intro f
  induction f with
  | zero => intro c _; rfl
  | succ f ih =>
    intro c h
    by_cases hc : c = root
    · subst hc; rw [sroFresh_succ_root, sroFresh_succ_root]
    · rw [sroFresh_succ_ne B root f hc, sroFresh_succ_ne B' root f hc]
      unfold sroStep
      have hleg : legacyRo B (f+1) c = legacyRo B' (f+1) c := by
        unfold legacyRo; rw [flatten_congr (f+1) c h]
      have hb : ∀ b ∈ B c, (⟨sroFresh B root f b, false⟩ : Res) = ⟨sroFresh B' root f b, false⟩ := by
        intro b hb
        rw [ih b (fun x hx => h x (Reach.step hb hx))]
      rw [c3Node_congr (legacyRo B (f+1)) (legacyRo B' (f+1)) _ _ c hleg hb,
          c3Node_bases_congr _ _ c (h c (Reach.refl c))]

/-- the specification an operation targets -/
def target : Op → Id | .new s _ => s | .set s _ => s

theorem bases_step (g : G) (op : Op) : (step g op).bases = upd g.bases (target op) (match op with | .new _ bs => bs | .set _ bs => bs) := by
  cases op with
  | set s bs => exact bases_setBases g s bs
  | new s bs => exact bases_setBases { g with ids := g.ids ++ [s] } s bs

theorem root_step (g : G) (op : Op) : (step g op).root = g.root := by
  cases op with
  | set s bs => exact root_setBases g s bs
  | new s bs => exact root_setBases { g with ids := g.ids ++ [s] } s bs

/-- **what `changed()` does not visit keeps its cached order**: in every state reachable by a well-formed history, an
operation on `s` leaves the cached order of every specification that is not `s` and does not (now) extend `s` as it was -/
theorem step_untouched (g : G) (op : Op) (hi : Inv g) (hw : WFOp g op) (hroot : g.root = 0) (hb0 : g.bases 0 = [])
    (hs : target op ≠ 0) (x : Id) (hv : visited (step g op) (target op) x = false) :
    (step g op).sro x = g.sro x := by
  obtain ⟨N', hg', _⟩ := inv_step g op hi hw
  obtain ⟨N, hg, _⟩ := hi
  obtain ⟨rank', ha', hr'⟩ := hg'.acyc
  obtain ⟨rank, ha, hr⟩ := hg.acyc
  have hroot' : (step g op).root = 0 := by rw [root_step, hroot]
  have hb0' : (step g op).bases 0 = [] := by
    rw [bases_step]; simp only [Graph2.upd]
    have : ¬ (0 = target op) := fun e => hs e.symm
    simp [this, hb0]
  -- a common fuel above both rank bounds
  have hf' := hg'.fresh (N + N' + 1) (by omega) x
  have hf := hg.fresh (N + N' + 1) (by omega) x
  rw [hf', hf, hroot', hroot]
  -- `x` does not reach `s` in the new graph
  simp only [visited, Bool.or_eq_false_iff, beq_eq_false_iff_ne, ne_eq] at hv
  have hnot : ¬ Reach (step g op).bases x (target op) := by
    intro hreach
    have hb0'' : (step g op).bases (step g op).root = [] := by rw [hroot']; exact hb0'
    have hmem := (sroFresh_valid ha' hb0'' (N + N' + 1) x (by have := hr' x; omega)).mem (target op)
    have : target op ∈ (step g op).sro x := by
      rw [hf']; exact hmem.mpr (Or.inl hreach)
    exact absurd (List.contains_iff_mem.mpr this) (by simpa using hv.2)
  apply sroFresh_congr
  intro y hy
  rw [bases_step]
  have : y ≠ target op := fun e => hnot (e ▸ hy)
  simp [Graph2.upd, this]

/-! ### histories of the attribute world -/
inductive WOp
  | newIface (s : Id) (bs : List Id) (attrs : Attrs) (tags : AList String Nat) (invs : List (Nat × Bool))
  | setBases (s : Id) (bs : List Id)
  | get (i : Id) (n : String)
  | setTag (i : Id) (t : String) (v : Nat)            -- `I.setTaggedValue(t, v)` on a live interface

def wstep (w : W) : WOp → W
  | .newIface s bs a t iv => newIface w s bs a t iv
  | .setBases s bs => setBases w s bs
  | .get i n => (get w i n).1
  | .setTag i t v => setTag w i t v

/-- the graph operation behind a world operation -/
def gop : WOp → Option Op
  | .newIface s bs _ _ _ => some (.new s bs)
  | .setBases s bs => some (.set s bs)
  | .get _ _ => none
  | .setTag _ _ _ => none

/-- well-formedness in a state: the graph part is well-formed (duplicate-free bases, no cycle), the root is never the
target, and a new interface is really new as far as attribute tables go (nobody's memo mentions it: it is visited anyway) -/
def WFW (w : W) (op : WOp) : Prop :=
  match gop op with
  | some o => WFOp w.g o ∧ target o ≠ 0
  | none => True

/-- the invariant carried along -/
structure WInv (w : W) : Prop where
  ginv : Inv w.g
  root : w.g.root = 0
  b0 : w.g.bases 0 = []
  memo : MemoOk w

theorem memoOk_rebase (w : W) (g' : G) (s : Id) (direct' : Id → Attrs) (h : MemoOk w)
    (hunt : ∀ x, visited g' s x = false → g'.sro x = w.g.sro x)
    (hdir : ∀ x, visited g' s x = false → ∀ j ∈ (g'.sro x).filter w.isIface, direct' j = w.direct j) :
    MemoOk { w with g := g', direct := direct', memo := fun x => if visited g' s x then [] else w.memo x } := by
  intro i n d he
  by_cases hv : visited g' s i = true
  · simp [hv, get?_nil] at he
  · have hv' : visited g' s i = false := by simpa using hv
    simp only [hv', Bool.false_eq_true, if_false] at he
    have h0 := h i n d he
    simp only [W.iro] at h0 ⊢
    rw [hunt i hv']
    unfold getAttr at h0 ⊢
    rw [← h0]
    have hcongr : ∀ (l : List Nat), (∀ j ∈ l, direct' j = w.direct j) →
        l.findSome? (fun j => get? (direct' j) n) = l.findSome? (fun j => get? (w.direct j) n) := by
      intro l
      induction l with
      | nil => intro _; rfl
      | cons a t ih =>
        intro hl
        simp only [List.findSome?_cons]
        rw [hl a (List.mem_cons_self ..), ih (fun j hj => hl j (List.mem_cons_of_mem _ hj))]
    exact hcongr _ (fun j hj => hdir i hv' j (by rw [hunt i hv']; exact hj))

theorem winv_step (w : W) (op : WOp) (hi : WInv w) (hw : WFW w op) : WInv (wstep w op) := by
  cases op with
  | setTag i t v => exact ⟨hi.ginv, hi.root, hi.b0, hi.memo⟩      -- tagged values are neither memoised nor part of the graph
  | get i n =>
    have hg : (wstep w (.get i n)).g = w.g := by
      simp only [wstep, get]
      cases get? (w.memo i) n with
      | some d => rfl
      | none => cases getAttr (w.iro i) w.direct n <;> rfl
    exact ⟨hg ▸ hi.ginv, hg ▸ hi.root, hg ▸ hi.b0, get_memoOk w hi.memo i n⟩
  | setBases s bs =>
    simp only [WFW, gop] at hw
    have hstep : Graph2.setBases w.g s bs = step w.g (.set s bs) := rfl
    refine ⟨inv_step w.g (.set s bs) hi.ginv hw.1, ?_, ?_, ?_⟩
    · show (Graph2.setBases w.g s bs).root = 0; rw [root_setBases]; exact hi.root
    · show (Graph2.setBases w.g s bs).bases 0 = []
      rw [bases_setBases]; have : ¬ (0 = s) := fun e => hw.2 e.symm
      simp [Graph2.upd, this, hi.b0]
    · exact setBases_memoOk w hi.memo s bs (fun x hx => step_untouched w.g (.set s bs) hi.ginv hw.1 hi.root hi.b0 hw.2 x hx)
  | newIface s bs a t iv =>
    simp only [WFW, gop] at hw
    refine ⟨inv_step w.g (.new s bs) hi.ginv hw.1, ?_, ?_, ?_⟩
    · show (newNode w.g s bs).root = 0
      exact (root_step w.g (.new s bs)).trans hi.root
    · show (newNode w.g s bs).bases 0 = []
      have := bases_step w.g (.new s bs)
      show (step w.g (.new s bs)).bases 0 = []
      rw [this]; have : ¬ (0 = s) := fun e => hw.2 e.symm
      simp [Graph2.upd, target, this, hi.b0]
    · -- the new interface's own tables are new; everybody not visited keeps order and tables
      have hunt := fun x hx => step_untouched w.g (.new s bs) hi.ginv hw.1 hi.root hi.b0 hw.2 x hx
      have hmo := memoOk_rebase w (newNode w.g s bs) s (Graph2.upd w.direct s a) hi.memo hunt (by
        intro x hx j hj
        -- `s` is not in the order of an unvisited specification
        have hjs : j ≠ s := by
          intro e; subst e
          simp only [visited, Bool.or_eq_false_iff] at hx
          have hm : j ∈ (newNode w.g j bs).sro x := (List.mem_filter.mp hj).1
          exact absurd (List.contains_iff_mem.mpr hm) (by simpa using hx.2)
        simp [Graph2.upd, hjs])
      intro i n d he
      exact hmo i n d he

theorem winv_init : WInv { g := Graph2.init 0 } :=
  ⟨⟨0, good_init 0, Nat.zero_le _⟩, rfl, rfl, fun _ _ _ h => by simp [get?_nil] at h⟩

/-- every operation of a history is well-formed in the state it is applied to -/
def WFWHist (w : W) : List WOp → Prop
  | [] => True
  | op :: rest => WFW w op ∧ WFWHist (wstep w op) rest

theorem winv_run : ∀ (ops : List WOp) (w : W), WInv w → WFWHist w ops → WInv (ops.foldl wstep w) := by
  intro ops
  induction ops with
  | nil => intro w h _; exact h
  | cons op rest ih => intro w h hw; exact ih _ (winv_step w op h hw.1) hw.2

/-- **C15_get over histories**: after ANY well-formed history of interface creations, `__bases__` reassignments and
lookups (which fill the `_v_attrs` memo), `I.get(name)` — hence `I[name]`, `name in I`, `queryDescriptionFor` — answers
"the description of the first interface along the current `__iro__` that defines the name", and that `__iro__` is the one
a freshly built hierarchy has (C15_follow) -/
theorem C15_get_history (ops : List WOp) (hw : WFWHist { g := Graph2.init 0 } ops) (i : Id) (n : String) :
    let w := ops.foldl wstep { g := Graph2.init 0 }
    (get w i n).2 = getAttr (w.iro i) w.direct n :=
  C15_get _ (winv_run ops _ winv_init hw).memo i n
end ZI.AttrsW
