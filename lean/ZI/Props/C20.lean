import ZI.DeclModel
import ZI.Props.C03
/-! # C20 — declaration algebra: iteration, membership, + and − obey ordered-set laws

Model: `ZI.Decl` — `_normalizeargs` over nested arguments (`Arg`), `interfaces` (ordered dedupe of the expansion of the
bases; a class specification expands to its declared-then-inherited interfaces, `Expand`), `contains`, `sub`, `add`.
`ext i j` is `i.extends(j, strict=False)` (C02: reachability over the current bases).  `flattened` is the declaration's
resolution order (the C03 model `ZI.RO.sroFresh` on the specification graph the declaration sits in) restricted to
interfaces. -/
namespace ZI.Decl

/-! ## ordered dedupe -/
theorem mem_dedupe {seen l : List Id} {x : Id} : x ∈ dedupe seen l ↔ x ∈ l ∧ x ∉ seen := by
  induction l generalizing seen with
  | nil => simp [dedupe]
  | cons y ys ih =>
    simp only [dedupe]
    split
    · rename_i h
      rw [ih]
      have hy : y ∈ seen := by simpa using h
      constructor
      · rintro ⟨h1, h2⟩; exact ⟨List.mem_cons_of_mem _ h1, h2⟩
      · rintro ⟨h1, h2⟩
        rcases List.mem_cons.mp h1 with rfl | h1
        · exact absurd hy h2
        · exact ⟨h1, h2⟩
    · rename_i h
      have hy : y ∉ seen := by simpa using h
      rw [List.mem_cons, ih]
      constructor
      · rintro (rfl | ⟨h1, h2⟩)
        · exact ⟨List.mem_cons_self .., hy⟩
        · exact ⟨List.mem_cons_of_mem _ h1, fun h' => h2 (List.mem_cons_of_mem _ h')⟩
      · rintro ⟨h1, h2⟩
        rcases List.mem_cons.mp h1 with rfl | h1
        · exact Or.inl rfl
        · by_cases e : x = y
          · exact Or.inl e
          · right; refine ⟨h1, fun h' => ?_⟩
            rcases List.mem_cons.mp h' with h' | h'
            · exact e h'
            · exact h2 h'

theorem dedupe_nodup (seen l : List Id) : (dedupe seen l).Nodup := by
  induction l generalizing seen with
  | nil => simp [dedupe]
  | cons y ys ih =>
    simp only [dedupe]
    split
    · exact ih _
    · refine List.nodup_cons.mpr ⟨?_, ih _⟩
      intro h
      have := (mem_dedupe.mp h).2
      exact this (List.mem_cons_self ..)

/-- `dedupe` only looks at *membership* in the seen-list -/
theorem dedupe_congr {s1 s2 : List Id} (h : ∀ z, z ∈ s1 ↔ z ∈ s2) (l : List Id) : dedupe s1 l = dedupe s2 l := by
  induction l generalizing s1 s2 with
  | nil => rfl
  | cons y ys ih =>
    simp only [dedupe]
    have : s1.contains y = s2.contains y := by
      rw [Bool.eq_iff_iff]; simp [h y]
    rw [this]
    split
    · exact ih h
    · congr 1
      exact ih (fun z => by simp [h z])

theorem dedupe_append (seen a b : List Id) :
    dedupe seen (a ++ b) = dedupe seen a ++ dedupe (a ++ seen) b := by
  induction a generalizing seen with
  | nil => simp [dedupe]
  | cons y ys ih =>
    simp only [List.cons_append, dedupe]
    split
    · rename_i h
      have hy : y ∈ seen := by simpa using h
      rw [ih]
      congr 1
      apply dedupe_congr
      intro z; simp only [List.mem_append, List.mem_cons]
      grind
    · rw [ih, List.cons_append]
      congr 2
      apply dedupe_congr
      intro z; simp only [List.mem_append, List.mem_cons]
      grind

/-- de-duplicating twice is de-duplicating once against both seen-lists -/
theorem dedupe_dedupe (t u b : List Id) : dedupe t (dedupe u b) = dedupe (t ++ u) b := by
  induction b generalizing t u with
  | nil => rfl
  | cons y ys ih =>
    by_cases hu : y ∈ u
    · have h1 : u.contains y = true := by simpa using hu
      have h2 : (t ++ u).contains y = true := by simp [hu]
      simp only [dedupe, h1, h2, if_true]
      exact ih t u
    · have h1 : u.contains y = false := by simpa using hu
      by_cases ht : y ∈ t
      · have h2 : (t ++ u).contains y = true := by simp [ht]
        have h3 : t.contains y = true := by simpa using ht
        simp only [dedupe, h1, h2, h3, if_true, Bool.false_eq_true, if_false]
        rw [ih t (y :: u)]
        apply dedupe_congr
        intro z; simp only [List.mem_append, List.mem_cons]
        grind
      · have h2 : (t ++ u).contains y = false := by simp [ht, hu]
        have h3 : t.contains y = false := by simpa using ht
        simp only [dedupe, h1, h2, h3, Bool.false_eq_true, if_false]
        congr 1
        rw [ih (y :: t) (y :: u)]
        apply dedupe_congr
        intro z; simp only [List.mem_append, List.mem_cons]
        grind

/-- two lists are interchangeable inside anything that is going to be de-duplicated -/
def Interch (g f : List Id) : Prop := ∀ seen a c, dedupe seen (a ++ g ++ c) = dedupe seen (a ++ f ++ c)

theorem Interch.refl (g : List Id) : Interch g g := fun _ _ _ => rfl

theorem Interch.append {g1 f1 g2 f2 : List Id} (h1 : Interch g1 f1) (h2 : Interch g2 f2) :
    Interch (g1 ++ g2) (f1 ++ f2) := by
  intro seen a c
  have e1 := h1 seen a (g2 ++ c)
  have e2 := h2 seen (a ++ f1) c
  simp only [List.append_assoc] at e1 e2 ⊢
  rw [e1, e2]

/-- a part may be de-duplicated first -/
theorem Interch.dedupe_left {g f : List Id} (h : Interch g f) : Interch (dedupe [] g) f := by
  intro seen a c
  rw [← h seen a c]
  rw [List.append_assoc, List.append_assoc, dedupe_append, dedupe_append seen a, dedupe_append, dedupe_append (a ++ seen) g]
  congr 1
  rw [dedupe_dedupe]
  congr 1
  · simp
  · apply dedupe_congr
    intro z
    simp only [List.mem_append, mem_dedupe, List.not_mem_nil, not_false_eq_true, and_true]

mutual
theorem normalize_interch (ex : Expand) : ∀ a : Arg, Interch ((normalize ex a).flatMap (expandAtom ex)) (flat ex a)
  | .iface i => by simp only [normalize, flat, List.flatMap_cons, List.flatMap_nil, expandAtom, List.append_nil]; exact Interch.refl _
  | .impl c => by simp only [normalize, flat, List.flatMap_cons, List.flatMap_nil, expandAtom, List.append_nil]; exact Interch.refl _
  | .seq l => by simp only [normalize, flat]; exact normalizeList_interch ex l
  | .decl l => by
      simp only [normalize, flat, interfaces]
      have : (List.map Atom.iface (dedupe [] ((normalizeList ex l).flatMap (expandAtom ex)))).flatMap (expandAtom ex) =
          dedupe [] ((normalizeList ex l).flatMap (expandAtom ex)) := by
        generalize dedupe [] ((normalizeList ex l).flatMap (expandAtom ex)) = xs
        induction xs with
        | nil => rfl
        | cons x xs ih => simp [expandAtom, ih]
      rw [this]
      exact (normalizeList_interch ex l).dedupe_left
theorem normalizeList_interch (ex : Expand) : ∀ l : List Arg, Interch ((normalizeList ex l).flatMap (expandAtom ex)) (flatList ex l)
  | [] => by simp only [normalizeList, flatList, List.flatMap_nil]; exact Interch.refl _
  | a :: rest => by
      simp only [normalizeList, flatList, List.flatMap_append]
      exact (normalize_interch ex a).append (normalizeList_interch ex rest)
end

/-- **C20_iter**: iterating a declaration built from arbitrarily nested arguments yields exactly the interfaces it was
built from — nested sequences and declarations flattened in place, class specifications as their declared-then-inherited
interfaces — each once, at its first position -/
theorem C20_iter (ex : Expand) (args : List Arg) :
    iterDecl ex args = dedupe [] (flatList ex args) ∧ (iterDecl ex args).Nodup ∧
    (∀ i, i ∈ iterDecl ex args ↔ i ∈ flatList ex args) := by
  have h : iterDecl ex args = dedupe [] (flatList ex args) := by
    have := normalizeList_interch ex args [] [] []
    simpa [iterDecl, interfaces] using this
  refine ⟨h, h ▸ dedupe_nodup _ _, fun i => ?_⟩
  rw [h, mem_dedupe]; simp

/-- first occurrences keep their relative order: the result is the sublist of first occurrences -/
theorem dedupe_sublist (seen l : List Id) : (dedupe seen l).Sublist l := by
  induction l generalizing seen with
  | nil => simp [dedupe]
  | cons y ys ih =>
    simp only [dedupe]
    split
    · exact (ih _).cons _
    · exact (ih _).cons_cons _

/-- **C20_mem**: `I in A` is true exactly for the interfaces iteration yields (they are all implied, C02) -/
theorem C20_mem (implied : Id → Bool) (ifaces : List Id) (h : ∀ i ∈ ifaces, implied i = true) (i : Id) :
    contains implied ifaces i = true ↔ i ∈ ifaces := by
  simp only [contains, Bool.and_eq_true, List.contains_iff_mem]
  exact ⟨fun h' => h'.2, fun h' => ⟨h i h', h'⟩⟩

/-- **C20_sub**: `A - B` keeps, in order, exactly the interfaces of A that neither are nor extend an interface of B -/
theorem C20_sub (ext : Id → Id → Bool) (A B : List Id) (hA : A.Nodup) :
    (sub ext A B).Sublist A ∧ (sub ext A B).Nodup ∧ ∀ i, i ∈ sub ext A B ↔ i ∈ A ∧ ∀ j ∈ B, ext i j = false :=
  ⟨sub_sublist ext A B, sub_nodup B hA, fun _ => mem_sub⟩

/-- where the new interfaces of `B` go: to the front iff they strictly extend something already in the result -/
theorem addLoop_placement (ext : Id → Id → Bool) : ∀ (B before result : List Id),
    let r := addLoop ext B (before, result)
    (∀ i, i ∈ r.1 → i ∈ before ∨ ∃ x ∈ r.2, x ≠ i ∧ ext i x = true) ∧
    (∀ i, i ∈ r.2 → i ∈ result ∨ ∀ x ∈ result, x ≠ i → ext i x = false) := by
  intro B
  induction B with
  | nil => intro before result; exact ⟨fun i h => Or.inl h, fun i h => Or.inl h⟩
  | cons y rest ih =>
    intro before result
    simp only [addLoop]
    split
    · exact ih before result
    · split
      · rename_i hext
        obtain ⟨h1, h2⟩ := ih (before ++ [y]) result
        refine ⟨fun i hi => ?_, h2⟩
        rcases h1 i hi with h | h
        · rcases List.mem_append.mp h with h | h
          · exact Or.inl h
          · have : i = y := by simpa using h
            subst this
            right
            obtain ⟨x, hx, hxe⟩ := List.any_eq_true.mp hext
            have hsub : ∀ z ∈ result, z ∈ (addLoop ext rest (before ++ [i], result)).2 := by
              obtain ⟨_, _, _, r', _, e2⟩ := addLoop_spec_weak ext rest (before ++ [i]) result
              intro z hz; rw [e2]; exact List.mem_append_left _ hz
            simp only [Bool.and_eq_true, bne_iff_ne, ne_eq] at hxe
            exact ⟨x, hsub x hx, hxe.1, hxe.2⟩
        · exact Or.inr h
      · rename_i hnext
        obtain ⟨h1, h2⟩ := ih before (result ++ [y])
        refine ⟨h1, fun i hi => ?_⟩
        rcases h2 i hi with h | h
        · rcases List.mem_append.mp h with h | h
          · exact Or.inl h
          · have : i = y := by simpa using h
            subst this
            right
            intro x hx hne
            have := hnext
            simp only [Bool.not_eq_true, List.any_eq_false, Bool.and_eq_true, bne_iff_ne, ne_eq, not_and,
              Bool.not_eq_true] at this
            exact this x hx hne
        · right; intro x hx hne; exact h x (List.mem_append_left _ hx) hne
where
  addLoop_spec_weak (ext : Id → Id → Bool) : ∀ (B before result : List Id),
      let r := addLoop ext B (before, result)
      True ∧ True ∧ (∃ b' r', r.1 = before ++ b' ∧ r.2 = result ++ r') := by
    intro B
    induction B with
    | nil => intro before result; exact ⟨trivial, trivial, [], [], by simp [addLoop], by simp [addLoop]⟩
    | cons i rest ih =>
      intro before result
      simp only [addLoop]
      split
      · exact ih before result
      · split
        · obtain ⟨_, _, b', r', e1, e2⟩ := ih (before ++ [i]) result
          exact ⟨trivial, trivial, [i] ++ b', r', by simp [e1], e2⟩
        · obtain ⟨_, _, b', r', e1, e2⟩ := ih before (result ++ [i])
          exact ⟨trivial, trivial, b', [i] ++ r', e1, by simp [e2]⟩

/-- **C20_add**: `A + B` has no duplicates, contains exactly the interfaces of both, has the shape
`before ++ (A ++ after)` (so A keeps its relative order); every interface in `before` is a new one that strictly extends
an interface of `A ++ after`, and no interface in `after` strictly extends an interface of A -/
theorem C20_add (ext : Id → Id → Bool) (A B : List Id) (hA : A.Nodup) :
    (add ext A B).Nodup ∧ (∀ i, i ∈ add ext A B ↔ i ∈ A ∨ i ∈ B) ∧ A.Sublist (add ext A B) ∧
    ∃ before after, add ext A B = before ++ (A ++ after) ∧
      (∀ i ∈ before, ∃ x ∈ A ++ after, x ≠ i ∧ ext i x = true) ∧
      (∀ i ∈ after, ∀ x ∈ A, x ≠ i → ext i x = false) := by
  obtain ⟨h1, h2, b', r', e1, e2⟩ := addLoop_spec ext B [] A (by simpa using hA)
  obtain ⟨p1, p2⟩ := addLoop_placement ext B [] A
  refine ⟨(add_spec ext A B hA).1, (add_spec ext A B hA).2.1, add_keeps_order ext A B hA, b', r', ?_, ?_, ?_⟩
  · simp only [add]; rw [e1, e2]; simp
  · intro i hi
    have := p1 i (by rw [e1]; simpa using hi)
    rcases this with h | h
    · simp at h
    · rw [e2] at h; exact h
  · intro i hi x hx hne
    have hnd : (b' ++ (A ++ r')).Nodup := by
      have := h1; rw [e1, e2] at this; simpa using this
    have hiA : i ∉ A := by
      intro hia
      have h3 := (List.nodup_append.mp (List.nodup_append.mp hnd).2.1).2.2
      exact h3 i hia i hi rfl
    rcases p2 i (by rw [e2]; exact List.mem_append_right _ hi) with h | h
    · exact absurd h hiA
    · exact h x hx hne

/-! ## flattened() -/
open ZI.RO

theorem before_filter {l : List Id} {p : Id → Bool} {x y : Id} (h : Before l x y) (hx : p x = true) (hy : p y = true) :
    Before (l.filter p) x y := by
  obtain ⟨l1, l2, rfl, hy2⟩ := h
  refine ⟨l1.filter p, l2.filter p, ?_, List.mem_filter.mpr ⟨hy2, hy⟩⟩
  simp [List.filter_append, hx]

/-- **C20_flattened**: on every acyclic specification graph (consistent or not, duplicate base lists allowed) `A.flattened()` lists
the interfaces of `A`'s resolution order, in that order: no duplicates, exactly the interfaces reachable from `A` (its
interfaces plus everything they extend) and the root, every interface before each of its bases. -/
theorem C20_flattened (bases : Bases) (rank : Id → Nat) (root c : Id) (isIface : Id → Bool) (fuel : Nat)
    (ha : Acyclic bases rank) (hroot : bases root = []) (hf : rank c < fuel) :
    (flattened bases root isIface fuel c).Sublist (sroFresh bases root fuel c) ∧
    (flattened bases root isIface fuel c).Nodup ∧
    (∀ t, t ∈ flattened bases root isIface fuel c ↔ (Reach bases c t ∨ t = root) ∧ isIface t = true) ∧
    (∀ x ∈ flattened bases root isIface fuel c, ∀ b ∈ bases x, isIface b = true →
      Before (flattened bases root isIface fuel c) x b) := by
  have h := sroFresh_valid ha hroot fuel c hf
  refine ⟨List.filter_sublist, h.nodup.filter _, fun t => ?_, fun x hx b hb hib => ?_⟩
  · simp [flattened, List.mem_filter, h.mem t]
  · have hx' := List.mem_filter.mp hx
    exact before_filter (h.topo x hx'.1 b hb) hx'.2 hib

/-- **C20_flattened_c3**: whenever the hierarchy (with the root under everything) has a C3 linearization, `flattened()` is
that linearization restricted to interfaces. -/
theorem C20_flattened_c3 (bases : Bases) (rank : Id → Nat) (root c : Id) (isIface : Id → Bool) (fuel : Nat) (l : List Id)
    (ha : Acyclic bases rank) (hnd : NodupBases bases) (hroot : bases root = []) (hf : rank c + 1 < fuel)
    (hl : lin (mirror bases root) fuel c = some l) :
    flattened bases root isIface fuel c = l.filter isIface := by
  have := sro_eq_c3 ha hnd hroot fuel c l (by split <;> omega) hl
  simp [flattened, this]

/-- non-vacuity, the legacy clause: X = 1, Y = 2, X2 = 3 (X), IBase = 4 (X, Y), ISub = 5 (IBase, X, X2) has no C3 order and gets
its legacy order, which disagrees with IBase's about X and Y; `Declaration(ISub, IBase)` (node 9) then has no C3 order among
its bases' orders either and flattens in ITS legacy order -/
example : flattened (fun | 1 => [0] | 2 => [0] | 3 => [1] | 4 => [1, 2] | 5 => [4, 1, 3] | 9 => [5, 4] | _ => []) 0 (· < 9) 8 9
    = [5, 3, 4, 1, 2, 0] := by decide

/-- non-vacuity: `Declaration(IOther, IBase) + IDerived` puts the extender in front of everything -/
example : add (fun i j => i == j || (i == 3 && j == 2)) [1, 2] [3] = [3, 1, 2] := by decide
/-- nested arguments, a plain declaration inside a tuple, duplicates across levels, a class specification expanding to
two interfaces -/
example : iterDecl (fun _ => [5, 1]) [.iface 1, .seq [.decl [.iface 2, .iface 1], .iface 3], .impl 9, .iface 2] = [1, 2, 3, 5] := by
  decide
end ZI.Decl
