import ZI.Registry
/-! # C04 — adapter lookup returns the most specific applicable registration

Model: `ZI.Registry.lookupRec` — the `_lookup` walk of adapter.py over the nested containers `Level Names (n+1)` of one
registry and one arity (the model that is compared with the real code on every run), `uncachedLookup` — the walk over the
registries of `ro`.  Specification: the *paths* `[required₁, …, requiredₙ, provided]` enumerated in lexicographic order of
(position of requiredᵢ in `__sro__` of the i-th looked-up specification, …, position of provided in the extendors), and
`rhit` = what is registered under a path and the name. -/
namespace ZI.Registry
open ZI.RO

/-- all key paths applicable to `specs` / the extendors `ext`, most specific first -/
def rpaths (w : World) : List Id → List Id → List (List K)
  | [], ext => ext.map fun e => [some e]
  | s :: rest, ext => (w.sro s).flatMap fun sp => (rpaths w rest ext).map fun p => some sp :: p

/-- the value registered under exactly this path and name -/
def rhit (n : Nat) (m : Level Names (n+1)) (name : String) (p : List K) : Option Val :=
  (Level.find (n+1) m p).bind fun names => AList.get? names name

theorem findSome?_flatMap' {α β γ} (l : List α) (g : α → List β) (f : β → Option γ) :
    (l.flatMap g).findSome? f = l.findSome? fun a => (g a).findSome? f := by
  induction l with
  | nil => rfl
  | cons a t ih => simp [List.flatMap_cons, List.findSome?_append, ih, List.findSome?_cons]; cases (g a).findSome? f <;> simp

theorem findSome?_map'' {α β γ} (l : List α) (g : α → β) (f : β → Option γ) :
    (l.map g).findSome? f = l.findSome? (f ∘ g) := by
  induction l with
  | nil => rfl
  | cons a t ih => simp [List.findSome?_cons, ih]

theorem findSome?_congr'' {α β} {l : List α} {f g : α → Option β} (h : ∀ a ∈ l, f a = g a) :
    l.findSome? f = l.findSome? g := by
  induction l with
  | nil => rfl
  | cons a t ih =>
    simp only [List.findSome?_cons]
    rw [h a (List.mem_cons_self ..), ih (fun x hx => h x (List.mem_cons_of_mem _ hx))]

theorem rhit_cons (n : Nat) (m : Level Names (n+2)) (name : String) (k : K) (p : List K) :
    rhit (n+1) m name (k :: p) = (AList.get? (kidsOf m) k).bind fun c => rhit n c name p := by
  simp only [rhit, Level.find]
  cases AList.get? (kidsOf m) k <;> rfl

theorem rhit_zero (m : Level Names 1) (name : String) (k : K) :
    rhit 0 m name [k] = (AList.get? (kidsOf m) k).bind fun names => AList.get? (leafOf names) name := by
  simp only [rhit, Level.find]
  cases AList.get? (kidsOf m) k <;> rfl

theorem rhit_emptyNode (n : Nat) (m : Level Names (n+1)) (name : String) (p : List K) (h : Level.isEmptyNode m = true) :
    rhit n m name p = none := by
  have he : kidsOf m = [] := List.isEmpty_iff.mp h
  cases p with
  | nil => simp [rhit, Level.find]
  | cons k ks => simp [rhit, Level.find, he, AList.get?]

/-- **C04 core** on the model that is tied to the code: the nested `_lookup` walk returns the first hit along the paths in
lexicographic order -/
theorem lookupRec_eq_first (w : World) : ∀ (n : Nat) (m : Level Names (n+1)) (specs : List Id) (ext : List Id) (name : String),
    specs.length = n → lookupRec w n m specs ext name = (rpaths w specs ext).findSome? (rhit n m name) := by
  intro n
  induction n with
  | zero =>
    intro m specs ext name hl
    have : specs = [] := by cases specs <;> simp_all
    subst this
    simp only [lookupRec, rpaths, findSome?_map'']
    apply findSome?_congr''
    intro iface _
    simp only [Function.comp, rhit_zero]
    cases AList.get? (kidsOf m) (some iface) <;> rfl
  | succ n ih =>
    intro m specs ext name hl
    cases specs with
    | nil => simp at hl
    | cons s rest =>
      simp only [lookupRec, rpaths, findSome?_flatMap', findSome?_map'']
      apply findSome?_congr''
      intro sp _
      have hrest : rest.length = n := by simpa using hl
      have hcomp : ((rhit (n+1) m name) ∘ fun p => some sp :: p) =
          fun p => (AList.get? (kidsOf m) (some sp)).bind fun c => rhit n c name p := by
        funext p; simp only [Function.comp, rhit_cons]
      rw [hcomp]
      cases hg : AList.get? (kidsOf m) (some sp) with
      | none =>
        simp only [Option.bind_none]
        symm
        exact List.findSome?_eq_none_iff.mpr fun p _ => rfl
      | some comps =>
        simp only [Option.bind_some]
        split
        · rename_i he
          symm
          exact List.findSome?_eq_none_iff.mpr fun p _ => rhit_emptyNode n comps name p he
        · exact ih comps rest ext name hrest

/-- position-wise applicability of the required keys: the i-th key is in the `__sro__` of the i-th looked-up specification -/
inductive ReqOk (w : World) : List Id → List Id → Prop
  | nil : ReqOk w [] []
  | cons {r s req specs} : r ∈ w.sro s → ReqOk w req specs → ReqOk w (r :: req) (s :: specs)

/-- a path is applicable exactly when every required key is in the `__sro__` of the corresponding looked-up specification
and the provided key is one of the extendors (an interface that is or extends the one asked for) -/
theorem mem_rpaths (w : World) : ∀ (specs : List Id) (ext : List Id) (p : List K),
    p ∈ rpaths w specs ext ↔ ∃ (req : List Id) (e : Id), p = req.map some ++ [some e] ∧ e ∈ ext ∧
      ReqOk w req specs := by
  intro specs
  induction specs with
  | nil =>
    intro ext p
    simp only [rpaths, List.mem_map]
    constructor
    · rintro ⟨e, he, rfl⟩; exact ⟨[], e, rfl, he, ReqOk.nil⟩
    · rintro ⟨req, e, rfl, he, hf⟩
      cases hf; exact ⟨e, he, rfl⟩
  | cons s rest ih =>
    intro ext p
    simp only [rpaths, List.mem_flatMap, List.mem_map]
    constructor
    · rintro ⟨sp, hsp, q, hq, rfl⟩
      obtain ⟨req, e, rfl, he, hf⟩ := (ih ext q).mp hq
      exact ⟨sp :: req, e, rfl, he, ReqOk.cons hsp hf⟩
    · rintro ⟨req, e, rfl, he, hf⟩
      cases hf with
      | cons hsp hf' =>
        rename_i r req'
        exact ⟨r, hsp, req'.map some ++ [some e], (ih ext _).mpr ⟨req', e, rfl, he, hf'⟩, rfl⟩

/-- **C04_sound**: a value that is returned is registered under an applicable path -/
theorem C04_sound (w : World) (n : Nat) (m : Level Names (n+1)) (specs ext : List Id) (name : String) (v : Val)
    (hl : specs.length = n) (h : lookupRec w n m specs ext name = some v) :
    ∃ p ∈ rpaths w specs ext, rhit n m name p = some v := by
  rw [lookupRec_eq_first w n m specs ext name hl] at h
  obtain ⟨p, hp, hv⟩ := List.exists_of_findSome?_eq_some h
  exact ⟨p, hp, hv⟩

/-- **C04_complete / C04_default**: the default is returned exactly when no applicable path has a registration -/
theorem C04_complete (w : World) (n : Nat) (m : Level Names (n+1)) (specs ext : List Id) (name : String)
    (hl : specs.length = n) :
    lookupRec w n m specs ext name = none ↔ ∀ p ∈ rpaths w specs ext, rhit n m name p = none := by
  rw [lookupRec_eq_first w n m specs ext name hl]
  exact List.findSome?_eq_none_iff

/-- **C04_best**: the registration returned is the one of the FIRST applicable path in lexicographic order of positions
(leftmost required position first, then the following ones, then the extendors order): every path enumerated before it
has nothing registered under the name -/
theorem C04_best (w : World) (n : Nat) (m : Level Names (n+1)) (specs ext : List Id) (name : String) (v : Val)
    (hl : specs.length = n) (h : lookupRec w n m specs ext name = some v) :
    ∃ pre p post, rpaths w specs ext = pre ++ p :: post ∧ rhit n m name p = some v ∧ ∀ q ∈ pre, rhit n m name q = none := by
  rw [lookupRec_eq_first w n m specs ext name hl] at h
  obtain ⟨pre, p, post, e, hv, hpre⟩ := List.findSome?_eq_some_iff.mp h
  exact ⟨pre, p, post, e, hv, hpre⟩

/-- the enumeration order IS the lexicographic order of positions: paths through an earlier element of the first
`__sro__` all come before paths through a later one, whatever the remaining positions are -/
theorem rpaths_first_position (w : World) (s : Id) (rest ext : List Id) (l1 l2 : List Id) (a : Id)
    (hs : w.sro s = l1 ++ a :: l2) :
    rpaths w (s :: rest) ext =
      (l1.flatMap fun sp => (rpaths w rest ext).map fun p => some sp :: p) ++
      ((rpaths w rest ext).map fun p => some a :: p) ++
      (l2.flatMap fun sp => (rpaths w rest ext).map fun p => some sp :: p) := by
  simp [rpaths, hs, List.flatMap_append, List.flatMap_cons]

/-- what one registry of the chain answers (`none` = it has nothing applicable) -/
def regLookup (w : World) (b : Nat) (req : List Id) (prov : Id) (name : String) : Option Val :=
  let x := w.reg b
  if !(x.adapters.any (·.order == req.length)) then none else
  match AList.get? x.extendors prov with
  | none => none
  | some ext => if ext.isEmpty then none else lookupRec w req.length (getOrder ([] : Names) x.adapters req.length) req ext name

/-- **C04_chain**: registries are consulted in `ro` order and the first one that has an applicable registration wins:
the answer comes from a registry `b` of the chain such that no registry before `b` in `ro` has any -/
theorem C04_chain (w : World) (r : Nat) (req : List Id) (prov : Id) (name : String) (v : Val)
    (h : uncachedLookup w r req prov name = some v) :
    ∃ pre b post, (w.reg r).ro = pre ++ b :: post ∧ regLookup w b req prov name = some v ∧
      ∀ b' ∈ pre, regLookup w b' req prov name = none := by
  have e : uncachedLookup w r req prov name = (w.reg r).ro.findSome? fun b => regLookup w b req prov name := rfl
  rw [e] at h
  obtain ⟨pre, b, post, e2, hv, hpre⟩ := List.findSome?_eq_some_iff.mp h
  exact ⟨pre, b, post, e2, hv, hpre⟩

/-- non-vacuity: two registrations for one name; the one on the more specific required interface wins although the other
provides a more specific interface -/
example :
    let w : World := { sro := fun i => if i = 2 then [2, 1, 0] else [i, 0], iro := fun i => [i, 0], regs := [], verifying := false }
    let m : Level Names 2 := mkNode [(some 1, mkNode [(some 5, mkLeaf [("", ⟨10, 1⟩)])]), (some 2, mkNode [(some 6, mkLeaf [("", ⟨20, 2⟩)])])]
    lookupRec w 1 m [2] [5, 6] "" = some ⟨20, 2⟩ := by decide
end ZI.Registry
