import ZI.Graph2Proofs
import ZI.Valid2
/-! # C02 — extends / isOrExtends equal reachability over current bases, after any rebasing

Model: `ZI.Graph2` (`Specification.__setBases`, `subscribe`/`unsubscribe`, `changed`, cached `__sro__`).
History = any list of node creations and `__bases__` reassignments, each well-formed
(`WFOp`: duplicate-free base list, result acyclic).  `isOrExtends s t` is `t ∈ sro s`
(the `_implied` dictionary is filled from the ancestors list in `changed`). -/
namespace ZI.Graph2
open ZI.RO

/-- the world after a history -/
def run (ops : List Op) : G := ops.foldl step (init 0)

def WFHist (ops : List Op) : Prop :=
  ∀ k (h : k < ops.length), WFOp ((ops.take k).foldl step (init 0)) ops[k]

/-- the invariant holds in every reachable world -/
theorem reach_inv (ops : List Op) (hwf : WFHist ops) : Inv (run ops) := by
  suffices h : ∀ (ops : List Op) (g : G), Inv g →
      (∀ k (h : k < ops.length), WFOp ((ops.take k).foldl step g) ops[k]) → Inv (ops.foldl step g) from
    h ops (init 0) ⟨0, good_init 0, Nat.zero_le _⟩ hwf
  intro ops
  induction ops with
  | nil => intro g hi _; exact hi
  | cons op rest ih =>
    intro g hi hw
    simp only [List.foldl_cons]
    have h0 : WFOp g op := by
      have := hw 0 (by simp)
      simpa [List.take] using this
    apply ih (step g op) (inv_step g op hi h0)
    intro k hk
    have := hw (k+1) (by simp; omega)
    simpa using this

def C02_fresh_stmt : Prop := ∀ ops : List Op, WFHist ops →
  ∀ x, (run ops).sro x = fresh (run ops) x

/-- **C02_fresh**: every specification answers exactly as a freshly built graph of the same shape. -/
theorem C02_fresh_thm : C02_fresh_stmt := fun ops hwf x => C02_fresh ops hwf x

/-- the root keeps its empty base list as long as no operation targets it -/
def NoRootOp (ops : List Op) : Prop := ∀ op ∈ ops, match op with | .new s _ => s ≠ 0 | .set s _ => s ≠ 0

theorem foldl_unsub_bases (s : Id) : ∀ (l : List Id) (g : G), (l.foldl (fun g b => unsubscribe g b s) g).bases = g.bases := by
  intro l; induction l with
  | nil => intro g; rfl
  | cons b t ih => intro g; simp only [List.foldl_cons]; rw [ih]; rfl
theorem foldl_sub_bases (s : Id) : ∀ (l : List Id) (g : G), (l.foldl (fun g b => subscribe g b s) g).bases = g.bases := by
  intro l; induction l with
  | nil => intro g; rfl
  | cons b t ih => intro g; simp only [List.foldl_cons]; rw [ih]; rfl

theorem bases_setBases (g : G) (s : Id) (bs : List Id) : (setBases g s bs).bases = upd g.bases s bs := by
  simp only [setBases]
  rw [(changed_spec _ _ _ s).1, foldl_sub_bases]
  show upd (List.foldl (fun g b => unsubscribe g b s) g (g.bases s)).bases s bs = _
  rw [foldl_unsub_bases]

theorem root_setBases (g : G) (s : Id) (bs : List Id) : (setBases g s bs).root = g.root := by
  simp only [setBases]
  rw [(changed_spec _ _ _ s).2.2.1]
  have hs : ∀ (l : List Id) (g : G), (l.foldl (fun g b => subscribe g b s) g).root = g.root := by
    intro l; induction l with
    | nil => intro g; rfl
    | cons b t ih => intro g; simp only [List.foldl_cons]; rw [ih]; rfl
  have hu : ∀ (l : List Id) (g : G), (l.foldl (fun g b => unsubscribe g b s) g).root = g.root := by
    intro l; induction l with
    | nil => intro g; rfl
    | cons b t ih => intro g; simp only [List.foldl_cons]; rw [ih]; rfl
  rw [hs]; show (List.foldl (fun g b => unsubscribe g b s) g (g.bases s)).root = _; rw [hu]

theorem root_bases_run (ops : List Op) (hnr : NoRootOp ops) : (run ops).root = 0 ∧ (run ops).bases 0 = [] := by
  suffices h : ∀ (ops : List Op) (g : G), g.root = 0 → g.bases 0 = [] → NoRootOp ops →
      (ops.foldl step g).root = 0 ∧ (ops.foldl step g).bases 0 = [] from h ops (init 0) rfl rfl hnr
  intro ops
  induction ops with
  | nil => intro g h1 h2 _; exact ⟨h1, h2⟩
  | cons op rest ih =>
    intro g h1 h2 hn
    simp only [List.foldl_cons]
    have hop := hn op (by simp)
    have hrest : NoRootOp rest := fun o ho => hn o (by simp [ho])
    cases op with
    | new s bs =>
      apply ih _ _ _ hrest
      · show (setBases _ s bs).root = 0
        rw [root_setBases]; exact h1
      · show (setBases _ s bs).bases 0 = []
        rw [bases_setBases]; simp only [upd]
        have : (0 : Id) ≠ s := fun e => hop e.symm
        simp [this]; exact h2
    | set s bs =>
      apply ih _ _ _ hrest
      · show (setBases _ s bs).root = 0
        rw [root_setBases]; exact h1
      · show (setBases _ s bs).bases 0 = []
        rw [bases_setBases]; simp only [upd]
        have : (0 : Id) ≠ s := fun e => hop e.symm
        simp [this]; exact h2

def C02_implied_stmt : Prop := ∀ ops : List Op, WFHist ops → NoRootOp ops →
  ∀ s t, t ∈ (run ops).sro s ↔ (Reach (run ops).bases s t ∨ t = 0)

/-- **C02_implied** (`isOrExtends`, `__sro__` membership): in every reachable world `t` is in the cached order of
`s` exactly when `t` is `s`, reachable through the *current* bases, or the root. -/
theorem C02_implied : C02_implied_stmt := by
  intro ops hwf hnr s t
  obtain ⟨N, hg, _⟩ := reach_inv ops hwf
  obtain ⟨rank, ha, hr⟩ := hg.acyc
  obtain ⟨hroot, hb0⟩ := root_bases_run ops hnr
  have hf := hg.fresh (N+1) (Nat.lt_succ_self _) s
  rw [hf, hroot]
  exact (sroFresh_valid ha hb0 (N+1) s (by have := hr s; omega)).mem t

/-- `S.extends(T)` (strict) is membership without the self case -/
def extendsStrict (g : G) (s t : Id) : Bool := (g.sro s).contains t && s != t

def C02_extends_stmt : Prop := ∀ ops : List Op, WFHist ops → NoRootOp ops →
  ∀ s t, extendsStrict (run ops) s t = true ↔ ((Reach (run ops).bases s t ∨ t = 0) ∧ s ≠ t)

theorem C02_extends : C02_extends_stmt := by
  intro ops hwf hnr s t
  have h := C02_implied ops hwf hnr s t
  simp only [extendsStrict, Bool.and_eq_true, List.contains_iff_mem, bne_iff_ne, ne_eq]
  rw [h]

/-- non-vacuity: a three-step history (diamond top re-based) is well-formed -/
example : WFHist [.new 1 [0], .new 2 [1], .set 1 []] := by
  intro k hk
  have : k = 0 ∨ k = 1 ∨ k = 2 := by simp at hk; omega
  rcases this with rfl | rfl | rfl
  · exact ⟨by simp, fun x => if x = 1 then 1 else 0, by intro s b hb; simp [upd, init] at hb; obtain ⟨rfl, rfl⟩ := hb; simp, by intro x; simp [init]; split <;> omega⟩
  · refine ⟨by simp, fun x => if x = 2 then 2 else if x = 1 then 1 else 0, ?_, by intro x; simp [step, newNode]; rw [ids_setBases]; simp [init]; split <;> (try split) <;> omega⟩
    intro s b hb
    simp only [List.take, List.foldl, step, newNode, upd, bases_setBases] at hb
    by_cases h2 : s = 2
    · subst h2; simp at hb; subst hb; simp
    · by_cases h1 : s = 1
      · subst h1; simp [init] at hb; subst hb; simp
      · simp [h1, h2, init] at hb
  · refine ⟨by simp, fun x => if x = 2 then 1 else 0, ?_, by intro x; simp only [List.take, List.foldl, step, newNode, ids_setBases]; simp [init]; split <;> omega⟩
    intro s b hb
    simp only [List.take, List.foldl, step, newNode, upd, bases_setBases] at hb
    by_cases h1 : s = 1
    · subst h1; simp at hb
    · by_cases h2 : s = 2
      · subst h2; simp at hb; subst hb; simp
      · simp [h1, h2, init] at hb

#print axioms C02_fresh_thm
#print axioms C02_implied
end ZI.Graph2
