import ZI.Props.C04
/-! # C07 — subscriptions() returns every applicable subscriber, with multiplicity, in order

Model: `ZI.Registry.subsRec` — the `_subscriptions` walk of adapter.py over the nested containers of one registry and one
arity, `uncachedSubscriptions` — over the registries of `ro`, base registries first.  Specification: the concatenation of the
leaf lists (each in subscription order) over all applicable paths enumerated in REVERSED lexicographic order — less specific
required specifications first, position by position from the left. -/
namespace ZI.Registry
open ZI.RO

/-- applicable paths, least specific first: every `__sro__` and the extendors are walked backwards -/
def spaths (w : World) : List Id → List K → List (List K)
  | [], ext => ext.reverse.map fun e => [e]
  | s :: rest, ext => (w.sro s).reverse.flatMap fun sp => (spaths w rest ext).map fun p => some sp :: p

/-- the subscribers stored under exactly this path, in subscription order -/
def sleaf (n : Nat) (m : Level (List Val) (n+1)) (p : List K) : List Val := (Level.find (n+1) m p).getD []

theorem foldl_append_flatMap {α} (l : List α) (g : α → List Val) (acc : List Val) :
    l.foldl (fun acc a => acc ++ g a) acc = acc ++ l.flatMap g := by
  induction l generalizing acc with
  | nil => simp
  | cons a t ih => simp [List.foldl_cons, ih, List.flatMap_cons, List.append_assoc]

theorem foldl_ext {α β} (f g : β → α → β) (h : ∀ b a, f b a = g b a) (l : List α) (b : β) : l.foldl f b = l.foldl g b := by
  induction l generalizing b with
  | nil => rfl
  | cons a t ih => simp only [List.foldl_cons, h, ih]

theorem flatMap_congr_mem {α β} {l : List α} {f g : α → List β} (h : ∀ a ∈ l, f a = g a) : l.flatMap f = l.flatMap g := by
  induction l with
  | nil => rfl
  | cons a t ih =>
    simp only [List.flatMap_cons]
    rw [h a (List.mem_cons_self ..), ih (fun x hx => h x (List.mem_cons_of_mem _ hx))]

theorem sleaf_cons (n : Nat) (m : Level (List Val) (n+2)) (k : K) (p : List K) :
    sleaf (n+1) m (k :: p) = match AList.get? (kidsOf m) k with | some c => sleaf n c p | none => [] := by
  simp only [sleaf, Level.find]
  cases AList.get? (kidsOf m) k <;> rfl

theorem sleaf_zero (m : Level (List Val) 1) (k : K) :
    sleaf 0 m [k] = match AList.get? (kidsOf m) k with | some vs => leafOf vs | none => [] := by
  simp only [sleaf, Level.find]
  cases AList.get? (kidsOf m) k <;> rfl

theorem sleaf_emptyNode (n : Nat) (m : Level (List Val) (n+1)) (p : List K) (h : Level.isEmptyNode m = true) :
    sleaf n m p = [] := by
  have he : kidsOf m = [] := List.isEmpty_iff.mp h
  cases p with
  | nil => simp [sleaf, Level.find]
  | cons k ks => simp [sleaf, Level.find, he, AList.get?]

theorem flatMap_flatMap_map {α β} (l : List α) (ps : List β) (f : α → β → List Val) :
    (l.flatMap fun a => ps.map fun p => (a, p)).flatMap (fun q => f q.1 q.2) = l.flatMap fun a => ps.flatMap (f a) := by
  induction l with
  | nil => rfl
  | cons a t ih => simp [List.flatMap_cons, List.flatMap_append, ih, List.flatMap_map]

/-- **C07 core**: the `_subscriptions` walk appends, to what it was given, the leaf lists of all applicable paths in
reversed lexicographic order -/
theorem subsRec_eq_concat (w : World) : ∀ (n : Nat) (m : Level (List Val) (n+1)) (specs : List Id) (ext : List K) (acc : List Val),
    specs.length = n → subsRec w n m specs ext acc = acc ++ (spaths w specs ext).flatMap (sleaf n m) := by
  intro n
  induction n with
  | zero =>
    intro m specs ext acc hl
    have : specs = [] := by cases specs <;> simp_all
    subst this
    simp only [subsRec, spaths]
    refine (foldl_ext _ (fun acc iface => acc ++ sleaf 0 m [iface]) ?_ _ _).trans ?_
    · intro acc iface
      rw [sleaf_zero]
      cases AList.get? (kidsOf m) iface <;> simp
    · rw [foldl_append_flatMap, List.flatMap_map]
  | succ n ih =>
    intro m specs ext acc hl
    cases specs with
    | nil => simp at hl
    | cons s rest =>
      have hrest : rest.length = n := by simpa using hl
      simp only [subsRec, spaths]
      refine (foldl_ext _ (fun acc sp => acc ++ ((spaths w rest ext).flatMap fun p => sleaf (n+1) m (some sp :: p))) ?_ _ _).trans ?_
      · intro acc sp
        cases hg : AList.get? (kidsOf m) (some sp) with
        | none =>
          have : (spaths w rest ext).flatMap (fun p => sleaf (n+1) m (some sp :: p)) = [] := by
            have h0 : ∀ p, sleaf (n+1) m (some sp :: p) = [] := fun p => by rw [sleaf_cons, hg]
            rw [flatMap_congr_mem (g := fun _ => []) (fun p _ => h0 p)]
            induction spaths w rest ext <;> simp_all [List.flatMap_cons]
          simp [this]
        | some comps =>
          have hsl : ∀ p, sleaf (n+1) m (some sp :: p) = sleaf n comps p := fun p => by rw [sleaf_cons, hg]
          rw [flatMap_congr_mem (g := fun p => sleaf n comps p) (fun p _ => hsl p)]
          simp only
          split
          · rename_i he
            have h0 : ∀ p, sleaf n comps p = [] := fun p => sleaf_emptyNode n comps p he
            rw [flatMap_congr_mem (g := fun _ => []) (fun p _ => h0 p)]
            have : (spaths w rest ext).flatMap (fun _ => ([] : List Val)) = [] := by
              induction spaths w rest ext <;> simp_all [List.flatMap_cons]
            simp [this]
          · exact ih comps rest ext acc hrest
      · rw [foldl_append_flatMap, List.flatMap_assoc]
        congr 1
        apply flatMap_congr_mem
        intro sp _
        rw [List.flatMap_map]

/-- **C07_multiset** (one registry, one arity): the result is exactly the subscribers stored under the applicable paths,
each path contributing its whole list — nothing dropped, nothing duplicated -/
theorem C07_multiset (w : World) (n : Nat) (m : Level (List Val) (n+1)) (specs : List Id) (ext : List K) (hl : specs.length = n) :
    subsRec w n m specs ext [] = (spaths w specs ext).flatMap (sleaf n m) := by
  rw [subsRec_eq_concat w n m specs ext [] hl]; simp

/-- **C07_order**: less specific required specifications come first — all subscribers reached through a LATER element of
the first looked-up specification's `__sro__` precede all those reached through an earlier one -/
theorem C07_order_first_position (w : World) (n : Nat) (m : Level (List Val) (n+2)) (s : Id) (rest : List Id) (ext : List K)
    (l1 l2 : List Id) (a : Id) (hs : w.sro s = l1 ++ a :: l2) (hl : rest.length = n) :
    subsRec w (n+1) m (s :: rest) ext [] =
      (l2.reverse.flatMap fun sp => (spaths w rest ext).flatMap fun p => sleaf (n+1) m (some sp :: p)) ++
      ((spaths w rest ext).flatMap fun p => sleaf (n+1) m (some a :: p)) ++
      (l1.reverse.flatMap fun sp => (spaths w rest ext).flatMap fun p => sleaf (n+1) m (some sp :: p)) := by
  rw [C07_multiset w (n+1) m (s :: rest) ext (by simp [hl])]
  simp only [spaths, hs, List.reverse_append, List.reverse_cons, List.flatMap_append, List.flatMap_cons, List.flatMap_nil,
    List.append_nil, List.flatMap_assoc, List.flatMap_map, List.append_assoc]

/-- non-vacuity: IB(IA); subscribers on IA and on IB, two on IB in subscription order: IA's first, then IB's in order -/
example :
    let w : World := { sro := fun i => if i = 2 then [2, 1, 0] else [i, 0], iro := fun i => [i, 0], regs := [], verifying := false }
    let m : Level (List Val) 2 := mkNode [(some 2, mkNode [(some 5, mkLeaf [⟨20, 2⟩, ⟨21, 2⟩])]), (some 1, mkNode [(some 5, mkLeaf [⟨10, 1⟩])])]
    subsRec w 1 m [2] [some 5] [] = [⟨10, 1⟩, ⟨20, 2⟩, ⟨21, 2⟩] := by decide
end ZI.Registry
