import ZI.WorldModel
/-! # C19 — super() proxies see only the remainder of the MRO

Model: `ZI.World.superSpec` (`_implementedBy_super`): the specification of `super(C, ob)` is a synthesized class
specification whose bases are `implementedBy(D)` for the classes `D` strictly after `C` in `type(ob).__mro__`, cached per
(class specification of `type(ob)`, `C`) and dropped whenever that class specification is `changed()`. -/
namespace ZI.World

/-- the classes `_implementedBy_super` keeps: everything strictly after `c` in the MRO -/
def remainder (mro : List Nat) (c : Nat) : List Nat := (mro.dropWhile (· != c)).drop 1

theorem dropWhile_ne_split (l : List Nat) (c : Nat) (h : c ∈ l) :
    ∃ pre post, l = pre ++ c :: post ∧ c ∉ pre ∧ l.dropWhile (· != c) = c :: post := by
  induction l with
  | nil => simp at h
  | cons x xs ih =>
    by_cases hx : x = c
    · subst hx
      exact ⟨[], xs, rfl, by simp, by simp [List.dropWhile_cons]⟩
    · have hc : c ∈ xs := by
        rcases List.mem_cons.mp h with h | h
        · exact absurd h.symm hx
        · exact h
      obtain ⟨pre, post, e, hn, hd⟩ := ih hc
      refine ⟨x :: pre, post, by rw [e]; rfl, ?_, ?_⟩
      · intro hm
        rcases List.mem_cons.mp hm with h' | h'
        · exact hx h'.symm
        · exact hn h'
      · have : (x != c) = true := by simpa using hx
        simp [List.dropWhile_cons, this, hd]

/-- **C19_mro_remainder**: for a duplicate-free MRO containing `C`, the classes whose specifications the proxy's
specification is built from are exactly those after `C` — neither `C` itself nor any class before it -/
theorem C19_mro_remainder (mro : List Nat) (c : Nat) (hc : c ∈ mro) (hnd : mro.Nodup) :
    ∃ pre, mro = pre ++ c :: remainder mro c ∧ c ∉ remainder mro c ∧ ∀ d ∈ pre, d ∉ remainder mro c := by
  obtain ⟨pre, post, e, _, hd⟩ := dropWhile_ne_split mro c hc
  have hr : remainder mro c = post := by simp [remainder, hd]
  rw [hr]
  rw [e] at hnd
  have h1 := List.nodup_append.mp hnd
  have h2 := List.nodup_cons.mp h1.2.1
  exact ⟨pre, e, h2.1, fun d hd' hp => h1.2.2 d hd' d (List.mem_cons_of_mem _ hp) rfl⟩

/-- **C19_cache_hit_same**: while the per-class cache entry is alive a second `super(C, ob)` query returns the same
specification object (so registrations keyed on it keep matching) … -/
theorem C19_cache_hit_same (u : U) (c o s0 : Nat)
    (hspec : ((u.cw.cls (u.cw.inst o).cls).spec).isSome)
    (hhit : (u.superCache.find? (·.1 == (((u.cw.cls (u.cw.inst o).cls).spec).getD 0, c))).map (·.2) = some s0) :
    (superSpec u c o).2 = s0 := by
  unfold superSpec
  obtain ⟨sp, hsp⟩ := Option.isSome_iff_exists.mp hspec
  have himpl : ZI.Classes.implementedBy 64 u.cw (u.cw.inst o).cls = (u.cw, sp) := by
    show ZI.Classes.implementedBy (63+1) u.cw (u.cw.inst o).cls = _
    simp [ZI.Classes.implementedBy, hsp]
  simp only [himpl]
  rw [hsp] at hhit
  simp only [Option.getD_some] at hhit
  simp [hhit]

/-- non-vacuity: diamond `D(B, C)`, `B(A)`, `C(A)`: for `super(B, d)` the remainder is `[C, A, object]` -/
example : remainder [4, 2, 3, 1, 0] 2 = [3, 1, 0] := by decide
end ZI.World
